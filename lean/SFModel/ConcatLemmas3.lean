/- Helper lemmas for SFModel.Concat, part 3: Frame.from_concat along the rows (axis 0). -/
import SFModel.ConcatLemmas2

namespace SF
namespace Concat
open SF.SetOps

section
variable {α β : Type} [DecidableEq α]

theorem TB.columns_zipWith_single (kinds : List Kind) (cs : List (List β)) :
    (TB.columns (List.zipWith (fun k col => (⟨k, [col]⟩ : Block β)) kinds cs)) =
      List.zipWith (fun k col => (k, col)) kinds cs := by
  induction kinds generalizing cs with
  | nil => simp [TB.columns]
  | cons k ks ih =>
    cases cs with
    | nil => simp [TB.columns]
    | cons c cs => simp [TB.columns, ih]

theorem zipWith_snd (kinds : List Kind) (cs : List (List β)) (h : kinds.length = cs.length) :
    (List.zipWith (fun k col => (k, col)) kinds cs).map (·.2) = cs := by
  induction kinds generalizing cs with
  | nil =>
    cases cs with
    | nil => rfl
    | cons _ _ => simp at h
  | cons k ks ih =>
    cases cs with
    | nil => simp at h
    | cons c cs => simp [ih cs (by simpa using h)]

/-- the member as `from_concat` stacks it: reindexed to the result columns when its own differ -/
def alignedFrame (o : PyOrd α) (cols : Idx α) (fill : β) (f : BFrame α β) : Frame α β :=
  if f.columns.labels ≠ cols.labels then
    match f.toFrame.reindex o none (some cols) fill with
    | .ok r => r
    | .error _ => f.toFrame
  else ⟨f.index, cols, f.toFrame.cols⟩

def alignedTB (o : PyOrd α) (cols : Idx α) (fill : β) (fk : Kind) (f : BFrame α β) : TB β :=
  if f.columns.labels ≠ cols.labels then
    match reindexedColumnsTB o f cols fill fk with
    | .ok tb => tb
    | .error _ => []
  else f.tb

theorem aligned_spec {o : PyOrd α} (ho : o.Lawful) (cols : Idx α) (hc : cols.labels.Nodup) (fill : β) (fk : Kind)
    (f : BFrame α β) (hf : f.toFrame.WF) :
    alignTB o cols fill fk f = .ok (alignedTB o cols fill fk f) ∧
      (alignedTB o cols fill fk f).columns.map (·.2) = (alignedFrame o cols fill f).cols ∧
      (alignedFrame o cols fill f).WF ∧ (alignedFrame o cols fill f).columns = cols ∧
      (alignedFrame o cols fill f).index = f.index ∧
      ∀ x ∈ f.index.labels, ∀ c ∈ cols.labels,
        (alignedFrame o cols fill f).get? x c = some ((f.toFrame.get? x c).getD fill) := by
  by_cases hd : f.columns.labels ≠ cols.labels
  · obtain ⟨r, hr, hrw, hri, hrc, hrg⟩ := Frame.reindex_spec ho f.toFrame hf none (some cols)
      (fun _ h => by cases h) (fun _ h => by cases h; exact hc) fill
    simp only [Option.getD_none, Option.getD_some] at hri hrc
    have hkl : (cols.labels.map fun c => (lookup f.columns.labels f.colKinds c).getD fk).length = r.cols.length := by
      rw [List.length_map, hrw.2.2.1, hrc]
    have hTB : alignedTB o cols fill fk f = List.zipWith (fun k col => (⟨k, [col]⟩ : Block β))
        (cols.labels.map fun c => (lookup f.columns.labels f.colKinds c).getD fk) r.cols := by
      simp only [alignedTB, if_pos hd, reindexedColumnsTB, hr]
    have hFr : alignedFrame o cols fill f = r := by
      simp only [alignedFrame, if_pos hd, hr]
    rw [hFr, hTB]
    refine ⟨?_, ?_, hrw, hrc, hri, ?_⟩
    · simp only [alignTB, if_pos hd, reindexedColumnsTB, hr]
    · rw [TB.columns_zipWith_single, zipWith_snd _ _ hkl]
    · intro x hx c hc'
      exact hrg x (hri ▸ hx) c (hrc ▸ hc')
  · have hd' : f.columns.labels = cols.labels := by
      by_cases h : f.columns.labels = cols.labels
      · exact h
      · exact absurd h hd
    have hTB : alignedTB o cols fill fk f = f.tb := by simp only [alignedTB, if_neg hd]
    have hFr : alignedFrame o cols fill f = ⟨f.index, cols, f.toFrame.cols⟩ := by
      simp only [alignedFrame, if_neg hd]
    rw [hFr, hTB]
    refine ⟨?_, rfl, ?_, rfl, rfl, ?_⟩
    · simp only [alignTB, if_neg hd]
    · obtain ⟨h1, h2, h3, h4⟩ := hf
      exact ⟨h1, hc, by rw [← hd']; exact h3, h4⟩
    · intro x hx c hc'
      have hcf : c ∈ f.toFrame.columns.labels := by
        show c ∈ f.columns.labels
        rw [hd']; exact hc'
      obtain ⟨v, hv⟩ := Frame.get?_isSome hf (show x ∈ f.toFrame.index.labels from hx) hcf
      rw [hv]
      simp only [Frame.get?, BFrame.toFrame, hd'] at hv ⊢
      exact hv

theorem mapMExcept_ok' {γ δ : Type} {f : γ → Except Err δ} {f' : γ → δ} {l : List γ}
    (h : ∀ x ∈ l, f x = .ok (f' x)) : mapMExcept f l = .ok (l.map f') := mapMExcept_ok h

theorem indexManyConcat_ok (idxs : List (Idx α)) (h : (idxs.map (·.labels)).flatten.Nodup) :
    ∃ i, indexManyConcat idxs = .ok i ∧ i.labels = (idxs.map (·.labels)).flatten := by
  cases idxs with
  | nil => exact ⟨⟨[], .float⟩, by simp [indexManyConcat, mkIndex], rfl⟩
  | cons a rest =>
    simp only [indexManyConcat, mkIndex, if_pos h]
    exact ⟨_, rfl, rfl⟩

theorem stackAll_length (m : Nat) (cs : List (List (List β))) (hne : cs ≠ []) (h : ∀ c ∈ cs, c.length = m) :
    (stackAll cs).length = m := by
  induction cs with
  | nil => exact absurd rfl hne
  | cons c rest ih =>
    cases rest with
    | nil => exact h c (by simp)
    | cons d ds =>
      have : stackAll (c :: d :: ds) = appendCols c (stackAll (d :: ds)) := rfl
      rw [this, appendCols, List.length_zipWith, h c (by simp), ih (by simp) (fun x hx => h x (by simp [hx]))]
      exact Nat.min_self m

/-- the block-stacking core of `from_concat(axis=0)`, for result columns `cols` (derived or given):
    the members are aligned on `cols`, stacked by whichever vstack strategy the flags select, and
    the stacked columns are the members' columns one after the other. -/
theorem concat0_blocks {o : PyOrd α} (ho : o.Lawful) (f0 : BFrame α β) (rest : List (BFrame α β))
    (cols : Idx α) (hcn : cols.labels.Nodup) (hne : cols.labels ≠ []) (fill : β) (fk : Kind)
    (hwf : ∀ f ∈ f0 :: rest, f.toFrame.WF) :
    ∃ tbs blocks, mapMExcept (alignTB o cols fill fk) (f0 :: rest) = .ok tbs ∧
      vstackBlocksToBlocks tbs (compatFlags tbs).1 (compatFlags tbs).2 = .ok blocks ∧
      blocks.isEmpty = false ∧
      blocks.columns.map (·.2) = stackAll (((f0 :: rest).map (alignedFrame o cols fill)).map (·.cols)) := by
  have hal := fun f (hf : f ∈ f0 :: rest) => aligned_spec ho cols hcn fill fk f (hwf f hf)
  have htbs : mapMExcept (alignTB o cols fill fk) (f0 :: rest)
      = .ok ((f0 :: rest).map (alignedTB o cols fill fk)) :=
    mapMExcept_ok' (fun f hf => (hal f hf).1)
  have hclen : ∀ f ∈ f0 :: rest, (alignedTB o cols fill fk f).columns.length = cols.labels.length := by
    intro f hf
    have h1 := (hal f hf).2.1
    have h2 := (hal f hf).2.2.1
    have h3 := (hal f hf).2.2.2.1
    have : ((alignedTB o cols fill fk f).columns.map (·.2)).length = cols.labels.length := by
      rw [h1, h2.2.2.1, h3]
    simpa using this
  have hflags := compatFlags_spec (alignedTB o cols fill fk f0) (rest.map (alignedTB o cols fill fk))
  have hcl : ∀ x ∈ rest.map (alignedTB o cols fill fk),
      x.columns.length = (alignedTB o cols fill fk f0).columns.length := by
    intro x hx
    obtain ⟨f, hf, rfl⟩ := List.mem_map.mp hx
    rw [hclen f (by simp [hf]), hclen f0 (by simp)]
  obtain ⟨blocks, r', hb, hr', hbr⟩ := vstack_agree (alignedTB o cols fill fk f0)
    (rest.map (alignedTB o cols fill fk)) _ _ hflags.1 hflags.2 hcl
  obtain ⟨r'', hr'', hvals⟩ := vstackColumns_values (alignedTB o cols fill fk f0)
    (rest.map (alignedTB o cols fill fk)) hcl
  rw [hr'] at hr''
  cases hr''
  have hfold : ∀ (init : List (List β)) (l : List (BFrame α β)), (∀ f ∈ l, f ∈ f0 :: rest) →
      (l.map (alignedTB o cols fill fk)).foldl
        (fun acc x => appendCols acc (x.columns.map (·.2))) init =
      (l.map fun f => (alignedFrame o cols fill f).cols).foldl (fun acc x => appendCols acc x) init := by
    intro init l hl
    induction l generalizing init with
    | nil => rfl
    | cons y ys ih =>
      simp only [List.foldl_cons, List.map_cons]
      rw [(hal y (hl y (by simp))).2.1]
      exact ih _ (fun f hf => hl f (by simp [hf]))
  have hstack : blocks.columns.map (·.2) =
      stackAll (((f0 :: rest).map (alignedFrame o cols fill)).map (·.cols)) := by
    rw [hbr, hvals, hfold _ rest (fun f hf => by simp [hf]), (hal f0 (by simp)).2.1, foldl_appendCols]
    simp only [List.map_cons, List.map_map]
    rfl
  have hlen : (blocks.columns.map (·.2)).length = cols.labels.length := by
    rw [hstack]
    apply stackAll_length _ _ (by simp)
    intro c hc
    obtain ⟨m, hm, rfl⟩ := List.mem_map.mp hc
    obtain ⟨f, hf, rfl⟩ := List.mem_map.mp hm
    rw [(hal f hf).2.2.1.2.2.1, (hal f hf).2.2.2.1]
  have hne' : blocks.isEmpty = false := by
    cases hbk : blocks with
    | nil =>
      rw [hbk] at hlen
      exact absurd (List.length_eq_zero_iff.mp hlen.symm) hne
    | cons _ _ => rfl
  exact ⟨_, blocks, htbs, hb, hne', hstack⟩

/-- what the aligned members look like (used to read cells of the stacked result) -/
theorem aligned_members {o : PyOrd α} (ho : o.Lawful) (fs : List (BFrame α β)) (cols : Idx α)
    (hcn : cols.labels.Nodup) (fill : β) (hwf : ∀ f ∈ fs, f.toFrame.WF) :
    (∀ m ∈ fs.map (alignedFrame o cols fill), m.WF) ∧
    (∀ m ∈ fs.map (alignedFrame o cols fill), m.columns = cols) ∧
    (fs.map (alignedFrame o cols fill)).map (·.index.labels) = fs.map (·.index.labels) ∧
    (∀ f ∈ fs, (alignedFrame o cols fill f).index = f.index) ∧
    ∀ f ∈ fs, ∀ x ∈ f.index.labels, ∀ c ∈ cols.labels,
      (alignedFrame o cols fill f).get? x c = some ((f.toFrame.get? x c).getD fill) := by
  have hal := fun f (hf : f ∈ fs) => aligned_spec ho cols hcn fill .float f (hwf f hf)
  refine ⟨?_, ?_, ?_, ?_, ?_⟩
  · intro m hm
    obtain ⟨f, hf, rfl⟩ := List.mem_map.mp hm
    exact (hal f hf).2.2.1
  · intro m hm
    obtain ⟨f, hf, rfl⟩ := List.mem_map.mp hm
    exact (hal f hf).2.2.2.1
  · rw [List.map_map]
    apply List.map_congr_left
    intro f hf
    simp [(hal f hf).2.2.2.2.1]
  · intro f hf
    exact (hal f hf).2.2.2.2.1
  · intro f hf
    exact (hal f hf).2.2.2.2.2

theorem fromConcat0_unfold (cfg : Cfg α) (f0 : BFrame α β) (rest : List (BFrame α β)) (union : Bool)
    (index columns : IndexArg α) (fill : β) (fk : Kind) (index? : Option (Idx α)) (cols : Idx α)
    (tbs : List (TB β)) (tb : TB β)
    (hidx : alongIndexArg ((f0 :: rest).map fun (f : BFrame α β) => f.index) index = .ok index?)
    (hcols : alignedIndexArg cfg.o union ((f0 :: rest).map fun (f : BFrame α β) => f.columns) columns = .ok cols)
    (htbs : mapMExcept (alignTB cfg.o cols fill fk) (f0 :: rest) = .ok tbs)
    (hb : vstackBlocksToBlocks tbs (compatFlags tbs).1 (compatFlags tbs).2 = .ok tb)
    (hne : tb.isEmpty = false) :
    fromConcat0 cfg (f0 :: rest) union index columns fill fk =
      match finalAlongIndex cfg index? index ((f0 :: rest).map fun (f : BFrame α β) => f.index.labels.length).sum with
      | .error e => .error e
      | .ok idx => .ok ⟨idx, cols, (TB.columns tb).map fun kc => kc.2⟩ := by
  unfold fromConcat0
  simp only [List.isEmpty_cons, Bool.false_eq_true, if_false, hidx, hcols, htbs, hb, hne]
  rfl

/-- `Frame.from_concat(frames, axis=0, union=…)` with derived labels: the row labels are the members'
    row labels in order; every member row keeps its cells under the result columns; a column the
    member lacks holds the fill value. -/
theorem fromConcat0_spec (cfg : Cfg α) (ho : cfg.o.Lawful) (f0 : BFrame α β) (rest : List (BFrame α β))
    (union : Bool) (fill : β) (fk : Kind)
    (hwf : ∀ f ∈ f0 :: rest, f.toFrame.WF)
    (hnd : ((f0 :: rest).map (·.index.labels)).flatten.Nodup)
    (hne : (indexManySet cfg.o union ((f0 :: rest).map (·.columns))).labels ≠ []) :
    ∃ r, fromConcat0 cfg (f0 :: rest) union .none .none fill fk = .ok r ∧ r.WF ∧
      r.index.labels = ((f0 :: rest).map (·.index.labels)).flatten ∧
      r.columns = indexManySet cfg.o union ((f0 :: rest).map (·.columns)) ∧
      ∀ f ∈ f0 :: rest, ∀ x ∈ f.index.labels, ∀ c ∈ r.columns.labels,
        r.get? x c = some ((f.toFrame.get? x c).getD fill) := by
  have hcolsnd : ∀ i ∈ (f0 :: rest).map (·.columns), i.labels.Nodup := by
    intro i hi
    obtain ⟨f, hf, rfl⟩ := List.mem_map.mp hi
    exact (hwf f hf).2.1
  obtain ⟨hcn, _⟩ := indexManySet_spec ho union f0.columns (rest.map (·.columns)) (by simpa using hcolsnd)
  generalize hcols : indexManySet cfg.o union ((f0 :: rest).map (·.columns)) = cols at hne
  have hcn' : cols.labels.Nodup := by rw [← hcols]; simpa using hcn
  obtain ⟨idx, hidx, hidxl⟩ := indexManyConcat_ok ((f0 :: rest).map (·.index))
    (by simpa [List.map_map, Function.comp_def] using hnd)
  have hidxl' : idx.labels = ((f0 :: rest).map (·.index.labels)).flatten := by
    rw [hidxl, List.map_map]; rfl
  obtain ⟨tbs, blocks, htbs, hb, hne', hstack⟩ := concat0_blocks ho f0 rest cols hcn' hne fill fk hwf
  obtain ⟨hmw, hmc, hml, hmi, hmg⟩ := aligned_members ho (f0 :: rest) cols hcn' fill hwf
  have hS := stack_get? cols idx.kind ((f0 :: rest).map (alignedFrame cfg.o cols fill)) (by simp) hmw hmc
    (by rw [hml]; exact hnd)
  rw [hml, ← hstack] at hS
  refine ⟨⟨idx, cols, blocks.columns.map (·.2)⟩, ?_, ?_, hidxl', rfl, ?_⟩
  · rw [fromConcat0_unfold cfg f0 rest union .none .none fill fk (some idx) cols tbs blocks
      (by simp only [alongIndexArg, hidx]) (by simp only [alignedIndexArg, hcols]) htbs hb hne']
    rfl
  · have := hS.1
    rw [← hidxl'] at this
    exact this
  · intro f hf x hx c hc
    have hix : (alignedFrame cfg.o cols fill f).index.labels = f.index.labels := by rw [hmi f hf]
    have h1 := hS.2 (alignedFrame cfg.o cols fill f) (List.mem_map.mpr ⟨f, hf, rfl⟩) x
      (by rw [hix]; exact hx) c hc
    have h2 := hmg f hf x hx c hc
    rw [← h2, ← h1]
    simp only [Frame.get?, hidxl']

end

end Concat
end SF
