/-
  SFModel.Pool — model of `concurrent.futures.Executor.map` as static-frame uses it.

  Mirrors
  * CPython `concurrent/futures/process.py`: `_get_chunks` (`while True: chunk = tuple(islice(it, c));
    if not chunk: return; yield chunk`), `_process_chunk` (`[fn(*args) for args in chunk]`),
    `_chain_from_iterable_of_lists`, and `Executor.map` (`fs = [submit(...) for args in zip(*iterables)]`,
    then a result iterator that pops the futures in *submission* order);
  * `static_frame/core/node_iter.py`: `IterNodeDelegate._apply_iter_items_parallel` (keys are appended
    to a list while `arg_gen()` is consumed by `executor.map`, then `zip(func_keys, results)`);
  * `static_frame/core/batch.py`: `Batch._apply_pool` (same shape) and `Batch._apply_pool_except`
    (one `submit` per argument, `future.result()` per label in order, matching exceptions skipped);
  * `static_frame/core/store_zip.py`: `_StoreZip.read_many` / `write` (pool only when the worker
    setting asks for it).

  The order in which the workers *finish* is the parameter `sched` (a list of task indices, any
  permutation); nothing else about the operating system is modelled.
-/
import SFModel.Basic

namespace SF.Pool

variable {α β κ ν ε τ ρ : Type}

/-! ### A list comprehension that may raise: `[f(x) for x in xs]` -/

/-- `[f x for x in xs]` where `f` may raise: the first raising element aborts the comprehension. -/
def mapE (f : α → Except ε β) : List α → Except ε (List β)
  | [] => .ok []
  | x :: xs =>
    match f x with
    | .error e => .error e
    | .ok y =>
      match mapE f xs with
      | .error e => .error e
      | .ok ys => .ok (y :: ys)

/-! ### `_get_chunks` -/

/-- The `while True` loop of `_get_chunks` with explicit fuel: take `c` items, stop on an empty chunk. -/
def chunksAux (c : Nat) : Nat → List α → List (List α)
  | 0, _ => []
  | fuel + 1, xs =>
    let chunk := xs.take c
    if chunk.isEmpty then [] else chunk :: chunksAux c fuel (xs.drop c)

/-- `_get_chunks(xs, chunksize=c)`; `xs.length + 1` iterations suffice when `c ≥ 1`
    (`chunks_flatten`: nothing is lost). -/
def chunks (c : Nat) (xs : List α) : List (List α) := chunksAux c (xs.length + 1) xs

/-! ### futures, completion order, delivery -/

/-- One completion event: the worker that ran task `i` stores the outcome in future `i`. -/
def completeStep (run : τ → ρ) (tasks : List τ) (futs : List (Option ρ)) (i : Nat) : List (Option ρ) :=
  match tasks[i]? with
  | some t => futs.set i (some (run t))
  | none => futs

/-- All futures start pending (`none`); the events of `sched` happen in that order. -/
def complete (run : τ → ρ) (tasks : List τ) (sched : List Nat) : List (Option ρ) :=
  sched.foldl (completeStep run tasks) (tasks.map fun _ => none)

/-- The result iterator of `Executor.map`: `fs.reverse(); while fs: yield fs.pop().result()` — futures are
    read in submission order; `none` = a future that never completes (the caller would block forever). -/
def collect : List (Option ρ) → Option (List ρ)
  | [] => some []
  | none :: _ => none
  | some r :: rest => (collect rest).map (r :: ·)

/-- Reading outcomes in order: the first raised outcome propagates, later ones are never looked at. -/
def firstError : List (Except ε ρ) → Except ε (List ρ)
  | [] => .ok []
  | .error e :: _ => .error e
  | .ok r :: rest =>
    match firstError rest with
    | .error e => .error e
    | .ok rs => .ok (r :: rs)

/-- `_chain_from_iterable_of_lists` over the result iterator: the chunk result lists chained. -/
def chainResults : Except ε (List (List β)) → Except ε (List β)
  | .error e => .error e
  | .ok lists => .ok lists.flatten

/-- `zip(keys, results)` when the result iterator did not raise. -/
def zipKeys (keys : List κ) : Except ε (List β) → Except ε (List (κ × β))
  | .error e => .error e
  | .ok results => .ok (keys.zip results)

/-- `executor.map(f, xs, chunksize=c)` fully consumed.  `ThreadPoolExecutor.map` ignores `chunksize`.
    `none`: some future never completed (`sched` is not a schedule of all tasks). -/
def executorMap (threads : Bool) (f : α → Except ε β) (xs : List α) (c : Nat) (sched : List Nat) :
    Option (Except ε (List β)) :=
  let c' := if threads then 1 else c
  let tasks := chunks c' xs                                    -- _get_chunks
  let futs := complete (mapE f) tasks sched                    -- _process_chunk per task, any finishing order
  (collect futs).map fun outs => chainResults (firstError outs) -- result_iterator, _chain_from_iterable_of_lists

/-- Number of tasks `executorMap` submits (the harness needs it to build a schedule). -/
def taskCount (threads : Bool) (xs : List α) (c : Nat) : Nat :=
  (chunks (if threads then 1 else c) xs).length

/-! ### key recording + zip (node_iter / Batch) -/

/-- `arg_gen()` run to exhaustion: every `(k, a)` appends `k` to the key list and yields the argument. -/
def argGen (items : List (κ × α)) : List κ × List α :=
  items.foldl (fun acc kv => (acc.1 ++ [kv.1], acc.2 ++ [kv.2])) ([], [])

/-- `zip(keys, executor.map(f, arg_gen(), chunksize=c))` fully consumed (`Batch._apply_pool`;
    `Executor.map` has consumed `arg_gen()` before `zip` asks for the first key — recorded assumption). -/
def poolZip (threads : Bool) (f : α → Except ε β) (items : List (κ × α)) (c : Nat) (sched : List Nat) :
    Option (Except ε (List (κ × β))) :=
  let ka := argGen items
  (executorMap threads f ka.2 c sched).map (zipKeys ka.1)

/-- What `zip(func_keys, results)` would give if `map` were lazy: the key list is still empty when
    `zip` asks for its first key, so the zip ends at once.  (Shows the assumption is needed.) -/
def poolZipLazy (_f : α → Except ε β) (_items : List (κ × α)) : Except ε (List (κ × β)) :=
  .ok (([] : List κ).zip ([] : List β))

/-- The argument handed to the user function by the iterator interfaces. -/
inductive Arg (κ ν : Type)
  | val (v : ν)            -- IterNodeType.VALUES: `func(v)`
  | item (k : κ) (v : ν)   -- IterNodeType.ITEMS: `func((k, v))` in the pool, `func(k, v)` sequentially
deriving Repr, DecidableEq

def mkArg (ytValues : Bool) (k : κ) (v : ν) : Arg κ ν := if ytValues then .val v else .item k v

/-- `IterNodeDelegate._apply_iter_items_parallel` fully consumed by the container constructor. -/
def applyIterItemsParallel (ytValues threads : Bool) (func : Arg κ ν → Except ε β)
    (items : List (κ × ν)) (c : Nat) (sched : List Nat) : Option (Except ε (List (κ × β))) :=
  poolZip threads func (items.map fun kv => (kv.1, mkArg ytValues kv.1 kv.2)) c sched

/-- `(k, <result>)`: the pair is only built when the call returned. -/
def tagKey (k : κ) : Except ε β → Except ε (κ × β)
  | .error e => .error e
  | .ok y => .ok (k, y)

/-- `IterNodeDelegate.apply_iter_items` (the sequential form): `((k, func(..)) for k, v in items)`. -/
def applyIterItems (ytValues : Bool) (func : Arg κ ν → Except ε β) (items : List (κ × ν)) :
    Except ε (List (κ × β)) :=
  mapE (fun kv => tagKey kv.1 (func (mkArg ytValues kv.1 kv.2))) items

/-! ### `Batch._apply_pool_except` -/

/-- `for label, future in zip(labels, futures): try: c = future.result() except exception: continue; yield label, c`. -/
def exceptLoop (caught : ε → Bool) : List (κ × Except ε β) → Except ε (List (κ × β))
  | [] => .ok []
  | (k, .ok v) :: rest =>
    match exceptLoop caught rest with
    | .error e => .error e
    | .ok out => .ok ((k, v) :: out)
  | (_, .error e) :: rest => if caught e then exceptLoop caught rest else .error e

/-- `Batch._apply_pool_except` (chunksize is required to be 1: one `submit` per argument). -/
def applyPoolExcept (caught : ε → Bool) (f : α → Except ε β) (items : List (κ × α)) (sched : List Nat) :
    Option (Except ε (List (κ × β))) :=
  let ka := argGen items
  let futs := complete f ka.2 sched
  (collect futs).map fun outs => exceptLoop caught (ka.1.zip outs)

/-- Sequential `Batch.apply_except`: `for label, frame in items: try: yield label, f(frame) except exception: pass`. -/
def applyExcept (caught : ε → Bool) (f : α → Except ε β) (items : List (κ × α)) : Except ε (List (κ × β)) :=
  exceptLoop caught (items.map fun kv => (kv.1, f kv.2))

/-! ### zipped stores -/

/-- `_StoreZip.read_many`: a process pool iff `read_max_workers is not None`. -/
def storeReadMany (workers : Option Nat) (build : α → Except ε β) (payloads : List α) (c : Nat)
    (sched : List Nat) : Option (Except ε (List β)) :=
  match workers with
  | some _ => executorMap false build payloads c sched
  | none => some (mapE build payloads)

/-- `_StoreZip.write`: the `(label, bytes)` stream; a process pool iff `write_max_workers` is set and `> 1`. -/
def storeWriteStream (workers : Option Nat) (toBytes : α → Except ε β) (payloads : List α) (c : Nat)
    (sched : List Nat) : Option (Except ε (List β)) :=
  match workers with
  | some w => if w > 1 then executorMap false toBytes payloads c sched else some (mapE toBytes payloads)
  | none => some (mapE toBytes payloads)

end SF.Pool
