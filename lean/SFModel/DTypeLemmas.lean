/- Helper lemmas for SFModel.DType (used by Props/C07.lean). -/
import SFModel.DType

namespace SF

/-! ### unfolding `resolve` -/

theorem resolve_eq_of {a b d : DType} (h : resolveE a b = .ok d) : resolve a b = d := by
  rw [resolveE_eq] at h
  injection h

/-- proof-side unfolding of `resolve` (the error arm is dead by `resolveE_ne_error`) -/
theorem resolve_unfold (a b : DType) :
    resolve a b = (match resolveE a b with | .ok d => d | .error _ => DType.obj) := by
  rw [resolveE_eq]

/-! ### units -/

theorem TUnit.rank_inj {u v : TUnit} (h : u.rank = v.rank) : u = v := by
  cases u <;> cases v <;> simp [TUnit.rank] at h <;> rfl

theorem TUnit.finer_comm (u v : TUnit) : u.finer v = v.finer u := by
  unfold TUnit.finer
  by_cases h1 : u.rank ≤ v.rank <;> by_cases h2 : v.rank ≤ u.rank <;> simp [h1, h2]
  · exact (TUnit.rank_inj (by omega)).symm
  · omega

theorem TUnit.rank_finer_left (u v : TUnit) : u.rank ≤ (u.finer v).rank := by
  unfold TUnit.finer; split <;> omega

theorem TUnit.rank_finer_right (u v : TUnit) : v.rank ≤ (u.finer v).rank := by
  unfold TUnit.finer; split <;> omega

theorem TUnit.finer_eq (u v : TUnit) : u.finer v = u ∨ u.finer v = v := by
  unfold TUnit.finer; split <;> simp

theorem resultTd_comm (u v : TUnit) : resultTd u v = resultTd v u := by
  cases u <;> cases v <;> decide

/-! ### arithmetic of widths -/

theorem minFloat_mono {a b : Nat} (h : a ≤ b) : minFloat a ≤ minFloat b := by
  unfold minFloat; (repeat' split) <;> omega

theorem minFloat_ge (a : Nat) : 16 ≤ minFloat a := by
  unfold minFloat; (repeat' split) <;> omega

theorem mant_mono {a b : Nat} (h : a ≤ b) : mant a ≤ mant b := by
  unfold mant; (repeat' split) <;> omega

theorem emax_mono {a b : Nat} (h : a ≤ b) : emax a ≤ emax b := by
  unfold emax; (repeat' split) <;> omega

theorem mant_lt_emax (w : Nat) : mant w < emax w := by
  unfold mant emax; (repeat' split) <;> omega

theorem pow2_mono {a b : Nat} (h : a ≤ b) : 2 ^ a ≤ 2 ^ b :=
  Nat.pow_le_pow_right (by decide) h

theorem fitsMant_of_lt {p n : Nat} (h : n < 2 ^ p) : fitsMant p n = true := by
  unfold fitsMant
  by_cases hn : n = 0
  · subst hn; simp
  · have hl : n.log2 < p := (Nat.log2_lt hn).mpr h
    have : n.log2 + 1 - p = 0 := by omega
    simp [this, Nat.mod_one]

theorem fitsMant_mono {p p' n : Nat} (hp : p ≤ p') (h : fitsMant p n = true) : fitsMant p' n = true := by
  unfold fitsMant at *
  simp only [beq_iff_eq] at *
  have h1 : 2 ^ (n.log2 + 1 - p') ∣ 2 ^ (n.log2 + 1 - p) := Nat.pow_dvd_pow 2 (by omega)
  have h2 : 2 ^ (n.log2 + 1 - p) ∣ n := Nat.dvd_of_mod_eq_zero h
  exact Nat.mod_eq_zero_of_dvd (Nat.dvd_trans h1 h2)

theorem fitsFloat_mono {w w' n : Nat} (hw : w ≤ w') (h : fitsFloat w n = true) : fitsFloat w' n = true := by
  unfold fitsFloat at *
  simp only [Bool.and_eq_true, decide_eq_true_eq] at *
  refine ⟨fitsMant_mono (mant_mono hw) h.1, ?_⟩
  have := pow2_mono (emax_mono hw)
  omega

/-- an integer below `2^w` fits every float format whose mantissa has at least `w` bits -/
theorem fitsFloat_of_lt {w f n : Nat} (hn : n < 2 ^ w) (hw : w ≤ mant f) : fitsFloat f n = true := by
  unfold fitsFloat
  simp only [Bool.and_eq_true, decide_eq_true_eq]
  have h1 := pow2_mono hw
  have h2 := pow2_mono (Nat.le_of_lt (mant_lt_emax f))
  exact ⟨fitsMant_of_lt (by omega), by omega⟩

/-! ### the promotion order `le` and lossy promotions -/

/-- `a.le r`: `r` can be reached from `a` by promotions of `resolve_dtype`. -/
def DType.le : DType → DType → Bool
  | _, .obj => true
  | .bool, .bool => true
  | .int w, .int w' => decide (w ≤ w')
  | .int w, .float f => decide (minFloat w ≤ f)
  | .int w, .complex c => decide (2 * minFloat w ≤ c)
  | .uint w, .uint w' => decide (w ≤ w')
  | .uint w, .int w' => decide (w < w' ∨ w = 0)
  | .uint w, .float f => decide (minFloat w ≤ f)
  | .uint w, .complex c => decide (2 * minFloat w ≤ c)
  | .float f, .float f' => decide (f ≤ f')
  | .float f, .complex c => decide (2 * f ≤ c)
  | .complex c, .complex c' => decide (c ≤ c')
  | .str n, .str m => decide (n ≤ m)
  | .bytes n, .bytes m => decide (n ≤ m)
  | .bytes n, .str m => decide (n ≤ m)
  | .dt u, .dt u' => decide (u.rank ≤ u'.rank)
  | .td u, .td u' => u == u' || u == .generic ||
      (u' != .generic && u.nonlinear == u'.nonlinear && decide (u.rank ≤ u'.rank))
  | _, _ => false

/-- The promotions that do *not* keep every value: an integer type wider than the mantissa of the
    float it is promoted to, bytes into str (outside the claim), calendar datetimes into weeks. -/
def lossyInto : DType → DType → Bool
  | .int w, .float f => decide (mant f < w)
  | .uint w, .float f => decide (mant f < w)
  | .int w, .complex c => decide (mant (c / 2) < w)
  | .uint w, .complex c => decide (mant (c / 2) < w)
  | .bytes _, .str _ => true
  | .dt u, .dt .W => u == .Y || u == .M
  | _, _ => false

theorem DType.le_refl (a : DType) : a.le a = true := by
  cases a <;> simp [DType.le]

theorem DType.le_obj (a : DType) : a.le .obj = true := by
  cases a <;> simp [DType.le]

theorem DType.le_trans {a b c : DType} (h1 : a.le b = true) (h2 : b.le c = true) : a.le c = true := by
  cases a <;> cases b <;> simp [DType.le] at h1 <;> cases c <;> simp [DType.le] at h2 ⊢ <;>
    try omega
  case td.td.td u v w =>
    rcases h1 with (rfl | rfl) | ⟨⟨h1a, h1b⟩, h1c⟩
    · exact h2
    · simp
    · rcases h2 with (rfl | rfl) | ⟨⟨h2a, h2b⟩, h2c⟩
      · right; exact ⟨⟨h1a, h1b⟩, h1c⟩
      · exact absurd rfl h1a
      · right; exact ⟨⟨h2a, by rw [h1b, h2b]⟩, by omega⟩
  all_goals (unfold minFloat at *; (repeat' split at h2) <;> (repeat' split) <;> omega)

/-- closed form of `resolve_dtype` by constructor (the `dt1 == dt2` shortcut agrees with the
    general formula on equal arguments) -/
def resolveSpec : DType → DType → DType
  | .obj, _ | _, .obj => .obj
  | .bool, .bool => .bool
  | .int a, .int b => .int (max a b)
  | .uint a, .uint b => .uint (max a b)
  | .int a, .uint b | .uint b, .int a => intUint a b
  | .float f, .int w | .int w, .float f => .float (max f (minFloat w))
  | .float f, .uint w | .uint w, .float f => .float (max f (minFloat w))
  | .float f, .float g => .float (max f g)
  | .complex c, .int w | .int w, .complex c => .complex (max c (2 * minFloat w))
  | .complex c, .uint w | .uint w, .complex c => .complex (max c (2 * minFloat w))
  | .complex c, .float f | .float f, .complex c => .complex (max c (2 * f))
  | .complex c, .complex d => .complex (max c d)
  | .str n, .str m => .str (max n m)
  | .bytes n, .bytes m => .bytes (max n m)
  | .str n, .bytes m | .bytes m, .str n => .str (max n m)
  | .dt u, .dt v => .dt (u.finer v)
  | .td u, .td v => match resultTd u v with | .ok d => d | _ => .obj
  | _, _ => .obj

theorem TUnit.finer_self (u : TUnit) : u.finer u = u := by simp [TUnit.finer]

theorem resultTd_self (u : TUnit) : resultTd u u = .ok (.td u) := by
  cases u <;> decide

theorem resolve_eq_spec (a b : DType) : resolve a b = resolveSpec a b := by
  apply resolve_eq_of
  cases a <;> cases b <;>
    simp [resolveE, rtOrRaise, resultType, DType.kind, Kind.isStr, resolveSpec]
  case dt.dt => intro h; subst h; simp [TUnit.finer_self]
  case td.td u v => cases u <;> cases v <;> decide
  all_goals (intro h; omega)

theorem le_intUint_int (a b : Nat) : (DType.int a).le (intUint a b) = true := by
  unfold intUint
  split
  · simp [DType.le]
  · split
    · simp [DType.le]; omega
    · simp only [DType.le, decide_eq_true_eq]; unfold minFloat; (repeat' split) <;> omega

theorem le_intUint_uint (a b : Nat) : (DType.uint b).le (intUint a b) = true := by
  unfold intUint
  split
  · simp [DType.le]; omega
  · split
    · simp [DType.le]; omega
    · simp only [DType.le, decide_eq_true_eq]; unfold minFloat; (repeat' split) <;> omega

theorem le_resolveSpec_left (a b : DType) : a.le (resolveSpec a b) = true := by
  cases a <;> cases b <;> simp only [resolveSpec, le_intUint_int, le_intUint_uint] <;>
    simp [DType.le]
  case dt.dt u v => exact TUnit.rank_finer_left u v
  case td.td u v => cases u <;> cases v <;> decide
  all_goals omega

theorem intUint_cases (a b : Nat) :
    intUint a b = .int a ∨ intUint a b = .int (2 * b) ∨ intUint a b = .float 64 := by
  unfold intUint; (repeat' split) <;> simp

theorem resolveSpec_comm (a b : DType) : resolveSpec a b = resolveSpec b a := by
  cases a <;> cases b <;> simp only [resolveSpec, Nat.max_comm, TUnit.finer_comm, resultTd_comm]

theorem le_resolve_left (a b : DType) : a.le (resolve a b) = true := by
  rw [resolve_eq_spec]; exact le_resolveSpec_left a b

theorem le_resolve_right (a b : DType) : b.le (resolve a b) = true := by
  rw [resolve_eq_spec, resolveSpec_comm]; exact le_resolveSpec_left b a

/-! ### what `le` and `lossyInto` mean for values -/

theorem pow2_pos (k : Nat) : 0 < 2 ^ k := Nat.pow_pos (by decide)

theorem intRange_mono {w w' : Nat} {n : Int} (hw : w ≤ w') (h : intRange w n) : intRange w' n := by
  unfold intRange at *
  have := pow2_mono (show w - 1 ≤ w' - 1 by omega)
  generalize (2 ^ (w - 1) : Nat) = A at *
  generalize (2 ^ (w' - 1) : Nat) = B at *
  omega

theorem uintRange_mono {w w' : Nat} {n : Int} (hw : w ≤ w') (h : uintRange w n) : uintRange w' n := by
  unfold uintRange at *
  have := pow2_mono hw
  generalize (2 ^ w : Nat) = A at *
  generalize (2 ^ w' : Nat) = B at *
  omega

theorem uintRange_intRange {w w' : Nat} {n : Int} (hw : w < w' ∨ w = 0) (h : uintRange w n) :
    intRange w' n := by
  unfold uintRange intRange at *
  have h0 := pow2_pos (w' - 1)
  rcases hw with hw | hw
  · have := pow2_mono (show w ≤ w' - 1 by omega)
    generalize (2 ^ w : Nat) = A at *
    generalize (2 ^ (w' - 1) : Nat) = B at *
    omega
  · subst hw
    simp at h
    generalize (2 ^ (w' - 1) : Nat) = B at *
    omega

theorem mant_ge (w : Nat) : 11 ≤ mant w := by
  unfold mant; (repeat' split) <;> omega

theorem intRange_fitsFloat {w f : Nat} {n : Int} (hw : w ≤ mant f) (h : intRange w n) :
    fitsFloat f n.natAbs = true := by
  have hm := mant_ge f
  apply fitsFloat_of_lt (w := (w - 1) + 1) _ (by omega)
  unfold intRange at h
  rw [Nat.pow_succ]
  generalize (2 ^ (w - 1) : Nat) = A at *
  omega

theorem uintRange_fitsFloat {w f : Nat} {n : Int} (hw : w ≤ mant f) (h : uintRange w n) :
    fitsFloat f n.natAbs = true := by
  apply fitsFloat_of_lt (w := w) _ hw
  unfold uintRange at h
  generalize (2 ^ w : Nat) = A at *
  omega

theorem dtExact_promote (u r u' : TUnit) (hle : u.rank ≤ r.rank) (hl : lossyInto (.dt u) (.dt r) = false)
    (h : dtExact u' u = true) : dtExact u' r = true := by
  revert hle hl h
  cases u <;> cases r <;> cases u' <;> decide

theorem tdExact_promote (u r u' : TUnit)
    (hle : (u == r || u == .generic || (r != .generic && u.nonlinear == r.nonlinear && decide (u.rank ≤ r.rank))) = true)
    (h : tdExact u' u = true) : tdExact u' r = true := by
  revert hle h
  cases u <;> cases r <;> cases u' <;> decide

/-- the core of C07: a promotion that is not lossy keeps every held value -/
theorem holds_of_le {a r : DType} {v : V} (hle : a.le r = true) (hl : lossyInto a r = false)
    (h : holds a v) : holds r v := by
  unfold holds at *
  cases a <;> cases r
  case dt.dt u r =>
    cases v <;> simp [holdsB] at h ⊢
    exact dtExact_promote u r _ (by simpa [DType.le] using hle) hl h
  case td.td u r =>
    cases v <;> simp [holdsB] at h ⊢
    exact tdExact_promote u r _ (by simpa [DType.le] using hle) h
  all_goals simp [DType.le] at hle <;> cases v <;>
    simp [holdsB, lossyInto] at h hl ⊢
  case int.int.int => exact intRange_mono hle h
  case int.float.int => exact intRange_fitsFloat hl h
  case int.complex.int => exact intRange_fitsFloat hl h
  case uint.int.int => exact uintRange_intRange hle h
  case uint.uint.int => exact uintRange_mono hle h
  case uint.float.int => exact uintRange_fitsFloat hl h
  case uint.complex.int => exact uintRange_fitsFloat hl h
  case float.float.int => exact fitsFloat_mono hle h
  case float.complex.int => exact fitsFloat_mono (by omega) h
  case complex.complex.int => exact fitsFloat_mono (Nat.div_le_div_right hle) h
  all_goals omega

/-! ### `resolve_dtype_iter`, `concat_resolved` -/

theorem resolve_obj_left (b : DType) : resolve .obj b = .obj := by
  rw [resolve_eq_spec]; cases b <;> rfl

theorem resolve_obj_right (a : DType) : resolve a .obj = .obj := by
  rw [resolve_eq_spec]; cases a <;> rfl

/-- the early exit of `resolve_dtype_iter` does not change the result: it is the plain left fold -/
theorem resolveIterGo_eq_foldl (acc : DType) (ds : List DType) :
    resolveIterGo acc ds = ds.foldl resolve acc := by
  induction ds generalizing acc with
  | nil => rfl
  | cons d ds ih =>
    simp only [resolveIterGo, List.foldl_cons]
    split
    · rename_i h
      rw [h]
      clear ih h
      induction ds with
      | nil => rfl
      | cons e es ih2 => simp [List.foldl_cons, resolve_obj_left, ← ih2]
    · exact ih _

theorem resolveIterGo_le_acc (acc : DType) (ds : List DType) : acc.le (resolveIterGo acc ds) = true := by
  rw [resolveIterGo_eq_foldl]
  induction ds generalizing acc with
  | nil => exact DType.le_refl acc
  | cons d ds ih => exact DType.le_trans (le_resolve_left acc d) (ih _)

theorem resolveIterGo_le_mem (acc : DType) (ds : List DType) (d : DType) (hd : d ∈ ds) :
    d.le (resolveIterGo acc ds) = true := by
  rw [resolveIterGo_eq_foldl]
  induction ds generalizing acc with
  | nil => cases hd
  | cons e es ih =>
    simp only [List.foldl_cons]
    rcases List.mem_cons.mp hd with rfl | h
    · have := resolveIterGo_le_acc (resolve acc d) es
      rw [resolveIterGo_eq_foldl] at this
      exact DType.le_trans (le_resolve_right acc d) this
    · exact ih _ h

theorem resolveIter_le {ds : List DType} {r : DType} (h : resolveIter ds = some r) :
    ∀ d ∈ ds, d.le r = true := by
  cases ds with
  | nil => cases h
  | cons a as =>
    simp only [resolveIter, Option.some.injEq] at h
    subst h
    intro d hd
    rcases List.mem_cons.mp hd with rfl | hd
    · exact resolveIterGo_le_acc _ _
    · exact resolveIterGo_le_mem _ _ _ hd

theorem concatDType_le_first (first : DType) (ds : List DType) : first.le (concatDType first ds) = true := by
  induction ds generalizing first with
  | nil => exact DType.le_refl first
  | cons d ds ih =>
    simp only [concatDType]
    split
    · exact DType.le_trans (le_resolve_right d first) (ih _)
    · exact ih _

theorem concatDType_le_mem (first : DType) (ds : List DType) (d : DType) (hd : d ∈ ds) :
    d.le (concatDType first ds) = true := by
  induction ds generalizing first with
  | nil => cases hd
  | cons e es ih =>
    simp only [concatDType]
    rcases List.mem_cons.mp hd with rfl | h
    · split
      · exact DType.le_trans (le_resolve_left d first) (concatDType_le_first _ _)
      · rename_i hne
        have hobj : first = .obj := by
          by_cases h : first = .obj
          · exact h
          · exact absurd h (by simpa using hne)
        have := concatDType_le_first first es
        rw [hobj] at this ⊢
        have h2 : concatDType DType.obj es = .obj := by
          cases hc : concatDType DType.obj es <;> simp [hc, DType.le] at this
          rfl
        rw [h2]; exact DType.le_obj d
    · exact ih _ h

/-! ### writing into the resolved destination -/

theorem store_of_holds {d : DType} {v : V} (h : holds d v) : store d v = v := by
  unfold store; unfold holds at h; simp [h]

theorem writeInto_eq {r : DType} {a : Arr} (hwt : a.WellTyped) (hle : a.dt.le r = true)
    (hl : lossyInto a.dt r = false) : a.writeInto r = a.vals := by
  unfold Arr.writeInto
  conv => rhs; rw [← List.map_id a.vals]
  apply List.map_congr_left
  intro v hv
  exact store_of_holds (holds_of_le hle hl (hwt v hv))

theorem flatMap_writeInto_eq {r : DType} (parts : List Arr) (hwt : ∀ p ∈ parts, p.WellTyped)
    (hle : ∀ p ∈ parts, p.dt.le r = true) (hl : ∀ p ∈ parts, lossyInto p.dt r = false) :
    parts.flatMap (Arr.writeInto r) = parts.flatMap (·.vals) := by
  induction parts with
  | nil => rfl
  | cons p ps ih =>
    simp only [List.flatMap_cons]
    rw [writeInto_eq (hwt p (by simp)) (hle p (by simp)) (hl p (by simp)),
      ih (fun q hq => hwt q (by simp [hq])) (fun q hq => hle q (by simp [hq]))
        (fun q hq => hl q (by simp [hq]))]

end SF
