/- Helper lemmas for SFModel.Group: both grouping algorithms equal `groupSpec`. -/
import SFModel.Group
import SFModel.OrderLemmas

namespace SF.Group
open SF SF.Order List

variable {α : Type} [DecidableEq α]

/-! ### dedupAdj -/

theorem dedupAdj_cons_cons (a b : α) (t : List α) :
    dedupAdj (a :: b :: t) = if a = b then dedupAdj (b :: t) else a :: dedupAdj (b :: t) := rfl

theorem mem_dedupAdj {l : List α} {x : α} : x ∈ dedupAdj l ↔ x ∈ l := by
  induction l with
  | nil => simp [dedupAdj]
  | cons a t ih =>
    cases t with
    | nil => simp [dedupAdj]
    | cons b t =>
      rw [dedupAdj_cons_cons]
      split
      · rename_i hab
        subst hab
        rw [ih]; simp
      · simp only [List.mem_cons] at ih ⊢
        rw [ih]

theorem dedupAdj_head (a : α) (t : List α) : ∃ r, dedupAdj (a :: t) = a :: r := by
  induction t generalizing a with
  | nil => exact ⟨[], rfl⟩
  | cons b t ih =>
    rw [dedupAdj_cons_cons]
    split
    · rename_i hab; subst hab; exact ih a
    · exact ⟨_, rfl⟩

/-- On a sorted list (antisymmetric order) `dedupAdj` is strictly increasing. -/
theorem dedupAdj_strict {le : α → α → Bool}
    (antisymm : ∀ a b : α, le a b → le b a → a = b)
    {l : List α} (h : l.Pairwise (fun a b => le a b = true)) :
    (dedupAdj l).Pairwise (fun a b => le a b = true ∧ a ≠ b) := by
  induction l with
  | nil => simp [dedupAdj]
  | cons a t ih =>
    cases t with
    | nil => simp [dedupAdj]
    | cons b t =>
      have ht := ih h.tail
      rw [dedupAdj_cons_cons]
      split
      · exact ht
      · rename_i hab
        refine List.Pairwise.cons ?_ ht
        intro c hc
        have hc' : c ∈ b :: t := mem_dedupAdj.mp hc
        have hac : le a c = true := List.rel_of_pairwise_cons h hc'
        refine ⟨hac, ?_⟩
        intro heq
        subst heq
        -- a = c, b ≤ c = a and a ≤ b
        have hab' : le a b = true := List.rel_of_pairwise_cons h (by simp)
        have hba : le b a = true := by
          simp only [List.mem_cons] at hc'
          rcases hc' with rfl | hc'
          · exact absurd rfl hab
          · exact List.rel_of_pairwise_cons h.tail hc'
        exact hab (antisymm _ _ hab' hba)

theorem dedupAdj_nodup {le : α → α → Bool}
    (antisymm : ∀ a b : α, le a b → le b a → a = b)
    {l : List α} (h : l.Pairwise (fun a b => le a b = true)) : (dedupAdj l).Nodup :=
  (dedupAdj_strict antisymm h).imp (fun h => h.2)

/-- a block of equal keys followed by a different key -/
theorem dedupAdj_replicate_append (k k' : α) (hne : k' ≠ k) (m : Nat) (r : List α) :
    dedupAdj (List.replicate (m + 1) k ++ k' :: r) = k :: dedupAdj (k' :: r) := by
  induction m with
  | zero =>
    simp only [List.replicate, List.cons_append, List.nil_append]
    rw [dedupAdj_cons_cons, if_neg (fun h => hne h.symm)]
  | succ m ih =>
    have : List.replicate (m + 1 + 1) k ++ k' :: r = k :: (List.replicate (m + 1) k ++ k' :: r) := by
      simp [List.replicate_succ]
    rw [this]
    have h2 : List.replicate (m + 1) k ++ k' :: r = k :: (List.replicate m k ++ k' :: r) := by
      simp [List.replicate_succ]
    rw [h2, dedupAdj_cons_cons, if_pos rfl, ← h2, ih]

theorem dedupAdj_replicate (k : α) (m : Nat) : dedupAdj (List.replicate (m + 1) k) = [k] := by
  induction m with
  | zero => rfl
  | succ m ih =>
    have : List.replicate (m + 1 + 1) k = k :: k :: List.replicate m k := by simp [List.replicate_succ]
    rw [this, dedupAdj_cons_cons, if_pos rfl]
    have h2 : k :: List.replicate m k = List.replicate (m + 1) k := by simp [List.replicate_succ]
    rw [h2, ih]

/-! ### the flags of the fast path -/

/-- flags "differs from the predecessor" along a list, the predecessor of the head given -/
def adjNeq : α → List α → List Bool
  | _, [] => []
  | prev, x :: xs => (x != prev) :: adjNeq x xs

theorem zipWith_dropLast_adj (a : α) (t : List α) :
    List.zipWith (fun a b => a != b) t ((a :: t).dropLast) = adjNeq a t := by
  induction t generalizing a with
  | nil => simp [adjNeq]
  | cons x xs ih =>
    simp only [List.dropLast_cons_cons, List.zipWith_cons_cons, adjNeq]
    rw [ih]

theorem neq_roll (a : α) (t : List α) :
    List.zipWith (fun a b => a != b) (a :: t) (roll1 (a :: t))
      = (a != (a :: t).getLast (by simp)) :: adjNeq a t := by
  simp only [roll1, List.zipWith_cons_cons]
  rw [zipWith_dropLast_adj]

theorem flatnonzeroFrom_cons (off : Nat) (b : Bool) (bs : List Bool) :
    flatnonzeroFrom off (b :: bs) = (if b then [off] else []) ++ flatnonzeroFrom (off + 1) bs := by
  cases b <;> simp [flatnonzeroFrom, List.zipIdx_cons]

theorem flatnonzeroFrom_nil (off : Nat) : flatnonzeroFrom off [] = [] := rfl

theorem flatnonzero_adjNeq_const (a : α) (t : List α) (h : ∀ x ∈ t, x = a) (off : Nat) :
    flatnonzeroFrom off (adjNeq a t) = [] := by
  induction t generalizing off with
  | nil => rfl
  | cons x xs ih =>
    have hx : x = a := h x (by simp)
    subst hx
    simp only [adjNeq, flatnonzeroFrom_cons]
    simp only [bne_self_eq_false, Bool.false_eq_true, if_false, List.nil_append]
    exact ih (fun y hy => h y (by simp [hy])) _

/-- On a sorted array the `[1:]` of the code drops exactly the wrap-around comparison at position 0
    (when first ≠ last) or nothing from an empty list (when first = last: a single group). -/
theorem transitions_sorted {le : α → α → Bool}
    (antisymm : ∀ a b : α, le a b → le b a → a = b)
    (a : α) (t : List α) (h : (a :: t).Pairwise (fun a b => le a b = true)) :
    transitions (a :: t) = flatnonzeroFrom 1 (adjNeq a t) := by
  unfold transitions
  rw [neq_roll, flatnonzeroFrom_cons]
  by_cases hl : a = (a :: t).getLast (by simp)
  · -- single group: every element equals a
    have hall : ∀ x ∈ t, x = a := by
      intro x hx
      have h1 : le a x = true := List.rel_of_pairwise_cons h hx
      have h2 : le x a = true := by
        cases t with
        | nil => cases hx
        | cons b t' =>
          have hlast : (a :: b :: t').getLast (by simp) = (b :: t').getLast (by simp) := by
            simp [List.getLast_cons]
          rw [hlast] at hl
          by_cases hxl : x = (b :: t').getLast (by simp)
          · have hxa : x = a := hxl.trans hl.symm
            rw [hxa] at h1 ⊢
            exact h1
          · -- x before last in (b :: t'), use pairwise on tail
            have hpt : (b :: t').Pairwise (fun a b => le a b = true) := h.tail
            have hmem : (b :: t').getLast (by simp) ∈ (b :: t') := List.getLast_mem _
            obtain ⟨pre, suf, hsplit⟩ := List.append_of_mem hx
            -- last element is in suf or x is last
            have hl2 : (b :: t').getLast (by simp) ∈ suf := by
              have hne : suf ≠ [] := by
                intro hs
                subst hs
                apply hxl
                simp [hsplit]
              have : (b :: t').getLast (by simp) = suf.getLast hne := by
                simp [hsplit, hne, List.getLast_cons]
              rw [this]; exact List.getLast_mem _
            have hp2 : (pre ++ x :: suf).Pairwise (fun a b => le a b = true) := hsplit ▸ hpt
            have := (List.pairwise_append.mp hp2).2.1
            have hx_last := List.rel_of_pairwise_cons this hl2
            rw [← hl] at hx_last
            exact hx_last
      exact antisymm _ _ h2 h1
    have hb : (a != (a :: t).getLast (by simp)) = false := by
      simp only [bne_eq_false_iff_eq]; exact hl
    rw [hb, flatnonzero_adjNeq_const a t hall]
    simp
  · have hb : (a != (a :: t).getLast (by simp)) = true := by
      simp only [bne_iff_ne, ne_eq]; exact hl
    rw [hb]
    simp

/-! ### the slicing loop = run-length grouping of the sorted pairs -/

/-- run-length grouping with the current group `(k, acc)` carried along -/
def runsAcc (k : α) (acc : List Nat) : List (α × Nat) → List (α × List Nat)
  | [] => [(k, acc)]
  | p :: rest => if p.1 = k then runsAcc k (acc ++ [p.2]) rest else (k, acc) :: runsAcc p.1 [p.2] rest

theorem drop_eq_cons {γ : Type} {l : List γ} {m : Nat} {a : γ} {t : List γ} (h : l.drop m = a :: t) :
    l[m]? = some a ∧ l.drop (m + 1) = t ∧ l.take (m + 1) = l.take m ++ [a] := by
  have hm : m < l.length := by
    by_cases hm : m < l.length
    · exact hm
    · rw [List.drop_eq_nil_of_le (Nat.le_of_not_lt hm)] at h; cases h
  have h1 : l[m]? = some a := by
    have := congrArg (fun x => x[0]?) h
    simpa [List.getElem?_drop] using this
  refine ⟨h1, ?_, ?_⟩
  · have : l.drop (m + 1) = (l.drop m).drop 1 := by simp [List.drop_drop]
    rw [this, h]; rfl
  · rw [List.take_add_one, h1]; rfl

/-- The loop over `transitions` with slices `[start, t)` computes the run-length grouping:
    `start` is where the current group began, `m` the last position known to hold its key. -/
theorem cutLoop_runs (gv : List α) (index : List Nat) :
    ∀ (suf : List (α × Nat)) (start m : Nat) (x : α), start ≤ m → gv[start]? = some x →
      gv.drop (m + 1) = suf.map (·.1) → index.drop (m + 1) = suf.map (·.2) →
      cutLoop gv index start (flatnonzeroFrom (m + 1) (adjNeq x (suf.map (·.1))))
        = .ok (runsAcc x ((index.take (m + 1)).drop start) suf) := by
  intro suf
  induction suf with
  | nil =>
    intro start m x hsm hx hg hi
    simp only [List.map_nil, adjNeq, flatnonzeroFrom_nil, cutLoop, hx, runsAcc]
    have : index.take (m + 1) = index := List.take_of_length_le (List.drop_eq_nil_iff.mp hi)
    rw [this]
  | cons p rest ih =>
    intro start m x hsm hx hg hi
    simp only [List.map_cons] at hg hi
    obtain ⟨hg1, hg2, _⟩ := drop_eq_cons hg
    obtain ⟨_, hi2, hi3⟩ := drop_eq_cons hi
    have hlen : (index.take (m + 1)).length = m + 1 := by
      rw [List.length_take]
      have : m + 1 ≤ index.length := by
        by_cases hh : m + 1 ≤ index.length
        · exact hh
        · rw [List.drop_eq_nil_of_le (by omega)] at hi; cases hi
      omega
    simp only [List.map_cons, adjNeq, flatnonzeroFrom_cons, runsAcc]
    by_cases hp : p.1 = x
    · have hb : (p.1 != x) = false := by simp [hp]
      rw [hb]
      simp only [Bool.false_eq_true, if_false, List.nil_append, if_pos hp]
      have := ih start (m + 1) x (by omega) hx hg2 hi2
      rw [hi3, List.drop_append_of_le_length (by omega)] at this
      rw [hp]; exact this
    · have hb : (p.1 != x) = true := by simp [hp]
      rw [hb]
      simp only [if_true, List.singleton_append, if_neg hp, cutLoop, hx]
      have := ih (m + 1) (m + 1) p.1 (Nat.le_refl _) hg1 hg2 hi2
      rw [this]
      have h3 : (index.take (m + 1 + 1)).drop (m + 1) = [p.2] := by
        rw [hi3]
        rw [List.drop_append_of_le_length (by omega)]
        rw [List.drop_eq_nil_of_le (by omega)]
        rfl
      rw [h3]

/-! ### run-length grouping of a key-sorted pair list in closed form -/

/-- one entry per distinct key of `full` (adjacent-dedup of its key column), with the positions
    paired with that key, in list order -/
def closed (full : List (α × Nat)) : List (α × List Nat) :=
  (dedupAdj (full.map (·.1))).map (fun g => (g, (full.filter (fun p => p.1 = g)).map (·.2)))

theorem filter_const_key_self (k : α) (acc : List Nat) :
    ((acc.map (fun i => (k, i))).filter (fun p => p.1 = k)).map (·.2) = acc := by
  induction acc with
  | nil => rfl
  | cons a t ih => simp only [List.map_cons, List.filter_cons, decide_true, if_true]; rw [ih]

theorem filter_const_key_ne (k g : α) (h : g ≠ k) (acc : List Nat) :
    (acc.map (fun i => (k, i))).filter (fun p => p.1 = g) = [] := by
  rw [List.filter_eq_nil_iff]
  intro p hp
  simp only [List.mem_map] at hp
  obtain ⟨i, _, rfl⟩ := hp
  simp only [decide_eq_true_eq]
  exact fun h' => h h'.symm

theorem runsAcc_closed {le : α → α → Bool}
    (antisymm : ∀ a b : α, le a b → le b a → a = b) (rest : List (α × Nat)) :
    ∀ (k : α) (acc : List Nat), acc ≠ [] →
      (acc.map (fun i => (k, i)) ++ rest).Pairwise (fun a b => le a.1 b.1 = true) →
      runsAcc k acc rest = closed (acc.map (fun i => (k, i)) ++ rest) := by
  induction rest with
  | nil =>
    intro k acc hacc _
    obtain ⟨m, hm⟩ : ∃ m, acc.length = m + 1 := by
      cases acc with
      | nil => exact absurd rfl hacc
      | cons a t => exact ⟨t.length, rfl⟩
    simp only [runsAcc, List.append_nil, closed, List.map_map]
    have : (List.map ((fun x => x.1) ∘ fun i => (k, i)) acc) = List.replicate (m + 1) k := by
      rw [← hm]; exact List.map_const'
    rw [this, dedupAdj_replicate]
    simp only [List.map_cons, List.map_nil]
    rw [filter_const_key_self]
  | cons p rest ih =>
    intro k acc hacc hs
    simp only [runsAcc]
    by_cases hp : p.1 = k
    · rw [if_pos hp]
      have hfull : (acc ++ [p.2]).map (fun i => (k, i)) ++ rest = acc.map (fun i => (k, i)) ++ p :: rest := by
        have : (k, p.2) = p := by rw [← hp]
        simp [this]
      rw [ih k (acc ++ [p.2]) (by simp) (hfull ▸ hs), hfull]
    · rw [if_neg hp]
      obtain ⟨m, hm⟩ : ∃ m, acc.length = m + 1 := by
        cases acc with
        | nil => exact absurd rfl hacc
        | cons a t => exact ⟨t.length, rfl⟩
      have hs2 : (p :: rest).Pairwise (fun a b => le a.1 b.1 = true) := (List.pairwise_append.mp hs).2.1
      have hih := ih p.1 [p.2] (by simp) (by simpa using hs2)
      have hpp : [p.2].map (fun i => (p.1, i)) ++ rest = p :: rest := by simp
      rw [hih, hpp]
      -- every key of p :: rest differs from k
      have hne : ∀ q ∈ p :: rest, q.1 ≠ k := by
        intro q hq hqk
        obtain ⟨a0, ha0⟩ : ∃ a0, a0 ∈ acc := by
          cases acc with
          | nil => exact absurd rfl hacc
          | cons a t => exact ⟨a, by simp⟩
        have hkp : le k p.1 = true :=
          (List.pairwise_append.mp hs).2.2 (k, a0) (List.mem_map.mpr ⟨a0, ha0, rfl⟩) p (by simp)
        have hpk : le p.1 k = true := by
          simp only [List.mem_cons] at hq
          rcases hq with rfl | hq
          · exact absurd hqk hp
          · have := List.rel_of_pairwise_cons hs2 hq
            rw [hqk] at this; exact this
        exact hp (antisymm _ _ hpk hkp)
      simp only [closed, List.map_append, List.map_map, List.map_cons]
      have hc : (List.map ((fun x => x.1) ∘ fun i => (k, i)) acc) = List.replicate (m + 1) k := by
        rw [← hm]; exact List.map_const'
      rw [hc, dedupAdj_replicate_append k p.1 hp m]
      simp only [List.map_cons, List.filter_append]
      congr 1
      · congr 1
        rw [List.map_append, filter_const_key_self]
        have : (p :: rest).filter (fun q => q.1 = k) = [] := by
          rw [List.filter_eq_nil_iff]
          intro q hq
          simp only [decide_eq_true_eq]
          exact hne q hq
        rw [this]; simp
      · apply List.map_congr_left
        intro g hg
        have hg' : g ∈ (p :: rest).map (·.1) := by
          have := mem_dedupAdj.mp hg
          simpa using this
        obtain ⟨q, hq, hqg⟩ := List.mem_map.mp hg'
        have hgk : g ≠ k := hqg ▸ hne q hq
        rw [filter_const_key_ne k g hgk]
        simp

/-! ### the two algorithms equal the specification -/

section main
variable {le : α → α → Bool}

/-- (key, position) pairs: key order, ties by position -/
abbrev PairSorted (le : α → α → Bool) (a b : α × Nat) : Prop :=
  le a.1 b.1 = true ∧ (le b.1 a.1 = true → a.2 < b.2)

omit [DecidableEq α] in
theorem sorted_pairs_spec (trans : ∀ a b c : α, le a b → le b c → le a c)
    (total : ∀ a b : α, le a b || le b a) (keys : List α) :
    (pick keys.zipIdx (argsortStable le keys)).Perm keys.zipIdx ∧
    (pick keys.zipIdx (argsortStable le keys)).Pairwise (PairSorted le) := by
  have tr := optLe_trans trans
  have to := optLe_total total
  constructor
  · apply pick_perm
    simpa [argsortStable] using sortOn_perm (optLe le) (fun i => keys[i]?) (List.range keys.length)
  · have hst := sortOn_stable (le := optLe le) (key := fun i => keys[i]?) tr to
      (List.nodup_range (n := keys.length)) (List.pairwise_lt_range (n := keys.length))
    unfold pick
    rw [List.pairwise_filterMap]
    refine hst.imp ?_
    intro i j hij a ha b hb
    rw [List.getElem?_zipIdx] at ha hb
    cases hki : keys[i]? with
    | none => rw [hki] at ha; cases ha
    | some ki =>
      cases hkj : keys[j]? with
      | none => rw [hkj] at hb; cases hb
      | some kj =>
        rw [hki] at ha; rw [hkj] at hb
        simp only [Option.map_some, Option.some.injEq] at ha hb
        subst ha; subst hb
        simp only [hki, hkj, optLe] at hij
        simpa [PairSorted] using hij

theorem positions_of_sorted (total : ∀ a b : α, le a b || le b a)
    {sorted : List (α × Nat)} {keys : List α} (hperm : sorted.Perm keys.zipIdx)
    (hs : sorted.Pairwise (PairSorted le)) (g : α) :
    (sorted.filter (fun p => p.1 = g)).map (·.2) = positionsOf keys g := by
  unfold positionsOf
  apply List.Perm.eq_of_pairwise (le := (· < ·))
  · intro a b _ _ hab hba; omega
  · rw [List.pairwise_map, List.pairwise_filter]
    refine hs.imp ?_
    intro a b hab ha hb
    simp only [decide_eq_true_eq] at ha hb
    apply hab.2
    rw [ha, hb]
    have := total g g
    simpa using this
  · rw [List.pairwise_map]
    apply List.Pairwise.filter
    have : (keys.zipIdx).Pairwise (fun a b => a.2 < b.2) := by
      have h := List.pairwise_lt_range' (s := 0) (n := keys.length)
      rw [← List.zipIdx_map_snd 0 keys, List.pairwise_map] at h
      exact h
    exact this
  · exact ((hperm.filter _).map _)

theorem groupSort_eq_spec (trans : ∀ a b c : α, le a b → le b c → le a c)
    (total : ∀ a b : α, le a b || le b a) (antisymm : ∀ a b : α, le a b → le b a → a = b)
    (keys : List α) : groupSort le keys = .ok (groupSpec le keys) := by
  unfold groupSort
  by_cases hk : keys = []
  · subst hk; simp [groupSpec, dedupAdj]
  · rw [if_neg hk]
    obtain ⟨hperm, hs⟩ := sorted_pairs_spec trans total keys
    generalize hsd : pick keys.zipIdx (argsortStable le keys) = sorted at hperm hs
    have hlen : sorted.length = keys.length := by simpa using hperm.length_eq
    cases sorted with
    | nil =>
      exfalso; apply hk
      exact List.length_eq_zero_iff.mp (by simpa using hlen.symm)
    | cons p rest =>
      have hkeys : ((p :: rest).map (·.1)).Pairwise (fun a b => le a b = true) := by
        rw [List.pairwise_map]; exact hs.imp (fun h => h.1)
      simp only []
      have htr := transitions_sorted antisymm p.1 (rest.map (·.1)) (by simpa using hkeys)
      simp only [List.map_cons]
      rw [htr]
      have := cutLoop_runs (p.1 :: rest.map (·.1)) (p.2 :: rest.map (·.2)) rest 0 0 p.1
        (Nat.le_refl _) (by simp) (by simp) (by simp)
      rw [this]
      simp only [List.take_succ_cons, List.take_zero, List.drop_zero]
      have hcl := runsAcc_closed antisymm rest p.1 [p.2] (by simp)
        (by simpa using hs.imp (fun h => h.1))
      rw [hcl]
      simp only [List.map_cons, List.map_nil, List.singleton_append]
      -- closed (p :: rest) = groupSpec
      unfold closed groupSpec
      have hsortedkeys : (p :: rest).map (·.1) = keys.mergeSort le := by
        apply List.Perm.eq_of_pairwise (le := fun a b => le a b = true)
        · intro a b _ _ hab hba; exact antisymm a b hab hba
        · exact hkeys
        · exact List.pairwise_mergeSort trans total keys
        · have h1 := hperm.map (·.1)
          rw [List.zipIdx_map_fst] at h1
          exact h1.trans (List.mergeSort_perm keys le).symm
      rw [hsortedkeys]
      congr 1
      apply List.map_congr_left
      intro g _
      rw [positions_of_sorted total hperm hs g]

theorem maskSelect_locations {groups : List α} (hn : groups.Nodup) (keys : List α)
    (hmem : ∀ k ∈ keys, k ∈ groups) {g : α} {idx : Nat} (hg : (g, idx) ∈ groups.zipIdx) :
    maskSelect (keys.map (fun k => groups.idxOf k)) idx = positionsOf keys g := by
  unfold maskSelect positionsOf
  rw [List.zipIdx_map, List.filter_map, List.map_map]
  have hgi := List.mem_zipIdx_iff_getElem?.mp hg
  simp only at hgi
  obtain ⟨hidx, hgv⟩ := List.getElem?_eq_some_iff.mp hgi
  have hfc : List.filter ((fun p => p.1 == idx) ∘ Prod.map (fun k => List.idxOf k groups) id) keys.zipIdx
      = List.filter (fun p => decide (p.1 = g)) keys.zipIdx := by
    apply List.filter_congr
    intro q hq
    have hqk : q.1 ∈ keys := by
      have := List.mem_zipIdx_iff_getElem?.mp hq
      exact List.mem_of_getElem? this
    have hqg : q.1 ∈ groups := hmem _ hqk
    simp only [Function.comp, Prod.map, id]
    by_cases h : q.1 = g
    · simp only [h, decide_true]
      rw [← hgv, hn.idxOf_getElem idx hidx]
      simp
    · simp only [h, decide_false]
      have : List.idxOf q.1 groups ≠ idx := by
        intro hi
        apply h
        have hlt : List.idxOf q.1 groups < groups.length := List.idxOf_lt_length_of_mem hqg
        have := List.getElem_idxOf hlt
        rw [← this, ← hgv]
        congr 1
      simpa using this
  rw [hfc]
  congr 1

theorem groupGeneric_eq_spec (trans : ∀ a b c : α, le a b → le b c → le a c)
    (total : ∀ a b : α, le a b || le b a) (antisymm : ∀ a b : α, le a b → le b a → a = b)
    (keys : List α) : groupGeneric le keys = groupSpec le keys := by
  unfold groupGeneric
  by_cases hk : keys = []
  · subst hk; simp [groupSpec, dedupAdj]
  · rw [if_neg hk]
    simp only [groupsAndLocations, groupSpec]
    have hsorted := List.pairwise_mergeSort trans total keys
    have hn := dedupAdj_nodup antisymm hsorted
    have hmem : ∀ k ∈ keys, k ∈ dedupAdj (keys.mergeSort le) := by
      intro k hk; rw [mem_dedupAdj, List.mem_mergeSort]; exact hk
    have h1 : List.map (fun p => (p.1, maskSelect (keys.map fun k => List.idxOf k (dedupAdj (keys.mergeSort le))) p.2))
        (dedupAdj (keys.mergeSort le)).zipIdx
        = List.map (fun p => (p.1, positionsOf keys p.1)) (dedupAdj (keys.mergeSort le)).zipIdx := by
      apply List.map_congr_left
      intro p hp
      rw [maskSelect_locations hn keys hmem (g := p.1) (idx := p.2) hp]
    rw [h1]
    have h2 : List.map (fun p => (p.1, positionsOf keys p.1)) (dedupAdj (keys.mergeSort le)).zipIdx
        = List.map (fun g => (g, positionsOf keys g)) ((dedupAdj (keys.mergeSort le)).zipIdx.map (·.1)) := by
      rw [List.map_map]; rfl
    rw [h2, List.zipIdx_map_fst]

end main

end SF.Group
