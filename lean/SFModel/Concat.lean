/-
  SFModel.Concat — concatenation and overlay (property C11).

  Mirrors (static_frame/core):
    * util.py           `concat_resolved` (dtype kind of the result), `ufunc_set_iter` (order-preserving
                        shortcut through `assume_unique=True`, intersection short-circuit)
    * container_util.py `index_many_concat`, `index_many_set`
    * type_blocks.py    `block_compatible(axis=1)`, `_reblock_signature`, `reblock_compatible`,
                        `consolidate`, `vstack_blocks_to_blocks` (three strategies), `fillna_by_values`
    * frame.py          `Frame.from_concat` (both axes), `from_concat_items`, `from_overlay`
    * series.py         `Series.from_concat`, `from_concat_items`, `fillna(Series)`, `from_overlay`
    * index_hierarchy.py `from_index_items` (two-level labels `(key, inner)`)

  Label alignment re-uses SFModel.SetOps (`ufuncSet1d`, `Frame.reindex`, `Series.reindex`).
  Blocks carry a dtype *kind*; `consolidate` groups on the kind (the real code groups on the exact
  dtype — this only changes which vstack strategy is taken, and the strategies are proved equal).
  No Mathlib import: the driver loads this file.
-/
import SFModel.SetOps

namespace SF
namespace Concat
open SF.SetOps

section
variable {α β : Type} [DecidableEq α]

/-! ### indices -/

/-- the Index constructor: repeated labels are ErrorInitIndexNonUnique -/
def mkIndex (labels : List α) (kind : Kind) : Except Err (Idx α) :=
  if labels.Nodup then .ok ⟨labels, kind⟩ else .error .nonUnique

/-- dtype kind of `concat_resolved(arrays)`: pairwise `resolve_dtype`, stopping at object -/
def resolveKinds : Kind → List Kind → Kind
  | k, [] => k
  | k, x :: xs => resolveKinds (if k = .obj then .obj else resolveKind x k) xs

/-- `index_many_concat(indices, cls_default)`: one Index from the concatenated labels -/
def indexManyConcat (idxs : List (Idx α)) : Except Err (Idx α) :=
  match idxs with
  | [] => mkIndex [] .float
  | i :: rest => mkIndex ((i :: rest).map (·.labels)).flatten (resolveKinds i.kind (rest.map (·.kind)))

/-- `union1d` / `intersect1d` (`assume_unique`) of two label arrays, with the dtype kind of the
    array that comes back (an operand returned by a shortcut keeps its own dtype) -/
def setIdx (o : PyOrd α) (union : Bool) (a b : Idx α) : Idx α :=
  let op : SetOp := if union then .union else .inter
  let labels := ufuncSet1d o op a.kind b.kind a.labels b.labels true
  let kind :=
    if union && a.labels.length = 0 then b.kind
    else if union && b.labels.length = 0 then a.kind
    else if !union && (a.labels.length = 0 || b.labels.length = 0) then resolveKind a.kind b.kind
    else if a.labels.length = b.labels.length && arraysEqual a.labels b.labels then a.kind
    else resolveKind a.kind b.kind
  ⟨labels, kind⟩

/-- the loop of `ufunc_set_iter(arrays, union, assume_unique=True)` after the first array -/
def ufuncSetIter (o : PyOrd α) (union : Bool) : Idx α → List (Idx α) → Idx α
  | res, [] => res
  | res, x :: xs =>
    let r := setIdx o union res x
    -- short circuit intersection that results in no common values
    if !union && r.labels.length = 0 then r else ufuncSetIter o union r xs

/-- `index_many_set(indices, cls_default, union)` -/
def indexManySet (o : PyOrd α) (union : Bool) (idxs : List (Idx α)) : Idx α :=
  match idxs with
  | [] => ⟨[], .float⟩
  | i :: rest => ufuncSetIter o union i rest

/-! ### TypeBlocks: blocks with a dtype kind -/

structure Block (β : Type) where
  kind : Kind
  cols : List (List β)
deriving Repr, DecidableEq

abbrev TB (β : Type) := List (Block β)

def Block.width (b : Block β) : Nat := b.cols.length

/-- every column of the TypeBlocks with its dtype kind, in order (`_extract_array(column_key=i)`) -/
def TB.columns (tb : TB β) : List (Kind × List β) :=
  match tb with
  | [] => []
  | b :: rest => b.cols.map (fun c => (b.kind, c)) ++ TB.columns rest

def TB.widths (tb : TB β) : List Nat := tb.map Block.width

/-- `a.block_compatible(b, axis=1)`: the same sequence of block widths -/
def blockCompatible (a b : TB β) : Bool := a.widths == b.widths

/-- `_reblock_signature`: (dtype, width) of each maximal run of adjacent blocks of one dtype -/
def reblockSignature : TB β → List (Kind × Nat)
  | [] => []
  | b :: rest =>
    match reblockSignature rest with
    | (k, n) :: sig => if k = b.kind then (k, n + b.width) :: sig else (b.kind, b.width) :: (k, n) :: sig
    | [] => [(b.kind, b.width)]

/-- `a.reblock_compatible(b)`: equal widths after consolidation (dtypes are not compared) -/
def reblockCompatible (a b : TB β) : Bool :=
  (reblockSignature a).map (·.2) == (reblockSignature b).map (·.2)

/-- `TypeBlocks.consolidate()`: adjacent blocks of one dtype become one 2-D block -/
def consolidate : TB β → TB β
  | [] => []
  | b :: rest =>
    match consolidate rest with
    | c :: cs => if c.kind = b.kind then ⟨b.kind, b.cols ++ c.cols⟩ :: cs else b :: c :: cs
    | [] => [b]

/-- rows of equally wide 2-D arrays stacked: column `j` of the result is the concatenation of the
    columns `j` -/
def stackCols : List (List β) → List (List (List β)) → List (List β)
  | p, [] => p
  | p, q :: qs => stackCols (List.zipWith (· ++ ·) p q) qs

/-- `concat_resolved(block_parts)` (axis 0) on 2-D parts; NumPy refuses parts of different widths -/
def stackParts (parts : List (Block β)) : Except Err (Block β) :=
  match parts with
  | [] => .error .value
  | p :: ps =>
    if ps.all (fun q => q.width == p.width) then
      .ok ⟨resolveKinds p.kind (ps.map (·.kind)), stackCols p.cols (ps.map (·.cols))⟩
    else .error .shape

def headsOf {γ : Type} : List (List γ) → Option (List γ)
  | [] => some []
  | [] :: _ => none
  | (x :: _) :: rest =>
    match headsOf rest with
    | some hs => some (x :: hs)
    | none => none

/-- the aligned strategies of `vstack_blocks_to_blocks`:
    `for block_idx in range(len(tb_proto[0]._blocks))` stack block `block_idx` of every member -/
def vstackAligned : TB β → List (TB β) → Except Err (TB β)
  | [], _ => .ok []
  | b :: bs, others =>
    match headsOf others with
    | none => .error .lookup
    | some hs =>
      match stackParts (b :: hs), vstackAligned bs (others.map List.tail) with
      | .ok blk, .ok rest => .ok (blk :: rest)
      | .error e, _ => .error e
      | _, .error e => .error e

/-- column `i` of every member as a one-column block (`tb._extract_array(column_key=i)`) -/
def columnParts (i : Nat) : List (TB β) → Option (List (Block β))
  | [] => some []
  | tb :: rest =>
    match tb.columns[i]?, columnParts i rest with
    | some (k, c), some ps => some (⟨k, [c]⟩ :: ps)
    | _, _ => none

/-- the fallback strategy: one array per column -/
def vstackColumns (first : TB β) (others : List (TB β)) : Except Err (TB β) :=
  mapMExcept (fun i =>
    match columnParts i (first :: others) with
    | some ps => stackParts ps
    | none => .error .lookup) (List.range first.columns.length)

/-- `TypeBlocks.vstack_blocks_to_blocks(type_blocks, block_compatible, reblock_compatible)` -/
def vstackBlocksToBlocks (tbs : List (TB β)) (bc rc : Bool) : Except Err (TB β) :=
  match tbs with
  | [] => .error .lookup
  | t :: ts =>
    if bc || rc then
      if !bc && rc then vstackAligned (consolidate t) (ts.map consolidate)
      else vstackAligned t ts
    else vstackColumns t ts

/-- the flags as `Frame.from_concat` accumulates them over consecutive members -/
def compatFlags : List (TB β) → Bool × Bool
  | [] => (true, true)
  | [_] => (true, true)
  | a :: b :: rest =>
    let (bc, rc) := compatFlags (b :: rest)
    (blockCompatible b a && bc, reblockCompatible b a && rc)

/-! ### Frames with a block layout -/

structure BFrame (α β : Type) where
  index : Idx α
  columns : Idx α
  tb : TB β
deriving Repr

def BFrame.toFrame (f : BFrame α β) : Frame α β := ⟨f.index, f.columns, f.tb.columns.map (·.2)⟩

def BFrame.colKinds (f : BFrame α β) : List Kind := f.tb.columns.map (·.1)

/-- how `index=` / `columns=` was given -/
inductive IndexArg (α : Type)
  | none
  | auto
  | given (labels : List α) (kind : Kind)

/-- parameters: Python ordering, the labels of an auto index, tuple formation for two-level labels -/
structure Cfg (α : Type) where
  o : PyOrd α
  auto : Nat → α
  pair : α → α → α

def autoIndex (cfg : Cfg α) (n : Nat) : Idx α := ⟨(List.range n).map cfg.auto, .int⟩

/-- a Frame as `Frame.reindex(columns=…)` returns it, as one-column blocks with their dtype kinds -/
def reindexedColumnsTB (o : PyOrd α) (f : BFrame α β) (columns : Idx α) (fill : β) (fillKind : Kind) :
    Except Err (TB β) :=
  match f.toFrame.reindex o none (some columns) fill with
  | .error e => .error e
  | .ok r =>
    let kinds := columns.labels.map (fun c => (lookup f.columns.labels f.colKinds c).getD fillKind)
    .ok (List.zipWith (fun k col => (⟨k, [col]⟩ : Block β)) kinds r.cols)

def errNonUniqueToInit : Err → Err
  | .nonUnique => .init
  | e => e

/-- the label checks of the Frame constructor on a given index initializer -/
def givenIndex (labels : List α) (kind : Kind) (size : Nat) : Except Err (Idx α) :=
  match mkIndex labels kind with
  | .error e => .error e
  | .ok i => if labels.length = size then .ok i else .error .init

/-- `Frame.from_concat([])`: `cls(index=index, columns=columns)` — a Frame without data must have
    zero size (RuntimeError otherwise); an IndexAutoFactory gives an empty axis -/
def emptyConcat (index columns : IndexArg α) : Except Err (Frame α β) :=
  let il : List α × Kind := match index with | .given ls k => (ls, k) | _ => ([], .float)
  let cl : List α × Kind := match columns with | .given ls k => (ls, k) | _ => ([], .float)
  if !il.1.isEmpty && !cl.1.isEmpty then .error .shape
  else
    match mkIndex il.1 il.2, mkIndex cl.1 cl.2 with
    | .ok i, .ok c => .ok ⟨i, c, cl.1.map fun _ => []⟩
    | .error e, _ => .error e
    | _, .error e => .error e

/-- labels along the concatenation axis: derived by `index_many_concat` (a clash is reported as
    ErrorInitFrame), replaced by an auto index later (`none`), or the given initializer -/
def alongIndexArg (idxs : List (Idx α)) (arg : IndexArg α) : Except Err (Option (Idx α)) :=
  match arg with
  | .auto => .ok none
  | .none =>
    match indexManyConcat idxs with
    | .ok i => .ok (some i)
    | .error e => .error (errNonUniqueToInit e)
  | .given ls k => .ok (some ⟨ls, k⟩)

/-- labels of the aligned axis: `index_many_set`, or the given initializer; IndexAutoFactory is refused -/
def alignedIndexArg (o : PyOrd α) (union : Bool) (idxs : List (Idx α)) (arg : IndexArg α) : Except Err (Idx α) :=
  match arg with
  | .auto => .error .init
  | .none => .ok (indexManySet o union idxs)
  | .given ls k => mkIndex ls k

/-- the index the Frame constructor ends up with along the concatenation axis (`size` entries) -/
def finalAlongIndex (cfg : Cfg α) (i? : Option (Idx α)) (arg : IndexArg α) (size : Nat) : Except Err (Idx α) :=
  match i?, arg with
  | some _, .given ls k => givenIndex ls k size
  | some i, _ => .ok i
  | none, _ => .ok (autoIndex cfg size)

/-- a member's blocks once its columns are those of the result -/
def alignTB (o : PyOrd α) (cols : Idx α) (fill : β) (fillKind : Kind) (f : BFrame α β) : Except Err (TB β) :=
  if f.columns.labels ≠ cols.labels then reindexedColumnsTB o f cols fill fillKind else .ok f.tb

/-- a member's columns once its rows are those of the result -/
def alignCols (o : PyOrd α) (idx : Idx α) (fill : β) (f : BFrame α β) : Except Err (List (List β)) :=
  if f.index.labels ≠ idx.labels then
    match f.toFrame.reindex o (some idx) none fill with
    | .ok r => .ok r.cols
    | .error e => .error e
  else .ok f.toFrame.cols

/-- `Frame.from_concat(frames, axis=0, union=…, index=…, columns=…, fill_value=…)` -/
def fromConcat0 (cfg : Cfg α) (frames : List (BFrame α β)) (union : Bool) (index columns : IndexArg α)
    (fill : β) (fillKind : Kind) : Except Err (Frame α β) :=
  if frames.isEmpty then emptyConcat index columns
  else
    match alongIndexArg (frames.map (·.index)) index with
    | .error e => .error e
    | .ok index? =>
      match alignedIndexArg cfg.o union (frames.map (·.columns)) columns with
      | .error e => .error e
      | .ok cols =>
        match mapMExcept (alignTB cfg.o cols fill fillKind) frames with
        | .error e => .error e
        | .ok tbs =>
          match vstackBlocksToBlocks tbs (compatFlags tbs).1 (compatFlags tbs).2 with
          | .error e => .error e
          | .ok blocks =>
            -- TypeBlocks.from_blocks without a shape reference
            if blocks.isEmpty then .error .init
            else
              match finalAlongIndex cfg index? index (frames.map (·.index.labels.length)).sum with
              | .error e => .error e
              | .ok idx => .ok ⟨idx, cols, (TB.columns blocks).map (·.2)⟩

/-- `Frame.from_concat(frames, axis=1, …)`: columns are concatenated, rows aligned by label -/
def fromConcat1 (cfg : Cfg α) (frames : List (BFrame α β)) (union : Bool) (index columns : IndexArg α)
    (fill : β) : Except Err (Frame α β) :=
  if frames.isEmpty then emptyConcat index columns
  else
    match alongIndexArg (frames.map (·.columns)) columns with
    | .error e => .error e
    | .ok columns? =>
      match alignedIndexArg cfg.o union (frames.map (·.index)) index with
      | .error e => .error e
      | .ok idx =>
        match mapMExcept (alignCols cfg.o idx fill) frames with
        | .error e => .error e
        | .ok colss =>
          if colss.flatten.isEmpty then .error .init
          else
            match finalAlongIndex cfg columns? columns colss.flatten.length with
            | .error e => .error e
            | .ok c => .ok ⟨idx, c, colss.flatten⟩

/-- `IndexHierarchy.from_index_items(items)`: labels `(key, inner)` in order -/
def fromIndexItems (cfg : Cfg α) (items : List (α × Idx α)) : List α :=
  (items.map fun (k, i) => i.labels.map (cfg.pair k)).flatten

/-- `Frame.from_concat_items(items, axis, union, fill_value)` -/
def fromConcatItems (cfg : Cfg α) (items : List (α × BFrame α β)) (axis : Nat) (union : Bool) (fill : β)
    (fillKind : Kind) : Except Err (Frame α β) :=
  if axis ≠ 0 ∧ axis ≠ 1 then .error .value
  -- `from_index_items` builds an IndexLevel per item: a zero-length Index needs a depth_reference
  else if items.any (fun (_, f) => if axis = 0 then f.index.labels.isEmpty else f.columns.labels.isEmpty) then
    .error .init
  else if ¬ (items.map (·.1)).Nodup then .error .nonUnique   -- the outer Index of `from_index_items`
  else if axis = 0 then
    let labels := fromIndexItems cfg (items.map fun (k, f) => (k, f.index))
    match mkIndex labels .obj with
    | .error e => .error e
    | .ok _ => fromConcat0 cfg (items.map (·.2)) union (.given labels .obj) .none fill fillKind
  else if axis = 1 then
    let labels := fromIndexItems cfg (items.map fun (k, f) => (k, f.columns))
    match mkIndex labels .obj with
    | .error e => .error e
    | .ok _ => fromConcat1 cfg (items.map (·.2)) union .none (.given labels .obj) fill
  else .error .value

/-! ### Series -/

/-- `Series.from_concat(containers, index=…)` -/
def seriesFromConcat (cfg : Cfg α) (ss : List (Series α β)) (index : IndexArg α) : Except Err (Series α β) :=
  let values := (ss.map (·.values)).flatten
  if ss.isEmpty then
    match index with
    | .given ls k => (givenIndex ls k 0).map (⟨·, []⟩)
    | _ => .ok ⟨⟨[], .float⟩, []⟩
  else
    match index with
    | .none => (indexManyConcat (ss.map (·.index))).map (⟨·, values⟩)
    | .auto => .ok ⟨autoIndex cfg values.length, values⟩
    | .given ls k => (givenIndex ls k values.length).map (⟨·, values⟩)

/-- `Series.from_concat_items(items)` -/
def seriesFromConcatItems (cfg : Cfg α) (items : List (α × Series α β)) : Except Err (Series α β) :=
  let labels := fromIndexItems cfg (items.map fun (k, s) => (k, s.index))
  if items.any (fun (_, s) => s.index.labels.isEmpty) then .error .init   -- zero-length IndexLevel (ErrorInitIndexLevel)
  else if ¬ (items.map (·.1)).Nodup then .error .nonUnique   -- the outer Index of `from_index_items`
  else (mkIndex labels .obj).map (⟨·, (items.map (·.2.values)).flatten⟩)

/-! ### overlay -/

/-- `TypeBlocks.fillna_by_values` on one column: a missing cell takes the aligned value -/
def fillnaBy (isna : β → Bool) (post vals : List β) : List β :=
  List.zipWith (fun p v => if isna p then v else p) post vals

/-- `Series.fillna(other Series)`: missing cells whose label the other Series has take its value
    (`labels_common = intersect1d(index[isna], other.index)`; `sel = index.isin(labels_common)`) -/
def seriesFillna (o : PyOrd α) (isna : β → Bool) (post other : Series α β) : Series α β :=
  let sel := post.values.map isna
  if !sel.any id then post
  else
    let naLabels := (post.index.labels.zip sel).filterMap fun (l, s) => if s then some l else none
    let common := ufuncSet1d o .inter post.index.kind other.index.kind naLabels other.index.labels false
    if !post.index.labels.any (· ∈ common) then post
    else
      ⟨post.index, List.zipWith (fun l p =>
        if l ∈ common then (other.get? l).getD p else p) post.index.labels post.values⟩

/-- the loop of `from_overlay`: fill from each further container, stop once nothing is missing -/
def seriesOverlayLoop (o : PyOrd α) (isna : β → Bool) : Series α β → List (Series α β) → Series α β
  | post, [] => post
  | post, c :: cs =>
    let post' := seriesFillna o isna post c
    if !post'.values.any isna then post' else seriesOverlayLoop o isna post' cs

/-- the labels an overlay aligns on: the given index, else `index_many_set` of the containers' -/
def overlayTarget (o : PyOrd α) (union : Bool) (idxs : List (Idx α)) (arg : Option (Idx α)) : Idx α :=
  match arg with
  | some i => i
  | none => indexManySet o union idxs

/-- …as computed (a given initializer goes through the Index constructor) -/
def overlayTargetE (o : PyOrd α) (union : Bool) (idxs : List (Idx α)) (arg : Option (Idx α)) : Except Err (Idx α) :=
  match arg with
  | none => .ok (indexManySet o union idxs)
  | some i => mkIndex i.labels i.kind

/-- `Series.from_overlay(containers, index=…, union=…)`; `na` is the fill of the first reindex -/
def seriesFromOverlay (o : PyOrd α) (isna : β → Bool) (na : β) (containers : List (Series α β))
    (index : Option (Idx α)) (union : Bool) : Except Err (Series α β) :=
  match overlayTargetE o union (containers.map (·.index)) index, containers with
  | .error e, _ => .error e
  | .ok _, [] => .error .other
  | .ok idx, first :: rest =>
    match (if first.index.equals idx false then (.ok ⟨idx, first.values⟩ : Except Err (Series α β))
           else first.reindex o idx na true) with
    | .error e => .error e
    | .ok post => .ok (seriesOverlayLoop o isna post rest)

/-- the aligned column a further container contributes to `fillna_by_values` -/
def overlayColumn (o : PyOrd α) (na : β) (index : Idx α) (c : Frame α β) (col : α) : Except Err (List β) :=
  match lookup c.columns.labels c.cols col with
  | none => .ok (List.replicate index.labels.length na)
  | some vs => ((⟨c.index, vs⟩ : Series α β).reindex o index na true).map (·.values)

def frameOverlayLoop (o : PyOrd α) (isna : β → Bool) (na : β) :
    Frame α β → List (Frame α β) → Except Err (Frame α β)
  | post, [] => .ok post
  | post, c :: cs =>
    match mapMExcept (overlayColumn o na post.index c) post.columns.labels with
    | .error e => .error e
    | .ok vals =>
      let post' : Frame α β := ⟨post.index, post.columns, List.zipWith (fillnaBy isna) post.cols vals⟩
      -- `cls(post._blocks.fillna_by_values(values), …)`: no block, no shape reference
      if post'.cols.isEmpty then .error .init
      else if !post'.cols.any (·.any isna) then .ok post' else frameOverlayLoop o isna na post' cs

/-- `Frame.from_overlay(containers, index=…, columns=…, union=…)` -/
def frameFromOverlay (o : PyOrd α) (isna : β → Bool) (na : β) (containers : List (Frame α β))
    (index columns : Option (Idx α)) (union : Bool) : Except Err (Frame α β) :=
  match overlayTargetE o union (containers.map (·.index)) index,
      overlayTargetE o union (containers.map (·.columns)) columns, containers with
  | .error e, _, _ => .error e
  | _, .error e, _ => .error e
  | .ok _, .ok _, [] => .error .other
  | .ok idx, .ok cols, first :: rest =>
    match first.reindex o (some idx) (some cols) na with
    | .error e => .error e
    | .ok post => frameOverlayLoop o isna na post rest

end

end Concat
end SF
