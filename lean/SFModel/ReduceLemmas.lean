/- Helper lemmas for SFModel.Reduce (used by Props/C15.lean). -/
import SFModel.Reduce

namespace SF.Reduce
open SF

/-! ### Except plumbing -/

theorem mapM_ok_of_forall {β γ : Type} (f : β → Except Err γ) (g : β → γ) (l : List β)
    (h : ∀ b ∈ l, f b = .ok (g b)) : l.mapM f = .ok (l.map g) := by
  induction l with
  | nil => rfl
  | cons a l ih =>
    rw [List.mapM_cons, h a (by simp), ih (fun b hb => h b (by simp [hb]))]
    rfl

theorem mapM_congr_mem {β γ : Type} (f g : β → Except Err γ) (l : List β)
    (h : ∀ b ∈ l, f b = g b) : l.mapM f = l.mapM g := by
  induction l with
  | nil => rfl
  | cons a l ih =>
    rw [List.mapM_cons, List.mapM_cons, h a (by simp), ih (fun b hb => h b (by simp [hb]))]

/-! ### the lifted operation is a monoid on cells -/

section monoid
variable {α : Type} (op : α → α → α)

theorem olift_none_left (y : Option α) : olift op none y = y := by cases y <;> rfl
theorem olift_none_right (x : Option α) : olift op x none = x := by cases x <;> rfl

theorem olift_assoc (hassoc : ∀ a b c, op (op a b) c = op a (op b c)) (a b c : Option α) :
    olift op (olift op a b) c = olift op a (olift op b c) := by
  cases a <;> cases b <;> cases c <;> simp [olift, hassoc]

theorem foldl_olift (hassoc : ∀ a b c, op (op a b) c = op a (op b c)) (a : Option α) (xs : List (Option α)) :
    xs.foldl (olift op) a = olift op a (osum op xs) := by
  unfold osum
  induction xs generalizing a with
  | nil => simp [olift_none_right]
  | cons x xs ih =>
    simp only [List.foldl_cons]
    rw [ih (olift op a x), ih (olift op none x), olift_none_left, olift_assoc op hassoc]

theorem osum_nil : osum op ([] : List (Option α)) = none := rfl

theorem osum_cons (hassoc : ∀ a b c, op (op a b) c = op a (op b c)) (x : Option α) (xs : List (Option α)) :
    osum op (x :: xs) = olift op x (osum op xs) := by
  show (x :: xs).foldl (olift op) none = _
  rw [List.foldl_cons, olift_none_left, foldl_olift op hassoc]

theorem osum_append (hassoc : ∀ a b c, op (op a b) c = op a (op b c)) (xs ys : List (Option α)) :
    osum op (xs ++ ys) = olift op (osum op xs) (osum op ys) := by
  show (xs ++ ys).foldl (olift op) none = _
  rw [List.foldl_append, foldl_olift op hassoc]
  rfl

/-- fold over a partition = fold of the folds of the parts -/
theorem osum_flatten (hassoc : ∀ a b c, op (op a b) c = op a (op b c)) (parts : List (List (Option α))) :
    osum op parts.flatten = osum op (parts.map (osum op)) := by
  induction parts with
  | nil => rfl
  | cons p ps ih =>
    rw [List.flatten_cons, osum_append op hassoc, ih, List.map_cons, osum_cons op hassoc]

theorem osum_singleton (c : Option α) : osum op [c] = c := by
  simp [osum, olift_none_left]

/-- with all cells present and at least one cell the combination is a value -/
theorem osum_isSome_of_all_some (hassoc : ∀ a b c, op (op a b) c = op a (op b c)) (xs : List (Option α))
    (hne : xs ≠ []) (hall : xs.any Option.isNone = false) : (osum op xs).isSome = true := by
  induction xs with
  | nil => exact absurd rfl hne
  | cons x xs ih =>
    rw [osum_cons op hassoc]
    simp only [List.any_cons, Bool.or_eq_false_iff] at hall
    cases x with
    | none => simp at hall
    | some v => cases h : osum op xs <;> simp [olift]

/-- a missing cell anywhere makes the propagating combination see it -/
theorem getD_osum (e : α) (hl : ∀ a, op e a = a) (hr : ∀ a, op a e = a)
    (a : Option α) (xs : List (Option α)) :
    (xs.foldl (olift op) a).getD e = xs.foldl (fun acc x => op acc (x.getD e)) (a.getD e) := by
  induction xs generalizing a with
  | nil => rfl
  | cons x xs ih =>
    simp only [List.foldl_cons]
    rw [ih]
    congr 1
    cases a <;> cases x <;> simp [olift, hl, hr]

end monoid

/-! ### rows of column lists -/

theorem rowOf_append (a b : List (List (Option α))) (i : Nat) : rowOf (a ++ b) i = rowOf a i ++ rowOf b i := by
  simp [rowOf, List.filterMap_append]

theorem rowOf_flatMap (bs : List (RBlock α)) (i : Nat) :
    rowOf (bs.flatMap RBlock.cols) i = bs.flatMap (fun b => rowOf b.cols i) := by
  induction bs with
  | nil => rfl
  | cons b bs ih => simp [List.flatMap_cons, rowOf_append, ih]

theorem rowOf_length_of_lt (cs : List (List (Option α))) (i n : Nat) (h : ∀ c ∈ cs, c.length = n) (hi : i < n) :
    (rowOf cs i).length = cs.length := by
  induction cs with
  | nil => rfl
  | cons c cs ih =>
    have hc : i < c.length := by rw [h c (by simp)]; exact hi
    simp only [rowOf, List.filterMap_cons, List.getElem?_eq_getElem hc, List.length_cons]
    have := ih (fun c' hc' => h c' (by simp [hc']))
    simp only [rowOf] at this
    rw [this]

/-! ### lawful reductions, and the two-stage (per block, then over blocks) path -/

/-- `op` is associative and `unit`, when present, is its identity -/
structure Red.Lawful (r : Red α) : Prop where
  assoc : ∀ a b c, r.op (r.op a b) c = r.op a (r.op b c)
  unitL : ∀ e, r.unit = some e → ∀ a, r.op e a = a
  unitR : ∀ e, r.unit = some e → ∀ a, r.op a e = a

/-- with skipna, a non-empty vector never raises: the combination, or the identity, or missing -/
theorem apply_skip_nonempty (r : Red α) (cs : List (Option α)) (hne : cs ≠ []) :
    r.apply true cs = .ok ((osum r.op cs).orElse (fun _ => r.unit)) := by
  have hlen : cs.length ≠ 0 := by simpa using hne
  simp only [Red.apply, if_true]
  cases h : osum r.op cs with
  | some v => simp [Red.fin]
  | none =>
    cases hu : r.unit with
    | some e => simp [Red.fin, hu]
    | none => simp [Red.fin, hu, hlen]

/-- `fin` only looks at: is the input empty, the combined value, and (with an identity) the value
    after substituting the identity -/
theorem fin_congr (r : Red α) (n1 n2 : Nat) (x1 x2 : Option α) (hn : n1 = 0 ↔ n2 = 0)
    (h0 : r.unit = none → x1 = x2) (h1 : ∀ e, r.unit = some e → x1.getD e = x2.getD e) :
    r.fin n1 x1 = r.fin n2 x2 := by
  cases hu : r.unit with
  | none =>
    rw [h0 hu]
    cases x2 with
    | some v => simp [Red.fin]
    | none =>
      simp only [Red.fin, hu]
      by_cases h : n1 = 0
      · simp [h, hn.mp h]
      · have : n2 ≠ 0 := fun h2 => h (hn.mpr h2)
        simp [h, this]
  | some e =>
    have := h1 e hu
    cases x1 <;> cases x2 <;> simp_all [Red.fin]

section twostage
variable {α β : Type} (r : Red α) (hl : r.Lawful)
include hl

theorem two_stage_skip (l : List β) (cells : β → List (Option α)) (part : β → Except Err (Option α))
    (hne : ∀ b ∈ l, cells b ≠ [])
    (hp : ∀ b ∈ l, part b = r.apply true (cells b) ∨ ∃ c, cells b = [c] ∧ part b = .ok c) :
    (do let ps ← l.mapM part; r.apply true ps) = r.apply true (l.flatMap cells) := by
  -- every partial result is a value `p b`
  let p : β → Option α := fun b => match part b with | .ok x => x | .error _ => none
  have hpart : ∀ b ∈ l, part b = .ok (p b) ∧
      (p b = osum r.op (cells b) ∨ (osum r.op (cells b) = none ∧ p b = r.unit)) := by
    intro b hb
    have happ := apply_skip_nonempty r (cells b) (hne b hb)
    have hq : (osum r.op (cells b)).orElse (fun _ => r.unit) = osum r.op (cells b) ∨
        (osum r.op (cells b) = none ∧ (osum r.op (cells b)).orElse (fun _ => r.unit) = r.unit) := by
      cases h : osum r.op (cells b) <;> simp
    rcases hp b hb with h | ⟨c, hc, hpc⟩
    · have hpb : p b = (osum r.op (cells b)).orElse (fun _ => r.unit) := by
        simp only [p, h, happ]
      rw [hpb]
      exact ⟨by rw [h, happ], hq⟩
    · have hpb : p b = c := by simp only [p, hpc]
      rw [hpb]
      exact ⟨hpc, Or.inl (by rw [hc, osum_singleton])⟩
  rw [mapM_ok_of_forall part p l (fun b hb => (hpart b hb).1)]
  show r.apply true (l.map p) = _
  simp only [Red.apply, if_true]
  have hflat : osum r.op (l.flatMap cells) = osum r.op (l.map (fun b => osum r.op (cells b))) := by
    rw [List.flatMap_def, osum_flatten r.op hl.assoc, List.map_map]; rfl
  apply fin_congr
  · -- emptiness
    simp only [List.length_map]
    constructor
    · intro h
      have : l = [] := List.eq_nil_of_length_eq_zero h
      subst this; rfl
    · intro h
      cases l with
      | nil => rfl
      | cons b bs =>
        exfalso
        have := hne b (by simp)
        simp only [List.flatMap_cons, List.length_append] at h
        have : (cells b).length = 0 := by omega
        exact (hne b (by simp)) (List.eq_nil_of_length_eq_zero this)
  · intro hu
    rw [hflat]
    congr 1
    apply List.map_congr_left
    intro b hb
    rcases (hpart b hb).2 with h | ⟨h1, h2⟩
    · exact h
    · rw [h2, hu, h1]
  · intro e hu
    rw [hflat]
    unfold osum
    rw [getD_osum r.op e (hl.unitL e hu) (hl.unitR e hu), getD_osum r.op e (hl.unitL e hu) (hl.unitR e hu)]
    simp only [List.foldl_map]
    have hpt : ∀ b ∈ l, (p b).getD e = (osum r.op (cells b)).getD e := by
      intro b hb
      rcases (hpart b hb).2 with h | ⟨h1, h2⟩
      · rw [h]
      · rw [h2, hu, h1]; rfl
    clear_value p
    clear hpart hflat
    generalize (none : Option α).getD e = a0
    induction l generalizing a0 with
    | nil => rfl
    | cons b bs ih =>
      simp only [List.foldl_cons]
      rw [hpt b (by simp)]
      exact ih (fun b' hb' => hne b' (by simp [hb'])) (fun b' hb' => hp b' (by simp [hb']))
        (fun b' hb' => hpt b' (by simp [hb'])) _

/-- without skipna, all cells present: the combination of a non-empty vector is a value -/
theorem apply_prop_clean (cs : List (Option α)) (hne : cs ≠ []) (hc : cs.any Option.isNone = false) :
    r.apply false cs = .ok (osum r.op cs) ∧ (osum r.op cs).isSome = true := by
  have hs := osum_isSome_of_all_some r.op hl.assoc cs hne hc
  refine ⟨?_, hs⟩
  simp only [Red.apply, hc]
  cases h : osum r.op cs with
  | none => rw [h] at hs; cases hs
  | some v => simp [Red.fin]

omit hl in
/-- without skipna, a missing cell: propagated or rejected -/
theorem apply_prop_missing (cs : List (Option α)) (hc : cs.any Option.isNone = true) :
    r.apply false cs = if r.reject then .error .value else .ok none := by
  simp [Red.apply, hc]

/-- a missing cell somewhere (already collected, or still to come) decides the outcome of the
    two-stage path -/
theorem two_stage_prop_missing (l : List β) (cells : β → List (Option α)) (part : β → Except Err (Option α))
    (hne : ∀ b ∈ l, cells b ≠ [])
    (hp : ∀ b ∈ l, part b = r.apply false (cells b) ∨ ∃ c, cells b = [c] ∧ part b = .ok c)
    (pre : List (Option α))
    (hm : pre.any Option.isNone = true ∨ ∃ b ∈ l, (cells b).any Option.isNone = true) :
    (do let ps ← l.mapM part; r.apply false (pre ++ ps)) =
      if r.reject then .error .value else .ok none := by
  induction l generalizing pre with
  | nil =>
    have hpre : pre.any Option.isNone = true := by
      rcases hm with h | ⟨b, hb, _⟩
      · exact h
      · cases hb
    show r.apply false (pre ++ []) = _
    rw [List.append_nil]
    exact apply_prop_missing r pre hpre
  | cons b bs ih =>
    have ih' := fun pre' hm' => ih (fun b' hb' => hne b' (by simp [hb'])) (fun b' hb' => hp b' (by simp [hb'])) pre' hm'
    rw [List.mapM_cons]
    -- the value the stage-one call contributes, when it does not raise
    have step : ∀ x : Option α, part b = .ok x →
        (x = none ∨ pre.any Option.isNone = true ∨ ∃ b' ∈ bs, (cells b').any Option.isNone = true) →
        (do let ps ← (do let y ← part b; let ys ← bs.mapM part; pure (y :: ys)); r.apply false (pre ++ ps)) =
          if r.reject then .error .value else .ok none := by
      intro x hx hcond
      have := ih' (pre ++ [x]) (by
        rcases hcond with h | h | h
        · left; simp [h]
        · left; simp [h]
        · right; exact h)
      rw [hx]
      simp only [bind, Except.bind, pure, Except.pure] at this ⊢
      cases hbs : bs.mapM part with
      | error e => simp only [hbs] at this ⊢; exact this
      | ok ys => simp only [hbs, List.append_assoc, List.singleton_append] at this ⊢; exact this
    rcases hp b (by simp) with h | ⟨c, hc, hpc⟩
    · by_cases hb : (cells b).any Option.isNone = true
      · rw [apply_prop_missing r _ hb] at h
        by_cases hr : r.reject = true
        · simp only [hr, if_true] at h ⊢
          rw [h]; rfl
        · have hr' : r.reject = false := by simpa using hr
          simp only [hr', Bool.false_eq_true, if_false] at h
          have := step none h (Or.inl rfl)
          simpa [hr'] using this
      · have hb' : (cells b).any Option.isNone = false := Bool.eq_false_iff.mpr hb
        have hclean := (apply_prop_clean r hl _ (hne b (by simp)) hb').1
        rw [hclean] at h
        apply step _ h
        rcases hm with hm | ⟨b', hb'm, hbad⟩
        · exact Or.inr (Or.inl hm)
        · rcases List.mem_cons.mp hb'm with rfl | hmem
          · rw [hbad] at hb'; cases hb'
          · exact Or.inr (Or.inr ⟨b', hmem, hbad⟩)
    · apply step c hpc
      rcases hm with hm | ⟨b', hb'm, hbad⟩
      · exact Or.inr (Or.inl hm)
      · rcases List.mem_cons.mp hb'm with rfl | hmem
        · left
          rw [hc] at hbad
          cases c <;> simp_all
        · exact Or.inr (Or.inr ⟨b', hmem, hbad⟩)

theorem two_stage_prop (l : List β) (cells : β → List (Option α)) (part : β → Except Err (Option α))
    (hne : ∀ b ∈ l, cells b ≠ [])
    (hp : ∀ b ∈ l, part b = r.apply false (cells b) ∨ ∃ c, cells b = [c] ∧ part b = .ok c) :
    (do let ps ← l.mapM part; r.apply false ps) = r.apply false (l.flatMap cells) := by
  by_cases hmiss : ∃ b ∈ l, (cells b).any Option.isNone = true
  · have h1 := two_stage_prop_missing r hl l cells part hne hp [] (Or.inr hmiss)
    simp only [List.nil_append] at h1
    rw [h1]
    symm
    apply apply_prop_missing r
    obtain ⟨b, hb, hbad⟩ := hmiss
    simp only [List.any_flatMap, List.any_eq_true]
    exact ⟨b, hb, by simpa using hbad⟩
  · have hclean : ∀ b ∈ l, (cells b).any Option.isNone = false := by
      intro b hb
      by_cases h : (cells b).any Option.isNone = true
      · exact absurd ⟨b, hb, h⟩ hmiss
      · exact Bool.eq_false_iff.mpr h
    have hpart : ∀ b ∈ l, part b = .ok (osum r.op (cells b)) := by
      intro b hb
      rcases hp b hb with h | ⟨c, hc, hpc⟩
      · rw [h, (apply_prop_clean r hl _ (hne b hb) (hclean b hb)).1]
      · rw [hpc, hc, osum_singleton]
    rw [mapM_ok_of_forall part (fun b => osum r.op (cells b)) l hpart]
    show r.apply false (l.map fun b => osum r.op (cells b)) = _
    have hflat : osum r.op (l.flatMap cells) = osum r.op (l.map (fun b => osum r.op (cells b))) := by
      rw [List.flatMap_def, osum_flatten r.op hl.assoc, List.map_map]; rfl
    have hn1 : (l.map fun b => osum r.op (cells b)).any Option.isNone = false := by
      rw [List.any_eq_false]
      intro x hx
      obtain ⟨b, hb, rfl⟩ := List.mem_map.mp hx
      have := (apply_prop_clean r hl _ (hne b hb) (hclean b hb)).2
      cases h : osum r.op (cells b) <;> simp_all
    have hn2 : (l.flatMap cells).any Option.isNone = false := by
      rw [List.any_eq_false]
      intro x hx
      obtain ⟨b, hb, hxb⟩ := List.mem_flatMap.mp hx
      have := hclean b hb
      rw [List.any_eq_false] at this
      exact this x hxb
    simp only [Red.apply, hn1, hn2, Bool.false_eq_true, if_false]
    apply fin_congr
    · simp only [List.length_map]
      constructor
      · intro h
        have : l = [] := List.eq_nil_of_length_eq_zero h
        subst this; rfl
      · intro h
        cases l with
        | nil => rfl
        | cons b bs =>
          exfalso
          simp only [List.flatMap_cons, List.length_append] at h
          have : (cells b).length = 0 := by omega
          exact (hne b (by simp)) (List.eq_nil_of_length_eq_zero this)
    · intro _; rw [hflat]
    · intro e _; rw [hflat]

end twostage


/-! ### blocks -/

theorem mapM_append' {β γ : Type} (f : β → Except Err γ) (l1 l2 : List β) :
    (l1 ++ l2).mapM f = (do let a ← l1.mapM f; let b ← l2.mapM f; pure (a ++ b)) := by
  induction l1 with
  | nil =>
    simp only [List.nil_append, List.mapM_nil, pure, Except.pure, bind, Except.bind]
    cases l2.mapM f <;> rfl
  | cons a l1 ih =>
    simp only [List.cons_append, List.mapM_cons, ih, bind, Except.bind, pure, Except.pure]
    cases f a with
    | error e => rfl
    | ok x =>
      cases l1.mapM f with
      | error e => rfl
      | ok xs =>
        cases l2.mapM f <;> rfl

/-- mapping over the concatenated columns = mapping block by block, then concatenating -/
theorem mapM_flatMap {β γ δ : Type} (g : β → List γ) (f : γ → Except Err δ) (l : List β) :
    (l.flatMap g).mapM f = (l.mapM (fun b => (g b).mapM f)).map List.flatten := by
  induction l with
  | nil => rfl
  | cons b bs ih =>
    rw [List.flatMap_cons, mapM_append', ih, List.mapM_cons]
    simp only [bind, Except.bind, pure, Except.pure, Except.map]
    cases (g b).mapM f with
    | error e => rfl
    | ok x =>
      cases bs.mapM (fun b => (g b).mapM f) <;> rfl

/-- under WF a block of size one is a single cell -/
theorem onlyCell_of_size_one {tb : RTB α} (hwf : tb.WF) {b : RBlock α} (hb : b ∈ tb.blocks)
    (hs : b.size tb.rows = 1) : ∃ c, b.cols = [[c]] ∧ b.onlyCell? = some c ∧ tb.rows = 1 := by
  unfold RBlock.size at hs
  have hr : tb.rows = 1 := by
    have := Nat.eq_one_of_mul_eq_one_right hs
    exact this
  have hc : b.cols.length = 1 := Nat.eq_one_of_mul_eq_one_left hs
  match hcols : b.cols with
  | [] => simp [hcols] at hc
  | [col] =>
    have hmem : col ∈ tb.cols := by
      unfold RTB.cols
      exact List.mem_flatMap.mpr ⟨b, hb, by simp [hcols]⟩
    have hlen := hwf.1 col hmem
    rw [hr] at hlen
    match col, hlen with
    | [c], _ => exact ⟨c, rfl, by simp [RBlock.onlyCell?, hcols], hr⟩
  | _ :: _ :: _ => simp [hcols] at hc

theorem axis0Block_eq {tb : RTB α} (hwf : tb.WF) (f : VecFn α) (d : Desc) (skipna : Bool)
    (hunity : d.sizeOneUnity = true → ∀ c, f false [c] = .ok c)
    {b : RBlock α} (hb : b ∈ tb.blocks) :
    axis0Block f d skipna tb.rows b = b.cols.mapM (f skipna) := by
  unfold axis0Block
  split
  · rename_i h
    obtain ⟨hs, hu, hsk⟩ := h
    obtain ⟨c, hcols, hcell, _⟩ := onlyCell_of_size_one hwf hb hs
    have hsk' : skipna = false := by simpa using hsk
    rw [hcell, hcols, hsk']
    simp [List.mapM_cons, hunity hu c, bind, Except.bind, pure, Except.pure]
  · rfl

/-- stage one of the composable path, for a row in range: either the per-vector function on the
    block's part of the row, or the raw cell of a one-column block -/
theorem axis1Partial_cases {tb : RTB α} (hwf : tb.WF) (f : VecFn α) (d : Desc) (skipna : Bool)
    {b : RBlock α} (hb : b ∈ tb.blocks) {i : Nat} (hi : i < tb.rows) :
    axis1Partial f d skipna tb.rows b i = f skipna (rowOf b.cols i) ∨
      ∃ c, rowOf b.cols i = [c] ∧ axis1Partial f d skipna tb.rows b i = .ok c := by
  unfold axis1Partial
  split
  · rename_i h
    obtain ⟨c, hcols, hcell, hr⟩ := onlyCell_of_size_one hwf hb h.1
    right
    have hi0 : i = 0 := by omega
    exact ⟨c, by simp [hcols, rowOf, hi0], by simp [hcell]⟩
  · cases b with
    | d1 isBool col =>
      simp only
      split
      · left; rfl
      · have hmem : col ∈ tb.cols := by
          unfold RTB.cols
          exact List.mem_flatMap.mpr ⟨_, hb, by simp [RBlock.cols]⟩
        have hlen := hwf.1 col hmem
        have hic : i < col.length := by omega
        right
        exact ⟨col[i], by simp [RBlock.cols, rowOf, List.getElem?_eq_getElem hic],
          by simp [List.getElem?_eq_getElem hic]⟩
    | d2 isBool cs => left; rfl

theorem rowOf_block_ne_nil {tb : RTB α} (hwf : tb.WF) {b : RBlock α} (hb : b ∈ tb.blocks) {i : Nat}
    (hi : i < tb.rows) : rowOf b.cols i ≠ [] := by
  have hlen : (rowOf b.cols i).length = b.cols.length := by
    apply rowOf_length_of_lt _ _ tb.rows _ hi
    intro c hc
    exact hwf.1 c (List.mem_flatMap.mpr ⟨b, hb, hc⟩)
  intro h
  rw [h] at hlen
  exact hwf.2 b hb (List.eq_nil_of_length_eq_zero hlen.symm)

end SF.Reduce
