/-
  SFModel.WindowSem — the meaning `tools/py2lean_window.py` gives to the two non-arithmetic
  primitives of `container_util.axis_window_items` its generated skeleton (Gen/Window.lean) names:

    * `labels.iloc[i]` for a Python int `i` on an index of `n` labels (`ilocPos`): Index.iloc goes to
      NumPy integer indexing of the label array - positions `-n … -1` count from the end, everything
      else outside `0 … n-1` is an IndexError (`none`).  Checked on Index, IndexGO, IndexDate,
      IndexHierarchy by the harness (`c13.py`, case kind `wsem`).
    * the sub-container a data-only extraction (`values[key]`, `source._extract_iloc(key)`,
      `source._extract(row_key=key)`, …) returns for `key = slice(start, stop)` on an axis of `n` entries
      (`sliceWindow`): CPython `PySlice_AdjustIndices` with step 1, reported as
      (first position, number of positions).  `BridgeWindow.sliceWindow_indices` ties it to the project's
      `PySlice.indices` / `rangeLen` (Slice.lean).

  Trusted (they are the translator's semantics of these two constructs); core Lean only.
-/
import SFModel.Slice

namespace SF.WindowSem

/-- `labels.iloc[i]`: the position read, `none` = IndexError -/
def ilocPos (n : Nat) (i : Int) : Option Nat :=
  if 0 ≤ i ∧ i < n then some i.toNat
  else if i < 0 ∧ -(n : Int) ≤ i then some (i + n).toNat
  else none

/-- CPython `PySlice_AdjustIndices` for one bound of a slice with step 1 on a sequence of length `n` -/
def adjust (v : Int) (n : Nat) : Int :=
  if v < 0 then max (v + n) 0 else min v n

/-- `X[slice(start, stop)]` on an axis of `n` entries: (first position, number of positions) -/
def sliceWindow (start stop : Int) (n : Nat) : Nat × Nat :=
  ((adjust start n).toNat, (adjust stop n - adjust start n).toNat)

end SF.WindowSem
