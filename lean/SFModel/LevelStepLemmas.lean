/-
  Helper lemmas for SFModel.Level, part 7: HLoc resolution (`Level.locToIloc`) for per-depth selectors
  that include label slices with ANY non-zero step (positive steps > 1, negative steps) at any depth and
  a Boolean mask at the innermost depth.

  As in part 6 a label slice is resolved by every visited node against its OWN label order; the mapped
  slice of a node is `range(start, stop, step)` over the node's positions with
    * step > 0: start = position of the start label (0 when open), stop = position of the stop label + 1
                (the number of labels when open);
    * step < 0: start = position of the start label (last position when open), stop = position of the stop
                label - 1 (-1, "below the first position", when open) — `Index.mapSliceStop`.
  A Boolean mask is cut by the leaf to `mask[start : start + len(leaf)]` (`start` = global position of the
  first label of the leaf), so it selects by GLOBAL position.
-/
import SFModel.LevelSliceLemmas
set_option linter.unusedSectionVars false
set_option linter.unusedVariables false

namespace SF

/-! ### `range(a, b, k)` -/

/-- `x in range(a, b, k)` -/
def inRange (a b k x : Int) : Bool :=
  if 0 < k then decide (a ≤ x ∧ x < b ∧ (x - a) % k = 0)
  else if k < 0 then decide (b < x ∧ x ≤ a ∧ (a - x) % (-k) = 0)
  else false

theorem mem_rangeList_iff {a b k x : Int} : x ∈ rangeList a b k ↔ inRange a b k x = true := by
  rw [mem_rangeList]
  unfold inRange
  by_cases hk : 0 < k
  · rw [if_pos hk]; simp only [decide_eq_true_eq]
    constructor
    · rintro ⟨j, hj, rfl⟩
      have h1 := rangeLen_pos_bound hk hj
      have h2 : 0 ≤ (j : Int) * k := Int.mul_nonneg (by omega) (by omega)
      refine ⟨by omega, h1, ?_⟩
      have : a + (j : Int) * k - a = (j : Int) * k := by omega
      rw [this, Int.mul_emod_left]
    · rintro ⟨h1, h2, h3⟩
      have hd : k * ((x - a) / k) = x - a := by
        have := Int.mul_ediv_add_emod (x - a) k; omega
      have hq0 : 0 ≤ (x - a) / k := Int.ediv_nonneg (by omega) (by omega)
      refine ⟨((x - a) / k).toNat, ?_, ?_⟩
      · unfold rangeLen
        rw [if_pos hk, if_pos (by omega)]
        have : (x - a) / k ≤ (b - a - 1) / k := Int.ediv_le_ediv hk (by omega)
        omega
      · have : (((x - a) / k).toNat : Int) = (x - a) / k := by omega
        rw [this, Int.mul_comm]; omega
  · rw [if_neg hk]
    by_cases hn : k < 0
    · rw [if_pos hn]; simp only [decide_eq_true_eq]
      constructor
      · rintro ⟨j, hj, rfl⟩
        have h1 := rangeLen_neg_bound hn hj
        have h2 : 0 ≤ (j : Int) * (-k) := Int.mul_nonneg (by omega) (by omega)
        have h3 : (j : Int) * (-k) = -((j : Int) * k) := by rw [Int.mul_neg]
        refine ⟨h1, by omega, ?_⟩
        have : a - (a + (j : Int) * k) = (j : Int) * (-k) := by omega
        rw [this, Int.mul_emod_left]
      · rintro ⟨h1, h2, h3⟩
        have hd : (-k) * ((a - x) / (-k)) = a - x := by
          have := Int.mul_ediv_add_emod (a - x) (-k); omega
        have hq0 : 0 ≤ (a - x) / (-k) := Int.ediv_nonneg (by omega) (by omega)
        refine ⟨((a - x) / (-k)).toNat, ?_, ?_⟩
        · unfold rangeLen
          rw [if_neg hk, if_pos hn, if_pos (by omega)]
          have : (a - x) / (-k) ≤ (a - b - 1) / (-k) := Int.ediv_le_ediv (by omega) (by omega)
          omega
        · have e : (((a - x) / (-k)).toNat : Int) = (a - x) / (-k) := by omega
          have h4 : (-k) * ((a - x) / (-k)) = -(((a - x) / (-k)) * k) := by
            rw [Int.neg_mul, Int.mul_comm]
          rw [e]; omega
    · rw [if_neg hn]
      have : k = 0 := by omega
      subst this
      simp [rangeLen]

/-- the elements of `range(a, b, k)` are non-negative when the range starts at a position (k > 0) or
    stops at `-1` or above (k < 0) -/
theorem rangeList_nonneg {a b k : Int} (ha : 0 < k → 0 ≤ a) (hb : k < 0 → -1 ≤ b) {j : Nat}
    (hj : j < rangeLen a b k) : 0 ≤ a + (j : Int) * k := by
  by_cases hk : 0 < k
  · have h2 : 0 ≤ (j : Int) * k := Int.mul_nonneg (by omega) (by omega)
    have := ha hk; omega
  · by_cases hn : k < 0
    · have := rangeLen_neg_bound hn hj
      have := hb hn; omega
    · have : k = 0 := by omega
      subst this
      simp [rangeLen] at hj

theorem rangeLen_shift (a b c k : Int) : rangeLen (a + c) (b + c) k = rangeLen a b k := by
  unfold rangeLen
  have e1 : b + c - (a + c) - 1 = b - a - 1 := by omega
  have e2 : a + c - (b + c) - 1 = a - b - 1 := by omega
  rw [e1, e2]
  simp only [Int.add_lt_add_iff_right]

/-- shifting a range of positions by the offset of a leaf -/
theorem rangeList_shift_toNat (a b k : Int) (off : Nat) (ha : 0 < k → 0 ≤ a) (hb : k < 0 → -1 ≤ b) :
    (rangeList (a + off) (b + off) k).map Int.toNat = ((rangeList a b k).map Int.toNat).map (off + ·) := by
  apply List.ext_getElem
  · simp only [List.length_map, rangeList_length, rangeLen_shift]
  · intro j h1 h2
    simp only [List.length_map, rangeList_length] at h2
    have := rangeList_nonneg ha hb h2
    simp only [List.getElem_map, rangeList_getElem]
    omega

theorem rangeList_toNat_asc {a b k : Int} (hk : 0 < k) (ha : 0 ≤ a) :
    ((rangeList a b k).map Int.toNat).Pairwise (· < ·) := by
  unfold rangeList
  rw [List.pairwise_map, List.pairwise_map]
  refine List.Pairwise.imp ?_ List.pairwise_lt_range
  intro i j hij
  have h1 : 0 ≤ (i : Int) * k := Int.mul_nonneg (by omega) (by omega)
  have h2 : (i : Int) * k < (j : Int) * k := Int.mul_lt_mul_of_pos_right (by omega) hk
  omega

theorem rangeList_toNat_desc {a b k : Int} (hk : k < 0) (hb : -1 ≤ b) :
    ((rangeList a b k).map Int.toNat).Pairwise (· > ·) := by
  unfold rangeList
  rw [List.pairwise_map, List.pairwise_map]
  refine List.Pairwise.imp_of_mem ?_ List.pairwise_lt_range
  intro i j hi hj hij
  simp only [List.mem_range] at hi hj
  have h0 := rangeLen_neg_bound hk hj
  have h2 : (i : Int) * (-k) < (j : Int) * (-k) := Int.mul_lt_mul_of_pos_right (by omega) (by omega)
  have h3 : (i : Int) * (-k) = -((i : Int) * k) := by rw [Int.mul_neg]
  have h4 : (j : Int) * (-k) = -((j : Int) * k) := by rw [Int.mul_neg]
  omega

theorem rangeList_toNat_nodup {a b k : Int} (ha : 0 < k → 0 ≤ a) (hb : k < 0 → -1 ≤ b) :
    ((rangeList a b k).map Int.toNat).Nodup := by
  by_cases hk : 0 < k
  · exact List.nodup_iff_pairwise_ne.mpr
      (List.Pairwise.imp (fun h => by omega) (rangeList_toNat_asc (b := b) hk (ha hk)))
  · by_cases hn : k < 0
    · exact List.nodup_iff_pairwise_ne.mpr
        (List.Pairwise.imp (fun h => by omega) (rangeList_toNat_desc (a := a) hn (hb hn)))
    · have : k = 0 := by omega
      subst this
      simp [rangeList, rangeLen]

/-- `slice.indices(N)` does not move endpoints that are positions already -/
theorem indices_exact (sa sb st : Option Int) (a b : Int) (N : Nat) (hk : st.getD 1 ≠ 0)
    (h1 : 0 < st.getD 1 → (sa = none ∧ a = 0 ∨ sa = some a ∧ 0 ≤ a ∧ a ≤ N) ∧
      (sb = none ∧ b = N ∨ sb = some b ∧ 0 ≤ b ∧ b ≤ N))
    (h2 : st.getD 1 < 0 → (sa = none ∧ a = (N : Int) - 1 ∨ sa = some a ∧ 0 ≤ a ∧ a ≤ (N : Int) - 1) ∧
      (sb = none ∧ b = -1 ∨ sb = some b ∧ 0 ≤ b ∧ b ≤ (N : Int) - 1)) :
    (PySlice.mk sa sb st).indices N = .ok (a, b, st.getD 1) := by
  unfold PySlice.indices
  simp only [if_neg hk]
  by_cases hneg : st.getD 1 < 0
  · obtain ⟨ha, hb⟩ := h2 hneg
    simp only [hneg, if_true]
    rcases ha with ⟨rfl, rfl⟩ | ⟨rfl, ha1, ha2⟩ <;> rcases hb with ⟨rfl, rfl⟩ | ⟨rfl, hb1, hb2⟩ <;>
      simp only [] <;> congr 2 <;> (try congr 1) <;> omega
  · obtain ⟨ha, hb⟩ := h1 (by omega)
    simp only [hneg, if_false]
    rcases ha with ⟨rfl, rfl⟩ | ⟨rfl, ha1, ha2⟩ <;> rcases hb with ⟨rfl, rfl⟩ | ⟨rfl, hb1, hb2⟩ <;>
      simp only [] <;> congr 2 <;> (try congr 1) <;> omega

namespace Sel
variable {α : Type} [DecidableEq α]

/-- the selectors covered at every depth: label / all / list and label slices with ANY non-zero step -/
def stepOK : Sel α → Bool
  | .slice _ _ st => decide (st.getD 1 ≠ 0)
  | .mask _ => false
  | _ => true

/-- the selectors covered at a given depth of a hierarchy with `N` labels: `stepOK`, and at the innermost
    depth (`inner`) also a Boolean mask that is long enough -/
def okAt (inner : Bool) (N : Nat) : Sel α → Bool
  | .slice _ _ st => decide (st.getD 1 ≠ 0)
  | .mask bs => inner && decide (N ≤ bs.length)
  | _ => true

/-- a label slice with a negative step -/
def desc : Sel α → Bool
  | .slice _ _ st => decide (st.getD 1 < 0)
  | _ => false

/-- `start` of the mapped slice of a node with labels `ls` for step `k` (`none`: the label is absent):
    the position of the start label; open: the first position (k > 0) or the last (k < 0) -/
def startT (ls : List α) (k : Int) : Option α → Option Int
  | none => some (if k < 0 then (ls.length : Int) - 1 else 0)
  | some x => (Level.pos? ls x).map Int.ofNat

/-- `stop` of the mapped slice: one past the position of the stop label IN THE DIRECTION OF THE STEP;
    open: the number of labels (k > 0) or `-1` (k < 0) -/
def stopT (ls : List α) (k : Int) : Option α → Option Int
  | none => some (if k < 0 then -1 else (ls.length : Int))
  | some y => (Level.pos? ls y).map (fun (p : Nat) => if k < 0 then (p : Int) - 1 else (p : Int) + 1)

/-- positions among a node's labels selected by the selector, in the order the targets are visited:
    for a slice `range(start, stop, step)` of the mapped slice (descending for a negative step) -/
def idxsT (ls : List α) : Sel α → List Nat
  | .slice s e st => match startT ls (st.getD 1) s, stopT ls (st.getD 1) e with
    | some a, some b => (rangeList a b (st.getD 1)).map Int.toNat
    | _, _ => []
  | sel => sel.idxs ls

/-- positions among the labels of a LEAF whose first label has global position `start`: a Boolean mask
    selects the labels whose global position holds `True` -/
def leafIdxs (ls : List α) (start : Nat) : Sel α → List Nat
  | .mask bs => (List.range ls.length).filter (fun i => bs.getD (start + i) false)
  | sel => sel.idxsT ls

/-- Node-aware matching: the label `a` of a node with labels `ls` (whose first leaf has global position
    `start`) is selected by the selector.  A slice selects by POSITION in the label order of the node:
    the position of `a` is an element of `range(start, stop, step)` of the mapped slice; a mask selects
    by global position (only used at a leaf, where the label at position `p` has global position
    `start + p`). -/
def matchesT (ls : List α) (start : Nat) (a : α) : Sel α → Bool
  | .slice s e st => match Level.pos? ls a, startT ls (st.getD 1) s, stopT ls (st.getD 1) e with
    | some p, some lo, some hi => inRange lo hi (st.getD 1) (p : Int)
    | _, _, _ => false
  | .mask bs => match Level.pos? ls a with
    | some p => bs.getD (start + p) false
    | none => false
  | sel => sel.matches a

end Sel

namespace Level
variable {α : Type} [DecidableEq α] [IntLabel α]

/-! ### specification side -/

mutual
/-- Node-aware matching of a tuple, component by component, each against the selector of its depth in
    the node the component lives in; `start` = global position of the first leaf of the level. -/
def matchT (key : List (Sel α)) : Level α → Nat → Nat → List α → Bool
  | .leaf ls _, dep, start, [a] => (key.getD dep .all).matchesT ls start a
  | .leaf _ _, _, _, _ => false
  | .node _ _ _, _, _, [] => false
  | .node ls cs _, dep, start, a :: rest =>
    (key.getD dep .all).matchesT ls start a &&
      match pos? ls a with
      | none => false
      | some i => matchTAt key cs i (dep + 1) start rest
def matchTAt (key : List (Sel α)) : List (Level α) → Nat → Nat → Nat → List α → Bool
  | [], _, _, _, _ => false
  | c :: _, 0, dep, start, rest => matchT key c dep start rest
  | c :: cs, i + 1, dep, start, rest => matchTAt key cs i dep (start + c.len) rest
end

mutual
/-- Specification: depth-first, every node visits its selected targets in selector order (index order
    for label / `:` / ascending slice, descending for a slice with a negative step, the order of the
    list for a list selector). -/
def specPosT (key : List (Sel α)) : Level α → Nat → Nat → List Nat
  | .leaf ls _, dep, start => ((key.getD dep .all).leafIdxs ls start).map (start + ·)
  | .node ls cs _, dep, start =>
    ((key.getD dep .all).idxsT ls).flatMap (fun i => specPosTIdx key cs i (dep + 1) start)
def specPosTIdx (key : List (Sel α)) : List (Level α) → Nat → Nat → Nat → List Nat
  | [], _, _, _ => []
  | c :: _, 0, dep, start => specPosT key c dep start
  | c :: cs, i + 1, dep, start => specPosTIdx key cs i dep (start + c.len)
end

mutual
/-- No VISITED node lacks a slice endpoint (as `clean`, with the targets selected by `idxsT`). -/
def cleanT (key : List (Sel α)) : Level α → Nat → Bool
  | .leaf ls _, dep => (key.getD dep .all).present ls
  | .node ls cs _, dep =>
    (key.getD dep .all).present ls && cleanTSel key cs ((key.getD dep .all).idxsT ls) 0 (dep + 1)
def cleanTSel (key : List (Sel α)) : List (Level α) → List Nat → Nat → Nat → Bool
  | [], _, _, _ => true
  | c :: cs, is, j, dep => (!is.contains j || cleanT key c dep) && cleanTSel key cs is (j + 1) dep
end

mutual
/-- every leaf index holds at least one label (true of every hierarchy built from labels; the empty
    hierarchy is the single empty leaf) -/
def leavesNonempty : Level α → Bool
  | .leaf ls _ => !ls.isEmpty
  | .node _ cs _ => leavesNonemptyL cs
def leavesNonemptyL : List (Level α) → Bool
  | [] => true
  | c :: cs => leavesNonempty c && leavesNonemptyL cs
end

/-! ### the selected positions of one node -/

theorem startT_cases {ls : List α} {k : Int} {s : Option α} {a : Int} (h : Sel.startT ls k s = some a) :
    (s = none ∧ a = if k < 0 then (ls.length : Int) - 1 else 0) ∨
    (∃ x p, s = some x ∧ pos? ls x = some p ∧ a = (p : Int) ∧ p < ls.length) := by
  cases s with
  | none => left; simp only [Sel.startT, Option.some.injEq] at h; exact ⟨rfl, h.symm⟩
  | some x =>
    right
    simp only [Sel.startT, Option.map_eq_some_iff] at h
    obtain ⟨p, hp, rfl⟩ := h
    exact ⟨x, p, rfl, hp, rfl, pos?_lt hp⟩

theorem stopT_cases {ls : List α} {k : Int} {e : Option α} {b : Int} (h : Sel.stopT ls k e = some b) :
    (e = none ∧ b = if k < 0 then -1 else (ls.length : Int)) ∨
    (∃ y q, e = some y ∧ pos? ls y = some q ∧ (b = if k < 0 then (q : Int) - 1 else (q : Int) + 1) ∧ q < ls.length) := by
  cases e with
  | none => left; simp only [Sel.stopT, Option.some.injEq] at h; exact ⟨rfl, h.symm⟩
  | some y =>
    right
    simp only [Sel.stopT, Option.map_eq_some_iff] at h
    obtain ⟨q, hq, rfl⟩ := h
    exact ⟨y, q, rfl, hq, rfl, pos?_lt hq⟩

theorem startT_bounds {ls : List α} {k : Int} {s : Option α} {a : Int} (h : Sel.startT ls k s = some a) :
    (0 < k → 0 ≤ a ∧ a ≤ ls.length) ∧ (k < 0 → -1 ≤ a ∧ a ≤ (ls.length : Int) - 1) := by
  rcases startT_cases h with ⟨_, ha⟩ | ⟨x, p, _, _, ha, hp⟩
  · constructor
    · intro hk; rw [if_neg (by omega)] at ha; omega
    · intro hk; rw [if_pos hk] at ha; omega
  · constructor <;> intro _ <;> omega

theorem stopT_bounds {ls : List α} {k : Int} {e : Option α} {b : Int} (h : Sel.stopT ls k e = some b) :
    (0 < k → 0 ≤ b ∧ b ≤ ls.length) ∧ (k < 0 → -1 ≤ b ∧ b ≤ (ls.length : Int) - 1) := by
  rcases stopT_cases h with ⟨_, hb⟩ | ⟨y, q, _, _, hb, hq⟩
  · constructor
    · intro hk; rw [if_neg (by omega)] at hb; omega
    · intro hk; rw [if_pos hk] at hb; omega
  · constructor
    · intro hk; rw [if_neg (by omega)] at hb; omega
    · intro hk; rw [if_pos hk] at hb; omega

/-- the elements of the mapped range of a node are positions of the node -/
theorem sliceRange_elem {ls : List α} {k : Int} {s e : Option α} {a b : Int}
    (ha : Sel.startT ls k s = some a) (hb : Sel.stopT ls k e = some b) {j : Nat} (hj : j < rangeLen a b k) :
    0 ≤ a + (j : Int) * k ∧ a + (j : Int) * k < ls.length := by
  obtain ⟨a1, a2⟩ := startT_bounds ha
  obtain ⟨b1, b2⟩ := stopT_bounds hb
  have h0 := rangeList_nonneg (fun h => (a1 h).1) (fun h => (b2 h).1) hj
  refine ⟨h0, ?_⟩
  by_cases hk : 0 < k
  · have := rangeLen_pos_bound hk hj
    have := (b1 hk).2; omega
  · by_cases hn : k < 0
    · have h2 : 0 ≤ (j : Int) * (-k) := Int.mul_nonneg (by omega) (by omega)
      have h3 : (j : Int) * (-k) = -((j : Int) * k) := by rw [Int.mul_neg]
      have := (a2 hn).2; omega
    · have : k = 0 := by omega
      subst this
      simp [rangeLen] at hj

theorem idxsT_lt {ls : List α} {sel : Sel α} : ∀ p ∈ sel.idxsT ls, p < ls.length := by
  intro p hp
  cases sel with
  | all => exact idxs_lt (sel := .all) p hp
  | label a => exact idxs_lt (sel := .label a) p hp
  | list as => exact idxs_lt (sel := .list as) p hp
  | mask bs => exact idxs_lt (sel := .mask bs) p hp
  | slice s e c =>
    simp only [Sel.idxsT] at hp
    split at hp
    · rename_i a b h1 h2
      simp only [List.mem_map, mem_rangeList] at hp
      obtain ⟨x, ⟨j, hj, rfl⟩, rfl⟩ := hp
      have := sliceRange_elem h1 h2 hj
      omega
    · simp at hp

theorem leafIdxs_lt {ls : List α} {start : Nat} {sel : Sel α} : ∀ p ∈ sel.leafIdxs ls start, p < ls.length := by
  intro p hp
  cases sel with
  | all => exact idxsT_lt (sel := .all) p hp
  | label a => exact idxsT_lt (sel := .label a) p hp
  | list as => exact idxsT_lt (sel := .list as) p hp
  | slice s e c => exact idxsT_lt (sel := .slice s e c) p hp
  | mask bs =>
    simp only [Sel.leafIdxs, List.mem_filter, List.mem_range] at hp
    exact hp.1

theorem idxsT_nodup {ls : List α} (hls : ls.Nodup) {sel : Sel α} (hsel : ∀ as, sel = .list as → as.Nodup) :
    (sel.idxsT ls).Nodup := by
  cases sel with
  | all => exact idxs_nodup hls hsel
  | label a => exact idxs_nodup hls hsel
  | list as => exact idxs_nodup hls hsel
  | mask bs => exact idxs_nodup hls hsel
  | slice s e c =>
    simp only [Sel.idxsT]
    split
    · rename_i a b h1 h2
      exact rangeList_toNat_nodup (fun h => ((startT_bounds h1).1 h).1) (fun h => ((stopT_bounds h2).2 h).1)
    · simp

theorem mem_idxsT {ls : List α} (hls : ls.Nodup) {sel : Sel α} (hs : sel.stepOK = true) (start i : Nat) :
    i ∈ sel.idxsT ls ↔ ∃ a, ls[i]? = some a ∧ sel.matchesT ls start a = true := by
  cases sel with
  | all => exact mem_idxs (sel := .all) hls rfl i
  | label b => exact mem_idxs (sel := .label b) hls rfl i
  | list as => exact mem_idxs (sel := .list as) hls rfl i
  | mask bs => simp [Sel.stepOK] at hs
  | slice s e c =>
    simp only [Sel.idxsT, Sel.matchesT]
    constructor
    · intro hi
      split at hi
      · rename_i a b h1 h2
        simp only [List.mem_map] at hi
        obtain ⟨x, hx, rfl⟩ := hi
        obtain ⟨j, hj, hxe⟩ := mem_rangeList.mp hx
        have hb := sliceRange_elem h1 h2 hj
        rw [← hxe] at hb
        have hlt : x.toNat < ls.length := by omega
        refine ⟨ls[x.toNat], by simp [hlt], ?_⟩
        have hp : pos? ls ls[x.toNat] = some x.toNat := (pos?_eq_some_iff hls).mpr (by simp [hlt])
        simp only [hp, h1, h2]
        have : ((x.toNat : Nat) : Int) = x := by omega
        rw [this]
        exact mem_rangeList_iff.mp hx
      · simp at hi
    · rintro ⟨a', ha, hm⟩
      have hp : pos? ls a' = some i := (pos?_eq_some_iff hls).mpr ha
      simp only [hp] at hm
      split at hm
      · rename_i p lo hi' e0 e1 e2
        simp only [Option.some.injEq] at e0
        subst e0
        simp only [e1, e2, List.mem_map]
        exact ⟨(i : Int), mem_rangeList_iff.mpr hm, by simp⟩
      · cases hm

theorem mem_leafIdxs {ls : List α} (hls : ls.Nodup) {sel : Sel α}
    (hs : sel.stepOK = true ∨ ∃ bs, sel = .mask bs) (start i : Nat) :
    i ∈ sel.leafIdxs ls start ↔ ∃ a, ls[i]? = some a ∧ sel.matchesT ls start a = true := by
  rcases hs with hs | ⟨bs, rfl⟩
  · have : sel.leafIdxs ls start = sel.idxsT ls := by
      cases sel with
      | mask bs => simp [Sel.stepOK] at hs
      | _ => rfl
    rw [this]; exact mem_idxsT hls hs start i
  · simp only [Sel.leafIdxs, List.mem_filter, List.mem_range, Sel.matchesT]
    constructor
    · rintro ⟨hlt, hb⟩
      refine ⟨ls[i], by simp [hlt], ?_⟩
      have hp : pos? ls ls[i] = some i := (pos?_eq_some_iff hls).mpr (by simp [hlt])
      simp only [hp, hb]
    · rintro ⟨a, ha, hm⟩
      have hp : pos? ls a = some i := (pos?_eq_some_iff hls).mpr ha
      simp only [hp] at hm
      exact ⟨(List.getElem?_eq_some_iff.mp ha).1, hm⟩

/-! ### one step of the loop on a slice with any non-zero step / on a mask -/

theorem mapSliceArgs_step (ls : List α) (off : Nat) (s e : Option α) (st : Option Int) :
    Index.mapSliceArgs (ls.zipIdx 0) off s e st =
      match Sel.startT ls (st.getD 1) s, Sel.stopT ls (st.getD 1) e with
      | some a, some b => .ok ⟨s.map (fun _ => a + (off : Int)),
          e.bind (fun _ => if st.getD 1 < 0 ∧ b + (off : Int) < 0 then none else some (b + (off : Int))), st⟩
      | _, _ => .error .lookup := by
  cases s with
  | none =>
    cases e with
    | none => simp [Index.mapSliceArgs, Index.mapSliceArg, Index.mapSliceStop, Sel.startT, Sel.stopT]
    | some y =>
      simp only [Index.mapSliceArgs, Index.mapSliceArg, Index.mapSliceStop, Sel.startT, Sel.stopT]
      cases hy : AMap.get? (ls.zipIdx 0) y with
      | none => have : pos? ls y = none := hy; simp [this]
      | some q =>
        have : pos? ls y = some q := hy
        simp only [this, Option.map_some, Option.map_none, Option.bind_some]
        by_cases hk : st.getD 1 < 0
        · simp only [hk, if_true, true_and]
          have e1 : (q : Int) + (off : Int) - 1 = (q : Int) - 1 + (off : Int) := by omega
          rw [e1]
          by_cases hlt : (q : Int) - 1 + (off : Int) < 0
          · simp only [hlt, if_true]
          · simp only [hlt, if_false]
        · simp only [hk, if_false, false_and]
          have e1 : (q : Int) + (off : Int) + 1 = (q : Int) + 1 + (off : Int) := by omega
          rw [e1]
  | some x =>
    simp only [Index.mapSliceArgs, Index.mapSliceArg, Sel.startT]
    cases hx : AMap.get? (ls.zipIdx 0) x with
    | none => have : pos? ls x = none := hx; simp [this]
    | some p =>
      have hx' : pos? ls x = some p := hx
      simp only [hx', Option.map_some, Bool.false_eq_true, if_false, Int.add_zero, Int.ofNat_eq_natCast]
      cases e with
      | none => simp [Index.mapSliceStop, Sel.stopT]
      | some y =>
        simp only [Index.mapSliceStop, Sel.stopT]
        cases hy : AMap.get? (ls.zipIdx 0) y with
        | none => have : pos? ls y = none := hy; simp [this]
        | some q =>
          have : pos? ls y = some q := hy
          simp only [this, Option.map_some, Option.bind_some]
          by_cases hk : st.getD 1 < 0
          · simp only [hk, if_true, true_and]
            have e1 : (q : Int) + (off : Int) - 1 = (q : Int) - 1 + (off : Int) := by omega
            rw [e1]
            by_cases hlt : (q : Int) - 1 + (off : Int) < 0
            · simp only [hlt, if_true]
            · simp only [hlt, if_false]
          · simp only [hk, if_false, false_and]
            have e1 : (q : Int) + (off : Int) + 1 = (q : Int) + 1 + (off : Int) := by omega
            rw [e1]

theorem present_slice_iffT {ls : List α} {s e : Option α} {st : Option Int} (k : Int) :
    (Sel.slice s e st).present ls = true ↔ ∃ a b, Sel.startT ls k s = some a ∧ Sel.stopT ls k e = some b := by
  rw [present_slice_iff]
  constructor
  · rintro ⟨lo, hi, h1, h2⟩
    have a1 : ∃ a, Sel.startT ls k s = some a := by
      cases s with
      | none => exact ⟨_, rfl⟩
      | some x => have : pos? ls x = some lo := h1; exact ⟨_, by simp only [Sel.startT, this]; rfl⟩
    have b1 : ∃ b, Sel.stopT ls k e = some b := by
      cases e with
      | none => exact ⟨_, rfl⟩
      | some y =>
        simp only [Sel.hi?, Option.map_eq_some_iff] at h2
        obtain ⟨q, hq, _⟩ := h2
        exact ⟨_, by simp only [Sel.stopT, hq]; rfl⟩
    obtain ⟨a, ha⟩ := a1
    obtain ⟨b, hb⟩ := b1
    exact ⟨a, b, ha, hb⟩
  · rintro ⟨a, b, h1, h2⟩
    have a1 : ∃ lo, Sel.lo? ls s = some lo := by
      rcases startT_cases h1 with ⟨rfl, _⟩ | ⟨x, p, rfl, hp, _, _⟩
      · exact ⟨_, rfl⟩
      · exact ⟨p, hp⟩
    have b1 : ∃ hi, Sel.hi? ls e = some hi := by
      rcases stopT_cases h2 with ⟨rfl, _⟩ | ⟨y, q, rfl, hq, _, _⟩
      · exact ⟨_, rfl⟩
      · exact ⟨q + 1, by simp [Sel.hi?, hq]⟩
    obtain ⟨lo, hlo⟩ := a1
    obtain ⟨hi, hhi⟩ := b1
    exact ⟨lo, hi, hlo, hhi⟩

/-- the mapped slice of a NODE (no offset, not bounded) addresses `range(start, stop, step)` -/
theorem node_slice_positions {ls : List α} {s e : Option α} {st : Option Int} (hst : st.getD 1 ≠ 0) {a b : Int}
    (h1 : Sel.startT ls (st.getD 1) s = some a) (h2 : Sel.stopT ls (st.getD 1) e = some b) :
    (PySlice.mk (s.map (fun _ => a + ((0 : Nat) : Int)))
      (e.bind (fun _ => if st.getD 1 < 0 ∧ b + ((0 : Nat) : Int) < 0 then none else some (b + ((0 : Nat) : Int)))) st).positions
        ls.length = .ok ((rangeList a b (st.getD 1)).map Int.toNat) := by
  have hi : (PySlice.mk (s.map (fun _ => a + ((0 : Nat) : Int)))
      (e.bind (fun _ => if st.getD 1 < 0 ∧ b + ((0 : Nat) : Int) < 0 then none else some (b + ((0 : Nat) : Int)))) st).indices
        ls.length = .ok (a, b, st.getD 1) := by
    obtain ⟨a1, a2⟩ := startT_bounds h1
    obtain ⟨b1, b2⟩ := stopT_bounds h2
    simp only [Int.natCast_zero, Int.add_zero]
    apply indices_exact _ _ _ _ _ _ hst
    · intro hk
      have hn : ¬ (st.getD 1 < 0) := by omega
      constructor
      · rcases startT_cases h1 with ⟨rfl, ha⟩ | ⟨x, p, rfl, _, ha, _⟩
        · left; rw [if_neg hn] at ha; exact ⟨rfl, ha⟩
        · right; exact ⟨rfl, (a1 hk).1, (a1 hk).2⟩
      · rcases stopT_cases h2 with ⟨rfl, hb⟩ | ⟨y, q, rfl, _, hb, _⟩
        · left; rw [if_neg hn] at hb; exact ⟨rfl, hb⟩
        · right; exact ⟨by simp only [hn, false_and, if_false, Option.bind_some], (b1 hk).1, (b1 hk).2⟩
    · intro hk
      constructor
      · rcases startT_cases h1 with ⟨rfl, ha⟩ | ⟨x, p, rfl, _, ha, _⟩
        · left; rw [if_pos hk] at ha; exact ⟨rfl, ha⟩
        · right; exact ⟨rfl, by omega, (a2 hk).2⟩
      · rcases stopT_cases h2 with ⟨rfl, hb⟩ | ⟨y, q, rfl, _, hb, _⟩
        · left; rw [if_pos hk] at hb; exact ⟨rfl, hb⟩
        · simp only [hk, true_and, Option.bind_some]
          rw [if_pos hk] at hb
          by_cases hb0 : b < 0
          · left; rw [if_pos hb0]; exact ⟨rfl, by omega⟩
          · right; rw [if_neg hb0]; exact ⟨rfl, by omega, (b2 hk).2⟩
  simp only [PySlice.positions, hi]

theorem hlocVisit_node_step (key : List (Sel α)) (ls : List α) (cs : List (Level α)) (o dep off : Nat)
    (s e : Option α) (st : Option Int) (hk : key.getD dep .all = .slice s e st)
    (hst : st.getD 1 ≠ 0) (hl : ls.length = cs.length) :
    hlocVisit key (.node ls cs o) (dep, off) =
      if (Sel.slice s e st).present ls = true then
        ([], (((Sel.slice s e st).idxsT ls).filterMap (cs[·]?)).map (·, (dep + 1, off + o)))
      else ([.error .lookup], []) := by
  unfold hlocVisit
  simp only [offset, hk, Sel.toLKey, nodeIndex, Index.locToIlocP, Index.locMap, Option.isSome_none,
    Bool.false_eq_true, false_and, if_false, Option.getD_none, mapSliceArgs_step ls 0 s e st]
  by_cases hp : (Sel.slice s e st).present ls = true
  · rw [if_pos hp]
    obtain ⟨a, b, h1, h2⟩ := (present_slice_iffT (st.getD 1)).mp hp
    simp only [h1, h2, IKey.positions, Sel.idxsT]
    rw [← hl, node_slice_positions hst h1 h2]
  · rw [if_neg hp]
    have hn : ¬ ∃ a b, Sel.startT ls (st.getD 1) s = some a ∧ Sel.stopT ls (st.getD 1) e = some b :=
      fun h => hp ((present_slice_iffT (st.getD 1)).mpr h)
    cases h1 : Sel.startT ls (st.getD 1) s with
    | none => simp
    | some a =>
      cases h2 : Sel.stopT ls (st.getD 1) e with
      | none => simp
      | some b => exact absurd ⟨a, b, h1, h2⟩ hn

/-- the mapped slice of a LEAF (offset applied, open ends bounded by the leaf) addresses the mapped
    range shifted by the offset.  For a negative step the leaf has to hold a label: the bounded start
    of an open descending slice on an EMPTY leaf at offset 0 is `-1`, which NumPy reads from the end. -/
theorem leaf_slice_positions {ls : List α} {s e : Option α} {st : Option Int} (hst : st.getD 1 ≠ 0) {a b : Int}
    (h1 : Sel.startT ls (st.getD 1) s = some a) (h2 : Sel.stopT ls (st.getD 1) e = some b)
    (off N : Nat) (hN : off + ls.length ≤ N) (hne : st.getD 1 < 0 → ls ≠ []) :
    (Index.boundSlice ⟨s.map (fun _ => a + (off : Int)),
      e.bind (fun _ => if st.getD 1 < 0 ∧ b + (off : Int) < 0 then none else some (b + (off : Int))), st⟩
        off ls.length).positions N = .ok (((rangeList a b (st.getD 1)).map Int.toNat).map (off + ·)) := by
  obtain ⟨a1, a2⟩ := startT_bounds h1
  obtain ⟨b1, b2⟩ := stopT_bounds h2
  have hc : (st.isNone = true ∨ st.getD 1 > 0) ↔ 0 < st.getD 1 := by
    cases st with
    | none => simp
    | some v => simp
  have hi : (Index.boundSlice ⟨s.map (fun _ => a + (off : Int)),
      e.bind (fun _ => if st.getD 1 < 0 ∧ b + (off : Int) < 0 then none else some (b + (off : Int))), st⟩
        off ls.length).indices N = .ok (a + (off : Int), b + (off : Int), st.getD 1) := by
    unfold Index.boundSlice
    simp only [hc]
    by_cases hk : 0 < st.getD 1
    · have hn : ¬ (st.getD 1 < 0) := by omega
      rw [if_pos hk]
      apply indices_exact _ _ _ _ _ _ hst
      · intro _
        constructor
        · right
          refine ⟨?_, by have := (a1 hk).1; omega, by have := (a1 hk).2; omega⟩
          rcases startT_cases h1 with ⟨rfl, ha⟩ | ⟨x, p, rfl, _, ha, _⟩
          · rw [if_neg hn] at ha; simp only [Option.map_none, Option.getD_none, ha]; congr 1; omega
          · rfl
        · right
          refine ⟨?_, by have := (b1 hk).1; omega, by have := (b1 hk).2; omega⟩
          rcases stopT_cases h2 with ⟨rfl, hb⟩ | ⟨y, q, rfl, _, hb, _⟩
          · rw [if_neg hn] at hb; simp only [Option.bind_none, Option.getD_none, hb]; congr 1; omega
          · simp only [hn, false_and, if_false, Option.bind_some, Option.getD_some]
      · intro h; omega
    · have hn : st.getD 1 < 0 := by omega
      have hne' : 0 < ls.length := List.length_pos_iff.mpr (hne hn)
      rw [if_neg hk]
      apply indices_exact _ _ _ _ _ _ hst
      · intro h; omega
      · intro _
        constructor
        · right
          refine ⟨?_, ?_, by have := (a2 hn).2; omega⟩
          · rcases startT_cases h1 with ⟨rfl, ha⟩ | ⟨x, p, rfl, _, ha, _⟩
            · rw [if_pos hn] at ha; simp only [Option.map_none, Option.getD_none, ha]; congr 1; omega
            · rfl
          · rcases startT_cases h1 with ⟨rfl, ha⟩ | ⟨x, p, rfl, _, ha, _⟩
            · rw [if_pos hn] at ha; omega
            · omega
        · have hbm := (b2 hn).1
          rcases stopT_cases h2 with ⟨rfl, hb⟩ | ⟨y, q, rfl, _, hb, _⟩
          · rw [if_pos hn] at hb
            simp only [Option.bind_none]
            by_cases ho : off > 0
            · right; rw [if_pos ho]; exact ⟨by congr 1; omega, by omega, by omega⟩
            · left; rw [if_neg ho]; exact ⟨rfl, by omega⟩
          · simp only [hn, true_and, Option.bind_some]
            by_cases hb0 : b + (off : Int) < 0
            · left
              rw [if_pos hb0]
              have ho : ¬ (off > 0) := by omega
              exact ⟨by simp only [ho, if_false], by omega⟩
            · right
              rw [if_neg hb0]
              exact ⟨rfl, by omega, by have := (b2 hn).2; omega⟩
  simp only [PySlice.positions, hi]
  rw [rangeList_shift_toNat a b (st.getD 1) off (fun h => (a1 h).1) (fun h => (b2 h).1)]

theorem hlocVisit_leaf_step (key : List (Sel α)) (ls : List α) (o dep off N : Nat)
    (s e : Option α) (st : Option Int) (hk : key.getD dep .all = .slice s e st)
    (hst : st.getD 1 ≠ 0) (hN : off + o + ls.length ≤ N) (hne : st.getD 1 < 0 → ls ≠ []) :
    ((Sel.slice s e st).present ls = true → ∃ sl,
      hlocVisit key (.leaf ls o) (dep, off) = ([.ok (.slice sl)], []) ∧
      sl.positions N = .ok (((Sel.slice s e st).idxsT ls).map (off + o + ·))) ∧
    ((Sel.slice s e st).present ls ≠ true → hlocVisit key (.leaf ls o) (dep, off) = ([.error .lookup], [])) := by
  unfold hlocVisit
  simp only [offset, hk, Sel.toLKey, nodeIndex, Index.locToIlocP, Index.locMap, Option.isSome_some,
    true_and, Option.getD_some, mapSliceArgs_step ls (off + o) s e st, Index.len]
  constructor
  · intro hp
    obtain ⟨a, b, h1, h2⟩ := (present_slice_iffT (st.getD 1)).mp hp
    have hpos := leaf_slice_positions hst h1 h2 (off + o) N (by omega) hne
    simp only [h1, h2, Sel.idxsT]
    split
    · rename_i hc
      obtain ⟨c1, c2, c3⟩ := hc
      cases s with
      | some _ => simp at c1
      | none =>
        cases e with
        | some _ => simp at c2
        | none =>
          cases st with
          | some _ => simp at c3
          | none =>
            refine ⟨_, rfl, ?_⟩
            rw [← hpos]
            simp only [Sel.startT, Sel.stopT, Option.getD_none, show ¬ ((1 : Int) < 0) by decide, if_false,
              Option.some.injEq] at h1 h2
            subst h1; subst h2
            simp only [Index.boundSlice, Option.isNone_none, true_or, if_true, Option.map_none, Option.bind_none,
              Option.getD_none]
            congr 3 <;> omega
    · exact ⟨_, rfl, hpos⟩
  · intro hp
    have hn : ¬ ∃ a b, Sel.startT ls (st.getD 1) s = some a ∧ Sel.stopT ls (st.getD 1) e = some b :=
      fun h => hp ((present_slice_iffT (st.getD 1)).mpr h)
    have hcn : ¬ (s.isNone = true ∧ e.isNone = true ∧ st.isNone = true) := by
      rintro ⟨c1, c2, c3⟩
      cases s with
      | some _ => simp at c1
      | none =>
        cases e with
        | some _ => simp at c2
        | none => exact hn ⟨_, _, rfl, rfl⟩
    rw [if_neg hcn]
    cases h1 : Sel.startT ls (st.getD 1) s with
    | none => simp
    | some a =>
      cases h2 : Sel.stopT ls (st.getD 1) e with
      | none => simp
      | some b => exact absurd ⟨a, b, h1, h2⟩ hn

theorem hlocVisit_leaf_mask (key : List (Sel α)) (ls : List α) (o dep off : Nat) (bs : List Bool)
    (hk : key.getD dep .all = .mask bs) (hb : off + o + ls.length ≤ bs.length) :
    hlocVisit key (.leaf ls o) (dep, off) =
      ([.ok (.arr (((Sel.mask bs).leafIdxs ls (off + o)).map (off + o + ·)))], []) := by
  unfold hlocVisit
  have hlen : ((List.drop (off + o) bs).take ls.length).length = ls.length := by
    simp only [List.length_take, List.length_drop]; omega
  simp only [offset, hk, maskAt, len, labels, hlen, Nat.lt_irrefl, if_false, gt_iff_lt, Sel.toLKey, nodeIndex,
    Index.locToIlocP, Index.locMap, Index.len, if_true, Option.getD_some]
  congr 4
  simp only [maskPositions, hlen, Sel.leafIdxs]
  have hf : (List.range ls.length).filter (fun i => ((List.drop (off + o) bs).take ls.length).getD i false)
      = (List.range ls.length).filter (fun i => bs.getD (off + o + i) false) := by
    apply List.filter_congr
    intro i hi
    simp only [List.mem_range] at hi
    simp only [List.getD_eq_getElem?_getD, List.getElem?_take, hi, if_true, List.getElem?_drop]
  rw [hf]
  apply List.map_congr_left
  intro i _
  omega

theorem stepOK_cases {sel : Sel α} (hs : sel.stepOK = true) :
    (sel.simple = true ∧ (∀ ls, sel.present ls = true) ∧ (∀ ls, sel.idxsT ls = sel.idxs ls) ∧ sel.desc = false) ∨
    ∃ s e st, sel = .slice s e st ∧ st.getD 1 ≠ 0 := by
  cases sel with
  | all => left; exact ⟨rfl, fun _ => rfl, fun _ => rfl, rfl⟩
  | label a => left; exact ⟨rfl, fun _ => rfl, fun _ => rfl, rfl⟩
  | list as => left; exact ⟨rfl, fun _ => rfl, fun _ => rfl, rfl⟩
  | mask bs => simp [Sel.stepOK] at hs
  | slice s e st => right; exact ⟨s, e, st, rfl, by simpa [Sel.stepOK] using hs⟩

theorem okAt_false {sel : Sel α} {N : Nat} (h : sel.okAt false N = true) : sel.stepOK = true := by
  cases sel <;> simp_all [Sel.okAt, Sel.stepOK]

theorem okAt_true {sel : Sel α} {N : Nat} (h : sel.okAt true N = true) :
    sel.stepOK = true ∨ ∃ bs, sel = .mask bs ∧ N ≤ bs.length := by
  cases sel with
  | mask bs => right; exact ⟨bs, rfl, by simpa [Sel.okAt] using h⟩
  | all => left; rfl
  | label a => left; rfl
  | list as => left; rfl
  | slice s e st => left; simpa [Sel.okAt, Sel.stepOK] using h

theorem okAt_of_stepOK {sel : Sel α} (h : sel.stepOK = true) (inner : Bool) (N : Nat) : sel.okAt inner N = true := by
  cases sel <;> simp_all [Sel.okAt, Sel.stepOK]

theorem leafIdxs_of_stepOK {sel : Sel α} (h : sel.stepOK = true) (ls : List α) (start : Nat) :
    sel.leafIdxs ls start = sel.idxsT ls := by
  cases sel with
  | mask bs => simp [Sel.stepOK] at h
  | _ => rfl

/-- a node: either it lacks a slice endpoint and yields LocInvalid (nothing is enqueued), or it yields
    nothing and enqueues the selected targets, in selector order, with the running offset -/
theorem hlocVisit_nodeT (key : List (Sel α)) (ls : List α) (cs : List (Level α)) (o dep off : Nat)
    (hs : (key.getD dep .all).stepOK = true) (hl : ls.length = cs.length) :
    hlocVisit key (.node ls cs o) (dep, off) =
      if (key.getD dep .all).present ls = true then
        ([], (((key.getD dep .all).idxsT ls).filterMap (cs[·]?)).map (·, (dep + 1, off + o)))
      else ([.error .lookup], []) := by
  rcases stepOK_cases hs with ⟨h1, h2, h3, _⟩ | ⟨s, e, st, hk, hst⟩
  · rw [h2, h3, if_pos rfl]
    exact hlocVisit_node key ls cs o dep off h1 hl
  · rw [hlocVisit_node_step key ls cs o dep off s e st hk hst hl, hk]

/-- a leaf: either it lacks a slice endpoint and yields LocInvalid, or it yields well-formed parts
    addressing the selected labels of the leaf -/
theorem hlocVisit_leafT (key : List (Sel α)) (ls : List α) (o dep off N : Nat)
    (hs : (key.getD dep .all).okAt true N = true) (hN : off + o + ls.length ≤ N)
    (hne : (key.getD dep .all).desc = true → ls ≠ []) :
    ((key.getD dep .all).present ls = true → ∃ parts,
      hlocVisit key (.leaf ls o) (dep, off) = (parts.map .ok, []) ∧
      flattenParts N parts =
        .ok ((((key.getD dep .all).leafIdxs ls (off + o)).map (off + o + ·)).map Int.ofNat)) ∧
    ((key.getD dep .all).present ls ≠ true → hlocVisit key (.leaf ls o) (dep, off) = ([.error .lookup], [])) := by
  rcases okAt_true hs with hs' | ⟨bs, hk, hb⟩
  · rw [leafIdxs_of_stepOK hs']
    rcases stepOK_cases hs' with ⟨h1, h2, h3, _⟩ | ⟨s, e, st, hk, hst⟩
    · rw [h2, h3]
      refine ⟨fun _ => ⟨_, hlocVisit_leaf key ls o dep off h1, leafItems_flatten ls (off + o) N _ hN⟩,
        fun h => absurd rfl h⟩
    · rw [hk] at hne ⊢
      obtain ⟨l1, l2⟩ := hlocVisit_leaf_step key ls o dep off N s e st hk hst hN
        (fun h => hne (by simpa [Sel.desc] using h))
      refine ⟨fun hp => ?_, l2⟩
      obtain ⟨sl, e1, e2⟩ := l1 hp
      refine ⟨[.slice sl], e1, ?_⟩
      simp only [flattenParts, e2, Except.map, List.append_nil]
  · rw [hk]
    refine ⟨fun _ => ⟨[_], hlocVisit_leaf_mask key ls o dep off bs hk (by omega), ?_⟩, fun h => absurd rfl h⟩
    simp only [flattenParts, List.append_nil]

/-! ### the specification functions, target by target -/

theorem idxsT_of_not_present {ls : List α} {sel : Sel α} (h : sel.present ls ≠ true) : sel.idxsT ls = [] := by
  cases sel with
  | all => exact absurd rfl h
  | label a => exact absurd rfl h
  | list as => exact absurd rfl h
  | mask bs => exact absurd rfl h
  | slice s e st =>
    simp only [Sel.idxsT]
    split
    · rename_i a b e1 e2; exact absurd ((present_slice_iffT (st.getD 1)).mpr ⟨a, b, e1, e2⟩) h
    · rfl

theorem specPosTIdx_eq (key : List (Sel α)) {d : Nat} : ∀ (cs : List (Level α)) (acc i dep start : Nat),
    WFList d acc cs →
    specPosTIdx key cs i dep start = match cs[i]? with
      | some c => specPosT key c dep (start + c.offset - acc)
      | none => []
  | [], acc, i, dep, start, _ => by simp [specPosTIdx]
  | c0 :: cs, acc, 0, dep, start, hw => by
    simp only [WFList] at hw
    simp only [specPosTIdx, List.getElem?_cons_zero]
    rw [hw.1]; congr 1; omega
  | c0 :: cs, acc, i + 1, dep, start, hw => by
    simp only [WFList] at hw
    simp only [specPosTIdx, List.getElem?_cons_succ]
    rw [specPosTIdx_eq key cs (acc + c0.len) i dep (start + c0.len) hw.2.2]
    cases hc : cs[i]? with
    | none => rfl
    | some c =>
      simp only
      have := (WFList_getElem cs (acc + c0.len) i c hw.2.2 hc).2.1
      congr 1; omega

theorem matchTAt_eq (key : List (Sel α)) {d : Nat} : ∀ (cs : List (Level α)) (acc i dep start : Nat) (rest : List α),
    WFList d acc cs →
    matchTAt key cs i dep start rest = match cs[i]? with
      | some c => matchT key c dep (start + c.offset - acc) rest
      | none => false
  | [], acc, i, dep, start, rest, _ => by simp [matchTAt]
  | c0 :: cs, acc, 0, dep, start, rest, hw => by
    simp only [WFList] at hw
    simp only [matchTAt, List.getElem?_cons_zero]
    rw [hw.1]; congr 1; omega
  | c0 :: cs, acc, i + 1, dep, start, rest, hw => by
    simp only [WFList] at hw
    simp only [matchTAt, List.getElem?_cons_succ]
    rw [matchTAt_eq key cs (acc + c0.len) i dep (start + c0.len) rest hw.2.2]
    cases hc : cs[i]? with
    | none => rfl
    | some c =>
      simp only
      have := (WFList_getElem cs (acc + c0.len) i c hw.2.2 hc).2.1
      congr 1; omega

theorem cleanTSel_iff (key : List (Sel α)) (is : List Nat) (dep : Nat) : ∀ (cs : List (Level α)) (j : Nat),
    cleanTSel key cs is j dep = true ↔ ∀ i c, cs[i]? = some c → j + i ∈ is → cleanT key c dep = true
  | [], j => by simp [cleanTSel]
  | c0 :: cs, j => by
    simp only [cleanTSel, Bool.and_eq_true, Bool.or_eq_true, Bool.not_eq_true', List.contains_eq_mem,
      decide_eq_false_iff_not, cleanTSel_iff key is dep cs (j + 1)]
    constructor
    · rintro ⟨h0, h1⟩ i c hc hm
      cases i with
      | zero =>
        simp only [List.getElem?_cons_zero, Option.some.injEq] at hc
        subst hc
        rcases h0 with h0 | h0
        · exact absurd hm h0
        · exact h0
      | succ i =>
        simp only [List.getElem?_cons_succ] at hc
        exact h1 i c hc (by rwa [show j + 1 + i = j + (i + 1) by omega])
    · intro h
      refine ⟨?_, fun i c hc hm => h (i + 1) c (by simpa using hc) (by rwa [show j + (i + 1) = j + 1 + i by omega])⟩
      by_cases hm : j ∈ is
      · right; exact h 0 c0 (by simp) hm
      · left; exact hm

theorem leavesNonemptyL_getElem : ∀ (cs : List (Level α)) (i : Nat) (c : Level α),
    leavesNonemptyL cs = true → cs[i]? = some c → leavesNonempty c = true
  | [], i, c, _, h => by simp at h
  | c0 :: cs, 0, c, hn, h => by
    simp only [leavesNonemptyL, Bool.and_eq_true] at hn
    simp only [List.getElem?_cons_zero, Option.some.injEq] at h
    subst h; exact hn.1
  | c0 :: cs, i + 1, c, hn, h => by
    simp only [leavesNonemptyL, Bool.and_eq_true] at hn
    simp only [List.getElem?_cons_succ] at h
    exact leavesNonemptyL_getElem cs i c hn.2 h

/-! ### the HLoc loop, layer by layer -/

def specET (key : List (Sel α)) (dep : Nat) (x : Level α × (Nat × Nat)) : List Nat := specPosT key x.1 dep (est x)

def cleanET (key : List (Sel α)) (dep : Nat) (x : Level α × (Nat × Nat)) : Bool := cleanT key x.1 dep

/-- descending slices need leaves that hold a label -/
def NE (key : List (Sel α)) (t : Level α) : Prop :=
  (∀ dep, (key.getD dep .all).desc = false) ∨ t.leavesNonempty = true

/-- a queue entry `k` levels above the leaves of a hierarchy of depth `d` -/
def EntryT (key : List (Sel α)) (d k dep N : Nat) (x : Level α × (Nat × Nat)) : Prop :=
  EntryOK k dep N x ∧ dep + k = d ∧ NE key x.1

theorem hloc_entryT (key : List (Sel α)) (d N : Nat)
    (hs : ∀ dep, (key.getD dep .all).okAt (dep + 1 == d) N = true)
    (hnd : ∀ dep as, key.getD dep .all = .list as → as.Nodup) (k dep : Nat)
    (t : Level α) (off : Nat) (hx : EntryT key d (k + 1) dep N (t, (dep, off))) :
    (∀ y ∈ (hlocVisit key t (dep, off)).2, EntryT key d k (dep + 1) N y) ∧
    1 + nodesSum (hlocVisit key t (dep, off)).2 ≤ t.nodes ∧
    (cleanET key dep (t, (dep, off)) = true ↔
      localOK key dep (t, (dep, off)) = true ∧ ∀ y ∈ (hlocVisit key t (dep, off)).2, cleanET key (dep + 1) y = true) ∧
    (localOK key dep (t, (dep, off)) ≠ true → (hlocVisit key t (dep, off)).1 = [.error .lookup]) ∧
    (k = 0 → (hlocVisit key t (dep, off)).2 = [] ∧
      (localOK key dep (t, (dep, off)) = true → ∃ parts, (hlocVisit key t (dep, off)).1 = parts.map .ok ∧
        flattenParts N parts = .ok ((specET key dep (t, (dep, off))).map Int.ofNat))) ∧
    (1 ≤ k → (localOK key dep (t, (dep, off)) = true → (hlocVisit key t (dep, off)).1 = []) ∧
      (hlocVisit key t (dep, off)).2.flatMap (specET key (dep + 1)) = specET key dep (t, (dep, off))) := by
  obtain ⟨⟨hw, _, hbound⟩, hdk, hne⟩ := hx
  cases t with
  | leaf ls o =>
    simp only [WF] at hw
    have hk : k = 0 := by omega
    have hin : (dep + 1 == d) = true := by simp; omega
    have hsd := hs dep
    rw [hin] at hsd
    have hb : off + o + ls.length ≤ N := by simpa [est, offset, len] using hbound
    have hne' : (key.getD dep .all).desc = true → ls ≠ [] := by
      intro hd
      rcases hne with hne | hne
      · rw [hne dep] at hd; cases hd
      · simp only [leavesNonempty, Bool.not_eq_true', List.isEmpty_eq_false_iff] at hne
        exact hne
    obtain ⟨l1, l2⟩ := hlocVisit_leafT key ls o dep off N hsd hb hne'
    have hv2 : (hlocVisit key (.leaf ls o) (dep, off)).2 = [] := by
      by_cases hp : (key.getD dep .all).present ls = true
      · obtain ⟨parts, e1, _⟩ := l1 hp; rw [e1]
      · rw [l2 hp]
    rw [hv2]
    refine ⟨by simp, by simp [nodesSum, nodes], ?_, fun hp => by rw [l2 hp], fun _ => ⟨rfl, fun hp => ?_⟩, fun h1 => by omega⟩
    · simp [cleanET, cleanT, localOK, labels]
    · obtain ⟨parts, e1, e2⟩ := l1 hp
      exact ⟨parts, by rw [e1], by simpa [specET, specPosT, est, offset] using e2⟩
  | node ls cs o =>
    simp only [WF] at hw
    have hk : 1 ≤ k := by omega
    have hd : k + 1 - 1 = k := by omega
    rw [hd] at hw
    have hin : (dep + 1 == d) = false := by simp; omega
    have hsd := hs dep
    rw [hin] at hsd
    have hsd' := okAt_false hsd
    rw [hlocVisit_nodeT key ls cs o dep off hsd' hw.2.2.1]
    have hbound' : off + o + lenList cs ≤ N := by simpa [est, offset, len] using hbound
    by_cases hp : (key.getD dep .all).present ls = true
    · rw [if_pos hp]
      have hlo : localOK key dep (node ls cs o, dep, off) = true := hp
      simp only [hlo, ne_eq, not_true_eq_false, false_implies, true_and, true_implies]
      refine ⟨?_, ?_, ?_, fun h0 => by omega, fun _ => ?_⟩
      · intro y hy
        simp only [List.mem_map, List.mem_filterMap] at hy
        obtain ⟨c, ⟨i, _, hc⟩, rfl⟩ := hy
        obtain ⟨w1, w2, w3⟩ := WFList_getElem cs 0 i c hw.2.2.2 hc
        refine ⟨⟨w1, rfl, by simp only [est]; omega⟩, by omega, ?_⟩
        rcases hne with hne | hne
        · exact Or.inl hne
        · exact Or.inr (leavesNonemptyL_getElem cs i c (by simpa [leavesNonempty] using hne) hc)
      · have hsum : nodesSum (((key.getD dep .all).idxsT ls).filterMap (cs[·]?) |>.map (·, (dep + 1, off + o)))
            ≤ nodesList cs := by
          have := sumSel_le nodes cs _ (idxsT_nodup hw.2.1 (sel := key.getD dep .all) (fun as e => hnd dep as e))
          rw [nodesList_eq]
          simpa [nodesSum, nodesL, List.map_map, Function.comp_def] using this
        simp only [nodes]; omega
      · simp only [cleanET, cleanT, hp, Bool.true_and, cleanTSel_iff, Nat.zero_add, List.mem_map,
          List.mem_filterMap]
        constructor
        · rintro h y ⟨c, ⟨i, hi, hc⟩, rfl⟩
          exact h i c hc hi
        · intro h i c hc hi
          exact h (c, (dep + 1, off + o)) ⟨c, ⟨i, hi, hc⟩, rfl⟩
      · have ho : (Level.node ls cs o).offset = o := rfl
        simp only [specET, specPosT, est, ho, List.flatMap_map]
        rw [filterMap_flatMap]
        apply flatMap_congr'
        intro i _
        rw [specPosTIdx_eq key cs 0 i (dep + 1) (off + o) hw.2.2.2]
        cases cs[i]? with
        | none => rfl
        | some c => simp
    · rw [if_neg hp]
      have hlo : ¬ (localOK key dep (node ls cs o, dep, off) = true) := hp
      refine ⟨by simp, by simp [nodesSum, nodes], ?_, fun _ => rfl, fun h0 => by omega, fun _ => ⟨fun h => absurd h hlo, ?_⟩⟩
      · constructor
        · intro h; simp only [cleanET, cleanT, Bool.and_eq_true] at h; exact absurd h.1 hp
        · intro h; exact absurd h.1 hlo
      · simp only [specET, specPosT, idxsT_of_not_present hp, List.flatMap_nil]

theorem hloc_passT (key : List (Sel α)) (d N : Nat)
    (hs : ∀ dep, (key.getD dep .all).okAt (dep + 1 == d) N = true)
    (hnd : ∀ dep as, key.getD dep .all = .list as → as.Nodup) (k dep : Nat) :
    ∀ (q : List (Level α × (Nat × Nat))), (∀ x ∈ q, EntryT key d (k + 1) dep N x) →
      (∀ x ∈ bfsExpand (hlocVisit key) q, EntryT key d k (dep + 1) N x) ∧
      q.length + nodesSum (bfsExpand (hlocVisit key) q) ≤ nodesSum q ∧
      ((∀ x ∈ q, cleanET key dep x = true) ↔
        (∀ x ∈ q, localOK key dep x = true) ∧ ∀ y ∈ bfsExpand (hlocVisit key) q, cleanET key (dep + 1) y = true) ∧
      (¬ (∀ x ∈ q, localOK key dep x = true) → ∃ e, Except.error e ∈ bfsEmit (hlocVisit key) q) ∧
      (∀ e, Except.error e ∈ bfsEmit (hlocVisit key) q → e = Err.lookup) ∧
      (k = 0 → bfsExpand (hlocVisit key) q = [] ∧
        ((∀ x ∈ q, localOK key dep x = true) → ∃ parts, bfsEmit (hlocVisit key) q = parts.map .ok ∧
          flattenParts N parts = .ok ((q.flatMap (specET key dep)).map Int.ofNat))) ∧
      (1 ≤ k → ((∀ x ∈ q, localOK key dep x = true) → bfsEmit (hlocVisit key) q = []) ∧
        (bfsExpand (hlocVisit key) q).flatMap (specET key (dep + 1)) = q.flatMap (specET key dep))
  | [], _ => by
    refine ⟨by simp, by simp [nodesSum], by simp, by simp, by simp, fun _ => ⟨rfl, fun _ => ⟨[], rfl, rfl⟩⟩,
      fun _ => ⟨fun _ => rfl, rfl⟩⟩
  | x :: q, h => by
    obtain ⟨i1, i2, i3, i4, i7, i5, i6⟩ := hloc_passT key d N hs hnd k dep q (fun y hy => h y (by simp [hy]))
    have hx := h x (by simp)
    obtain ⟨t, dep', off⟩ := x
    have hdep : dep' = dep := hx.1.2.1
    subst hdep
    obtain ⟨j1, j2, j3, j4, j5, j6⟩ := hloc_entryT key d N hs hnd k dep' t off hx
    rw [bfsExpand_cons, bfsEmit_cons]
    simp only [List.forall_mem_cons, List.mem_append, List.flatMap_cons, List.flatMap_append, List.length_cons]
    refine ⟨?_, ?_, ?_, ?_, ?_, ?_, ?_⟩
    · rintro y (hy | hy)
      · exact j1 y hy
      · exact i1 y hy
    · rw [nodesSum_append]
      simp only [nodesSum, List.map_cons, List.sum_cons] at i2 j2 ⊢; omega
    · rw [j3, i3]
      constructor
      · rintro ⟨⟨a1, a2⟩, b1, b2⟩
        exact ⟨⟨a1, b1⟩, fun y hy => hy.elim (a2 y) (b2 y)⟩
      · rintro ⟨⟨a1, b1⟩, c⟩
        exact ⟨⟨a1, fun y hy => c y (Or.inl hy)⟩, b1, fun y hy => c y (Or.inr hy)⟩
    · intro hn
      by_cases hl : localOK key dep' (t, dep', off) = true
      · have : ¬ (∀ x ∈ q, localOK key dep' x = true) := fun hq => hn ⟨hl, hq⟩
        obtain ⟨e, he⟩ := i4 this
        exact ⟨e, Or.inr he⟩
      · exact ⟨.lookup, Or.inl (by rw [j4 hl]; simp)⟩
    · rintro e (he | he)
      · by_cases hl : localOK key dep' (t, dep', off) = true
        · by_cases hk : k = 0
          · obtain ⟨parts, e1, _⟩ := (j5 hk).2 hl
            rw [e1] at he; simp at he
          · rw [(j6 (by omega)).1 hl] at he; simp at he
        · rw [j4 hl] at he
          simpa using he
      · exact i7 e he
    · intro hk
      obtain ⟨a1, a2⟩ := j5 hk
      obtain ⟨b1, b2⟩ := i5 hk
      refine ⟨by rw [a1, b1]; rfl, ?_⟩
      rintro ⟨hl, hq⟩
      obtain ⟨p1, c1, c2⟩ := a2 hl
      obtain ⟨p2, d1, d2⟩ := b2 hq
      refine ⟨p1 ++ p2, by rw [c1, d1, List.map_append], ?_⟩
      rw [flattenParts_append N _ _ _ _ c2 d2, List.map_append]
    · intro hk
      obtain ⟨a1, a2⟩ := j6 hk
      obtain ⟨b1, b2⟩ := i6 hk
      refine ⟨?_, by rw [a2, b2]⟩
      rintro ⟨hl, hq⟩
      rw [a1 hl, b1 hq]; rfl

theorem hloc_layersT (key : List (Sel α)) (d N : Nat)
    (hs : ∀ dep, (key.getD dep .all).okAt (dep + 1 == d) N = true)
    (hnd : ∀ dep as, key.getD dep .all = .list as → as.Nodup) :
    ∀ (k dep : Nat) (q : List (Level α × (Nat × Nat))), (∀ x ∈ q, EntryT key d k dep N x) →
      bfsLayers (hlocVisit key) k q = [] ∧ bfsVisited (hlocVisit key) k q ≤ nodesSum q ∧
      ((∀ x ∈ q, cleanET key dep x = true) → ∃ parts, bfsSpec (hlocVisit key) k q = parts.map .ok ∧
        flattenParts N parts = .ok ((q.flatMap (specET key dep)).map Int.ofNat)) ∧
      (¬ (∀ x ∈ q, cleanET key dep x = true) → ∃ e, Except.error e ∈ bfsSpec (hlocVisit key) k q) ∧
      (∀ e, Except.error e ∈ bfsSpec (hlocVisit key) k q → e = Err.lookup)
  | 0, dep, q, h => by
    have : q = [] := by
      cases q with
      | nil => rfl
      | cons x q =>
        have := (h x (by simp)).1.1
        cases hx : x.1 <;> simp [hx, WF] at this
    subst this
    exact ⟨rfl, by simp [bfsVisited], fun _ => ⟨[], rfl, rfl⟩, fun hn => absurd (by simp) hn, by simp [bfsSpec]⟩
  | k + 1, dep, q, h => by
    obtain ⟨p1, p2, p3, p4, p7, p5, p6⟩ := hloc_passT key d N hs hnd k dep q h
    obtain ⟨r1, r2, r3, r4, r5⟩ := hloc_layersT key d N hs hnd k (dep + 1) _ p1
    simp only [bfsLayers, bfsVisited, bfsSpec]
    refine ⟨r1, by omega, ?_, ?_, ?_⟩
    · intro hc
      obtain ⟨hl, hc'⟩ := p3.mp hc
      by_cases hk : k = 0
      · obtain ⟨e1, e2⟩ := p5 hk
        obtain ⟨parts0, e3, e4⟩ := e2 hl
        subst hk
        exact ⟨parts0, by simp [e3, bfsSpec], e4⟩
      · obtain ⟨e1, e2⟩ := p6 (by omega)
        obtain ⟨parts, r5, r6⟩ := r3 hc'
        exact ⟨parts, by simp [e1 hl, r5], by rw [r6, e2]⟩
    · intro hn
      by_cases hl : ∀ x ∈ q, localOK key dep x = true
      · have : ¬ (∀ y ∈ bfsExpand (hlocVisit key) q, cleanET key (dep + 1) y = true) :=
          fun hc' => hn (p3.mpr ⟨hl, hc'⟩)
        obtain ⟨e, he⟩ := r4 this
        exact ⟨e, List.mem_append_right _ he⟩
      · obtain ⟨e, he⟩ := p4 hl
        exact ⟨e, List.mem_append_left _ he⟩
    · intro e he
      rw [List.mem_append] at he
      rcases he with he | he
      · exact p7 e he
      · exact r5 e he

/-! ### result of `locToIloc` -/

theorem specPosT_bounds (key : List (Sel α)) : ∀ (d : Nat) (t : Level α) (dep start : Nat), WF d t →
    ∀ p ∈ specPosT key t dep start, start ≤ p ∧ p < start + t.len
  | 0, t, dep, start, hw, p, hp => by cases t <;> simp [WF] at hw
  | d + 1, .leaf ls o, dep, start, hw, p, hp => by
    simp only [specPosT, List.mem_map] at hp
    obtain ⟨i, hi, rfl⟩ := hp
    have := leafIdxs_lt i hi
    simp only [len]; omega
  | d + 1, .node ls cs o, dep, start, hw, p, hp => by
    simp only [WF] at hw
    have hd : d + 1 - 1 = d := by omega
    rw [hd] at hw
    simp only [specPosT, List.mem_flatMap] at hp
    obtain ⟨i, _, hp⟩ := hp
    rw [specPosTIdx_eq key cs 0 i (dep + 1) start hw.2.2.2] at hp
    cases hc : cs[i]? with
    | none => rw [hc] at hp; simp at hp
    | some c =>
      rw [hc] at hp
      simp only at hp
      obtain ⟨w1, w2, w3⟩ := WFList_getElem cs 0 i c hw.2.2.2 hc
      have := specPosT_bounds key d c (dep + 1) (start + c.offset - 0) w1 p hp
      simp only [len]; omega

/-- the loop on a key of label / all / list / stepped-slice selectors (and a mask at the innermost
    depth): it terminates within its fuel; when no visited node lacks a slice endpoint every part is well
    formed and the parts address `specPosT`; otherwise some node yielded LocInvalid, and LocInvalid is
    the only exception -/
theorem locToIloc_stepped {t : Level α} {d : Nat} (hw : WF d t) (ho : t.offset = 0) (key : List (Sel α))
    (hs : ∀ dep, (key.getD dep .all).okAt (dep + 1 == d) t.len = true)
    (hnd : ∀ dep as, key.getD dep .all = .list as → as.Nodup) (hne : NE key t) :
    ∃ items, bfs (hlocVisit key) t.nodes [(t, (0, 0))] = some items ∧
      (cleanT key t 0 = true → ∃ parts, items = parts.map .ok ∧
        flattenParts t.len parts = .ok ((specPosT key t 0 0).map Int.ofNat)) ∧
      (cleanT key t 0 ≠ true → ∃ e, Except.error e ∈ items) ∧
      (∀ e, Except.error e ∈ items → e = Err.lookup) := by
  have hq : ∀ x ∈ [(t, ((0 : Nat), (0 : Nat)))], EntryT key d d 0 t.len x := by
    intro x hx
    simp only [List.mem_singleton] at hx
    subst hx
    exact ⟨⟨hw, rfl, by simp [est, ho]⟩, by omega, hne⟩
  obtain ⟨h1, h2, h3, h4, h5⟩ := hloc_layersT key d t.len hs hnd d 0 _ hq
  refine ⟨_, bfs_eq_spec _ d _ _ h1 (by simpa [nodesSum] using h2), ?_, ?_, h5⟩
  · intro hc
    obtain ⟨parts, e1, e2⟩ := h3 (by simpa [cleanET] using hc)
    exact ⟨parts, e1, by simpa [specET, est, ho] using e2⟩
  · intro hc
    exact h4 (by simpa [cleanET] using hc)

theorem locToIloc_stepped_result {t : Level α} {d : Nat} (hw : WF d t) (ho : t.offset = 0) (key : List (Sel α))
    (hs : ∀ dep, (key.getD dep .all).okAt (dep + 1 == d) t.len = true)
    (hnd : ∀ dep as, key.getD dep .all = .list as → as.Nodup) (hne : NE key t) (hc : cleanT key t 0 = true) :
    (t.locToIloc key = .error .lookup ∧ specPosT key t 0 0 = []) ∨
    ∃ r, t.locToIloc key = .ok r ∧ r.positions t.len = .ok (specPosT key t 0 0) := by
  obtain ⟨items, h1, h3, _, _⟩ := locToIloc_stepped hw ho key hs hnd hne
  obtain ⟨parts, rfl, h2⟩ := h3 hc
  have hb : ∀ p ∈ specPosT key t 0 0, p < t.len := by
    intro p hp; have := specPosT_bounds key d t 0 0 hw p hp; omega
  unfold locToIloc
  simp only [h1, sequence_ok]
  match parts, h2 with
  | [], h2 =>
    left
    simp only [flattenParts, Except.ok.injEq] at h2
    refine ⟨rfl, ?_⟩
    cases hsp : specPosT key t 0 0 with
    | nil => rfl
    | cons a b => rw [hsp] at h2; simp at h2
  | [one], h2 =>
    right
    simp only
    by_cases hm : key.any Sel.isMultiple = true
    · rw [if_pos hm, h2]
      exact ⟨_, rfl, list_positions_of_lt _ _ hb⟩
    · rw [if_neg hm]
      exact ⟨one, rfl, part_positions hb h2⟩
  | p1 :: p2 :: rest, h2 =>
    right
    simp only [h2]
    exact ⟨_, rfl, list_positions_of_lt _ _ hb⟩

/-- a visited node that lacks a slice endpoint makes the whole call raise LocInvalid: never data -/
theorem locToIloc_stepped_lookup {t : Level α} {d : Nat} (hw : WF d t) (ho : t.offset = 0) (key : List (Sel α))
    (hs : ∀ dep, (key.getD dep .all).okAt (dep + 1 == d) t.len = true)
    (hnd : ∀ dep as, key.getD dep .all = .list as → as.Nodup) (hne : NE key t) (hc : cleanT key t 0 ≠ true) :
    t.locToIloc key = .error .lookup := by
  obtain ⟨items, h1, _, h4, h5⟩ := locToIloc_stepped hw ho key hs hnd hne
  have he := sequence_error_of Err.lookup _ (h4 hc) h5
  unfold locToIloc
  simp only [h1, he]

/-! ### what `specPosT` selects -/

theorem mem_specPosT (key : List (Sel α)) (d0 N : Nat)
    (hs : ∀ dep, (key.getD dep .all).okAt (dep + 1 == d0) N = true) :
    ∀ (d : Nat) (t : Level α) (dep start p : Nat), WF d t → dep + d = d0 →
    (p ∈ specPosT key t dep start ↔ ∃ tup, matchT key t dep start tup = true ∧ t.leafLoc tup start = .ok p)
  | 0, t, dep, start, p, hw, _ => by cases t <;> simp [WF] at hw
  | d + 1, .leaf ls o, dep, start, p, hw, hd0 => by
    simp only [WF] at hw
    have hin : (dep + 1 == d0) = true := by simp; omega
    have hsd := hs dep
    rw [hin] at hsd
    have hsd' : (key.getD dep .all).stepOK = true ∨ ∃ bs, key.getD dep .all = .mask bs := by
      rcases okAt_true hsd with h | ⟨bs, h, _⟩
      · exact Or.inl h
      · exact Or.inr ⟨bs, h⟩
    simp only [specPosT, List.mem_map]
    constructor
    · rintro ⟨i, hi, rfl⟩
      obtain ⟨a, ha, hm⟩ := (mem_leafIdxs hw.2 hsd' start i).mp hi
      refine ⟨[a], by simp only [matchT, hm], ?_⟩
      simp [leafLoc, (pos?_eq_some_iff hw.2).mpr ha]
    · rintro ⟨tup, hm, hl⟩
      match tup, hm, hl with
      | [], _, hl => simp [leafLoc] at hl
      | _ :: _ :: _, _, hl => simp [leafLoc] at hl
      | [a], hm, hl =>
        simp only [leafLoc] at hl
        cases hp : pos? ls a with
        | none => rw [hp] at hl; cases hl
        | some i =>
          rw [hp] at hl
          simp only [Except.ok.injEq] at hl
          refine ⟨i, (mem_leafIdxs hw.2 hsd' start i).mpr ⟨a, (pos?_eq_some_iff hw.2).mp hp, ?_⟩, hl⟩
          simpa only [matchT] using hm
  | d + 1, .node ls cs o, dep, start, p, hw, hd0 => by
    simp only [WF] at hw
    have hd : d + 1 - 1 = d := by omega
    rw [hd] at hw
    have hin : (dep + 1 == d0) = false := by simp; omega
    have hsd := hs dep
    rw [hin] at hsd
    have hsd' := okAt_false hsd
    simp only [specPosT, List.mem_flatMap]
    constructor
    · rintro ⟨i, hi, hp⟩
      obtain ⟨a, ha, hm⟩ := (mem_idxsT hw.2.1 hsd' start i).mp hi
      rw [specPosTIdx_eq key cs 0 i (dep + 1) start hw.2.2.2] at hp
      cases hc : cs[i]? with
      | none => rw [hc] at hp; simp at hp
      | some c =>
        rw [hc] at hp
        simp only [Nat.sub_zero] at hp
        obtain ⟨w1, _, _⟩ := WFList_getElem cs 0 i c hw.2.2.2 hc
        obtain ⟨tup, t1, t2⟩ := (mem_specPosT key d0 N hs d c (dep + 1) (start + c.offset) p w1 (by omega)).mp hp
        have hpa := (pos?_eq_some_iff hw.2.1).mpr ha
        refine ⟨a :: tup, ?_, ?_⟩
        · simp only [matchT, hm, hpa, matchTAt_eq key cs 0 i (dep + 1) start tup hw.2.2.2, hc, Nat.sub_zero, t1,
            Bool.and_self]
        · simp only [leafLoc, hpa, leafLocAt_eq, hc, t2]
    · rintro ⟨tup, hm, hl⟩
      match tup, hm, hl with
      | [], _, hl => simp [leafLoc] at hl
      | a :: rest, hm, hl =>
        simp only [leafLoc] at hl
        cases hp : pos? ls a with
        | none => rw [hp] at hl; cases hl
        | some i =>
          rw [hp] at hl
          simp only at hl
          rw [leafLocAt_eq] at hl
          simp only [matchT, hp, matchTAt_eq key cs 0 i (dep + 1) start rest hw.2.2.2, Bool.and_eq_true] at hm
          have ha := (pos?_eq_some_iff hw.2.1).mp hp
          refine ⟨i, (mem_idxsT hw.2.1 hsd' start i).mpr ⟨a, ha, hm.1⟩, ?_⟩
          rw [specPosTIdx_eq key cs 0 i (dep + 1) start hw.2.2.2]
          cases hc : cs[i]? with
          | none => rw [hc] at hl; cases hl
          | some c =>
            rw [hc] at hl hm
            simp only [Nat.sub_zero] at hl hm ⊢
            obtain ⟨w1, _, _⟩ := WFList_getElem cs 0 i c hw.2.2.2 hc
            exact (mem_specPosT key d0 N hs d c (dep + 1) (start + c.offset) p w1 (by omega)).mpr ⟨rest, hm.2, hl⟩

/-- `specPosT` is exactly the set of positions whose tuple matches every selector, each component in
    the node it lives in -/
theorem specPosT_mem_iff {t : Level α} {d : Nat} (hw : WF d t) (key : List (Sel α)) (N : Nat)
    (hs : ∀ dep, (key.getD dep .all).okAt (dep + 1 == d) N = true) (p : Nat) :
    p ∈ specPosT key t 0 0 ↔ ∃ tup, t.tuples[p]? = some tup ∧ matchT key t 0 0 tup = true := by
  rw [mem_specPosT key d N hs d t 0 0 p hw (by omega)]
  constructor
  · rintro ⟨tup, hm, hl⟩
    obtain ⟨i, hi, ht⟩ := (leafLoc_spec t d hw tup 0 p).mp hl
    simp only [Nat.zero_add] at hi; subst hi
    exact ⟨tup, ht, hm⟩
  · rintro ⟨tup, ht, hm⟩
    exact ⟨tup, hm, (leafLoc_spec t d hw tup 0 p).mpr ⟨p, by simp, ht⟩⟩

/-! ### order of the result -/

/-- without a list selector and without a negative step a node visits its targets in index order -/
theorem idxsT_sorted {ls : List α} {sel : Sel α} (hnl : ∀ as, sel ≠ .list as) (hd : sel.desc = false) :
    (sel.idxsT ls).Pairwise (· < ·) := by
  cases sel with
  | all => exact List.pairwise_lt_range
  | label a =>
    simp only [Sel.idxsT, Sel.idxs]
    cases pos? ls a <;> simp
  | list as => exact absurd rfl (hnl as)
  | mask bs => simp [Sel.idxsT, Sel.idxs]
  | slice s e st =>
    simp only [Sel.idxsT]
    split
    · rename_i a b h1 h2
      simp only [Sel.desc, decide_eq_false_iff_not] at hd
      by_cases hk : 0 < st.getD 1
      · exact rangeList_toNat_asc hk ((startT_bounds h1).1 hk).1
      · have : st.getD 1 = 0 := by omega
        rw [this]; simp [rangeList, rangeLen]
    · simp

/-- a slice with a negative step visits the targets it selects in DESCENDING order -/
theorem idxsT_desc {ls : List α} {sel : Sel α} (hd : sel.desc = true) : (sel.idxsT ls).Pairwise (· > ·) := by
  cases sel with
  | slice s e st =>
    simp only [Sel.idxsT]
    split
    · rename_i a b h1 h2
      simp only [Sel.desc, decide_eq_true_eq] at hd
      exact rangeList_toNat_desc hd ((stopT_bounds h2).2 hd).1
    · simp
  | _ => simp [Sel.desc] at hd

theorem leafIdxs_sorted {ls : List α} {start : Nat} {sel : Sel α} (hnl : ∀ as, sel ≠ .list as)
    (hd : sel.desc = false) : (sel.leafIdxs ls start).Pairwise (· < ·) := by
  cases sel with
  | mask bs => exact List.Pairwise.filter _ List.pairwise_lt_range
  | all => exact idxsT_sorted (sel := .all) hnl hd
  | label a => exact idxsT_sorted (sel := .label a) hnl hd
  | list as => exact idxsT_sorted (sel := .list as) hnl hd
  | slice s e st => exact idxsT_sorted (sel := .slice s e st) hnl hd

theorem leafIdxs_nodup {ls : List α} (hls : ls.Nodup) {start : Nat} {sel : Sel α}
    (hsel : ∀ as, sel = .list as → as.Nodup) : (sel.leafIdxs ls start).Nodup := by
  cases sel with
  | mask bs =>
    exact List.nodup_iff_pairwise_ne.mpr (List.Pairwise.imp (fun h => by omega)
      (List.Pairwise.filter _ List.pairwise_lt_range))
  | all => exact idxsT_nodup (sel := .all) hls hsel
  | label a => exact idxsT_nodup (sel := .label a) hls hsel
  | list as => exact idxsT_nodup (sel := .list as) hls hsel
  | slice s e st => exact idxsT_nodup (sel := .slice s e st) hls hsel

theorem specPosT_sorted (key : List (Sel α)) (hnl : ∀ dep as, key.getD dep .all ≠ .list as)
    (hnd : ∀ dep, (key.getD dep .all).desc = false) :
    ∀ (d : Nat) (t : Level α) (dep start : Nat), WF d t → (specPosT key t dep start).Pairwise (· < ·)
  | 0, t, dep, start, hw => by cases t <;> simp [WF] at hw
  | d + 1, .leaf ls o, dep, start, hw => by
    simp only [specPosT, List.pairwise_map]
    exact List.Pairwise.imp (fun hab => by omega) (leafIdxs_sorted (hnl dep) (hnd dep))
  | d + 1, .node ls cs o, dep, start, hw => by
    simp only [WF] at hw
    have hd : d + 1 - 1 = d := by omega
    rw [hd] at hw
    simp only [specPosT]
    rw [List.pairwise_flatMap]
    constructor
    · intro i _
      rw [specPosTIdx_eq key cs 0 i (dep + 1) start hw.2.2.2]
      cases hc : cs[i]? with
      | none => simp
      | some c =>
        obtain ⟨w1, _, _⟩ := WFList_getElem cs 0 i c hw.2.2.2 hc
        exact specPosT_sorted key hnl hnd d c (dep + 1) _ w1
    · refine List.Pairwise.imp ?_ (idxsT_sorted (ls := ls) (hnl dep) (hnd dep))
      intro i j hij x hx y hy
      rw [specPosTIdx_eq key cs 0 i (dep + 1) start hw.2.2.2] at hx
      rw [specPosTIdx_eq key cs 0 j (dep + 1) start hw.2.2.2] at hy
      cases hci : cs[i]? with
      | none => rw [hci] at hx; simp at hx
      | some ci =>
        cases hcj : cs[j]? with
        | none => rw [hcj] at hy; simp at hy
        | some cj =>
          rw [hci] at hx; rw [hcj] at hy
          simp only [Nat.sub_zero] at hx hy
          obtain ⟨w1, _, _⟩ := WFList_getElem cs 0 i ci hw.2.2.2 hci
          obtain ⟨w2, _, _⟩ := WFList_getElem cs 0 j cj hw.2.2.2 hcj
          have b1 := specPosT_bounds key d ci (dep + 1) _ w1 x hx
          have b2 := specPosT_bounds key d cj (dep + 1) _ w2 y hy
          have := WFList_offsets cs 0 i j ci cj hw.2.2.2 hij hci hcj
          omega

/-- whatever the order in which the nodes visit their targets, no position is produced twice -/
theorem specPosT_nodup (key : List (Sel α)) (hnd : ∀ dep as, key.getD dep .all = .list as → as.Nodup) :
    ∀ (d : Nat) (t : Level α) (dep start : Nat), WF d t → (specPosT key t dep start).Nodup
  | 0, t, dep, start, hw => by cases t <;> simp [WF] at hw
  | d + 1, .leaf ls o, dep, start, hw => by
    simp only [WF] at hw
    simp only [specPosT]
    rw [List.nodup_iff_pairwise_ne, List.pairwise_map]
    exact List.Pairwise.imp (fun hab h => hab (by omega))
      (List.nodup_iff_pairwise_ne.mp (leafIdxs_nodup hw.2 (fun as e => hnd dep as e)))
  | d + 1, .node ls cs o, dep, start, hw => by
    simp only [WF] at hw
    have hd : d + 1 - 1 = d := by omega
    rw [hd] at hw
    simp only [specPosT]
    rw [List.nodup_iff_pairwise_ne, List.pairwise_flatMap]
    constructor
    · intro i _
      rw [specPosTIdx_eq key cs 0 i (dep + 1) start hw.2.2.2]
      cases hc : cs[i]? with
      | none => simp
      | some c =>
        obtain ⟨w1, _, _⟩ := WFList_getElem cs 0 i c hw.2.2.2 hc
        exact List.nodup_iff_pairwise_ne.mp (specPosT_nodup key hnd d c (dep + 1) _ w1)
    · refine List.Pairwise.imp ?_
        (List.nodup_iff_pairwise_ne.mp (idxsT_nodup (ls := ls) hw.2.1 (fun as e => hnd dep as e)))
      intro i j hij x hx y hy
      rw [specPosTIdx_eq key cs 0 i (dep + 1) start hw.2.2.2] at hx
      rw [specPosTIdx_eq key cs 0 j (dep + 1) start hw.2.2.2] at hy
      cases hci : cs[i]? with
      | none => rw [hci] at hx; simp at hx
      | some ci =>
        cases hcj : cs[j]? with
        | none => rw [hcj] at hy; simp at hy
        | some cj =>
          rw [hci] at hx; rw [hcj] at hy
          simp only [Nat.sub_zero] at hx hy
          obtain ⟨w1, _, _⟩ := WFList_getElem cs 0 i ci hw.2.2.2 hci
          obtain ⟨w2, _, _⟩ := WFList_getElem cs 0 j cj hw.2.2.2 hcj
          have b1 := specPosT_bounds key d ci (dep + 1) _ w1 x hx
          have b2 := specPosT_bounds key d cj (dep + 1) _ w2 y hy
          rcases Nat.lt_or_gt_of_ne hij with h | h
          · have := WFList_offsets cs 0 i j ci cj hw.2.2.2 h hci hcj
            omega
          · have := WFList_offsets cs 0 j i cj ci hw.2.2.2 h hcj hci
            omega

/-- the positions (in index order) whose tuple matches every per-depth selector, each component in
    the node it lives in -/
def matchPositionsT (key : List (Sel α)) (t : Level α) : List Nat :=
  (List.range t.len).filter (fun p => match t.tuples[p]? with
    | some tup => matchT key t 0 0 tup
    | none => false)

theorem mem_matchPositionsT {t : Level α} {d : Nat} (hw : WF d t) (key : List (Sel α)) (p : Nat) :
    p ∈ matchPositionsT key t ↔ ∃ tup, t.tuples[p]? = some tup ∧ matchT key t 0 0 tup = true := by
  simp only [matchPositionsT, List.mem_filter, List.mem_range]
  constructor
  · rintro ⟨_, hm⟩
    cases ht : t.tuples[p]? with
    | none => simp [ht] at hm
    | some tup => rw [ht] at hm; exact ⟨tup, rfl, hm⟩
  · rintro ⟨tup, ht, hm⟩
    have := (List.getElem?_eq_some_iff.mp ht).1
    rw [tuples_length t d hw] at this
    exact ⟨this, by simp only [ht, hm]⟩

theorem specPosT_eq_matchPositionsT {t : Level α} {d : Nat} (hw : WF d t) (key : List (Sel α)) (N : Nat)
    (hs : ∀ dep, (key.getD dep .all).okAt (dep + 1 == d) N = true)
    (hnl : ∀ dep as, key.getD dep .all ≠ .list as) (hnd : ∀ dep, (key.getD dep .all).desc = false) :
    specPosT key t 0 0 = matchPositionsT key t := by
  apply pairwise_lt_ext _ _ (specPosT_sorted key hnl hnd d t 0 0 hw)
    (List.Pairwise.filter _ List.pairwise_lt_range)
  intro p
  exact (specPosT_mem_iff hw key N hs p).trans (mem_matchPositionsT hw key p).symm

/-- in every case (list selectors, negative steps) the result is a rearrangement of the matching
    positions: every matching position exactly once -/
theorem specPosT_perm_matchPositionsT {t : Level α} {d : Nat} (hw : WF d t) (key : List (Sel α)) (N : Nat)
    (hs : ∀ dep, (key.getD dep .all).okAt (dep + 1 == d) N = true)
    (hnd : ∀ dep as, key.getD dep .all = .list as → as.Nodup) :
    (specPosT key t 0 0).Perm (matchPositionsT key t) := by
  have hn : (matchPositionsT key t).Nodup := by
    unfold matchPositionsT
    exact List.nodup_iff_pairwise_ne.mpr (List.Pairwise.imp (fun h => by omega)
      (List.Pairwise.filter _ List.pairwise_lt_range))
  rw [List.perm_ext_iff_of_nodup (specPosT_nodup key hnd d t 0 0 hw) hn]
  intro p
  exact (specPosT_mem_iff hw key N hs p).trans (mem_matchPositionsT hw key p).symm

/-! ### a mask selects by global position -/

/-- the mask component of the key only looks at the global position of the tuple: matching `key` is
    matching `key'` (the key with the mask replaced by `:`) and holding `True` in the mask -/
theorem matchT_mask (key key' : List (Sel α)) (m : Nat) (bs : List Bool) (hm : key.getD m .all = .mask bs)
    (hm' : key'.getD m .all = .all) (hk : ∀ dep, dep ≠ m → key'.getD dep .all = key.getD dep .all) :
    ∀ (d : Nat) (t : Level α) (dep start : Nat) (tup : List α) (p : Nat), WF d t → dep + d = m + 1 →
      t.leafLoc tup start = .ok p →
      matchT key t dep start tup = (matchT key' t dep start tup && bs.getD p false)
  | 0, t, dep, start, tup, p, hw, _, _ => by cases t <;> simp [WF] at hw
  | d + 1, .leaf ls o, dep, start, tup, p, hw, hd0, hl => by
    simp only [WF] at hw
    have hdm : dep = m := by omega
    subst hdm
    match tup, hl with
    | [], hl => simp [leafLoc] at hl
    | _ :: _ :: _, hl => simp [leafLoc] at hl
    | [a], hl =>
      simp only [leafLoc] at hl
      cases hp : pos? ls a with
      | none => rw [hp] at hl; cases hl
      | some i =>
        rw [hp] at hl
        simp only [Except.ok.injEq] at hl
        subst hl
        simp only [matchT, hm, hm', Sel.matchesT, hp, Sel.matches, Bool.true_and]
  | d + 1, .node ls cs o, dep, start, tup, p, hw, hd0, hl => by
    simp only [WF] at hw
    have hd : d + 1 - 1 = d := by omega
    rw [hd] at hw
    have hdm : dep ≠ m := by omega
    match tup, hl with
    | [], hl => simp [leafLoc] at hl
    | a :: rest, hl =>
      simp only [leafLoc] at hl
      cases hp : pos? ls a with
      | none => rw [hp] at hl; cases hl
      | some i =>
        rw [hp] at hl
        simp only at hl
        rw [leafLocAt_eq] at hl
        simp only [matchT, hp, hk dep hdm, matchTAt_eq key cs 0 i (dep + 1) start rest hw.2.2.2,
          matchTAt_eq key' cs 0 i (dep + 1) start rest hw.2.2.2]
        cases hc : cs[i]? with
        | none => rw [hc] at hl; cases hl
        | some c =>
          rw [hc] at hl
          simp only [Nat.sub_zero] at hl ⊢
          obtain ⟨w1, _, _⟩ := WFList_getElem cs 0 i c hw.2.2.2 hc
          rw [matchT_mask key key' m bs hm hm' hk d c (dep + 1) (start + c.offset) rest p w1 (by omega) hl,
            Bool.and_assoc]

theorem matchT_mask_root {t : Level α} {d : Nat} (hw : WF d t) (outer : List (Sel α)) (bs : List Bool)
    (hlen : outer.length + 1 = d) {tup : List α} {p : Nat} (ht : t.tuples[p]? = some tup) :
    matchT (outer ++ [Sel.mask bs]) t 0 0 tup = (matchT outer t 0 0 tup && bs.getD p false) := by
  apply matchT_mask (outer ++ [Sel.mask bs]) outer outer.length bs ?_ ?_ ?_ d t 0 0 tup p hw (by omega)
    ((leafLoc_spec t d hw tup 0 p).mpr ⟨p, by simp, ht⟩)
  · simp [List.getD_eq_getElem?_getD]
  · simp [List.getD_eq_getElem?_getD]
  · intro dep hdep
    simp only [List.getD_eq_getElem?_getD]
    by_cases h : dep < outer.length
    · rw [List.getElem?_append_left h]
    · rw [List.getElem?_eq_none (show outer.length ≤ dep by omega),
        List.getElem?_eq_none (show (outer ++ [Sel.mask bs]).length ≤ dep by simp; omega)]

/-! ### sufficient condition: no selector can lack an endpoint -/

mutual
theorem cleanT_of_present (key : List (Sel α)) (h : ∀ dep ls, (key.getD dep .all).present ls = true) :
    ∀ (t : Level α) (dep : Nat), cleanT key t dep = true
  | .leaf ls o, dep => by simp only [cleanT, h]
  | .node ls cs o, dep => by
    simp only [cleanT, h, Bool.true_and]
    exact cleanTSel_of_present key h cs _ 0 (dep + 1)
theorem cleanTSel_of_present (key : List (Sel α)) (h : ∀ dep ls, (key.getD dep .all).present ls = true) :
    ∀ (cs : List (Level α)) (is : List Nat) (j dep : Nat), cleanTSel key cs is j dep = true
  | [], _, _, _ => rfl
  | c :: cs, is, j, dep => by
    simp only [cleanTSel, cleanT_of_present key h c dep, cleanTSel_of_present key h cs is (j + 1) dep,
      Bool.or_true, Bool.and_self]
end

/-! ### a mask at the innermost depth filters the selection of the outer selectors -/

theorem getD_snoc_mask (outer : List (Sel α)) (bs : List Bool) (dep : Nat) :
    (outer ++ [Sel.mask bs]).getD dep .all = if dep = outer.length then Sel.mask bs else outer.getD dep .all := by
  simp only [List.getD_eq_getElem?_getD, List.getElem?_append]
  by_cases h1 : dep < outer.length
  · rw [if_pos h1, if_neg (by omega)]
  · rw [if_neg h1]
    by_cases h2 : dep = outer.length
    · rw [if_pos h2]; subst h2; simp
    · rw [if_neg h2, List.getElem?_eq_none (show outer.length ≤ dep by omega),
        List.getElem?_eq_none (show [Sel.mask bs].length ≤ dep - outer.length by simp; omega)]

theorem getD_length_all (outer : List (Sel α)) : outer.getD outer.length .all = .all := by
  simp [List.getD_eq_getElem?_getD]

theorem okAt_snoc_mask {outer : List (Sel α)} (hs : ∀ dep, (outer.getD dep .all).stepOK = true) (bs : List Bool)
    {d N : Nat} (hlen : outer.length + 1 = d) (hbs : N ≤ bs.length) (dep : Nat) :
    ((outer ++ [Sel.mask bs]).getD dep .all).okAt (dep + 1 == d) N = true := by
  rw [getD_snoc_mask]
  by_cases h : dep = outer.length
  · rw [if_pos h]
    have : (dep + 1 == d) = true := by simp; omega
    simp only [this, Sel.okAt, Bool.true_and, decide_eq_true_eq]; exact hbs
  · rw [if_neg h]; exact okAt_of_stepOK (hs dep) _ _

theorem NE_snoc_mask {outer : List (Sel α)} {t : Level α} (bs : List Bool) (h : NE outer t) :
    NE (outer ++ [Sel.mask bs]) t := by
  rcases h with h | h
  · left
    intro dep
    rw [getD_snoc_mask]
    by_cases hd : dep = outer.length
    · rw [if_pos hd]; rfl
    · rw [if_neg hd]; exact h dep
  · exact Or.inr h

/-- the selection with a mask appended is the selection of the outer selectors filtered by the mask -/
theorem specPosT_mask (outer : List (Sel α)) (bs : List Bool) :
    ∀ (d : Nat) (t : Level α) (dep start : Nat), WF d t → dep + d = outer.length + 1 →
      specPosT (outer ++ [Sel.mask bs]) t dep start =
        (specPosT outer t dep start).filter (fun p => bs.getD p false)
  | 0, t, dep, start, hw, _ => by cases t <;> simp [WF] at hw
  | d + 1, .leaf ls o, dep, start, hw, hd0 => by
    simp only [WF] at hw
    have hdm : dep = outer.length := by omega
    subst hdm
    simp only [specPosT, getD_snoc_mask, if_true, getD_length_all, Sel.leafIdxs, Sel.idxsT, Sel.idxs,
      List.filter_map]
    rfl
  | d + 1, .node ls cs o, dep, start, hw, hd0 => by
    simp only [WF] at hw
    have hd : d + 1 - 1 = d := by omega
    rw [hd] at hw
    have hdm : dep ≠ outer.length := by omega
    simp only [specPosT, getD_snoc_mask, if_neg hdm, List.filter_flatMap]
    apply flatMap_congr'
    intro i _
    rw [specPosTIdx_eq _ cs 0 i (dep + 1) start hw.2.2.2, specPosTIdx_eq _ cs 0 i (dep + 1) start hw.2.2.2]
    cases hc : cs[i]? with
    | none => rfl
    | some c =>
      obtain ⟨w1, _, _⟩ := WFList_getElem cs 0 i c hw.2.2.2 hc
      exact specPosT_mask outer bs d c (dep + 1) _ w1 (by omega)

/-- the mask has no endpoint a node could lack: the visited nodes are judged by the outer selectors -/
theorem cleanT_mask (outer : List (Sel α)) (bs : List Bool) :
    ∀ (d : Nat) (t : Level α) (dep : Nat), WF d t → dep + d = outer.length + 1 →
      cleanT (outer ++ [Sel.mask bs]) t dep = cleanT outer t dep
  | 0, t, dep, hw, _ => by cases t <;> simp [WF] at hw
  | d + 1, .leaf ls o, dep, hw, hd0 => by
    simp only [WF] at hw
    have hdm : dep = outer.length := by omega
    subst hdm
    simp only [cleanT, getD_snoc_mask, if_true, getD_length_all, Sel.present]
  | d + 1, .node ls cs o, dep, hw, hd0 => by
    simp only [WF] at hw
    have hd : d + 1 - 1 = d := by omega
    rw [hd] at hw
    have hdm : dep ≠ outer.length := by omega
    simp only [cleanT, getD_snoc_mask, if_neg hdm]
    congr 1
    rw [Bool.eq_iff_iff, cleanTSel_iff, cleanTSel_iff]
    constructor
    · intro h i c hc hi
      obtain ⟨w1, _, _⟩ := WFList_getElem cs 0 i c hw.2.2.2 hc
      rw [← cleanT_mask outer bs d c (dep + 1) w1 (by omega)]
      exact h i c hc hi
    · intro h i c hc hi
      obtain ⟨w1, _, _⟩ := WFList_getElem cs 0 i c hw.2.2.2 hc
      rw [cleanT_mask outer bs d c (dep + 1) w1 (by omega)]
      exact h i c hc hi

end Level
end SF
