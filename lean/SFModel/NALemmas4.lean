/-
  SFModel.NALemmas4 — helper lemmas for C14, part 4: one block of `_fillna_directional_axis_1`
  refines the spec, with the invariant linking (bridging value, bridging count) to the spec's
  (last seen value, missing-run length).
-/
import SFModel.NALemmas3

namespace SF.NA

variable {α : Type} {isna : α → Bool}

/-- where the bridging slice ends (as a length measured from the entry edge): nothing when the
    count already reached the limit, trimmed when `count + run ≥ limit`, the whole run otherwise -/
def bridgeEnd (limit bc k : Nat) : Nat :=
  if limit ≠ 0 ∧ bc ≥ limit then 0
  else if limit ≠ 0 ∧ bc + k ≥ limit then k - (bc + k - limit)
  else k

theorem bridgeEnd_le (limit bc k : Nat) : bridgeEnd limit bc k ≤ k := by
  unfold bridgeEnd; split
  · omega
  · split <;> omega

theorem bridgeEnd_iff (limit bc k i : Nat) (hi : i < k) :
    ((limit = 0 ∨ bc + i < limit) ↔ i < bridgeEnd limit bc k) := by
  unfold bridgeEnd; split
  · omega
  · split <;> omega

theorem all_take_na (ys : List α) (k : Nat) (hlead : ∀ r, r < k → NaAt isna ys r) :
    ∀ x ∈ ys.take k, isna x = true := by
  intro x hx
  obtain ⟨i, hi, rfl⟩ := List.getElem_of_mem hx
  have hi' : i < k := by simp at hi; omega
  have hin : i < ys.length := by simp at hi; omega
  have := hlead i hi'
  unfold NaAt at this
  rw [List.getElem?_eq_getElem hin] at this
  simpa [List.getElem_take] using this

/-- Filling the leading run of `ys` from a carried value on top of the state-free fill gives the
    fill with the carried state. -/
theorem bridge_shared (limit : Nat) (ys : List α) (k : Nat) (hk : k ≤ ys.length)
    (hlead : ∀ r, r < k → NaAt isna ys r)
    (hend : k = ys.length ∨ ∃ y, ys[k]? = some y ∧ isna y = false)
    (bv : α) (cnt bc : Nat) (hc : limit ≠ 0 → cnt = bc) :
    assignSlice (ffill isna limit ys none 0) 0 (bridgeEnd limit bc k) bv =
      ffill isna limit ys (some bv) cnt := by
  have hall := all_take_na ys k hlead
  have hlen : (ys.take k).length = k := by simp; omega
  have hrest : ∀ x, (ys.drop k).head? = some x → isna x = false := by
    intro x hx
    rw [List.head?_drop] at hx
    rcases hend with h | ⟨y, hy, hyn⟩
    · rw [List.getElem?_eq_none (by omega)] at hx; cases hx
    · rw [hy] at hx; cases hx; exact hyn
  have hys : ys = ys.take k ++ ys.drop k := (List.take_append_drop k ys).symm
  rw [hys, ffill_append, ffill_append, ffill_allNA_none _ _ _ hall,
    ffill_head_notna limit (ys.drop k) _ _ hrest,
    ffill_head_notna limit (ys.drop k) (ffillState isna (ys.take k) (some bv) cnt).1 _ hrest,
    assignSlice_append_left _ _ _ _ (by rw [hlen]; exact bridgeEnd_le _ _ _)]
  congr 1
  symm
  apply ffill_allNA_some _ _ _ _ _ hall
  intro i hi
  rw [hlen] at hi
  rw [← bridgeEnd_iff limit bc k i hi]
  by_cases h0 : limit = 0
  · simp [h0]
  · rw [hc h0]

/-! ### the invariant -/

/-- Links the code's per-row bridging state to the spec's state after the cells consumed so far:
    an open state carries exactly (last seen value, missing-run length); a state whose bridging value
    is missing corresponds to a spec state from which nothing is filled (`Closed`).  The count is
    only consulted when `limit ≠ 0`. -/
def Inv (isna : α → Bool) (limit : Nat) (st : Option (Bridge α)) (last : Option α) (cnt : Nat) : Prop :=
  (∀ v, last = some v → isna v = false) ∧
  match st with
  | none => last = none
  | some b => b.na = isna b.val ∧
      ((b.na = true ∧ Closed limit last cnt) ∨
       (b.na = false ∧ last = some b.val ∧ (limit ≠ 0 → cnt = b.count)))

theorem ffillState_fst_notna (l : List α) (last : Option α) (cnt : Nat)
    (h : ∀ v, last = some v → isna v = false) :
    ∀ v, (ffillState isna l last cnt).1 = some v → isna v = false := by
  induction l generalizing last cnt with
  | nil => simpa [ffillState] using h
  | cons x xs ih =>
    cases hx : isna x with
    | true => rw [ffillState_cons_na _ _ _ _ hx]; exact ih _ _ h
    | false =>
      rw [ffillState_cons_notna _ _ _ _ hx]
      exact ih _ _ (by intro v hv; cases hv; exact hx)

/-! ### unfolding the two parts of the 2-D branch -/

theorem slicesFromTargets_nil (fwd : Bool) (limit : Nat) (sel : List Bool) (n : Nat) :
    slicesFromTargets fwd limit sel n [] = [] := by
  cases fwd <;> simp [slicesFromTargets, rawSlicesFwd, rawSlicesBwd]

theorem innerFill_fst (fwd : Bool) (limit : Nat) (cells a1 : List α) (c1 : Nat) :
    (innerFill isna fwd limit cells a1 c1).1 =
      applySlices cells (slicesFromTargets fwd limit (cells.map isna) cells.length
        (binaryTransition (cells.map isna))) a1 := by
  unfold innerFill
  simp only
  split
  · rename_i h
    rw [h, slicesFromTargets_nil]; rfl
  · rfl

theorem bridgeFill_none (fwd : Bool) (limit : Nat) (cells : List α) (d : α) :
    bridgeFill isna fwd limit none cells d = (cells, 0) := rfl

theorem bridgeFill_noentry (fwd : Bool) (limit : Nat) (bv : α) (bna : Bool) (bc : Nat) (cells : List α) (d : α)
    (h : (isna (edgeCell (!fwd) cells d) && !bna) = false) :
    bridgeFill isna fwd limit (some ⟨bv, bna, bc⟩) cells d = (cells, bc) := by
  simp only [bridgeFill, h]; rfl

theorem bridgeFill_fwd_entry (limit : Nat) (bv : α) (bna : Bool) (bc : Nat) (cells : List α) (d : α) (k : Nat)
    (h : (isna (edgeCell (!true) cells d) && !bna) = true) (hk : sidedSlice true (cells.map isna) = (0, k)) :
    bridgeFill isna true limit (some ⟨bv, bna, bc⟩) cells d =
      (assignSlice cells 0 (bridgeEnd limit bc k) bv, bc + k) := by
  simp only [bridgeFill, h, hk, if_true, Nat.sub_zero]
  unfold bridgeEnd
  by_cases c1 : limit ≠ 0 ∧ bc ≥ limit
  · rw [if_pos c1, if_pos c1, assignSlice_empty _ _ _ _ (Nat.le_refl 0)]
  · rw [if_neg c1, if_neg c1]
    by_cases c2 : limit ≠ 0 ∧ bc + k ≥ limit
    · rw [if_pos c2, if_pos c2]
    · rw [if_neg c2, if_neg c2]

theorem bridgeFill_bwd_entry (limit : Nat) (bv : α) (bna : Bool) (bc : Nat) (cells : List α) (d : α) (s : Nat)
    (h : (isna (edgeCell (!false) cells d) && !bna) = true)
    (hs : sidedSlice false (cells.map isna) = (s, cells.length)) (hsn : s ≤ cells.length) :
    bridgeFill isna false limit (some ⟨bv, bna, bc⟩) cells d =
      (assignSlice cells (cells.length - bridgeEnd limit bc (cells.length - s)) cells.length bv,
       bc + (cells.length - s)) := by
  simp only [bridgeFill, h, hs, if_true, Bool.false_eq_true, if_false]
  unfold bridgeEnd
  by_cases c1 : limit ≠ 0 ∧ bc ≥ limit
  · rw [if_pos c1, if_pos c1, assignSlice_empty _ _ _ _ (by omega)]
  · rw [if_neg c1, if_neg c1]
    by_cases c2 : limit ≠ 0 ∧ bc + (cells.length - s) ≥ limit
    · rw [if_pos c2, if_pos c2]
      congr 2; omega
    · rw [if_neg c2, if_neg c2]
      congr 2; omega

/-! ### the cells of the 2-D branch -/

theorem sel_false_cell (cells : List α) (k : Nat) (h : (cells.map isna)[k]? = some false) :
    ∃ y, cells[k]? = some y ∧ isna y = false := by
  rw [List.getElem?_map] at h
  cases hc : cells[k]? with
  | none => rw [hc] at h; cases h
  | some y => rw [hc] at h; exact ⟨y, rfl, by simpa using h⟩

theorem twoD_cells_fwd (limit : Nat) (st : Option (Bridge α)) (cells : List α) (d : α)
    (last : Option α) (cnt : Nat) (hinv : Inv isna limit st last cnt) :
    (innerFill isna true limit cells (bridgeFill isna true limit st cells d).1
        (bridgeFill isna true limit st cells d).2).1 = ffill isna limit cells last cnt := by
  rw [innerFill_fst]
  have h1d : applySlices cells (slicesFromTargets true limit (cells.map isna) cells.length
      (binaryTransition (cells.map isna))) cells = ffill isna limit cells none 0 :=
    fillDir1D_fwd limit cells
  obtain ⟨hlastna, hst⟩ := hinv
  cases st with
  | none =>
    simp only at hst
    subst hst
    rw [bridgeFill_none, h1d]
    exact ffill_closed limit cells none none 0 cnt (Or.inl rfl) (Or.inl rfl)
  | some b =>
    obtain ⟨bv, bna, bc⟩ := b
    simp only at hst
    obtain ⟨hna, hcase⟩ := hst
    cases hentry : (isna (edgeCell (!true) cells d) && !bna) with
    | false =>
      rw [bridgeFill_noentry _ _ _ _ _ _ _ hentry, h1d]
      rcases hcase with ⟨_, hcl⟩ | ⟨hb, _, _⟩
      · exact ffill_closed limit cells none last 0 cnt (Or.inl rfl) hcl
      · subst hb
        simp only [Bool.not_false, Bool.and_true, Bool.not_true] at hentry
        symm
        apply ffill_head_notna
        intro x hx
        cases cells with
        | nil => simp at hx
        | cons c cs => simp at hx; subst hx; simpa [edgeCell] using hentry
    | true =>
      have hb : bna = false := by
        cases bna with
        | false => rfl
        | true => simp at hentry
      subst hb
      rcases hcase with ⟨hb, _⟩ | ⟨_, hl, hc⟩
      · cases hb
      · subst hl
        obtain ⟨k, hk, hkn, hlead, hend⟩ := sidedSlice_leading (cells.map isna)
        rw [bridgeFill_fwd_entry limit bv false bc cells d k hentry hk]
        simp only
        rw [applySlices_assign_comm, h1d]
        · apply bridge_shared limit cells k (by simpa using hkn)
            (fun r hr => (naAt_iff_sel cells r).mpr (hlead r hr)) _ bv cnt bc hc
          rcases hend with h | h
          · left; simpa using h
          · right; exact sel_false_cell cells k h
        · intro sl hsl
          right
          have hsl' : sl ∈ slicesFromTargets true limit (cells.map isna) (cells.map isna).length
              (binaryTransition (cells.map isna)) := by simpa using hsl
          obtain ⟨f1, f2⟩ := fwd_slice_facts limit _ sl hsl'
          have : k ≤ sl.target := by
            by_cases c : k ≤ sl.target
            · exact c
            · have := hlead sl.target (by omega)
              rw [f2] at this; cases this
          have := bridgeEnd_le limit bc k
          omega

theorem naAt_reverse (cells : List α) (r : Nat) (hr : r < cells.length) :
    NaAt isna cells.reverse r ↔ NaAt isna cells (cells.length - 1 - r) := by
  unfold NaAt
  rw [List.getElem?_reverse hr]

theorem twoD_cells_bwd (limit : Nat) (st : Option (Bridge α)) (cells : List α) (d : α)
    (last : Option α) (cnt : Nat) (hinv : Inv isna limit st last cnt) :
    ((innerFill isna false limit cells (bridgeFill isna false limit st cells d).1
        (bridgeFill isna false limit st cells d).2).1).reverse =
      ffill isna limit cells.reverse last cnt := by
  rw [innerFill_fst]
  have h1d : applySlices cells (slicesFromTargets false limit (cells.map isna) cells.length
      (binaryTransition (cells.map isna))) cells = bfillSpec isna limit cells :=
    fillDir1D_bwd limit cells
  have hrev : (bfillSpec isna limit cells).reverse = ffill isna limit cells.reverse none 0 := by
    simp [bfillSpec]
  obtain ⟨hlastna, hst⟩ := hinv
  cases st with
  | none =>
    simp only at hst
    subst hst
    rw [bridgeFill_none, h1d, hrev]
    exact ffill_closed limit _ none none 0 cnt (Or.inl rfl) (Or.inl rfl)
  | some b =>
    obtain ⟨bv, bna, bc⟩ := b
    simp only at hst
    obtain ⟨hna, hcase⟩ := hst
    cases hentry : (isna (edgeCell (!false) cells d) && !bna) with
    | false =>
      rw [bridgeFill_noentry _ _ _ _ _ _ _ hentry, h1d, hrev]
      rcases hcase with ⟨_, hcl⟩ | ⟨hb, _, _⟩
      · exact ffill_closed limit _ none last 0 cnt (Or.inl rfl) hcl
      · subst hb
        simp only [Bool.not_false, Bool.and_true] at hentry
        symm
        apply ffill_head_notna
        intro x hx
        rw [List.head?_reverse] at hx
        simp only [edgeCell, if_true] at hentry
        rw [List.getLastD_eq_getLast?, hx] at hentry
        simpa using hentry
    | true =>
      have hb : bna = false := by
        cases bna with
        | false => rfl
        | true => simp at hentry
      subst hb
      rcases hcase with ⟨hb, _⟩ | ⟨_, hl, hc⟩
      · cases hb
      · subst hl
        obtain ⟨s, hs, hsn, htrail, hbeg⟩ := sidedSlice_trailing (cells.map isna)
        have hlen : (cells.map isna).length = cells.length := by simp
        rw [hlen] at hs hsn htrail
        rw [bridgeFill_bwd_entry limit bv false bc cells d s hentry hs hsn]
        simp only
        have hbe := bridgeEnd_le limit bc (cells.length - s)
        have hbe2 : bridgeEnd limit bc (cells.length - s) ≤ cells.length := Nat.le_trans hbe (Nat.sub_le _ _)
        rw [applySlices_assign_comm, h1d, assignSlice_reverse _ _ _ _ (by simp), hrev]
        · simp only [bfillSpec_length]
          rw [show cells.length - cells.length = 0 by omega,
            show cells.length - (cells.length - bridgeEnd limit bc (cells.length - s)) =
              bridgeEnd limit bc (cells.length - s) by omega]
          apply bridge_shared limit cells.reverse (cells.length - s) (by simp) _ _ bv cnt bc hc
          · intro r hr
            rw [naAt_reverse cells r (by omega), naAt_iff_sel]
            exact htrail _ (by omega) (by omega)
          · rcases hbeg with h | h
            · left; simp; omega
            · right
              obtain ⟨hs1, h⟩ := h
              obtain ⟨y, hy, hyn⟩ := sel_false_cell cells (s - 1) h
              have hs0 : s - 1 < cells.length := (List.getElem?_eq_some_iff.mp hy).1
              refine ⟨y, ?_, hyn⟩
              rw [List.getElem?_reverse (by omega), ← hy]
              congr 1; omega
        · intro sl hsl
          left
          have hsl' : sl ∈ slicesFromTargets false limit (cells.map isna) (cells.map isna).length
              (binaryTransition (cells.map isna)) := by simpa using hsl
          obtain ⟨f1, f2⟩ := bwd_slice_facts limit _ sl hsl'
          have htl := bwd_target_lt limit _ sl hsl'
          rw [hlen] at htl
          have : sl.target < s := by
            by_cases c : sl.target < s
            · exact c
            · have := htrail sl.target (by omega) htl
              rw [f2] at this; cases this
          omega

/-! ### the state after a block (spec side) -/

/-- what the spec says about the last cell of a non-empty line and the state after it -/
theorem edge_state (limit : Nat) (l' : List α) (z d : α) (last : Option α) (cnt : Nat)
    (hlast : ∀ v, last = some v → isna v = false) :
    let out := ffill isna limit (l' ++ [z]) last cnt
    let st := ffillState isna (l' ++ [z]) last cnt
    (isna z = false → out.getLastD d = z ∧ st = (some z, 0)) ∧
    (isna z = true → isna (out.getLastD d) = true → Closed limit st.1 st.2) ∧
    (isna z = true → isna (out.getLastD d) = false →
        st.1 = some (out.getLastD d) ∧ (limit ≠ 0 → st.2 ≤ limit) ∧ 1 ≤ st.2) := by
  simp only
  rw [ffill_snoc, ffillState_snoc]
  have hL := ffillState_fst_notna (isna := isna) l' last cnt hlast
  generalize (ffillState isna l' last cnt).1 = L at hL
  generalize (ffillState isna l' last cnt).2 = C
  simp only [List.getLastD_concat]
  refine ⟨?_, ?_, ?_⟩
  · intro hz; simp [hz]
  · intro hz hb
    simp only [hz, if_true] at hb ⊢
    cases L with
    | none => exact Or.inl rfl
    | some v =>
      simp only [fillOne] at hb
      by_cases c : limit = 0 ∨ C < limit
      · rw [if_pos c] at hb
        rw [hL v rfl] at hb; cases hb
      · right; omega
  · intro hz hb
    simp only [hz, if_true] at hb ⊢
    cases L with
    | none => simp only [fillOne] at hb; rw [hz] at hb; cases hb
    | some v =>
      simp only [fillOne] at hb ⊢
      by_cases c : limit = 0 ∨ C < limit
      · rw [if_pos c] at hb ⊢
        exact ⟨rfl, by omega, by omega⟩
      · rw [if_neg c] at hb; rw [hz] at hb; cases hb

/-! ### the count after a block (code side) -/

theorem innerFill_snd_nil (fwd : Bool) (limit : Nat) (cells a1 : List α) (c1 : Nat)
    (h : binaryTransition (cells.map isna) = []) :
    (innerFill isna fwd limit cells a1 c1).2 = c1 := by
  unfold innerFill; simp only [h, if_true]

theorem innerFill_snd_last (limit : Nat) (cells a1 : List α) (c1 : Nat) (sl : Sl)
    (h : binaryTransition (cells.map isna) ≠ [])
    (hs : (slicesFromTargets true limit (cells.map isna) cells.length
      (binaryTransition (cells.map isna))).getLast? = some sl) :
    (innerFill isna true limit cells a1 c1).2 = sl.stop - sl.start := by
  unfold innerFill; simp only [h, if_false, if_true, hs]

theorem innerFill_snd_head (limit : Nat) (cells a1 : List α) (c1 : Nat) (sl : Sl)
    (h : binaryTransition (cells.map isna) ≠ [])
    (hs : (slicesFromTargets false limit (cells.map isna) cells.length
      (binaryTransition (cells.map isna))).head? = some sl) :
    (innerFill isna false limit cells a1 c1).2 = sl.stop - sl.start := by
  unfold innerFill
  simp only [h, if_false, hs, Bool.false_eq_true]

theorem sel_last_of_getLastD (cells : List α) (d : α) (hne : cells ≠ []) (b : Bool)
    (h : isna (cells.getLastD d) = b) : (cells.map isna)[cells.length - 1]? = some b := by
  have hn : cells.length - 1 < cells.length := by
    have := List.length_pos_iff.mpr hne; omega
  rw [List.getLastD_eq_getLast?, List.getLast?_eq_getElem?, List.getElem?_eq_getElem hn] at h
  rw [List.getElem?_map, List.getElem?_eq_getElem hn]
  simpa using h

theorem sel_head_of_headD (cells : List α) (d : α) (hne : cells ≠ []) (b : Bool)
    (h : isna (cells.headD d) = b) : (cells.map isna)[0]? = some b := by
  cases cells with
  | nil => exact absurd rfl hne
  | cons c cs => simpa using h

theorem no_transition_of_allNA (sel : List Bool) (h : ∀ r, r < sel.length → sel[r]? = some true) :
    binaryTransition sel = [] := by
  apply List.eq_nil_iff_forall_not_mem.mpr
  intro t ht
  have h1 := ((mem_binaryTransition sel t).mp ht).1
  have h2 := h t (binaryTransition_lt sel t ht)
  rw [h1] at h2; cases h2

theorem twoD_count_fwd (limit : Nat) (st : Option (Bridge α)) (cells : List α) (d : α)
    (last : Option α) (cnt : Nat) (hne : cells ≠ []) (hinv : Inv isna limit st last cnt)
    (hz : isna (cells.getLastD d) = true) (w : α)
    (hopen : (ffillState isna cells last cnt).1 = some w)
    (hle : (ffillState isna cells last cnt).2 ≤ limit) (h0 : limit ≠ 0) :
    (innerFill isna true limit cells (bridgeFill isna true limit st cells d).1
        (bridgeFill isna true limit st cells d).2).2 = (ffillState isna cells last cnt).2 := by
  have hn : 0 < cells.length := List.length_pos_iff.mpr hne
  have hsl : (cells.map isna).length = cells.length := by simp
  have hzl := sel_last_of_getLastD cells d hne true hz
  rcases nearest_pred (cells.map isna) cells.length (by simp) with hall | ⟨q, hq, hqf, hafter⟩
  · -- the whole row is missing
    have hts := no_transition_of_allNA (cells.map isna) (by rw [hsl]; exact hall)
    rw [innerFill_snd_nil _ _ _ _ _ hts]
    have hallc : ∀ x ∈ cells, isna x = true := by
      have := all_take_na (isna := isna) cells cells.length (fun r hr => (naAt_iff_sel cells r).mpr (hall r hr))
      simpa using this
    rw [ffillState_allNA _ _ _ hallc] at hopen hle ⊢
    simp only at hopen hle ⊢
    obtain ⟨_, hst⟩ := hinv
    cases st with
    | none => simp only at hst; rw [hst] at hopen; cases hopen
    | some b =>
      obtain ⟨bv, bna, bc⟩ := b
      simp only at hst
      obtain ⟨hna, hcase⟩ := hst
      rcases hcase with ⟨_, hcl⟩ | ⟨hb, hl, hc⟩
      · rcases hcl with h | ⟨_, h⟩
        · rw [h] at hopen; cases hopen
        · omega
      · subst hb
        have hentry : (isna (edgeCell (!true) cells d) && !false) = true := by
          simp only [Bool.not_true, Bool.not_false, Bool.and_true, edgeCell, Bool.false_eq_true, if_false]
          cases cells with
          | nil => exact absurd rfl hne
          | cons c cs => exact hallc c (by simp)
        obtain ⟨k, hk, hkn, hlead, hend⟩ := sidedSlice_leading (cells.map isna)
        have hkn' : k = cells.length := by
          rcases hend with h | h
          · simpa using h
          · have hk' : k < cells.length := by
              have := (List.getElem?_eq_some_iff.mp h).1; simpa using this
            have := hall k hk'
            rw [h] at this; cases this
        rw [bridgeFill_fwd_entry limit bv false bc cells d k hentry hk]
        simp only
        rw [hkn', hc h0]
  · -- the last non-missing cell is at q < n - 1
    have hqn : q + 1 < cells.length := by
      by_cases c : q + 1 < cells.length
      · exact c
      · have : q = cells.length - 1 := by omega
        rw [this] at hqf; rw [hqf] at hzl; cases hzl
    obtain ⟨y, hy, hyn⟩ := sel_false_cell cells q hqf
    have hstate := ffillState_lastNonNA cells last cnt q y hy hyn
      (fun r h1 h2 => (naAt_iff_sel cells r).mpr (hafter r h1 h2))
    rw [hstate] at hle ⊢
    simp only at hle ⊢
    have hlast := fwd_last_slice limit (cells.map isna) q hqf (by rw [hsl]; exact hafter) (by rw [hsl]; exact hqn)
    rw [hsl] at hlast
    have hts : binaryTransition (cells.map isna) ≠ [] := by
      intro h
      rw [h, slicesFromTargets_nil] at hlast
      cases hlast
    rw [innerFill_snd_last limit cells _ _ _ hts hlast,
      trimSlice_fwd_len _ _ _ _ (by omega), if_neg (by omega)]
    omega

theorem first_nonNA (sel : List Bool) :
    (∀ r, r < sel.length → sel[r]? = some true) ∨
    ∃ q, q < sel.length ∧ sel[q]? = some false ∧ ∀ r, r < q → sel[r]? = some true := by
  have key : ∀ m, m ≤ sel.length →
      (∀ r, r < m → sel[r]? = some true) ∨
      ∃ q, q < m ∧ sel[q]? = some false ∧ ∀ r, r < q → sel[r]? = some true := by
    intro m
    induction m with
    | zero => intro _; left; intro r hr; omega
    | succ m ih =>
      intro hm
      rcases ih (by omega) with h | ⟨q, hq, hqf, hb⟩
      · have hlt : m < sel.length := by omega
        cases hv : sel[m] with
        | false => right; exact ⟨m, by omega, by rw [List.getElem?_eq_getElem hlt, hv], h⟩
        | true =>
          left
          intro r hr
          by_cases e : r = m
          · subst e; rw [List.getElem?_eq_getElem hlt, hv]
          · exact h r (by omega)
      · right; exact ⟨q, by omega, hqf, hb⟩
  rcases key sel.length (Nat.le_refl _) with h | ⟨q, hq, h⟩
  · left; exact h
  · right; exact ⟨q, hq, h⟩

theorem twoD_count_bwd (limit : Nat) (st : Option (Bridge α)) (cells : List α) (d : α)
    (last : Option α) (cnt : Nat) (hne : cells ≠ []) (hinv : Inv isna limit st last cnt)
    (hz : isna (cells.headD d) = true) (w : α)
    (hopen : (ffillState isna cells.reverse last cnt).1 = some w)
    (hle : (ffillState isna cells.reverse last cnt).2 ≤ limit) (h0 : limit ≠ 0) :
    (innerFill isna false limit cells (bridgeFill isna false limit st cells d).1
        (bridgeFill isna false limit st cells d).2).2 = (ffillState isna cells.reverse last cnt).2 := by
  have hn : 0 < cells.length := List.length_pos_iff.mpr hne
  have hsl : (cells.map isna).length = cells.length := by simp
  have hzl := sel_head_of_headD cells d hne true hz
  rcases first_nonNA (cells.map isna) with hall | ⟨q, hq, hqf, hbefore⟩
  · rw [hsl] at hall
    have hts := no_transition_of_allNA (cells.map isna) (by rw [hsl]; exact hall)
    rw [innerFill_snd_nil _ _ _ _ _ hts]
    have hallc : ∀ x ∈ cells, isna x = true := by
      have := all_take_na (isna := isna) cells cells.length (fun r hr => (naAt_iff_sel cells r).mpr (hall r hr))
      simpa using this
    have hallr : ∀ x ∈ cells.reverse, isna x = true := fun x hx => hallc x (by simpa using hx)
    rw [ffillState_allNA _ _ _ hallr] at hopen hle ⊢
    simp only [List.length_reverse] at hopen hle ⊢
    obtain ⟨_, hst⟩ := hinv
    cases st with
    | none => simp only at hst; rw [hst] at hopen; cases hopen
    | some b =>
      obtain ⟨bv, bna, bc⟩ := b
      simp only at hst
      obtain ⟨hna, hcase⟩ := hst
      rcases hcase with ⟨_, hcl⟩ | ⟨hb, hl, hc⟩
      · rcases hcl with h | ⟨_, h⟩
        · rw [h] at hopen; cases hopen
        · omega
      · subst hb
        have hentry : (isna (edgeCell (!false) cells d) && !false) = true := by
          simp only [Bool.not_false, Bool.and_true, edgeCell, if_true]
          rw [List.getLastD_eq_getLast?]
          cases hg : cells.getLast? with
          | none => rw [List.getLast?_eq_none_iff] at hg; exact absurd hg hne
          | some x => exact hallc x (List.mem_of_getLast? hg)
        obtain ⟨s, hs, hsn, htrail, hbeg⟩ := sidedSlice_trailing (cells.map isna)
        rw [hsl] at hs hsn htrail
        have hs0 : s = 0 := by
          rcases hbeg with h | ⟨h1, h⟩
          · exact h
          · have := hall (s - 1) (by omega)
            rw [h] at this; cases this
        rw [bridgeFill_bwd_entry limit bv false bc cells d s hentry hs hsn]
        simp only
        rw [hs0, hc h0]; omega
  · rw [hsl] at hq
    have hq0 : 0 < q := by
      by_cases c : 0 < q
      · exact c
      · have : q = 0 := by omega
        rw [this] at hqf; rw [hqf] at hzl; cases hzl
    obtain ⟨y, hy, hyn⟩ := sel_false_cell cells q hqf
    have hyr : cells.reverse[cells.length - 1 - q]? = some y := by rw [reverse_get cells q hq, hy]
    have hstate := ffillState_lastNonNA cells.reverse last cnt (cells.length - 1 - q) y hyr hyn
      (by
        intro r h1 h2
        simp only [List.length_reverse] at h2
        rw [naAt_reverse cells r h2, naAt_iff_sel]
        exact hbefore _ (by omega))
    rw [hstate] at hle ⊢
    simp only [List.length_reverse] at hle ⊢
    have hfirst := bwd_first_slice limit (cells.map isna) q hqf hbefore hq0
    rw [hsl] at hfirst
    have hts : binaryTransition (cells.map isna) ≠ [] := by
      intro h
      rw [h, slicesFromTargets_nil] at hfirst
      cases hfirst
    rw [innerFill_snd_head limit cells _ _ _ hts hfirst,
      trimSlice_bwd_len _ _ _ _ (by omega), if_neg (by omega)]
    omega

end SF.NA
