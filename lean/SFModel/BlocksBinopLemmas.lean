/- Helper lemmas about the operand splitting of `_ufunc_binary_operator` (BlocksBinop.lean). -/
import SFModel.BlocksBinop
import SFModel.BlocksLemmas

set_option linter.unusedSimpArgs false
set_option linter.unusedVariables false

namespace SF
open TB Binop
variable {α : Type}

@[simp] theorem Block.dt_d1 (t : DT) (c : List α) : (Block.d1 t c).dt = t := rfl
@[simp] theorem Block.dt_d2 (t : DT) (cs : List (List α)) : (Block.d2 t cs).dt = t := rfl
@[simp] theorem Block.colsOf_d1 (t : DT) (c : List α) : (Block.d1 t c).colsOf = [c] := rfl
@[simp] theorem Block.colsOf_d2 (t : DT) (cs : List (List α)) : (Block.d2 t cs).colsOf = cs := rfl
@[simp] theorem Block.width_d1 (t : DT) (c : List α) : (Block.d1 t c).width = 1 := rfl
@[simp] theorem Block.width_d2 (t : DT) (cs : List (List α)) : (Block.d2 t cs).width = cs.length := rfl

/-- per-column dtypes of a block -/
abbrev Block.dts (b : Block α) : List DT := List.replicate b.width b.dt

/-- the stored blocks of a well-formed TypeBlocks with `n` rows -/
structure GoodBlocks (n : Nat) (bs : List (Block α)) : Prop where
  pos : ∀ b ∈ bs, 0 < b.width
  rows : ∀ b ∈ bs, b.RowsOk n

theorem TB.WF.good {tb : TB α} (h : tb.WF) : GoodBlocks tb.rows tb.blocks := ⟨h.1, h.2⟩

theorem GoodBlocks.nil (n : Nat) : GoodBlocks n ([] : List (Block α)) :=
  ⟨fun _ h => (by cases h), fun _ h => (by cases h)⟩

theorem GoodBlocks.cons {n : Nat} {b : Block α} {bs : List (Block α)} (hw : 0 < b.width) (hr : b.RowsOk n)
    (h : GoodBlocks n bs) : GoodBlocks n (b :: bs) :=
  ⟨fun x hx => (by rcases List.mem_cons.mp hx with rfl | hx; exact hw; exact h.pos x hx),
   fun x hx => (by rcases List.mem_cons.mp hx with rfl | hx; exact hr; exact h.rows x hx)⟩

theorem GoodBlocks.tail {n : Nat} {b : Block α} {bs : List (Block α)} (h : GoodBlocks n (b :: bs)) :
    GoodBlocks n bs :=
  ⟨fun x hx => h.pos x (List.mem_cons_of_mem _ hx), fun x hx => h.rows x (List.mem_cons_of_mem _ hx)⟩

theorem GoodBlocks.head {n : Nat} {b : Block α} {bs : List (Block α)} (h : GoodBlocks n (b :: bs)) :
    0 < b.width ∧ b.RowsOk n := ⟨h.pos b List.mem_cons_self, h.rows b List.mem_cons_self⟩

theorem GoodBlocks.append {n : Nat} {xs ys : List (Block α)} (hx : GoodBlocks n xs) (hy : GoodBlocks n ys) :
    GoodBlocks n (xs ++ ys) :=
  ⟨fun b hb => (by rcases List.mem_append.mp hb with h | h; exact hx.pos b h; exact hy.pos b h),
   fun b hb => (by rcases List.mem_append.mp hb with h | h; exact hx.rows b h; exact hy.rows b h)⟩

/-- no block ⇔ no column, for stored blocks -/
theorem GoodBlocks.nil_iff {n : Nat} {bs : List (Block α)} (h : GoodBlocks n bs) :
    bs = [] ↔ (bs.map Block.width).sum = 0 := by
  cases bs with
  | nil => simp
  | cons b rest =>
    have := h.head.1
    simp only [List.map_cons, List.sum_cons]
    constructor
    · intro h'; cases h'
    · intro h'; omega

/-! ### `from_blocks` of stored blocks, without a shape reference -/

theorem TB.fromBlocks_go_good (n : Nat) (bs : List (Block α)) (h : GoodBlocks n bs) (rc : Option Nat)
    (acc : List (Block α)) (hrc : rc = none ∨ rc = some n) :
    TB.fromBlocks.go bs rc acc = .ok (if bs = [] then rc else some n, acc.reverse ++ bs) := by
  induction bs generalizing rc acc with
  | nil => simp [TB.fromBlocks.go]
  | cons b rest ih =>
    have ⟨hw, hr⟩ := h.head
    have hrest := h.tail
    have fin : ∀ acc' : List (Block α), TB.fromBlocks.go rest (some n) (b :: acc') =
        .ok (some n, acc'.reverse ++ b :: rest) := by
      intro acc'
      rw [ih hrest (some n) (b :: acc') (Or.inr rfl)]
      by_cases hnil : rest = [] <;> simp [hnil]
    match b, hw, hr with
    | .d1 t c, _, hr =>
      have hc : c.length = n := hr c (by simp [Block.colsOf])
      rcases hrc with rfl | rfl
      · simp only [TB.fromBlocks.go, hc, fin]; simp
      · simp only [TB.fromBlocks.go, hc, ne_eq, not_true_eq_false, if_false, fin]; simp
    | .d2 t [], hw, _ => simp [Block.width] at hw
    | .d2 t (c :: cs), _, hr =>
      have hc : c.length = n := hr c (by simp [Block.colsOf])
      have hcs : ∀ x ∈ cs, x.length = c.length := by
        intro x hx; rw [hc]; exact hr x (by simp [Block.colsOf, hx])
      have hcs' : ¬ ¬ (∀ x ∈ cs, x.length = c.length) := fun hn => hn hcs
      rcases hrc with rfl | rfl
      · simp only [TB.fromBlocks.go]
        rw [if_neg hcs', hc, fin]; simp
      · simp only [TB.fromBlocks.go]
        rw [if_neg hcs', if_neg (by simp [hc]), fin]; simp

/-- the last step of `_ufunc_binary_operator`: the result blocks become the TypeBlocks as they are;
    with no block at all `from_blocks` has no row count (ErrorInitTypeBlocks) -/
theorem TB.fromBlocks_good (n : Nat) (bs : List (Block α)) (h : GoodBlocks n bs) :
    TB.fromBlocks bs none = if bs = [] then .error .init else .ok ⟨n, bs⟩ := by
  unfold TB.fromBlocks
  rw [TB.fromBlocks_go_good n bs h none [] (Or.inl rfl)]
  by_cases hnil : bs = [] <;> simp [hnil]

/-! ### what a list of result blocks amounts to -/

/-- `rs` are stored blocks with `n` rows holding the columns `X` with the dtypes `Y` -/
structure Res (n : Nat) (rs : List (Block α)) (X : List (List α)) (Y : List DT) : Prop where
  cols : rs.flatMap Block.colsOf = X
  dts : rs.flatMap Block.dts = Y
  good : GoodBlocks n rs

theorem Res.nil (n : Nat) : Res n ([] : List (Block α)) [] [] := ⟨rfl, rfl, GoodBlocks.nil n⟩

theorem Res.cons {n : Nat} {r : Block α} {rs : List (Block α)} {x X : List (List α)} {y Y : List DT}
    (hx : r.colsOf = x) (hy : r.dts = y) (hw : 0 < r.width) (hr : r.RowsOk n) (h : Res n rs X Y) :
    Res n (r :: rs) (x ++ X) (y ++ Y) :=
  ⟨by simp [hx, h.cols], by simp [hy, h.dts], GoodBlocks.cons hw hr h.good⟩

theorem Res.append {n : Nat} {rs rs' : List (Block α)} {X X' : List (List α)} {Y Y' : List DT}
    (h : Res n rs X Y) (h' : Res n rs' X' Y') : Res n (rs ++ rs') (X ++ X') (Y ++ Y') :=
  ⟨by simp [h.cols, h'.cols], by simp [h.dts, h'.dts], h.good.append h'.good⟩

theorem Res.nil_iff {n : Nat} {rs : List (Block α)} {X : List (List α)} {Y : List DT} (h : Res n rs X Y) :
    rs = [] ↔ X = [] := by
  constructor
  · intro h'; subst h'; exact h.cols.symm
  · intro h'
    cases rs with
    | nil => rfl
    | cons r rest =>
      have hw := h.good.head.1
      have := h.cols
      rw [h', List.flatMap_cons] at this
      have hl := congrArg List.length this
      simp at hl
      omega

/-- the TypeBlocks `from_blocks` makes of result blocks -/
theorem Res.fromBlocks {n : Nat} {rs : List (Block α)} {X : List (List α)} {Y : List DT} (h : Res n rs X Y) :
    TB.fromBlocks rs none = if X = [] then .error .init else .ok ⟨n, rs⟩ := by
  rw [TB.fromBlocks_good n rs h.good]
  by_cases hx : X = []
  · rw [if_pos hx, if_pos (h.nil_iff.mpr hx)]
  · rw [if_neg hx, if_neg (fun hr => hx (h.nil_iff.mp hr))]

theorem Res.wf {n : Nat} {rs : List (Block α)} {X : List (List α)} {Y : List DT} (h : Res n rs X Y) :
    (⟨n, rs⟩ : TB α).WF := ⟨h.good.pos, h.good.rows⟩

/-! ### blocks -/

theorem Block.column2d_eq (b : Block α) : b.column2d = .d2 b.dt b.colsOf := by cases b <;> rfl

theorem Block.operand_column2d (b : Block α) :
    (b.toOperand.1, b.toOperand.2.column2d) = (b.dt, Arr.a2 b.colsOf) := by cases b <;> rfl

theorem Block.width_pos_colsOf {b : Block α} (h : 0 < b.width) : b.colsOf ≠ [] := by
  intro h'; have := Block.colsOf_length b; rw [h'] at this; simp at this; omega


/-! ### list helpers -/

theorem mem_zipWith_exists {β γ δ : Type} (f : β → γ → δ) (l₁ : List β) (l₂ : List γ) (x : δ)
    (h : x ∈ List.zipWith f l₁ l₂) : ∃ a ∈ l₁, ∃ b ∈ l₂, x = f a b := by
  induction l₁ generalizing l₂ with
  | nil => simp at h
  | cons a as ih =>
    cases l₂ with
    | nil => simp at h
    | cons b bs =>
      simp only [List.zipWith_cons_cons, List.mem_cons] at h
      rcases h with rfl | h
      · exact ⟨a, by simp, b, by simp, rfl⟩
      · obtain ⟨a', ha', b', hb', hx⟩ := ih bs h
        exact ⟨a', by simp [ha'], b', by simp [hb'], hx⟩

theorem chop_eq {β : Type} (l : List β) (start w : Nat) : chop l (start, start + w) = (l.drop start).take w := by
  simp [chop]

theorem drop_split {β : Type} (l : List β) (start w : Nat) :
    l.drop start = (l.drop start).take w ++ l.drop (start + w) := by
  rw [← List.drop_drop, List.take_append_drop]

theorem length_take_drop {β : Type} (l : List β) (start w : Nat) (h : start + w ≤ l.length) :
    ((l.drop start).take w).length = w := by
  simp; omega

/-! ### `apply_binary_operator` on the operand pairs of each route -/

section apply
variable (op : α → α → α) (opDT : DT → DT → DT)

/-- two 2-D operands of equal shape (after `column_2d_filter`) -/
theorem applyOp_2d (a : Block α) (t' : DT) (cs' : List (List α)) (n : Nat)
    (hw : a.width = cs'.length) (ha : a.RowsOk n) (hb : ∀ c ∈ cs', c.length = n) :
    applyOp op opDT a.column2d (t', .a2 cs') =
      .ok (.d2 (opDT a.dt t') (List.zipWith (List.zipWith op) a.colsOf cs')) := by
  rw [Block.column2d_eq]
  simp only [applyOp, Block.dt]
  rw [if_pos]
  refine ⟨by rw [Block.colsOf_length, hw], ?_⟩
  intro p hp
  obtain ⟨x, y⟩ := p
  obtain ⟨hx, hy⟩ := List.of_mem_zip hp
  show x.length = y.length
  rw [ha x hx, hb y hy]

theorem rowsOk_zipWith (t : DT) (A B : List (List α)) (n : Nat) (hA : ∀ c ∈ A, c.length = n)
    (hB : ∀ c ∈ B, c.length = n) : (Block.d2 t (List.zipWith (List.zipWith op) A B)).RowsOk n := by
  intro c hc
  obtain ⟨x, hx, y, hy, rfl⟩ := mem_zipWith_exists _ _ _ _ hc
  simp [hA x hx, hB y hy]

/-- widths agree block by block -/
def Aligned : List (Block α) → List (Block α) → Prop
  | [], [] => True
  | a :: as, b :: bs => a.width = b.width ∧ Aligned as bs
  | _, _ => False

theorem Aligned.length_eq {as bs : List (Block α)} (h : Aligned as bs) : as.length = bs.length := by
  induction as generalizing bs with
  | nil => cases bs with
    | nil => rfl
    | cons b bs => simp [Aligned] at h
  | cons a as ih => cases bs with
    | nil => simp [Aligned] at h
    | cons b bs =>
      simp only [Aligned] at h
      simp [ih h.2]

/-- the TypeBlocks routes: aligned block lists meet pairwise, every result is 2-D -/
theorem applyGo_aligned (n : Nat) (as bs : List (Block α)) (hal : Aligned as bs)
    (ha : GoodBlocks n as) (hb : GoodBlocks n bs) :
    ∃ rs, applyBlocksGo op opDT (as.map Block.column2d)
        (bs.map fun b => (b.toOperand.1, b.toOperand.2.column2d)) = .ok rs ∧
      Res n rs (List.zipWith (List.zipWith op) (as.flatMap Block.colsOf) (bs.flatMap Block.colsOf))
        (List.zipWith opDT (as.flatMap Block.dts) (bs.flatMap Block.dts)) := by
  induction as generalizing bs with
  | nil =>
    cases bs with
    | nil => exact ⟨[], rfl, Res.nil n⟩
    | cons b bs => simp [Aligned] at hal
  | cons a as ih =>
    cases bs with
    | nil => simp [Aligned] at hal
    | cons b bs =>
      simp only [Aligned] at hal
      obtain ⟨hw, hal'⟩ := hal
      obtain ⟨rs, hrs, hres⟩ := ih bs hal' ha.tail hb.tail
      have hbr : ∀ c ∈ b.colsOf, c.length = n := hb.head.2
      simp only [List.map_cons, applyBlocksGo]
      rw [Block.operand_column2d, applyOp_2d op opDT a b.dt b.colsOf n (by simp [hw]) ha.head.2 hbr, hrs]
      refine ⟨_ :: rs, rfl, ?_⟩
      simp only [List.flatMap_cons]
      rw [List.zipWith_append (by simp [hw]), List.zipWith_append (by simp [hw])]
      refine Res.cons rfl ?_ ?_ (rowsOk_zipWith op _ _ _ n ha.head.2 hbr) hres
      · simp [Block.dts, Block.width, Block.dt, List.zipWith_replicate, hw]
      · have := ha.head.1
        show 0 < (List.zipWith (List.zipWith op) a.colsOf b.colsOf).length
        rw [List.length_zipWith, Block.colsOf_length, Block.colsOf_length, ← hw]
        omega

/-- a scalar operand: a 0-d array or a one-element 1-D array -/
theorem applyOp_scalar (b : Block α) (dt : DT) (v : α) (o : Arr α) (ho : o = .a0 v ∨ o = .a1 [v]) :
    ∃ r, applyOp op opDT b (dt, o) = .ok r ∧ r.colsOf = b.colsOf.map (·.map (op · v)) ∧
      r.dts = b.dts.map (opDT · dt) ∧ r.width = b.width ∧ ∀ n, b.RowsOk n → r.RowsOk n := by
  cases b with
  | d1 t c =>
    refine ⟨.d1 (opDT t dt) (c.map (op · v)), ?_, rfl, by simp [Block.dts, Block.width, Block.dt], rfl, ?_⟩
    · rcases ho with rfl | rfl <;> simp [applyOp, Block.dt]
    · intro n h x hx
      simp only [Block.colsOf, List.mem_singleton] at hx
      subst hx
      simpa using h c (by simp [Block.colsOf])
  | d2 t cs =>
    refine ⟨.d2 (opDT t dt) (cs.map (·.map (op · v))), ?_, rfl, by simp [Block.dts, Block.width, Block.dt], by simp [Block.width], ?_⟩
    · rcases ho with rfl | rfl <;> simp [applyOp, Block.dt]
    · intro n h x hx
      simp only [Block.colsOf, List.mem_map] at hx
      obtain ⟨c, hc, rfl⟩ := hx
      simpa using h c (by simpa [Block.colsOf] using hc)

theorem applyGo_scalar (n : Nat) (bs : List (Block α)) (dt : DT) (v : α) (o : Arr α)
    (ho : o = .a0 v ∨ o = .a1 [v]) (hb : GoodBlocks n bs) :
    ∃ rs, applyBlocksGo op opDT bs (List.replicate bs.length (dt, o)) = .ok rs ∧
      Res n rs ((bs.flatMap Block.colsOf).map (·.map (op · v))) ((bs.flatMap Block.dts).map (opDT · dt)) := by
  induction bs with
  | nil => exact ⟨[], rfl, Res.nil n⟩
  | cons b bs ih =>
    obtain ⟨rs, hrs, hres⟩ := ih hb.tail
    obtain ⟨r, hr, hc, hd, hw, hrows⟩ := applyOp_scalar op opDT b dt v o ho
    simp only [List.length_cons, List.replicate_succ, applyBlocksGo, hr, hrs]
    refine ⟨_ :: rs, rfl, ?_⟩
    simp only [List.flatMap_cons, List.map_append]
    exact Res.cons hc hd (by rw [hw]; exact hb.head.1) (hrows n hb.head.2) hres

/-- a block against the piece of a 1-D array that `_block_shape_slices` cuts for it: element `j` of
    the piece meets column `j` of the block -/
theorem applyOp_rows (b : Block α) (dt : DT) (chunk : List α) (h : chunk.length = b.width) :
    ∃ r, applyOp op opDT b (dt, .a1 chunk) = .ok r ∧
      r.colsOf = List.zipWith (fun col v => col.map (op · v)) b.colsOf chunk ∧
      r.dts = b.dts.map (opDT · dt) ∧ r.width = b.width ∧ ∀ n, b.RowsOk n → r.RowsOk n := by
  cases b with
  | d1 t c =>
    match chunk, h with
    | [v], _ =>
      refine ⟨.d1 (opDT t dt) (c.map (op · v)), by simp [applyOp, Block.dt], rfl,
        by simp [Block.dts, Block.width, Block.dt], rfl, ?_⟩
      intro n h x hx
      simp only [Block.colsOf, List.mem_singleton] at hx
      subst hx
      simpa using h c (by simp [Block.colsOf])
  | d2 t cs =>
    have hrows : ∀ n, (Block.d2 t cs).RowsOk n →
        (Block.d2 (opDT t dt) (List.zipWith (fun col v => col.map (op · v)) cs chunk)).RowsOk n := by
      intro n h x hx
      obtain ⟨c, hc, v, _, rfl⟩ := mem_zipWith_exists _ _ _ _ hx
      simpa using h c (by simpa [Block.colsOf] using hc)
    have hlen : chunk.length = cs.length := h
    match chunk, hlen, hrows with
    | [v], hlen, hrows =>
      match cs, hlen, hrows with
      | [c], _, hrows =>
        exact ⟨.d2 (opDT t dt) [c.map (op · v)], by simp [applyOp, Block.dt], rfl,
          by simp [Block.dts, Block.width, Block.dt], rfl, by simpa using hrows⟩
    | [], hlen, hrows =>
      refine ⟨_, by simp [applyOp, Block.dt, ← hlen], rfl, ?_, ?_, hrows⟩
      · simp [Block.dts, Block.width, Block.dt, ← hlen]
      · simp [Block.width, ← hlen]
    | v :: w :: rest, hlen, hrows =>
      refine ⟨_, by simp [applyOp, Block.dt, hlen], rfl, ?_, ?_, hrows⟩
      · simp [Block.dts, Block.width, Block.dt, ← hlen]
      · simp [Block.width, ← hlen]


/-- the axis-0 route: the 1-D array chopped by `_block_shape_slices` (from column `start` on) -/
theorem applyGo_rows (n : Nat) (bs : List (Block α)) (dt : DT) (vs : List α) (start : Nat)
    (hlen : vs.length = start + (bs.map Block.width).sum) (hb : GoodBlocks n bs) :
    ∃ rs, applyBlocksGo op opDT bs ((blockShapeSlicesGo bs start).map fun s => (dt, Arr.a1 (chop vs s))) = .ok rs ∧
      Res n rs (List.zipWith (fun col v => col.map (op · v)) (bs.flatMap Block.colsOf) (vs.drop start))
        ((bs.flatMap Block.dts).map (opDT · dt)) := by
  induction bs generalizing start with
  | nil => exact ⟨[], rfl, by simpa using Res.nil n⟩
  | cons b bs ih =>
    simp only [List.map_cons, List.sum_cons] at hlen
    obtain ⟨rs, hrs, hres⟩ := ih (start + b.width) (by omega) hb.tail
    have hcl : ((vs.drop start).take b.width).length = b.width := length_take_drop vs start b.width (by omega)
    obtain ⟨r, hr, hc, hd, hw, hrows⟩ := applyOp_rows op opDT b dt ((vs.drop start).take b.width) hcl
    simp only [blockShapeSlicesGo, List.map_cons, applyBlocksGo, chop_eq, hr, hrs]
    refine ⟨_ :: rs, rfl, ?_⟩
    simp only [List.flatMap_cons, List.map_append]
    rw [drop_split vs start b.width, List.zipWith_append (by simp [hcl])]
    exact Res.cons hc hd (by rw [hw]; exact hb.head.1) (hrows n hb.head.2) hres

/-- the 2-D array route: the array chopped by `_block_shape_slices` along its columns, both sides
    through `column_2d_filter` -/
theorem applyGo_array2d (n : Nat) (bs : List (Block α)) (dt : DT) (cs' : List (List α)) (start : Nat)
    (hlen : cs'.length = start + (bs.map Block.width).sum) (hcs : ∀ c ∈ cs', c.length = n)
    (hb : GoodBlocks n bs) :
    ∃ rs, applyBlocksGo op opDT (bs.map Block.column2d)
        ((blockShapeSlicesGo bs start).map fun s => (dt, Arr.a2 (chop cs' s))) = .ok rs ∧
      Res n rs (List.zipWith (List.zipWith op) (bs.flatMap Block.colsOf) (cs'.drop start))
        ((bs.flatMap Block.dts).map (opDT · dt)) := by
  induction bs generalizing start with
  | nil => exact ⟨[], rfl, by simpa using Res.nil n⟩
  | cons b bs ih =>
    simp only [List.map_cons, List.sum_cons] at hlen
    obtain ⟨rs, hrs, hres⟩ := ih (start + b.width) (by omega) hb.tail
    have hcl : ((cs'.drop start).take b.width).length = b.width := length_take_drop cs' start b.width (by omega)
    have hch : ∀ c ∈ (cs'.drop start).take b.width, c.length = n :=
      fun c hc => hcs c (List.mem_of_mem_drop (List.mem_of_mem_take hc))
    have hsplit := drop_split cs' start b.width
    obtain ⟨chunk, hchunk⟩ : ∃ chunk, chunk = (cs'.drop start).take b.width := ⟨_, rfl⟩
    rw [← hchunk] at hcl hch hsplit
    simp only [blockShapeSlicesGo, List.map_cons, applyBlocksGo, chop_eq, ← hchunk]
    rw [applyOp_2d op opDT b dt _ n hcl.symm hb.head.2 hch, hrs]
    refine ⟨_ :: rs, rfl, ?_⟩
    simp only [List.flatMap_cons, List.map_append]
    rw [hsplit, List.zipWith_append (by simp [hcl])]
    refine Res.cons rfl ?_ ?_ (rowsOk_zipWith op _ _ _ n hb.head.2 hch) hres
    · simp [Block.dts, Block.width, Block.dt, hcl]
    · have := hb.head.1
      show 0 < (List.zipWith (List.zipWith op) b.colsOf chunk).length
      rw [List.length_zipWith, Block.colsOf_length, hcl]
      omega

/-- one column against the whole 1-D array of its length -/
theorem applyOp_column (t dt : DT) (c vs : List α) (h : vs.length = c.length) :
    applyOp op opDT (.d1 t c) (dt, .a1 vs) = .ok (.d1 (opDT t dt) (List.zipWith op c vs)) := by
  match vs, h with
  | [v], h =>
    match c, h with
    | [x], _ => simp [applyOp, Block.dt]
  | [], h => simp [applyOp, Block.dt, ← h]
  | v :: w :: rest, h => simp [applyOp, Block.dt, h]

theorem applyEach_append (o : DT × Arr α) (xs ys : List (Block α)) :
    applyEach op opDT o (xs ++ ys) =
      match applyEach op opDT o xs with
      | .error e => .error e
      | .ok rs => match applyEach op opDT o ys with
        | .error e => .error e
        | .ok rs' => .ok (rs ++ rs') := by
  induction xs with
  | nil => simp only [List.nil_append, applyEach]; cases applyEach op opDT o ys <;> rfl
  | cons x xs ih =>
    simp only [List.cons_append, applyEach, ih]
    cases applyOp op opDT x o with
    | error e => rfl
    | ok r =>
      cases applyEach op opDT o xs with
      | error e => rfl
      | ok rs => cases applyEach op opDT o ys <;> rfl

/-- the columns of one 2-D block of dtype `t` against the vector -/
theorem applyEach_columns (n : Nat) (t dt : DT) (cs : List (List α)) (vs : List α) (hv : vs.length = n)
    (hcs : ∀ c ∈ cs, c.length = n) :
    ∃ rs, applyEach op opDT (dt, .a1 vs) (cs.map (Block.d1 t)) = .ok rs ∧
      Res n rs (cs.map fun c => List.zipWith op c vs) (List.replicate cs.length (opDT t dt)) := by
  induction cs with
  | nil => exact ⟨[], rfl, Res.nil n⟩
  | cons c cs ih =>
    obtain ⟨rs, hrs, hres⟩ := ih (fun x hx => hcs x (List.mem_cons_of_mem _ hx))
    have hc : c.length = n := hcs c List.mem_cons_self
    simp only [List.map_cons, applyEach, applyOp_column op opDT t dt c vs (by rw [hv, hc]), hrs]
    refine ⟨_ :: rs, rfl, ?_⟩
    have := Res.cons (r := Block.d1 (opDT t dt) (List.zipWith op c vs)) (n := n) rfl rfl (by simp [Block.width])
      (by intro x hx; simp only [Block.colsOf, List.mem_singleton] at hx; subst hx; simp [hc, hv]) hres
    simpa [Block.dts, Block.width, Block.dt, Block.colsOf, List.replicate_succ] using this

/-- the axis-1 route: every column against the vector, every result 1-D -/
theorem applyColumnar_spec (n : Nat) (bs : List (Block α)) (dt : DT) (vs : List α) (hv : vs.length = n)
    (hb : GoodBlocks n bs) :
    ∃ rs, applyColumnar op opDT bs dt vs = .ok rs ∧
      Res n rs ((bs.flatMap Block.colsOf).map fun c => List.zipWith op c vs)
        ((bs.flatMap Block.dts).map (opDT · dt)) := by
  unfold applyColumnar
  induction bs with
  | nil => exact ⟨[], rfl, Res.nil n⟩
  | cons b bs ih =>
    obtain ⟨rs, hrs, hres⟩ := ih hb.tail
    have hbr := hb.head.2
    cases b with
    | d1 t c =>
      obtain ⟨r1, h1, hres1⟩ := applyEach_columns op opDT n t dt [c] vs hv (by simpa [Block.RowsOk, Block.colsOf] using hbr)
      have : columnarUnits (Block.d1 t c :: bs) = [c].map (Block.d1 t) ++ columnarUnits bs := rfl
      rw [this, applyEach_append, h1, hrs]
      refine ⟨r1 ++ rs, rfl, ?_⟩
      simpa [Block.colsOf, Block.dts, Block.width, Block.dt] using hres1.append hres
    | d2 t cs =>
      obtain ⟨r1, h1, hres1⟩ := applyEach_columns op opDT n t dt cs vs hv (by simpa [Block.RowsOk, Block.colsOf] using hbr)
      have : columnarUnits (Block.d2 t cs :: bs) = cs.map (Block.d1 t) ++ columnarUnits bs := rfl
      rw [this, applyEach_append, h1, hrs]
      refine ⟨r1 ++ rs, rfl, ?_⟩
      simpa [Block.colsOf, Block.dts, Block.width, Block.dt] using hres1.append hres

end apply

/-! ### `consolidate_blocks` / `_reblock`, `_reblock_signature` -/

theorem TB.yieldGroup_colsOf (group : List (Block α)) (g : DT) :
    (yieldGroup group g).colsOf = group.flatMap Block.colsOf := by
  unfold yieldGroup
  split
  · simp
  · rfl

theorem TB.yieldGroup_dt (group : List (Block α)) (g : DT) (h : ∀ x ∈ group, x.dt = g) :
    (yieldGroup group g).dt = g := by
  unfold yieldGroup
  split
  · exact h _ (by simp)
  · rfl

theorem TB.yieldGroup_width (group : List (Block α)) (g : DT) :
    (yieldGroup group g).width = (group.map Block.width).sum := by
  rw [← Block.colsOf_length, yieldGroup_colsOf, flatMap_length_eq_sum]
  simp

theorem sum_width_pos {group : List (Block α)} (hne : group ≠ []) (hpos : ∀ b ∈ group, 0 < b.width) :
    0 < (group.map Block.width).sum := by
  cases group with
  | nil => exact absurd rfl hne
  | cons b rest =>
    have := hpos b List.mem_cons_self
    simp only [List.map_cons, List.sum_cons]
    omega

theorem flatMap_dts_uniform (group : List (Block α)) (g : DT) (h : ∀ x ∈ group, x.dt = g) :
    group.flatMap Block.dts = List.replicate (group.map Block.width).sum g := by
  induction group with
  | nil => rfl
  | cons b rest ih =>
    simp only [List.flatMap_cons, List.map_cons, List.sum_cons, Block.dts]
    rw [h b List.mem_cons_self, ih (fun x hx => h x (List.mem_cons_of_mem _ hx)),
      List.replicate_append_replicate]

/-- the invariant of the generator state: once a block was seen the group is not empty and holds
    blocks of the group dtype only -/
def TB.StOk (n : Nat) : Option (DT × List (Block α)) → Prop
  | none => True
  | some (g, group) => group ≠ [] ∧ (∀ x ∈ group, x.dt = g) ∧ GoodBlocks n group

def TB.stCols : Option (DT × List (Block α)) → List (List α)
  | none => []
  | some (_, group) => group.flatMap Block.colsOf

def TB.stDts : Option (DT × List (Block α)) → List DT
  | none => []
  | some (_, group) => group.flatMap Block.dts

theorem TB.yieldGroup_res (n : Nat) (g : DT) (group : List (Block α)) (h : StOk n (some (g, group))) :
    (yieldGroup group g).colsOf = group.flatMap Block.colsOf ∧
    (yieldGroup group g).dts = group.flatMap Block.dts ∧
    0 < (yieldGroup group g).width ∧ (yieldGroup group g).RowsOk n := by
  obtain ⟨hne, hd, hgood⟩ := h
  refine ⟨yieldGroup_colsOf group g, ?_, ?_, ?_⟩
  · rw [flatMap_dts_uniform group g hd, Block.dts, yieldGroup_dt group g hd, yieldGroup_width]
  · rw [yieldGroup_width]; exact sum_width_pos hne hgood.pos
  · intro c hc
    rw [yieldGroup_colsOf, List.mem_flatMap] at hc
    obtain ⟨b, hb, hcb⟩ := hc
    exact hgood.rows b hb c hcb

/-- consolidation keeps the columns, their dtypes and the row count, and yields stored blocks -/
theorem TB.consolidateGo_res (n : Nat) (rest : List (Block α)) (st : Option (DT × List (Block α)))
    (hr : GoodBlocks n rest) (hs : StOk n st) :
    Res n (consolidateGo rest st) (stCols st ++ rest.flatMap Block.colsOf) (stDts st ++ rest.flatMap Block.dts) := by
  induction rest generalizing st with
  | nil =>
    match st, hs with
    | none, _ => exact Res.nil n
    | some (g, group), hs =>
      obtain ⟨h1, h2, h3, h4⟩ := yieldGroup_res n g group hs
      have hne : group.isEmpty = false := by
        cases group with
        | nil => exact absurd rfl hs.1
        | cons _ _ => rfl
      simp only [consolidateGo, hne, Bool.false_eq_true, if_false, stCols, stDts, List.flatMap_nil, List.append_nil]
      have := Res.cons h1 h2 h3 h4 (Res.nil n)
      simpa using this
  | cons b rest ih =>
    have hb := hr.head
    match st, hs with
    | none, _ =>
      have := ih (some (b.dt, [b])) hr.tail ⟨by simp, by simp, GoodBlocks.cons hb.1 hb.2 (GoodBlocks.nil n)⟩
      simpa [consolidateGo, stCols, stDts] using this
    | some (g, group), hs =>
      simp only [consolidateGo]
      split
      · have := ih (some (b.dt, [b])) hr.tail ⟨by simp, by simp, GoodBlocks.cons hb.1 hb.2 (GoodBlocks.nil n)⟩
        obtain ⟨h1, h2, h3, h4⟩ := yieldGroup_res n g group hs
        have := Res.cons h1 h2 h3 h4 this
        simpa [stCols, stDts] using this
      · rename_i hdt
        have hdt' : b.dt = g := by simpa using hdt
        have := ih (some (g, group ++ [b])) hr.tail
          ⟨by simp, by
            intro x hx
            rcases List.mem_append.mp hx with hx | hx
            · exact hs.2.1 x hx
            · simp only [List.mem_singleton] at hx; subst hx; exact hdt',
           hs.2.2.append (GoodBlocks.cons hb.1 hb.2 (GoodBlocks.nil n))⟩
        simpa [stCols, stDts] using this

theorem TB.reblock_res (tb : TB α) (h : tb.WF) : Res tb.rows tb.reblock tb.cols tb.dtypes := by
  have := consolidateGo_res tb.rows tb.blocks none h.good trivial
  simpa [stCols, stDts, reblock, consolidateBlocks, cols, dtypes, Block.dts] using this

/-- what `_reblock_signature` says of one re-blocked block -/
def Block.sigOf (b : Block α) : Option DT × Nat := (some b.dt, b.width)

theorem TB.reblockSignatureGo_eq (n : Nat) (rest : List (Block α)) (g : DT) (group : List (Block α)) (gc : Nat)
    (hr : GoodBlocks n rest) (hs : StOk n (some (g, group))) (hgc : gc = (group.map Block.width).sum) :
    reblockSignatureGo rest (some g) gc = (consolidateGo rest (some (g, group))).map Block.sigOf := by
  induction rest generalizing g group gc with
  | nil =>
    subst hgc
    have hpos : (group.map Block.width).sum > 0 := sum_width_pos hs.1 hs.2.2.pos
    have hne : group.isEmpty = false := by
      cases group with
      | nil => exact absurd rfl hs.1
      | cons _ _ => rfl
    simp only [reblockSignatureGo, hpos, if_true, consolidateGo, hne, Bool.false_eq_true, if_false, List.map_cons,
      List.map_nil, Block.sigOf, yieldGroup_dt group g hs.2.1, yieldGroup_width]
  | cons b rest ih =>
    have hb := hr.head
    have hone : StOk n (some (b.dt, [b])) := ⟨by simp, by simp, GoodBlocks.cons hb.1 hb.2 (GoodBlocks.nil n)⟩
    simp only [reblockSignatureGo, consolidateGo]
    split
    · rw [ih b.dt [b] (0 + b.width) hr.tail hone (by simp)]
      simp only [List.map_cons, Block.sigOf, yieldGroup_dt group g hs.2.1, yieldGroup_width, hgc]
    · rename_i hdt
      have hdt' : b.dt = g := by simpa using hdt
      refine ih g (group ++ [b]) (gc + b.width) hr.tail ⟨by simp, ?_, hs.2.2.append (GoodBlocks.cons hb.1 hb.2 (GoodBlocks.nil n))⟩
        (by simp [hgc])
      intro x hx
      rcases List.mem_append.mp hx with hx | hx
      · exact hs.2.1 x hx
      · simp only [List.mem_singleton] at hx; subst hx; exact hdt'

/-- `_reblock_signature` anticipates `_reblock` exactly: dtype and width of every block it will yield -/
theorem TB.reblockSignature_eq (tb : TB α) (h : tb.WF) : tb.reblockSignature = tb.reblock.map Block.sigOf := by
  unfold reblockSignature reblock consolidateBlocks
  have hg := h.good
  generalize tb.blocks = bs at hg
  cases bs with
  | nil => simp [reblockSignatureGo, consolidateGo]
  | cons b rest =>
    have hb := hg.head
    simp only [reblockSignatureGo, consolidateGo]
    exact reblockSignatureGo_eq tb.rows rest b.dt [b] (0 + b.width) hg.tail
      ⟨by simp, by simp, GoodBlocks.cons hb.1 hb.2 (GoodBlocks.nil _)⟩ (by simp)

theorem TB.signaturesCompatible_aligned (xs ys : List (Block α))
    (h : signaturesCompatible (xs.map Block.sigOf) (ys.map Block.sigOf) = true) : Aligned xs ys := by
  induction xs generalizing ys with
  | nil => cases ys with
    | nil => trivial
    | cons y ys => simp [signaturesCompatible] at h
  | cons x xs ih => cases ys with
    | nil => simp [signaturesCompatible] at h
    | cons y ys =>
      simp only [List.map_cons, signaturesCompatible, Block.sigOf] at h
      split at h
      · cases h
      · rename_i hw
        exact ⟨by simpa using hw, ih ys h⟩

theorem TB.blockCompatibleGo_aligned (as bs : List (Block α)) (h : blockCompatibleGo as bs = true) :
    Aligned as bs := by
  induction as generalizing bs with
  | nil => cases bs with
    | nil => trivial
    | cons y ys => simp [blockCompatibleGo] at h
  | cons x xs ih => cases bs with
    | nil => simp [blockCompatibleGo] at h
    | cons y ys =>
      simp only [blockCompatibleGo] at h
      split at h
      · cases h
      · rename_i hw
        have hw' : x.shapeFilter = y.shapeFilter := by simpa using hw
        exact ⟨congrArg Prod.snd hw', ih ys h⟩

theorem TB.blockCompatible_spec (a b : TB α) (h : a.blockCompatible b = true) :
    a.shape = b.shape ∧ Aligned a.blocks b.blocks := by
  unfold blockCompatible at h
  split at h
  · cases h
  · rename_i hs
    exact ⟨by simpa using hs, blockCompatibleGo_aligned _ _ h⟩

theorem TB.reblockCompatible_aligned (a b : TB α) (ha : a.WF) (hb : b.WF) (h : a.reblockCompatible b = true) :
    Aligned a.reblock b.reblock := by
  unfold reblockCompatible at h
  split at h
  · cases h
  · rw [reblockSignature_eq a ha, reblockSignature_eq b hb] at h
    exact signaturesCompatible_aligned _ _ h

/-! ### `values` -/

/-- the columns of `values`: converted to the row dtype unless exactly one block is stored -/
theorem TB.values_colsOf (cast : DT → DT → α → α) (tb : TB α) (rd : DT) :
    (tb.values cast rd).colsOf =
      match tb.blocks with
      | [b] => b.colsOf
      | bs => bs.flatMap fun b => b.colsOf.map (·.map (cast b.dt rd)) := by
  unfold values blocksToArray
  generalize tb.blocks = bs
  match bs with
  | [] => rfl
  | [b] => simp [Block.column2d_eq, Block.colsOf, Block.dt]
  | _ :: _ :: _ => rfl

theorem TB.values_dt (cast : DT → DT → α → α) (tb : TB α) (rd : DT) :
    (tb.values cast rd).dt = match tb.blocks with | [b] => b.dt | _ => rd := by
  unfold values blocksToArray
  generalize tb.blocks = bs
  match bs with
  | [] => rfl
  | [b] => simp [Block.column2d_eq, Block.colsOf, Block.dt]
  | _ :: _ :: _ => rfl

theorem TB.values_colsOf_of_exact (cast : DT → DT → α → α) (hcast : ∀ d e x, cast d e x = x) (tb : TB α) (rd : DT) :
    (tb.values cast rd).colsOf = tb.cols := by
  rw [values_colsOf]
  have hid : ∀ (b : Block α), b.colsOf.map (·.map (cast b.dt rd)) = b.colsOf := by
    intro b
    have : (fun x => cast b.dt rd x) = id := funext (hcast b.dt rd)
    simp [this]
  split
  · rename_i b heq; simp [cols, heq]
  · simp [cols, hid]

theorem TB.values_good (cast : DT → DT → α → α) (tb : TB α) (rd : DT) (h : tb.WF) (hpos : 0 < tb.ncols) :
    (tb.values cast rd).width = tb.ncols ∧ GoodBlocks tb.rows [tb.values cast rd] := by
  have hw : (tb.values cast rd).width = tb.ncols := by
    rw [← Block.colsOf_length, values_colsOf]
    split
    · rename_i b heq; simp [ncols, heq]
    · rw [flatMap_length_eq_sum]; simp [ncols]
  refine ⟨hw, GoodBlocks.cons (by omega) ?_ (GoodBlocks.nil _)⟩
  intro c hc
  rw [values_colsOf] at hc
  split at hc
  · rename_i b heq
    exact h.2 b (by simp [heq]) c hc
  · rw [List.mem_flatMap] at hc
    obtain ⟨b, hb, hcb⟩ := hc
    rw [List.mem_map] at hcb
    obtain ⟨c0, hc0, rfl⟩ := hcb
    simpa using h.2 b hb c0 hc0

/-! ### the generator `consolidate_blocks` against the recursive `TB.consolidate` of Blocks.lean -/

theorem TB.consolidate_cons_head (b : Block α) (rest : List (Block α)) :
    ∃ r rs, consolidate (b :: rest) = r :: rs ∧ r.dt = b.dt := by
  simp only [consolidate]
  split
  · exact ⟨b, [], rfl, rfl⟩
  · rename_i r rs _
    split
    · exact ⟨_, _, rfl, rfl⟩
    · exact ⟨_, _, rfl, rfl⟩

/-- a non-empty run of blocks of dtype `g` in front of anything: `TB.consolidate` merges the run, and
    merges it with the first block of the consolidated remainder when that has dtype `g` too -/
theorem TB.consolidate_group (g : DT) (group tail : List (Block α)) (hne : group ≠ [])
    (hd : ∀ x ∈ group, x.dt = g) :
    consolidate (group ++ tail) =
      match consolidate tail with
      | [] => [yieldGroup group g]
      | r :: rs =>
        if g = r.dt then .d2 g (group.flatMap Block.colsOf ++ r.colsOf) :: rs
        else yieldGroup group g :: r :: rs := by
  induction group with
  | nil => exact absurd rfl hne
  | cons b more ih =>
    have hb : b.dt = g := hd b List.mem_cons_self
    cases more with
    | nil =>
      simp only [List.cons_append, List.nil_append, consolidate, yieldGroup, hb]
      cases consolidate tail with
      | nil => rfl
      | cons r rs => simp
    | cons b' more' =>
      have ih' := ih (by simp) (fun x hx => hd x (List.mem_cons_of_mem _ hx))
      have hy : yieldGroup (b :: b' :: more') g = .d2 g ((b :: b' :: more').flatMap Block.colsOf) := rfl
      have hy' : yieldGroup (b' :: more') g = .d2 g ((b' :: more').flatMap Block.colsOf) ∨
          (more' = [] ∧ yieldGroup (b' :: more') g = b') := by
        cases more' with
        | nil => exact Or.inr ⟨rfl, rfl⟩
        | cons _ _ => exact Or.inl rfl
      have hyc := yieldGroup_colsOf (b' :: more') g
      have hyd := yieldGroup_dt (b' :: more') g (fun x hx => hd x (List.mem_cons_of_mem _ hx))
      rw [List.cons_append, consolidate, ih']
      cases consolidate tail with
      | nil =>
        simp only [hb, hyd, if_true, hy, hyc]
        simp
      | cons r rs =>
        by_cases hg : g = r.dt
        · simp only [if_pos hg, Block.dt_d2, Block.colsOf_d2, hb, if_true, List.flatMap_cons, List.append_assoc]
        · simp only [if_neg hg, hb, hyd, if_true, hy, hyc, List.flatMap_cons, List.append_assoc]

theorem TB.consolidateGo_eq_consolidate (rest : List (Block α)) (g : DT) (group : List (Block α))
    (hne : group ≠ []) (hd : ∀ x ∈ group, x.dt = g) :
    consolidateGo rest (some (g, group)) = consolidate (group ++ rest) := by
  induction rest generalizing g group with
  | nil =>
    have hne' : group.isEmpty = false := by
      cases group with
      | nil => exact absurd rfl hne
      | cons _ _ => rfl
    rw [consolidate_group g group [] hne hd]
    simp [consolidateGo, hne', consolidate]
  | cons b rest ih =>
    simp only [consolidateGo]
    split
    · rename_i hdt
      rw [ih b.dt [b] (by simp) (by simp), consolidate_group g group (b :: rest) hne hd]
      obtain ⟨r, rs, hrs, hr⟩ := consolidate_cons_head b rest
      simp only [List.cons_append, List.nil_append, hrs]
      have : ¬ g = r.dt := by rw [hr]; exact fun h => hdt h.symm
      simp [this]
    · rename_i hdt
      have hdt' : b.dt = g := by simpa using hdt
      rw [ih g (group ++ [b]) (by simp)]
      · simp
      · intro x hx
        rcases List.mem_append.mp hx with hx | hx
        · exact hd x hx
        · simp only [List.mem_singleton] at hx; subst hx; exact hdt'

/-- the generator of the code and the recursive definition used by the earlier C03 theorems agree -/
theorem TB.consolidateBlocks_eq_consolidate (bs : List (Block α)) : consolidateBlocks bs = consolidate bs := by
  cases bs with
  | nil => rfl
  | cons b rest =>
    simp only [consolidateBlocks, consolidateGo]
    exact consolidateGo_eq_consolidate rest b.dt [b] (by simp) (by simp)

/-! ### the whole method, route by route -/

/-- what a call amounts to: with no column `from_blocks` has nothing to build from (ErrorInitTypeBlocks),
    otherwise the result blocks `rs` become the TypeBlocks; they hold the columns `X` with dtypes `Y` -/
def Outcome (run : Except Err (TB α)) (n : Nat) (X : List (List α)) (Y : List DT) : Prop :=
  ∃ rs, run = (if X = [] then .error .init else .ok ⟨n, rs⟩) ∧ Res n rs X Y

/-- the observable part of a result -/
def TB.view (r : TB α) : List (List α) × List DT := (r.cols, r.dtypes)

theorem Outcome.map_view {run : Except Err (TB α)} {n : Nat} {X : List (List α)} {Y : List DT}
    (h : Outcome run n X Y) : run.map TB.view = if X = [] then .error .init else .ok (X, Y) := by
  obtain ⟨rs, hrun, hres⟩ := h
  rw [hrun]
  by_cases hx : X = []
  · simp [hx, Except.map]
  · simp only [hx, if_false, Except.map, TB.view]
    have h1 : (⟨n, rs⟩ : TB α).cols = X := hres.cols
    have h2 : (⟨n, rs⟩ : TB α).dtypes = Y := hres.dts
    rw [h1, h2]

theorem Outcome.ok {run : Except Err (TB α)} {n : Nat} {X : List (List α)} {Y : List DT}
    (h : Outcome run n X Y) (hx : X ≠ []) :
    ∃ r, run = .ok r ∧ r.WF ∧ r.rows = n ∧ r.cols = X ∧ r.dtypes = Y := by
  obtain ⟨rs, hrun, hres⟩ := h
  rw [if_neg hx] at hrun
  exact ⟨⟨n, rs⟩, hrun, hres.wf, rfl, hres.cols, hres.dts⟩

theorem Outcome.err {run : Except Err (TB α)} {n : Nat} {X : List (List α)} {Y : List DT}
    (h : Outcome run n X Y) (hx : X = []) : run = .error .init := by
  obtain ⟨rs, hrun, _⟩ := h
  rw [if_pos hx] at hrun
  exact hrun

theorem Outcome.wf_of_ok {run : Except Err (TB α)} {n : Nat} {X : List (List α)} {Y : List DT}
    (h : Outcome run n X Y) (r : TB α) (hr : run = .ok r) :
    r.WF ∧ r.rows = n ∧ r.cols = X ∧ r.dtypes = Y := by
  by_cases hx : X = []
  · rw [h.err hx] at hr; cases hr
  · obtain ⟨r', hr', h1, h2, h3, h4⟩ := h.ok hx
    rw [hr'] at hr; cases hr
    exact ⟨h1, h2, h3, h4⟩

section routes
variable (op : α → α → α) (opDT : DT → DT → DT) (cast : DT → DT → α → α)

theorem runPlan_zip (p : Path) (f : Bool) (vs : List (Block α)) (os : List (DT × Arr α)) (n : Nat)
    (X : List (List α)) (Y : List DT)
    (h : ∃ rs, applyBlocks op opDT vs os f = .ok rs ∧ Res n rs X Y) :
    Outcome (runPlan op opDT (.zip p f vs os)) n X Y := by
  obtain ⟨rs, hrs, hres⟩ := h
  exact ⟨rs, by simp only [runPlan, hrs]; exact hres.fromBlocks, hres⟩

theorem applyBlocks_aligned (n : Nat) (as bs : List (Block α)) (hal : Aligned as bs)
    (ha : GoodBlocks n as) (hb : GoodBlocks n bs) :
    ∃ rs, applyBlocks op opDT as (bs.map Block.toOperand) true = .ok rs ∧
      Res n rs (List.zipWith (List.zipWith op) (as.flatMap Block.colsOf) (bs.flatMap Block.colsOf))
        (List.zipWith opDT (as.flatMap Block.dts) (bs.flatMap Block.dts)) := by
  obtain ⟨rs, hrs, hres⟩ := applyGo_aligned op opDT n as bs hal ha hb
  refine ⟨rs, ?_, hres⟩
  simp only [applyBlocks, if_true, List.map_map]
  exact hrs

theorem TB.ncols_zero_blocks {tb : TB α} (h : tb.WF) (h0 : tb.ncols = 0) : tb.blocks = [] :=
  h.good.nil_iff.mpr h0

theorem TB.blockCompatible_of_no_columns (a b : TB α) (ha : a.WF) (hb : b.WF) (hs : a.shape = b.shape)
    (h0 : a.ncols = 0) : a.blockCompatible b = true := by
  have hb0 : b.ncols = 0 := by
    have := congrArg Prod.snd hs
    simp only [shape] at this
    omega
  simp [blockCompatible, hs, ncols_zero_blocks ha h0, ncols_zero_blocks hb hb0, blockCompatibleGo]

/-- route (a): `block_compatible` -/
theorem TB.route_compatible (a b : TB α) (rdA rdB : DT) (axis : Int) (ha : a.WF) (hb : b.WF)
    (hc : a.blockCompatible b = true) :
    Outcome (binop op opDT cast a rdA (.tb b rdB) axis) a.rows
      (List.zipWith (List.zipWith op) a.cols b.cols) (List.zipWith opDT a.dtypes b.dtypes) := by
  obtain ⟨hs, hal⟩ := blockCompatible_spec a b hc
  have hrows : b.rows = a.rows := (congrArg Prod.fst hs).symm
  simp only [binop, plan, hc, if_true]
  exact runPlan_zip op opDT _ _ _ _ a.rows _ _
    (applyBlocks_aligned op opDT a.rows a.blocks b.blocks hal ha.good (hrows ▸ hb.good))

/-- route (b): same shape, `reblock_compatible` -/
theorem TB.route_reblock (a b : TB α) (rdA rdB : DT) (axis : Int) (ha : a.WF) (hb : b.WF)
    (hc : a.blockCompatible b = false) (hs : a.shape = b.shape) (hr : a.reblockCompatible b = true) :
    Outcome (binop op opDT cast a rdA (.tb b rdB) axis) a.rows
      (List.zipWith (List.zipWith op) a.cols b.cols) (List.zipWith opDT a.dtypes b.dtypes) := by
  have hrows : b.rows = a.rows := (congrArg Prod.fst hs).symm
  have hal := reblockCompatible_aligned a b ha hb hr
  have hra := reblock_res a ha
  have hrb := reblock_res b hb
  simp only [binop, plan, hc, hs, hr, if_true, Bool.false_eq_true, if_false, not_true_eq_false]
  have := applyBlocks_aligned op opDT a.rows a.reblock b.reblock hal hra.good (hrows ▸ hrb.good)
  rw [hra.cols, hrb.cols, hra.dts, hrb.dts] at this
  exact runPlan_zip op opDT _ _ _ _ a.rows _ _ this

/-- route (c): same shape, neither: the two `.values` arrays -/
theorem TB.route_values (a b : TB α) (rdA rdB : DT) (axis : Int) (ha : a.WF) (hb : b.WF)
    (hc : a.blockCompatible b = false) (hs : a.shape = b.shape) (hr : a.reblockCompatible b = false) :
    Outcome (binop op opDT cast a rdA (.tb b rdB) axis) a.rows
      (List.zipWith (List.zipWith op) (a.values cast rdA).colsOf (b.values cast rdB).colsOf)
      (List.replicate a.ncols (opDT (a.values cast rdA).dt (b.values cast rdB).dt)) := by
  have hrows : b.rows = a.rows := (congrArg Prod.fst hs).symm
  have hcols : b.ncols = a.ncols := (congrArg Prod.snd hs).symm
  have hpos : 0 < a.ncols := by
    rcases Nat.eq_zero_or_pos a.ncols with h0 | h
    · rw [blockCompatible_of_no_columns a b ha hb hs h0] at hc; cases hc
    · exact h
  obtain ⟨hwa, hga⟩ := values_good cast a rdA ha hpos
  obtain ⟨hwb, hgb⟩ := values_good cast b rdB hb (hcols ▸ hpos)
  simp only [binop, plan, hc, hs, hr, if_true, Bool.false_eq_true, if_false, not_false_eq_true]
  have hal : Aligned [a.values cast rdA] [b.values cast rdB] := ⟨by rw [hwa, hwb, hcols], trivial⟩
  have := applyBlocks_aligned op opDT a.rows [a.values cast rdA] [b.values cast rdB] hal hga (hrows ▸ hgb)
  simp only [List.flatMap_cons, List.flatMap_nil, List.append_nil, List.map_cons, List.map_nil, Block.dts, hwa, hwb,
    hcols, List.zipWith_replicate, Nat.min_self] at this
  exact runPlan_zip op opDT _ _ _ _ a.rows _ _ this

/-- shapes differ: NotImplementedError -/
theorem TB.route_mismatch (a b : TB α) (rdA rdB : DT) (axis : Int) (hs : a.shape ≠ b.shape) :
    binop op opDT cast a rdA (.tb b rdB) axis = .error .shape := by
  have hc : a.blockCompatible b = false := by simp [blockCompatible, hs]
  simp [binop, plan, hc, hs]

theorem zipWith_eq_nil_of_length {β γ δ : Type} (f : β → γ → δ) (l₁ : List β) (l₂ : List γ)
    (h : l₁.length = l₂.length) : List.zipWith f l₁ l₂ = [] ↔ l₁ = [] := by
  cases l₁ with
  | nil => simp
  | cons a as => cases l₂ with
    | nil => simp at h
    | cons b bs => simp

/-! #### array operands -/

/-- 0-d array, or 1-D array with one element: the same operand for every block -/
theorem TB.route_scalar (a : TB α) (rdA : DT) (axis : Int) (ha : a.WF) (dt : DT) (v : α) (other : Other α)
    (ho : other = .arr0 dt v ∨ other = .arr1 dt [v]) :
    Outcome (binop op opDT cast a rdA other axis) a.rows
      (a.cols.map (·.map (op · v))) (a.dtypes.map (opDT · dt)) := by
  rcases ho with rfl | rfl
  · simp only [binop, plan]
    apply runPlan_zip
    simp only [applyBlocks, Bool.false_eq_true, if_false]
    exact applyGo_scalar op opDT a.rows a.blocks dt v (.a0 v) (Or.inl rfl) ha.good
  · simp only [binop, plan, List.length_singleton, if_true]
    apply runPlan_zip
    simp only [applyBlocks, Bool.false_eq_true, if_false]
    exact applyGo_scalar op opDT a.rows a.blocks dt v (.a1 [v]) (Or.inr rfl) ha.good

/-- 1-D array along axis 0 -/
theorem TB.route_rows (a : TB α) (rdA : DT) (ha : a.WF) (dt : DT) (vs : List α) (h1 : vs.length ≠ 1)
    (hl : vs.length = a.ncols) :
    Outcome (binop op opDT cast a rdA (.arr1 dt vs) 0) a.rows
      (List.zipWith (fun col v => col.map (op · v)) a.cols vs) (a.dtypes.map (opDT · dt)) := by
  have hplan : plan cast a rdA (.arr1 dt vs) 0 =
      .ok (.zip .rows false a.blocks (a.blockShapeSlices.map fun s => (dt, .a1 (chop vs s)))) := by
    simp only [plan]; rw [if_neg h1, if_pos ⟨trivial, hl⟩]
  simp only [binop, hplan]
  apply runPlan_zip
  simp only [applyBlocks, Bool.false_eq_true, if_false, blockShapeSlices]
  have := applyGo_rows op opDT a.rows a.blocks dt vs 0 (by simpa [ncols] using hl) ha.good
  simpa [cols, dtypes, Block.dts] using this

/-- 1-D array along axis 1 -/
theorem TB.route_columnar (a : TB α) (rdA : DT) (ha : a.WF) (dt : DT) (vs : List α) (h1 : vs.length ≠ 1)
    (hl : vs.length = a.rows) :
    Outcome (binop op opDT cast a rdA (.arr1 dt vs) 1) a.rows
      (a.cols.map fun col => List.zipWith op col vs) (a.dtypes.map (opDT · dt)) := by
  obtain ⟨rs, hrs, hres⟩ := applyColumnar_spec op opDT a.rows a.blocks dt vs hl ha.good
  refine ⟨rs, ?_, hres⟩
  have hplan : plan cast a rdA (.arr1 dt vs) 1 = .ok (.columnar a.blocks dt vs) := by
    simp only [plan]
    rw [if_neg h1, if_neg (fun h => absurd h.1 (by decide)), if_pos ⟨trivial, hl⟩]
  simp only [binop, hplan, runPlan, hrs]
  exact hres.fromBlocks

/-- 2-D array of the same shape -/
theorem TB.route_array2d (a : TB α) (rdA : DT) (axis : Int) (ha : a.WF) (dt : DT) (r : Nat) (cs : List (List α))
    (hs : (r, cs.length) = a.shape) (hcs : ∀ c ∈ cs, c.length = r) :
    Outcome (binop op opDT cast a rdA (.arr2 dt r cs) axis) a.rows
      (List.zipWith (List.zipWith op) a.cols cs) (a.dtypes.map (opDT · dt)) := by
  have hr : r = a.rows := congrArg Prod.fst hs
  have hl : cs.length = a.ncols := congrArg Prod.snd hs
  simp only [binop, plan, hs, if_true]
  apply runPlan_zip
  simp only [applyBlocks, if_true, List.map_map, blockShapeSlices]
  have := applyGo_array2d op opDT a.rows a.blocks dt cs 0 (by simpa [ncols] using hl) (hr ▸ hcs) ha.good
  simpa [Function.comp_def, Arr.column2d, cols, dtypes, Block.dts] using this

end routes

/-! ### `_block_shape_slices` -/

theorem TB.blockShapeSlicesGo_length (bs : List (Block α)) (start : Nat) :
    (blockShapeSlicesGo bs start).length = bs.length := by
  induction bs generalizing start with
  | nil => rfl
  | cons b bs ih => simp [blockShapeSlicesGo, ih]

/-- the slices are consecutive: chopping any list by them loses and repeats nothing -/
theorem TB.blockShapeSlicesGo_cover {β : Type} (bs : List (Block α)) (start : Nat) (l : List β) :
    (blockShapeSlicesGo bs start).flatMap (chop l) = (l.drop start).take (bs.map Block.width).sum := by
  induction bs generalizing start with
  | nil => simp [blockShapeSlicesGo]
  | cons b bs ih =>
    simp only [blockShapeSlicesGo, List.flatMap_cons, ih, chop_eq, List.map_cons, List.sum_cons]
    rw [List.take_add, List.drop_drop]

theorem TB.blockShapeSlicesGo_widths (bs : List (Block α)) (start : Nat) :
    (blockShapeSlicesGo bs start).map (fun s => s.2 - s.1) = bs.map Block.width := by
  induction bs generalizing start with
  | nil => rfl
  | cons b bs ih => simp [blockShapeSlicesGo, ih]

/-! ### every call, in one statement -/

section outcome
variable (op : α → α → α) (opDT : DT → DT → DT) (cast : DT → DT → α → α)

/-- a real call either is refused up front (NotImplementedError) or runs through `from_blocks` with result
    blocks of the operand's shape — no other error is ever produced -/
theorem TB.binop_outcome (a : TB α) (rdA : DT) (other : Other α) (axis : Int) (ha : a.WF) (ho : other.WF) :
    binop op opDT cast a rdA other axis = .error .shape ∨
    ∃ X Y, Outcome (binop op opDT cast a rdA other axis) a.rows X Y ∧ X.length = a.ncols := by
  cases other with
  | tb b rdB =>
    have hb : b.WF := ho
    by_cases hs : a.shape = b.shape
    · have hcols : b.ncols = a.ncols := (congrArg Prod.snd hs).symm
      right
      cases hc : a.blockCompatible b with
      | true =>
        exact ⟨_, _, route_compatible op opDT cast a b rdA rdB axis ha hb hc,
          by rw [List.length_zipWith, cols_length, cols_length, hcols, Nat.min_self]⟩
      | false =>
        cases hr : a.reblockCompatible b with
        | true =>
          exact ⟨_, _, route_reblock op opDT cast a b rdA rdB axis ha hb hc hs hr,
            by rw [List.length_zipWith, cols_length, cols_length, hcols, Nat.min_self]⟩
        | false =>
          have hpos : 0 < a.ncols := by
            rcases Nat.eq_zero_or_pos a.ncols with h0 | h
            · rw [blockCompatible_of_no_columns a b ha hb hs h0] at hc; cases hc
            · exact h
          refine ⟨_, _, route_values op opDT cast a b rdA rdB axis ha hb hc hs hr, ?_⟩
          rw [List.length_zipWith, Block.colsOf_length, Block.colsOf_length, (values_good cast a rdA ha hpos).1,
            (values_good cast b rdB hb (hcols ▸ hpos)).1, hcols, Nat.min_self]
    · exact Or.inl (route_mismatch op opDT cast a b rdA rdB axis hs)
  | arr0 dt v =>
    exact Or.inr ⟨_, _, route_scalar op opDT cast a rdA axis ha dt v _ (Or.inl rfl), by simp [cols_length]⟩
  | arr1 dt vs =>
    by_cases h1 : vs.length = 1
    · obtain ⟨v, rfl⟩ := List.length_eq_one_iff.mp h1
      exact Or.inr ⟨_, _, route_scalar op opDT cast a rdA axis ha dt v _ (Or.inr rfl), by simp [cols_length]⟩
    · by_cases h0 : axis = 0 ∧ vs.length = a.ncols
      · obtain ⟨rfl, hl⟩ := h0
        exact Or.inr ⟨_, _, route_rows op opDT cast a rdA ha dt vs h1 hl, by simp [cols_length, hl]⟩
      · by_cases h2 : axis = 1 ∧ vs.length = a.rows
        · obtain ⟨rfl, hl⟩ := h2
          exact Or.inr ⟨_, _, route_columnar op opDT cast a rdA ha dt vs h1 hl, by simp [cols_length]⟩
        · left
          simp only [binop, plan]
          rw [if_neg h1, if_neg h0, if_neg h2]
  | arr2 dt r cs =>
    by_cases hs : (r, cs.length) = a.shape
    · have hl : cs.length = a.ncols := congrArg Prod.snd hs
      exact Or.inr ⟨_, _, route_array2d op opDT cast a rdA axis ha dt r cs hs ho, by simp [cols_length, hl]⟩
    · left
      simp only [binop, plan]
      rw [if_neg hs]
  | arrN dt k => exact Or.inl rfl

end outcome

/-! ### the re-block signature is the run-length encoding of the per-column dtypes -/

/-- run-length encoding of a dtype list, written with the loop state of `_reblock_signature` -/
def rleGo : List DT → DT → Nat → List (Option DT × Nat)
  | [], g, n => if n > 0 then [(some g, n)] else []
  | d :: ds, g, n => if d ≠ g then (some g, n) :: rleGo ds d 1 else rleGo ds g (n + 1)

/-- the runs of equal adjacent dtypes with their lengths -/
def rle : List DT → List (Option DT × Nat)
  | [] => []
  | d :: ds => rleGo ds d 1

theorem rleGo_replicate_same (k : Nat) (d : DT) (ds : List DT) (n : Nat) :
    rleGo (List.replicate k d ++ ds) d n = rleGo ds d (n + k) := by
  induction k generalizing n with
  | zero => simp
  | succ k ih =>
    simp only [List.replicate_succ, List.cons_append, rleGo, ne_eq, not_true_eq_false, if_false]
    rw [ih]; congr 1; omega

theorem rleGo_replicate_other (w : Nat) (hw : 0 < w) (d g : DT) (hd : d ≠ g) (ds : List DT) (n : Nat) :
    rleGo (List.replicate w d ++ ds) g n = (some g, n) :: rleGo ds d w := by
  obtain ⟨k, rfl⟩ : ∃ k, w = k + 1 := ⟨w - 1, by omega⟩
  simp only [List.replicate_succ, List.cons_append, rleGo, hd, ne_eq, not_false_eq_true, if_true]
  rw [rleGo_replicate_same]; congr 2; omega

theorem TB.reblockSignatureGo_rle (rest : List (Block α)) (hpos : ∀ b ∈ rest, 0 < b.width) (g : DT) (gc : Nat) :
    reblockSignatureGo rest (some g) gc = rleGo (rest.flatMap Block.dts) g gc := by
  induction rest generalizing g gc with
  | nil => rfl
  | cons b rest ih =>
    have hb := hpos b List.mem_cons_self
    have hrest : ∀ x ∈ rest, 0 < x.width := fun x hx => hpos x (List.mem_cons_of_mem _ hx)
    simp only [reblockSignatureGo, List.flatMap_cons, Block.dts]
    split
    · rename_i hdt
      rw [ih hrest, rleGo_replicate_other b.width hb b.dt g hdt, Nat.zero_add]
    · rename_i hdt
      have hdt' : b.dt = g := by simpa using hdt
      rw [ih hrest, hdt', rleGo_replicate_same]

/-- `_reblock_signature` is a function of the per-column dtypes alone -/
theorem TB.reblockSignature_rle (tb : TB α) (h : tb.WF) : tb.reblockSignature = rle tb.dtypes := by
  unfold reblockSignature dtypes
  have hpos := h.1
  generalize tb.blocks = bs at hpos
  cases bs with
  | nil => rfl
  | cons b rest =>
    have hb := hpos b List.mem_cons_self
    have hrest : ∀ x ∈ rest, 0 < x.width := fun x hx => hpos x (List.mem_cons_of_mem _ hx)
    obtain ⟨k, hk⟩ : ∃ k, b.width = k + 1 := ⟨b.width - 1, by omega⟩
    simp only [reblockSignatureGo, List.flatMap_cons]
    rw [reblockSignatureGo_rle rest hrest, hk, List.replicate_succ, List.cons_append, rle, rleGo_replicate_same]
    congr 1; omega

theorem TB.signaturesCompatible_refl (xs : List (Option DT × Nat)) : signaturesCompatible xs xs = true := by
  induction xs with
  | nil => rfl
  | cons x xs ih => simp [signaturesCompatible, ih]

end SF
