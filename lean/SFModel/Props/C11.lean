/-
  C11 — concatenation and overlay keep every input cell exactly once, aligned by label.

  Property theorems only; helper lemmas live in ConcatLemmas*.lean.  All statements are about the
  mirrored algorithms of SFModel/Concat.lean (`vstackBlocksToBlocks` with its three strategies,
  `indexManyConcat`, `indexManySet` / `ufuncSetIter` with the identity shortcut and the intersection
  short-circuit, `fromConcat0` / `fromConcat1`, `fromConcatItems`, `seriesFromOverlay`,
  `frameFromOverlay`), for any number of members of any size.  `o.Lawful`: iterating a frozenset
  yields each member once.
-/
import SFModel.ConcatLemmas7

namespace SF.C11
open SF SF.SetOps SF.Concat

variable {α β : Type} [DecidableEq α]

/-- `vstack_blocks_to_blocks`: the block-compatible, the reblock-compatible (consolidate first) and
    the per-column strategy return the same columns — same dtype kind, same values in the same
    order — whenever the flags that select a strategy are justified (as `from_concat` computes them,
    see `flags_justified`) and all members have as many columns. -/
theorem vstack_strategies_agree (t : TB β) (ts : List (TB β)) (bc rc : Bool)
    (hbc : bc = true → ∀ x ∈ ts, x.widths = t.widths)
    (hrc : rc = true → ∀ x ∈ ts, (reblockSignature x).map (·.2) = (reblockSignature t).map (·.2))
    (hcols : ∀ x ∈ ts, x.columns.length = t.columns.length) :
    ∃ r r', vstackBlocksToBlocks (t :: ts) bc rc = .ok r ∧ vstackBlocksToBlocks (t :: ts) false false = .ok r' ∧
      r.columns = r'.columns := by
  obtain ⟨r, r', h1, h2, h3⟩ := vstack_agree t ts bc rc hbc hrc hcols
  exact ⟨r, r', h1, by simpa [vstackBlocksToBlocks] using h2, h3⟩

/-- the flags accumulated by `from_concat` over consecutive members mean what the strategies need -/
theorem flags_justified (t : TB β) (ts : List (TB β)) :
    ((compatFlags (t :: ts)).1 = true → ∀ x ∈ ts, x.widths = t.widths) ∧
    ((compatFlags (t :: ts)).2 = true →
      ∀ x ∈ ts, (reblockSignature x).map (·.2) = (reblockSignature t).map (·.2)) :=
  compatFlags_spec t ts

/-- the stacked column `j` is the members' columns `j` one after the other -/
theorem vstack_columns_in_order (t : TB β) (ts : List (TB β))
    (hcols : ∀ x ∈ ts, x.columns.length = t.columns.length) :
    ∃ r, vstackBlocksToBlocks (t :: ts) false false = .ok r ∧
      r.columns.map (·.2) = ts.foldl (fun acc x => appendCols acc (x.columns.map (·.2))) (t.columns.map (·.2)) := by
  obtain ⟨r, h1, h2⟩ := vstackColumns_values t ts hcols
  exact ⟨r, by simpa [vstackBlocksToBlocks] using h1, h2⟩

/-- `index_many_set` (the aligned axis): with `union` a label is kept iff some member has it, without
    iff all members have it; every label once; identical label lists come back in their order. -/
theorem aligned_labels {o : PyOrd α} (ho : o.Lawful) (union : Bool) (first : Idx α) (rest : List (Idx α))
    (h : ∀ i ∈ first :: rest, i.labels.Nodup) :
    (indexManySet o union (first :: rest)).labels.Nodup ∧
    (∀ x, x ∈ (indexManySet o union (first :: rest)).labels ↔
      (if union then ∃ i ∈ first :: rest, x ∈ i.labels else ∀ i ∈ first :: rest, x ∈ i.labels)) ∧
    ((∀ i ∈ rest, i.labels = first.labels) → (indexManySet o union (first :: rest)).labels = first.labels) :=
  ⟨(indexManySet_spec ho union first rest h).1, (indexManySet_spec ho union first rest h).2,
   fun hs => ufuncSetIter_same o union first rest hs⟩

/-- `Frame.from_concat(frames, axis=0, union=…)`: the row labels are the members' row labels in input
    order; the columns are the union / intersection of the members' columns; the result is
    rectangular (no cell lost or duplicated); every member row keeps each of its cells under the
    same (row, column) labels, and a column the member lacks holds the fill value. -/
theorem concat_cells_exact (cfg : Cfg α) (ho : cfg.o.Lawful) (f0 : BFrame α β) (rest : List (BFrame α β))
    (union : Bool) (fill : β) (fk : Kind)
    (hwf : ∀ f ∈ f0 :: rest, f.toFrame.WF)
    (hnd : ((f0 :: rest).map (·.index.labels)).flatten.Nodup)
    (hne : (indexManySet cfg.o union ((f0 :: rest).map (·.columns))).labels ≠ []) :
    ∃ r, fromConcat0 cfg (f0 :: rest) union .none .none fill fk = .ok r ∧ r.WF ∧
      r.index.labels = ((f0 :: rest).map (·.index.labels)).flatten ∧
      r.columns = indexManySet cfg.o union ((f0 :: rest).map (·.columns)) ∧
      ∀ f ∈ f0 :: rest, ∀ x ∈ f.index.labels, ∀ c ∈ r.columns.labels,
        r.get? x c = some ((f.toFrame.get? x c).getD fill) :=
  fromConcat0_spec cfg ho f0 rest union fill fk hwf hnd hne

/-- the same along the columns (`axis=1`): column labels in input order, rows aligned by label. -/
theorem concat_cells_exact_axis1 (cfg : Cfg α) (ho : cfg.o.Lawful) (f0 : BFrame α β) (rest : List (BFrame α β))
    (union : Bool) (fill : β)
    (hwf : ∀ f ∈ f0 :: rest, f.toFrame.WF)
    (hnd : ((f0 :: rest).map (·.columns.labels)).flatten.Nodup)
    (hne : ((f0 :: rest).map (·.columns.labels)).flatten ≠ []) :
    ∃ r, fromConcat1 cfg (f0 :: rest) union .none .none fill = .ok r ∧ r.WF ∧
      r.columns.labels = ((f0 :: rest).map (·.columns.labels)).flatten ∧
      r.index = indexManySet cfg.o union ((f0 :: rest).map (·.index)) ∧
      ∀ f ∈ f0 :: rest, ∀ x ∈ r.index.labels, ∀ c ∈ f.columns.labels,
        r.get? x c = some ((f.toFrame.get? x c).getD fill) :=
  fromConcat1_spec cfg ho f0 rest union fill hwf hnd hne

/-- Clashing labels along the concatenation axis and no replacement index: construction fails
    (ErrorInitFrame for Frames on either axis, ErrorInitIndexNonUnique for Series) — never duplicate labels. -/
theorem concat_nonunique_rejected (cfg : Cfg α) (f0 : BFrame α β) (rest : List (BFrame α β)) (union : Bool)
    (other : IndexArg α) (fill : β) (fk : Kind) :
    (¬ ((f0 :: rest).map (·.index.labels)).flatten.Nodup →
      fromConcat0 cfg (f0 :: rest) union .none other fill fk = .error .init) ∧
    (¬ ((f0 :: rest).map (·.columns.labels)).flatten.Nodup →
      fromConcat1 cfg (f0 :: rest) union other .none fill = .error .init) :=
  ⟨fromConcat0_nonunique cfg f0 rest union other fill fk, fromConcat1_nonunique cfg f0 rest union other fill⟩

theorem series_concat_nonunique_rejected (cfg : Cfg α) (s0 : Series α β) (rest : List (Series α β))
    (h : ¬ ((s0 :: rest).map (·.index.labels)).flatten.Nodup) :
    seriesFromConcat cfg (s0 :: rest) .none = .error .nonUnique :=
  seriesFromConcat_nonunique cfg s0 rest h

/-- `Frame.from_concat_items`: the labels along the axis are `(key, inner label)` in input order and the
    content is the same: the row `(k, x)` holds member `k`'s row `x`. -/
theorem items_two_level (cfg : Cfg α) (ho : cfg.o.Lawful)
    (hpair : ∀ k k' x x', cfg.pair k x = cfg.pair k' x' → k = k' ∧ x = x')
    (it0 : α × BFrame α β) (rest : List (α × BFrame α β)) (union : Bool) (fill : β) (fk : Kind)
    (hk : ((it0 :: rest).map (·.1)).Nodup)
    (hwf : ∀ it ∈ it0 :: rest, it.2.toFrame.WF)
    (hnonempty : ∀ it ∈ it0 :: rest, it.2.index.labels ≠ [])
    (hne : (indexManySet cfg.o union ((it0 :: rest).map (·.2.columns))).labels ≠ []) :
    ∃ r, fromConcatItems cfg (it0 :: rest) 0 union fill fk = .ok r ∧ r.WF ∧
      r.index.labels = fromIndexItems cfg ((it0 :: rest).map fun it => (it.1, it.2.index)) ∧
      r.columns = indexManySet cfg.o union ((it0 :: rest).map (·.2.columns)) ∧
      ∀ it ∈ it0 :: rest, ∀ x ∈ it.2.index.labels, ∀ c ∈ r.columns.labels,
        r.get? (cfg.pair it.1 x) c = some ((it.2.toFrame.get? x c).getD fill) :=
  fromConcatItems0_spec cfg ho hpair it0 rest union fill fk hk hwf hnonempty hne

/-- `Series.from_overlay`: per label the value is `overlayCell` of the containers' cells in input
    order, the early exit (`break` once nothing is missing) included … -/
theorem overlay_cells {o : PyOrd α} (ho : o.Lawful) (isna : β → Bool) (na : β)
    (first : Series α β) (rest : List (Series α β)) (index : Option (Idx α)) (union : Bool)
    (hwf : ∀ s ∈ first :: rest, s.WF) (hidx : ∀ i, index = some i → i.labels.Nodup) :
    ∃ r, seriesFromOverlay o isna na (first :: rest) index union = .ok r ∧ r.WF ∧
      r.index = overlayTarget o union ((first :: rest).map fun (s : Series α β) => s.index) index ∧
      ∀ l ∈ r.index.labels,
        r.get? l = some (overlayCell isna ((first.get? l).getD na) (rest.map (·.get? l))) :=
  seriesFromOverlay_spec ho isna na first rest index union hwf hidx

/-- … and `overlayCell` is "the first non-missing value among the values present, in input order"
    (missing if there is none). -/
theorem overlay_first_nonmissing (isna : β → Bool) (cur : β) (os : List (Option β)) :
    (∀ v, (cur :: os.filterMap id).find? (fun x => !isna x) = some v → overlayCell isna cur os = v) ∧
    ((∀ x ∈ cur :: os.filterMap id, isna x = true) → isna (overlayCell isna cur os) = true) :=
  ⟨fun v h => overlayCell_find isna cur os v h, overlayCell_all_na isna cur os⟩

/-- `Frame.from_overlay` (result with at least one column): per cell `overlayCellF` of the
    containers' cells in input order, early exit included … -/
theorem frame_overlay_cells {o : PyOrd α} (ho : o.Lawful) (isna : β → Bool) (na : β)
    (first : Frame α β) (rest : List (Frame α β)) (index columns : Option (Idx α)) (union : Bool)
    (hwf : ∀ f ∈ first :: rest, f.WF) (hidx : ∀ i, index = some i → i.labels.Nodup)
    (hcol : ∀ i, columns = some i → i.labels.Nodup)
    (hne : (overlayTarget o union ((first :: rest).map fun (f : Frame α β) => f.columns) columns).labels ≠ []) :
    ∃ r, frameFromOverlay o isna na (first :: rest) index columns union = .ok r ∧ r.WF ∧
      r.index = overlayTarget o union ((first :: rest).map fun (f : Frame α β) => f.index) index ∧
      r.columns = overlayTarget o union ((first :: rest).map fun (f : Frame α β) => f.columns) columns ∧
      ∀ x ∈ r.index.labels, ∀ c ∈ r.columns.labels,
        r.get? x c = some (overlayCellF isna na ((first.get? x c).getD na) (rest.map (·.get? x c))) :=
  frameFromOverlay_spec ho isna na first rest index columns union hwf hidx hcol hne

/-- … which again is the first non-missing value in input order (`na` itself being missing). -/
theorem frame_overlay_first_nonmissing (isna : β → Bool) (na : β) (hna : isna na = true) (cur : β)
    (os : List (Option β)) :
    (∀ v, (cur :: os.filterMap id).find? (fun x => !isna x) = some v → overlayCellF isna na cur os = v) ∧
    ((∀ x ∈ cur :: os.filterMap id, isna x = true) → isna (overlayCellF isna na cur os) = true) :=
  ⟨fun v h => overlayCellF_find isna na hna cur os v h, overlayCellF_all_na isna na hna cur os⟩

/-! ### concrete instances: non-vacuity, and the two findings mirrored by the model -/

def intOrd : PyOrd Int := ⟨fun a b => decide (a ≤ b), fun _ => true, id⟩
def intCfg : Cfg Int := ⟨intOrd, fun n => 1000 + (n : Int), fun k l => 100 * k + l⟩

/-- three layouts of the same two columns: one 2-D block, two 1-D blocks, mixed dtypes -/
example : vstackBlocksToBlocks [[⟨.int, [[1, 2], [3, 4]]⟩], [⟨.int, [[5]]⟩, ⟨.int, [[6]]⟩]] false true
    = .ok [⟨.int, [[1, 2, 5], [3, 4, 6]]⟩] := by decide
example : vstackBlocksToBlocks [[⟨.int, [[1, 2], [3, 4]]⟩], [⟨.int, [[5]]⟩, ⟨.float, [[6]]⟩]] false false
    = .ok [⟨.int, [[1, 2, 5]]⟩, ⟨.float, [[3, 4, 6]]⟩] := by decide
example : compatFlags [[⟨.int, [[1, 2], [3, 4]]⟩], [⟨.int, [[5]]⟩, ⟨.int, [[6]]⟩]] = (false, true) := by decide

example : fromConcat0 intCfg
    [⟨⟨[0, 1], .int⟩, ⟨[5, 6], .int⟩, [⟨.int, [[1, 2], [3, 4]]⟩]⟩,
     ⟨⟨[2], .int⟩, ⟨[6, 7], .int⟩, [⟨.int, [[5]]⟩, ⟨.int, [[6]]⟩]⟩] true .none .none (-1) .int
    = .ok ⟨⟨[0, 1, 2], .int⟩, ⟨[5, 6, 7], .int⟩, [[1, 2, -1], [3, 4, 5], [-1, -1, 6]]⟩ := by decide

/-- F22 as the model shows it: no column common to all members, `union=False` → no block, no shape
    reference: an error instead of the zero-width Frame. -/
theorem concat_empty_intersection_counterexample :
    fromConcat0 intCfg
      [⟨⟨[0], .int⟩, ⟨[5, 6], .int⟩, [⟨.int, [[1], [2]]⟩]⟩, ⟨⟨[1], .int⟩, ⟨[7, 8], .int⟩, [⟨.int, [[1], [2]]⟩]⟩]
      false .none .none (-1) .int = .error .init := by decide

/-- F41 as the model shows it: an item without labels along the axis makes `from_index_items` fail,
    although plain `from_concat` accepts the same members. -/
theorem items_empty_member_counterexample :
    fromConcatItems intCfg
      [(1, ⟨⟨[0], .int⟩, ⟨[5], .int⟩, [⟨.int, [[1]]⟩]⟩), (2, ⟨⟨[], .int⟩, ⟨[5], .int⟩, [⟨.int, [[]]⟩]⟩)]
      0 true (-1) .int = .error .init ∧
    (fromConcat0 intCfg
      [⟨⟨[0], .int⟩, ⟨[5], .int⟩, [⟨.int, [[1]]⟩]⟩, ⟨⟨[], .int⟩, ⟨[5], .int⟩, [⟨.int, [[]]⟩]⟩]
      true .none .none (-1) .int).isOk = true := by decide

example : seriesFromOverlay intOrd (· == -1) (-1)
    [⟨⟨[0, 1], .int⟩, [-1, 5]⟩, ⟨⟨[1, 0, 2], .int⟩, [7, -1, 8]⟩, ⟨⟨[0], .int⟩, [9]⟩] none true
    = .ok ⟨⟨[0, 1, 2], .int⟩, [9, 5, 8]⟩ := by decide

end SF.C11
