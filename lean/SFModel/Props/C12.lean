/-
  C12 — sorting permutes whole rows, orders the keys, and is stable.

  Property theorems only (helper lemmas: OrderLemmas.lean).  `le` is any total preorder on key
  values given as a Boolean function (`trans`, `total`); containers hold arbitrary values `α`.
  The theorems are about the mirrored algorithm (`sortIndexForOrder`, `lexsort` as successive stable
  passes, `order[::-1]` for descending) and the methods built on it.
-/
import SFModel.OrderLemmas

namespace SF.C12
open SF SF.Order List

variable {α : Type} {le : α → α → Bool}

/-- key `i` of a key vector as a function of the position (what the sort passes compare) -/
abbrev keyAt (v : List α) : Nat → Option α := fun i => v[i]?

/-- `LexBefore le cols i j`: position `i` is ordered before `j` by the key columns `cols`
    (first column = primary key, e.g. depth 0), ties in every column resolved by the original
    position (`i < j`). -/
abbrev LexBefore (le : α → α → Bool) (cols : List (List α)) : Nat → Nat → Prop :=
  lexRel (optLe le) (cols.map keyAt) (· < ·)

/-! ### the order vector -/

/-- Ascending order vector of `sort_index_for_order` for every kind of key container:
    a permutation of all positions, lexicographically ordered by the key columns (depth 0 primary —
    the code hands `np.lexsort` the depths in reverse because its LAST key is primary), and stable. -/
theorem order_spec (trans : ∀ a b c : α, le a b → le b c → le a c) (total : ∀ a b : α, le a b || le b a)
    {n : Nat} {cfs : SortKeys α} {order : List Nat} (h : orderOf le n cfs = .ok order) :
    order.Perm (List.range n) ∧
    order.Pairwise (LexBefore le cfs.cols) := by
  have tr := optLe_trans trans
  have to := optLe_total total
  cases cfs with
  | single v =>
    simp only [orderOf] at h
    split at h
    · cases h
    · rename_i hl
      simp only [Except.ok.injEq] at h
      subst h
      have hl' : v.length = n := by simpa using hl
      subst hl'
      refine ⟨sortOn_perm _ _ _, ?_⟩
      have := sortOn_stable (le := optLe le) (key := keyAt v) tr to
        (List.nodup_range (n := v.length)) (List.pairwise_lt_range (n := v.length))
      simpa [LexBefore, lexRel, argsortStable, SortKeys.cols] using this
  | multi cols =>
    cases cols with
    | nil => simp [orderOf] at h
    | cons c cs =>
      simp only [orderOf] at h
      split at h
      · cases h
      · simp only [Except.ok.injEq] at h
        subst h
        have := foldl_sortOn_lex (le := optLe le) tr to ((c :: cs).reverse.map keyAt)
          (List.range n) (· < ·) List.nodup_range List.pairwise_lt_range
        rw [lexsort_eq]
        refine ⟨this.2, ?_⟩
        have h1 := this.1
        rw [← List.map_reverse, List.reverse_reverse] at h1
        exact h1

/-- **sort_perm** (order vector): the result of `sort_index_for_order`, ascending or descending,
    is a permutation of all positions. -/
theorem order_perm (trans : ∀ a b c : α, le a b → le b c → le a c) (total : ∀ a b : α, le a b || le b a)
    {n : Nat} {cfs : SortKeys α} {asc : Bool} {order : List Nat}
    (h : sortIndexForOrder le n cfs asc = .ok order) : order.Perm (List.range n) := by
  unfold sortIndexForOrder at h
  split at h
  · cases h
  · rename_i o ho
    simp only [Except.ok.injEq] at h
    subst h
    have := (order_spec trans total ho).1
    cases asc
    · simpa using (List.reverse_perm o).trans this
    · simpa using this

/-- **sort_perm**: `Frame.sort_index` returns the same (label, row) associations as the input
    (multiset equality of the pairs) — for any key function result, ascending or descending. -/
theorem sort_perm (trans : ∀ a b c : α, le a b → le b c → le a c) (total : ∀ a b : α, le a b || le b a)
    {f g : Frame α} {asc : Bool} {key : Option (SortKeys α)}
    (hwf : f.index.length = f.rows.length)
    (h : f.sortIndex le asc key = .ok g) : (g.index.zip g.rows).Perm (f.index.zip f.rows) := by
  unfold Frame.sortIndex at h
  split at h
  · cases h
  · rename_i order ho
    simp only [Except.ok.injEq] at h
    subst h
    have hp := order_perm trans total ho
    simp only [Frame.takeRows]
    rw [← pick_zip _ _ hwf]
    apply pick_perm
    simpa [List.length_zip, hwf] using hp

/-- **sort_perm** for `Frame.sort_values(axis=1)` (rows ordered by one or several columns). -/
theorem sort_values_perm (trans : ∀ a b c : α, le a b → le b c → le a c) (total : ∀ a b : α, le a b || le b a)
    {f g : Frame α} {sel : List Nat} {asc : Bool} {key : Option (SortKeys α)}
    (hwf : f.index.length = f.rows.length)
    (h : f.sortValuesRows le sel asc key = .ok g) : (g.index.zip g.rows).Perm (f.index.zip f.rows) := by
  unfold Frame.sortValuesRows at h
  split at h
  · cases h
  · rename_i order ho
    simp only [Except.ok.injEq] at h
    subst h
    have hp := order_perm trans total ho
    simp only [Frame.takeRows]
    rw [← pick_zip _ _ hwf]
    apply pick_perm
    simpa [List.length_zip, hwf] using hp

/-- **sort_perm** for the column-ordering methods (`sort_columns`, `sort_values(axis=0)`): one
    permutation `order` of the column positions rearranges the column labels, the dtypes and every
    row alike — whole columns move. -/
theorem sort_columns_perm (trans : ∀ a b c : α, le a b → le b c → le a c) (total : ∀ a b : α, le a b || le b a)
    {f g : Frame α} {asc : Bool} {key : Option (SortKeys α)}
    (h : f.sortColumns le asc key = .ok g) :
    ∃ order, order.Perm (List.range f.columns.length) ∧ g.columns = pick f.columns order ∧
      g.dtypes = pick f.dtypes order ∧ g.rows = f.rows.map (fun r => pick r order) ∧
      g.columns.Perm f.columns := by
  unfold Frame.sortColumns at h
  split at h
  · cases h
  · rename_i order ho
    simp only [Except.ok.injEq] at h
    subst h
    have hp := order_perm trans total ho
    exact ⟨order, hp, rfl, rfl, rfl, pick_perm _ hp⟩

theorem sort_values_cols_perm (trans : ∀ a b c : α, le a b → le b c → le a c) (total : ∀ a b : α, le a b || le b a)
    {f g : Frame α} {sel : List Nat} {asc : Bool} {key : Option (SortKeys α)}
    (h : f.sortValuesCols le sel asc key = .ok g) :
    ∃ order, order.Perm (List.range f.columns.length) ∧ g.columns = pick f.columns order ∧
      g.dtypes = pick f.dtypes order ∧ g.rows = f.rows.map (fun r => pick r order) ∧
      g.columns.Perm f.columns := by
  unfold Frame.sortValuesCols at h
  split at h
  · cases h
  · rename_i order ho
    simp only [Except.ok.injEq] at h
    subst h
    have hp := order_perm trans total ho
    exact ⟨order, hp, rfl, rfl, rfl, pick_perm _ hp⟩

/-- **sort_perm** for Series (`sort_index`; `sort_values` when the key vector has the series'
    length) and for `Index.sort` / `IndexHierarchy.sort`. -/
theorem series_sort_perm (trans : ∀ a b c : α, le a b → le b c → le a c) (total : ∀ a b : α, le a b || le b a)
    {s t : Series α} {asc : Bool} {key : Option (SortKeys α)}
    (hwf : s.index.length = s.values.length)
    (h : s.sortIndex le asc key = .ok t) : (t.index.zip t.values).Perm (s.index.zip s.values) := by
  unfold Series.sortIndex at h
  split at h
  · cases h
  · rename_i order ho
    simp only [Except.ok.injEq] at h
    subst h
    have hp := order_perm trans total ho
    simp only [Series.take]
    rw [← pick_zip _ _ hwf]
    apply pick_perm
    simpa [List.length_zip, hwf] using hp

theorem series_sort_values_perm (trans : ∀ a b c : α, le a b → le b c → le a c) (total : ∀ a b : α, le a b || le b a)
    (s : Series α) (asc : Bool) (key : Option (List α))
    (hwf : s.index.length = s.values.length) (hkey : (key.getD s.values).length = s.values.length) :
    ((s.sortValues le asc key).index.zip (s.sortValues le asc key).values).Perm (s.index.zip s.values) := by
  have ho : orderOf le s.values.length (.single (key.getD s.values)) = .ok (argsortStable le (key.getD s.values)) := by
    simp [orderOf, hkey]
  have hp := (order_spec trans total ho).1
  simp only [Series.sortValues, Series.take]
  rw [← pick_zip _ _ hwf]
  apply pick_perm
  cases asc
  · simpa [List.length_zip, hwf] using (List.reverse_perm _).trans hp
  · simpa [List.length_zip, hwf] using hp

theorem index_sort_perm (trans : ∀ a b c : α, le a b → le b c → le a c) (total : ∀ a b : α, le a b || le b a)
    {labels out : List (Label α)} {asc : Bool} {key : Option (SortKeys α)}
    (h : indexSort le labels asc key = .ok out) : out.Perm labels := by
  unfold indexSort at h
  split at h
  · cases h
  · rename_i order ho
    simp only [Except.ok.injEq] at h
    subst h
    exact pick_perm _ (order_perm trans total ho)

/-- **sort_sorted**: ascending, one key vector — the keys read in result order are non-decreasing. -/
theorem sort_sorted (trans : ∀ a b c : α, le a b → le b c → le a c) (total : ∀ a b : α, le a b || le b a)
    {n : Nat} {v : List α} {order : List Nat} (h : sortIndexForOrder le n (.single v) true = .ok order) :
    (pick v order).Pairwise (fun a b => le a b = true) := by
  unfold sortIndexForOrder at h
  split at h
  · cases h
  · rename_i o ho
    simp only [if_true, Except.ok.injEq] at h
    subst h
    have := (order_spec trans total ho).2
    simp only [LexBefore, SortKeys.cols, lexRel, List.map_cons, List.map_nil] at this
    unfold pick
    rw [List.pairwise_filterMap]
    refine this.imp ?_
    intro i j hij a ha b hb
    simp only [keyAt] at hij
    rw [ha, hb] at hij
    simpa [optLe] using hij.1

/-- **sort_sorted** for several key columns / index depths: ascending result positions are in
    lexicographic order of the key tuples, depth 0 (first selected column) being the primary key,
    and — included in `LexBefore` — rows whose whole key tuple ties stay in input order. -/
theorem sort_sorted_lex (trans : ∀ a b c : α, le a b → le b c → le a c) (total : ∀ a b : α, le a b || le b a)
    {n : Nat} {cols : List (List α)} {order : List Nat}
    (h : sortIndexForOrder le n (.multi cols) true = .ok order) :
    order.Pairwise (LexBefore le cols) := by
  unfold sortIndexForOrder at h
  split at h
  · cases h
  · rename_i o ho
    simp only [if_true, Except.ok.injEq] at h
    subst h
    exact (order_spec trans total ho).2

/-- **sort_stable**: ascending, one key vector — of two rows with tied keys the one that was first
    in the input is first in the result (for ANY two result positions, not only neighbours). -/
theorem sort_stable (trans : ∀ a b c : α, le a b → le b c → le a c) (total : ∀ a b : α, le a b || le b a)
    {n : Nat} {v : List α} {order : List Nat} (h : sortIndexForOrder le n (.single v) true = .ok order) :
    order.Pairwise (fun i j => optLe le v[j]? v[i]? = true → i < j) := by
  unfold sortIndexForOrder at h
  split at h
  · cases h
  · rename_i o ho
    simp only [if_true, Except.ok.injEq] at h
    subst h
    have := (order_spec trans total ho).2
    simp only [LexBefore, SortKeys.cols, lexRel, List.map_cons, List.map_nil] at this
    exact this.imp (fun hij => hij.2)

/-- **sort_unique**: permutation + lexicographic key order + stability determine the arrangement:
    any list of positions with these three properties IS the model's ascending order (this is why
    comparing with Python's stable `sorted` is an exact oracle). -/
theorem sort_unique (trans : ∀ a b c : α, le a b → le b c → le a c) (total : ∀ a b : α, le a b || le b a)
    {n : Nat} {cfs : SortKeys α} {order ps : List Nat} (h : orderOf le n cfs = .ok order)
    (hperm : ps.Perm (List.range n))
    (hsorted : ps.Pairwise (LexBefore le cfs.cols)) :
    ps = order := by
  obtain ⟨h1, h2⟩ := order_spec trans total h
  apply List.Perm.eq_of_pairwise (le := LexBefore le cfs.cols)
    _ hsorted h2 (hperm.trans h1.symm)
  intro a b _ _ hab hba
  exact absurd hba (fun hba => lexRel_asymm _ _ (fun i j (h1 : i < j) (h2 : j < i) => by omega) a b hab hba)

/-- **sort_desc_reverse**: the code's descending order is exactly the reverse of the ascending
    order vector (`order[::-1]`) … -/
theorem sort_desc_reverse (n : Nat) (cfs : SortKeys α) :
    sortIndexForOrder le n cfs false = (sortIndexForOrder le n cfs true).map List.reverse := by
  unfold sortIndexForOrder
  cases orderOf le n cfs <;> simp [Except.map]

/-- … so a descending `sort_index` is the ascending result with rows and labels reversed … -/
theorem sort_desc_reverse_frame (f : Frame α) (key : Option (SortKeys α)) :
    f.sortIndex le false key =
      (f.sortIndex le true key).map (fun g => { g with index := g.index.reverse, rows := g.rows.reverse }) := by
  unfold Frame.sortIndex
  rw [sort_desc_reverse]
  cases sortIndexForOrder le f.index.length (key.getD (labelKeys f.index)) true <;>
    simp [Except.map, Frame.takeRows, pick_reverse]

/-- … which means: keys non-increasing, and rows with TIED keys appear in REVERSED input order
    (a descending sort is not the stable sort of the negated keys). -/
theorem sort_desc_ties (trans : ∀ a b c : α, le a b → le b c → le a c) (total : ∀ a b : α, le a b || le b a)
    {n : Nat} {v : List α} {order : List Nat} (h : sortIndexForOrder le n (.single v) false = .ok order) :
    order.Pairwise (fun i j => optLe le v[j]? v[i]? = true ∧ (optLe le v[i]? v[j]? = true → j < i)) := by
  rw [sort_desc_reverse] at h
  cases hasc : sortIndexForOrder le n (.single v) true with
  | error e => rw [hasc] at h; cases h
  | ok o =>
    rw [hasc] at h
    simp only [Except.map, Except.ok.injEq] at h
    subst h
    rw [List.pairwise_reverse]
    unfold sortIndexForOrder at hasc
    split at hasc
    · cases hasc
    · rename_i o' ho
      simp only [if_true, Except.ok.injEq] at hasc
      subst hasc
      have := (order_spec trans total ho).2
      simpa [LexBefore, lexRel, SortKeys.cols] using this

/-- **sort_carries**: row-ordering methods leave name, column labels and dtypes untouched and move
    whole rows (every result row is an input row); column-ordering methods leave name and index
    untouched and apply one and the same rearrangement to every row. -/
theorem sort_carries {f g : Frame α} {asc : Bool} {key : Option (SortKeys α)} {sel : List Nat} :
    (f.sortIndex le asc key = .ok g ∨ f.sortValuesRows le sel asc key = .ok g →
      g.name = f.name ∧ g.columns = f.columns ∧ g.dtypes = f.dtypes ∧ ∀ r ∈ g.rows, r ∈ f.rows) ∧
    (f.sortColumns le asc key = .ok g ∨ f.sortValuesCols le sel asc key = .ok g →
      g.name = f.name ∧ g.index = f.index ∧ g.rows.length = f.rows.length) := by
  have hmem : ∀ (order : List Nat), ∀ r ∈ pick f.rows order, r ∈ f.rows := by
    intro order r hr
    simp only [pick, List.mem_filterMap] at hr
    obtain ⟨i, _, hi⟩ := hr
    exact List.mem_of_getElem? hi
  constructor
  · rintro (h | h)
    · unfold Frame.sortIndex at h
      split at h
      · cases h
      · simp only [Except.ok.injEq] at h; subst h
        exact ⟨rfl, rfl, rfl, hmem _⟩
    · unfold Frame.sortValuesRows at h
      split at h
      · cases h
      · simp only [Except.ok.injEq] at h; subst h
        exact ⟨rfl, rfl, rfl, hmem _⟩
  · rintro (h | h)
    · unfold Frame.sortColumns at h
      split at h
      · cases h
      · simp only [Except.ok.injEq] at h; subst h
        exact ⟨rfl, rfl, by simp [Frame.takeCols]⟩
    · unfold Frame.sortValuesCols at h
      split at h
      · cases h
      · simp only [Except.ok.injEq] at h; subst h
        exact ⟨rfl, rfl, by simp [Frame.takeCols]⟩

/-- A key function returning a 2-D array of exactly one column is sorted like that column given as
    a 1-D array (the code squeezes it: `v[:, 0]`; one `lexsort` pass = one `argsort`). -/
theorem one_column_key (n : Nat) (c : List α) :
    orderOf le n (.multi [c]) = orderOf le n (.single c) := by
  by_cases h : c.length = n
  · subst h
    simp [orderOf, lexsort, argsortStable]
  · simp [orderOf, h]

/-- A key function returning a container of the wrong length is rejected (RuntimeError), never
    silently truncated. -/
theorem key_length_checked (n : Nat) (v : List α) (asc : Bool) (h : v.length ≠ n) :
    sortIndexForOrder le n (.single v) asc = .error .shape := by
  simp [sortIndexForOrder, orderOf, h]

/-! ### non-vacuity: concrete instances (ties, negatives, two keys) -/

def leInt (a b : Int) : Bool := decide (a ≤ b)

example : sortIndexForOrder leInt 5 (.single [2, -1, 2, -1, 0]) true = .ok [1, 3, 4, 0, 2] := by
  simp [sortIndexForOrder, orderOf, argsortStable, sortOn, List.mergeSort,
    List.MergeSort.Internal.splitInTwo, optLe, leInt, List.range, List.range.loop]

example : sortIndexForOrder leInt 5 (.single [2, -1, 2, -1, 0]) false = .ok [2, 0, 4, 3, 1] := by
  simp [sortIndexForOrder, orderOf, argsortStable, sortOn, List.mergeSort,
    List.MergeSort.Internal.splitInTwo, optLe, leInt, List.range, List.range.loop]

/-- a 2-D key array of one column -/
example : sortIndexForOrder leInt 3 (.multi [[2, -1, 2]]) true = .ok [1, 0, 2] := by
  simp [sortIndexForOrder, orderOf, lexsort, sortOn, List.mergeSort,
    List.MergeSort.Internal.splitInTwo, optLe, leInt, List.range, List.range.loop]

/-- two depths: depth 0 is primary although `np.lexsort` takes it last -/
example : sortIndexForOrder leInt 4 (.multi [[1, 0, 1, 0], [5, 7, 4, 7]]) true = .ok [1, 3, 2, 0] := by
  simp [sortIndexForOrder, orderOf, lexsort, sortOn, List.mergeSort,
    List.MergeSort.Internal.splitInTwo, optLe, leInt, List.range, List.range.loop]

example : (∀ a b c : Int, leInt a b → leInt b c → leInt a c) ∧ (∀ a b : Int, leInt a b || leInt b a) := by
  constructor
  · intro a b c; simp only [leInt, decide_eq_true_eq]; omega
  · intro a b; simp only [leInt, Bool.or_eq_true, decide_eq_true_eq]; omega

end SF.C12
