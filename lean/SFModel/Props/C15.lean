/-
  C15 — axis reductions equal the independent per-column / per-row computation.

  Property theorems about the mirrored `TypeBlocks.ufunc_axis_skipna` (`ufuncAxisSkipna`), the
  ufunc pair semantics (`Red.apply`), the descriptor table (`desc`), the arg-min/max helpers and
  the cumulative operations of SFModel/Reduce.lean.  Helper lemmas: SFModel/ReduceLemmas.lean.
  Arithmetic is exact: an abstract associative operation with optional identity (sum/prod/all/any
  have one, min/max do not); floating-point rounding, integer overflow and NumPy's choice of
  output dtype are outside the model.
-/
import SFModel.ReduceLemmas

namespace SF.C15
open SF SF.Reduce

variable {α : Type}

/-- The shortcut flag is never set for a reduction that rejects missing cells (read off the table). -/
theorem unity_only_for_propagating (fn : Fn) (h : (desc fn).sizeOneUnity = true) :
    (desc fn).logical = false := by
  cases fn <;> simp_all [desc, Desc.logical]

/-- the two composable families of the table and the non-composable rest -/
theorem composable_table (fn : Fn) :
    (desc fn).composable = true ↔ (fn = .all ∨ fn = .any ∨ fn = .min ∨ fn = .max) := by
  cases fn <;> simp [desc]

/-- **Axis 0**: the block-wise result (unified call, or per block with the `size_one_unity`
    shortcut) is the per-vector function applied independently to every column of `cols`.
    `hunity`: the shortcut's claim, "the result of the operation on one cell is that cell". -/
theorem axis0_per_column (f : VecFn α) (d : Desc) (skipna : Bool) (tb : RTB α) (hwf : tb.WF)
    (hne : tb.blocks ≠ [])
    (hunity : d.sizeOneUnity = true → ∀ c, f false [c] = .ok c) :
    ufuncAxisSkipna f d skipna 0 tb = perColumn f skipna tb := by
  unfold ufuncAxisSkipna perColumn RTB.cols
  simp only [show ¬ (0 > 1) by omega, if_false]
  match hb : tb.blocks with
  | [] => exact absurd hb hne
  | [b] => simp
  | b1 :: b2 :: bs =>
    simp only [if_true]
    rw [mapM_flatMap]
    congr 1
    apply mapM_congr_mem
    intro b hmem
    exact axis0Block_eq hwf f d skipna hunity (by rw [hb]; exact hmem)

/-- The case the repaired shortcut (`out[pos] = b.reshape(-1)[0]`, fix 790a40a) is about: a one-row
    frame with any number of blocks, `skipna = False`, a function flagged `size_one_unity` — every block
    of one column takes the shortcut, and the result is still the per-column reduction. -/
theorem axis0_one_row_unity (r : Red α) (hrej : r.reject = false) (d : Desc) (tb : RTB α) (hwf : tb.WF)
    (hne : tb.blocks ≠ []) (_hrows : tb.rows = 1) :
    ufuncAxisSkipna r.apply d false 0 tb = perColumn r.apply false tb :=
  axis0_per_column r.apply d false tb hwf hne (fun _ c => by
    cases c with
    | none => simp [Red.apply, hrej]
    | some v => simp [Red.apply, osum, olift, Red.fin])

/-- the shortcut's claim holds for every lawful propagating reduction (sum, prod, min, max …) -/
theorem unity_claim (r : Red α) (hrej : r.reject = false) (c : Option α) : r.apply false [c] = .ok c := by
  cases c with
  | none => simp [Red.apply, hrej]
  | some v => simp [Red.apply, osum, olift, Red.fin]

/-- **Axis 1, composable functions** (min, max, all, any): reducing each block's part of a row
    first and then the per-block results (raw cells of one-column blocks are passed through) equals
    the one-stage reduction of the whole row — a fold over a contiguous partition. -/
theorem axis1_per_row (r : Red α) (hl : r.Lawful) (d : Desc) (skipna : Bool) (tb : RTB α)
    (hwf : tb.WF) (hne : tb.blocks ≠ []) (hcomp : d.composable = true) :
    ufuncAxisSkipna r.apply d skipna 1 tb = perRow r.apply skipna tb := by
  unfold ufuncAxisSkipna perRow
  simp only [show ¬ (1 > 1) by omega, if_false, show ¬ (1 = 0) by omega, hcomp, if_true]
  match hb : tb.blocks with
  | [] => exact absurd hb hne
  | [b] => simp [RTB.cols, hb]
  | b1 :: b2 :: bs =>
    simp only
    apply mapM_congr_mem
    intro i hi
    have hi' : i < tb.rows := by simpa using hi
    have hcells : rowOf tb.cols i = (b1 :: b2 :: bs).flatMap (fun b => rowOf b.cols i) := by
      unfold RTB.cols; rw [hb, rowOf_flatMap]
    rw [hcells]
    have hmem : ∀ b ∈ b1 :: b2 :: bs, b ∈ tb.blocks := by intro b h; rw [hb]; exact h
    cases skipna with
    | true =>
      exact two_stage_skip r hl _ (fun b => rowOf b.cols i) _
        (fun b h => rowOf_block_ne_nil hwf (hmem b h) hi')
        (fun b h => axis1Partial_cases hwf r.apply d true (hmem b h) hi')
    | false =>
      exact two_stage_prop r hl _ (fun b => rowOf b.cols i) _
        (fun b h => rowOf_block_ne_nil hwf (hmem b h) hi')
        (fun b h => axis1Partial_cases hwf r.apply d false (hmem b h) hi')

/-- **Axis 1, every other function** (sum, prod, mean, median, std, var): the blocks are
    consolidated and each row reduced once — per row by construction (`values_refines` of C03). -/
theorem axis1_per_row_consolidated (f : VecFn α) (d : Desc) (skipna : Bool) (tb : RTB α)
    (hne : tb.blocks ≠ []) (hcomp : d.composable = false) :
    ufuncAxisSkipna f d skipna 1 tb = perRow f skipna tb := by
  unfold ufuncAxisSkipna perRow
  simp only [show ¬ (1 > 1) by omega, if_false, show ¬ (1 = 0) by omega, hcomp]
  match hb : tb.blocks with
  | [] => exact absurd hb hne
  | [b] => simp [RTB.cols, hb]
  | b1 :: b2 :: bs => simp [RTB.cols, hb]

/-- **The answer does not depend on block layout**: two well-formed layouts of the same columns
    give the same result, on both axes, for every reduction of the table's two kinds. -/
theorem reduce_layout_invariant (r : Red α) (hl : r.Lawful) (d : Desc) (skipna : Bool) (axis : Nat)
    (tb1 tb2 : RTB α) (h1 : tb1.WF) (h2 : tb2.WF) (hne1 : tb1.blocks ≠ []) (hne2 : tb2.blocks ≠ [])
    (hcols : tb1.cols = tb2.cols) (hrows : tb1.rows = tb2.rows)
    (hunity : d.sizeOneUnity = true → r.reject = false) :
    ufuncAxisSkipna r.apply d skipna axis tb1 = ufuncAxisSkipna r.apply d skipna axis tb2 := by
  have hu : d.sizeOneUnity = true → ∀ c, r.apply false [c] = .ok c :=
    fun h c => unity_claim r (hunity h) c
  match axis with
  | 0 =>
    rw [axis0_per_column _ d skipna tb1 h1 hne1 hu, axis0_per_column _ d skipna tb2 h2 hne2 hu]
    unfold perColumn; rw [hcols]
  | 1 =>
    cases hc : d.composable with
    | true =>
      rw [axis1_per_row r hl d skipna tb1 h1 hne1 hc, axis1_per_row r hl d skipna tb2 h2 hne2 hc]
      unfold perRow; rw [hcols, hrows]
    | false =>
      rw [axis1_per_row_consolidated _ d skipna tb1 hne1 hc, axis1_per_row_consolidated _ d skipna tb2 hne2 hc]
      unfold perRow; rw [hcols, hrows]
  | n + 2 => simp [ufuncAxisSkipna]

/-- … and for an arbitrary per-vector function (mean, median, std, var, arg-min/max) on the paths
    that never compose: axis 0, and axis 1 when the descriptor says `composable = False`. -/
theorem reduce_layout_invariant_noncomposable (f : VecFn α) (d : Desc) (skipna : Bool) (axis : Nat)
    (tb1 tb2 : RTB α) (h1 : tb1.WF) (h2 : tb2.WF) (hne1 : tb1.blocks ≠ []) (hne2 : tb2.blocks ≠ [])
    (hcols : tb1.cols = tb2.cols) (hrows : tb1.rows = tb2.rows) (hc : d.composable = false)
    (hunity : d.sizeOneUnity = true → ∀ c, f false [c] = .ok c) :
    ufuncAxisSkipna f d skipna axis tb1 = ufuncAxisSkipna f d skipna axis tb2 := by
  match axis with
  | 0 =>
    rw [axis0_per_column _ d skipna tb1 h1 hne1 hunity, axis0_per_column _ d skipna tb2 h2 hne2 hunity]
    unfold perColumn; rw [hcols]
  | 1 =>
    rw [axis1_per_row_consolidated _ d skipna tb1 hne1 hc, axis1_per_row_consolidated _ d skipna tb2 hne2 hc]
    unfold perRow; rw [hcols, hrows]
  | n + 2 => simp [ufuncAxisSkipna]

/-- **Partial** — the composable path applied to a function that is *not* a lawful reduction is not
    per-row: the statement of `axis1_per_row` for an arbitrary `f` is false.  Counterexample: the
    "count of cells" function on a 1 + 2 column layout (2 blocks → 2, but 3 cells → 3). -/
theorem composable_needs_reduction_counterexample :
    ¬ (∀ (f : VecFn Int) (d : Desc) (tb : RTB Int), tb.WF → tb.blocks ≠ [] → d.composable = true →
        ufuncAxisSkipna f d true 1 tb = perRow f true tb) := by
  intro h
  let f : VecFn Int := fun _ xs => .ok (some xs.length)
  let tb : RTB Int := ⟨1, [.d1 false [some 5], .d2 false [[some 6], [some 7]]]⟩
  have hwf : tb.WF := by
    constructor
    · intro c hc; simp [tb, RTB.cols, RBlock.cols] at hc; rcases hc with rfl | rfl | rfl <;> rfl
    · intro b hb; simp [tb] at hb; rcases hb with rfl | rfl <;> simp [RBlock.cols]
  have := h f ⟨true, false, .rowDtype⟩ tb hwf (by simp [tb]) rfl
  revert this
  decide

/-! ### skipna semantics -/

/-- With skipna the missing cells are ignored: inserting a missing cell anywhere into a non-empty
    vector does not change the result. -/
theorem skipna_ignores_missing (r : Red α) (hl : r.Lawful) (pre post : List (Option α))
    (hne : pre ++ post ≠ []) :
    r.apply true (pre ++ none :: post) = r.apply true (pre ++ post) := by
  have h1 : osum r.op (pre ++ none :: post) = osum r.op (pre ++ post) := by
    rw [osum_append r.op hl.assoc, osum_cons r.op hl.assoc, olift_none_left, ← osum_append r.op hl.assoc]
  simp only [Red.apply, if_true, h1]
  apply fin_congr
  · have : (pre ++ post).length ≠ 0 := by simpa using hne
    simp only [List.length_append, List.length_cons] at *
    omega
  · intro _; rfl
  · intro _ _; rfl

/-- With skipna only the present cells count: the result is determined by them (and by whether the
    vector was empty). -/
theorem skipna_only_present (r : Red α) (hl : r.Lawful) (xs : List (Option α)) :
    osum r.op xs = osum r.op (xs.filter Option.isSome) := by
  induction xs with
  | nil => rfl
  | cons x xs ih =>
    cases x with
    | none => simp [osum_cons r.op hl.assoc, olift_none_left, ih]
    | some v => simp [osum_cons r.op hl.assoc, ih]

/-- Without skipna a missing cell propagates (the result is missing) or is rejected (logical
    reductions raise) — it is never treated as a number. -/
theorem skipna_semantics (r : Red α) (xs : List (Option α)) (hm : none ∈ xs) :
    (r.reject = false → r.apply false xs = .ok none) ∧
    (r.reject = true → r.apply false xs = .error .value) ∧
    (∀ v, r.apply false xs ≠ .ok (some v)) := by
  have hany : xs.any Option.isNone = true := by
    simp only [List.any_eq_true]; exact ⟨none, hm, rfl⟩
  refine ⟨?_, ?_, ?_⟩
  · intro h; simp [Red.apply, hany, h]
  · intro h; simp [Red.apply, hany, h]
  · intro v
    simp only [Red.apply, hany, Bool.false_eq_true, if_false, if_true]
    split <;> simp

/-- Without missing cells skipna makes no difference. -/
theorem skipna_irrelevant_without_missing (r : Red α) (xs : List (Option α))
    (h : xs.any Option.isNone = false) : r.apply true xs = r.apply false xs := by
  simp [Red.apply, h]

/-- `_ufunc_logical_skipna` (bool / int / str / float / object arrays) is the generic reduction with
    the identity of `and` / `or` and rejection of missing cells: missing cells are skipped with
    skipna, rejected (TypeError) without. -/
theorem logical_skipna_is_reduction (isAll : Bool) (kind : LKind) (hk : kind ≠ .nat) (skipna : Bool)
    (xs : List (Option Bool))
    (hkind : (kind = .b ∨ kind = .int ∨ kind = .str) → xs.any Option.isNone = false) :
    (logicalSkipna isAll kind skipna xs).map some = (redLogical isAll).apply skipna xs := by
  have hfold : ∀ ys : List (Option Bool), some (logicalFold isAll ys) =
      some ((osum (redLogical isAll).op ys).getD isAll) := by
    intro ys
    unfold logicalFold osum
    cases isAll
    · rw [getD_osum (redLogical false).op false (by simp [redLogical]) (by simp [redLogical])]
      simp [redLogical]
    · rw [getD_osum (redLogical true).op true (by simp [redLogical]) (by simp [redLogical])]
      simp [redLogical]
  have hfin : ∀ (n : Nat) (acc : Option Bool),
      (redLogical isAll).fin n acc = .ok (some (acc.getD isAll)) := by
    intro n acc
    cases isAll <;> cases acc <;> simp [Red.fin, redLogical]
  have hrej : (redLogical isAll).reject = true := by cases isAll <;> rfl
  unfold logicalSkipna Red.apply
  by_cases hnil : xs = []
  · subst hnil
    cases skipna <;> simp [hfin, Except.map, osum]
  · simp only [hnil, if_false, hrej, if_true]
    cases hna : xs.any Option.isNone
    · -- no missing cell
      cases kind <;> cases skipna <;>
        simp_all [hfin, Except.map, hfold]
    · have hnot : ¬ (kind = .b ∨ kind = .int ∨ kind = .str) := by
        intro h; rw [hkind h] at hna; cases hna
      cases kind <;> cases skipna <;> simp_all [hfin, Except.map, hfold]

/-- datetime64 / timedelta64 arrays: every present cell is truthy; NaT is rejected without skipna -/
theorem logical_skipna_nat_kind (isAll : Bool) (skipna : Bool) (xs : List (Option Bool)) (hne : xs ≠ []) :
    logicalSkipna isAll .nat skipna xs =
      if xs.any Option.isNone = true ∧ skipna = false then .error .value else .ok true := by
  unfold logicalSkipna
  cases skipna <;> simp [hne]

/-! ### cumulative operations -/

theorem cumGo_length (op : α → α → α) (e : α) (skipna : Bool) (acc : Option α) (xs : List (Option α)) :
    (cumGo op e skipna acc xs).length = xs.length := by
  induction xs generalizing acc with
  | nil => cases acc <;> rfl
  | cons x xs ih =>
    cases acc with
    | none => simp [cumGo, ih]
    | some a =>
      cases x with
      | none => cases skipna <;> simp [cumGo, ih]
      | some v => simp [cumGo, ih]

/-- Cumulative sums and products keep the shape: as many columns, each as long as before. -/
theorem cumulative_shape (op : α → α → α) (e : α) (skipna : Bool) (axis : Nat) (tb : RTB α)
    (hwf : tb.WF) :
    (cumFrame op e skipna axis tb).length = tb.cols.length ∧
    ∀ c ∈ cumFrame op e skipna axis tb, c.length = tb.rows := by
  unfold cumFrame
  split
  · refine ⟨by simp, ?_⟩
    intro c hc
    obtain ⟨c0, hc0, rfl⟩ := List.mem_map.mp hc
    rw [cumApply, cumGo_length]
    exact hwf.1 c0 hc0
  · refine ⟨by simp, ?_⟩
    intro c hc
    obtain ⟨j, hj, rfl⟩ := List.mem_map.mp hc
    have hj' : j < tb.cols.length := by simpa using hj
    have hrowlen : ∀ rw ∈ tb.rowList.map (cumApply op e skipna), rw.length = tb.cols.length := by
      intro rw hrw
      obtain ⟨r0, hr0, rfl⟩ := List.mem_map.mp hrw
      rw [cumApply, cumGo_length]
      obtain ⟨i, hi, rfl⟩ := List.mem_map.mp hr0
      exact rowOf_length_of_lt _ _ tb.rows hwf.1 (by simpa using hi)
    rw [rowOf_length_of_lt _ j tb.cols.length hrowlen hj']
    simp [RTB.rowList]

theorem cumGo_prefix (op : α → α → α) (e acc : α) (skipna : Bool) (xs : List α) (k : Nat) (hk : k < xs.length) :
    (cumGo op e skipna (some acc) (xs.map some))[k]? = some (some ((xs.take (k + 1)).foldl op acc)) := by
  induction xs generalizing acc k with
  | nil => cases hk
  | cons x xs ih =>
    simp only [List.map_cons, cumGo]
    cases k with
    | zero => simp
    | succ k =>
      simp only [List.getElem?_cons_succ, List.take_succ_cons, List.foldl_cons]
      exact ih (op acc x) k (by simpa using hk)

/-- The k-th cumulative value is the reduction of the first k+1 cells (all cells present). -/
theorem cumulative_prefix (op : α → α → α) (e : α) (skipna : Bool) (xs : List α) (k : Nat) (hk : k < xs.length) :
    (cumApply op e skipna (xs.map some))[k]? = some (some ((xs.take (k + 1)).foldl op e)) :=
  cumGo_prefix op e e skipna xs k hk

/-! ### arg-min / arg-max -/

/-- invariant of the scan: the remembered best is a present cell of the scanned prefix -/
theorem nanArgBestGo_spec (better : α → α → Bool) (xs pre : List (Option α)) (acc : Option (Nat × α))
    (hacc : ∀ (b : Nat) (v : α), acc = some (b, v) → pre[b]? = some (some v))
    (r : Nat × α) (h : nanArgBestGo better pre.length acc xs = some r) :
    (pre ++ xs)[r.1]? = some (some r.2) := by
  induction xs generalizing pre acc with
  | nil =>
    simp only [nanArgBestGo] at h
    rw [List.append_nil]
    exact hacc r.1 r.2 (by rw [h])
  | cons x xs ih =>
    have hlen : (pre ++ [x]).length = pre.length + 1 := by simp
    have happ : pre ++ x :: xs = (pre ++ [x]) ++ xs := by simp
    rw [happ]
    have keep : ∀ (b : Nat) (v : α), pre[b]? = some (some v) → (pre ++ [x])[b]? = some (some v) := by
      intro b v hb
      have hlt : b < pre.length := (List.getElem?_eq_some_iff.mp hb).1
      rw [List.getElem?_append_left hlt]; exact hb
    cases x with
    | none =>
      simp only [nanArgBestGo] at h
      rw [← hlen] at h
      exact ih (pre ++ [none]) acc (fun b v hbv => keep b v (hacc b v hbv)) h
    | some v =>
      have here : (pre ++ [some v])[pre.length]? = some (some v) := by simp
      cases acc with
      | none =>
        simp only [nanArgBestGo] at h
        rw [← hlen] at h
        exact ih (pre ++ [some v]) _ (fun b w hbw => by
          simp only [Option.some.injEq, Prod.mk.injEq] at hbw
          obtain ⟨rfl, rfl⟩ := hbw; exact here) h
      | some bb =>
        obtain ⟨b, bv⟩ := bb
        simp only [nanArgBestGo] at h
        split at h
        · rw [← hlen] at h
          exact ih (pre ++ [some v]) _ (fun b' w hbw => by
            simp only [Option.some.injEq, Prod.mk.injEq] at hbw
            obtain ⟨rfl, rfl⟩ := hbw; exact here) h
        · rw [← hlen] at h
          exact ih (pre ++ [some v]) _ (fun b' w hbw => keep b' w (hacc b' w hbw)) h

/-- The position answered by arg-min / arg-max addresses a present cell of the vector (a missing
    cell is never the answer, the position is in range). -/
theorem arg_best_present (better : α → α → Bool) (xs : List (Option α)) (i : Nat)
    (h : nanArgBest better xs = some i) : ∃ v, xs[i]? = some (some v) := by
  unfold nanArgBest at h
  cases hr : nanArgBestGo better 0 none xs with
  | none => rw [hr] at h; cases h
  | some r =>
    rw [hr] at h
    simp only [Option.map_some, Option.some.injEq] at h
    have := nanArgBestGo_spec better xs [] none (by intro b v h; cases h) r (by simpa using hr)
    rw [List.nil_append, h] at this
    exact ⟨r.2, this⟩

/-- Series (1-D helper): a vector with a missing cell and `skipna = False` answers NaN, never a
    position; an all-missing vector answers NaN with either flag. -/
theorem arg_best_1d_missing (better : α → α → Bool) (xs : List (Option α))
    (hm : none ∈ xs) : argBest1d better false xs = .ok none := by
  have hany : xs.any Option.isNone = true := by
    simp only [List.any_eq_true]; exact ⟨none, hm, rfl⟩
  unfold argBest1d
  simp only [hany]
  split <;> simp

/-! ### non-vacuity -/

/-- integer sum / min as lawful reductions -/
def sumInt : Red Int := ⟨(· + ·), some 0, false⟩
def minInt : Red Int := ⟨min, none, false⟩

theorem sumInt_lawful : sumInt.Lawful :=
  ⟨fun a b c => Int.add_assoc a b c, fun e he a => by simp [sumInt] at he; subst he; simp [sumInt],
   fun e he a => by simp [sumInt] at he; subst he; simp [sumInt]⟩

theorem minInt_lawful : minInt.Lawful :=
  ⟨fun a b c => by simp only [minInt]; omega, fun e he => by simp [minInt] at he,
   fun e he => by simp [minInt] at he⟩

/-- a 1 + 2 column layout with a missing cell: two-stage min over axis 1, skipna on and off -/
example : ufuncAxisSkipna minInt.apply (desc .min) true 1
    ⟨2, [.d1 false [some 5, none], .d2 false [[some 6, none], [some 2, some 9]]]⟩ = .ok [some 2, some 9] := by decide
example : ufuncAxisSkipna minInt.apply (desc .min) false 1
    ⟨2, [.d1 false [some 5, none], .d2 false [[some 6, none], [some 2, some 9]]]⟩ = .ok [some 2, none] := by decide
/-- the `size_one_unity` shortcut on a one-row frame with several blocks (1-D and 2-D, one of them
    wider than one column): the elements, and the propagated missing cell -/
example : ufuncAxisSkipna sumInt.apply (desc .sum) false 0
    ⟨1, [.d1 false [some 5], .d2 false [[none]]]⟩ = .ok [some 5, none] := by decide
example : ufuncAxisSkipna minInt.apply (desc .min) false 0
    ⟨1, [.d1 false [some 5], .d2 false [[some 2], [some 7]], .d2 false [[some 1]]]⟩
      = .ok [some 5, some 2, some 7, some 1] := by decide
example : cumFrame (· + ·) (0 : Int) true 1 ⟨2, [.d1 false [some 1, some 2], .d1 false [none, some 5]]⟩
    = [[some 1, some 2], [some 1, some 7]] := by decide
example : argBest2d (fun (a b : Int) => a < b) true [[some 3, none, some 1], [some 2, some 2, some 4]]
    = .ok [some 2, some 0] := by decide

end SF.C15
