/-
  C03 — block-manager transparency and structural coherence.

  `TB.cols` is the abstraction function; every mirrored operation is shown to act on `cols` as the
  plain list operation, for EVERY block layout; layout invariance is then a corollary.
-/
import SFModel.BlocksLemmas
import SFModel.BlocksCacheLemmas

namespace SF.C03
open SF SF.TB

variable {α : Type}

/-- a small concrete TypeBlocks (1-D block + 2-D block of width 2) used for non-vacuity examples -/
def tbEx : TB Nat := ⟨2, [.d1 "i" [1, 2], .d2 "f" [[3, 4], [5, 6]]]⟩

theorem tbEx_wf : tbEx.WF := by
  simp [tbEx, TB.WF, Block.RowsOk, Block.colsOf, Block.width]

/-- Structural coherence: the directory, the dtype list and the data agree on the shape. -/
theorem cols_wf (tb : TB α) (h : tb.WF) :
    tb.cols.length = tb.ncols ∧ (∀ c ∈ tb.cols, c.length = tb.rows) ∧
    tb.dtypes.length = tb.ncols ∧ tb.index.length = tb.ncols := by
  refine ⟨cols_length tb, ?_, dtypes_length tb, index_length tb⟩
  intro c hc
  simp only [cols, List.mem_flatMap] at hc
  obtain ⟨b, hb, hcb⟩ := hc
  exact h.2 b hb c hcb

example : tbEx.WF := tbEx_wf

/-- `from_blocks` yields a well-formed TypeBlocks whose columns are those of the non-empty blocks. -/
theorem fromBlocks_sound (bs : List (Block α)) (ref : Option Nat) (tb : TB α)
    (h : TB.fromBlocks bs ref = .ok tb) :
    tb.WF ∧ tb.cols = bs.flatMap Block.colsOf ∧ tb.dtypes = bs.flatMap (fun b => List.replicate b.width b.dt) :=
  TB.fromBlocks_spec bs ref tb h

example : TB.fromBlocks tbEx.blocks none = .ok tbEx := by decide

/-- The directory is exact: entry `j` names the block and the column inside it that hold column `j`. -/
theorem index_spec (tb : TB α) (j : Nat) (hj : j < tb.index.length) :
    ∃ blk, tb.blocks[(tb.index[j]).1]? = some blk ∧
      blk.colsOf[(tb.index[j]).2]? = tb.cols[j]? ∧ tb.dtypes[j]? = some blk.dt := by
  obtain ⟨blk, _, h2, _, h4, h5⟩ :=
    indexFrom_spec (α := α) 0 tb.blocks j (tb.index[j]).1 (tb.index[j]).2 (by show tb.index[j]? = _; rw [List.getElem?_eq_getElem hj])
  exact ⟨blk, h2, h4, h5⟩

example : (1 : Nat) < tbEx.index.length := by decide

/-- expansion of per-block selections back to `(block, column)` pairs -/
def expand (tb : TB α) (ps : List (Nat × BSel)) : Except Err (List (Nat × Nat)) :=
  (ps.mapM (m := Except Err) fun (p : Nat × BSel) =>
    match tb.blocks[p.1]? with
    | none => Except.error Err.lookup
    | some b => (p.2.positions b.width).map fun cs => cs.map fun c => (p.1, c)).map List.flatten

theorem expand_segs (tb : TB α) (segs : List Seg)
    (h : ∀ s ∈ segs, s.Good ∧ ∀ c ∈ s.run, (s.blk, c) ∈ tb.index) :
    expand tb (segs.map Seg.pair) = .ok (segs.flatMap Seg.cells) := by
  unfold expand
  rw [mapM_map_except_ok (g := Seg.cells)]
  · simp [Except.map, List.flatMap]
  · intro s hsm
    obtain ⟨⟨hm, hs⟩, hidx⟩ := h s hsm
    obtain ⟨c0, hc0⟩ := List.exists_mem_of_ne_nil _ hm.ne_nil
    obtain ⟨blk, hblk, _⟩ := mem_index (hidx c0 hc0)
    have hw : ∀ c ∈ s.run, c < blk.width := by
      intro c hc
      obtain ⟨blk', hblk', hlt⟩ := mem_index (hidx c hc)
      simp only at hblk' hlt hblk
      rw [hblk] at hblk'; cases hblk'; exact hlt
    have hpos := monoRun_positions hm hw hs
    simp only at hblk
    simp only [Seg.pair, hblk, BSel.positions, hpos]
    rfl

/-- `_indices_to_contiguous_pairs` loses nothing and reorders nothing: expanding the `(block, slice)`
    pairs gives back the `(block, column)` list, for any duplicate-free selection from the directory.
    (With a repeated column the ±1 run may change direction and `_cols_to_slice` returns a wrong
    slice — unreachable through Frame, whose column labels are unique; hence `Nodup`.) -/
theorem contiguous_pairs_expand (tb : TB α) (l : List (Nat × Nat)) (ps : List (Nat × BSel))
    (hl : ∀ p ∈ l, p ∈ tb.index) (hnd : l.Nodup) (h : contiguousPairs l none [] = some ps) :
    expand tb ps = .ok l := by
  obtain ⟨segs, rfl, hflat, hgood, _⟩ := contiguousPairs_struct l [] ps h hnd
  rw [expand_segs tb segs, hflat]
  intro s hs
  refine ⟨hgood s hs, fun c hc => hl _ ?_⟩
  rw [← hflat, List.mem_flatMap]
  exact ⟨s, hs, List.mem_map.mpr ⟨c, hc, rfl⟩⟩

example : contiguousPairs [(1, 1), (1, 0), (0, 0)] none [] =
      some [(1, .sl ⟨some 1, none, some (-1)⟩), (0, .sl ⟨some 0, some 1, none⟩)] ∧
    expand tbEx [(1, .sl ⟨some 1, none, some (-1)⟩), (0, .sl ⟨some 0, some 1, none⟩)]
      = .ok [(1, 1), (1, 0), (0, 0)] := by decide

theorem contiguous_pairs_total (l : List (Nat × Nat)) : ∃ ps, contiguousPairs l none [] = some ps := by
  cases l with
  | nil => exact ⟨[], rfl⟩
  | cons p rest =>
    obtain ⟨b, c⟩ := p
    simp only [contiguousPairs]
    exact contiguousPairs_total_some rest b c [c] (by simp)

/-- Selection refines list selection (every key kind; duplicate-free column positions).
    (Statement strengthened after the F28 repair of `_extract`: the row count of the result is
    always the number of selected rows.) -/
theorem extract_refines (tb : TB α) (h : tb.WF) (rk ck : Key) (rps cps : List Nat)
    (hck : ck.positions tb.ncols = .ok cps) (hnd : cps.Nodup) (hrk : rk.positions tb.rows = .ok rps) :
    ∃ r, tb.extract rk ck = .ok r ∧
      r.cols = cps.map (fun j => pick (tb.cols.getD j []) rps) ∧
      r.dtypes = cps.map (fun j => tb.dtypes.getD j "") ∧ r.rows = rps.length :=
  tb.extract_spec h rk ck rps cps hck hnd hrk

example : (Key.slice ⟨none, none, some (-1)⟩).positions tbEx.ncols = .ok [2, 1, 0] ∧
    (Key.list [-1]).positions tbEx.rows = .ok [1] ∧
    (tbEx.extract (.list [-1]) (.slice ⟨none, none, some (-1)⟩)).map TB.cols = .ok [[6], [4], [2]] := by
  decide

/-- THE PROPERTY (for selection): two layouts of the same logical frame give the same answer. -/
theorem layout_unobservable_extract (a b : TB α) (ha : a.WF) (hb : b.WF)
    (hc : a.cols = b.cols) (hd : a.dtypes = b.dtypes) (hr : a.rows = b.rows)
    (rk ck : Key) (rps cps : List Nat)
    (hck : ck.positions a.ncols = .ok cps) (hnd : cps.Nodup) (hrk : rk.positions a.rows = .ok rps) :
    ∃ ra rb, a.extract rk ck = .ok ra ∧ b.extract rk ck = .ok rb ∧
      ra.cols = rb.cols ∧ ra.dtypes = rb.dtypes := by
  have hn : a.ncols = b.ncols := by rw [← cols_length, ← cols_length, hc]
  obtain ⟨ra, h1, h2, h3, _⟩ := extract_refines a ha rk ck rps cps hck hnd hrk
  obtain ⟨rb, h1', h2', h3', _⟩ := extract_refines b hb rk ck rps cps (hn ▸ hck) hnd (hr ▸ hrk)
  exact ⟨ra, rb, h1, h1', by rw [h2, h2', hc], by rw [h3, h3', hd]⟩

/-- the same frame as `tbEx` in one consolidated-by-hand layout of three 1-D blocks -/
def tbEx' : TB Nat := ⟨2, [.d1 "i" [1, 2], .d1 "f" [3, 4], .d1 "f" [5, 6]]⟩

example : tbEx'.WF ∧ tbEx.cols = tbEx'.cols ∧ tbEx.dtypes = tbEx'.dtypes ∧ tbEx.rows = tbEx'.rows :=
  ⟨by simp [tbEx', TB.WF, Block.RowsOk, Block.colsOf, Block.width], by decide, by decide, rfl⟩

/-- consolidation changes the layout only -/
theorem consolidate_cols (bs : List (Block α)) :
    (TB.consolidate bs).flatMap Block.colsOf = bs.flatMap Block.colsOf ∧
    (TB.consolidate bs).flatMap (fun b => List.replicate b.width b.dt) = bs.flatMap (fun b => List.replicate b.width b.dt) := by
  induction bs with
  | nil => simp [consolidate]
  | cons b rest ih =>
    simp only [consolidate]
    split
    · rename_i hnil
      rw [hnil] at ih
      simp only [List.flatMap_nil] at ih
      simp [← ih.1, ← ih.2]
    · rename_i r rs hcons
      rw [hcons] at ih
      simp only [List.flatMap_cons] at ih
      split
      · rename_i hdt
        refine ⟨?_, ?_⟩
        · rw [List.flatMap_cons, List.flatMap_cons, ← ih.1]
          simp [Block.colsOf]
        · rw [List.flatMap_cons, List.flatMap_cons, ← ih.2]
          show List.replicate (b.colsOf ++ r.colsOf).length b.dt ++ _ = _
          rw [List.length_append, Block.colsOf_length, Block.colsOf_length, ← List.append_assoc, ← hdt,
            List.replicate_append_replicate]
      · simp only [List.flatMap_cons, ← ih.1, ← ih.2]
        simp

example : TB.consolidate [Block.d1 "i" [1, 2], .d1 "i" [3, 4]] = [.d2 "i" [[1, 2], [3, 4]]] := by decide

/-- append / extend only add columns on the right, or fail leaving nothing changed (pure function). -/
theorem append_cols (tb : TB α) (b : Block α) (r : TB α) (h : tb.append b = .ok r) (hw : tb.WF) :
    r.cols = tb.cols ++ b.colsOf ∧ r.rows = tb.rows ∧ r.WF := by
  unfold append at h
  split at h
  · rename_i t c
    split at h
    · cases h
    · rename_i hlen
      have hlen' : c.length = tb.rows := by simpa using hlen
      simp only [Except.ok.injEq] at h; subst h
      refine ⟨by simp [cols], rfl, ?_, ?_⟩
      · intro x hx
        simp only [List.mem_append, List.mem_singleton] at hx
        rcases hx with hx | rfl
        · exact hw.1 x hx
        · simp [Block.width]
      · intro x hx
        simp only [List.mem_append, List.mem_singleton] at hx
        rcases hx with hx | rfl
        · exact hw.2 x hx
        · intro y hy; simp [Block.colsOf] at hy; subst hy; exact hlen'
  · simp only [Except.ok.injEq] at h; subst h
    exact ⟨by simp [Block.colsOf], rfl, hw⟩
  · rename_i t c cs
    split at h
    · cases h
    · rename_i hcond
      simp only [not_or, Decidable.not_not] at hcond
      obtain ⟨hlen, hall⟩ := hcond
      simp only [Except.ok.injEq] at h; subst h
      refine ⟨by simp [cols], rfl, ?_, ?_⟩
      · intro x hx
        simp only [List.mem_append, List.mem_singleton] at hx
        rcases hx with hx | rfl
        · exact hw.1 x hx
        · simp [Block.width]
      · intro x hx
        simp only [List.mem_append, List.mem_singleton] at hx
        rcases hx with hx | rfl
        · exact hw.2 x hx
        · intro y hy
          simp only [Block.colsOf, List.mem_cons] at hy
          rcases hy with rfl | hy
          · exact hlen
          · rw [hall y hy]; exact hlen

example : ∃ r, tbEx.append (.d1 "b" [7, 8]) = .ok r := ⟨_, rfl⟩

theorem extend_cols (tb o r : TB α) (h : tb.extend o = .ok r) (hw : tb.WF) (ho : o.WF) :
    r.cols = tb.cols ++ o.cols ∧ r.rows = tb.rows ∧ r.WF := by
  unfold extend at h
  split at h
  · cases h
  · rename_i hrows
    have hrows' : o.rows = tb.rows := by simpa using hrows
    simp only [Except.ok.injEq] at h; subst h
    refine ⟨by simp [cols], rfl, ?_, ?_⟩
    · intro x hx
      simp only [List.mem_append] at hx
      rcases hx with hx | hx
      · exact hw.1 x hx
      · exact ho.1 x hx
    · intro x hx
      simp only [List.mem_append] at hx
      rcases hx with hx | hx
      · exact hw.2 x hx
      · have := ho.2 x hx; rw [hrows'] at this; exact this

example : ∃ r, tbEx.extend tbEx = .ok r := ⟨_, rfl⟩

/-! ### the incrementally maintained caches (`_shape`, `_index`, `_dtypes`, `_row_dtype`) -/

/-- a small resolution table for the examples: same → itself, int64 with float64 → float64 (what
    `util.resolve_dtype` answers), anything else → object -/
def resolveEx (a b : DT) : DT :=
  if a = b then a else if (a = "i8" ∧ b = "f8") ∨ (a = "f8" ∧ b = "i8") then "f8" else objectDT

/-- `from_blocks` sets caches that describe the stored blocks; its row dtype is the left fold of the
    resolution over the stored blocks (`resolve_dtype_iter`). -/
theorem caches_ofBlocks_coherent (resolve : DT → DT → DT) (bs : List (Block α)) (ref : Option Nat)
    (g : Grown α) (h : Grown.ofBlocks resolve bs ref = .ok g) :
    g.Coherent ∧ g.tb.WF ∧ TB.fromBlocks bs ref = .ok g.tb ∧
    g.caches.rowDtype = Caches.initRowDtype resolve g.tb.blocks :=
  Grown.ofBlocks_inv resolve bs ref g h

example : (Grown.ofBlocks resolveEx tbEx.blocks none).map (·.caches) =
    .ok ⟨(2, 3), [(0, 0), (1, 0), (1, 1)], ["i", "f", "f"], some objectDT⟩ := by decide

/-- One `append` keeps the caches equal to what a recomputation from the new block list gives, the
    blocks change as in `TB.append`, and the kept row dtype follows the rule of the code: the dtype
    of the first stored block, `object` as soon as a stored block of a different dtype arrives
    (a zero-width 2-D block changes nothing). -/
theorem caches_append_coherent (g g' : Grown α) (b : Block α) (hc : g.Coherent)
    (h : g.append b = .ok g') :
    g'.Coherent ∧ g.tb.append b = .ok g'.tb ∧
    g'.caches.rowDtype =
      if b.width = 0 then g.caches.rowDtype
      else match g.caches.rowDtype with
        | none => some b.dt
        | some r => if b.dt ≠ r then some objectDT else some r := by
  obtain ⟨h1, h2, _, _, h5⟩ := Grown.append_inv g g' b hc h
  refine ⟨h1, h2, ?_⟩
  rw [h5]
  cases g.caches.rowDtype <;> rfl

example : ((Grown.empty 2 : Grown Nat).append (.d1 "i" [1, 2])).map (·.caches) =
    .ok ⟨(2, 1), [(0, 0)], ["i"], some "i"⟩ := by decide

example : (Grown.empty 2 : Grown Nat).Coherent := ⟨rfl, rfl, rfl⟩

/-- EVERY history of `append` / `extend(iterable)` / `extend(TypeBlocks)` calls — including calls
    that raise, and an `extend` that raises after having appended some blocks — from a coherent
    start leaves caches equal to the recomputation from the final block list
    (`_shape = (rows, total width)`, `_index = TB.index`, `_dtypes = TB.dtypes`), the blocks are the
    old ones plus well-formed blocks on the right, and the row dtype is the `append` rule folded
    over the dtypes of the added blocks. -/
theorem caches_history_coherent (g : Grown α) (ops : List (CacheOp α)) (hc : g.Coherent) :
    (g.run ops).Coherent ∧ (g.run ops).tb.rows = g.tb.rows ∧ (g.tb.WF → (g.run ops).tb.WF) ∧
    ∃ added : List (Block α), (g.run ops).tb.blocks = g.tb.blocks ++ added ∧
      (∀ b ∈ added, 0 < b.width ∧ b.RowsOk g.tb.rows) ∧
      (g.run ops).caches.rowDtype = (added.map Block.dt).foldl Caches.appendRowDtype g.caches.rowDtype := by
  obtain ⟨h1, h2⟩ := Grown.run_ext g ops hc
  exact ⟨h1, h2.1, h2.wf, h2.2⟩

/-- the history used below: an append, a zero-width block, a block of the wrong length (raises), an
    `extend` whose second block raises (the first one stays), an `extend` with a TypeBlocks -/
def opsEx : List (CacheOp Nat) :=
  [.append (.d1 "i" [1, 2]), .append (.d2 "f" []), .append (.d1 "i" [1]),
   .extendIter [.d2 "i" [[3, 4], [5, 6]], .d1 "i" [7]], .extend ⟨2, [.d1 "f" [8, 9]]⟩]

example : ((Grown.empty 2).run opsEx).caches =
      ⟨(2, 4), [(0, 0), (1, 0), (1, 1), (2, 0)], ["i", "i", "i", "f"], some objectDT⟩ ∧
    (Grown.empty 2).runErrs opsEx = [none, none, some .shape, some .shape, none] := by decide

/-- The row dtype a history of growth calls keeps, in closed form, when something was stored at the
    start (row dtype `some r`): `r` while every added block has dtype `r`, else `object`. -/
theorem caches_history_row_dtype (g : Grown α) (ops : List (CacheOp α)) (r : DT) (hc : g.Coherent)
    (hr : g.caches.rowDtype = some r) :
    ∃ added : List (Block α), (g.run ops).tb.blocks = g.tb.blocks ++ added ∧
      (g.run ops).caches.rowDtype = some (if ∀ b ∈ added, b.dt = r then r else objectDT) := by
  obtain ⟨_, _, added, hb, _, hd⟩ := Grown.run_ext g ops hc
  refine ⟨added, hb, ?_⟩
  rw [hd, hr, Caches.foldl_appendRowDtype_some]
  simp

/-- A TypeBlocks grown from nothing (`from_zero_size_shape((rows, 0))`, what `FrameGO(index=…)`
    starts from): after any history the caches are the recomputation from the blocks and the row
    dtype is `None` when nothing is stored, else the COMMON dtype of the blocks when they all have
    one dtype, else `object`. -/
theorem caches_grown_from_empty (rows : Nat) (ops : List (CacheOp α)) :
    let g := (Grown.empty rows : Grown α).run ops
    g.caches.shape = (rows, g.tb.ncols) ∧ g.caches.index = g.tb.index ∧ g.caches.dtypes = g.tb.dtypes ∧
    g.tb.WF ∧ g.tb.rows = rows ∧
    g.caches.rowDtype = match g.tb.blocks with
      | [] => none
      | b :: bs => some (if ∀ x ∈ bs, x.dt = b.dt then b.dt else objectDT) := by
  intro g
  have hc0 : (Grown.empty rows : Grown α).Coherent := ⟨rfl, rfl, rfl⟩
  have hw0 : (Grown.empty rows : Grown α).tb.WF := ⟨by simp [Grown.empty], by simp [Grown.empty]⟩
  obtain ⟨⟨h1, h2, h3⟩, hr, added, hb, _, hd⟩ := Grown.run_ext (Grown.empty rows : Grown α) ops hc0
  have hwf := Grown.Ext.wf ⟨hr, added, hb, ‹_›, hd⟩ hw0
  have hr' : g.tb.rows = rows := hr
  refine ⟨by rw [h1, hr'], h2, h3, hwf, hr', ?_⟩
  have hb' : g.tb.blocks = added := hb.trans (List.nil_append added)
  have hd' : g.caches.rowDtype = (added.map Block.dt).foldl Caches.appendRowDtype none := hd
  rw [hd', hb']
  cases added with
  | nil => rfl
  | cons b bs =>
    rw [List.map_cons, Caches.foldl_appendRowDtype_none]
    simp

/-- HISTORY DEPENDENCE of `_row_dtype`: the same two blocks (int64, float64) give row dtype
    `float64` when passed to `from_blocks` at once (`resolve_dtype(int64, float64) = float64`) and
    `object` when the second is appended to a TypeBlocks built from the first — same blocks, same
    shape / index / dtypes, different row dtype.  (Replayed on the real code: `FrameGO` grown column
    by column has `.values.dtype == object`, the `Frame` built at once `float64`.) -/
theorem row_dtype_history_differs :
    ∃ g1 g0 : Grown Nat,
      Grown.ofBlocks resolveEx [.d1 "i8" [1, 2], .d1 "f8" [3, 4]] none = .ok g1 ∧
      Grown.ofBlocks resolveEx [.d1 "i8" [1, 2]] none = .ok g0 ∧
      (g0.run [.append (.d1 "f8" [3, 4])]).tb = g1.tb ∧
      (g0.run [.append (.d1 "f8" [3, 4])]).caches.shape = g1.caches.shape ∧
      (g0.run [.append (.d1 "f8" [3, 4])]).caches.index = g1.caches.index ∧
      (g0.run [.append (.d1 "f8" [3, 4])]).caches.dtypes = g1.caches.dtypes ∧
      g1.caches.rowDtype = some "f8" ∧
      (g0.run [.append (.d1 "f8" [3, 4])]).caches.rowDtype = some objectDT :=
  ⟨⟨⟨2, [.d1 "i8" [1, 2], .d1 "f8" [3, 4]]⟩, ⟨(2, 2), [(0, 0), (1, 0)], ["i8", "f8"], some "f8"⟩⟩,
   ⟨⟨2, [.d1 "i8" [1, 2]]⟩, ⟨(2, 1), [(0, 0)], ["i8"], some "i8"⟩⟩,
   by decide, by decide, by decide, by decide, by decide, by decide, by decide, by decide⟩

/-- … and the dependence is exactly the coercing part of `resolve_dtype`: under a resolution that
    never coerces (same → itself, different → object) `from_blocks` computes the row dtype that
    growing block by block from nothing keeps. -/
theorem row_dtype_history_agrees_of_preserving (resolve : DT → DT → DT)
    (hs : ∀ a, resolve a a = a) (hd : ∀ a b, a ≠ b → resolve a b = objectDT) (bs : List (Block α)) :
    Caches.initRowDtype resolve bs = (bs.map Block.dt).foldl Caches.appendRowDtype none := by
  cases bs with
  | nil => rfl
  | cons b rest =>
    rw [List.map_cons, Caches.foldl_appendRowDtype_none, Caches.initRowDtype,
      Caches.resolveIter_preserving resolve hs hd]

example : (∀ a, (fun a b : DT => if a = b then a else objectDT) a a = a) ∧
    (∀ a b : DT, a ≠ b → (fun a b : DT => if a = b then a else objectDT) a b = objectDT) :=
  ⟨by simp, by intro a b h; simp [h]⟩

end SF.C03
