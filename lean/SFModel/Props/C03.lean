/-
  C03 — block-manager transparency and structural coherence.

  `TB.cols` is the abstraction function; every mirrored operation is shown to act on `cols` as the
  plain list operation, for EVERY block layout; layout invariance is then a corollary.
-/
import SFModel.BlocksLemmas

namespace SF.C03
open SF SF.TB

variable {α : Type}

/-- Structural coherence: the directory, the dtype list and the data agree on the shape. -/
theorem cols_wf (tb : TB α) (h : tb.WF) :
    tb.cols.length = tb.ncols ∧ (∀ c ∈ tb.cols, c.length = tb.rows) ∧
    tb.dtypes.length = tb.ncols ∧ tb.index.length = tb.ncols := by
  sorry

/-- `from_blocks` yields a well-formed TypeBlocks whose columns are those of the non-empty blocks. -/
theorem fromBlocks_sound (bs : List (Block α)) (ref : Option Nat) (tb : TB α)
    (h : TB.fromBlocks bs ref = .ok tb) :
    tb.WF ∧ tb.cols = bs.flatMap Block.colsOf ∧ tb.dtypes = bs.flatMap (fun b => List.replicate b.width b.dt) := by
  sorry

/-- The directory is exact: entry `j` names the block and the column inside it that hold column `j`. -/
theorem index_spec (tb : TB α) (j : Nat) (hj : j < tb.index.length) :
    ∃ blk, tb.blocks[(tb.index[j]).1]? = some blk ∧
      blk.colsOf[(tb.index[j]).2]? = tb.cols[j]? ∧ tb.dtypes[j]? = some blk.dt := by
  sorry

/-- expansion of per-block selections back to `(block, column)` pairs -/
def expand (tb : TB α) (ps : List (Nat × BSel)) : Except Err (List (Nat × Nat)) :=
  (ps.mapM (m := Except Err) fun (p : Nat × BSel) =>
    match tb.blocks[p.1]? with
    | none => Except.error Err.lookup
    | some b => (p.2.positions b.width).map fun cs => cs.map fun c => (p.1, c)).map List.flatten

/-- `_indices_to_contiguous_pairs` loses nothing and reorders nothing: expanding the `(block, slice)`
    pairs gives back the `(block, column)` list, for any duplicate-free selection from the directory.
    (With a repeated column the ±1 run may change direction and `_cols_to_slice` returns a wrong
    slice — unreachable through Frame, whose column labels are unique; hence `Nodup`.) -/
theorem contiguous_pairs_expand (tb : TB α) (l : List (Nat × Nat)) (ps : List (Nat × BSel))
    (hl : ∀ p ∈ l, p ∈ tb.index) (hnd : l.Nodup) (h : contiguousPairs l none [] = some ps) :
    expand tb ps = .ok l := by
  sorry

theorem contiguous_pairs_total (l : List (Nat × Nat)) : ∃ ps, contiguousPairs l none [] = some ps := by
  sorry

/-- Selection refines list selection (every key kind; duplicate-free column positions). -/
theorem extract_refines (tb : TB α) (h : tb.WF) (rk ck : Key) (rps cps : List Nat)
    (hck : ck.positions tb.ncols = .ok cps) (hnd : cps.Nodup) (hrk : rk.positions tb.rows = .ok rps) :
    ∃ r, tb.extract rk ck = .ok r ∧
      r.cols = cps.map (fun j => pick (tb.cols.getD j []) rps) ∧
      r.dtypes = cps.map (fun j => tb.dtypes.getD j "") := by
  sorry

/-- THE PROPERTY (for selection): two layouts of the same logical frame give the same answer. -/
theorem layout_unobservable_extract (a b : TB α) (ha : a.WF) (hb : b.WF)
    (hc : a.cols = b.cols) (hd : a.dtypes = b.dtypes) (hr : a.rows = b.rows)
    (rk ck : Key) (rps cps : List Nat)
    (hck : ck.positions a.ncols = .ok cps) (hnd : cps.Nodup) (hrk : rk.positions a.rows = .ok rps) :
    ∃ ra rb, a.extract rk ck = .ok ra ∧ b.extract rk ck = .ok rb ∧
      ra.cols = rb.cols ∧ ra.dtypes = rb.dtypes := by
  sorry

/-- consolidation changes the layout only -/
theorem consolidate_cols (bs : List (Block α)) :
    (TB.consolidate bs).flatMap Block.colsOf = bs.flatMap Block.colsOf ∧
    (TB.consolidate bs).flatMap (fun b => List.replicate b.width b.dt) = bs.flatMap (fun b => List.replicate b.width b.dt) := by
  sorry

/-- append / extend only add columns on the right, or fail leaving nothing changed (pure function). -/
theorem append_cols (tb : TB α) (b : Block α) (r : TB α) (h : tb.append b = .ok r) (hw : tb.WF) :
    r.cols = tb.cols ++ b.colsOf ∧ r.rows = tb.rows ∧ r.WF := by
  sorry

theorem extend_cols (tb o r : TB α) (h : tb.extend o = .ok r) (hw : tb.WF) (ho : o.WF) :
    r.cols = tb.cols ++ o.cols ∧ r.rows = tb.rows ∧ r.WF := by
  sorry

end SF.C03
