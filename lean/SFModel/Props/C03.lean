/-
  C03 — block-manager transparency and structural coherence.

  `TB.cols` is the abstraction function; every mirrored operation is shown to act on `cols` as the
  plain list operation, for EVERY block layout; layout invariance is then a corollary.
-/
import SFModel.BlocksLemmas

namespace SF.C03
open SF SF.TB

variable {α : Type}

/-- a small concrete TypeBlocks (1-D block + 2-D block of width 2) used for non-vacuity examples -/
def tbEx : TB Nat := ⟨2, [.d1 "i" [1, 2], .d2 "f" [[3, 4], [5, 6]]]⟩

theorem tbEx_wf : tbEx.WF := by
  simp [tbEx, TB.WF, Block.RowsOk, Block.colsOf, Block.width]

/-- Structural coherence: the directory, the dtype list and the data agree on the shape. -/
theorem cols_wf (tb : TB α) (h : tb.WF) :
    tb.cols.length = tb.ncols ∧ (∀ c ∈ tb.cols, c.length = tb.rows) ∧
    tb.dtypes.length = tb.ncols ∧ tb.index.length = tb.ncols := by
  refine ⟨cols_length tb, ?_, dtypes_length tb, index_length tb⟩
  intro c hc
  simp only [cols, List.mem_flatMap] at hc
  obtain ⟨b, hb, hcb⟩ := hc
  exact h.2 b hb c hcb

example : tbEx.WF := tbEx_wf

/-- `from_blocks` yields a well-formed TypeBlocks whose columns are those of the non-empty blocks. -/
theorem fromBlocks_sound (bs : List (Block α)) (ref : Option Nat) (tb : TB α)
    (h : TB.fromBlocks bs ref = .ok tb) :
    tb.WF ∧ tb.cols = bs.flatMap Block.colsOf ∧ tb.dtypes = bs.flatMap (fun b => List.replicate b.width b.dt) :=
  TB.fromBlocks_spec bs ref tb h

example : TB.fromBlocks tbEx.blocks none = .ok tbEx := by decide

/-- The directory is exact: entry `j` names the block and the column inside it that hold column `j`. -/
theorem index_spec (tb : TB α) (j : Nat) (hj : j < tb.index.length) :
    ∃ blk, tb.blocks[(tb.index[j]).1]? = some blk ∧
      blk.colsOf[(tb.index[j]).2]? = tb.cols[j]? ∧ tb.dtypes[j]? = some blk.dt := by
  obtain ⟨blk, _, h2, _, h4, h5⟩ :=
    indexFrom_spec (α := α) 0 tb.blocks j (tb.index[j]).1 (tb.index[j]).2 (by show tb.index[j]? = _; rw [List.getElem?_eq_getElem hj])
  exact ⟨blk, h2, h4, h5⟩

example : (1 : Nat) < tbEx.index.length := by decide

/-- expansion of per-block selections back to `(block, column)` pairs -/
def expand (tb : TB α) (ps : List (Nat × BSel)) : Except Err (List (Nat × Nat)) :=
  (ps.mapM (m := Except Err) fun (p : Nat × BSel) =>
    match tb.blocks[p.1]? with
    | none => Except.error Err.lookup
    | some b => (p.2.positions b.width).map fun cs => cs.map fun c => (p.1, c)).map List.flatten

theorem expand_segs (tb : TB α) (segs : List Seg)
    (h : ∀ s ∈ segs, s.Good ∧ ∀ c ∈ s.run, (s.blk, c) ∈ tb.index) :
    expand tb (segs.map Seg.pair) = .ok (segs.flatMap Seg.cells) := by
  unfold expand
  rw [mapM_map_except_ok (g := Seg.cells)]
  · simp [Except.map, List.flatMap]
  · intro s hsm
    obtain ⟨⟨hm, hs⟩, hidx⟩ := h s hsm
    obtain ⟨c0, hc0⟩ := List.exists_mem_of_ne_nil _ hm.ne_nil
    obtain ⟨blk, hblk, _⟩ := mem_index (hidx c0 hc0)
    have hw : ∀ c ∈ s.run, c < blk.width := by
      intro c hc
      obtain ⟨blk', hblk', hlt⟩ := mem_index (hidx c hc)
      simp only at hblk' hlt hblk
      rw [hblk] at hblk'; cases hblk'; exact hlt
    have hpos := monoRun_positions hm hw hs
    simp only at hblk
    simp only [Seg.pair, hblk, BSel.positions, hpos]
    rfl

/-- `_indices_to_contiguous_pairs` loses nothing and reorders nothing: expanding the `(block, slice)`
    pairs gives back the `(block, column)` list, for any duplicate-free selection from the directory.
    (With a repeated column the ±1 run may change direction and `_cols_to_slice` returns a wrong
    slice — unreachable through Frame, whose column labels are unique; hence `Nodup`.) -/
theorem contiguous_pairs_expand (tb : TB α) (l : List (Nat × Nat)) (ps : List (Nat × BSel))
    (hl : ∀ p ∈ l, p ∈ tb.index) (hnd : l.Nodup) (h : contiguousPairs l none [] = some ps) :
    expand tb ps = .ok l := by
  obtain ⟨segs, rfl, hflat, hgood, _⟩ := contiguousPairs_struct l [] ps h hnd
  rw [expand_segs tb segs, hflat]
  intro s hs
  refine ⟨hgood s hs, fun c hc => hl _ ?_⟩
  rw [← hflat, List.mem_flatMap]
  exact ⟨s, hs, List.mem_map.mpr ⟨c, hc, rfl⟩⟩

example : contiguousPairs [(1, 1), (1, 0), (0, 0)] none [] =
      some [(1, .sl ⟨some 1, none, some (-1)⟩), (0, .sl ⟨some 0, some 1, none⟩)] ∧
    expand tbEx [(1, .sl ⟨some 1, none, some (-1)⟩), (0, .sl ⟨some 0, some 1, none⟩)]
      = .ok [(1, 1), (1, 0), (0, 0)] := by decide

theorem contiguous_pairs_total (l : List (Nat × Nat)) : ∃ ps, contiguousPairs l none [] = some ps := by
  cases l with
  | nil => exact ⟨[], rfl⟩
  | cons p rest =>
    obtain ⟨b, c⟩ := p
    simp only [contiguousPairs]
    exact contiguousPairs_total_some rest b c [c] (by simp)

/-- Selection refines list selection (every key kind; duplicate-free column positions).
    (Statement strengthened after the F28 repair of `_extract`: the row count of the result is
    always the number of selected rows.) -/
theorem extract_refines (tb : TB α) (h : tb.WF) (rk ck : Key) (rps cps : List Nat)
    (hck : ck.positions tb.ncols = .ok cps) (hnd : cps.Nodup) (hrk : rk.positions tb.rows = .ok rps) :
    ∃ r, tb.extract rk ck = .ok r ∧
      r.cols = cps.map (fun j => pick (tb.cols.getD j []) rps) ∧
      r.dtypes = cps.map (fun j => tb.dtypes.getD j "") ∧ r.rows = rps.length :=
  tb.extract_spec h rk ck rps cps hck hnd hrk

example : (Key.slice ⟨none, none, some (-1)⟩).positions tbEx.ncols = .ok [2, 1, 0] ∧
    (Key.list [-1]).positions tbEx.rows = .ok [1] ∧
    (tbEx.extract (.list [-1]) (.slice ⟨none, none, some (-1)⟩)).map TB.cols = .ok [[6], [4], [2]] := by
  decide

/-- THE PROPERTY (for selection): two layouts of the same logical frame give the same answer. -/
theorem layout_unobservable_extract (a b : TB α) (ha : a.WF) (hb : b.WF)
    (hc : a.cols = b.cols) (hd : a.dtypes = b.dtypes) (hr : a.rows = b.rows)
    (rk ck : Key) (rps cps : List Nat)
    (hck : ck.positions a.ncols = .ok cps) (hnd : cps.Nodup) (hrk : rk.positions a.rows = .ok rps) :
    ∃ ra rb, a.extract rk ck = .ok ra ∧ b.extract rk ck = .ok rb ∧
      ra.cols = rb.cols ∧ ra.dtypes = rb.dtypes := by
  have hn : a.ncols = b.ncols := by rw [← cols_length, ← cols_length, hc]
  obtain ⟨ra, h1, h2, h3, _⟩ := extract_refines a ha rk ck rps cps hck hnd hrk
  obtain ⟨rb, h1', h2', h3', _⟩ := extract_refines b hb rk ck rps cps (hn ▸ hck) hnd (hr ▸ hrk)
  exact ⟨ra, rb, h1, h1', by rw [h2, h2', hc], by rw [h3, h3', hd]⟩

/-- the same frame as `tbEx` in one consolidated-by-hand layout of three 1-D blocks -/
def tbEx' : TB Nat := ⟨2, [.d1 "i" [1, 2], .d1 "f" [3, 4], .d1 "f" [5, 6]]⟩

example : tbEx'.WF ∧ tbEx.cols = tbEx'.cols ∧ tbEx.dtypes = tbEx'.dtypes ∧ tbEx.rows = tbEx'.rows :=
  ⟨by simp [tbEx', TB.WF, Block.RowsOk, Block.colsOf, Block.width], by decide, by decide, rfl⟩

/-- consolidation changes the layout only -/
theorem consolidate_cols (bs : List (Block α)) :
    (TB.consolidate bs).flatMap Block.colsOf = bs.flatMap Block.colsOf ∧
    (TB.consolidate bs).flatMap (fun b => List.replicate b.width b.dt) = bs.flatMap (fun b => List.replicate b.width b.dt) := by
  induction bs with
  | nil => simp [consolidate]
  | cons b rest ih =>
    simp only [consolidate]
    split
    · rename_i hnil
      rw [hnil] at ih
      simp only [List.flatMap_nil] at ih
      simp [← ih.1, ← ih.2]
    · rename_i r rs hcons
      rw [hcons] at ih
      simp only [List.flatMap_cons] at ih
      split
      · rename_i hdt
        refine ⟨?_, ?_⟩
        · rw [List.flatMap_cons, List.flatMap_cons, ← ih.1]
          simp [Block.colsOf]
        · rw [List.flatMap_cons, List.flatMap_cons, ← ih.2]
          show List.replicate (b.colsOf ++ r.colsOf).length b.dt ++ _ = _
          rw [List.length_append, Block.colsOf_length, Block.colsOf_length, ← List.append_assoc, ← hdt,
            List.replicate_append_replicate]
      · simp only [List.flatMap_cons, ← ih.1, ← ih.2]
        simp

example : TB.consolidate [Block.d1 "i" [1, 2], .d1 "i" [3, 4]] = [.d2 "i" [[1, 2], [3, 4]]] := by decide

/-- append / extend only add columns on the right, or fail leaving nothing changed (pure function). -/
theorem append_cols (tb : TB α) (b : Block α) (r : TB α) (h : tb.append b = .ok r) (hw : tb.WF) :
    r.cols = tb.cols ++ b.colsOf ∧ r.rows = tb.rows ∧ r.WF := by
  unfold append at h
  split at h
  · rename_i t c
    split at h
    · cases h
    · rename_i hlen
      have hlen' : c.length = tb.rows := by simpa using hlen
      simp only [Except.ok.injEq] at h; subst h
      refine ⟨by simp [cols], rfl, ?_, ?_⟩
      · intro x hx
        simp only [List.mem_append, List.mem_singleton] at hx
        rcases hx with hx | rfl
        · exact hw.1 x hx
        · simp [Block.width]
      · intro x hx
        simp only [List.mem_append, List.mem_singleton] at hx
        rcases hx with hx | rfl
        · exact hw.2 x hx
        · intro y hy; simp [Block.colsOf] at hy; subst hy; exact hlen'
  · simp only [Except.ok.injEq] at h; subst h
    exact ⟨by simp [Block.colsOf], rfl, hw⟩
  · rename_i t c cs
    split at h
    · cases h
    · rename_i hcond
      simp only [not_or, Decidable.not_not] at hcond
      obtain ⟨hlen, hall⟩ := hcond
      simp only [Except.ok.injEq] at h; subst h
      refine ⟨by simp [cols], rfl, ?_, ?_⟩
      · intro x hx
        simp only [List.mem_append, List.mem_singleton] at hx
        rcases hx with hx | rfl
        · exact hw.1 x hx
        · simp [Block.width]
      · intro x hx
        simp only [List.mem_append, List.mem_singleton] at hx
        rcases hx with hx | rfl
        · exact hw.2 x hx
        · intro y hy
          simp only [Block.colsOf, List.mem_cons] at hy
          rcases hy with rfl | hy
          · exact hlen
          · rw [hall y hy]; exact hlen

example : ∃ r, tbEx.append (.d1 "b" [7, 8]) = .ok r := ⟨_, rfl⟩

theorem extend_cols (tb o r : TB α) (h : tb.extend o = .ok r) (hw : tb.WF) (ho : o.WF) :
    r.cols = tb.cols ++ o.cols ∧ r.rows = tb.rows ∧ r.WF := by
  unfold extend at h
  split at h
  · cases h
  · rename_i hrows
    have hrows' : o.rows = tb.rows := by simpa using hrows
    simp only [Except.ok.injEq] at h; subst h
    refine ⟨by simp [cols], rfl, ?_, ?_⟩
    · intro x hx
      simp only [List.mem_append] at hx
      rcases hx with hx | hx
      · exact hw.1 x hx
      · exact ho.1 x hx
    · intro x hx
      simp only [List.mem_append] at hx
      rcases hx with hx | hx
      · exact hw.2 x hx
      · have := ho.2 x hx; rw [hrows'] at this; exact this

example : ∃ r, tbEx.extend tbEx = .ok r := ⟨_, rfl⟩

end SF.C03
