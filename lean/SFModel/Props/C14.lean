/-
  C14 — missing-value operations act per cell exactly as specified.

  Property theorems only (helper lemmas live in NALemmas*.lean).  The statements are about the
  mirrored algorithms of SFModel/NA.lean (block-wise, with bridging state, shortcuts and the
  index-based 1-D algorithm `binary_transition` + `slices_from_targets`) versus the four structural
  recursions `ffill`, `bfillSpec`, `fillLeading`, `fillTrailing` on the flattened line.

  The model mirrors the repaired tree (/repo commits 5a58a46, 53925e1, c25795d).  The behaviour of the
  pinned tree is kept in NA.lean as `…Pinned` definitions; their counterexamples are proved at the end.
-/
import SFModel.NALemmas8

namespace SF.C14
open SF SF.NA

variable {α : Type} (isna : α → Bool)

/-- the flattened row -/
abbrev flat (blocks : List (RBlock α)) : List α := (blocks.map RBlock.cells).flatten

/-! ### directional fills -/

/-- `fillna_forward(limit, axis=1)`: for EVERY partition of a row into blocks (1-D or 2-D, whatever the
    other rows make of the block-level shortcuts) and every limit, the block-wise algorithm with its
    bridging values / counts / masks equals the spec applied to the flattened row. -/
theorem directional_refines (limit : Nat) (blocks : List (RBlock α)) :
    (rowDirAxis1 isna true limit blocks).flatten = ffillSpec isna limit (flat blocks) :=
  rowDir_fwd limit blocks

/-- `fillna_backward(limit, axis=1)` = forward fill of the reversed row, for every partition into blocks and
    every limit (the code iterates `reversed(blocks)`, fills each block from the right and takes the
    bridging count from the slice next to the left edge). -/
theorem directional_backward_refines (limit : Nat) (blocks : List (RBlock α)) :
    (rowDirAxis1 isna false limit blocks).flatten = bfillSpec isna limit (flat blocks) :=
  rowDir_bwd limit blocks

/-- missing = 0 in the examples -/
def isna0 (x : Nat) : Bool := x == 0

example : (rowDirAxis1 isna0 false 2 [⟨true, false, 0, []⟩, ⟨false, false, 0, [5, 0, 0, 7]⟩]).flatten
    = [5, 5, 5, 7, 7, 7] := by decide
example : (rowDirAxis1 isna0 true 2 [⟨false, false, 4, [0]⟩, ⟨true, false, 0, []⟩, ⟨false, true, 0, [0, 9]⟩]).flatten
    = [4, 4, 4, 0, 0, 9] := by decide

/-- `fillna_forward / fillna_backward (axis=0)`: one column of one block, any limit. -/
theorem directional_axis0_refines (fwd : Bool) (limit : Nat) (others : Bool) (col : List α) :
    colDirAxis0 isna fwd limit others col =
      if fwd then ffillSpec isna limit col else bfillSpec isna limit col :=
  colDirAxis0_spec fwd limit others col

/-- `Series.fillna_forward / fillna_backward`. -/
theorem series_directional_refines (fwd : Bool) (limit : Nat) (a : List α) :
    seriesFillDirectional isna fwd limit a =
      if fwd then ffillSpec isna limit a else bfillSpec isna limit a :=
  seriesFillDirectional_spec fwd limit a

example : seriesFillDirectional isna0 true 1 [1, 0, 0, 4, 0] = [1, 1, 0, 4, 4] := by decide
example : seriesFillDirectional isna0 false 1 [0, 1, 0, 0, 4, 0] = [1, 1, 0, 4, 4, 0] := by decide

/-! ### leading / trailing fills -/

/-- `fillna_leading(value, axis=1)` / `fillna_trailing(value, axis=1)`: for every partition of the row into
    blocks, the block-wise algorithm with `isna_exit_previous` (reversed block order for trailing)
    equals the spec on the flattened row: the fill stops at the first non-missing cell, also across
    block boundaries. -/
theorem sided_refines (leading : Bool) (v : α) (blocks : List (RBlock α)) :
    (rowSidedAxis1 isna leading v blocks).flatten =
      if leading then fillLeading isna v (flat blocks) else fillTrailing isna v (flat blocks) := by
  cases leading with
  | true => exact rowSided_leading v blocks
  | false => exact rowSided_trailing v blocks

/-- `fillna_leading / fillna_trailing (axis=0)`: one column of a block, also without rows. -/
theorem sided_axis0_refines (leading : Bool) (v : α) (oneD others : Bool) (col : List α) :
    colSidedAxis0 isna leading v oneD others col =
      if leading then fillLeading isna v col else fillTrailing isna v col :=
  colSidedAxis0_spec leading v oneD others col

/-- `Series.fillna_leading / fillna_trailing`. -/
theorem series_sided_refines (leading : Bool) (v : α) (a : List α) :
    seriesFillSided isna leading v a =
      if leading then fillLeading isna v a else fillTrailing isna v a :=
  seriesFillSided_spec leading v a

example : (rowSidedAxis1 isna0 true 9 [⟨true, false, 0, []⟩, ⟨false, false, 0, [3, 0]⟩, ⟨true, true, 0, []⟩]).flatten
    = [9, 9, 3, 0, 0] := by decide
example : (rowSidedAxis1 isna0 false 9 [⟨true, false, 0, []⟩, ⟨false, false, 0, [3, 0]⟩, ⟨true, true, 0, []⟩]).flatten
    = [0, 0, 3, 9, 9] := by decide

/-! ### non-missing cells are never altered -/

/-- Directional fills along axis 1 — both directions, every limit, every layout and every incoming
    state — return every non-missing cell unchanged (and keep the shape). -/
theorem never_touches_nonmissing (fwd : Bool) (limit : Nat) (blocks : List (RBlock α)) :
    (rowDirAxis1 isna fwd limit blocks).flatten.length = (flat blocks).length ∧
    ∀ (p : Nat) (x : α), (flat blocks)[p]? = some x → isna x = false →
      (rowDirAxis1 isna fwd limit blocks).flatten[p]? = some x :=
  rowDir_keeps fwd limit blocks

/-- The specs (hence, by the refinement theorems, the 1-D, axis-0 and forward axis-1 algorithms)
    keep non-missing cells. -/
theorem spec_never_touches_nonmissing (limit : Nat) (l : List α) (p : Nat) (x : α)
    (hx : l[p]? = some x) (hn : isna x = false) :
    (ffillSpec isna limit l)[p]? = some x ∧ (bfillSpec isna limit l)[p]? = some x :=
  ⟨ffill_get_notna limit l none 0 p x hx hn, bfill_get_notna limit l p x hx hn⟩

/-- Sided fills: a cell that is not missing keeps its value (leading and trailing). -/
theorem sided_never_touches_nonmissing (v : α) (l : List α) (p : Nat) (x : α)
    (hx : l[p]? = some x) (hn : isna x = false) :
    (fillLeading isna v l)[p]? = some x ∧ (fillTrailing isna v l)[p]? = some x := by
  have key : ∀ (l : List α) (p : Nat), l[p]? = some x → (fillLeading isna v l)[p]? = some x := by
    intro l
    induction l with
    | nil => intro p h; simp at h
    | cons y ys ih =>
      intro p h
      cases hy : isna y with
      | false => simpa [fillLeading, hy] using h
      | true =>
        cases p with
        | zero => simp at h; subst h; rw [hy] at hn; cases hn
        | succ p => simp at h; simpa [fillLeading, hy] using ih p h
  refine ⟨key l p hx, ?_⟩
  have hp : p < l.length := (List.getElem?_eq_some_iff.mp hx).1
  unfold fillTrailing
  have hlen : (fillLeading isna v l.reverse).length = l.length := by
    have : ∀ m : List α, (fillLeading isna v m).length = m.length := by
      intro m
      induction m with
      | nil => rfl
      | cons y ys ih => cases hy : isna y <;> simp [fillLeading, hy, ih]
    rw [this]; simp
  rw [List.getElem?_reverse (by omega), hlen]
  apply key
  rw [List.getElem?_reverse (by omega)]
  rw [← hx]; congr 1; omega

/-! ### at most `limit` cells per run, next to the source -/

/-- Forward axis-1 fill, every layout: a missing cell at `p` whose nearest non-missing predecessor is at
    `q` receives that value iff `limit = 0` or `p - q ≤ limit` (so each run gets at most `limit` filled
    cells and they are the ones adjacent to the source); a missing cell without predecessor stays. -/
theorem at_most_limit (limit : Nat) (blocks : List (RBlock α)) (p : Nat) (x : α)
    (hx : (flat blocks)[p]? = some x) (hn : isna x = true) :
    (∀ (q : Nat) (y : α), (flat blocks)[q]? = some y → isna y = false → q < p →
        (∀ r, q < r → r < p → NaAt isna (flat blocks) r) →
        (rowDirAxis1 isna true limit blocks).flatten[p]? =
          some (if limit = 0 ∨ p - q ≤ limit then y else x)) ∧
    ((∀ r, r < p → NaAt isna (flat blocks) r) →
        (rowDirAxis1 isna true limit blocks).flatten[p]? = some x) := by
  rw [directional_refines]
  refine ⟨?_, ?_⟩
  · intro q y hy hyn hqp hb
    exact ffill_get_src limit _ none 0 p q x y hx hn hy hyn hqp hb
  · intro hall
    have := ffill_get_lead (isna := isna) limit (flat blocks) none 0 p x hx hn hall
    simpa [fillOne, ffillSpec] using this

/-- The same for the backward fill, every layout and limit: nearest non-missing successor. -/
theorem at_most_limit_backward (limit : Nat)
    (blocks : List (RBlock α)) (p : Nat) (x : α)
    (hx : (flat blocks)[p]? = some x) (hn : isna x = true) :
    (∀ (q : Nat) (y : α), (flat blocks)[q]? = some y → isna y = false → p < q →
        (∀ r, p < r → r < q → NaAt isna (flat blocks) r) →
        (rowDirAxis1 isna false limit blocks).flatten[p]? =
          some (if limit = 0 ∨ q - p ≤ limit then y else x)) ∧
    ((∀ r, p < r → r < (flat blocks).length → NaAt isna (flat blocks) r) →
        (rowDirAxis1 isna false limit blocks).flatten[p]? = some x) := by
  rw [directional_backward_refines]
  refine ⟨?_, ?_⟩
  · intro q y hy hyn hpq hb
    exact bfill_get_src limit _ p q x y hx hn hy hyn hpq hb
  · intro hall
    exact bfill_get_trail limit _ p x hx hall hn

example : ffillSpec isna0 2 [3, 0, 0, 0, 5, 0] = [3, 3, 3, 0, 5, 5] := by decide

/-! ### isna / notna / dropna / fillna / count -/

/-- `isna` / `notna` mark exactly the missing cells (Series and every block). -/
theorem isna_exact (a : List α) (b : Block α) :
    seriesIsna isna a = a.map isna ∧ seriesNotna isna a = a.map (fun x => !isna x) ∧
    (blockIsna isna b).rows = b.rows.map (·.map isna) ∧ (blockIsna isna b).oneD = b.oneD ∧
    (blockNotna isna b).rows = b.rows.map (·.map fun x => !isna x) := by
  refine ⟨rfl, ?_, rfl, rfl, rfl⟩
  simp [seriesNotna]

/-- `Series.dropna` keeps exactly the positions of non-missing cells, in order. -/
theorem dropna_exact (a : List α) :
    (∀ p, p ∈ seriesDropna isna a ↔ ∃ x, a[p]? = some x ∧ isna x = false) ∧
    (seriesDropna isna a).Pairwise (· < ·) :=
  ⟨mem_seriesDropna a, seriesDropna_sorted a⟩

/-- `np.all` / `np.any` over the isna cells of one line -/
def condOf (condAll : Bool) (l : List Bool) : Bool := if condAll then l.all id else l.any id

/-- `Frame.dropna(axis=0)`: for every layout the row key keeps row `i` iff the condition does not hold on
    its isna cells. -/
theorem dropna_rows_exact (condAll : Bool) (masks : List (Block Bool)) (hne : masks ≠ []) :
    dropnaKeep false condAll masks =
      .ok (some ((hcat (masks.map (·.rows))).map fun r => !condOf condAll r), none) := by
  match masks, hne with
  | [], hne => exact absurd rfl hne
  | m :: ms, _ => simp [dropnaKeep, condOf, List.map_map, Function.comp_def]

/-- `Frame.dropna(axis=1)`: for every layout — also ONE 1-D block, which is one column — the column key
    keeps column `j` iff the condition does not hold on its isna cells. -/
theorem dropna_columns_exact (condAll : Bool) (masks : List (Block Bool)) (hne : masks ≠ []) :
    dropnaKeep true condAll masks =
      .ok (none, some ((columnsOf
          ((masks.map fun m => if m.oneD then 1 else (m.rows.head?.map List.length).getD 0).sum)
          (hcat (masks.map (·.rows)))).map fun c => !condOf condAll c)) := by
  match masks, hne with
  | [], hne => exact absurd rfl hne
  | m :: ms, _ => simp [dropnaKeep, condOf, List.map_map, Function.comp_def]

/-- one 1-D block and the same column as a 2-D block give the same result -/
example : frameDropna true false 2 1 [⟨true, [[false], [true]]⟩] = .ok ([0, 1], []) ∧
    frameDropna true false 2 1 [⟨false, [[false], [true]]⟩] = .ok ([0, 1], []) ∧
    frameDropna true true 2 1 [⟨true, [[false], [true]]⟩] = .ok ([0, 1], [0]) ∧
    frameDropna false true 2 1 [⟨true, [[false], [true]]⟩] = .ok ([0], [0]) := by decide

/-- `fillna`: element, label-aligned Series (`none` = label not covered: untouched), label-aligned Frame
    with `fill_valid` mask on every block, and `fillna_by_values` per column: each cell becomes
    `fillCell` = the fill value iff it is missing and covered. -/
theorem fillna_exact (v : α) (a : List α) (other : List (Option α)) (hl : other.length = a.length)
    (b : Block α) (grid : List (List (Option α))) (hg : grid.length = b.rows.length)
    (hw : ∀ p ∈ b.rows.zip grid, p.2.length = p.1.length)
    (others : Bool) (vals col : List α) (hv : vals.length = col.length) :
    seriesFillnaElement isna v a = a.map (fun x => fillCell isna x (some v)) ∧
    seriesFillnaSeries isna other a = List.zipWith (fillCell isna) a other ∧
    blockFillna isna v none b = ⟨b.oneD, b.rows.map fun r => r.map fun x => fillCell isna x (some v)⟩ ∧
    blockFillna isna v (some grid) b = ⟨b.oneD, List.zipWith (List.zipWith (fillCell isna)) b.rows grid⟩ ∧
    colFillnaByValues isna others vals col = List.zipWith (fun x w => fillCell isna x (some w)) col vals :=
  ⟨seriesFillnaElement_spec v a, seriesFillnaSeries_spec other a hl, blockFillna_element v b,
   blockFillna_grid v grid b hg hw, colFillnaByValues_spec others vals col hv⟩

/-- `count` = number of non-missing cells (Series; Frame per line). -/
theorem count_exact (a : List α) :
    seriesCount isna a = countSpec isna a ∧ lineCount isna a = countSpec isna a :=
  ⟨count_eq a, count_eq a⟩

example : seriesFillnaSeries isna0 [some 7, none, some 8] [0, 0, 3] = [7, 0, 3] := by decide
example : seriesDropna isna0 [0, 4, 0, 6] = [1, 3] := by decide
example : seriesCount isna0 [0, 4, 0, 6] = 2 := by decide
example : dropnaKeep false false [⟨true, [[true], [false]]⟩, ⟨false, [[false, false], [false, false]]⟩]
    = .ok (some [false, true], none) := by decide
example : colSidedAxis0 isna0 false 9 false true [0, 4, 0, 0] = [0, 4, 9, 9] := by decide

/-! ### pinned-tree behaviour (historical): the three deviations the check found, as proved
    counterexamples on the `…Pinned` definitions -/

/-- Pinned tree (repaired in /repo 5a58a46): backward, limit 2, row `[NA | NA 5 NA NA 7]` (a 1-D block then a
    2-D block): `bridging_count` was read from the LAST yielded slice (length 2) instead of the one next to
    the left edge (length 1), so the 1-D block to the left was not filled. -/
theorem pinned_directional_backward_counterexample :
    ¬ (∀ (limit : Nat) (blocks : List (RBlock Nat)),
        (rowDirAxis1Pinned isna0 false limit blocks).flatten = bfillSpec isna0 limit (flat blocks)) := by
  intro h
  have := h 2 [⟨true, false, 0, []⟩, ⟨false, false, 0, [5, 0, 0, 7]⟩]
  revert this
  decide

example : (rowDirAxis1Pinned isna0 false 2 [⟨true, false, 0, []⟩, ⟨false, false, 0, [5, 0, 0, 7]⟩]).flatten
    = [0, 5, 5, 7, 7, 7] := by decide

/-- Pinned tree (repaired in /repo 53925e1): the 1-D unified mask of ONE 1-D block was used as `to_drop`
    whatever the axis, so `Frame.dropna(axis=1)` handed `_extract` a column key of length `nrows`. -/
theorem pinned_dropna_columns_oneD_counterexample :
    frameDropnaPinned true false 2 1 [⟨true, [[false], [true]]⟩] = .error .lookup ∧
    frameDropnaPinned true false 2 1 [⟨false, [[false], [true]]⟩] = .ok ([0, 1], []) ∧
    frameDropnaPinned true true 2 1 [⟨true, [[false], [true]]⟩] = .error .lookup := by decide

/-- Pinned tree (repaired in /repo c25795d): a sided fill along axis 0 of a block without rows was an
    IndexError; with at least one row the pinned and the repaired code agree. -/
theorem pinned_sided_axis0_zero_rows_counterexample :
    colSidedAxis0Pinned isna0 true 9 false false [] = .error .lookup ∧
    colSidedAxis0 isna0 true 9 false false [] = [] ∧
    (∀ (leading : Bool) (v : Nat) (oneD others : Bool) (col : List Nat), col ≠ [] →
      colSidedAxis0Pinned isna0 leading v oneD others col = .ok (colSidedAxis0 isna0 leading v oneD others col)) :=
  ⟨by decide, by decide, fun leading v oneD others col h => colSidedAxis0Pinned_spec leading v oneD others col h⟩

end SF.C14
