/-
  C19 — Quilt and Batch are faithful views over the Frames they hold.

  Theorems about the mirrored algorithms of SFModel/Quilt.lean (helper lemmas in QuiltLemmas.lean,
  QuiltExtractLemmas.lean, BatchLemmas.lean).  The spec is `concatSpec` (the concatenated Frame) with
  `specExtract` (positional selection in key order).

  FULL STATEMENT (kept as a comment; it is FALSE of the mirrored algorithm):
      theorem quilt_extract_refines (hq : Quilt.init bus retain = .ok q) … :
          q.extract sk ok = specExtract (concatSpec retain bus) sk ok
    for every key `sk`.  `Quilt._extract` turns `sk` into one Boolean mask per member, so lines inside a
    member always come back ascending (`quilt_extract_descending_counterexample`, finding C19-F8), and a
    key that addresses nothing leaves no part to return (`quilt_extract_empty_counterexample`, finding
    C19-EMPTY).  Proved: the statement for keys whose positions are strictly ascending and non-empty.
-/
import SFModel.QuiltExtractLemmas
import SFModel.BatchLemmas

namespace SF.C19
open SF SF.Quilt

variable {L α : Type} [DecidableEq L]

/-- Shape and labels of a Quilt are those of the concatenated Frame (with the Bus label as outer level
    when labels are retained); the opposite axis is the members' common opposite index. -/
theorem quilt_shape_labels {bus : Bus L α} {retain : Bool} {q : Quilt L α}
    (hq : Quilt.init bus retain = .ok q) :
    q.labels = (concatSpec retain bus).labels ∧ q.opp = (concatSpec retain bus).opp ∧
      q.shape = ((concatSpec retain bus).labels.length, (concatSpec retain bus).opp.length) := by
  obtain ⟨hb, hr, ham, hopp, hne⟩ := init_ok hq
  have h1 : q.labels = (concatSpec retain bus).labels := by
    unfold Quilt.labels concatSpec
    rw [ham, hr]
    exact axisMapOf_relabel retain bus
  have h2 : q.opp = (concatSpec retain bus).opp := by
    unfold concatSpec
    cases bus with
    | nil => exact absurd rfl hne
    | cons p rest => exact (hopp p (by simp)).symm
  refine ⟨h1, h2, ?_⟩
  unfold Quilt.shape
  rw [← h1, ← h2]
  simp [Quilt.labels]

omit [DecidableEq L] in
/-- The splitting theorem: selecting strictly ascending positions from a concatenation of parts is
    concatenating, part by part, the selections made with the part's segment of the Boolean mask. -/
theorem select_flatten {γ : Type} (bus : Bus L α) (g : L × MFrame L L α → List γ) (ps : List Nat)
    (hg : ∀ p ∈ bus, (g p).length = p.2.labels.length)
    (hasc : ps.Pairwise (· < ·)) (hr : ∀ p ∈ ps, p < (bus.flatMap g).length) :
    pick (bus.flatMap g) ps =
      (bus.zip (segs bus (maskOf (bus.flatMap g).length ps))).flatMap (fun x => maskSelect (g x.1) x.2) := by
  rw [pick_eq_maskSelect _ _ hasc hr]
  exact maskSelect_flatMap_segs bus _ g hg (by rw [maskOf_length, flatMap_length_axisMap bus g hg])

/-- Refinement of `Quilt._extract` to selection on the concatenated Frame, for every key on the Quilt axis
    whose positions are strictly ascending and non-empty (integers, ascending slices, Boolean masks,
    sorted duplicate-free lists) and every key on the opposite axis (errors included). -/
theorem quilt_extract_refines_partial {bus : Bus L α} {retain : Bool} {q : Quilt L α} (sk ok : Key) (ps : List Nat)
    (hq : Quilt.init bus retain = .ok q)
    (hnd : (bus.map (·.1)).Nodup)            -- Bus labels are unique
    (hamnd : (axisMapOf bus).Nodup)          -- labels are unique inside each Frame
    (hwf : ∀ p ∈ bus, p.2.wf)                -- every Frame is rectangular
    (hps : sk.positions q.axisMap.length = .ok ps)
    (hasc : ps.Pairwise (· < ·)) (hne : ps ≠ []) :
    q.extract sk ok = specExtract (concatSpec retain bus) sk ok := by
  obtain ⟨hb, hr, ham, hopp, hbne⟩ := init_ok hq
  obtain ⟨hlab, hoppeq, _⟩ := quilt_shape_labels hq
  have hn : (concatSpec retain bus).labels.length = q.axisMap.length := by
    rw [← hlab]; simp [Quilt.labels]
  have hrange : ∀ p ∈ ps, p < q.axisMap.length := SF.C04.key_positions_in_range hps
  -- facts about the spec side
  have hspec_lab : pick (concatSpec retain bus).labels ps =
      ((bus.zip (segs bus (maskOf q.axisMap.length ps))).flatMap
        (fun x => (maskSelect x.1.2.labels x.2).map (relabel retain x.1.1))) := by
    have := select_flatten bus (fun p => p.2.labels.map (relabel retain p.1)) ps (by intro p _; simp) hasc
      (by intro p hp; have := hrange p hp; rw [← hn] at this; simpa [concatSpec] using this)
    have hl : (bus.flatMap fun p => p.2.labels.map (relabel retain p.1)).length = q.axisMap.length := by
      rw [← hn]; simp [concatSpec]
    rw [hl] at this
    simp only [concatSpec]
    rw [this]
    apply flatMap_congr_mem
    intro x _
    exact maskSelect_map _ _ _
  have hspec_lines : pick (concatSpec retain bus).lines ps =
      ((bus.zip (segs bus (maskOf q.axisMap.length ps))).flatMap (fun x => maskSelect x.1.2.lines x.2)) := by
    have hl : (bus.flatMap fun p => p.2.lines).length = q.axisMap.length := by
      rw [ham]; exact flatMap_length_axisMap bus _ (fun p hp => (hwf p hp).1)
    have := select_flatten bus (fun p => p.2.lines) ps (fun p hp => (hwf p hp).1) hasc
      (by intro p hp; rw [hl]; exact hrange p hp)
    rw [hl] at this
    simpa [concatSpec] using this
  unfold Quilt.extract
  by_cases hnull : (isNullSlice sk && isNullSlice ok) = true
  · -- `to_frame` path: both keys are the null slice
    rw [if_pos hnull]
    have hsk : sk = .all := by
      cases sk <;> simp [isNullSlice] at hnull ⊢
    have hok : ok = .all := by
      cases ok <;> simp [isNullSlice] at hnull ⊢
    subst hsk; subst hok
    unfold specExtract
    simp only [Key.positions, oppPositions, Key.isMulti, Bool.not_true, Bool.false_eq_true, if_false]
    rw [if_pos (by simpa using List.nodup_range)]
    simp only
    have hll : (concatSpec retain bus).labels.length = (concatSpec retain bus).lines.length := by
      simp only [concatSpec]
      rw [flatMap_length_axisMap bus _ (by intro p _; simp), flatMap_length_axisMap bus _ (fun p hp => (hwf p hp).1)]
    have hlines : (concatSpec retain bus).lines.map (fun ln => pick ln (List.range (concatSpec retain bus).opp.length))
        = (concatSpec retain bus).lines := by
      conv => rhs; rw [← List.map_id (concatSpec retain bus).lines]
      apply List.map_congr_left
      intro ln hln
      simp only [concatSpec, List.mem_flatMap] at hln
      obtain ⟨p, hp, hln⟩ := hln
      have h1 : ln.length = p.2.opp.length := (hwf p hp).2 ln hln
      have h2 : (concatSpec retain bus).opp.length = ln.length := by
        rw [← hoppeq, ← hopp p hp, h1]
      rw [h2, pick_range]; rfl
    rw [pick_range, pick_range, hll, pick_range, hlines, ← hoppeq, hb, hr]
    simp [concatSpec]
  · rw [if_neg hnull]
    simp only
    rw [hps]
    simp only
    -- the bus keys are the members holding a selected line, in Bus order
    have hkeys := busKeys_ascending bus sk ps hnd hamnd (by rw [← ham]; exact hps) hasc
    rw [← ham] at hkeys
    rw [hkeys]
    simp only
    -- members with a selected line
    let Z := bus.zip (segs bus (maskOf q.axisMap.length ps))
    let ZA := Z.filter (fun x => x.2.count true ≠ 0)
    have hact : active (counts bus (maskOf q.axisMap.length ps)) = ZA.map (·.1.1) := by
      simp only [active, counts, List.filter_map, List.map_map, ZA, Z]
      rfl
    rw [hact, mapM_map_eq]
    have hZAsub : ∀ x ∈ ZA, x ∈ q.bus.zip (segs q.bus (maskOf q.axisMap.length ps)) := by
      intro x hx
      rw [hb]
      exact (List.mem_filter.mp hx).1
    have hZAne : ZA ≠ [] := by
      intro hnil
      have hK := pick_axisMap_fst bus ps hasc (by rw [← ham]; exact hrange)
      rw [← ham] at hK
      have hlen := congrArg List.length hK
      rw [List.length_map, pick_length _ _ hrange] at hlen
      have hD := dupFilter_blocks (counts bus (maskOf q.axisMap.length ps)) (by rw [counts_map_fst]; exact hnd)
      rw [hact, hnil] at hD
      cases hbl : blocks (counts bus (maskOf q.axisMap.length ps)) with
      | nil => rw [hbl] at hlen; simp at hlen; exact hne hlen
      | cons v rest => rw [hbl] at hD; simp [dupFilter] at hD
    have hsel_len : (maskOf q.axisMap.length ps).length = q.axisMap.length := maskOf_length _ _
    have hndq : (q.bus.map (·.1)).Nodup := by rw [hb]; exact hnd
    have hamq : q.axisMap = axisMapOf q.bus := by rw [hb]; exact ham
    have hoppq : ∀ p ∈ q.bus, p.2.opp = q.opp := by rw [hb]; exact hopp
    unfold specExtract
    rw [hn, hps]
    simp only
    rw [← hoppeq]
    cases hos : oppPositions ok q.opp.length with
    | error e =>
      -- the opposite key is refused by the first member, as it is by the concatenated Frame
      simp only
      cases hZ : ZA with
      | nil => exact absurd hZ hZAne
      | cons x xs =>
        rw [mapM_error_head x xs _ e
          (partFor_error q _ sk ok e hndq hamq hsel_len hoppq hos x (hZAsub x (by rw [hZ]; simp)))]
    | ok os =>
      simp only
      -- the unreduced result of the spec is the concatenation of the members' parts
      have hcomb : combine (ZA.map (compOf q.retain ok os)) =
          .ok { labels := pick (concatSpec retain bus).labels ps, opp := pick q.opp os,
                lines := (pick (concatSpec retain bus).lines ps).map (fun ln => pick ln os),
                selReduced := false, oppReduced := !ok.isMulti } := by
        cases hZ : ZA with
        | nil => exact absurd hZ hZAne
        | cons x xs =>
          rw [List.map_cons, combine_cons, ← List.map_cons, ← hZ]
          have hxo : x.1.2.opp = q.opp := by
            have hx : x ∈ ZA := by rw [hZ]; simp
            exact hopp x.1 (List.of_mem_zip (List.mem_filter.mp hx).1).1
          have e1 : (ZA.map (compOf q.retain ok os)).flatMap (·.labels) = pick (concatSpec retain bus).labels ps := by
            rw [hspec_lab, List.flatMap_map, hr]
            exact flatMap_filter_active Z _ (by intro y hy; simp [compOf, maskSelect_count_zero _ _ hy])
          have e2 : (ZA.map (compOf q.retain ok os)).flatMap (·.lines) =
              (pick (concatSpec retain bus).lines ps).map (fun ln => pick ln os) := by
            rw [hspec_lines, List.flatMap_map, List.map_flatMap]
            exact flatMap_filter_active Z _ (by intro y hy; simp [compOf, maskSelect_count_zero _ _ hy])
          simp only [compOf, hxo] at e1 e2 ⊢
          rw [e1, e2]
      by_cases hmulti : sk.isMulti = true
      · -- the key keeps the dimension: every part is returned unreduced
        have hparts : ZA.mapM (fun x => q.partFor (maskOf q.axisMap.length ps) sk ok x.1.1)
            = .ok (ZA.map (compOf q.retain ok os)) := by
          apply mapM_ok_of_forall
          intro x hx
          rw [partFor_eq q _ sk ok os hndq hamq hsel_len hoppq hos x (hZAsub x hx)]
          simp [hmulti]
        rw [hparts]
        simp only [hmulti, Bool.not_true, Bool.false_eq_true, if_false]
        exact hcomb
      · -- an integer key: exactly one member, whose single line is reduced
        have hint : sk.isMulti = false := by simpa using hmulti
        have hone : ∃ x, ZA = [x] := by
          cases sk with
          | int i =>
            obtain ⟨p, rfl, _, _⟩ := SF.C04.int_position hps
            have hk := hkeys
            simp only [busKeys] at hk
            rw [List.getElem?_eq_getElem (hrange p (by simp))] at hk
            simp only [Except.ok.injEq] at hk
            rw [hact] at hk
            cases hZ : ZA with
            | nil => exact absurd hZ hZAne
            | cons x xs =>
              rw [hZ] at hk
              cases xs with
              | nil => exact ⟨x, rfl⟩
              | cons y ys => simp at hk
          | all => simp [Key.isMulti] at hint
          | slice s => simp [Key.isMulti] at hint
          | list is => simp [Key.isMulti] at hint
          | mask bs => simp [Key.isMulti] at hint
        obtain ⟨x, hx⟩ := hone
        rw [hx] at hcomb ⊢
        simp only [List.map_cons, List.map_nil, combine, Except.ok.injEq] at hcomb
        simp only [List.mapM_cons, List.mapM_nil, bind, Except.bind, pure, Except.pure]
        rw [partFor_eq q _ sk ok os hndq hamq hsel_len hoppq hos x (hZAsub x (by rw [hx]; simp))]
        simp only [hint, Bool.not_false, if_true]
        rw [hcomb]
        split
        · next e he =>
          split at he
          · next err herr => simp only [Except.error.injEq] at he; rw [herr, he]
          · cases he
        · next parts hp =>
          split at hp
          · cases hp
          · next v hv => simp only [Except.ok.injEq] at hp; subst hp; rw [hv]; rfl

omit [DecidableEq L] in
/-- The key kinds the hypothesis of `quilt_extract_refines_partial` covers: integers, Boolean masks, the
    null slice, slices with a positive step, and integer lists that are sorted without repeats. -/
theorem ascending_key_kinds {k : Key} {n : Nat} {ps : List Nat} (h : k.positions n = .ok ps) :
    (match k with
      | .int _ => True
      | .mask _ => True
      | .all => True
      | .slice s => ∃ a b c, s.indices n = .ok (a, b, c) ∧ 0 < c
      | .list _ => ps.Pairwise (· < ·)) → ps.Pairwise (· < ·) := by
  cases k with
  | int i =>
    intro _
    obtain ⟨p, rfl, _, _⟩ := SF.C04.int_position h
    simp
  | mask bs => intro _; exact (SF.C04.mask_positions h).2.2
  | all =>
    intro _
    simp only [Key.positions, Except.ok.injEq] at h
    subst h
    exact List.pairwise_lt_range
  | slice s =>
    rintro ⟨a, b, c, hi, hc⟩
    exact (SF.C04.slice_positions_strict (s := s) (by simpa [Key.positions] using h) hi).1 hc
  | list is => intro hp; exact hp

/-- non-vacuity of `quilt_extract_refines_partial`: two members, a slice that starts in the first and stops
    in the second -/
example :
    (match Quilt.init (L := Nat) (α := Nat) [(7, ⟨[0, 1], [0], [[10], [11]]⟩), (8, ⟨[0, 1], [0], [[20], [21]]⟩)] true with
     | .ok q => q.extract (.slice ⟨some 1, some 3, none⟩) .all
     | .error e => .error e)
      = .ok { labels := [.pair 7 1, .pair 8 0], opp := [0], lines := [[11], [20]], selReduced := false, oppReduced := false } := by
  decide

/-- The unrestricted statement is false of the mirrored algorithm: a descending slice inside one member
    (`quilt.iloc[2:0:-1]` over one member of three rows) comes back ascending. -/
theorem quilt_extract_descending_counterexample :
    ¬ (∀ (bus : Bus Nat Nat) (q : Quilt Nat Nat) (sk ok : Key), Quilt.init bus false = .ok q →
        q.extract sk ok = specExtract (concatSpec false bus) sk ok) := by
  intro h
  have := h [(7, ⟨[0, 1, 2], [0], [[10], [11], [12]]⟩)]
    ⟨[(7, ⟨[0, 1, 2], [0], [[10], [11], [12]]⟩)], false, [(7, 0), (7, 1), (7, 2)], [0]⟩
    (.slice ⟨some 2, some 0, some (-1)⟩) .all (by decide)
  revert this
  decide

/-- ... and a key that addresses no position has no part to return (UnboundLocalError in the library)
    where the concatenated Frame returns the empty selection. -/
theorem quilt_extract_empty_counterexample :
    ¬ (∀ (bus : Bus Nat Nat) (q : Quilt Nat Nat) (sk ok : Key), Quilt.init bus false = .ok q →
        q.extract sk ok = specExtract (concatSpec false bus) sk ok) := by
  intro h
  have := h [(7, ⟨[0, 1], [0], [[10], [11]]⟩)]
    ⟨[(7, ⟨[0, 1], [0], [[10], [11]]⟩)], false, [(7, 0), (7, 1)], [0]⟩
    (.slice ⟨some 0, some 0, none⟩) .all (by decide)
  revert this
  decide

/-- `Quilt.to_frame` is the concatenated Frame. -/
theorem quilt_to_frame {bus : Bus L α} {retain : Bool} {q : Quilt L α} (hq : Quilt.init bus retain = .ok q) :
    q.toFrame = .ok { labels := (concatSpec retain bus).labels, opp := (concatSpec retain bus).opp,
                      lines := (concatSpec retain bus).lines, selReduced := false, oppReduced := false } := by
  obtain ⟨hb, hr, _, _, _⟩ := init_ok hq
  obtain ⟨_, hoppeq, _⟩ := quilt_shape_labels hq
  unfold Quilt.toFrame Quilt.extract
  simp only [isNullSlice, Bool.and_self, if_true]
  rw [hb, hr, hoppeq]
  rfl

/-- `iter_array_items` / `iter_series_items` / `iter_tuple_items` in the supported direction pair the k-th
    label of the concatenated Frame with its k-th line. -/
theorem quilt_axis_items {bus : Bus L α} {retain : Bool} {q : Quilt L α} (hq : Quilt.init bus retain = .ok q) :
    q.axisItems = (concatSpec retain bus).labels.zip (concatSpec retain bus).lines := by
  obtain ⟨hb, _, _, _, _⟩ := init_ok hq
  obtain ⟨hlab, _, _⟩ := quilt_shape_labels hq
  unfold Quilt.axisItems Quilt.axisLines
  rw [hlab, hb]
  rfl

/-! ### Batch -/

omit [DecidableEq L] in
/-- One Batch operation: every label keeps its place and is paired with the operation applied to that
    label's own Frame; the first failing Frame (in order) ends the iteration with its exception. -/
theorem batch_pointwise (b : Batch L α) (op : Item L α → Except Err (Item L α)) (xs : List (L × Item L α))
    (hb : b.items = .ok xs) :
    (b.apply op).items = xs.mapM (fun p => (op p.2).map (fun r => (p.1, r))) := by
  unfold Batch.items Batch.apply
  rw [derive_stream, items_ok_stream hb]
  simp only [runStage]
  rw [strictGo_spanOk, mapM_eq_spanOk]
  have hf : (fun p : L × Item L α => (op p.2).map (fun r => (p.1, r))) = stepOf op := by
    funext p
    unfold stepOf
    cases op p.2 <;> rfl
  rw [hf]
  unfold itemsOf
  cases (spanOk (xs.map (stepOf op))).2 <;> rfl

omit [DecidableEq L] in
/-- The pool path (`max_workers`) pairs labels and results exactly as the sequential path does. -/
theorem batch_pool_pointwise (b : Batch L α) (op : Item L α → Except Err (Item L α)) (xs : List (L × Item L α))
    (hb : b.items = .ok xs) :
    (b.applyPool op).items = (b.apply op).items := by
  unfold Batch.items Batch.applyPool Batch.apply
  rw [derive_stream, derive_stream, items_ok_stream hb]
  simp only [runStage]
  rw [poolStage_eq_strict]

omit [DecidableEq L] in
/-- `apply_except` keeps exactly the Frames on which the function succeeds, under their own labels, in order. -/
theorem batch_except_pointwise (b : Batch L α) (op : Item L α → Except Err (Item L α)) (xs : List (L × Item L α))
    (hb : b.items = .ok xs) :
    (b.applyExcept op).items =
      .ok (xs.filterMap (fun p => match op p.2 with | .ok r => some (p.1, r) | .error _ => none)) := by
  unfold Batch.items Batch.applyExcept
  rw [derive_stream, items_ok_stream hb]
  simp only [runStage]
  rw [exceptGo_filterMap]
  rfl

omit [DecidableEq L] in
/-- Chained operations of any depth (induction on the chain): the Batch yields, label by label, the
    composition of the operations (`pipe ops f = ops.foldlM (fun x op => op x) f`) applied to that label's
    Frame; with failing operations the exception is the one of the first Frame (in order) whose own
    pipeline fails. -/
theorem batch_chain_pointwise (src : List (L × Item L α)) (ops : List (Item L α → Except Err (Item L α))) :
    ((Batch.ofItems src).chain ops).items = src.mapM (fun p => (pipe ops p.2).map (fun r => (p.1, r))) := by
  obtain ⟨hst, hsrc⟩ := chain_stages (Batch.ofItems src) ops
  unfold Batch.items Batch.stream
  rw [hst, hsrc]
  simp only [Batch.ofItems, List.nil_append, List.foldl_map]
  have h0 := chain_stream (L := L) (α := α) [] ops src
  rw [spanOk_pipe_nil] at h0
  simp only [List.nil_append] at h0
  rw [h0, mapM_eq_spanOk]
  have hf : (fun p : L × Item L α => (pipe ops p.2).map (fun r => (p.1, r))) = pipeStep ops := by
    funext p
    unfold pipeStep
    cases pipe ops p.2 <;> rfl
  rw [hf]

/-- `to_frame` concatenates exactly the yielded results: Frames are stacked under (label, inner label) —
    the concatenated Frame of the Bus {label: result}, as for a Quilt with retained labels — and Series
    become one line per label. -/
theorem batch_to_frame_concat (b : Batch L α) (xs : List (L × Item L α)) (hb : b.items = .ok xs) :
    (∀ (bus : Bus L α), xs = bus.map (fun p => (p.1, Item.frame p.2)) → bus ≠ [] →
        (∀ p ∈ bus, p.2.opp = (concatSpec true bus).opp) →
        b.toFrame = .ok (concatSpec true bus)) ∧
    (∀ (ss : List (L × List L × List α)) (ix : List L), xs = ss.map (fun p => (p.1, Item.series p.2.1 p.2.2)) →
        (∀ p ∈ ss, p.2.1 = ix) → ss ≠ [] →
        b.toFrame = .ok { labels := ss.map (fun p => QLabel.flat p.1), opp := ix, lines := ss.map (·.2.2) }) := by
  constructor
  · intro bus hx hne hopp
    unfold Batch.toFrame
    rw [hb, hx]
    exact toFrameOf_frames bus hne hopp
  · intro ss ix hx hix hne
    unfold Batch.toFrame
    rw [hb, hx]
    exact toFrameOf_series ss ix hix hne

/-- `to_bus` holds exactly the yielded (label, Frame) pairs. -/
theorem batch_to_bus_items (b : Batch L α) (xs : List (L × Item L α)) (hb : b.items = .ok xs)
    (hnd : (xs.map (·.1)).Nodup) (hfr : ∀ p ∈ xs, ∃ f, p.2 = Item.frame f) : b.toBus = .ok xs := by
  unfold Batch.toBus
  rw [hb]
  have hany : (xs.any fun p => p.2.isSeries) = false := by
    apply List.any_eq_false.mpr
    intro p hp
    obtain ⟨f, hf⟩ := hfr p hp
    simp [hf, Item.isSeries]
  simp only [hnd, decide_true, Bool.not_true, Bool.false_eq_true, if_false, hany]

/-- non-vacuity of the Batch theorems: two Frames, a selection that fails on the second (one row), then a
    reduction; strict stages raise, `apply_except` keeps the first label with its own result. -/
example :
    let f1 : Item Nat Nat := .frame ⟨[0, 1], [0], [[10], [11]]⟩
    let f2 : Item Nat Nat := .frame ⟨[0], [0], [[20]]⟩
    let second : Item Nat Nat → Except Err (Item Nat Nat) := fun it => match it with
      | .frame ⟨_ :: l :: _, o, _ :: r :: _⟩ => .ok (.frame ⟨[l], o, [r]⟩)
      | _ => .error .lookup
    ((Batch.ofItems [(5, f1), (6, f2)]).apply second).items = .error .lookup ∧
    ((Batch.ofItems [(5, f1), (6, f2)]).applyExcept second).items = .ok [(5, .frame ⟨[1], [0], [[11]]⟩)] ∧
    ((Batch.ofItems [(5, f1), (6, f2)]).chain [fun it => .ok it, fun it => .ok it]).items = .ok [(5, f1), (6, f2)] := by
  decide

end SF.C19
