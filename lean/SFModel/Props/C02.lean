/-
  C02 — Index: unique labels, exact label-to-position bijection.

  Property theorems only (helper lemmas: IndexLemmas, LevelLemmas, LevelGOLemmas).  The models
  (`Index.mk?`, `Index.locToIloc`, `IndexGO.append`, `Level.fromLabels`, `Level.leafLocToIloc`,
  `Level.append/extend`, `Level.levelDropInner/levelDropOuter`) mirror the code; the harness compares them with the real classes on every run.
-/
import SFModel.IndexLemmas
import SFModel.LevelGOLemmas
import SFModel.LevelDropLemmas
set_option linter.unusedSectionVars false

namespace SF.C02
open SF IntLabel

variable {α : Type} [DecidableEq α] [IntLabel α]

/-! ### flat indices -/

/-- Construction succeeds exactly for pairwise distinct labels; otherwise it is the non-unique
    initialisation error (never an index). -/
theorem mk_ok_iff_nodup (ls : List α) :
    ((∃ ix, Index.mk? ls = .ok ix) ↔ ls.Nodup) ∧ (¬ ls.Nodup → Index.mk? ls = .error .nonUnique) := by
  rw [Index.mk?_eq]
  by_cases h : ls.Nodup
  · rw [if_pos h]; exact ⟨⟨fun _ => h, fun _ => ⟨_, rfl⟩⟩, fun hn => absurd h hn⟩
  · rw [if_neg h]
    refine ⟨⟨?_, fun hn => absurd hn h⟩, fun _ => rfl⟩
    rintro ⟨_, e⟩; cases e

/-- The bijection for any well-formed index (mapped or auto-integer). -/
theorem wf_bijection {ix : Index α} (h : ix.WF) :
    (∀ (i : Nat) a, ix.labels[i]? = some a → ix.locToIloc (.label a) = .ok (.int i)) ∧
    (∀ a, ix.contains a = true ↔ a ∈ ix.labels) ∧
    (∀ a, a ∉ ix.labels → (∀ i, toInt? a = some i → 0 ≤ i) → ix.locToIloc (.label a) = .error .lookup) ∧
    ix.len = ix.labels.length ∧ ix.iter = ix.labels ∧ ix.reversed = ix.labels.reverse ∧
    ix.values = ix.labels ∧ ix.positions = List.range ix.labels.length ∧
    (∀ i, i < ix.len → ix.ilocAt i = ix.labels[i]?) :=
  ⟨fun _ _ hi => Index.locToIloc_label h hi, Index.contains_iff h,
   fun _ ha hneg => Index.locToIloc_absent h ha hneg, rfl, rfl, rfl, rfl, rfl, fun _ _ => rfl⟩

/-- `Index(labels)`: looking up the i-th label gives position i; membership ⇔ held; length;
    iteration, reversed iteration and values present the labels in the given order. -/
theorem bijection {ls : List α} {ix : Index α} (h : Index.mk? ls = .ok ix) :
    (∀ i (hi : i < ls.length), ix.locToIloc (.label ls[i]) = .ok (.int i)) ∧
    (∀ a, ix.contains a = true ↔ a ∈ ls) ∧
    (∀ a, a ∉ ls → ix.locToIloc (.label a) = .error .lookup) ∧
    ix.len = ls.length ∧ ix.iter = ls ∧ ix.reversed = ls.reverse ∧ ix.values = ls ∧
    ix.positions = List.range ls.length := by
  rw [Index.mk?_eq] at h
  by_cases hn : ls.Nodup
  · rw [if_pos hn] at h
    simp only [Except.ok.injEq] at h
    subst h
    have hwf : (⟨ls, some (ls.zipIdx 0)⟩ : Index α).WF := ⟨hn, AMap.build_some_iff.mpr ⟨hn, rfl⟩⟩
    obtain ⟨h1, h2, _, h4⟩ := wf_bijection hwf
    refine ⟨fun i hi => h1 i ls[i] (by simp [hi]), h2, ?_, h4.1, rfl, rfl, rfl, rfl⟩
    intro a ha
    simp only [Index.locToIloc, Index.locToIlocP, Index.locMap]
    rw [AMap.get?_zipIdx_none 0 ha]
  · rw [if_neg hn] at h; cases h

/-- The same for an auto-integer (`loc_is_iloc`, map-less) index of length n: label i ↦ position i. -/
theorem auto_bijection (n : Nat) :
    (∀ i : Nat, i < n → (Index.mkAuto n : Index α).locToIloc (.label (ofInt (Int.ofNat i))) = .ok (.int i)) ∧
    (∀ a : α, (Index.mkAuto n : Index α).contains a = true ↔ ∃ i : Nat, i < n ∧ a = ofInt (Int.ofNat i)) ∧
    (∀ a : α, (∀ i : Nat, i < n → a ≠ ofInt (Int.ofNat i)) → (∀ i, toInt? a = some i → 0 ≤ i) →
        (Index.mkAuto n : Index α).locToIloc (.label a) = .error .lookup) ∧
    (Index.mkAuto n : Index α).len = n ∧
    (Index.mkAuto n : Index α).iter = autoLabels n ∧
    (Index.mkAuto n : Index α).reversed = (autoLabels n).reverse ∧
    (Index.mkAuto n : Index α).values = autoLabels n ∧
    (Index.mkAuto n : Index α).positions = List.range n := by
  obtain ⟨h1, h2, h3, _⟩ := wf_bijection (Index.mkAuto_WF (α := α) n)
  refine ⟨?_, ?_, ?_, by simp [Index.len, Index.mkAuto, autoLabels_length], rfl, rfl, rfl,
    by simp [Index.positions, Index.mkAuto, autoLabels_length]⟩
  · intro i hi
    exact h1 i _ (by simpa [Index.mkAuto] using autoLabels_getElem? (α := α) hi)
  · intro a; rw [h2 a]; simp only [Index.mkAuto]; exact mem_autoLabels
  · intro a ha hneg
    apply h3 a _ hneg
    simp only [Index.mkAuto]
    rw [mem_autoLabels]
    rintro ⟨i, hi, rfl⟩
    exact ha i hi rfl

/-- A label slice is stop-inclusive: `loc_to_iloc(slice(labels[i], labels[j]))` is `slice(i, j+1)`;
    an endpoint that is not held is LocInvalid. -/
theorem slice_inclusive {ls : List α} {ix : Index α} (h : Index.mk? ls = .ok ix) :
    (∀ (i j : Nat) a b, ls[i]? = some a → ls[j]? = some b →
      ix.locToIloc (.slice (some a) (some b) none) = .ok (.slice ⟨some i, some (j + 1), none⟩)) ∧
    (∀ a b, a ∉ ls ∨ b ∉ ls → ix.locToIloc (.slice (some a) (some b) none) = .error .lookup) := by
  rw [Index.mk?_eq] at h
  by_cases hn : ls.Nodup
  · rw [if_pos hn] at h
    simp only [Except.ok.injEq] at h
    subst h
    constructor
    · intro i j a b hi hj
      simp only [Index.locToIloc, Index.locToIlocP, Index.locMap, Index.mapSliceArgs, Index.mapSliceArg, Index.mapSliceStop,
        Option.isSome_none, Option.isNone_some, Bool.false_eq_true, false_and, and_false, if_false]
      rw [AMap.get?_zipIdx_some 0 hn hi, AMap.get?_zipIdx_some 0 hn hj]
      simp [Except.map]
    · intro a b hab
      simp only [Index.locToIloc, Index.locToIlocP, Index.locMap, Index.mapSliceArgs, Index.mapSliceArg, Index.mapSliceStop,
        Option.isSome_none, Option.isNone_some, Bool.false_eq_true, false_and, and_false, if_false]
      by_cases ha : a ∈ ls
      · have hb : b ∉ ls := by rcases hab with h | h; exact absurd ha h; exact h
        obtain ⟨i, hi⟩ := List.mem_iff_getElem?.mp ha
        rw [AMap.get?_zipIdx_some 0 hn hi, AMap.get?_zipIdx_none 0 hb]
      · rw [AMap.get?_zipIdx_none 0 ha]
  · rw [if_neg hn] at h; cases h

/-- A descending label slice (step -1) is stop-inclusive too: `slice(labels[i], labels[j], -1)` is
    `slice(i, j-1, -1)`, with an open stop when the stop label is the first position (the repair of
    finding F47, commit 51a0a39). -/
theorem slice_inclusive_descending {ls : List α} {ix : Index α} (h : Index.mk? ls = .ok ix)
    (i j : Nat) (a b : α) (hi : ls[i]? = some a) (hj : ls[j]? = some b) :
    ix.locToIloc (.slice (some a) (some b) (some (-1))) =
      .ok (.slice ⟨some i, if j = 0 then none else some ((j : Int) - 1), some (-1)⟩) := by
  rw [Index.mk?_eq] at h
  by_cases hn : ls.Nodup
  · rw [if_pos hn] at h
    simp only [Except.ok.injEq] at h
    subst h
    simp only [Index.locToIloc, Index.locToIlocP, Index.locMap, Index.mapSliceArgs, Index.mapSliceArg,
      Index.mapSliceStop, Option.isSome_none, Option.isNone_some, Bool.false_eq_true, false_and, and_false, if_false]
    rw [AMap.get?_zipIdx_some 0 hn hi, AMap.get?_zipIdx_some 0 hn hj]
    by_cases hj0 : j = 0
    · subst hj0; simp
    · have : ¬ ((j : Int) - 1 < 0) := by omega
      simp [hj0, this]
  · rw [if_neg hn] at h; cases h

/-- Grow-only histories: for EVERY list of append/extend calls on a well-formed IndexGO (mapped or
    auto-integer) the result is well formed, its labels are the old ones followed by exactly the
    accepted new ones in order, and the bijection holds for every reader (incl. after the
    promotion from `loc_is_iloc` to a real map). -/
theorem go_history {s : IndexGO α} (h : s.WF) (ops : List (IndexGO.Op α)) :
    (s.run ops).WF ∧
    (s.run ops).mutLabels = s.mutLabels ++ IndexGO.accepted s.mutLabels ops ∧
    (s.run ops).toIndex.labels = (s.run ops).mutLabels ∧
    (∀ (i : Nat) a, (s.run ops).mutLabels[i]? = some a → (s.run ops).toIndex.locToIloc (.label a) = .ok (.int i)) ∧
    (∀ a, (s.run ops).contains a = true ↔ a ∈ (s.run ops).mutLabels) := by
  obtain ⟨h1, h2⟩ := IndexGO.run_spec h ops
  have hl := IndexGO.toIndex_labels h1
  refine ⟨h1, h2, hl, ?_, IndexGO.contains_iff h1⟩
  intro i a hi
  exact Index.locToIloc_label (IndexGO.toIndex_WF h1) (by rw [hl]; exact hi)

/-- An `extend` is all-or-nothing: it is accepted iff its values are pairwise distinct and none is
    held; a rejected one leaves the labels unchanged. -/
theorem extend_atomic {s : IndexGO α} (h : s.WF) (as : List α) :
    ((s.extend as).2 = none ↔ (as.Nodup ∧ ∀ a ∈ as, a ∉ s.mutLabels)) ∧
    ((s.extend as).2 ≠ none → (s.extend as).1.mutLabels = s.mutLabels) := by
  obtain ⟨_, h2, h3⟩ := IndexGO.extend_spec h as
  refine ⟨h3, fun hne => ?_⟩
  have : ¬ (as.Nodup ∧ ∀ a ∈ as, a ∉ s.mutLabels) := fun hc => hne (h3.mpr hc)
  rw [h2]; simp [IndexGO.acceptExtend, this]

/-- A rejected append (the label is held already) raises KeyError and leaves labels, map and count
    as they were; an accepted one adds the label at the end. -/
theorem append_rejected_unchanged {s : IndexGO α} (h : s.WF) (a : α) :
    (a ∈ s.mutLabels → (s.append a).2 = some .lookup ∧ (s.append a).1.mutLabels = s.mutLabels ∧
        (s.append a).1.map = s.map ∧ (s.append a).1.count = s.count) ∧
    (a ∉ s.mutLabels → (s.append a).2 = none ∧ (s.append a).1.mutLabels = s.mutLabels ++ [a]) :=
  (IndexGO.append_spec h a).2

/-! ### hierarchical indices -/

/-- The tree builder of `from_labels` / `_from_type_blocks`: a result is a well-formed tree of
    uniform depth whose tuples are the input, in order, and they are pairwise distinct. -/
theorem fromLabels_sound {ts : List (List α)} {t : Level α} (h : Level.fromLabels ts = .ok t) :
    (∃ d, Level.WF d t ∧ (ts ≠ [] → 2 ≤ d)) ∧ t.offset = 0 ∧ t.tuples = ts ∧ ts.Nodup := by
  obtain ⟨⟨d, hw, hd⟩, ho, ht⟩ := Level.fromLabels_spec h
  exact ⟨⟨d, hw, hd⟩, ho, ht, ht ▸ Level.tuples_nodup t d hw⟩

/-- A label sequence that repeats a tuple, or revisits a closed subtree (is not a tree in the
    given order), is rejected with an error. -/
theorem fromLabels_rejects (ts : List (List α)) (h : ¬ ts.Nodup ∨ ¬ Level.TreeOrdered ts) :
    ∃ e, Level.fromLabels ts = .error e := by
  cases hr : Level.fromLabels ts with
  | error e => exact ⟨e, rfl⟩
  | ok t =>
    obtain ⟨⟨d, hw, _⟩, _, ht, hn⟩ := fromLabels_sound hr
    rcases h with h | h
    · exact absurd hn h
    · exact absurd (ht ▸ Level.tuples_treeOrdered t d hw) h

/-- `leaf_loc_to_iloc`: in a well-formed tree the lookup of a tuple returns i exactly when the
    i-th tuple is that tuple (offset arithmetic); membership (`__contains__` with its depth check) ⇔ held, for every key. -/
theorem leaf_bijection {t : Level α} {d : Nat} (h : Level.WF d t) :
    (∀ key i, t.leafLocToIloc key = .ok i ↔ t.tuples[i]? = some key) ∧
    (∀ key, t.containsKey d key = true ↔ key ∈ t.tuples) ∧
    t.len = t.tuples.length := by
  refine ⟨?_, Level.containsKey_spec h, (Level.tuples_length t d h).symm⟩
  intro key i
  unfold Level.leafLocToIloc
  rw [Level.leafLoc_spec t d h key 0 i]
  constructor
  · rintro ⟨j, hj, ht⟩; simp only [Nat.zero_add] at hj; subst hj; exact ht
  · intro ht; exact ⟨i, by simp, ht⟩

/-- PINNED-TREE BEHAVIOUR (finding F11, repaired in /repo commit c43fc4c): `IndexLevelGO.append`
    did not store the key it was given — the descent followed the last target at every depth
    without comparing the key's prefix. -/
theorem appendPinned_counterexample :
    ((Level.node [0, 1] [.leaf [1] 0, .leaf [1] 1] 0 : Level Int).appendPinned 2 [0, 2]).map Level.tuples
      = .ok [[0, 1], [1, 1], [1, 2]] := by decide

/-- The repaired append refuses that key and stores a key continuing the right-most path. -/
theorem append_repaired_example :
    ((Level.node [0, 1] [.leaf [1] 0, .leaf [1] 1] 0 : Level Int).append 2 [0, 2]).map Level.tuples
      = .error .shape ∧
    ((Level.node [0, 1] [.leaf [1] 0, .leaf [1] 1] 0 : Level Int).append 2 [1, 2]).map Level.tuples
      = .ok [[0, 1], [1, 1], [1, 2]] := by decide

/-- `IndexLevelGO.append` (as repaired): a successful call stores exactly the key it is given at the
    end and keeps the tree well formed; it succeeds iff the key has full depth, is not held and
    continues the right-most path (`Level.accepts`); otherwise it raises and nothing changes. -/
theorem append_exact {t : Level α} {d : Nat} (hd : 1 ≤ d) (h : Level.WF d t) (key : List α) :
    (∀ t', t.append d key = .ok t' → Level.WF d t' ∧ t'.tuples = t.tuples ++ [key] ∧ key ∉ t.tuples) ∧
    ((∃ t', t.append d key = .ok t') ↔ Level.accepts t d key = true) :=
  ⟨fun t' ha => let r := Level.append_spec hd h ha; ⟨r.2.1, r.2.2.1, r.2.2.2.1⟩, Level.append_ok_iff hd h key⟩

/-- Every history of grow-only calls on the level tree — EVERY append (any key: accepted ones add
    exactly the key, rejected ones change nothing), extends by well-formed levels with new outer
    labels — keeps the tree well formed and adds exactly the accepted tuples, in order. -/
theorem levelGO_history {t : Level α} {d : Nat} (hd : 2 ≤ d) (h : Level.WF d t)
    (ops : List (LOp α)) (ha : Level.Admissible d t ops) :
    Level.WF d (t.runGO d ops) ∧
    (t.runGO d ops).tuples = t.tuples ++ Level.addedAll t d ops ∧
    (t.runGO d ops).tuples.Nodup :=
  let r := Level.runGO_spec hd ops t h ha
  ⟨r.1, r.2, Level.tuples_nodup _ d r.1⟩

/-- An `extend` that raises (an outer label is already held, or the depths differ) leaves the tree
    as it was. -/
theorem levelGO_extend_rejected {t : Level α} {d : Nat} (hd : 2 ≤ d) (h : Level.WF d t) (other : Level α)
    (e : Err) (hr : (t.extend other).2 = some e) : (t.extend other).1 = t :=
  Level.extend_rejected_unchanged h hd other e hr

/-! ### non-vacuity -/

instance : IntLabel Int := ⟨id, some, fun _ => rfl, fun a i h => by simp at h; exact h⟩

example : ∃ ix, Index.mk? ([3, 1, 2] : List Int) = .ok ix := ⟨_, rfl⟩
example : Index.mk? ([3, 1, 3] : List Int) = .error .nonUnique := by rfl
example : (Index.mkAuto 3 : Index Int).locToIloc (.label 2) = .ok (.int 2) := by decide
example : ((IndexGO.mkAuto 2 : IndexGO Int).run [.append 2, .append 7, .append 1, .extend [9, 7, 5], .extend [9, 5]]).mutLabels
    = [0, 1, 2, 7, 9, 5] := by decide
example : (Level.fromLabels ([[1, 1], [1, 2], [2, 1]] : List (List Int))).map Level.tuples
    = .ok [[1, 1], [1, 2], [2, 1]] := by decide
example : ∃ e, Level.fromLabels ([[1, 1], [2, 1], [1, 2]] : List (List Int)) = .error e :=
  ⟨.indexInit, by rfl⟩
example : (Level.node [5, 6] [.leaf [1, 2] 0, .leaf [1] 2] 0 : Level Int).leafLocToIloc [6, 1] = .ok 2 := by decide

/-! ### `IndexHierarchy.level_drop` (as repaired by commits c60a76d, 8dba1fb)

  `Level.Populated`: every IndexLevel of the tree holds at least one label (true of every non-empty
  IndexHierarchy; the walks of `level_drop` read `targets[0]`). -/

/-- The trees `from_labels` builds from at least one label are populated (so the hypotheses of the
    `level_drop` theorems hold for them, with the depth given by `fromLabels_sound`). -/
theorem fromLabels_populated {ts : List (List α)} {t : Level α} (h : Level.fromLabels ts = .ok t)
    (hne : ts ≠ []) : t.Populated :=
  Level.fromLabels_populated h hne

example : ∃ t, Level.fromLabels ([[1, 1, 1], [1, 2, 1], [2, 1, 1]] : List (List Int)) = .ok t ∧
    (t.levelDropInner 1).map Level.tuples = .ok [[1, 1], [1, 2], [2, 1]] ∧
    (t.levelDropOuter 1).map Level.tuples = .error .nonUnique ∧
    (t.levelDropOuter 2).map Level.tuples = .error .nonUnique := ⟨_, rfl, by decide⟩

/-- `level_drop(-k)` (inner levels) on a well-formed tree of depth `d > k`: the answer is a
    well-formed tree of depth `d - k` (the re-based offsets ARE the running leaf counts; a leaf =
    the flat Index when `d - k = 1`) whose tuples are exactly the distinct `(d-k)`-prefixes of the
    original tuples in order of first occurrence. -/
theorem level_drop_inner_spec {t : Level α} {d k : Nat} (h : Level.WF d t) (hp : t.Populated)
    (hk0 : 0 < k) (hk : k < d) :
    ∃ r, t.levelDropInner k = .ok r ∧ Level.WF (d - k) r ∧ r.Populated ∧
      r.tuples = (t.tuples.map (·.take (d - k))).eraseDups ∧ (r.isLeaf = true ↔ d - k = 1) :=
  Level.levelDropInner_spec h hp hk0 hk

example : ((Level.node [0, 1] [.node [0, 1] [.leaf [0, 1] 0, .leaf [0, 1] 2] 0, .node [5] [.leaf [7, 8] 0] 4] 0 :
      Level Int).levelDropInner 1).map Level.tuples = .ok [[0, 0], [0, 1], [1, 5]] := by decide
example : ((Level.node [0, 1] [.node [0, 1] [.leaf [0, 1] 0, .leaf [0, 1] 2] 0, .node [5] [.leaf [7, 8] 0] 4] 0 :
      Level Int).levelDropInner 2).map Level.tuples = .ok [[0], [1]] := by decide

/-- so the bijection holds on the answer of `level_drop(-k)`: looking up a prefix gives its
    position among the distinct prefixes, membership is exact. -/
theorem level_drop_inner_bijection {t : Level α} {d k : Nat} (h : Level.WF d t) (hp : t.Populated)
    (hk0 : 0 < k) (hk : k < d) :
    ∃ r, t.levelDropInner k = .ok r ∧
      (∀ key i, r.leafLocToIloc key = .ok i ↔ ((t.tuples.map (·.take (d - k))).eraseDups)[i]? = some key) ∧
      (∀ key, r.containsKey (d - k) key = true ↔ key ∈ (t.tuples.map (·.take (d - k))).eraseDups) ∧
      r.len = ((t.tuples.map (·.take (d - k))).eraseDups).length := by
  obtain ⟨r, e, w, _, ht, _⟩ := level_drop_inner_spec h hp hk0 hk
  obtain ⟨b1, b2, b3⟩ := leaf_bijection w
  exact ⟨r, e, ht ▸ b1, ht ▸ b2, ht ▸ b3⟩

/-- PINNED-TREE BEHAVIOUR (repaired in /repo commit 8dba1fb): without the re-basing walk the kept
    targets carried the offsets of the deeper tree — on a from_product-like tree of depth 3 with 2
    leaves per node the second target of `level_drop(-1)` kept offset 4 (its position is 2), so the
    label (1, 0) resolved to position 4 of an index of length 4. -/
theorem levelDropInnerPinned_counterexample :
    ((Level.node [0, 1] [.node [0, 1] [.leaf [0, 1] 0, .leaf [0, 1] 2] 0,
        .node [0, 1] [.leaf [0, 1] 0, .leaf [0, 1] 2] 4] 0 : Level Int).levelDropInnerPinned 1).map
      (fun r => (r.children.map Level.offset, r.leafLocToIloc [1, 0], r.len)) = .ok ([0, 4], .ok 4, 4) := by decide

/-- The repaired drop re-bases that offset. -/
theorem level_drop_inner_repaired_example :
    ((Level.node [0, 1] [.node [0, 1] [.leaf [0, 1] 0, .leaf [0, 1] 2] 0,
        .node [0, 1] [.leaf [0, 1] 0, .leaf [0, 1] 2] 4] 0 : Level Int).levelDropInner 1).map
      (fun r => (r.children.map Level.offset, r.leafLocToIloc [1, 0], r.len)) = .ok ([0, 2], .ok 2, 4) := by decide

/-- `level_drop(k)` (outer levels) on a well-formed tree of depth `d > k`: an answer is a
    well-formed tree of depth `d - k` holding the `k`-shorter suffixes of the original tuples in
    order; there is an answer exactly when, at every depth `1 … k`, the labels of all nodes of
    that depth together are pairwise distinct (`Level.OuterDroppable`: the condition the
    constructor of each new outer Index checks), otherwise it is the non-unique initialisation
    error; in particular suffixes that repeat or are not a tree in the given order are refused. -/
theorem level_drop_outer_spec {t : Level α} {d k : Nat} (h : Level.WF d t) (hp : t.Populated)
    (hk0 : 0 < k) (hk : k < d) :
    (∀ r, t.levelDropOuter k = .ok r →
        Level.WF (d - k) r ∧ r.Populated ∧ r.tuples = t.tuples.map (·.drop k)) ∧
    ((∃ r, t.levelDropOuter k = .ok r) ↔ Level.OuterDroppable k t) ∧
    (¬ Level.OuterDroppable k t → t.levelDropOuter k = .error .nonUnique) ∧
    (¬ (t.tuples.map (·.drop k)).Nodup ∨ ¬ Level.TreeOrdered (t.tuples.map (·.drop k)) →
        t.levelDropOuter k = .error .nonUnique) := by
  obtain ⟨s1, s2⟩ := Level.levelDropOuter_spec h hp hk0 hk
  have hsound : ∀ r, t.levelDropOuter k = .ok r →
      Level.WF (d - k) r ∧ r.Populated ∧ r.tuples = t.tuples.map (·.drop k) := by
    intro r hr
    by_cases hd : Level.OuterDroppable k t
    · obtain ⟨r', e, w, p, ht⟩ := s1 hd
      rw [e] at hr
      cases hr
      exact ⟨w, p, ht⟩
    · rw [s2 hd] at hr; cases hr
  have hiff : (∃ r, t.levelDropOuter k = .ok r) ↔ Level.OuterDroppable k t := by
    constructor
    · rintro ⟨r, hr⟩
      by_cases hd : Level.OuterDroppable k t
      · exact hd
      · rw [s2 hd] at hr; cases hr
    · intro hd
      obtain ⟨r, e, _⟩ := s1 hd
      exact ⟨r, e⟩
  refine ⟨hsound, hiff, s2, ?_⟩
  intro hbad
  apply s2
  intro hd
  obtain ⟨r, e, w, _, ht⟩ := s1 hd
  rcases hbad with hb | hb
  · exact hb (ht ▸ Level.tuples_nodup r _ w)
  · exact hb (ht ▸ Level.tuples_treeOrdered r _ w)

example : ((Level.node [0, 1] [.node [5, 6] [.leaf [1, 2] 0, .leaf [1] 2] 0, .node [7] [.leaf [1, 2] 0] 3] 0 :
      Level Int).levelDropOuter 1).map Level.tuples = .ok [[5, 1], [5, 2], [6, 1], [7, 1], [7, 2]] := by decide
example : ((Level.node [0, 1] [.node [5, 6] [.leaf [1, 2] 0, .leaf [3] 2] 0, .node [7] [.leaf [4, 5] 0] 3] 0 :
      Level Int).levelDropOuter 2).map Level.tuples = .ok [[1], [2], [3], [4], [5]] := by decide

/-- The refusal is by label, not by suffix: the suffixes (5, 1), (5, 2) are distinct and a tree in
    the given order, but the label 5 is held under two dropped parents. -/
theorem level_drop_outer_shared_label_example :
    (Level.node [0, 1] [.node [5] [.leaf [1] 0] 0, .node [5] [.leaf [2] 0] 1] 0 : Level Int).tuples.map (·.drop 1)
      = [[5, 1], [5, 2]] ∧
    ((Level.node [0, 1] [.node [5] [.leaf [1] 0] 0, .node [5] [.leaf [2] 0] 1] 0 : Level Int).levelDropOuter 1).map
      Level.tuples = .error .nonUnique := by decide

/-- PINNED-TREE BEHAVIOUR (finding F45, repaired in /repo commit c60a76d): the promoted targets kept
    offsets relative to the dropped parent — after `level_drop(1)` on depth 3 the target of the
    second sub-tree kept offset 0 (its position is 3), so the label (7, 1) resolved to position 0. -/
theorem levelDropOuterPinned_counterexample :
    ((Level.node [0, 1] [.node [5, 6] [.leaf [1, 2] 0, .leaf [1] 2] 0, .node [7] [.leaf [1, 2] 0] 3] 0 :
        Level Int).levelDropOuterPinned 1).map
      (fun r => (r.children.map Level.offset, r.leafLocToIloc [7, 1])) = .ok ([0, 2, 0], .ok 0) := by decide

/-- The repaired drop adds the offset of the dropped parent. -/
theorem level_drop_outer_repaired_example :
    ((Level.node [0, 1] [.node [5, 6] [.leaf [1, 2] 0, .leaf [1] 2] 0, .node [7] [.leaf [1, 2] 0] 3] 0 :
        Level Int).levelDropOuter 1).map
      (fun r => (r.children.map Level.offset, r.leafLocToIloc [7, 1])) = .ok ([0, 2, 3], .ok 3) := by decide

end SF.C02
