/-
  C16 — single-table export/import round trips: the delimited-text layer.

  Property theorems about the mirrored `csv.writer` / `csv.reader` automaton of SFModel/Csv.lean, the tab
  re-join + `genfromtxt` split of `Frame.from_delimited`, the TSV path that bypasses `csv.reader`, and the
  `_to_str_records` layout.  All statements are over arbitrary rows (any number of fields, any field
  length) and arbitrary delimiter / quote characters satisfying the stated side conditions.
-/
import SFModel.CsvLemmas

namespace SF.C16
open SF SF.Csv

/-- **csv_roundtrip.**  For every delimiter ≠ quotechar, neither of them CR or LF, and every row whose
    fields are free of CR / LF (fields may contain the delimiter, the quotechar, spaces, tabs, be empty;
    the row may be empty or the single empty field): parsing the written line gives the row back. -/
theorem csv_roundtrip {d q : Char} (hd : Dialect d q) (fs : List Field) (hc : ∀ f ∈ fs, Clean f) :
    csvParseLine d q (csvWriteRow d q fs) = .ok fs := by
  have hnq : ('\n' : Char) ≠ q := fun h => (ne_lf_of_not_nl hd.qnl) h.symm
  have hnd : ('\n' : Char) ≠ d := fun h => (ne_lf_of_not_nl hd.dnl) h.symm
  by_cases h0 : fs = []
  · subst h0
    simp [csvWriteRow, joinFields, csvParseLine, feed, step, initPS, isNl_lf]
  by_cases h1 : fs = [[]]
  · subst h1
    have hqn := hd.qnl
    simp [csvWriteRow, joinFields, writeField, needsQuote, csvParseLine, feed, step, stepStartField, initPS,
      saveField, hqn, hnq, hnd, isNl_lf]
  rw [csvWriteRow_eq_encRow d q h0 h1]
  obtain ⟨ch, hhead, hn⟩ := encRow_head hd h0 h1 hc
  unfold csvParseLine initPS
  cases henc : encRow d q fs with
  | nil => simp [henc] at hhead
  | cons x tl =>
    have hx : x = ch := by simpa [henc] using hhead
    subst hx
    rw [feed_startRecord hn tl [], ← henc, feed_encRow hd fs h0 hc []]
    simp [step]

-- non-vacuity: a row with the delimiter, the quote, a space, an empty field
example : csvWriteRow ',' '"' ["a,b".toList, "x\"y".toList, " ".toList, []] = "\"a,b\",\"x\"\"y\", ,\n".toList := by decide
example : csvParseLine ',' '"' "\"a,b\",\"x\"\"y\", ,\n".toList = .ok ["a,b".toList, "x\"y".toList, " ".toList, []] := by decide
example : Dialect ',' '"' := ⟨by decide, by decide, by decide⟩
example : csvWriteRow ',' '"' [[]] = "\"\"\n".toList := by decide
example : csvWriteRow '|' '\'' [[], []] = "|\n".toList := by decide

/-- The quoting rule is needed for each special character: written raw, the row does not come back. -/
theorem unquoted_specials_do_not_roundtrip :
    csvParseLine ',' '"' "a,b\n".toList ≠ .ok ["a,b".toList] ∧
    csvParseLine ',' '"' "\"a\n".toList ≠ .ok ["\"a".toList] ∧
    csvParseLine ',' '"' "\n".toList ≠ .ok [[]] := by
  refine ⟨by decide, by decide, by decide⟩

/-- **rejoin_roundtrip.**  `from_delimited` with a delimiter other than tab: `csv.reader` row, re-joined with
    tab, split by `genfromtxt`.  Fields additionally free of tab and without leading / trailing space, and
    the row neither empty nor the lone empty field: the fields come back. -/
theorem rejoin_roundtrip {d q : Char} (hd : Dialect d q) (fs : List Field)
    (h0 : fs ≠ []) (h1 : fs ≠ [[]])
    (hc : ∀ f ∈ fs, Clean f ∧ NoEdgeSpace f) (ht : ∀ f ∈ fs, ∀ c ∈ f, c ≠ '\t') :
    importLine d q (csvWriteRow d q fs) = .ok fs := by
  unfold importLine
  rw [csv_roundtrip hd fs (fun f hf => (hc f hf).1)]
  simp only
  unfold genSplit
  rw [strip_id (tabJoin_head hc) (tabJoin_getLast hc)]
  have hne : (tabJoin fs).isEmpty = false := by
    have := tabJoin_ne_nil h0 h1
    cases hj : tabJoin fs with
    | nil => exact absurd hj this
    | cons x xs => rfl
  simp only [hne, Bool.false_eq_true, if_false]
  rw [splitOnChar_tabJoin fs h0 ht]

example : importLine ',' '"' (csvWriteRow ',' '"' ["a,b".toList, [], "x\"y z".toList]) =
    .ok ["a,b".toList, [], "x\"y z".toList] := by decide

/-- Outside the hypotheses of `rejoin_roundtrip` the import really differs (each proved on the model and
    replayed on the real code): a cell containing a tab splits in two; a leading space of the first cell
    and a trailing space of the last cell are stripped; the row of one empty cell disappears. -/
theorem rejoin_counterexamples :
    importLine ',' '"' (csvWriteRow ',' '"' ["a\tb".toList]) = .ok ["a".toList, "b".toList] ∧
    importLine ',' '"' (csvWriteRow ',' '"' [" a".toList, "b ".toList]) = .ok ["a".toList, "b".toList] ∧
    importLine ',' '"' (csvWriteRow ',' '"' [[]]) = .ok [] := by
  refine ⟨by decide, by decide, by decide⟩

/-- **tsv_roundtrip** (the repaired tree, 82942dd).  `to_tsv` → `from_tsv`: the tab delimiter is read through
    `csv.reader` like every delimiter, so for every quote character (≠ tab, not CR/LF) every row — other than
    the empty row and the lone empty cell — whose fields are free of CR / LF and of TAB and have no
    leading / trailing space comes back unchanged; the fields may contain the quote character, commas,
    inner spaces, and may be empty. -/
theorem tsv_roundtrip {q : Char} (hq : q ≠ '\t') (hqn : isNl q = false) (fs : List Field)
    (h0 : fs ≠ []) (h1 : fs ≠ [[]])
    (hc : ∀ f ∈ fs, Clean f ∧ NoEdgeSpace f) (ht : ∀ f ∈ fs, ∀ c ∈ f, c ≠ '\t') :
    importLineTsv q (csvWriteRow '\t' q fs) = .ok fs :=
  rejoin_roundtrip ⟨fun h => hq h.symm, by decide, hqn⟩ fs h0 h1 hc ht

example : importLineTsv '"' (csvWriteRow '\t' '"' ["a\"b".toList, [], "x,y \"\" z".toList]) =
    .ok ["a\"b".toList, [], "x,y \"\" z".toList] := by decide
example : csvWriteRow '\t' '"' ["a\"b".toList, "c".toList] = "\"a\"\"b\"\tc\n".toList := by decide

/-- The "tab-free" hypothesis of `tsv_roundtrip` is needed: with the tab delimiter a cell holding a tab is
    written quoted and parsed back whole by `csv.reader`, but the re-join with tab + split cuts it in two
    (same behaviour as for any delimiter, see `rejoin_counterexamples`). -/
theorem tsv_tab_cell_counterexample :
    csvParseLine '\t' '"' (csvWriteRow '\t' '"' ["a\tb".toList, "c".toList]) = .ok ["a\tb".toList, "c".toList] ∧
    importLineTsv '"' (csvWriteRow '\t' '"' ["a\tb".toList, "c".toList]) = .ok ["a".toList, "b".toList, "c".toList] := by
  refine ⟨by decide, by decide⟩

/-! #### historical: the pinned-tree TSV path (repaired in 82942dd) -/

/-- pinned-tree behaviour, repaired in 82942dd: the old TSV path (`importTsvOld`: raw line to genfromtxt, no
    `csv.reader`) was the identity only on rows whose fields need no quoting: free of tab, quotechar, CR, LF,
    without leading / trailing space. -/
theorem importTsvOld_quote_free_roundtrip {q : Char} (fs : List Field)
    (h0 : fs ≠ []) (h1 : fs ≠ [[]])
    (hc : ∀ f ∈ fs, Clean f ∧ NoEdgeSpace f) (ht : ∀ f ∈ fs, ∀ c ∈ f, c ≠ '\t' ∧ c ≠ q) :
    importTsvOld (csvWriteRow '\t' q fs) = fs := by
  have hw : ∀ f ∈ fs, writeField '\t' q f = f := by
    intro f hf
    unfold writeField
    have : needsQuote '\t' q f = false := by
      unfold needsQuote
      apply List.any_eq_false.mpr
      intro c hcm
      have h1 := ht f hf c hcm
      have h2 := ne_lf_of_not_nl ((hc f hf).1 c hcm)
      simp [h1.1, h1.2, h2]
    simp [this]
  have henc : ∀ (l : List Field), l ≠ [] → (∀ f ∈ l, writeField '\t' q f = f) →
      encRow '\t' q l = tabJoin l ++ ['\n'] := by
    intro l
    induction l with
    | nil => intro h; exact absurd rfl h
    | cons f rest ih =>
      intro _ hw'
      cases rest with
      | nil => simp [encRow, tabJoin, hw' f (by simp)]
      | cons g r =>
        simp only [encRow, tabJoin, hw' f (by simp)]
        rw [ih (by simp) (fun x hx => hw' x (by simp [hx]))]
        simp
  unfold importTsvOld genSplit
  rw [csvWriteRow_eq_encRow '\t' q h0 h1, henc fs h0 hw]
  rw [strip_append_nl (tabJoin_ne_nil h0 h1) (tabJoin_head hc) (tabJoin_getLast hc)]
  have hne : (tabJoin fs).isEmpty = false := by
    have := tabJoin_ne_nil h0 h1
    cases hj : tabJoin fs with
    | nil => exact absurd hj this
    | cons x xs => rfl
  simp only [hne, Bool.false_eq_true, if_false]
  exact splitOnChar_tabJoin fs h0 (fun f hf c hcm => (ht f hf c hcm).1)


/-- pinned-tree behaviour, repaired in 82942dd (finding F4): `to_tsv` quotes a cell containing the quote
    character, the old `from_tsv` never unquoted: `a"b` came back as `"a""b"`, a lone empty cell as `""`; the
    round-trip statement was false for the old path without the "no quotechar" hypothesis. -/
theorem importTsvOld_quote_counterexample :
    importTsvOld (csvWriteRow '\t' '"' ["a\"b".toList]) = ["\"a\"\"b\"".toList] ∧
    importTsvOld (csvWriteRow '\t' '"' [[]]) = ["\"\"".toList] ∧
    ¬ (∀ fs : List Field, (∀ f ∈ fs, Clean f ∧ NoEdgeSpace f) → (∀ f ∈ fs, ∀ c ∈ f, c ≠ '\t') →
        fs ≠ [] → fs ≠ [[]] → importTsvOld (csvWriteRow '\t' '"' fs) = fs) := by
  refine ⟨by decide, by decide, ?_⟩
  intro h
  have := h ["a\"b".toList] (by decide) (by decide) (by decide) (by decide)
  revert this
  decide

/-! ### StoreFilter -/

/-- Side conditions on a `StoreFilter` under which decode ∘ encode is the identity: every `from_*` string is
    in its own `to_*` set and in none of the sets looked up before it (order nan, nat, none, posinf, neginf). -/
structure SFWellFormed (f : StoreFilter) : Prop where
  nan : ∀ s, f.fromNan = some s → s ∈ f.toNan
  nat : ∀ s, f.fromNat = some s → s ∉ f.toNan ∧ s ∈ f.toNat
  none : ∀ s, f.fromNone = some s → s ∉ f.toNan ∧ s ∉ f.toNat ∧ s ∈ f.toNone
  posInf : ∀ s, f.fromPosInf = some s → s ∉ f.toNan ∧ s ∉ f.toNat ∧ s ∉ f.toNone ∧ s ∈ f.toPosInf
  negInf : ∀ s, f.fromNegInf = some s → s ∉ f.toNan ∧ s ∉ f.toNat ∧ s ∉ f.toNone ∧ s ∉ f.toPosInf ∧ s ∈ f.toNegInf

/-- The domain: a string cell must not be one of the decode tokens (the "unambiguous text" restriction),
    and NaT needs a replacement string (`from_nat=None` turns NaT into `None`). -/
def SFInDomain {α} (f : StoreFilter) : Cell α → Prop
  | .text s => s ∉ f.toNan ∧ s ∉ f.toNat ∧ s ∉ f.toNone ∧ s ∉ f.toPosInf ∧ s ∉ f.toNegInf
  | .nat => f.fromNat ≠ none
  | _ => True

/-- **storefilter_inverse.**  For a well-formed filter, decoding the encoded value gives the value back, for
    NaN, None, ±inf, NaT, every other non-string value, and every string that is not a decode token. -/
theorem storefilter_inverse {α} (f : StoreFilter) (hw : SFWellFormed f) (v : Cell α) (hv : SFInDomain f v) :
    sfDecode f (sfEncode f v) = v := by
  cases v with
  | none =>
    cases h : f.fromNone with
    | none => simp [sfEncode, sfDecode, h]
    | some s => obtain ⟨a, b, c⟩ := hw.none s h; simp [sfEncode, sfDecode, h, a, b, c]
  | nan =>
    cases h : f.fromNan with
    | none => simp [sfEncode, sfDecode, h]
    | some s => have a := hw.nan s h; simp [sfEncode, sfDecode, h, a]
  | nat =>
    cases h : f.fromNat with
    | none => exact absurd h hv
    | some s => obtain ⟨a, b⟩ := hw.nat s h; simp [sfEncode, sfDecode, h, a, b]
  | posInf =>
    cases h : f.fromPosInf with
    | none => simp [sfEncode, sfDecode, h]
    | some s => obtain ⟨a, b, c, d⟩ := hw.posInf s h; simp [sfEncode, sfDecode, h, a, b, c, d]
  | negInf =>
    cases h : f.fromNegInf with
    | none => simp [sfEncode, sfDecode, h]
    | some s => obtain ⟨a, b, c, d, e⟩ := hw.negInf s h; simp [sfEncode, sfDecode, h, a, b, c, d, e]
  | text s =>
    obtain ⟨a, b, c, d, e⟩ := hv
    simp [sfEncode, sfDecode, a, b, c, d, e]
  | plain x => simp [sfEncode, sfDecode]

/-- The default `StoreFilter()` is well-formed except for NaT (`from_nat=''` but `to_nat` is empty):
    the inverse holds for every value other than NaT on the domain ... -/
theorem storefilter_default_inverse {α} (v : Cell α) (hn : v ≠ .nat) (hv : SFInDomain storeFilterDefault v) :
    sfDecode storeFilterDefault (sfEncode storeFilterDefault v) = v := by
  cases v with
  | nat => exact absurd rfl hn
  | text s =>
    obtain ⟨a, b, c, d, e⟩ := hv
    simp [sfEncode, sfDecode, a, b, c, d, e]
  | none => rfl
  | nan => rfl
  | posInf => rfl
  | negInf => rfl
  | plain x => simp [sfEncode, sfDecode]

/-- ... and outside the domain it does not: with the defaults NaT is written as the empty string and read
    back as NaN; the strings `""`, `"nan"`, `"None"`, `"inf"` are read back as NaN / None / +inf (this is why
    the round-trip claim is restricted to unambiguous texts). -/
theorem storefilter_default_counterexamples :
    sfDecode storeFilterDefault (sfEncode storeFilterDefault (.nat : Cell Nat)) = .nan ∧
    sfDecode storeFilterDefault (sfEncode storeFilterDefault (.text [] : Cell Nat)) = .nan ∧
    sfDecode storeFilterDefault (sfEncode storeFilterDefault (.text "nan".toList : Cell Nat)) = .nan ∧
    sfDecode storeFilterDefault (sfEncode storeFilterDefault (.text "None".toList : Cell Nat)) = .none ∧
    sfDecode storeFilterDefault (sfEncode storeFilterDefault (.text "inf".toList : Cell Nat)) = .posInf := by
  refine ⟨by decide, by decide, by decide, by decide, by decide⟩

/-- Non-vacuity of `storefilter_inverse`: the defaults plus a NaT token form a well-formed filter. -/
def storeFilterWithNat : StoreFilter :=
  { storeFilterDefault with fromNat := some "NaT".toList, toNat := ["NaT".toList] }

theorem storeFilterWithNat_wellFormed : SFWellFormed storeFilterWithNat := by
  refine ⟨?_, ?_, ?_, ?_, ?_⟩ <;>
  · intro s h
    simp only [storeFilterWithNat, storeFilterDefault, Option.some.injEq] at h
    subst h
    decide

example : SFInDomain storeFilterDefault (.text "x y".toList : Cell Nat) := by unfold SFInDomain; decide
example : sfEncode storeFilterDefault (.nan : Cell Nat) = .text [] := by decide

/-! ### record layout -/

theorem map_zip_take {α β : Type} (g : α → List β) (n : Nat) :
    ∀ (l1 : List α) (l2 : List (List β)), l1.length = l2.length → (∀ x ∈ l1, (g x).length = n) →
      (l1.zip l2).map (fun p => (g p.1 ++ p.2).take n) = l1.map g
  | [], [], _, _ => rfl
  | [], _ :: _, h, _ => by simp at h
  | _ :: _, [], h, _ => by simp at h
  | x :: l1, y :: l2, h, hg => by
    have hx := hg x (by simp)
    simp only [List.zip_cons_cons, List.map_cons]
    rw [map_zip_take g n l1 l2 (by simpa using h) (fun z hz => hg z (by simp [hz]))]
    simp [hx]

theorem map_zip_drop {α β : Type} (g : α → List β) (n : Nat) :
    ∀ (l1 : List α) (l2 : List (List β)), l1.length = l2.length → (∀ x ∈ l1, (g x).length = n) →
      (l1.zip l2).map (fun p => (g p.1 ++ p.2).drop n) = l2
  | [], [], _, _ => rfl
  | [], _ :: _, h, _ => by simp at h
  | _ :: _, [], h, _ => by simp at h
  | x :: l1, y :: l2, h, hg => by
    have hx := hg x (by simp)
    simp only [List.zip_cons_cons, List.map_cons]
    rw [map_zip_drop g n l1 l2 (by simpa using h) (fun z hz => hg z (by simp [hz]))]
    simp [hx]

/-- **records_layout_inverse.**  `_to_str_records(include_index=True, include_columns=True)` followed by
    the header / index split of `from_delimited` with the matching depths (`index_depth` = number of index
    levels, `columns_depth` = number of column levels) returns the same label and cell texts; the apex is the
    index names in the first header row and blanks below. -/
theorem records_layout_inverse (t : Table) (idepth : Nat)
    (hN : t.indexNames.length = idepth) (hI : ∀ ix ∈ t.index, ix.length = idepth)
    (hL : t.index.length = t.cells.length) :
    let s := splitRecords idepth t.columns.length (toStrRecords true true t)
    s.columns = t.columns ∧ s.index = t.index ∧ s.cells = t.cells ∧
      s.apex = (List.range t.columns.length).map
        (fun i => t.indexNames.map fun nm => if i = 0 then nm else []) := by
  simp only [splitRecords, toStrRecords, if_true]
  have hlen : ((List.range t.columns.length).zip t.columns).length = t.columns.length := by simp
  have htake : ∀ (B : List (List Field)),
      (((List.range t.columns.length).zip t.columns).map (fun p => (t.indexNames.map (fun nm => if p.1 = 0 then nm else [])) ++ p.2) ++ B).take t.columns.length
        = ((List.range t.columns.length).zip t.columns).map (fun p => (t.indexNames.map (fun nm => if p.1 = 0 then nm else [])) ++ p.2) := by
    intro B
    rw [List.take_append_of_le_length (by simp)]
    rw [List.take_of_length_le (by simp)]
  have hdrop : ∀ (B : List (List Field)),
      (((List.range t.columns.length).zip t.columns).map (fun p => (t.indexNames.map (fun nm => if p.1 = 0 then nm else [])) ++ p.2) ++ B).drop t.columns.length
        = B := by
    intro B
    rw [List.drop_append_of_le_length (by simp)]
    rw [List.drop_of_length_le (by simp)]
    simp
  have hg : ∀ x ∈ List.range t.columns.length, (t.indexNames.map (fun nm => if x = 0 then nm else ([] : Field))).length = idepth := by
    intro x _; simp [hN]
  refine ⟨?_, ?_, ?_, ?_⟩
  · rw [htake, List.map_map]
    simpa [Function.comp_def] using
      map_zip_drop (fun i => t.indexNames.map (fun nm => if i = 0 then nm else [])) idepth _ _ (by simp) hg
  · rw [hdrop, List.map_map]
    simpa [Function.comp_def] using map_zip_take (fun ix => ix) idepth t.index t.cells hL hI
  · rw [hdrop, List.map_map]
    simpa [Function.comp_def] using map_zip_drop (fun ix => ix) idepth t.index t.cells hL hI
  · rw [htake, List.map_map]
    simpa [Function.comp_def] using
      map_zip_take (fun i => t.indexNames.map (fun nm => if i = 0 then nm else [])) idepth _ _ (by simp) hg

def exampleTable : Table :=
  { indexNames := ["i".toList, "j".toList], columns := [["A".toList, "A".toList], ["x".toList, "y".toList]],
    index := [["p".toList, "1".toList], ["p".toList, "2".toList]], cells := [["a".toList, []], ["c,".toList, "d".toList]] }

example : toStrRecords true true exampleTable =
    [["i".toList, "j".toList, "A".toList, "A".toList], [[], [], "x".toList, "y".toList],
     ["p".toList, "1".toList, "a".toList, []], ["p".toList, "2".toList, "c,".toList, "d".toList]] := by decide

/-- The depths must match: reading with an index depth (or columns depth) off by one moves a label into
    the cells (or a data row into the header). -/
theorem layout_depth_mismatch_counterexample :
    (splitRecords 1 2 (toStrRecords true true exampleTable)).index ≠ exampleTable.index ∧
    (splitRecords 2 1 (toStrRecords true true exampleTable)).cells ≠ exampleTable.cells := by
  refine ⟨by decide, by decide⟩

end SF.C16
