/-
  C04 at the FRAME level — selection returns exactly the addressed rows / columns with their labels.

  Property theorems only (helper lemmas: FrameSelLemmas.lean).  The model (`Fr.iloc`, `Fr.loc`,
  FrameSel.lean) mirrors `Frame._extract` / `Frame._extract_loc`: blocks (`TB.extract`, about which
  `SF.C03.extract_refines` is proved), then the row index, then the columns (`Index._extract_iloc`),
  then the decision element / Series / Frame; label keys go through `Index._loc_to_iloc`
  (`Index.locToIlocP`, about which `SF.C02.bijection` is proved) on each axis first.
  The harness compares `Fr.iloc` / `Fr.loc` with the real `Frame.iloc` / `Frame.loc` on every run.

  (Own file, namespace `SF.C04`: `Props/C04.lean` is imported by BlocksLemmas.lean, which these
  theorems depend on through `SF.C03.extract_refines`.)
-/
import SFModel.FrameSelLemmas

namespace SF.C04
open SF

variable {α β : Type} [DecidableEq β] [IntLabel β]

/-! ### a concrete frame for the non-vacuity examples: 3 x 3, a 1-D block and a 2-D block of width 2,
    rows labelled 10 20 30, columns labelled 5 6 7 -/

def frEx : Fr Nat Int :=
  ⟨⟨[10, 20, 30], some [(10, 0), (20, 1), (30, 2)]⟩, ⟨[5, 6, 7], some [(5, 0), (6, 1), (7, 2)]⟩,
   ⟨3, [.d1 "i" [1, 2, 3], .d2 "f" [[4, 5, 6], [7, 8, 9]]]⟩⟩

/-- the same cells under automatic (`loc_is_iloc`) columns -/
def frExAuto : Fr Nat Int := { frEx with columns := Index.mkAuto 3 }

theorem frEx_wf : frEx.WF :=
  ⟨⟨by decide, by show AMap.build [10, 20, 30] = some _; decide⟩,
   ⟨by decide, by show AMap.build [5, 6, 7] = some _; decide⟩,
   by simp [frEx, TB.WF, Block.RowsOk, Block.colsOf, Block.width], rfl, rfl⟩

theorem frExAuto_wf : frExAuto.WF :=
  ⟨frEx_wf.1, Index.mkAuto_WF 3, frEx_wf.2.2.1, rfl, rfl⟩

theorem frEx_index : Index.mk? [10, 20, 30] = .ok frEx.index ∧ Index.mk? [5, 6, 7] = .ok frEx.columns :=
  ⟨rfl, rfl⟩

/-- what a selection answered, as plain data: (row labels, column labels or the name, columns of cells) -/
def view : FSel Nat Int → List Int × List Int × List (List Nat)
  | .elem v => ([], [], [[v]])
  | .line vs lab name => (lab.labels, [name], [vs])
  | .frame g => (g.index.labels, g.columns.labels, g.tb.cols)

/-- Both keys keep the dimension (slice, list, Boolean mask, everything):
    * no position addressed twice: the answer is a well-formed Frame whose row labels are the labels at
      the addressed row positions in key order, likewise the columns, whose shape is the number of
      addressed positions, whose dtypes are those of the addressed columns and whose cell `(i', j')` is
      the cell `(rps[i'], cps[j'])` of the source — for every block layout;
    * a row position addressed twice (a list key): the labels of the result would repeat and the
      index constructor refuses them (`ErrorInitIndexNonUnique`);
    * a column position addressed twice: an error as well. -/
theorem frame_iloc_exact (f : Fr α β) (h : f.WF) (rk ck : Key) (rps cps : List Nat)
    (hrk : rk.positions f.tb.rows = .ok rps) (hck : ck.positions f.tb.ncols = .ok cps)
    (hrm : rk.isMulti = true) (hcm : ck.isMulti = true) :
    (rps.Nodup → cps.Nodup →
      ∃ g, f.iloc rk ck = .ok (.frame g) ∧ g.WF ∧
        g.index.labels.map some = rps.map (f.index.labels[·]?) ∧
        g.columns.labels.map some = cps.map (f.columns.labels[·]?) ∧
        g.tb.rows = rps.length ∧ g.tb.ncols = cps.length ∧
        g.tb.dtypes = cps.map (fun j => f.tb.dtypes.getD j "") ∧
        ∀ i' j' (hi : i' < rps.length) (hj : j' < cps.length),
          g.cell i' j' = f.cell rps[i'] cps[j'] ∧ (g.cell i' j').isSome = true) ∧
    (¬ rps.Nodup → cps.Nodup → f.iloc rk ck = .error .nonUnique) ∧
    (¬ cps.Nodup → ∃ e, f.iloc rk ck = .error e) :=
  ⟨fun hrn hcn => Fr.iloc_frame_spec f h rk ck rps cps hrk hck hrm hcm hrn hcn,
   fun hrn hcn => Fr.iloc_frame_dup_rows f h rk ck rps cps hrk hck hrm hrn hcn,
   fun hcn => Fr.iloc_dup_cols f h rk ck cps hck hcm hcn⟩

/-- "no position addressed twice" is "the selected labels are pairwise distinct" (labels are unique) -/
theorem frame_labels_nodup_iff (f : Fr α β) (h : f.WF) (ps : List Nat) (hps : ∀ p ∈ ps, p < f.tb.rows) :
    (pick f.index.labels ps).Nodup ↔ ps.Nodup :=
  ⟨nodup_of_pick_nodup _ _ (by intro p hp; rw [h.2.2.2.1]; exact hps p hp), pick_nodup _ _ h.1.1⟩

/-- non-vacuity: a descending slice over the rows, a list over the columns (mixed 1-D / 2-D blocks) -/
example : frEx.WF ∧ (Key.slice ⟨some 2, none, some (-1)⟩).positions frEx.tb.rows = .ok [2, 1, 0] ∧
    (Key.list [-1, 0]).positions frEx.tb.ncols = .ok [2, 0] ∧
    (frEx.iloc (.slice ⟨some 2, none, some (-1)⟩) (.list [-1, 0])).map view =
      .ok ([30, 20, 10], [7, 5], [[9, 8, 7], [3, 2, 1]]) := ⟨frEx_wf, by decide, by decide, by decide⟩

/-- a list key repeating a position is refused; a Boolean mask on both axes -/
example : (frEx.iloc (.list [0, 2, 0]) .all).map view = .error .nonUnique ∧
    (frEx.iloc .all (.list [1, 1])).map view = .error .nonUnique ∧
    (frEx.iloc (.mask [true, false, true]) (.mask [false, true, true])).map view =
      .ok ([10, 30], [6, 7], [[4, 6], [7, 9]]) := ⟨by decide, by decide, by decide⟩

/-- Both keys integers (negative ones counted from the end): the element at that position. -/
theorem frame_iloc_element (f : Fr α β) (h : f.WF) (i j : Int) (p q : Nat)
    (hp : normPos i f.tb.rows = .ok p) (hq : normPos j f.tb.ncols = .ok q) :
    ∃ v, f.iloc (.int i) (.int j) = .ok (.elem v) ∧ f.cell p q = some v :=
  Fr.iloc_elem_spec f h i j p q hp hq

example : normPos (-1) frEx.tb.rows = .ok 2 ∧ normPos 1 frEx.tb.ncols = .ok 1 ∧
    (frEx.iloc (.int (-1)) (.int 1)).map view = .ok ([], [], [[6]]) ∧ frEx.cell 2 1 = some 6 :=
  ⟨by decide, by decide, by decide, by decide⟩

/-- One key an integer: a Series.
    * row key an integer: the values of that row at the addressed columns in key order, labelled by the
      labels of those columns (a well-formed index), named by the label of the row;
    * column key an integer: the values of that column at the addressed rows, labelled by the labels of
      those rows, named by the label of the column; a row position addressed twice is refused. -/
theorem frame_iloc_line (f : Fr α β) (h : f.WF) :
    (∀ (i : Int) (p : Nat) (ck : Key) (cps : List Nat), normPos i f.tb.rows = .ok p →
      ck.positions f.tb.ncols = .ok cps → ck.isMulti = true → cps.Nodup →
      ∃ vs lab name, f.iloc (.int i) ck = .ok (.line vs lab name) ∧ f.index.labels[p]? = some name ∧
        lab.WF ∧ lab.labels.map some = cps.map (f.columns.labels[·]?) ∧
        vs.map some = cps.map (fun j => f.cell p j)) ∧
    (∀ (rk : Key) (j : Int) (q : Nat) (rps : List Nat), rk.positions f.tb.rows = .ok rps →
      normPos j f.tb.ncols = .ok q → rk.isMulti = true →
      (rps.Nodup →
        ∃ vs lab name, f.iloc rk (.int j) = .ok (.line vs lab name) ∧ f.columns.labels[q]? = some name ∧
          lab.WF ∧ lab.labels.map some = rps.map (f.index.labels[·]?) ∧
          vs.map some = rps.map (fun i => f.cell i q)) ∧
      (¬ rps.Nodup → f.iloc rk (.int j) = .error .nonUnique)) :=
  ⟨fun i p ck cps hp hck hcm hcn => Fr.iloc_row_spec f h i p ck cps hp hck hcm hcn,
   fun rk j q rps hrk hq hrm =>
    ⟨fun hrn => Fr.iloc_col_spec f h rk j q rps hrk hq hrm hrn,
     fun hrn => Fr.iloc_col_dup f h rk j q rps hrk hq hrm hrn⟩⟩

/-- a row across the block boundary (name = row label), a column under a mask (name = column label) -/
example : (frEx.iloc (.int 1) (.slice ⟨none, none, some (-1)⟩)).map view = .ok ([7, 6, 5], [20], [[8, 5, 2]]) ∧
    (frEx.iloc (.mask [true, false, true]) (.int (-2))).map view = .ok ([10, 30], [6], [[4, 6]]) ∧
    (frEx.iloc (.list [1, 1]) (.int 0)).map view = .error .nonUnique := ⟨by decide, by decide, by decide⟩

/-- Invalid keys are errors, never data: a row key that addresses no valid positions (integer or list
    entry out of range, Boolean mask of the wrong length, slice step 0) is THE error of the call; an
    invalid column key makes the call an error as well (whatever the blocks did with it). -/
theorem frame_iloc_error (f : Fr α β) (h : f.WF) (rk ck : Key) :
    (∀ e, rk.positions f.tb.rows = .error e → f.iloc rk ck = .error e) ∧
    (∀ e, ck.positions f.tb.ncols = .error e → ∃ e', f.iloc rk ck = .error e') :=
  ⟨fun _ hrk => Fr.iloc_row_err f rk ck hrk, fun _ hck => Fr.iloc_col_err f h rk ck hck⟩

/-- an integer out of range, a mask one short (which the blocks alone would accept), a step of 0 -/
example : (frEx.iloc (.int 3) .all).map view = .error .lookup ∧
    (Key.mask [true, false]).positions frEx.tb.ncols = .error .lookup ∧
    (frEx.iloc .all (.mask [true, false])).map view = .error .lookup ∧
    (frEx.iloc (.slice ⟨none, none, some 0⟩) (.int 0)).map view = .error .value :=
  ⟨by decide, by decide, by decide, by decide⟩

/-- Label selection IS positional selection at the positions `Index._loc_to_iloc` answers on each axis
    (an integer array addresses the positions it lists); an error of either translation — the columns
    are translated first — is the error of the call. -/
theorem frame_loc_positional (f : Fr α β) (lrk lck : LKey β) :
    (∀ irk ick, f.columns.locToIlocP lck none false = .ok ick → f.index.locToIlocP lrk none false = .ok irk →
      f.loc lrk lck = f.iloc irk.toKey ick.toKey ∧
      (∀ n, irk.toKey.positions n = irk.positions n) ∧ (∀ n, ick.toKey.positions n = ick.positions n)) ∧
    (∀ e, f.columns.locToIlocP lck none false = .error e → f.loc lrk lck = .error e) ∧
    (∀ e ick, f.columns.locToIlocP lck none false = .ok ick → f.index.locToIlocP lrk none false = .error e →
      f.loc lrk lck = .error e) :=
  ⟨fun irk ick hc hr => ⟨Fr.loc_positional f lrk lck irk ick hc hr, IKey.toKey_positions irk, IKey.toKey_positions ick⟩,
   fun _ hc => Fr.loc_col_err f lrk lck hc, fun _ _ hc hr => Fr.loc_row_err f lrk lck hc hr⟩

/-- a stop-inclusive label slice over the rows, a Boolean mask over automatic columns -/
example : (frExAuto.loc (.slice (some 10) (some 20) none) (.mask [true, false, true])).map view =
      .ok ([10, 20], [0, 2], [[1, 2], [7, 8]]) ∧
    (frExAuto.loc (.slice (some 30) (some 20) (some (-1))) (.label 1)).map view = .ok ([30, 20], [1], [[6, 5]]) :=
  ⟨by decide, by decide⟩

/-- Composition with `SF.C02.bijection` (`Index(labels)`: label i ↦ position i, nothing else held).
    For duplicate-free lists of held labels on both axes the answer is a well-formed Frame holding
    exactly those labels, in key order, on each axis, and its cell `(i', j')` is the source cell at the
    positions of the i'-th row label and the j'-th column label; a label that is not held — on either
    axis — is a lookup error, never some other label's data; a held row label listed twice is refused. -/
theorem frame_loc_exact (f : Fr α β) (h : f.WF) {rls cls : List β}
    (hr : Index.mk? rls = .ok f.index) (hc : Index.mk? cls = .ok f.columns) (ras cas : List β) :
    (∀ rps cps : List Nat, ras.map some = rps.map (rls[·]?) → cas.map some = cps.map (cls[·]?) →
      ras.Nodup → cas.Nodup →
      ∃ g, f.loc (.list ras) (.list cas) = .ok (.frame g) ∧ g.WF ∧
        g.index.labels = ras ∧ g.columns.labels = cas ∧ g.tb.rows = ras.length ∧ g.tb.ncols = cas.length ∧
        ∀ i' j' (hi : i' < rps.length) (hj : j' < cps.length),
          g.cell i' j' = f.cell rps[i'] cps[j'] ∧ (g.cell i' j').isSome = true) ∧
    ((∀ a ∈ ras, a ∈ rls) → (∀ a ∈ cas, a ∈ cls) →
      (∃ rps cps : List Nat, ras.map some = rps.map (rls[·]?) ∧ cas.map some = cps.map (cls[·]?)) ∧
      (¬ ras.Nodup → cas.Nodup → f.loc (.list ras) (.list cas) = .error .nonUnique)) ∧
    ((∃ a ∈ ras, a ∉ rls) ∨ (∃ a ∈ cas, a ∉ cls) → f.loc (.list ras) (.list cas) = .error .lookup) :=
  ⟨fun rps cps hras hcas hrn hcn => Fr.loc_list_spec f h hr hc ras cas rps cps hras hcas hrn hcn,
   fun hrh hch =>
    ⟨(Index.exists_positions ras hrh).elim fun rps h1 =>
      (Index.exists_positions cas hch).elim fun cps h2 => ⟨rps, cps, h1, h2⟩,
     fun hrn hcn => Fr.loc_list_dup_rows f h hr hc ras cas hrh hch hrn hcn⟩,
   fun hab => Fr.loc_list_absent f hr hc ras cas hab⟩

/-- the labels [30, 10] x [7, 5] are held at positions [2, 0] x [2, 0]; 99 is not held -/
example : frEx.WF ∧ Index.mk? [10, 20, 30] = .ok frEx.index ∧ Index.mk? [5, 6, 7] = .ok frEx.columns ∧
    ([30, 10] : List Int).map some = [2, 0].map ([10, 20, 30][·]?) ∧
    (frEx.loc (.list [30, 10]) (.list [7, 5])).map view = .ok ([30, 10], [7, 5], [[9, 7], [3, 1]]) ∧
    (frEx.loc (.list [30, 99]) (.list [7, 5])).map view = .error .lookup ∧
    (frEx.loc (.list [30, 30]) (.list [7, 5])).map view = .error .nonUnique :=
  ⟨frEx_wf, rfl, rfl, by decide, by decide, by decide, by decide⟩

/-- One held label on each axis: the element at their positions; a label not held: a lookup error. -/
theorem frame_loc_element (f : Fr α β) (h : f.WF) {rls cls : List β}
    (hr : Index.mk? rls = .ok f.index) (hc : Index.mk? cls = .ok f.columns) (a b : β) :
    (∀ i j, rls[i]? = some a → cls[j]? = some b →
        ∃ v, f.loc (.label a) (.label b) = .ok (.elem v) ∧ f.cell i j = some v) ∧
    (a ∉ rls ∨ b ∉ cls → f.loc (.label a) (.label b) = .error .lookup) :=
  Fr.loc_elem_spec f h hr hc a b

example : (frEx.loc (.label 20) (.label 7)).map view = .ok ([], [], [[8]]) ∧ frEx.cell 1 2 = some 8 ∧
    (frEx.loc (.label 20) (.label 8)).map view = .error .lookup ∧
    (frEx.loc (.label 20) (.list [7, 5])).map view = .ok ([7, 5], [20], [[8, 2]]) :=
  ⟨by decide, by decide, by decide, by decide⟩

end SF.C04
