/-
  C07 — no lossy coercion when values of different types meet.

  Property theorems about the mirrored `resolve_dtype` (`resolve`, extracted from `resolveE`),
  `resolve_dtype_iter`, `concat_resolved`, `full_for_fill`, the merge pattern of the assignment /
  reindex sites and the flag automaton of `prepare_iter_for_array` (SFModel/DType.lean).
  Helper lemmas: SFModel/DTypeLemmas.lean, SFModel/DTypePrepLemmas.lean.
  `np.result_type` (`resultType`) and "NumPy stores a value unchanged when the dtype holds it"
  (`store`) are model parameters; harness/sfv/props/c07.py compares both with NumPy on every run.
-/
import SFModel.DTypeLemmas
import SFModel.DTypePrepLemmas

namespace SF.C07
open SF

/-! ### `resolve_dtype` -/

/-- `resolve_dtype` never raises (the only `np.result_type` failure, incompatible timedelta units,
    is caught and answered with object). -/
theorem resolve_total (a b : DType) : resolveE a b = .ok (resolve a b) := resolveE_eq a b

/-- The resolved dtype does not depend on the order of the operands. -/
theorem resolve_comm (a b : DType) : resolve a b = resolve b a := by
  rw [resolve_eq_spec, resolve_eq_spec]; exact resolveSpec_comm a b

/-- Object absorbs. -/
theorem resolve_obj_absorbs (a : DType) : resolve .obj a = .obj ∧ resolve a .obj = .obj :=
  ⟨resolve_obj_left a, resolve_obj_right a⟩

theorem resolve_idem (a : DType) : resolve a a = a := by
  apply resolve_eq_of; simp [resolveE]

/-- Two fixed-width strings resolve to the wider one: no truncation, whichever operand comes first. -/
theorem resolve_str (n m : Nat) : resolve (.str n) (.str m) = .str (max n m) := by
  rw [resolve_eq_spec]; rfl

theorem resolve_bytes (n m : Nat) : resolve (.bytes n) (.bytes m) = .bytes (max n m) := by
  rw [resolve_eq_spec]; rfl

/-- the kinds that are never merged with another kind -/
def isolatedKind : Kind → Bool
  | .b | .U | .S | .M | .m => true
  | _ => false

/-- Booleans, strings, bytes, datetimes and timedeltas against any *other* kind resolve to object
    (str × bytes is the one pair the library deliberately resolves to str: excluded).  Hence
    Booleans, numbers and strings are never cast into one another. -/
theorem resolve_cross_kind_obj (a b : DType) (hk : a.kind ≠ b.kind)
    (hiso : isolatedKind a.kind = true ∨ isolatedKind b.kind = true)
    (hsb : ¬ (a.kind.isStr = true ∧ b.kind.isStr = true)) : resolve a b = .obj := by
  rw [resolve_eq_spec]
  cases a <;> cases b <;> simp_all [DType.kind, isolatedKind, Kind.isStr, resolveSpec]

/-- in particular: bool with every numeric dtype, and every number with a string -/
theorem resolve_bool_number (b : DType) (hb : b.kind = .i ∨ b.kind = .u ∨ b.kind = .f ∨ b.kind = .c) :
    resolve .bool b = .obj ∧ resolve b .bool = .obj := by
  have h : resolve .bool b = .obj := by
    apply resolve_cross_kind_obj
    · cases b <;> simp_all [DType.kind]
    · left; rfl
    · simp [DType.kind, Kind.isStr]
  exact ⟨h, by rw [resolve_comm]; exact h⟩

/-- Same-kind results: the table is used only inside one family. -/
theorem resolve_same_family (a b : DType) (h : resolve a b ≠ .obj) :
    a.kind = b.kind ∨ (a.kind.isStr = true ∧ b.kind.isStr = true) ∨
      ((a.kind = .i ∨ a.kind = .u ∨ a.kind = .f ∨ a.kind = .c) ∧
       (b.kind = .i ∨ b.kind = .u ∨ b.kind = .f ∨ b.kind = .c)) := by
  rw [resolve_eq_spec] at h
  cases a <;> cases b <;> simp_all [DType.kind, Kind.isStr, resolveSpec]

/-! ### values survive a resolution -/

/-- **Partial**: a value held by `a` is held by `resolve a b` (and symmetrically by `resolve b a`)
    unless the promotion `a → resolve a b` is one of the listed lossy ones (`lossyInto`).

    Full statement (false, see `resolve_holds_counterexample`):
      `∀ a b v, a.Valid → b.Valid → holds a v → holds (resolve a b) v`. -/
theorem resolve_holds_partial (a b : DType) (v : V) (h : holds a v)
    (hl : lossyInto a (resolve a b) = false) : holds (resolve a b) v :=
  holds_of_le (le_resolve_left a b) hl h

theorem resolve_holds_partial_right (a b : DType) (v : V) (h : holds b v)
    (hl : lossyInto b (resolve a b) = false) : holds (resolve a b) v :=
  holds_of_le (le_resolve_right a b) hl h

/-- What the excluded promotions are for the dtypes NumPy really has: a 64-bit integer kind meeting
    float64 / complex128 (F5), bytes meeting str (outside the claim), year / month datetimes
    meeting weeks. -/
theorem lossy_characterisation (a r : DType) (ha : a.Valid) (hr : r.Valid) (hle : a.le r = true) :
    lossyInto a r = true ↔
      ((a = .int 64 ∨ a = .uint 64) ∧ (r = .float 64 ∨ r = .complex 128))
      ∨ (∃ n m, a = .bytes n ∧ r = .str m)
      ∨ ((a = .dt .Y ∨ a = .dt .M) ∧ r = .dt .W) := by
  cases a <;> cases r <;> simp [DType.le] at hle <;> simp [lossyInto]
  case int.float w f =>
    simp only [DType.Valid] at ha hr
    rcases ha with rfl | rfl | rfl | rfl <;> rcases hr with rfl | rfl | rfl | rfl <;>
      simp [mant, minFloat] at hle ⊢
  case int.complex w c =>
    simp only [DType.Valid] at ha hr
    rcases ha with rfl | rfl | rfl | rfl <;> rcases hr with rfl | rfl | rfl <;>
      simp [mant, minFloat] at hle ⊢
  case uint.float w f =>
    simp only [DType.Valid] at ha hr
    rcases ha with rfl | rfl | rfl | rfl <;> rcases hr with rfl | rfl | rfl | rfl <;>
      simp [mant, minFloat] at hle ⊢
  case uint.complex w c =>
    simp only [DType.Valid] at ha hr
    rcases ha with rfl | rfl | rfl | rfl <;> rcases hr with rfl | rfl | rfl <;>
      simp [mant, minFloat] at hle ⊢
  case dt.dt u r => cases u <;> cases r <;> simp

/-- The full statement fails in the mirrored model: `int64` resolved with `float64` is `float64`,
    which does not hold 2^53 + 1 (replayed on the real code: finding F5). -/
theorem resolve_holds_counterexample :
    ¬ (∀ (a b : DType) (v : V), a.Valid → b.Valid → holds a v → holds (resolve a b) v) := by
  intro h
  have h1 := h (.int 64) (.float 64) (.int (2 ^ 53 + 1)) (by decide) (by decide) (by decide)
  rw [resolve_eq_spec] at h1
  revert h1
  decide

/-- … while the same integer survives when the other side is an integer, a string or object. -/
example : holds (resolve (.int 64) (.uint 32)) (.int (2 ^ 53 + 1)) := by
  rw [resolve_eq_spec]; decide
example : resolve (.int 64) (.str 3) = .obj := by rw [resolve_eq_spec]; rfl
example : lossyInto (.int 32) (resolve (.int 32) (.float 32)) = false := by
  rw [resolve_eq_spec]; decide

/-- The dtypes NumPy really has are closed under `resolve`. -/
theorem resolve_valid (a b : DType) (ha : a.Valid) (hb : b.Valid) : (resolve a b).Valid := by
  rw [resolve_eq_spec]
  cases a <;> cases b
  case int.uint u v =>
    simp only [DType.Valid] at ha hb
    rcases ha with rfl | rfl | rfl | rfl <;> rcases hb with rfl | rfl | rfl | rfl <;>
      simp [resolveSpec, intUint, DType.Valid]
  case uint.int u v =>
    simp only [DType.Valid] at ha hb
    rcases ha with rfl | rfl | rfl | rfl <;> rcases hb with rfl | rfl | rfl | rfl <;>
      simp [resolveSpec, intUint, DType.Valid]
  case td.td u v =>
    cases u <;> cases v <;>
      simp [resolveSpec, resultTd, TUnit.nonlinear, TUnit.finer, TUnit.rank, DType.Valid]
  all_goals
    simp only [resolveSpec, DType.Valid] at * <;>
    first
    | trivial
    | (rcases ha with rfl | rfl | rfl | rfl <;> rcases hb with rfl | rfl | rfl | rfl <;> decide)
    | (rcases ha with rfl | rfl | rfl | rfl <;> rcases hb with rfl | rfl | rfl <;> decide)
    | (rcases ha with rfl | rfl | rfl <;> rcases hb with rfl | rfl | rfl | rfl <;> decide)
    | (rcases ha with rfl | rfl | rfl <;> rcases hb with rfl | rfl | rfl <;> decide)

/-! ### `resolve_dtype_iter`, the merge pattern, `concat_resolved`, `full_for_fill` -/

/-- The early exit of `resolve_dtype_iter` is sound: the result is the left fold of `resolve`. -/
theorem resolveIter_eq_fold (d : DType) (ds : List DType) :
    resolveIter (d :: ds) = some (ds.foldl resolve d) := by
  simp [resolveIter, resolveIterGo_eq_foldl]

/-- Every dtype that took part can be promoted into the result. -/
theorem resolveIter_upper {ds : List DType} {r : DType} (h : resolveIter ds = some r) :
    ∀ d ∈ ds, d.le r = true := resolveIter_le h

/-- **The merge pattern** `dst = np.empty(n, resolve_dtype_iter(dtypes)); dst[sel_i] = part_i`
    (reindex, shift, assignment, insertion, overlay, fill, `pivot_unstack` / `pivot_stack` with a fill
    value — `np.array(values, dtype=resolve_dtype(src, fill))` since fix 0d932e3 …): every stored element is the supplied
    one, whenever each part holds its own values and no part is promoted lossily. -/
theorem merge_preserves (parts : List Arr) (out : Arr) (h : mergeWrite parts = some out)
    (hwt : ∀ p ∈ parts, p.WellTyped)
    (hl : ∀ p ∈ parts, lossyInto p.dt out.dt = false) :
    out.vals = parts.flatMap (·.vals) := by
  unfold mergeWrite at h
  split at h
  · cases h
  · rename_i r hr
    simp only [Option.some.injEq] at h
    subst h
    exact flatMap_writeInto_eq parts hwt
      (fun p hp => resolveIter_le hr p.dt (List.mem_map.mpr ⟨p, hp, rfl⟩)) hl

/-- `concat_resolved` (first pass resolves, second pass concatenates into the resolved buffer). -/
theorem concat_preserves (arrs : List Arr) (out : Arr) (h : concatResolved arrs = some out)
    (hwt : ∀ p ∈ arrs, p.WellTyped)
    (hl : ∀ p ∈ arrs, lossyInto p.dt out.dt = false) :
    out.vals = arrs.flatMap (·.vals) := by
  cases arrs with
  | nil => cases h
  | cons a as =>
    simp only [concatResolved, Option.some.injEq] at h
    subst h
    apply flatMap_writeInto_eq _ hwt _ hl
    intro p hp
    rcases List.mem_cons.mp hp with rfl | hp
    · exact concatDType_le_first _ _
    · exact concatDType_le_mem _ _ _ (List.mem_map.mpr ⟨p, hp, rfl⟩)

/-- `dtype_from_element` answers a dtype that holds the element. -/
theorem dtypeFromElement_holds (e : Elem) (h : e.WF) : holds (dtypeFromElement e) e.value := by
  cases e with
  | nanSingleton => decide
  | none => decide
  | tuple id => simp [dtypeFromElement, Elem.value, holds, holdsB]
  | npScalar d v => exact h
  | py v =>
    cases v
    case int n =>
      simp only [dtypeFromElement, Elem.value, npArrayDType, holds]
      by_cases h1 : intRange 64 n
      · simp [h1, holdsB]
      · by_cases h2 : uintRange 64 n
        · simp [h1, h2, holdsB]
        · simp [h1, h2, holdsB]
    all_goals
      simp_all [dtypeFromElement, Elem.value, holds, holdsB, npArrayDType, Elem.WF, dtExact, tdExact] <;>
      try omega

/-- `full_for_fill`: the fill value is stored unchanged unless its own dtype is promoted lossily. -/
theorem fill_preserves (dtype : Option DType) (n : Nat) (e : Elem) (h : e.WF)
    (hl : lossyInto (dtypeFromElement e) (fullForFill dtype n e).dt = false) :
    ∀ v ∈ (fullForFill dtype n e).vals, v = e.value := by
  intro v hv
  simp only [fullForFill] at hv hl ⊢
  rw [List.mem_replicate] at hv
  rw [hv.2]
  apply store_of_holds
  cases dtype with
  | none => simpa using dtypeFromElement_holds e h
  | some d =>
    simp only at hl ⊢
    exact holds_of_le (le_resolve_right d _) hl (dtypeFromElement_holds e h)

/-- … and the column it is merged with keeps its values under the same condition. -/
theorem fill_keeps_column (d : DType) (n : Nat) (e : Elem) (v : V) (h : holds d v)
    (hl : lossyInto d (fullForFill (some d) n e).dt = false) :
    holds (fullForFill (some d) n e).dt v := by
  simp only [fullForFill] at hl ⊢
  exact holds_of_le (le_resolve_left d _) hl h

/-- The default NA of `dtype_kind_to_na` as coded: integers meet NaN and become float64 (the
    library's choice behind F5); bool / str / bytes columns meet None and become object;
    datetime64 keeps its unit; timedelta64 gets the *datetime64* NaT and becomes object. -/
theorem na_resolution :
    (∀ w, resolve (.int w) (dtypeFromElement (kindToNa .i)) = .float 64) ∧
    (∀ w, resolve (.uint w) (dtypeFromElement (kindToNa .u)) = .float 64) ∧
    resolve .bool (dtypeFromElement (kindToNa .b)) = .obj ∧
    (∀ n, resolve (.str n) (dtypeFromElement (kindToNa .U)) = .obj) ∧
    (∀ u, resolve (.dt u) (dtypeFromElement (kindToNa .M)) = .dt u) ∧
    (∀ u, resolve (.td u) (dtypeFromElement (kindToNa .m)) = .obj) := by
  have hm : ∀ w, minFloat w ≤ 64 := by intro w; unfold minFloat; (repeat' split) <;> omega
  refine ⟨?_, ?_, ?_, ?_, ?_, ?_⟩
  · intro w
    rw [resolve_eq_spec]
    show DType.float (max 64 (minFloat w)) = .float 64
    rw [Nat.max_eq_left (hm w)]
  · intro w
    rw [resolve_eq_spec]
    show DType.float (max 64 (minFloat w)) = .float 64
    rw [Nat.max_eq_left (hm w)]
  · rw [resolve_eq_spec]; decide
  · intro n; rw [resolve_eq_spec]; rfl
  · intro u; rw [resolve_eq_spec]; cases u <;> decide
  · intro u; rw [resolve_eq_spec]; rfl

/-! ### `prepare_iter_for_array` -/

/-- The flag automaton (with its early exit) answers `object` exactly for: a tuple / list /
    `__slots__` object, an Enum, a string together with a non-string, a big int together with a
    Python float / complex.  Note what is *not* there: a bool together with a number (F25). -/
theorem prepare_iter_object (cs : List ECls) :
    (prepareIter cs).1 = true ↔
      (.tupleLike ∈ cs ∨ .enum ∈ cs ∨ (.str ∈ cs ∧ ∃ c ∈ cs, c.isNonStr = true)
        ∨ (.bigInt ∈ cs ∧ .inexact ∈ cs)) := by
  have h := prepareGo_resolved FlagsInv.init cs
  simp only [List.nil_append] at h
  simp only [prepareIter, h, objMix, hasCls, Bool.or_eq_true, Bool.and_eq_true, List.any_eq_true,
    beq_iff_eq]
  constructor
  · rintro (((⟨x, hx, rfl⟩ | ⟨x, hx, rfl⟩) | ⟨⟨x, hx, rfl⟩, hy⟩) | ⟨⟨x, hx, rfl⟩, ⟨y, hy, rfl⟩⟩)
    · exact Or.inl hx
    · exact Or.inr (Or.inl hx)
    · exact Or.inr (Or.inr (Or.inl ⟨hx, hy⟩))
    · exact Or.inr (Or.inr (Or.inr ⟨hx, hy⟩))
  · rintro (h | h | ⟨h1, h2⟩ | ⟨h1, h2⟩)
    · exact Or.inl (Or.inl (Or.inl ⟨_, h, rfl⟩))
    · exact Or.inl (Or.inl (Or.inr ⟨_, h, rfl⟩))
    · exact Or.inl (Or.inr ⟨⟨_, h1, rfl⟩, h2⟩)
    · exact Or.inr ⟨⟨_, h1, rfl⟩, ⟨_, h2, rfl⟩⟩

/-- `has_tuple` reports a tuple iff one occurs in the part of the input that was scanned (the
    shortest prefix that already forces `object`). -/
theorem prepare_iter_has_tuple (cs : List ECls) :
    (prepareIter cs).2 = true ↔ .tupleLike ∈ scanned [] cs := by
  have h := (prepareGo_inv FlagsInv.init cs).tuple
  simp only [prepareIter, h, hasCls, List.any_eq_true, beq_iff_eq]
  constructor
  · rintro ⟨x, hx, rfl⟩; exact hx
  · intro h; exact ⟨_, h, rfl⟩

/-- non-vacuity / the F25 mix: `[True, 1]` is not an object mix, `['a', 1]` and `[2**60, 1.5]` are -/
example : prepareIter [.other, .other] = (false, false) := by decide
example : prepareIter [.str, .other, .tupleLike] = (true, false) := by decide
example : prepareIter [.bigInt, .inexact] = (true, false) := by decide
example : prepareIter [.other, .tupleLike, .str] = (true, true) := by decide

/-- non-vacuity of `merge_preserves`: an int8 part, a uint8 part and an int16 part -/
example : mergeWrite [⟨.int 8, [.int (-128)]⟩, ⟨.uint 8, [.int 255]⟩, ⟨.int 16, [.int 300]⟩]
    = some ⟨.int 16, [.int (-128), .int 255, .int 300]⟩ := by
  simp only [mergeWrite, resolveIter, List.map, resolveIterGo_eq_foldl, List.foldl, resolve_eq_spec]
  decide

/-- … and what goes wrong without the hypothesis: 'abcdef' written into a `<U1` destination. -/
example : store (.str 1) (.str 6 0) ≠ .str 6 0 := by decide
example : resolve (.str 1) (.str 6) = .str 6 := resolve_str 1 6

end SF.C07
