/-
  C01 — immutability: the discipline "containers only reference isolated arrays" is an invariant of
  every legal event, and under it nothing observable through an existing container ever changes —
  in particular no write by anyone (NumPy only lets writes through writeable arrays, and no
  writeable array aliases a container's buffer).
-/
import SFModel.HeapLemmas

namespace SF.C01
open SF SF.Heap

/-- The invariant (and structural well-formedness) is preserved by every legal event. -/
theorem inv_step (h : Heap) (e : Ev) (hw : h.wf = true) (hi : h.inv = true) (hl : h.legal e = true) :
    (h.step e).inv = true ∧ (h.step e).wf = true := by
  sorry

/-- No legal event changes what is observable through an existing container. -/
theorem snapshot_stable_step (h : Heap) (e : Ev) (hw : h.wf = true) (hi : h.inv = true)
    (hl : h.legal e = true) (c : Nat) (hc : c < h.conts.length) :
    (h.step e).snapshot c = h.snapshot c := by
  sorry

/-- ... and so does no history of events (illegal ones are refused): once a container exists, no
    sequence of allocations, views, copies, freezes, constructions and WRITES by anyone changes it. -/
theorem snapshot_stable (h : Heap) (es : List Ev) (hw : h.wf = true) (hi : h.inv = true)
    (c : Nat) (hc : c < h.conts.length) :
    (h.run es).snapshot c = h.snapshot c ∧ (h.run es).inv = true := by
  sorry

/-- `immutable_filter` on a writeable input hands back a fresh, frozen, un-aliased array with the
    same content: later writes by the caller through the input are never visible. -/
theorem filter_isolates (h : Heap) (a : Nat) (x : Arr) (hw : h.wf = true) (hx : h.arrs[a]? = some x)
    (hwr : x.writeable = true) :
    (h.step (.filter a)).isolated (h.filterResult a) = true ∧
    (h.step (.filter a)).bufs.getD ((h.step (.filter a)).arrs.getD (h.filterResult a) default).buf [] = h.bufs.getD x.buf [] := by
  sorry

/-- a read-only input is used as it is (the caller-side alias the property's statement permits) -/
theorem filter_keeps_frozen (h : Heap) (a : Nat) (x : Arr) (hx : h.arrs[a]? = some x)
    (hwr : x.writeable = false) : h.step (.filter a) = h ∧ h.filterResult a = a := by
  sorry

/-- copy then freeze (pickle / deepcopy / every freeze site after an allocation): the new array is
    isolated and holds the same content. -/
theorem copy_freeze_isolated (h : Heap) (a : Nat) (x : Arr) (hw : h.wf = true) (hx : h.arrs[a]? = some x) :
    let h2 := (h.step (.copy a)).step (.freeze h.arrs.length)
    h2.isolated h.arrs.length = true ∧ h2.bufs.getD h.bufs.length [] = h.bufs.getD x.buf [] := by
  sorry

/-- a container may be constructed from filtered inputs: constructing from `filter` results of
    writeable inputs is always legal -/
theorem construct_after_filter_legal (h : Heap) (a : Nat) (x : Arr) (hw : h.wf = true)
    (hx : h.arrs[a]? = some x) (hwr : x.writeable = true) :
    (h.step (.filter a)).legal (.construct [h.filterResult a]) = true := by
  sorry

end SF.C01
