/-
  C01 — immutability: the discipline "containers only reference isolated arrays" is an invariant of
  every legal event, and under it nothing observable through an existing container ever changes —
  in particular no write by anyone (NumPy only lets writes through writeable arrays, and no
  writeable array aliases a container's buffer).
-/
import SFModel.HeapLemmas

namespace SF.C01
open SF SF.Heap

/-- Witness heap for the non-vacuity examples: two buffers; array 0 is frozen on buffer 0 and
    referenced by container 0; array 1 is a caller-owned writeable array on buffer 1. -/
def hEx : Heap := ⟨[[1, 2], [3, 4]], [⟨0, false⟩, ⟨1, true⟩], [[0]]⟩

/-- The invariant (and structural well-formedness) is preserved by every legal event. -/
theorem inv_step (h : Heap) (e : Ev) (hw : h.wf = true) (hi : h.inv = true) (hl : h.legal e = true) :
    (h.step e).inv = true ∧ (h.step e).wf = true :=
  ⟨Heap.inv_step h e hw hi hl, Heap.wf_step h e hw⟩

/-- non-vacuity: the hypotheses hold on `hEx` for one event of every kind -/
example : hEx.wf = true ∧ hEx.inv = true ∧
    ([Ev.alloc [7], .view 1, .copy 0, .freeze 1, .filter 1, .construct [0], .write 1 0 9].all
      fun e => hEx.legal e) = true := by decide

/-- No legal event changes what is observable through an existing container. -/
theorem snapshot_stable_step (h : Heap) (e : Ev) (hw : h.wf = true) (hi : h.inv = true)
    (hl : h.legal e = true) (c : Nat) (hc : c < h.conts.length) :
    (h.step e).snapshot c = h.snapshot c :=
  Heap.snapshot_step h e hw hi hl c hc

/-- non-vacuity: a legal write that really changes a buffer, with container 0 present -/
example : hEx.wf = true ∧ hEx.inv = true ∧ hEx.legal (.write 1 0 9) = true ∧ 0 < hEx.conts.length ∧
    (hEx.step (.write 1 0 9)).bufs ≠ hEx.bufs := by decide

/-- ... and so does no history of events (illegal ones are refused): once a container exists, no
    sequence of allocations, views, copies, freezes, constructions and WRITES by anyone changes it. -/
theorem snapshot_stable (h : Heap) (es : List Ev) (hw : h.wf = true) (hi : h.inv = true)
    (c : Nat) (hc : c < h.conts.length) :
    (h.run es).snapshot c = h.snapshot c ∧ (h.run es).inv = true := by
  -- strengthen with `wf`, which the step theorems need, then induct over the history
  suffices H : (h.run es).snapshot c = h.snapshot c ∧ (h.run es).inv = true ∧ (h.run es).wf = true from
    ⟨H.1, H.2.1⟩
  induction es generalizing h with
  | nil => exact ⟨rfl, hi, hw⟩
  | cons e es ih =>
    rw [run_cons]
    by_cases hl : h.legal e = true
    · simp only [hl, if_true]
      obtain ⟨hi', hw'⟩ := inv_step h e hw hi hl
      have hc' : c < (h.step e).conts.length := Nat.lt_of_lt_of_le hc (conts_length_step h e)
      obtain ⟨h1, h2, h3⟩ := ih (h.step e) hw' hi' hc'
      exact ⟨h1.trans (snapshot_stable_step h e hw hi hl c hc), h2, h3⟩
    · simp only [hl]
      exact ih h hw hi hc

/-- non-vacuity: a history with a refused write (through the frozen array 0), effective writes
    through array 1 and a view of it, a filter and a construction; the heap does change -/
example : hEx.wf = true ∧ hEx.inv = true ∧ 0 < hEx.conts.length ∧
    (hEx.run [.write 0 0 5, .write 1 1 6, .view 1, .write 2 0 8, .filter 1, .construct [3]]) =
      ⟨[[1, 2], [8, 6], [8, 6]], [⟨0, false⟩, ⟨1, true⟩, ⟨1, true⟩, ⟨2, false⟩], [[0], [3]]⟩ := by
  decide

/-- `immutable_filter` on a writeable input hands back a fresh, frozen, un-aliased array with the
    same content: later writes by the caller through the input are never visible. -/
theorem filter_isolates (h : Heap) (a : Nat) (x : HArr) (hw : h.wf = true) (hx : h.arrs[a]? = some x)
    (hwr : x.writeable = true) :
    (h.step (.filter a)).isolated (h.filterResult a) = true ∧
    (h.step (.filter a)).bufs.getD ((h.step (.filter a)).arrs.getD (h.filterResult a) default).buf [] = h.bufs.getD x.buf [] := by
  rw [wf_iff] at hw
  refine ⟨?_, ?_⟩
  · rw [isolated_iff]
    refine ⟨⟨h.bufs.length, false⟩, ?_, rfl, ?_⟩
    · simp [step, filterResult, hx, hwr]
    · intro y hy hyb
      simp [step, hx, hwr] at hy
      rcases hy with hy | hy
      · have := hw y hy
        simp at hyb; omega
      · subst hy; rfl
  · simp [step, filterResult, hx, hwr]

/-- non-vacuity -/
example : hEx.wf = true ∧ hEx.arrs[1]? = some ⟨1, true⟩ ∧ (⟨1, true⟩ : HArr).writeable = true ∧
    hEx.filterResult 1 = 2 := by decide

/-- a read-only input is used as it is (the caller-side alias the property's statement permits) -/
theorem filter_keeps_frozen (h : Heap) (a : Nat) (x : HArr) (hx : h.arrs[a]? = some x)
    (hwr : x.writeable = false) : h.step (.filter a) = h ∧ h.filterResult a = a := by
  simp [step, filterResult, hx, hwr]

/-- non-vacuity -/
example : hEx.arrs[0]? = some ⟨0, false⟩ ∧ (⟨0, false⟩ : HArr).writeable = false := by decide

/-- copy then freeze (pickle / deepcopy / every freeze site after an allocation): the new array is
    isolated and holds the same content. -/
theorem copy_freeze_isolated (h : Heap) (a : Nat) (x : HArr) (hw : h.wf = true) (hx : h.arrs[a]? = some x) :
    let h2 := (h.step (.copy a)).step (.freeze h.arrs.length)
    h2.isolated h.arrs.length = true ∧ h2.bufs.getD h.bufs.length [] = h.bufs.getD x.buf [] := by
  rw [wf_iff] at hw
  have hstep : (h.step (.copy a)).step (.freeze h.arrs.length) =
      { h with bufs := h.bufs ++ [h.bufs.getD x.buf []],
               arrs := h.arrs ++ [⟨h.bufs.length, false⟩] } := by
    simp [step, hx]
  simp only [hstep]
  refine ⟨?_, ?_⟩
  · rw [isolated_iff]
    refine ⟨⟨h.bufs.length, false⟩, ?_, rfl, ?_⟩
    · simp
    · intro y hy hyb
      simp at hy
      rcases hy with hy | hy
      · have := hw y hy
        simp at hyb; omega
      · subst hy; rfl
  · simp

/-- non-vacuity (copying the caller's writeable array 1) -/
example : hEx.wf = true ∧ hEx.arrs[1]? = some ⟨1, true⟩ := by decide

/-- a container may be constructed from filtered inputs: constructing from `filter` results of
    writeable inputs is always legal -/
theorem construct_after_filter_legal (h : Heap) (a : Nat) (x : HArr) (hw : h.wf = true)
    (hx : h.arrs[a]? = some x) (hwr : x.writeable = true) :
    (h.step (.filter a)).legal (.construct [h.filterResult a]) = true := by
  simp [legal, (filter_isolates h a x hw hx hwr).1]

/-- non-vacuity -/
example : hEx.wf = true ∧ hEx.arrs[1]? = some ⟨1, true⟩ ∧ (⟨1, true⟩ : HArr).writeable = true := by
  decide

end SF.C01
