/-
  C17 — Bus and multi-table stores: faithful, lazy, bounded, stale-file safe.

  Property theorems about the mirrored algorithm of `Bus._update_series_cache_iloc`,
  `Bus._store_reader`, `Bus.__init__`/`_derive`, `_extract_iloc`, `items()/values`
  (SFModel/Bus.lean) and the mtime state machine of `Store` (helper lemmas: BusLemmas.lean).
  The harness compares the executable model with the real `Bus` / `Store` objects after every
  step of every generated history.

  `pinnedReader : Bool` selects the `_store_reader` variant: `false` = the code (`config[label]`),
  `true` = the reader of the pinned tree (`config[labels]`, repaired in /repo; historical).  The bookkeeping
  theorems hold for both and keep the parameter; the faithfulness theorems are stated for `false`.
-/
import SFModel.BusLemmas

namespace SF.C17
open SF SF.Bus

variable {φ : Type}

/-- bookkeeping invariant without any claim on the frames -/
abbrev Any : Nat → φ → Prop := fun _ _ => True

/-- the frames held are the ones an eager load returns -/
abbrev Faithful (store : StoreFn φ) : Nat → φ → Prop := fun l f => f = eager store l

/-! ### bus_inv -/

/-- For EVERY history on a Bus opened on a store — accesses with any key (single label, list, slice, Boolean,
    iloc), items()/values, non-loading observers, INCLUDING operations that fail (a store read raising
    StoreFileMutation or any other error, an invalid key) after which the history goes on with the object as it
    was left, interleaved with arbitrary file events (touch, rewrite, delete) and writes through the store — by
    induction over the event list: the LRU list has no duplicates; when max_persist is set the loaded labels are
    exactly the members of the LRU list, the number of loaded frames is at most max_persist and equals the
    length of the LRU list; the loaded flags agree with the cells; labels and max_persist never change; without
    max_persist there is no LRU list. -/
theorem bus_inv (store : StoreFn φ) (pinnedReader : Bool) (st0 : StoreSt) (labels : List Nat) (mp : Option Nat)
    (hn : labels.Nodup) (s0 : BusSt φ) (evs : List HistEv)
    (h0 : BusSt.fromStore labels mp = .ok s0) :
    let s := (BusSt.runAll store pinnedReader st0 s0 evs).2
    s.lru.Nodup ∧ s.loaded = s.cache.map Option.isSome ∧ s.loadedAll = s.loaded.all id ∧
    s.labels = labels ∧ s.maxPersist = mp ∧
    (mp = none → s.lru = []) ∧
    (∀ k, mp = some k →
      (∀ (i l : Nat), s.labels[i]? = some l → (s.loaded[i]? = some true ↔ l ∈ s.lru)) ∧
      s.loaded.count true ≤ k ∧ s.lru.length = s.loaded.count true) := by
  intro s
  obtain ⟨hi0, hl0, hmp0, _⟩ := fromStore_inv (P := Any) hn h0
  obtain ⟨hi, hl, hmp⟩ := runAll_inv (P := Any) (store := store) (pinnedReader := pinnedReader)
    (fun _ => trivial) evs st0 s0 hi0 (fun _ => trivial)
  have hm : s.maxPersist = mp := by rw [hmp, hmp0]
  refine ⟨hi.lruNodup, hi.flags, hi.allFlag, by rw [hl, hl0], hm, fun h => hi.lruNone (by rw [hm, h]), ?_⟩
  intro k hk
  have hS : s.maxPersist.isSome = true := by rw [hm, hk]; rfl
  exact ⟨hi.lruMem hS, hi.bound k (by rw [hm, hk]), hi.lruLen hS⟩

/-- the history that broke the bound on the pinned tree (failed read, file restored, three more accesses):
    the failed access leaves no trace, two frames are held with max_persist = 2 -/
example : (BusSt.runAll (fun _ l => l) false (StoreSt.init (some 1))
    ({ labels := [0, 1, 2, 3], cache := [none, none, none, none], loaded := [false, false, false, false],
       loadedAll := false, lru := [], maxPersist := some 2 } : BusSt Nat)
    [.file (.touch 2), .op (.access (.int 0)), .file (.touch 1), .op (.access (.int 1)), .op (.access (.int 2)),
     .op (.access (.int 3))]).2
    = { labels := [0, 1, 2, 3], cache := [none, none, some 2, some 3], loaded := [false, false, true, true],
        loadedAll := false, lru := [2, 3], maxPersist := some 2 } := by decide

example : BusSt.run (fun _ l => l) true (StoreSt.init (some 1))
    ({ labels := [0, 1, 2], cache := [none, none, none], loaded := [false, false, false], loadedAll := false,
       lru := [], maxPersist := some 2 } : BusSt Nat)
    [.access (.int 0), .access (.list [1, 2]), .values, .access (.int 0)]
    = .ok { labels := [0, 1, 2], cache := [some 0, none, some 2], loaded := [true, false, true],
            loadedAll := false, lru := [2, 0], maxPersist := some 2 } := by decide

/-- The same invariant for every Bus that can come into existence: after any successful or FAILED operation
    whatever happened to the file in between, for the Bus returned by a multi-label selection and for every derived
    Bus (`drop`, `reindex`, `sort_index`, `head`, `tail`: `_derive` of a duplicate-free selection). -/
theorem bus_inv_reach (store : StoreFn φ) (pinnedReader : Bool) (s : BusSt φ) (h : Reach store pinnedReader s) :
    Inv (Any (φ := φ)) s := by
  induction h with
  | root labels mp s hn h0 => exact (fromStore_inv hn h0).1
  | step st s s' op _ hstep ih => exact (step_inv ih (fun _ => trivial) (fun _ => trivial) hstep).1
  | failed st s s' op e _ hstep ih =>
    have h := stepState_inv (store := store) (pinnedReader := pinnedReader) (st := st) (op := op) ih
      (fun _ => trivial) (fun _ => trivial)
    unfold BusSt.stepState at h
    rw [hstep] at h
    exact h.1
  | selected st s s' d k _ hext ih =>
    exact ((extractIloc_inv ih (fun _ => trivial) (fun _ => trivial) hext).2.2.2 d rfl).1
  | derived s d ps _ hnd hps hd ih =>
    obtain ⟨d', hd', hinv, _⟩ := derive_spec ih hps hnd
    rw [hd'] at hd; cases hd; exact hinv

example : ∃ s : BusSt Nat, Reach (fun _ l => l) true s ∧ s.loaded.count true = 1 ∧ s.labels = [1] := by
  let s0 : BusSt Nat := { labels := [0, 1], cache := [none, none], loaded := [false, false], loadedAll := false,
                          lru := [], maxPersist := some 1 }
  let s1 : BusSt Nat := { s0 with cache := [none, some 1], loaded := [false, true], lru := [1] }
  let d : BusSt Nat := { labels := [1], cache := [some 1], loaded := [true], loadedAll := true, lru := [1],
                         maxPersist := some 1 }
  have h0 : Reach (fun _ l => l) true s0 := .root [0, 1] (some 1) s0 (by decide) (by decide)
  have h1 : Reach (fun _ l => l) true s1 := .step (StoreSt.init (some 7)) s0 s1 (.access (.int 1)) h0 (by decide)
  exact ⟨d, .derived s1 d [1] h1 (by decide) (by decide) (by decide), by decide, rfl⟩

/-! ### bus_lru -/

/-- Refinement to the abstract LRU: after an access with max_persist = k the recency list of the Bus is the
    abstract LRU (`absTouch k`: move the label to the end, drop the head when more than k are held) run over
    the addressed labels in key order — on the loading path and on the cache-hit path alike. -/
theorem bus_lru (store : StoreFn φ) (pinnedReader : Bool) (st : StoreSt) (s s' : BusSt φ) (key : Key)
    (r : Extracted φ) (k : Nat) (ps : List Nat)
    (hinv : Inv (Any (φ := φ)) s) (hmp : s.maxPersist = some k)
    (hpos : key.positions s.labels.length = .ok ps)
    (h : s.extractIloc store pinnedReader st key = .ok (s', r)) :
    s'.lru = (pick s.labels ps).foldl (absTouch k) s.lru ∧
    (∀ (i l : Nat), s'.labels[i]? = some l → (s'.loaded[i]? = some true ↔ l ∈ s'.lru)) := by
  rcases extractIloc_spec (st := st) (k := key) hinv (fun _ => trivial) (fun _ => trivial) with
    ⟨s1, r1, ps1, h1, h2, h3, h4, h5, h6, _, _⟩ | ⟨e, s1, h1, _⟩
  · rw [h1] at h
    simp only [Except.ok.injEq, Prod.mk.injEq] at h
    obtain ⟨rfl, rfl⟩ := h
    rw [hpos] at h5; cases h5
    exact ⟨h6 k hmp, h2.lruMem (by rw [h4, hmp]; rfl)⟩
  · rw [h1] at h; cases h

/-- What one step of the abstract LRU does on a duplicate-free recency list within capacity: a held label
    moves to the end and nothing is evicted; a new label is appended while there is room; at capacity the
    evicted label is the head of the list, i.e. the least recently used loaded one. -/
theorem bus_lru_hit (k : Nat) (rec : List Nat) (l : Nat) (hk : 1 ≤ k) (hlen : rec.length ≤ k) :
    (l ∈ rec → absTouch k rec l = rec.erase l ++ [l]) ∧
    (l ∉ rec → rec.length < k → absTouch k rec l = rec ++ [l]) ∧
    (l ∉ rec → rec.length = k → absTouch k rec l = rec.tail ++ [l]) := by
  refine ⟨?_, ?_, ?_⟩
  · intro hl
    unfold absTouch
    have : (rec.erase l ++ [l]).length = rec.length := by
      have := List.length_pos_of_mem hl
      simp [List.length_erase_of_mem hl]; omega
    simp only
    rw [if_neg (by omega)]
  · intro hl hlt
    unfold absTouch
    simp only [List.erase_of_not_mem hl]
    rw [if_neg (by simp; omega)]
  · intro hl heq
    unfold absTouch
    simp only [List.erase_of_not_mem hl]
    rw [if_pos (by simp; omega)]
    cases rec with
    | nil => simp at heq; omega
    | cons a t => simp

example : absTouch 2 [5, 7] 9 = [7, 9] ∧ absTouch 2 [5, 7] 5 = [7, 5] ∧ absTouch 2 [5] 7 = [5, 7] := by decide

/-! ### bus_faithful -/

/-- the current `_store_reader` reads every label with the label's own configuration -/
theorem reader_reads_eager (store : StoreFn φ) (mp : Option Nat) (l : Nat) :
    store (readerCfgKey false mp l) l = eager store l := rfl

/-- Labels and their order never change, and every label loaded in the post-state maps to exactly the
    store's frame for that label (what an eager load returns) — for every full history (failed operations and
    file events included) and every max_persist, for `_store_reader` as it is in the code (`config[label]`). -/
theorem bus_faithful (store : StoreFn φ) (st0 : StoreSt) (labels : List Nat) (mp : Option Nat)
    (hn : labels.Nodup) (s0 : BusSt φ) (evs : List HistEv)
    (h0 : BusSt.fromStore labels mp = .ok s0) :
    let s := (BusSt.runAll store false st0 s0 evs).2
    s.labels = labels ∧ s.maxPersist = mp ∧
    ∀ (i l : Nat) (f : φ), s.labels[i]? = some l → s.cache[i]? = some (some f) → f = store (some l) l := by
  intro s
  obtain ⟨hi0, hl0, hmp0, _⟩ := fromStore_inv (P := Faithful store) hn h0
  obtain ⟨hi, hl, hmp⟩ := runAll_inv (P := Faithful store) (store := store) (pinnedReader := false)
    (fun _ => rfl) evs st0 s0 hi0 (fun _ => rfl)
  exact ⟨by rw [hl, hl0], by rw [hmp, hmp0], hi.content⟩

example : ∃ s : BusSt (Nat × Bool), BusSt.run (fun ck l => (l, ck == some l)) false (StoreSt.init (some 1))
    { labels := [0, 1], cache := [none, none], loaded := [false, false], loadedAll := false, lru := [],
      maxPersist := some 1 } [.access .all] = .ok s ∧ s.cache = [none, some (1, true)] :=
  ⟨{ labels := [0, 1], cache := [none, some (1, true)], loaded := [false, true], loadedAll := false, lru := [1],
     maxPersist := some 1 }, by decide, rfl⟩

/-- … and the same for one extraction from any Bus whose held frames are faithful (e.g. a derived Bus):
    the frames of the post-state and of the returned Bus are the store's frames. -/
theorem bus_faithful_step (store : StoreFn φ) (st : StoreSt) (s s' : BusSt φ) (key : Key)
    (r : Extracted φ) (hinv : Inv (Faithful store) s)
    (h : s.extractIloc store false st key = .ok (s', r)) :
    Inv (Faithful store) s' ∧ s'.labels = s.labels ∧ ∀ d, r = .bus d → Inv (Faithful store) d := by
  obtain ⟨h1, h2, _, h4⟩ := extractIloc_inv hinv (fun _ => rfl) (fun _ => rfl) h
  exact ⟨h1, h2, fun d hd => (h4 d hd).1⟩

/-- HISTORICAL (pinned-tree behaviour, repaired in /repo: `config[labels]` -> `config[label]`).  The old
    reader (`pinnedReader = true`, `readerCfgKeyPinned`) was NOT faithful for max_persist = 1: a two-label
    selection on a store whose default configuration builds a different frame delivered the
    default-configuration frame.  (`(l, true)` = built with the label's config, `(l, false)` = with the default.) -/
theorem bus_faithful_pinned_reader_counterexample :
    ¬ (∀ (store : StoreFn (Nat × Bool)) (s : BusSt (Nat × Bool)),
        BusSt.run store true (StoreSt.init (some 1))
          { labels := [0, 1], cache := [none, none], loaded := [false, false], loadedAll := false, lru := [],
            maxPersist := some 1 } [.access .all] = .ok s →
        ∀ (i l : Nat) (f : Nat × Bool), s.labels[i]? = some l → s.cache[i]? = some (some f) → f = store (some l) l) := by
  intro h
  have hrun : BusSt.run (fun ck l => (l, ck == some l)) true (StoreSt.init (some 1))
      ({ labels := [0, 1], cache := [none, none], loaded := [false, false], loadedAll := false, lru := [],
         maxPersist := some 1 } : BusSt (Nat × Bool)) [.access .all]
      = .ok { labels := [0, 1], cache := [none, some (1, false)], loaded := [false, true], loadedAll := false,
              lru := [1], maxPersist := some 1 } := by decide
  have := h (fun ck l => (l, ck == some l)) _ hrun 1 1 (1, false) (by decide) (by decide)
  exact absurd this (by decide)

/-! ### element access, internal errors, derived Bus -/

/-- Element access returns a Frame — never the FrameDeferred placeholder — and it is an acceptable one,
    for max_persist None or ≥ 1. -/
theorem bus_element_is_frame (store : StoreFn φ) (st : StoreSt) (s s' : BusSt φ) (key : Key)
    (v : Option φ) (hinv : Inv (Faithful store) s)
    (hk : ∀ k, s.maxPersist = some k → 1 ≤ k)
    (h : s.extractIloc store false st key = .ok (s', .element v)) :
    ∃ p l, key.positions s.labels.length = .ok [p] ∧ s.labels[p]? = some l ∧ v = some (store (some l) l) := by
  obtain ⟨p, l, f, h1, h2, h3, h4⟩ :=
    extractIloc_element_some hinv (fun _ => rfl) (fun _ => rfl) hk h
  exact ⟨p, l, h1, h2, by rw [h3, h4]; rfl⟩

example : ∃ s' : BusSt Nat, BusSt.extractIloc (fun _ l => l) true (StoreSt.init (some 1))
    { labels := [0, 1], cache := [none, none], loaded := [false, false], loadedAll := false, lru := [],
      maxPersist := some 1 } (.int (-1)) = .ok (s', .element (some 1)) :=
  ⟨{ labels := [0, 1], cache := [none, some 1], loaded := [false, true], loadedAll := false, lru := [1],
     maxPersist := some 1 }, by decide⟩

/-- `items()` / `values` consumed completely deliver, for every label in index order, the store's Frame
    (never a placeholder), with or without max_persist (≥ 1). -/
theorem bus_values_frames (store : StoreFn φ) (st : StoreSt) (s s' : BusSt φ)
    (vs : List (Option φ)) (hinv : Inv (Faithful store) s)
    (hk : ∀ k, s.maxPersist = some k → 1 ≤ k) (h : s.values store false st = .ok (s', vs)) :
    vs.length = s.labels.length ∧
    ∀ (i l : Nat), s.labels[i]? = some l → vs[i]? = some (some (store (some l) l)) := by
  have hR2 : ∀ l, Faithful store l (store (readerCfgKey false s.maxPersist l) l) := fun _ => rfl
  have hcells : ∀ (t : BusSt φ), Inv (Faithful store) t → t.labels = s.labels →
      (∀ p, p < s.labels.length → t.loaded[p]? = some true) →
      t.cache.length = s.labels.length ∧
      ∀ (i l : Nat), s.labels[i]? = some l → t.cache[i]? = some (some (store (some l) l)) := by
    intro t ht hlab hall
    refine ⟨by rw [ht.lenCache, hlab], ?_⟩
    intro i l hi
    have hlt : i < s.labels.length := (List.getElem?_eq_some_iff.mp hi).1
    have hl := hall i hlt
    rw [ht.flags, List.getElem?_map] at hl
    cases hc : t.cache[i]? with
    | none => rw [hc] at hl; cases hl
    | some v =>
      rw [hc] at hl
      cases v with
      | none => simp at hl
      | some f => rw [ht.content i l f (by rw [hlab]; exact hi) hc]; rfl
  unfold BusSt.values at h
  split at h
  · rename_i hmp
    split at h
    · split at h
      · cases h
      · rename_i s1 hupd
        simp only [Except.ok.injEq, Prod.mk.injEq] at h
        obtain ⟨rfl, rfl⟩ := h
        rcases updateCache_spec (st := st) (ps := List.range s.labels.length) (isElement := false) hinv
            (fun _ => rfl) hR2 (by intro p hp; exact List.mem_range.mp hp) (by intro h; cases h) with
          ⟨s2, h1, h2, h3, _, _, h6⟩ | ⟨e, s2, h1, _⟩
        · rw [h1] at hupd; cases hupd
          exact hcells s1 h2 h3 (fun p hp => (h6 hmp).2 p (List.mem_range.mpr hp))
        · rw [h1] at hupd; cases hupd
    · rename_i hall
      simp only [Except.ok.injEq, Prod.mk.injEq] at h
      obtain ⟨rfl, rfl⟩ := h
      have hall' : s.loadedAll = true := by simpa using hall
      exact hcells s hinv rfl (fun p hp => all_loaded_of_flag hinv hall' hp)
  · obtain ⟨ws, hws1, hws2, hws3⟩ := iterElements_values (P := Faithful store) (fun _ => rfl)
      (List.range s.labels.length) s [] s' vs hinv hR2 hk (by intro i hi; exact List.mem_range.mp hi) h
    simp only [List.nil_append] at hws1
    subst hws1
    refine ⟨by rw [hws2]; simp, ?_⟩
    intro i l hi
    have hlt : i < s.labels.length := (List.getElem?_eq_some_iff.mp hi).1
    obtain ⟨l', f, hl', hw, hf⟩ := hws3 i i (by simp [hlt])
    rw [hi] at hl'; cases hl'
    rw [hw, hf]; rfl

/-- With an unchanged file the bookkeeping never fails: an extraction raises only for an invalid key
    (position out of range, zero slice step, repeated position), never KeyError / StopIteration / ErrorInitBus
    from the cache update or the derivation; the Bus is left untouched by a refused key. -/
theorem bus_no_internal_error (store : StoreFn φ) (pinnedReader : Bool) (st : StoreSt) (t : Nat) (s s' : BusSt φ)
    (key : Key) (e : Err) (hinv : Inv (Any (φ := φ)) s) (hfile : st.file = some t) (hseen : st.seen = some t)
    (h : s.extractIloc store pinnedReader st key = .error (e, s')) :
    s' = s ∧ (key.positions s.labels.length = .error e ∨ e = .nonUnique) := by
  rcases extractIloc_spec (st := st) (k := key) hinv (fun _ => trivial) (fun _ => trivial) with
    ⟨s1, r1, ps1, h1, _⟩ | ⟨e1, s1, h1, _, _, _, _, _, h2⟩
  · rw [h1] at h; cases h
  · rw [h1] at h
    simp only [Except.error.injEq, Prod.mk.injEq] at h
    obtain ⟨rfl, rfl⟩ := h
    rcases h2 with ⟨f, hf⟩ | h2
    · rw [StoreSt.read_ok st f hfile hseen] at hf; cases hf
    · exact h2

example : BusSt.extractIloc (fun _ l => l) true (StoreSt.init (some 1))
    ({ labels := [0, 1], cache := [none, none], loaded := [false, false], loadedAll := false, lru := [],
       maxPersist := some 1 } : BusSt Nat) (.list [0, 0])
    = .error (.nonUnique, { labels := [0, 1], cache := [none, none], loaded := [false, false], loadedAll := false,
                            lru := [], maxPersist := some 1 }) := by decide

/-- A derived Bus (any duplicate-free selection of positions: drop, reindex, sort_index, head, tail, the
    result of a multi-label access) can always be built from a Bus satisfying the invariant (`__init__`
    never refuses it), satisfies the invariant itself, keeps max_persist, has exactly the selected labels in
    the selected order, and holds only faithful frames. -/
theorem bus_derive (store : StoreFn φ) (s : BusSt φ) (ps : List Nat) (hinv : Inv (Faithful store) s)
    (hps : ∀ p ∈ ps, p < s.labels.length) (hnd : ps.Nodup) :
    ∃ d, s.derive ps = .ok d ∧ Inv (Faithful store) d ∧ d.labels = pick s.labels ps ∧
      d.maxPersist = s.maxPersist := derive_spec hinv hps hnd

/-- labels, their order and max_persist never change along a history -/
theorem bus_labels_fixed (store : StoreFn φ) (pinnedReader : Bool) (st : StoreSt) (s s' : BusSt φ) (ops : List BusOp)
    (hinv : Inv (Any (φ := φ)) s) (h : BusSt.run store pinnedReader st s ops = .ok s') :
    s'.labels = s.labels ∧ s'.maxPersist = s.maxPersist :=
  (run_inv (P := Any) (fun _ => trivial) ops s s' hinv (fun _ => trivial) h).2

/-! ### counterexamples found by mirroring the code (replayed on the real code, see findings/C17.json) -/

/-- HISTORICAL (pinned-tree behaviour, repaired in /repo f8d3a4f).  With the LRU touch BEFORE the store read
    (`loopBodyPinned` / `updateCachePinned`) the bound did NOT survive a failed read: after a
    StoreFileMutation the label stayed in `_last_accessed` without being loaded (`s1`, which violates the
    invariant); once the file was coherent again that phantom was evicted instead of a real frame and three
    frames were held with max_persist = 2.  The current `updateCache` leaves the Bus untouched in the same
    situation (last conjunct; in general: `bus_inv`). -/
theorem bus_bound_after_failed_read_pinned_counterexample :
    let s0 : BusSt Nat := { labels := [0, 1, 2, 3], cache := [none, none, none, none],
                            loaded := [false, false, false, false], loadedAll := false, lru := [], maxPersist := some 2 }
    let s1 : BusSt Nat := { s0 with lru := [0] }
    let s2 : BusSt Nat := { labels := [0, 1, 2, 3], cache := [none, some 1, some 2, some 3],
                            loaded := [false, true, true, true], loadedAll := false, lru := [1, 2, 3], maxPersist := some 2 }
    let stale := (StoreSt.init (some 1)).event (.touch 2)
    let restored := stale.event (.touch 1)
    s0.updateCachePinned (fun _ l => l) false stale [0] true = .error (.storeMutation, s1) ∧
    BusSt.run (fun _ l => l) false restored s1 [.access (.int 1), .access (.int 2), .access (.int 3)] = .ok s2 ∧
    s2.loaded.count true = 3 ∧ s2.maxPersist = some 2 ∧
    s0.updateCache (fun _ l => l) false stale [0] true = .error (.storeMutation, s0) := by
  exact ⟨by decide, by decide, by decide, by decide, by decide⟩

/-- `sort_values` loads every frame and then derives a fully loaded Bus with the same max_persist:
    `__init__` refuses it whenever max_persist < len(bus). -/
theorem bus_sort_values_counterexample :
    BusSt.sortValues (fun _ l => l) true (StoreSt.init (some 1))
      ({ labels := [1, 0], cache := [none, none], loaded := [false, false], loadedAll := false, lru := [],
         maxPersist := some 1 } : BusSt Nat) true
    = .error (.init, { labels := [1, 0], cache := [none, some 0], loaded := [false, true], loadedAll := false,
                       lru := [0], maxPersist := some 1 }) := by
  decide

/-! ### `_store_reader` batching -/

/-- the batches handed to the store are, concatenated, exactly the requested labels in order -/
theorem store_reader_batches_flatten (mp : Option Nat) (labels : List Nat) :
    (storeReaderBatches mp labels).flatten = labels := storeReaderBatches_flatten mp labels

/-- with max_persist = k > 1 no batch is empty or larger than k; with k ≤ 1 every batch is one label -/
theorem store_reader_batch_size (k : Nat) (labels : List Nat) :
    ∀ b ∈ storeReaderBatches (some k) labels, 0 < b.length ∧ b.length ≤ max k 1 := by
  intro b hb
  unfold storeReaderBatches at hb
  simp only at hb
  split at hb
  · rename_i hk
    have := batchLoop_sizes k hk labels [] (by simp; omega) b hb
    omega
  · simp only [List.mem_map] at hb
    obtain ⟨l, _, rfl⟩ := hb
    simp; omega

example : storeReaderBatches (some 2) [1, 2, 3, 4, 5] = [[1, 2], [3, 4], [5]] := by decide

/-! ### store_stale -/

/-- After ANY sequence of file events (touch, rewrite, delete) since the mtime was recorded: if the file's
    mtime differs from the recorded one, or the file disappeared, every decorated read (`read`,
    `read_many`, `labels`) raises StoreFileMutation and returns no data. -/
theorem store_stale {β : Type} (s : StoreSt) (evs : List FileEvent) (data : β)
    (h : (s.events evs).file ≠ s.seen) :
    (s.events evs).read data = .error .storeMutation := by
  have hseen := StoreSt.events_seen s evs
  have : (s.events evs).mtimeCoherent = .error .storeMutation :=
    (StoreSt.incoherent_iff _).mpr (by rw [hseen]; exact h)
  unfold StoreSt.read StoreSt.coherentNonWrite
  rw [this]

example : ((StoreSt.init (some 1)).events [.touch 2, .delete, .rewrite 3]).read () = .error .storeMutation := by
  decide

/-- a decorated read raises StoreFileMutation exactly when file state and recorded mtime differ; otherwise
    it returns the data (or fails to open a file that never existed) -/
theorem store_stale_iff {β : Type} (s : StoreSt) (data : β) :
    (s.read data = .error .storeMutation ↔ s.file ≠ s.seen) ∧
    (∀ t, s.file = some t → s.seen = some t → s.read data = .ok data) := by
  refine ⟨?_, fun t hf hs => StoreSt.read_ok s data hf hs⟩
  constructor
  · intro h
    intro heq
    have hc := (StoreSt.coherent_iff s).mpr heq
    unfold StoreSt.read StoreSt.coherentNonWrite at h
    rw [hc] at h
    unfold StoreSt.rawRead at h
    cases hf : s.file <;> rw [hf] at h <;> cases h
  · intro h
    have := (StoreSt.incoherent_iff s).mpr h
    unfold StoreSt.read StoreSt.coherentNonWrite
    rw [this]

/-- The Bus on a stale store: after ANY history of file events that left the file's mtime different from the
    recorded one (or removed the file), an access that needs at least one frame from the store raises
    StoreFileMutation and returns no data; loaded flags, cells and labels of the Bus are untouched (frames
    already loaded keep being served: `bus_no_internal_error`'s cache-hit path needs no read). -/
theorem bus_stale_raises (store : StoreFn φ) (pinnedReader : Bool) (st0 : StoreSt) (evs : List FileEvent) (s : BusSt φ)
    (key : Key) (ps : List Nat) (hinv : Inv (Any (φ := φ)) s)
    (hst : (st0.events evs).file ≠ st0.seen)
    (hpos : key.positions s.labels.length = .ok ps) (hnd : key.isMulti = true → ps.Nodup)
    (hneed : ∃ p ∈ ps, s.loaded[p]? = some false) :
    ∃ s', s.extractIloc store pinnedReader (st0.events evs) key = .error (.storeMutation, s') ∧
      s'.loaded = s.loaded ∧ s'.cache = s.cache ∧ s'.labels = s.labels := by
  have hst' : (st0.events evs).file ≠ (st0.events evs).seen := by rw [StoreSt.events_seen]; exact hst
  have hps := SF.C04.key_positions_in_range hpos
  have hel : (!key.isMulti) = true → ps.length ≤ 1 := by
    intro h
    cases key with
    | int i => obtain ⟨p, hp, _⟩ := SF.C04.int_position hpos; rw [hp]; simp
    | _ => simp [Key.isMulti] at h
  obtain ⟨s', hupd, _, h1, h2, h3, _⟩ :=
    updateCache_fail (store := store) (pinnedReader := pinnedReader) (isElement := !key.isMulti) hinv
      (fun f => StoreSt.read_stale (st0.events evs) f hst') hps hel hneed
  refine ⟨s', ?_, h1, h2, h3⟩
  unfold BusSt.extractIloc
  rw [hpos]
  simp only
  have hdup : ¬ ((key.isMulti && !decide ps.Nodup) = true) := by
    cases hm : key.isMulti with
    | false => simp
    | true => simp [hnd hm]
  rw [if_neg hdup, hupd]

example : BusSt.extractIloc (fun _ l => l) false ((StoreSt.init (some 1)).events [.delete])
    ({ labels := [0, 1, 2], cache := [some 0, none, some 2], loaded := [true, false, true], loadedAll := false,
       lru := [0, 2], maxPersist := some 2 } : BusSt Nat) (.list [0, 1, 2])
    = .error (.storeMutation, { labels := [0, 1, 2], cache := [some 0, none, some 2], loaded := [true, false, true],
                                loadedAll := false, lru := [2, 0], maxPersist := some 2 }) := by decide

/-- after `write` (decorator `store_coherent_write`) the recorded mtime is the file's, whatever it was
    before, and the next read returns data -/
theorem store_write_current {β : Type} (s : StoreSt) (now : Nat) (data : β) :
    (s.write now).seen = (s.write now).file ∧ (s.write now).file = some now ∧
    (s.write now).read data = .ok data := by
  have h1 : (s.write now).file = some now := by simp [StoreSt.write, StoreSt.coherentWrite, StoreSt.mtimeUpdate]
  have h2 : (s.write now).seen = some now := by simp [StoreSt.write, StoreSt.coherentWrite, StoreSt.mtimeUpdate]
  exact ⟨by rw [h1, h2], h1, StoreSt.read_ok _ data h1 h2⟩

/-- a Store object records the mtime when it is created: reads work until the file changes -/
theorem store_open_current {β : Type} (file : Option Nat) (data : β) :
    (StoreSt.init file).seen = file ∧ (StoreSt.init file).file = file ∧
    (∀ t, file = some t → (StoreSt.init file).read data = .ok data) := by
  cases file with
  | none => exact ⟨rfl, rfl, fun t h => by cases h⟩
  | some t =>
    refine ⟨rfl, rfl, ?_⟩
    intro t' h; cases h
    exact StoreSt.read_ok _ data rfl rfl

end SF.C17
