/-
  C06 — index set algebra and label alignment of binary operators.

  Property theorems only; helper lemmas live in SetOpsLemmas*.lean / SetOpsFrameLemmas.lean.
  All statements are about the mirrored algorithms of SFModel/SetOps.lean (`ufuncSet1d` with its
  shortcut tree, `Idx.ufuncSet`, `fromCorrespondence` + `reindexValues`, `Series.binop`,
  `resizeCols` / `Frame.reindex` / `Frame.binop`), for lists of any length and any label type.
  `o.Lawful` says that iterating a frozenset yields each member once (the only assumption on the
  ordering parameter).
-/
import SFModel.SetOpsFrameLemmas

namespace SF.C06
open SF SF.SetOps

variable {α β : Type} [DecidableEq α]

/-- Union / intersection / difference hold exactly the labels set algebra prescribes, each once —
    through every branch of `_ufunc_set_1d` (empty operands, identity shortcut, frozenset fallback,
    NumPy path), for any dtype kinds and with or without `assume_unique`. -/
theorem set_membership {o : PyOrd α} (ho : o.Lawful) (ka kb : Kind) {a b : List α} {au : Bool}
    (ha : a.Nodup) (hb : au = true → b.Nodup) :
    (∀ x, x ∈ ufuncSet1d o .union ka kb a b au ↔ x ∈ a ∨ x ∈ b) ∧
    (∀ x, x ∈ ufuncSet1d o .inter ka kb a b au ↔ x ∈ a ∧ x ∈ b) ∧
    (∀ x, x ∈ ufuncSet1d o .diff ka kb a b au ↔ x ∈ a ∧ x ∉ b) ∧
    (∀ op, (ufuncSet1d o op ka kb a b au).Nodup) := by
  refine ⟨?_, ?_, ?_, ?_⟩
  · rw [ufuncSet1d_eq_core]; exact (setCore_spec ho .union _ ha hb).1
  · rw [ufuncSet1d_eq_core]; exact (setCore_spec ho .inter _ ha hb).1
  · rw [ufuncSet1d_eq_core]; exact (setCore_spec ho .diff _ ha hb).1
  · intro op; rw [ufuncSet1d_eq_core]; exact (setCore_spec ho op _ ha hb).2

/-- The same for hierarchical labels (`_ufunc_set_2d` on rows). -/
theorem set_membership_2d {o : PyOrd (List α)} (ho : o.Lawful) (ka kb : Kind) {a b : List (List α)}
    {au : Bool} (ha : a.Nodup) (hb : au = true → b.Nodup) :
    (∀ x, x ∈ ufuncSet2d o .union ka kb a b au ↔ x ∈ a ∨ x ∈ b) ∧
    (∀ x, x ∈ ufuncSet2d o .inter ka kb a b au ↔ x ∈ a ∧ x ∈ b) ∧
    (∀ x, x ∈ ufuncSet2d o .diff ka kb a b au ↔ x ∈ a ∧ x ∉ b) ∧
    (∀ op, (ufuncSet2d o op ka kb a b au).Nodup) := by
  refine ⟨?_, ?_, ?_, ?_⟩
  · rw [ufuncSet2d_eq_core]; exact (setCore_spec ho .union _ ha hb).1
  · rw [ufuncSet2d_eq_core]; exact (setCore_spec ho .inter _ ha hb).1
  · rw [ufuncSet2d_eq_core]; exact (setCore_spec ho .diff _ ha hb).1
  · intro op; rw [ufuncSet2d_eq_core]; exact (setCore_spec ho op _ ha hb).2

/-- `Index.union / intersection / difference` with another Index (including the `equals`
    shortcut of `Index._ufunc_set`). -/
theorem index_set_membership {o : PyOrd α} (ho : o.Lawful) (a b : Idx α) (ha : a.labels.Nodup)
    (hb : b.labels.Nodup) :
    (∀ x, x ∈ a.ufuncSet o .union (.index b) ↔ x ∈ a.labels ∨ x ∈ b.labels) ∧
    (∀ x, x ∈ a.ufuncSet o .inter (.index b) ↔ x ∈ a.labels ∧ x ∈ b.labels) ∧
    (∀ x, x ∈ a.ufuncSet o .diff (.index b) ↔ x ∈ a.labels ∧ x ∉ b.labels) ∧
    (∀ op, (a.ufuncSet o op (.index b)).Nodup) :=
  ⟨(Idx.ufuncSet_index_spec ho .union a b ha hb).1, (Idx.ufuncSet_index_spec ho .inter a b ha hb).1,
   (Idx.ufuncSet_index_spec ho .diff a b ha hb).1, fun op => (Idx.ufuncSet_index_spec ho op a b ha hb).2⟩

/-- Set operations with an array / iterable operand (not assumed unique): same membership, result unique. -/
theorem index_set_membership_array {o : PyOrd α} (ho : o.Lawful) (a : Idx α) (ls : List α) (k : Kind)
    (ha : a.labels.Nodup) (op : SetOp) :
    (∀ x, x ∈ a.ufuncSet o op (.array ls k) ↔ op.holds x a.labels ls) ∧
      (a.ufuncSet o op (.array ls k)).Nodup := by
  unfold Idx.ufuncSet
  simp only []
  rw [ufuncSet1d_eq_core]
  exact setCore_spec ho op _ ha (fun h => by cases h)

/-- The general (NumPy) path returns its labels sorted by the order parameter, whenever that is a
    total preorder: union and intersection always, difference when uniqueness is not assumed. -/
theorem general_path_sorted (o : PyOrd α) (htot : ∀ a b, o.le a b = true ∨ o.le b a = true)
    (htrans : ∀ a b c, o.le a b = true → o.le b c = true → o.le a c = true) (a b : List α) :
    (npUnion o a b).Pairwise (fun x y => o.le x y = true) ∧
    (npIntersect o a b).Pairwise (fun x y => o.le x y = true) ∧
    (npSetdiff o a b false).Pairwise (fun x y => o.le x y = true) := by
  refine ⟨sortBy_sorted _ htot htrans _, sortBy_sorted _ htot htrans _, ?_⟩
  unfold npSetdiff
  simp only [Bool.false_eq_true, if_false]
  exact List.Pairwise.filter _ (sortBy_sorted _ htot htrans _)

/-- Identical operands keep their order (no sorting): `union a a = a`, `inter a a = a`,
    `diff a a = []`, whatever the dtype kinds. -/
theorem identical_keeps_order (o : PyOrd α) (ka kb : Kind) (a : List α) :
    ufuncSet1d o .union ka kb a a true = a ∧ ufuncSet1d o .inter ka kb a a true = a ∧
      ufuncSet1d o .diff ka kb a a true = [] := by
  refine ⟨?_, ?_, ?_⟩ <;> rw [ufuncSet1d_self] <;> simp

/-- …and at the Index level: an Index with the same labels in the same order. -/
theorem index_identical_keeps_order (o : PyOrd α) (a b : Idx α) (h : a.labels = b.labels) :
    a.ufuncSet o .union (.index b) = a.labels ∧ a.ufuncSet o .inter (.index b) = a.labels ∧
      a.ufuncSet o .diff (.index b) = [] := by
  refine ⟨?_, ?_, ?_⟩ <;> rw [Idx.ufuncSet_same_labels o _ a b h] <;> simp

/-- `Series.reindex` through every branch of `IndexCorrespondence.from_correspondence`
    (equal labels; new index a reordering / subset; partial overlap; nothing in common):
    no error, and each new label holds the old value if the label existed, else the fill value. -/
theorem reindex_exact {o : PyOrd α} (ho : o.Lawful) (s : Series α β) (hs : s.WF) (idx : Idx α)
    (hi : idx.labels.Nodup) (fill : β) (checkEquals : Bool) :
    ∃ r, s.reindex o idx fill checkEquals = .ok r ∧ r.index = idx ∧ r.WF ∧
      ∀ l, r.get? l = if l ∈ idx.labels then some ((s.get? l).getD fill) else none :=
  Series.reindex_spec ho s hs idx hi fill checkEquals

/-- `Series op Series`: the result carries the union of the labels; the value at a label is
    `op a[l] b[l]`, an operand without the label contributing the missing marker `na`. -/
theorem binop_aligns_by_label {o : PyOrd α} (ho : o.Lawful) (op : β → β → β) (na : β)
    (a b : Series α β) (ha : a.WF) (hb : b.WF) :
    ∃ r, a.binop o op na (.series b) = .ok r ∧ r.WF ∧
      r.index.labels = a.index.ufuncSet o .union (.index b.index) ∧
      (∀ x, x ∈ r.index.labels ↔ x ∈ a.index.labels ∨ x ∈ b.index.labels) ∧
      ∀ l ∈ r.index.labels, r.get? l = some (op ((a.get? l).getD na) ((b.get? l).getD na)) :=
  Series.binop_series_spec ho op na a b ha hb

/-- With an operator that propagates the missing marker (arithmetic on NaN), a label present in
    only one operand holds the missing marker, a label in both holds `op a[l] b[l]`. -/
theorem binop_missing_marker {o : PyOrd α} (ho : o.Lawful) (op : β → β → β) (na : β)
    (hna : ∀ x, op na x = na ∧ op x na = na) (a b : Series α β) (ha : a.WF) (hb : b.WF) :
    ∃ r, a.binop o op na (.series b) = .ok r ∧
      (∀ l x y, a.get? l = some x → b.get? l = some y → r.get? l = some (op x y)) ∧
      (∀ l ∈ r.index.labels, l ∉ a.index.labels ∨ l ∉ b.index.labels → r.get? l = some na) := by
  obtain ⟨r, hr, _, _, hm, hv⟩ := Series.binop_series_spec ho op na a b ha hb
  refine ⟨r, hr, ?_, ?_⟩
  · intro l x y hx hy
    have hl : l ∈ a.index.labels := by
      by_cases h : l ∈ a.index.labels
      · exact h
      · rw [Series.get?_none h] at hx; cases hx
    rw [hv l ((hm l).mpr (Or.inl hl)), hx, hy]; rfl
  · intro l hl hnot
    rw [hv l hl]
    rcases hnot with h | h
    · rw [Series.get?_none h]; simp [(hna _).1]
    · rw [Series.get?_none h]; simp [(hna _).2]

/-- Reordering the labels of either operand (any operands describing the same label → value
    maps, hence any permutations) leaves the label → value map of the result unchanged. -/
theorem binop_perm_invariant {o : PyOrd α} (ho : o.Lawful) (op : β → β → β) (na : β)
    (a b a' b' : Series α β) (ha : a.WF) (hb : b.WF) (ha' : a'.WF) (hb' : b'.WF)
    (hpa : ∀ l, a'.get? l = a.get? l) (hpb : ∀ l, b'.get? l = b.get? l) :
    ∃ r r', a.binop o op na (.series b) = .ok r ∧ a'.binop o op na (.series b') = .ok r' ∧
      ∀ l, r'.get? l = r.get? l := by
  obtain ⟨r, hr, _, _, hm, hv⟩ := Series.binop_series_spec ho op na a b ha hb
  obtain ⟨r', hr', _, _, hm', hv'⟩ := Series.binop_series_spec ho op na a' b' ha' hb'
  refine ⟨r, r', hr, hr', ?_⟩
  have hmem : ∀ (s s' : Series α β), s.WF → s'.WF → (∀ l, s'.get? l = s.get? l) →
      ∀ l, l ∈ s'.index.labels ↔ l ∈ s.index.labels := by
    intro s s' hs hs' hp l
    constructor
    · intro h
      obtain ⟨v, hv⟩ := Series.get?_isSome hs' h
      by_cases hl : l ∈ s.index.labels
      · exact hl
      · rw [hp l, Series.get?_none hl] at hv; cases hv
    · intro h
      obtain ⟨v, hv⟩ := Series.get?_isSome hs h
      by_cases hl : l ∈ s'.index.labels
      · exact hl
      · rw [← hp l, Series.get?_none hl] at hv; cases hv
  intro l
  have hiff : l ∈ r'.index.labels ↔ l ∈ r.index.labels := by
    rw [hm, hm', hmem a a' ha ha' hpa l, hmem b b' hb hb' hpb l]
  by_cases hl : l ∈ r.index.labels
  · rw [hv l hl, hv' l (hiff.mpr hl), hpa, hpb]
  · rw [Series.get?_none hl, Series.get?_none (fun h => hl (hiff.mp h))]

/-- Operands with equal indices keep their order: no union, no reindex — the result has the left
    operand's labels in their order and pairs the values position by position. -/
theorem equal_index_keeps_order (o : PyOrd α) (op : β → β → β) (na : β) (a b : Series α β)
    (h : a.index.labels = b.index.labels) (hl : a.values.length = b.values.length) :
    a.binop o op na (.series b) = .ok ⟨a.index, List.zipWith op a.values b.values⟩ := by
  have : a.index.equals b.index false = true := Idx.equals_iff.mpr ⟨h, fun hh => by cases hh⟩
  simp [Series.binop, this, zipOp_ok hl, Except.map]

/-- `Frame.reindex` on either or both axes never fails on well-formed input and is exact in
    every branch of `resize_blocks` (as repaired upstream in b67a33d and cac71aa): kept labels keep
    their cells, every other cell is the fill value. -/
theorem frame_reindex_exact {o : PyOrd α} (ho : o.Lawful) (f : Frame α β) (hf : f.WF)
    (index columns : Option (Idx α)) (hidx : ∀ ni, index = some ni → ni.labels.Nodup)
    (hcol : ∀ nc, columns = some nc → nc.labels.Nodup)
    (fill : β) :
    ∃ r, f.reindex o index columns fill = .ok r ∧ r.WF ∧ r.index = index.getD f.index ∧
      r.columns = columns.getD f.columns ∧
      ∀ x ∈ r.index.labels, ∀ c ∈ r.columns.labels, r.get? x c = some ((f.get? x c).getD fill) :=
  Frame.reindex_spec ho f hf index columns hidx hcol fill

/-- ordering parameter of the concrete examples: integers, everything sortable, sets iterate in list order -/
def intOrd : PyOrd Int := ⟨fun a b => decide (a ≤ b), fun _ => true, id⟩

/-- The two sub-cases repaired upstream: a disjoint new index with partly new columns (b67a33d), and
    a partly new index with disjoint new columns (cac71aa), both fill. -/
example : (⟨⟨[0, 1], .int⟩, ⟨[0, 1], .int⟩, [[1, 3], [2, 4]]⟩ : Frame Int Int).reindex intOrd
    (some ⟨[2, 3], .int⟩) (some ⟨[0, 5], .int⟩) (-1)
    = .ok ⟨⟨[2, 3], .int⟩, ⟨[0, 5], .int⟩, [[-1, -1], [-1, -1]]⟩ := by decide
example : (⟨⟨[0, 1], .int⟩, ⟨[0, 1], .int⟩, [[1, 3], [2, 4]]⟩ : Frame Int Int).reindex intOrd
    (some ⟨[0, 2], .int⟩) (some ⟨[5, 6], .int⟩) (-1)
    = .ok ⟨⟨[0, 2], .int⟩, ⟨[5, 6], .int⟩, [[-1, -1], [-1, -1]]⟩ := by decide

/-- `Frame op Frame` (some operand has a column): both axes carry the union of the labels and every cell holds `op` of the two aligned cells, the missing marker standing in for a
    cell an operand does not have. -/
theorem frame_binop_aligns_by_label {o : PyOrd α} (ho : o.Lawful) (op : β → β → β) (na : β)
    (a b : Frame α β) (ha : a.WF) (hb : b.WF)
    (hcols : a.columns.labels ≠ [] ∨ b.columns.labels ≠ []) :
    ∃ r, a.binop o op na (.frame b) = .ok r ∧ r.WF ∧ r.index = a.index.union o b.index ∧
      r.columns = a.columns.union o b.columns ∧
      (∀ x, x ∈ r.index.labels ↔ x ∈ a.index.labels ∨ x ∈ b.index.labels) ∧
      (∀ c, c ∈ r.columns.labels ↔ c ∈ a.columns.labels ∨ c ∈ b.columns.labels) ∧
      ∀ x ∈ r.index.labels, ∀ c ∈ r.columns.labels,
        r.get? x c = some (op ((a.get? x c).getD na) ((b.get? x c).getD na)) := by
  obtain ⟨r, hr, hwf, hi, hc, hv⟩ := Frame.binop_frame_spec ho op na a b ha hb hcols
  refine ⟨r, hr, hwf, hi, hc, ?_, ?_, hv⟩
  · rw [hi]; exact (Idx.union_labels_spec ho a.index b.index ha.1 hb.1).1
  · rw [hc]; exact (Idx.union_labels_spec ho a.columns b.columns ha.2.1 hb.2.1).1

/-- Reordering rows / columns of either Frame operand leaves the (row, column) → value map unchanged. -/
theorem frame_binop_perm_invariant {o : PyOrd α} (ho : o.Lawful) (op : β → β → β) (na : β)
    (a b a' b' : Frame α β) (ha : a.WF) (hb : b.WF) (ha' : a'.WF) (hb' : b'.WF)
    (hcols : a.columns.labels ≠ [] ∨ b.columns.labels ≠ [])
    (hia : a'.index.labels.Perm a.index.labels) (hca : a'.columns.labels.Perm a.columns.labels)
    (hib : b'.index.labels.Perm b.index.labels) (hcb : b'.columns.labels.Perm b.columns.labels)
    (hpa : ∀ x c, a'.get? x c = a.get? x c) (hpb : ∀ x c, b'.get? x c = b.get? x c) :
    ∃ r r', a.binop o op na (.frame b) = .ok r ∧ a'.binop o op na (.frame b') = .ok r' ∧
      ∀ x c, r'.get? x c = r.get? x c := by
  have hnil : ∀ {l l' : List α}, l'.Perm l → (l' = [] ↔ l = []) := by
    intro l l' h
    constructor
    · intro he; rw [he] at h; exact h.symm.eq_nil
    · intro he; rw [he] at h; exact h.eq_nil
  have hcols' : a'.columns.labels ≠ [] ∨ b'.columns.labels ≠ [] := by
    rcases hcols with h | h
    · exact Or.inl (fun he => h ((hnil hca).mp he))
    · exact Or.inr (fun he => h ((hnil hcb).mp he))
  obtain ⟨r, hr, _, _, _, hmi, hmc, hv⟩ := frame_binop_aligns_by_label ho op na a b ha hb hcols
  obtain ⟨r', hr', _, _, _, hmi', hmc', hv'⟩ := frame_binop_aligns_by_label ho op na a' b' ha' hb' hcols'
  refine ⟨r, r', hr, hr', ?_⟩
  intro x c
  have hix : x ∈ r'.index.labels ↔ x ∈ r.index.labels := by
    rw [hmi, hmi', hia.mem_iff, hib.mem_iff]
  have hcx : c ∈ r'.columns.labels ↔ c ∈ r.columns.labels := by
    rw [hmc, hmc', hca.mem_iff, hcb.mem_iff]
  by_cases hx : x ∈ r.index.labels
  · by_cases hc : c ∈ r.columns.labels
    · rw [hv x hx c hc, hv' x (hix.mpr hx) c (hcx.mpr hc), hpa, hpb]
    · rw [Frame.get?_none_col hc, Frame.get?_none_col (fun h => hc (hcx.mp h))]
  · rw [Frame.get?_none_row hx, Frame.get?_none_row (fun h => hx (hix.mp h))]

/-- `Frame op Series` along the columns: the Series is aligned with the column labels (union),
    each cell holds `op cell series[c]`. -/
theorem frame_series_binop_aligns {o : PyOrd α} (ho : o.Lawful) (op : β → β → β) (na : β)
    (a : Frame α β) (s : Series α β) (ha : a.WF) (hs : s.WF)
    (hcols : a.columns.labels ≠ [] ∨ s.index.labels ≠ []) :
    ∃ r, a.binop o op na (.series s 0) = .ok r ∧ r.WF ∧ r.index = a.index ∧
      r.columns = a.columns.union o s.index ∧
      ∀ x ∈ r.index.labels, ∀ c ∈ r.columns.labels,
        r.get? x c = some (op ((a.get? x c).getD na) ((s.get? c).getD na)) :=
  Frame.binop_series0_spec ho op na a s ha hs hcols

/-- A result without columns cannot be built (`TypeBlocks.from_blocks` gets no block and no shape
    reference): any operator on a zero-column Frame raises — a systemic limitation of the library
    (zero-column Frames with rows), outside the generated inputs; hence `hcols` above. -/
theorem frame_binop_zero_columns_counterexample :
    (⟨⟨[0, 1], .int⟩, ⟨[], .int⟩, []⟩ : Frame Int Int).binop intOrd (· + ·) (-1) (.scalar 1) = .error .init := by
  decide

/-! ### non-vacuity: concrete instances reaching the shortcut, the sorted path and the partial-overlap branch -/

example : intOrd.Lawful := fun l => List.Perm.refl l
example : ufuncSet1d intOrd .union .int .int [3, 1, 2] [3, 1, 2] true = [3, 1, 2] := by decide
example : ufuncSet1d intOrd .union .int .int [3, 1, 2] [3, 2, 1] true = [1, 2, 3] := by decide
example : ufuncSet1d intOrd .diff .int .int [3, 1, 2] [1] true = [3, 2] := by decide
example : ufuncSet1d intOrd .inter .int .obj [3, 1, 2] [5, 2, 3] true = [2, 3] := by decide
example : (⟨⟨[3, 1], .int⟩, [30, 10]⟩ : Series Int Int).reindex intOrd ⟨[1, 7, 3], .int⟩ (-1) true
    = .ok ⟨⟨[1, 7, 3], .int⟩, [10, -1, 30]⟩ := by decide
example : (⟨⟨[3, 1], .int⟩, [30, 10]⟩ : Series Int Int).binop intOrd (· + ·) (-1)
    (.series ⟨⟨[1, 4], .int⟩, [5, 6]⟩) = .ok ⟨⟨[1, 3, 4], .int⟩, [15, 29, 5]⟩ := by decide

end SF.C06
