/-
  C03 / C06 — `TypeBlocks.resize_blocks` (the generator behind `Frame.reindex` and every label
  alignment of the Frame operators) AT THE BLOCK LEVEL.

  The mirrored generator (SFModel/BlocksResize.lean: the per-block branches — both `None`; rows
  only per block; columns only with the "nothing in common", `unified and is_subset` and
  `dst_to_src` loop exits; both axes with the same three exits) is shown, for EVERY well-formed block
  layout and EVERY pair of optional correspondences that are well-formed (`SetOps.IC.WF`: what
  `IndexCorrespondence.from_correspondence` yields for duplicate-free label lists,
  `fromCorrespondence_wf`), to yield blocks whose `(dtype, column)` list is the layout-free
  specification `resizeSpec` — `SetOps.resizeCols` of C06 with dtypes (`resize_refines`,
  `resize_cols_eq_resizeCols`), never an error, a well-formed result of shape
  (index size, columns size) (`resize_wf_shape`), dtypes by the exact rule (`resize_dtypes`), cell
  by cell the source cell under the same labels or the fill (`resize_cells`); hence the block layout
  is unobservable through reindexing (`layout_unobservable_resize`).  `iloc_src` of a subset
  correspondence is read in the order given, ascending or not (`resize_subset_any_order`); a 2-D
  block stays one 2-D block when only rows are re-aligned (`resize_rows_block_structure`).

  Parameters: `resolve` (`util.resolve_dtype` inside `full_for_fill`), `conv` (NumPy's conversion of
  a cell assigned into an array of another dtype).
-/
import SFModel.BlocksResizeLemmas7

namespace SF.C03
open SF SF.TB SF.SetOps

variable {α κ : Type} [DecidableEq κ]

/-! ### concrete instances for the non-vacuity examples -/

/-- ordering parameter of the examples: integers, everything sortable, sets iterate in list order -/
def rzOrd : PyOrd Int := ⟨fun a b => decide (a ≤ b), fun _ => true, id⟩
/-- 1-D block + 2-D block of width 2: 3 columns, 3 rows -/
def rzTb : TB Nat := ⟨3, [.d1 "i" [1, 2, 3], .d2 "f" [[4, 5, 6], [7, 8, 9]]]⟩
/-- the same logical frame as three 1-D blocks -/
def rzTb' : TB Nat := ⟨3, [.d1 "i" [1, 2, 3], .d1 "f" [4, 5, 6], .d1 "f" [7, 8, 9]]⟩
/-- one 2-D block (unified) -/
def rzTbU : TB Nat := ⟨3, [.d2 "f" [[4, 5, 6], [7, 8, 9]]]⟩
def rzRes : DT → DT → DT := fun a b => if a = b then a else "O"
def rzConv : DT → DT → Nat → Nat := fun _ _ v => v
/-- rows: a reordering (subset, NOT ascending) -/
def rzPerm : IC := ⟨true, true, [2, 0, 1], [0, 1, 2], 3⟩
/-- rows: partial overlap (source rows 2, 0 land at 0, 2 of 4) -/
def rzPart : IC := ⟨true, false, [2, 0], [0, 2], 4⟩
/-- columns: source columns 2, 0 at destinations 0, 1; destination 2 is new -/
def rzColsPart : IC := ⟨true, false, [2, 0], [0, 1], 3⟩
/-- nothing in common, size 2 -/
def rzNone : IC := ⟨false, false, [], [], 2⟩

theorem rzTb_wf : rzTb.WF := by simp [rzTb, TB.WF, Block.RowsOk, Block.colsOf, Block.width]
theorem rzTb'_wf : rzTb'.WF := by simp [rzTb', TB.WF, Block.RowsOk, Block.colsOf, Block.width]

/-! ### the correspondence -/

/-- `IndexCorrespondence.from_correspondence` of two duplicate-free label lists never fails and
    yields a WELL-FORMED correspondence (`IC.WF`, stated in BlocksResize.lean: `iloc_src` /
    `iloc_dst` equally long, in range, without repeats — in any order —, `has_common` iff there is
    a pair, `is_subset` only with `has_common` and then `iloc_dst = arange(size)`) against the
    source axis, of the size of the destination. -/
theorem fromCorrespondence_wf {o : PyOrd κ} (ho : o.Lawful) (src dst : Idx κ) (hs : src.labels.Nodup)
    (hd : dst.labels.Nodup) :
    ∃ ic, fromCorrespondence o src dst = some ic ∧ ic.WF src.labels.length ∧ ic.size = dst.labels.length := by
  obtain ⟨ic, hic⟩ := fromCorrespondence_isSome ho src dst hs hd
  exact ⟨ic, hic, fromCorrespondence_wf' ho src dst hs hd hic⟩

example : rzOrd.Lawful := fun l => List.Perm.refl l
example : fromCorrespondence rzOrd ⟨[3, 1, 2], .int⟩ ⟨[2, 3, 1], .int⟩ = some rzPerm ∧ rzPerm.WF 3 := by decide
example : fromCorrespondence rzOrd ⟨[3, 1, 2], .int⟩ ⟨[2, 7, 3, 9], .int⟩ = some rzPart ∧ rzPart.WF 3 := by decide
example : fromCorrespondence rzOrd ⟨[3, 1, 2], .int⟩ ⟨[5, 6], .int⟩ = some rzNone ∧ rzNone.WF 3 := by decide

/-! ### refinement -/

/-- REFINEMENT of the generator, at full strength. For every well-formed layout and every pair of
    optional well-formed correspondences, every branch of `resize_blocks` succeeds and the
    `(dtype, column)` list of the yielded blocks is the layout-free specification applied to the
    `(dtype, column)` list of the source. -/
theorem resize_refines (resolve : DT → DT → DT) (conv : DT → DT → α → α) (tb : TB α) (hwf : tb.WF)
    (iic cic : Option IC) (hi : OptWF iic tb.rows) (hc : OptWF cic tb.ncols) (fill : α) (fillDT : DT) :
    ∃ bs, tb.resizeBlocks resolve conv iic cic fill fillDT = .ok bs ∧
      resizeSpec resolve conv tb.rows iic cic fill fillDT (tb.dtypes.zip tb.cols) =
        .ok ((⟨newLen iic tb.rows, bs⟩ : TB α).dtypes.zip (⟨newLen iic tb.rows, bs⟩ : TB α).cols) := by
  obtain ⟨bs, h1, h2⟩ := TB.resizeBlocks_spec resolve conv tb hwf iic cic hi hc fill fillDT
  refine ⟨bs, h1, ?_⟩
  rw [← TB.colsDT_zip, ← TB.colsDT_zip]
  exact h2

example : rzTb.resizeBlocks rzRes rzConv (some rzPart) none 0 "f"
    = .ok [.d1 "O" [3, 0, 1, 0], .d2 "f" [[6, 0, 4, 0], [9, 0, 7, 0]]] := by decide
example : rzTb.resizeBlocks rzRes rzConv (some rzPerm) (some rzColsPart) 0 "f"
    = .ok [.d1 "f" [9, 7, 8], .d1 "i" [3, 1, 2], .d1 "f" [0, 0, 0]] := by decide
example : rzTbU.resizeBlocks rzRes rzConv (some rzPerm) (some ⟨true, true, [1, 0], [0, 1], 2⟩) 0 "f"
    = .ok [.d2 "f" [[9, 7, 8], [6, 4, 5]]] := by decide
example : OptWF (some rzPart) rzTb.rows ∧ OptWF (some rzColsPart) rzTb.ncols := by decide

/-- `Frame.reindex` at the block level never fails on well-formed input; the result is
    WELL-FORMED, has the SHAPE (index size, columns size), and holds the specification. -/
theorem resize_wf_shape (resolve : DT → DT → DT) (conv : DT → DT → α → α) (tb : TB α) (hwf : tb.WF)
    (iic cic : Option IC) (hi : OptWF iic tb.rows) (hc : OptWF cic tb.ncols) (fill : α) (fillDT : DT) :
    ∃ res, tb.resized resolve conv iic cic fill fillDT = .ok res ∧ res.WF ∧
      res.rows = newLen iic tb.rows ∧ res.ncols = newLen cic tb.ncols ∧
      resizeSpec resolve conv tb.rows iic cic fill fillDT (tb.dtypes.zip tb.cols) =
        .ok (res.dtypes.zip res.cols) := by
  obtain ⟨res, h1, h2, h3, h4, h5⟩ := TB.resized_spec resolve conv tb hwf iic cic hi hc fill fillDT
  refine ⟨res, h1, h2, h3, h4, ?_⟩
  rw [← TB.colsDT_zip, ← TB.colsDT_zip]
  exact h5

example : rzTb.resized rzRes rzConv (some rzNone) (some rzNone) 0 "f"
    = .ok ⟨2, [.d2 "f" [[0, 0], [0, 0]]]⟩ := by decide
/-- a zero-width fill block is dropped by `from_blocks`; the shape reference keeps the rows -/
example : rzTb.resized rzRes rzConv none (some ⟨false, false, [], [], 0⟩) 0 "f" = .ok ⟨3, []⟩ := by decide

/-- THE DTYPE RULE, exactly: a column that is only row-selected (no row correspondence, or a subset
    one) keeps its dtype; a column that receives fill cells has `resolve t fillDT`
    (`full_for_fill(b.dtype, …)`); a column without source has the fill's own dtype
    (`full_for_fill(None, …)`) — whatever the layout. -/
theorem resize_dtypes (resolve : DT → DT → DT) (conv : DT → DT → α → α) (tb : TB α) (hwf : tb.WF)
    (iic cic : Option IC) (hi : OptWF iic tb.rows) (hc : OptWF cic tb.ncols) (fill : α) (fillDT : DT) :
    ∃ res, tb.resized resolve conv iic cic fill fillDT = .ok res ∧
      res.dtypes = resizeDTypes resolve iic cic fillDT tb.dtypes := by
  obtain ⟨res, h1, _, _, _, h5⟩ := TB.resized_spec resolve conv tb hwf iic cic hi hc fill fillDT
  obtain ⟨L, hL, _, _, hdt⟩ := resizeSpec_ok resolve conv tb.rows tb.ncols iic cic hi hc fill fillDT
    (colsDT tb.blocks) (colsDT_ncols tb) (colsDT_rows tb hwf)
  rw [h5] at hL
  simp only [Except.ok.injEq] at hL
  subst hL
  exact ⟨res, h1, by rw [TB.dtypes_eq_colsDT, TB.dtypes_eq_colsDT, hdt]⟩

example : resizeDTypes rzRes (some rzPart) (some rzColsPart) "f" ["i", "f", "f"] = ["f", "O", "f"] ∧
    resizeDTypes rzRes (some rzPerm) (some rzColsPart) "f" ["i", "f", "f"] = ["f", "i", "f"] := by decide

/-- With the identity as cell conversion the CELLS of the reindexed TypeBlocks are exactly
    `SetOps.resizeCols` — the layout-free model of C06, for which `C06.frame_reindex_exact` /
    `resizeCols_spec` give the label-wise meaning — applied to the cells of the source. -/
theorem resize_cols_eq_resizeCols (resolve : DT → DT → DT) (conv : DT → DT → α → α)
    (hconv : ∀ a b v, conv a b v = v) (tb : TB α) (hwf : tb.WF)
    (iic cic : Option IC) (hi : OptWF iic tb.rows) (hc : OptWF cic tb.ncols) (fill : α) (fillDT : DT) :
    ∃ res, tb.resized resolve conv iic cic fill fillDT = .ok res ∧
      resizeCols tb.rows iic cic fill tb.cols = .ok res.cols := by
  obtain ⟨res, h1, _, _, _, h5⟩ := TB.resized_spec resolve conv tb hwf iic cic hi hc fill fillDT
  refine ⟨res, h1, ?_⟩
  have := resizeSpec_cells_eq_resizeCols resolve conv hconv tb.rows tb.ncols iic cic hi hc fill fillDT
    (colsDT tb.blocks) (colsDT_ncols tb) (colsDT_rows tb hwf) _ h5
  rw [TB.cols_eq_colsDT, TB.cols_eq_colsDT]
  exact this

example : (rzTb.resized rzRes rzConv (some rzPart) (some rzColsPart) 0 "f").map TB.cols
    = resizeCols 3 (some rzPart) (some rzColsPart) 0 rzTb.cols := by decide

/-- CELL LEVEL, in terms of labels, for any conversion: reindexing a TypeBlocks whose rows /
    columns carry the duplicate-free labels `index` / `columns` to the labels `ni` / `nc` (each axis
    through `from_correspondence`, or kept when the labels are equal: `AxisOk`) gives, under each
    new column label `c`: the fill column of the fill's dtype if the source has no column `c`; else a
    column of the dtype given by the rule, holding under each new row label `r` the source cell
    `(r, c)` (converted exactly when the column goes through `full_for_fill`), or the stored fill. -/
theorem resize_cells (resolve : DT → DT → DT) (conv : DT → DT → α → α) {o : PyOrd κ} (ho : o.Lawful)
    (index columns ni nc : Idx κ) (hidx : index.labels.Nodup) (hcol : columns.labels.Nodup)
    (hni : ni.labels.Nodup) (hnc : nc.labels.Nodup) (tb : TB α) (hwf : tb.WF)
    (hrows : tb.rows = index.labels.length) (hcols : tb.ncols = columns.labels.length)
    (iic cic : Option IC) (hi : AxisOk o index ni iic) (hc : AxisOk o columns nc cic) (fill : α) (fillDT : DT) :
    ∃ res, tb.resized resolve conv iic cic fill fillDT = .ok res ∧ res.WF ∧
      res.rows = ni.labels.length ∧ res.ncols = nc.labels.length ∧
      ∀ c ∈ nc.labels, ∃ y, lookup nc.labels (res.dtypes.zip res.cols) c = some y ∧
        match lookup columns.labels (tb.dtypes.zip tb.cols) c with
        | none => y = fillColDT conv ni.labels.length fill fillDT
        | some x => y.1 = rowDT resolve iic fillDT x.1 ∧
            ∀ r ∈ ni.labels, lookup ni.labels y.2 r =
              some (match lookup index.labels x.2 r with
                    | some v => rowCv resolve conv iic fillDT x.1 v
                    | none => conv fillDT y.1 fill) := by
  obtain ⟨hiwf, hilen⟩ := axisOk_optWF ho index ni hidx hni iic hi
  obtain ⟨hcwf, hclen⟩ := axisOk_optWF ho columns nc hcol hnc cic hc
  rw [← hrows] at hiwf hilen
  rw [← hcols] at hcwf hclen
  obtain ⟨res, h1, h2, h3, h4, h5⟩ := TB.resized_spec resolve conv tb hwf iic cic hiwf hcwf fill fillDT
  refine ⟨res, h1, h2, h3.trans hilen, h4.trans hclen, ?_⟩
  rw [← TB.colsDT_zip, ← TB.colsDT_zip]
  rw [hrows] at h5
  exact resizeSpec_labels resolve conv ho index columns ni nc hidx hcol hni hnc iic cic hi hc fill fillDT
    (colsDT tb.blocks) ((colsDT_ncols tb).trans hcols) (fun x hx => (colsDT_rows tb hwf x hx).trans hrows) _ h5

/-- rows [3,1,2] → [2,7,3,9] (partial overlap), columns [3,1,2] → [2,3,5]:
    (dtype, column) under the new labels, e.g. column 3 = old column 3 (dtype "i" → resolved "O"),
    holding old cells of rows 2 and 3 and the fill elsewhere -/
example : (rzTb.resized rzRes rzConv (some rzPart) (some rzColsPart) 0 "f").map
      (fun r => r.dtypes.zip r.cols)
    = .ok [("f", [9, 0, 7, 0]), ("O", [3, 0, 1, 0]), ("f", [0, 0, 0, 0])] ∧
    -- the two `AxisOk` hypotheses, unfolded
    fromCorrespondence rzOrd ⟨[3, 1, 2], .int⟩ ⟨[2, 7, 3, 9], .int⟩ = some rzPart ∧
    fromCorrespondence rzOrd ⟨[3, 1, 2], .int⟩ ⟨[2, 3, 5], .int⟩ = some rzColsPart := by decide

/-! ### the property -/

/-- THE PROPERTY (for reindexing / label alignment): two well-formed layouts of the same logical
    frame (same columns, same per-column dtypes, same row count) give, for every pair of optional
    well-formed correspondences and every fill, results with the same columns, dtypes and shape —
    and neither raises. -/
theorem layout_unobservable_resize (resolve : DT → DT → DT) (conv : DT → DT → α → α) (a b : TB α)
    (ha : a.WF) (hb : b.WF) (hcols : a.cols = b.cols) (hdts : a.dtypes = b.dtypes) (hrows : a.rows = b.rows)
    (iic cic : Option IC) (hi : OptWF iic a.rows) (hc : OptWF cic a.ncols) (fill : α) (fillDT : DT) :
    ∃ ra rb, a.resized resolve conv iic cic fill fillDT = .ok ra ∧
      b.resized resolve conv iic cic fill fillDT = .ok rb ∧
      ra.cols = rb.cols ∧ ra.dtypes = rb.dtypes ∧ ra.rows = rb.rows ∧ ra.ncols = rb.ncols := by
  have hnc : a.ncols = b.ncols := by rw [← TB.cols_length, ← TB.cols_length, hcols]
  have hcd : colsDT a.blocks = colsDT b.blocks := by rw [TB.colsDT_zip, TB.colsDT_zip, hcols, hdts]
  obtain ⟨ra, a1, _, a3, a4, a5⟩ := TB.resized_spec resolve conv a ha iic cic hi hc fill fillDT
  obtain ⟨rb, b1, _, b3, b4, b5⟩ := TB.resized_spec resolve conv b hb iic cic (hrows ▸ hi) (hnc ▸ hc) fill fillDT
  rw [← hcd, ← hrows, a5] at b5
  simp only [Except.ok.injEq] at b5
  refine ⟨ra, rb, a1, b1, ?_, ?_, ?_, ?_⟩
  · rw [TB.cols_eq_colsDT, TB.cols_eq_colsDT, b5]
  · rw [TB.dtypes_eq_colsDT, TB.dtypes_eq_colsDT, b5]
  · rw [a3, b3, hrows]
  · rw [a4, b4, hnc]

example : rzTb.cols = rzTb'.cols ∧ rzTb.dtypes = rzTb'.dtypes ∧
    (rzTb.resized rzRes rzConv (some rzPart) none 0 "f").map TB.cols
      = (rzTb'.resized rzRes rzConv (some rzPart) none 0 "f").map TB.cols ∧
    (rzTb.resized rzRes rzConv (some rzPart) none 0 "f").map TB.blocks
      ≠ (rzTb'.resized rzRes rzConv (some rzPart) none 0 "f").map TB.blocks := by decide

/-! ### the branches the seeded mutations touch -/

/-- Rows only, a SUBSET correspondence (`b[index_ic.iloc_src]`): dtypes are untouched and every
    column lists its source cells at the positions `iloc_src` IN THE ORDER GIVEN — a reordering in
    general; nothing may replace a non-ascending `iloc_src` by a slice. -/
theorem resize_subset_any_order (resolve : DT → DT → DT) (conv : DT → DT → α → α) (tb : TB α) (hwf : tb.WF)
    (ic : IC) (hi : ic.WF tb.rows) (hs : ic.isSubset = true) (fill : α) (fillDT : DT) :
    ∃ res, tb.resized resolve conv (some ic) none fill fillDT = .ok res ∧ res.dtypes = tb.dtypes ∧
      res.cols = tb.cols.map (fun col => pick col ic.ilocSrc) := by
  obtain ⟨res, h1, _, _, _, h5⟩ := TB.resized_spec resolve conv tb hwf (some ic) none hi trivial fill fillDT
  have hG : ∀ x ∈ colsDT tb.blocks, resizeColDT resolve conv (some ic) fill fillDT x =
      .ok ((fun x => (x.1, pick x.2 ic.ilocSrc)) x) := by
    intro x hx
    have hl := colsDT_rows tb hwf x hx
    rw [(resizeColDT_eq_colT resolve conv (iic := some ic) hi fill fillDT x hl).1,
      colT_subset_pick resolve conv hi hs fill fillDT x hl]
  have hspec : resizeSpec resolve conv tb.rows (some ic) none fill fillDT (colsDT tb.blocks) =
      .ok ((colsDT tb.blocks).map (fun x => (x.1, pick x.2 ic.ilocSrc))) := by
    unfold resizeSpec; exact mapMExcept_ok hG
  rw [hspec] at h5
  simp only [Except.ok.injEq] at h5
  refine ⟨res, h1, ?_, ?_⟩
  · rw [TB.dtypes_eq_colsDT, TB.dtypes_eq_colsDT, ← h5, List.map_map]; rfl
  · rw [TB.cols_eq_colsDT, TB.cols_eq_colsDT, ← h5, List.map_map, List.map_map]; rfl

/-- source rows 0, 2, 1, 3: the ends are 3 apart and there are 4 positions, yet the rows are NOT
    the slice 0:4 -/
example : ((⟨4, [.d1 "i" [10, 30, 20, 40]]⟩ : TB Nat).resized rzRes rzConv
      (some ⟨true, true, [0, 2, 1, 3], [0, 1, 2, 3], 4⟩) none 0 "f").map TB.cols = .ok [[10, 20, 30, 40]] ∧
    (⟨true, true, [0, 2, 1, 3], [0, 1, 2, 3], 4⟩ : IC).WF 4 ∧
    pick [10, 30, 20, 40] [0, 2, 1, 3] ≠ ([10, 30, 20, 40].drop 0).take 4 := by decide

/-- Rows only: the generator yields block for block — a 1-D block stays 1-D, a 2-D block stays ONE
    2-D block of the same width — with the dtype rule applied per block. -/
theorem resize_rows_block_structure (resolve : DT → DT → DT) (conv : DT → DT → α → α) (tb : TB α)
    (hwf : tb.WF) (ic : IC) (hi : ic.WF tb.rows) (fill : α) (fillDT : DT) :
    ∃ bs, tb.resizeBlocks resolve conv (some ic) none fill fillDT = .ok bs ∧
      bs.map (fun b => (b.is1d, b.width)) = tb.blocks.map (fun b => (b.is1d, b.width)) ∧
      bs.map Block.dt = tb.blocks.map (fun b => rowsDT resolve ic b.dt fillDT) := by
  refine ⟨_, TB.resizeBlocks_rows_eq resolve conv tb hwf ic hi fill fillDT, ?_, ?_⟩
  · rw [List.map_map]
    apply List.map_congr_left
    intro b _
    simp only [Function.comp, (blockT_shape resolve conv ic fill fillDT b).1,
      (blockT_shape resolve conv ic fill fillDT b).2.1]
  · rw [List.map_map]
    apply List.map_congr_left
    intro b _
    exact (blockT_shape resolve conv ic fill fillDT b).2.2

example : (rzTb.resizeBlocks rzRes rzConv (some rzPerm) none 0 "f").map (List.map fun b => (b.is1d, b.width))
    = .ok [(true, 1), (false, 2)] := by decide

end SF.C03
