/-
  C03 / C08 — `Frame.roll` / `Frame.shift` (`TypeBlocks._shift_blocks`) and `util.array_shift`
  (`Series.roll` / `Series.shift`).

  The mirrored generator (SFModel/BlocksShift.lean) is shown to act on the list of
  `(dtype, column)` as the plain list operation `shiftColsSpec` — rotate the column list by `c` and
  every column by `r`; shifting = the same with the vacated positions holding the fill — for EVERY
  block layout with at least one row and one column, all integers `r`, `c`, both wrap modes
  (`shift_refines`, `shift_wf_shape`, `layout_unobservable_shift`).  Zero-sized axes raise
  ZeroDivisionError (`shift_zero_axis`, `array_shift_empty`, `series_roll_empty`; not repaired).
  The code before /repo commit ad4f5b0 (`TB.shiftBlocksPinned`) yielded too many columns for
  `wrap = False` and a column shift outside `ColShiftOk` (`-n < c ≤ n` or a positive multiple of
  `n`): `Frame.shift(columns=k)` raised ErrorInitFrame (`shiftPinned_overshoot`,
  `shiftPinned_ok_iff`, `shiftPinned_overshoot_counterexample`).
-/
import SFModel.BlocksShiftLemmas2
import SFModel.BlocksShiftBridge
import SFModel.Props.C03

namespace SF.C03
open SF SF.TB

variable {α : Type}

/-! ### `array_shift` on one axis -/

/-- The step-1 slicing the model uses for `array[-shift:]`, `array[:-shift]`, `self._blocks[i + 1:]`,
    `block[:, k:]` … is Python slicing as modelled in Slice.lean (`PySlice.indices`, bridged to the
    translated source; negative bounds, clamping). -/
theorem slice_list_is_python_slice {β : Type} (l : List β) (start stop : Option Int) :
    TB.pyListSlice l ⟨start, stop, none⟩ = .ok (sliceList l start stop) :=
  pyListSlice_step1 l start stop

example : sliceList [1, 2, 3, 4] (some (-3)) none = [2, 3, 4] ∧ sliceList [1, 2, 3, 4] none (some (-9)) = [] ∧
    sliceList [1, 2, 3, 4] (some 1) (some 7) = [2, 3, 4] := by decide

/-- `array_shift` on a non-empty 1-D array (or along one non-empty axis of a 2-D array whose lanes
    are the list elements) never raises and is the roll / the shift with fill, for every integer
    shift — including `|shift| ≥ len` and multiples of the length. -/
theorem array_shift_refines {β : Type} (a : List β) (s : Int) (wrap : Bool) (f : β) (cv : β → β)
    (hne : 0 < a.length) :
    arrayShift a s wrap f cv =
      .ok (if wrap then rollSpec a s else if s = 0 then a else shiftSpec (a.map cv) s f) :=
  arrayShift_spec a s wrap f cv hne

example : arrayShift [1, 2, 3] (-7) true 0 id = .ok [2, 3, 1] ∧
    arrayShift [1, 2, 3] 7 false 0 id = .ok [0, 0, 0] ∧
    arrayShift [1, 2, 3] (-1) false 0 id = .ok [2, 3, 0] := by decide

/-- meaning of the roll specification, cell by cell: cell `j` holds cell `(j - k) mod n` -/
theorem roll_pointwise {β : Type} (l : List β) (k : Int) :
    (rollSpec l k).length = l.length ∧
    ∀ j, j < l.length → (rollSpec l k)[j]? = l[(((j : Int) - k) % (l.length : Int)).toNat]? :=
  ⟨rollSpec_length l k, fun j hj => rollSpec_getElem? l k j hj⟩

/-- meaning of the shift specification, cell by cell: cell `j` holds cell `j - k` where that exists,
    else the fill -/
theorem shift_pointwise {β : Type} (l : List β) (k : Int) (f : β) :
    (shiftSpec l k f).length = l.length ∧
    ∀ j, j < l.length → (shiftSpec l k f)[j]? =
      if 0 ≤ (j : Int) - k ∧ (j : Int) - k < l.length then l[((j : Int) - k).toNat]? else some f :=
  ⟨shiftSpec_length l k f, fun j hj => shiftSpec_getElem? l k f j hj⟩

example : rollSpec [1, 2, 3] 1 = [3, 1, 2] ∧ shiftSpec [1, 2, 3] 1 0 = [0, 1, 2] ∧
    shiftSpec [1, 2, 3] (-5) 0 = [0, 0, 0] := by decide

/-- BOUNDARY DEFECT (zero-sized axis): `array_shift` of an empty array raises ZeroDivisionError for
    every non-zero shift, wrapping or not (`shift % array.shape[axis]`); only shift 0 returns. -/
theorem array_shift_empty {β : Type} (s : Int) (wrap : Bool) (f : β) (cv : β → β) :
    arrayShift ([] : List β) s wrap f cv = if s = 0 then .ok [] else .error .other :=
  arrayShift_empty s wrap f cv

example : arrayShift ([] : List Nat) 1 false 0 id = .error .other := by decide

/-- `array_shift(axis=0)` on one block (1-D or 2-D) of a frame with at least one row: every column
    is rolled / shifted, the dtype goes through `resolve` exactly when cells are filled in. -/
theorem block_array_shift_rows (resolve : DT → DT → DT) (conv : DT → DT → α → α)
    (b : Block α) (n : Nat) (hn : 0 < n) (h : b.RowsOk n) (r : Int) (wrap : Bool) (fill : α) (fillDT : DT) :
    ∃ b', b.arrayShift resolve conv n r 0 wrap fill fillDT = .ok b' ∧ b'.width = b.width ∧ b'.RowsOk n ∧
      b'.colsDT = b.colsDT.map (shiftColSpec resolve conv r wrap fill fillDT) :=
  ⟨_, Block.arrayShift_rows_spec resolve conv b n hn h r wrap fill fillDT,
    Block.shiftRowsSpec_width resolve conv b r wrap fill fillDT,
    Block.shiftRowsSpec_rowsOk resolve conv b n h r wrap fill fillDT,
    Block.shiftRowsSpec_colsDT resolve conv b r wrap fill fillDT⟩

example : (Block.d2 "i" [[1, 2], [3, 4]]).arrayShift (fun a b => a ++ b) (fun _ _ v => v) 2 1 0 false 0 "f"
    = .ok (.d2 "if" [[0, 1], [0, 3]]) := by decide

/-- `array_shift(axis=1)` on a 2-D array with at least one column: the column list is rolled /
    shifted, vacated columns are whole fill columns. -/
theorem block_array_shift_cols (resolve : DT → DT → DT) (conv : DT → DT → α → α)
    (t : DT) (cs : List (List α)) (rows : Nat) (hne : 0 < cs.length) (s : Int) (wrap : Bool)
    (fill : α) (fillDT : DT) :
    (Block.d2 t cs).arrayShift resolve conv rows s 1 wrap fill fillDT =
      .ok (.d2 (shiftDT resolve t s wrap fillDT)
        (if wrap then rollSpec cs s else if s = 0 then cs
         else shiftSpec (cs.map (List.map (conv t (shiftDT resolve t s wrap fillDT)))) s
           (List.replicate rows (conv fillDT (shiftDT resolve t s wrap fillDT) fill)))) := by
  obtain ⟨m, h1, h2, _⟩ := shiftMod_spec s cs.length hne
  simp only [Block.arrayShift, h1, Block.dt]
  rw [shiftLane_spec cs s m wrap _ _ h2]
  rfl

example : (Block.d2 "i" [[1, 2], [3, 4]]).arrayShift (fun a b => a ++ b) (fun _ _ v => v) 2 (-1) 1 false 0 "f"
    = .ok (.d2 "if" [[3, 4], [0, 0]]) := by decide

/-! ### `_shift_blocks` / `Frame.roll` / `Frame.shift` -/

/-- a small layout (1-D block + 2-D block of width 2, i.e. 3 columns, 2 rows) -/
def tbS : TB Nat := ⟨2, [.d1 "i" [1, 4], .d2 "i" [[2, 5], [3, 6]]]⟩
/-- the same logical frame as three 1-D blocks -/
def tbS' : TB Nat := ⟨2, [.d1 "i" [1, 4], .d1 "i" [2, 5], .d1 "i" [3, 6]]⟩

theorem tbS_wf : tbS.WF := by simp [tbS, TB.WF, Block.RowsOk, Block.colsOf, Block.width]
theorem tbS'_wf : tbS'.WF := by simp [tbS', TB.WF, Block.RowsOk, Block.colsOf, Block.width]

/-- dtype resolution / conversion used by the concrete examples -/
def resEx : DT → DT → DT := fun a b => if a = b then a else "O"
def convEx : DT → DT → Nat → Nat := fun _ _ v => v

/-- REFINEMENT, at full strength. For every well-formed layout with at least one row and one column,
    ALL integers `r`, `c`, both wrap modes: rolling and shifting succeed, and the columns and dtypes
    of the result are the specification applied to the columns and dtypes of the input. (Since /repo
    commit ad4f5b0 the column shifts with `|c| ≥ n` are covered as well; the code before it is
    `shiftBlocksPinned`, see `shiftPinned_overshoot_counterexample` below.) -/
theorem shift_refines (resolve : DT → DT → DT) (conv : DT → DT → α → α)
    (tb : TB α) (hwf : tb.WF) (hr : 0 < tb.rows) (hc : 0 < tb.ncols)
    (r c : Int) (wrap : Bool) (fill : α) (fillDT : DT) :
    ∃ res, tb.frameShift resolve conv r c wrap fill fillDT = .ok res ∧
      res.dtypes.zip res.cols =
        shiftColsSpec resolve conv tb.rows (tb.dtypes.zip tb.cols) r c wrap fill fillDT := by
  obtain ⟨bs, _, h1, _, h3⟩ := tb.frameShift_general resolve conv true hwf hr hc r c wrap fill fillDT
  have hpos : 0 < (colsDT tb.blocks).length := by rw [← tb.ncols_eq_colsDT]; exact hc
  have hlen : (colsDT bs).length = tb.ncols := by
    rw [h1, List.length_map, walkCols_length _ c wrap _ hpos, ← tb.ncols_eq_colsDT]
  refine ⟨⟨tb.rows, bs⟩, ?_, ?_⟩
  · unfold TB.frameShift; rw [h3, if_neg (by simp [hlen])]
  · rw [← TB.colsDT_eq_zip, ← TB.colsDT_eq_zip, h1]
    unfold shiftColsSpec
    cases wrap with
    | true => simp only [if_true]; rw [walkCols_roll true _ c _ hpos]
    | false =>
      simp only [Bool.false_eq_true, if_false]
      rw [walkCols_shift _ c _ hpos]

example : tbS.WF ∧ 0 < tbS.rows ∧ 0 < tbS.ncols ∧
    (tbS.frameShift resEx convEx 1 (-2) false 0 "i").map TB.cols = .ok [[0, 3], [0, 0], [0, 0]] ∧
    (tbS.frameShift resEx convEx 3 4 true 0 "i").map TB.cols = .ok [[6, 3], [4, 1], [5, 2]] ∧
    -- every column shifted out: the all-fill frame (raised ErrorInitFrame before the repair)
    (tbS.frameShift resEx convEx 0 4 false 0 "i").map TB.cols = .ok [[0, 0], [0, 0], [0, 0]] ∧
    (tbS.frameShift resEx convEx 1 (-3) false 0 "i").map TB.cols = .ok [[0, 0], [0, 0], [0, 0]] ∧
    (tbS.shiftBlocks resEx convEx 0 7 false 0 "i").map (List.map Block.width) = .ok [3] :=
  ⟨tbS_wf, by decide, by decide, by decide, by decide, by decide, by decide, by decide⟩

/-- The result is well-formed and has the shape of the input — all `r`, `c`, both wrap modes. -/
theorem shift_wf_shape (resolve : DT → DT → DT) (conv : DT → DT → α → α)
    (tb : TB α) (hwf : tb.WF) (hr : 0 < tb.rows) (hc : 0 < tb.ncols)
    (r c : Int) (wrap : Bool) (fill : α) (fillDT : DT) :
    ∃ res, tb.frameShift resolve conv r c wrap fill fillDT = .ok res ∧
      res.WF ∧ res.rows = tb.rows ∧ res.ncols = tb.ncols ∧
      res.cols.length = tb.ncols ∧ (∀ col ∈ res.cols, col.length = tb.rows) := by
  obtain ⟨bs, _, h1, h2, h3⟩ := tb.frameShift_general resolve conv true hwf hr hc r c wrap fill fillDT
  have hpos : 0 < (colsDT tb.blocks).length := by rw [← tb.ncols_eq_colsDT]; exact hc
  have hlen : (colsDT bs).length = tb.ncols := by
    rw [h1, List.length_map, walkCols_length _ c wrap _ hpos, ← tb.ncols_eq_colsDT]
  have hn : (TB.mk tb.rows bs).ncols = tb.ncols := by rw [TB.ncols_eq_colsDT]; exact hlen
  refine ⟨⟨tb.rows, bs⟩, ?_, h2, rfl, hn, ?_, ?_⟩
  · unfold TB.frameShift; rw [h3, if_neg (by simp [hlen])]
  · rw [cols_length]; exact hn
  · exact (cols_wf _ h2).2.1

example : (tbS.frameShift resEx convEx (-1) 5 false 0 "f").map (fun res => (res.rows, res.ncols, res.cols))
    = .ok (2, 3, [[0, 0], [0, 0], [0, 0]]) := by decide

/-- BOUNDARY DEFECT (zero-sized axes, NOT repaired in /repo): with no row or no column
    `_shift_blocks` raises ZeroDivisionError for every call, also `roll(0, 0)` / `shift(0, 0)`. -/
theorem shift_zero_axis (resolve : DT → DT → DT) (conv : DT → DT → α → α)
    (tb : TB α) (h : tb.rows = 0 ∨ tb.ncols = 0) (r c : Int) (wrap : Bool) (fill : α) (fillDT : DT) :
    tb.shiftBlocks resolve conv r c wrap fill fillDT = .error .other ∧
    tb.frameShift resolve conv r c wrap fill fillDT = .error .other := by
  have h1 := tb.shiftBlocks_zero_axis resolve conv true h r c wrap fill fillDT
  refine ⟨h1, ?_⟩
  unfold TB.frameShift TB.frameShiftGen; rw [h1]

example : (TB.mk 0 [Block.d1 "i" ([] : List Nat)]).WF ∧
    (TB.mk 0 [Block.d1 "i" ([] : List Nat)]).frameShift resEx convEx 0 0 true 0 "i" = .error .other :=
  ⟨by simp [TB.WF, Block.RowsOk, Block.colsOf, Block.width], by decide⟩

/-- THE PROPERTY (C03) for roll / shift, at full strength: two layouts of the same logical frame
    (equal columns, dtypes and row count) give the same outcome for ALL `r`, `c`, `wrap` and all
    sizes — equal columns and dtypes on success, the same exception on zero-sized axes. -/
theorem layout_unobservable_shift (resolve : DT → DT → DT) (conv : DT → DT → α → α)
    (a b : TB α) (ha : a.WF) (hb : b.WF)
    (hc : a.cols = b.cols) (hd : a.dtypes = b.dtypes) (hr : a.rows = b.rows)
    (r c : Int) (wrap : Bool) (fill : α) (fillDT : DT) :
    (a.frameShift resolve conv r c wrap fill fillDT).map (fun x => (x.cols, x.dtypes)) =
    (b.frameShift resolve conv r c wrap fill fillDT).map (fun x => (x.cols, x.dtypes)) := by
  have hn : a.ncols = b.ncols := by rw [← cols_length, ← cols_length, hc]
  have hcd : colsDT a.blocks = colsDT b.blocks := by rw [TB.colsDT_eq_zip, TB.colsDT_eq_zip, hc, hd]
  by_cases hz : a.rows = 0 ∨ a.ncols = 0
  · rw [(shift_zero_axis resolve conv a hz r c wrap fill fillDT).2,
      (shift_zero_axis resolve conv b (by rw [← hr, ← hn]; exact hz) r c wrap fill fillDT).2]
  · have hra : 0 < a.rows := by omega
    have hca : 0 < a.ncols := by omega
    obtain ⟨bsa, _, a1, _, a3⟩ := a.frameShift_general resolve conv true ha hra hca r c wrap fill fillDT
    obtain ⟨bsb, _, b1, _, b3⟩ := b.frameShift_general resolve conv true hb (by omega) (by omega) r c wrap fill fillDT
    have hbs : colsDT bsa = colsDT bsb := by rw [a1, b1, hcd, hr]
    unfold TB.frameShift
    rw [a3, b3, hbs, hn]
    split
    · rfl
    · simp only [Except.map]
      rw [TB.cols_eq_colsDT, TB.cols_eq_colsDT, TB.dtypes_eq_colsDT, TB.dtypes_eq_colsDT]
      simp only [hbs]

example : tbS.WF ∧ tbS'.WF ∧ tbS.cols = tbS'.cols ∧ tbS.dtypes = tbS'.dtypes ∧ tbS.rows = tbS'.rows ∧
    (tbS.frameShift resEx convEx 1 2 false 0 "i").map TB.cols = .ok [[0, 0], [0, 0], [0, 1]] ∧
    (tbS'.frameShift resEx convEx 1 2 false 0 "i").map TB.cols = .ok [[0, 0], [0, 0], [0, 1]] :=
  ⟨tbS_wf, tbS'_wf, by decide, by decide, rfl, by decide, by decide⟩

/-! ### the pinned code (before /repo commit ad4f5b0): the repaired defect F75

`TB.shiftBlocksPinned` keeps the remaining head / tail next to the full-width fill block. These
theorems record what was wrong and that the old side condition `ColShiftOk` was exact; the
repaired code needs no side condition (`shift_refines`). -/

/-- for `wrap = False` and every column shift outside `ColShiftOk` (`c ≤ -n`, or `c > n` not a
    multiple of `n`) the pinned generator yielded MORE than `n` columns, for every layout, and
    `Frame.shift` raised ErrorInitFrame. -/
theorem shiftPinned_overshoot (resolve : DT → DT → DT) (conv : DT → DT → α → α)
    (tb : TB α) (hwf : tb.WF) (hr : 0 < tb.rows) (hc : 0 < tb.ncols)
    (r c : Int) (fill : α) (fillDT : DT) (hbad : ¬ ColShiftOk tb.ncols c) :
    (∃ bs, tb.shiftBlocksPinned resolve conv r c false fill fillDT = .ok bs ∧
      tb.ncols < (bs.map Block.width).sum) ∧
    tb.frameShiftPinned resolve conv r c false fill fillDT = .error .init := by
  obtain ⟨bs, g1, h1, _, h3⟩ := tb.frameShift_general resolve conv false hwf hr hc r c false fill fillDT
  have hpos : 0 < (colsDT tb.blocks).length := by rw [← tb.ncols_eq_colsDT]; exact hc
  have hbad' : ¬ ColShiftOk (colsDT tb.blocks).length c := by rw [← tb.ncols_eq_colsDT]; exact hbad
  have hover := walkCols_overshoot_pinned (colsDT tb.blocks) c
    (fillDT, List.replicate tb.rows (conv fillDT fillDT fill)) hpos hbad'
  rw [← tb.ncols_eq_colsDT] at hover
  constructor
  · refine ⟨bs, g1, ?_⟩
    rw [← colsDT_length, h1, List.length_map]; exact hover
  · unfold TB.frameShiftPinned
    rw [h3, if_pos]
    rw [h1, List.length_map]; omega

/-- the pinned `Frame.shift` succeeded exactly for the column shifts of `ColShiftOk` -/
theorem shiftPinned_ok_iff (resolve : DT → DT → DT) (conv : DT → DT → α → α)
    (tb : TB α) (hwf : tb.WF) (hr : 0 < tb.rows) (hc : 0 < tb.ncols)
    (r c : Int) (fill : α) (fillDT : DT) :
    (∃ res, tb.frameShiftPinned resolve conv r c false fill fillDT = .ok res) ↔ ColShiftOk tb.ncols c := by
  constructor
  · intro ⟨res, h⟩
    by_cases hok : ColShiftOk tb.ncols c
    · exact hok
    · rw [(shiftPinned_overshoot resolve conv tb hwf hr hc r c fill fillDT hok).2] at h; cases h
  · intro hok
    obtain ⟨bs, _, h1, _, h3⟩ := tb.frameShift_general resolve conv false hwf hr hc r c false fill fillDT
    have hpos : 0 < (colsDT tb.blocks).length := by rw [← tb.ncols_eq_colsDT]; exact hc
    have hok' : ColShiftOk (colsDT tb.blocks).length c := by rw [← tb.ncols_eq_colsDT]; exact hok
    have hlen : (colsDT bs).length = tb.ncols := by
      rw [h1, List.length_map, walkCols_length_pinned_ok _ c false _ hpos (Or.inr hok'), ← tb.ncols_eq_colsDT]
    refine ⟨⟨tb.rows, bs⟩, ?_⟩
    unfold TB.frameShiftPinned
    rw [h3, if_neg (by simp [hlen])]

/-- inside `ColShiftOk` (and for rolling) the repair changes nothing -/
theorem shiftPinned_agrees (resolve : DT → DT → DT) (conv : DT → DT → α → α)
    (tb : TB α) (hwf : tb.WF) (hr : 0 < tb.rows) (hc : 0 < tb.ncols)
    (r c : Int) (wrap : Bool) (fill : α) (fillDT : DT) (hok : wrap = true ∨ ColShiftOk tb.ncols c) :
    (tb.frameShiftPinned resolve conv r c wrap fill fillDT).map (fun x => (x.cols, x.dtypes)) =
    (tb.frameShift resolve conv r c wrap fill fillDT).map (fun x => (x.cols, x.dtypes)) := by
  obtain ⟨bsp, _, p1, _, p3⟩ := tb.frameShift_general resolve conv false hwf hr hc r c wrap fill fillDT
  obtain ⟨bsr, _, q1, _, q3⟩ := tb.frameShift_general resolve conv true hwf hr hc r c wrap fill fillDT
  have hpos : 0 < (colsDT tb.blocks).length := by rw [← tb.ncols_eq_colsDT]; exact hc
  have hok' : wrap = true ∨ ColShiftOk (colsDT tb.blocks).length c := by rw [← tb.ncols_eq_colsDT]; exact hok
  have hw : walkCols false (colsDT tb.blocks) c wrap (fillDT, List.replicate tb.rows (conv fillDT fillDT fill)) =
      walkCols true (colsDT tb.blocks) c wrap (fillDT, List.replicate tb.rows (conv fillDT fillDT fill)) := by
    cases wrap with
    | true => rw [walkCols_roll false _ c _ hpos, walkCols_roll true _ c _ hpos]
    | false =>
      rcases hok' with h | h
      · cases h
      · rw [walkCols_shift_pinned _ c _ hpos h, walkCols_shift _ c _ hpos]
  have hbs : colsDT bsp = colsDT bsr := by rw [p1, q1, hw]
  unfold TB.frameShiftPinned TB.frameShift
  rw [p3, q3, hbs]
  split
  · rfl
  · simp only [Except.map]
    rw [TB.cols_eq_colsDT, TB.cols_eq_colsDT, TB.dtypes_eq_colsDT, TB.dtypes_eq_colsDT]
    simp only [hbs]

/-- The refinement statement was FALSE for the pinned code: 3 columns, `Frame.shift(columns=4)` —
    the generator yielded blocks of widths 3 + 1 + 1 = 5 and the Frame constructor raised
    ErrorInitFrame, where the specification (and the repaired code) give the all-fill frame. -/
theorem shiftPinned_overshoot_counterexample :
    ¬ (∀ (tb : TB Nat) (c : Int), tb.WF → 0 < tb.rows → 0 < tb.ncols →
        ∃ res, tb.frameShiftPinned resEx convEx 0 c false 0 "i" = .ok res ∧
          res.dtypes.zip res.cols = shiftColsSpec resEx convEx tb.rows (tb.dtypes.zip tb.cols) 0 c false 0 "i") := by
  intro h
  obtain ⟨res, h1, _⟩ := h tbS 4 tbS_wf (by decide) (by decide)
  have : tbS.frameShiftPinned resEx convEx 0 4 false 0 "i" = .error .init := by decide
  rw [this] at h1; cases h1

/-- the counterexample in the open: widths 3 + 1 + 1 for `k = 4`, 1 + 2 + 3 for `k = -3` (= `-n`);
    next to it what the code yields today -/
theorem shiftPinned_overshoot_examples :
    (tbS.shiftBlocksPinned resEx convEx 0 4 false 0 "i").map (List.map Block.width) = .ok [3, 1, 1] ∧
    (tbS.shiftBlocksPinned resEx convEx 0 (-3) false 0 "i").map (List.map Block.width) = .ok [1, 2, 3] ∧
    tbS.frameShiftPinned resEx convEx 0 (-3) false 0 "i" = .error .init ∧
    (tbS.frameShiftPinned resEx convEx 0 6 false 0 "i").map TB.cols = .ok [[0, 0], [0, 0], [0, 0]] ∧
    ¬ ColShiftOk 3 4 ∧ ¬ ColShiftOk 3 (-3) ∧ ColShiftOk 3 6 ∧
    (tbS.shiftBlocks resEx convEx 0 4 false 0 "i").map (List.map Block.width) = .ok [3] ∧
    (tbS.shiftBlocks resEx convEx 0 (-3) false 0 "i").map (List.map Block.width) = .ok [3] ∧
    (tbS.frameShift resEx convEx 0 (-3) false 0 "i").map TB.cols = .ok [[0, 0], [0, 0], [0, 0]] := by decide

/-! ### `Series.roll` / `Series.shift` -/

/-- `Series.roll` on a non-empty Series is the roll, keeps the dtype, for every integer shift. -/
theorem series_roll_refines (resolve : DT → DT → DT) (conv : DT → DT → α → α)
    (t : DT) (vals : List α) (hne : 0 < vals.length) (s : Int) (fill : α) (fillDT : DT) :
    seriesRoll resolve conv t vals s fill fillDT = .ok (.d1 t (rollSpec vals s)) := by
  unfold seriesRoll
  rw [pyMod_pos s _ hne]
  simp only
  by_cases h0 : s % (vals.length : Int) = 0
  · rw [if_neg (by simp [h0]), rollSpec_of_emod_zero vals s h0]
  · rw [if_pos h0]
    have hrows : (Block.d1 t vals).RowsOk vals.length := by
      intro c hc; simp only [Block.colsOf, List.mem_singleton] at hc; rw [hc]
    rw [Block.arrayShift_rows_spec resolve conv _ vals.length hne hrows]
    simp [Block.shiftRowsSpec, shiftDT, laneSpec, Block.dt]

/-- `Series.shift` on a non-empty Series: shift 0 returns the values; otherwise the dtype is resolved
    with the fill's, the cells are converted and shifted, vacated cells hold the fill — for every
    integer shift, including `|shift| ≥ len`. -/
theorem series_shift_refines (resolve : DT → DT → DT) (conv : DT → DT → α → α)
    (t : DT) (vals : List α) (hne : 0 < vals.length) (s : Int) (fill : α) (fillDT : DT) :
    seriesShift resolve conv t vals s fill fillDT =
      .ok (if s = 0 then .d1 t vals else
        .d1 (resolve t fillDT) (shiftSpec (vals.map (conv t (resolve t fillDT))) s (conv fillDT (resolve t fillDT) fill))) := by
  unfold seriesShift
  by_cases h0 : s = 0
  · subst h0; simp
  · rw [if_pos h0, if_neg h0]
    have hrows : (Block.d1 t vals).RowsOk vals.length := by
      intro c hc; simp only [Block.colsOf, List.mem_singleton] at hc; rw [hc]
    rw [Block.arrayShift_rows_spec resolve conv _ vals.length hne hrows]
    simp [Block.shiftRowsSpec, shiftDT, laneSpec, Block.dt, h0]

example : seriesShift resEx convEx "i" [1, 2, 3] (-4) 0 "f" = .ok (.d1 "O" [0, 0, 0]) ∧
    seriesRoll resEx convEx "i" [1, 2, 3] (-4) 0 "f" = .ok (.d1 "i" [2, 3, 1]) := by decide

/-- BOUNDARY DEFECT: an empty Series cannot be rolled at all (`shift % len(self.values)`), and can be
    shifted by 0 only. -/
theorem series_roll_empty (resolve : DT → DT → DT) (conv : DT → DT → α → α)
    (t : DT) (s : Int) (fill : α) (fillDT : DT) :
    seriesRoll resolve conv t [] s fill fillDT = .error .other ∧
    seriesShift resolve conv t [] s fill fillDT = if s = 0 then .ok (.d1 t []) else .error .other := by
  constructor
  · simp [seriesRoll, pyMod]
  · unfold seriesShift
    by_cases h0 : s = 0
    · subst h0; simp
    · rw [if_pos h0, if_neg h0]
      simp only [Block.arrayShift, List.length_nil]
      rw [shiftMod_zero_size s h0]

example : seriesRoll resEx convEx "i" ([] : List Nat) 0 0 "f" = .error .other := by decide

end SF.C03
