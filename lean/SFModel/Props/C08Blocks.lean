/-
  C08 / C07 — assignment of a Frame value: `TypeBlocks._assign_from_iloc_by_blocks` with
  `container_util.get_block_match` (`extract_iloc_assign_by_blocks`, behind `Frame.assign[...](Frame)`,
  `assign.iloc` / `assign.loc` with a Frame value), model `TB.assignBlocks` / `TB.getBlockMatch`
  (BlocksAssignBlocks.lean).

  Supported keys.  `Frame.assign` makes the column key ascending (`key_to_ascending_key`) and reindexes
  the value Frame to the addressed labels before it calls the generator ("block assignment requires
  that column keys are ascending"), and it refuses an integer on either axis together with a Frame
  value.  `assign_blocks_exact` takes EVERY kind of column key (null slice, integer, slice, list,
  Boolean mask) whose positions are strictly ascending, EVERY row key (any order, repeats allowed:
  the last occurrence wins, as in NumPy) — an integer row key only when no addressed column lies in a
  1-D block (`IntRowOk`; `assign_blocks_int_row_1d_counterexample`) —, EVERY well-formed layout of the
  target and EVERY layout of the value blocks (1-D, 2-D of width 1, wide 2-D blocks that are split
  between targets) that hold at least as many columns as are addressed, with as many rows as are
  addressed.  For a column key that is not ascending the statement is false for the mirrored generator
  (the `…_counterexample` theorems below, replayed on the real generator).

  The `if t_start != 0` test of the generator (instead of `t_start > assigned_stop`) is harmless for
  ascending keys: two targets of one block are never adjacent, so `t_start != 0` there means
  `t_start > assigned_stop`, and a target at column 0 is the first of its block.  It is what makes an
  unordered key duplicate columns (`assign_blocks_unordered_in_block_counterexample`).

  The original is untouched by construction: `TB.assignBlocks` is a pure function (on the real code
  the property module compares a snapshot of the target and of the value blocks before and after).
-/
import SFModel.BlocksAssignBlocksLemmas

namespace SF.C08
open SF SF.TB

variable {α : Type}

/-- dtype resolution used in the examples: equal dtypes resolve to themselves, others to object -/
def resExB (a b : DT) : DT := if a = b then a else "O"

/-- a 1-D block and a 2-D block of width 3 (columns 1..3) -/
def tbExB : TB Nat := ⟨2, [.d1 "i" [1, 2], .d2 "f" [[3, 4], [5, 6], [7, 8]]]⟩

theorem tbExB_wf : tbExB.WF := by
  simp [tbExB, TB.WF, Block.RowsOk, Block.colsOf, Block.width]

/-! ### `get_block_match` -/

/-- `get_block_match(width, values_source)` on a stack that holds enough columns and no array without
    columns: it succeeds, hands out exactly the first `width` value columns with their dtypes
    (`colsDT`: the `(dtype, column)` list of a list of blocks), leaves exactly the others — whatever the
    layout of the blocks — and the dtypes of the arrays it yields are those of the value blocks that
    hold these columns, one per block (`pieceDts`). -/
theorem block_match_exact (src : List (Block α)) (width : Nat) (hw : 0 < width)
    (hpos : ∀ v ∈ src, 0 < v.width) (hle : width ≤ (colsDT src).length) :
    ∃ pieces src', getBlockMatch (width : Int) src = .ok (pieces, src') ∧
      colsDT pieces = (colsDT src).take width ∧ colsDT src' = (colsDT src).drop width ∧
      pieces.map Block.dt = pieceDts src 0 width ∧ (∀ v ∈ src', 0 < v.width) := by
  obtain ⟨pieces, src', h, hok⟩ := getBlockMatch_spec src width hw hpos hle
  exact ⟨pieces, src', h, hok.taken, hok.left, hok.dts, hok.posLeft⟩

/-- non-vacuity: a wide 2-D array is split, its rest pushed back; `width == 1` yields a 1-D array -/
example : getBlockMatch 2 [Block.d1 "a" [1], .d2 "b" [[2], [3], [4]], .d1 "c" [5]]
      = .ok ([.d1 "a" [1], .d2 "b" [[2]]], [.d2 "b" [[3], [4]], .d1 "c" [5]]) ∧
    getBlockMatch 1 [Block.d2 "b" [[2], [3], [4]], .d1 "c" [5]]
      = .ok ([.d1 "b" [2]], [.d2 "b" [[3], [4]], .d1 "c" [5]]) ∧
    getBlockMatch (α := Nat) 1 [] = .error .lookup ∧
    getBlockMatch 3 [Block.d1 "a" [1], .d1 "c" [5]] = .error .lookup := by decide

/-! ### the assignment -/

/-- Assignment of value blocks changes only what it addresses, and the value is taken column by
    column whatever the block layouts.  For a well-formed `tb` with at least one block, any row key
    (`IntRowOk` for an integer), a column key with strictly ascending positions `cps`, value blocks
    without empty arrays that hold at least `cps.length` columns of `rps.length` rows:
    the generator succeeds, the result is well formed, row and column count are kept, and the
    `(dtype, column)` list of the result IS the specification `assignBlocksSpec`:
    * a column that is not addressed keeps cells and dtype (`assign_blocks_untouched`),
    * the column addressed as the `m`-th holds, in the addressed rows (all rows for a null row key),
      the cells of the `m`-th value column — value columns = the columns of the value blocks in
      order — and its other cells unchanged (`assign_blocks_cells`),
    * its dtype is the `m`-th value column's for a null row key (the value arrays are yielded as they
      are); otherwise ONE dtype per target — a target is a maximal run of addressed columns inside one
      block (`runLens`) —: `resolve_dtype_iter` over the dtypes of the value blocks that hold the
      value columns of the run, one entry per block, left to right, and then the dtype of the
      target block (`targetDtype … (pieceDts values k n) block_dtype`). -/
theorem assign_blocks_exact (tb : TB α) (h : tb.WF) (hne : tb.blocks ≠ []) (rk ck : Key) (rps cps : List Nat)
    (values : List (Block α)) (resolve : DT → DT → DT)
    (hrk : rk.positions tb.rows = .ok rps) (hck : ck.positions tb.ncols = .ok cps)
    (hasc : cps.Pairwise (· < ·))
    (hpos : ∀ v ∈ values, 0 < v.width) (hwidth : cps.length ≤ (values.map Block.width).sum)
    (hrows : ∀ v ∈ values, v.RowsOk rps.length) (hint : IntRowOk tb rk cps) :
    ∃ r, tb.assignBlocks rk ck values resolve = .ok r ∧ r.WF ∧ r.rows = tb.rows ∧ r.ncols = tb.ncols ∧
      r.dtypes.zip r.cols = assignBlocksSpec resolve (rowIsNull rk) rps cps (pick tb.index cps) values
        (tb.dtypes.zip tb.cols) := by
  obtain ⟨r, hr, hwf, hrow, hspec⟩ := tb.assignBlocks_refines h hne rk ck rps cps values resolve hrk hck hasc
    hpos (by rw [colsDT_length]; exact hwidth) hrows hint
  refine ⟨r, hr, hwf, hrow, ?_, ?_⟩
  · have := congrArg List.length hspec
    rw [assignBlocksSpec_length, colsDT_length, colsDT_length] at this
    exact this
  · rw [← r.colsDT_eq_zip, ← tb.colsDT_eq_zip]; exact hspec

/-- non-vacuity: a 2-D value block of three columns feeds three targets (the 1-D block, the first
    column of the 2-D block, its last column); rows `[1, 0]` are written in key order; the middle
    column of the block keeps cells and dtype -/
example : tbExB.WF ∧ tbExB.blocks ≠ [] ∧ (Key.list [1, 0]).positions tbExB.rows = .ok [1, 0] ∧
    (Key.mask [true, true, false, true]).positions tbExB.ncols = .ok [0, 1, 3] ∧
    [0, 1, 3].Pairwise (· < ·) ∧ IntRowOk tbExB (.list [1, 0]) [0, 1, 3] ∧
    tbExB.assignBlocks (.list [1, 0]) (.mask [true, true, false, true]) [.d2 "i" [[10, 11], [20, 21], [30, 31]]] resExB
      = .ok ⟨2, [.d1 "i" [11, 10], .d2 "O" [[21, 20]], .d2 "f" [[5, 6]], .d2 "O" [[31, 30]]]⟩ ∧
    assignBlocksSpec resExB false [1, 0] [0, 1, 3] (pick tbExB.index [0, 1, 3])
        [.d2 "i" [[10, 11], [20, 21], [30, 31]]] (tbExB.dtypes.zip tbExB.cols)
      = [("i", [11, 10]), ("O", [21, 20]), ("f", [5, 6]), ("O", [31, 30])] := by
  refine ⟨tbExB_wf, by decide, by decide, by decide, by decide, ?_, by decide, by decide⟩
  intro hm; simp [Key.isMulti] at hm

/-- the theorem instantiated there -/
example : ∃ r, tbExB.assignBlocks (.list [1, 0]) (.mask [true, true, false, true])
      [.d2 "i" [[10, 11], [20, 21], [30, 31]]] resExB = .ok r ∧
    r.dtypes.zip r.cols = [("i", [11, 10]), ("O", [21, 20]), ("f", [5, 6]), ("O", [31, 30])] := by
  obtain ⟨r, h1, _, _, _, h5⟩ := assign_blocks_exact tbExB tbExB_wf (by decide) (.list [1, 0])
    (.mask [true, true, false, true]) [1, 0] [0, 1, 3] [.d2 "i" [[10, 11], [20, 21], [30, 31]]] resExB
    (by decide) (by decide) (by decide) (by decide) (by decide) (by simp [Block.RowsOk, Block.colsOf])
    (by intro hm; simp [Key.isMulti] at hm)
  exact ⟨r, h1, by rw [h5]; decide⟩

/-- the dtype is resolved per TARGET over all value blocks matched to it (the site of the seeded
    change m12): columns 1 and 2 form ONE target (a slice inside the 2-D block); the value arrives as
    an "f" block and an "i" block; BOTH columns get `resolve (resolve "f" "i") "f" = "O"` — also
    column 1, whose own value block has the dtype of the target block.  Addressed as two targets
    (mask: columns 1 and 3) column 1 keeps "f". -/
example :
    tbExB.assignBlocks (.list [1]) (.slice ⟨some 1, some 3, none⟩) [.d1 "f" [10], .d1 "i" [20]] resExB
      = .ok ⟨2, [.d1 "i" [1, 2], .d2 "O" [[3, 10], [5, 20]], .d2 "f" [[7, 8]]]⟩ ∧
    tbExB.assignBlocks (.list [1]) (.mask [false, true, false, true]) [.d1 "f" [10], .d1 "i" [20]] resExB
      = .ok ⟨2, [.d1 "i" [1, 2], .d2 "f" [[3, 10]], .d2 "f" [[5, 6]], .d2 "O" [[7, 20]]]⟩ ∧
    -- null row key: the value arrays are yielded as they are
    tbExB.assignBlocks .all (.slice ⟨some 1, some 3, none⟩) [.d1 "f" [10, 11], .d1 "i" [20, 21]] resExB
      = .ok ⟨2, [.d1 "i" [1, 2], .d1 "f" [10, 11], .d1 "i" [20, 21], .d2 "f" [[7, 8]]]⟩ := by decide

/-- Unaddressed columns keep their cells and their exact dtype — also inside a 2-D block that is
    split around the targets. -/
theorem assign_blocks_untouched (tb : TB α) (h : tb.WF) (hne : tb.blocks ≠ []) (rk ck : Key) (rps cps : List Nat)
    (values : List (Block α)) (resolve : DT → DT → DT)
    (hrk : rk.positions tb.rows = .ok rps) (hck : ck.positions tb.ncols = .ok cps)
    (hasc : cps.Pairwise (· < ·))
    (hpos : ∀ v ∈ values, 0 < v.width) (hwidth : cps.length ≤ (values.map Block.width).sum)
    (hrows : ∀ v ∈ values, v.RowsOk rps.length) (hint : IntRowOk tb rk cps) :
    ∃ r, tb.assignBlocks rk ck values resolve = .ok r ∧
      ∀ j, j ∉ cps → r.cols[j]? = tb.cols[j]? ∧ r.dtypes[j]? = tb.dtypes[j]? := by
  obtain ⟨r, hr, _, _, _, hspec⟩ := assign_blocks_exact tb h hne rk ck rps cps values resolve hrk hck hasc
    hpos hwidth hrows hint
  refine ⟨r, hr, ?_⟩
  intro j hj
  have hz := assignBlocksSpec_not_mem resolve (rowIsNull rk) rps cps (pick tb.index cps) values
    (tb.dtypes.zip tb.cols) j hj
  rw [← hspec] at hz
  have hl1 : r.dtypes.length = r.cols.length := by rw [dtypes_length, cols_length]
  have hl2 : tb.dtypes.length = tb.cols.length := by rw [dtypes_length, cols_length]
  have e1 := congrArg (Option.map Prod.snd) hz
  have e2 := congrArg (Option.map Prod.fst) hz
  rw [← List.getElem?_map, ← List.getElem?_map] at e1 e2
  rw [List.map_snd_zip (by omega), List.map_snd_zip (by omega)] at e1
  rw [List.map_fst_zip (by omega), List.map_fst_zip (by omega)] at e2
  exact ⟨e1, e2⟩

example : ∃ r, tbExB.assignBlocks (.list [1, 0]) (.mask [true, true, false, true])
      [.d2 "i" [[10, 11], [20, 21], [30, 31]]] resExB = .ok r ∧
    r.cols[2]? = some [5, 6] ∧ r.dtypes[2]? = some "f" := by
  obtain ⟨r, h1, h2⟩ := assign_blocks_untouched tbExB tbExB_wf (by decide) (.list [1, 0])
    (.mask [true, true, false, true]) [1, 0] [0, 1, 3] [.d2 "i" [[10, 11], [20, 21], [30, 31]]] resExB
    (by decide) (by decide) (by decide) (by decide) (by decide) (by simp [Block.RowsOk, Block.colsOf])
    (by intro hm; simp [Key.isMulti] at hm)
  obtain ⟨h3, h4⟩ := h2 2 (by decide)
  exact ⟨r, h1, by rw [h3]; decide, by rw [h4]; decide⟩

/-- The layout of the target and the layout of the value blocks are unobservable in the cells: two
    targets with the same columns and two lists of value blocks with the same columns give results
    with the same columns (the dtypes of addressed columns do depend on the layouts: one dtype per
    target, see `assign_blocks_exact`). -/
theorem assign_blocks_layout_unobservable (tb₁ tb₂ : TB α) (h₁ : tb₁.WF) (h₂ : tb₂.WF)
    (hne₁ : tb₁.blocks ≠ []) (hne₂ : tb₂.blocks ≠ []) (hrowsEq : tb₁.rows = tb₂.rows)
    (hcolsEq : tb₁.cols = tb₂.cols) (rk ck : Key) (rps cps : List Nat)
    (values₁ values₂ : List (Block α)) (resolve : DT → DT → DT)
    (hvalsEq : values₁.flatMap Block.colsOf = values₂.flatMap Block.colsOf)
    (hrk : rk.positions tb₁.rows = .ok rps) (hck : ck.positions tb₁.ncols = .ok cps)
    (hasc : cps.Pairwise (· < ·))
    (hpos₁ : ∀ v ∈ values₁, 0 < v.width) (hpos₂ : ∀ v ∈ values₂, 0 < v.width)
    (hwidth : cps.length ≤ (values₁.map Block.width).sum)
    (hrows₁ : ∀ v ∈ values₁, v.RowsOk rps.length) (hrows₂ : ∀ v ∈ values₂, v.RowsOk rps.length)
    (hint₁ : IntRowOk tb₁ rk cps) (hint₂ : IntRowOk tb₂ rk cps) :
    ∃ r₁ r₂, tb₁.assignBlocks rk ck values₁ resolve = .ok r₁ ∧ tb₂.assignBlocks rk ck values₂ resolve = .ok r₂ ∧
      r₁.cols = r₂.cols ∧ r₁.rows = r₂.rows := by
  have hnc : tb₁.ncols = tb₂.ncols := by rw [← cols_length, ← cols_length, hcolsEq]
  have hw2 : cps.length ≤ (values₂.map Block.width).sum := by
    have e1 := flatMap_length_eq_sum values₁ Block.colsOf
    have e2 := flatMap_length_eq_sum values₂ Block.colsOf
    have e3 : (values₁.map (fun v => v.colsOf.length)) = values₁.map Block.width := by
      apply List.map_congr_left; intro v _; exact Block.colsOf_length v
    have e4 : (values₂.map (fun v => v.colsOf.length)) = values₂.map Block.width := by
      apply List.map_congr_left; intro v _; exact Block.colsOf_length v
    rw [e3] at e1; rw [e4] at e2
    rw [← e2, ← hvalsEq, e1]; exact hwidth
  obtain ⟨r₁, hr₁, _, hrow₁, _, hspec₁⟩ := assign_blocks_exact tb₁ h₁ hne₁ rk ck rps cps values₁ resolve hrk hck
    hasc hpos₁ hwidth hrows₁ hint₁
  obtain ⟨r₂, hr₂, _, hrow₂, _, hspec₂⟩ := assign_blocks_exact tb₂ h₂ hne₂ rk ck rps cps values₂ resolve
    (by rw [← hrowsEq]; exact hrk) (by rw [← hnc]; exact hck) hasc hpos₂ hw2 hrows₂ hint₂
  refine ⟨r₁, r₂, hr₁, hr₂, ?_, by rw [hrow₁, hrow₂, hrowsEq]⟩
  have hl : ∀ t : TB α, t.dtypes.length = t.cols.length := fun t => by rw [dtypes_length, cols_length]
  have e₁ := congrArg (List.map Prod.snd) hspec₁
  have e₂ := congrArg (List.map Prod.snd) hspec₂
  have hl' : ∀ t : TB α, t.cols.length ≤ t.dtypes.length := fun t => Nat.le_of_eq (hl t).symm
  rw [assignBlocksSpec_snd, List.map_snd_zip (hl' _), List.map_snd_zip (hl' _)] at e₁ e₂
  rw [e₁, e₂, hcolsEq, hvalsEq]

/-- non-vacuity: the same columns as `tbExB` in another layout, the same value columns in another
    layout: the same cells -/
example :
    (tbExB.assignBlocks (.list [1, 0]) (.mask [true, true, false, true]) [.d2 "i" [[10, 11], [20, 21], [30, 31]]] resExB).map TB.cols
      = .ok [[11, 10], [21, 20], [5, 6], [31, 30]] ∧
    ((⟨2, [.d2 "i" [[1, 2]], .d2 "f" [[3, 4], [5, 6]], .d1 "f" [7, 8]]⟩ : TB Nat).assignBlocks (.list [1, 0])
        (.mask [true, true, false, true]) [.d1 "i" [10, 11], .d2 "f" [[20, 21]], .d1 "i" [30, 31]] resExB).map TB.cols
      = .ok [[11, 10], [21, 20], [5, 6], [31, 30]] := by decide

/-- The cells of the addressed columns: the column addressed as the `kc`-th holds in the row addressed
    as the `kr`-th (the last occurrence of a repeated row position) the `kr`-th cell of the `kc`-th
    value column; every other cell of the target keeps its value; with a null row key the addressed
    column takes the dtype of its value column. -/
theorem assign_blocks_cells (tb : TB α) (h : tb.WF) (hne : tb.blocks ≠ []) (rk ck : Key) (rps cps : List Nat)
    (values : List (Block α)) (resolve : DT → DT → DT)
    (hrk : rk.positions tb.rows = .ok rps) (hck : ck.positions tb.ncols = .ok cps)
    (hasc : cps.Pairwise (· < ·))
    (hpos : ∀ v ∈ values, 0 < v.width) (hwidth : cps.length ≤ (values.map Block.width).sum)
    (hrows : ∀ v ∈ values, v.RowsOk rps.length) (hint : IntRowOk tb rk cps) :
    ∃ r, tb.assignBlocks rk ck values resolve = .ok r ∧
      (∀ j i : Nat, j ∉ cps ∨ i ∉ rps → r.cols[j]?.bind (·[i]?) = tb.cols[j]?.bind (·[i]?)) ∧
      (∀ kc kr (hc : kc < cps.length) (hr : kr < rps.length),
         (∀ k', kr < k' → (h' : k' < rps.length) → rps[k'] ≠ rps[kr]) →
         r.cols[cps[kc]]?.bind (·[rps[kr]]?) = (values.flatMap Block.colsOf)[kc]?.bind (·[kr]?)) := by
  obtain ⟨r, hr, _, _, _, hspec⟩ := assign_blocks_exact tb h hne rk ck rps cps values resolve hrk hck hasc
    hpos hwidth hrows hint
  have hcpslt := C04.key_positions_in_range hck
  have hrpslt := C04.key_positions_in_range hrk
  have hnd : cps.Nodup := hasc.imp (fun h => Nat.ne_of_lt h)
  have hl : ∀ t : TB α, t.dtypes.length = t.cols.length := fun t => by rw [dtypes_length, cols_length]
  have e := congrArg (List.map Prod.snd) hspec
  have hl' : ∀ t : TB α, t.cols.length ≤ t.dtypes.length := fun t => Nat.le_of_eq (hl t).symm
  rw [assignBlocksSpec_snd, List.map_snd_zip (hl' _), List.map_snd_zip (hl' _)] at e
  have hvlen : (values.flatMap Block.colsOf).length = (values.map Block.width).sum := by
    rw [flatMap_length_eq_sum]
    congr 1
    apply List.map_congr_left; intro v _; exact Block.colsOf_length v
  have hvrow : ∀ c ∈ values.flatMap Block.colsOf, c.length = rps.length := by
    intro c hc
    rw [List.mem_flatMap] at hc
    obtain ⟨v, hv, hcv⟩ := hc
    exact hrows v hv c hcv
  have hcollen : ∀ c ∈ tb.cols, c.length = tb.rows := by
    intro c hc
    simp only [TB.cols, List.mem_flatMap] at hc
    obtain ⟨b, hb, hcb⟩ := hc
    exact h.2 b hb c hcb
  refine ⟨r, hr, ?_, ?_⟩
  · intro j i hji
    rw [e, List.getElem?_mapIdx]
    cases hx : tb.cols[j]? with
    | none => rfl
    | some c =>
      simp only [Option.map_some, Option.bind_some]
      by_cases hj : j ∈ cps
      · rw [if_pos hj]
        rcases hji with hji | hji
        · exact absurd hj hji
        · cases (values.flatMap Block.colsOf)[cps.idxOf j]? with
          | none => rfl
          | some vc => exact writeCol_get_not_mem _ _ _ _ hji
      · rw [if_neg hj]
  · intro kc kr hc hrr hlast
    have hjm : cps[kc] ∈ cps := List.getElem_mem hc
    have hjl : cps[kc] < tb.cols.length := by rw [cols_length]; exact hcpslt _ hjm
    have hkv : kc < (values.flatMap Block.colsOf).length := by omega
    rw [e, List.getElem?_mapIdx, List.getElem?_eq_getElem hjl]
    simp only [Option.map_some, Option.bind_some, if_pos hjm]
    rw [hnd.idxOf_getElem kc hc, List.getElem?_eq_getElem hkv]
    simp only [Option.bind_some]
    have hvl := hvrow _ (List.getElem_mem hkv)
    have hcl := hcollen _ (List.getElem_mem hjl)
    exact writeCol_get_last _ rps _ kr hrr hvl (by intro q hq; rw [hcl]; exact hrpslt q hq) hlast

example : ∃ r, tbExB.assignBlocks (.list [1, 0]) (.mask [true, true, false, true])
      [.d2 "i" [[10, 11], [20, 21], [30, 31]]] resExB = .ok r ∧
    r.cols[3]?.bind (·[1]?) = some 30 ∧ r.cols[2]?.bind (·[0]?) = some 5 := by
  obtain ⟨r, h1, h2, h3⟩ := assign_blocks_cells tbExB tbExB_wf (by decide) (.list [1, 0])
    (.mask [true, true, false, true]) [1, 0] [0, 1, 3] [.d2 "i" [[10, 11], [20, 21], [30, 31]]] resExB
    (by decide) (by decide) (by decide) (by decide) (by decide) (by simp [Block.RowsOk, Block.colsOf])
    (by intro hm; simp [Key.isMulti] at hm)
  refine ⟨r, h1, ?_, ?_⟩
  · have := h3 2 0 (by decide) (by decide) (by
      intro k' hk h'
      have : k' = 1 := by simp at h'; omega
      subst this; simp)
    exact this.trans (by decide)
  · rw [h2 2 0 (Or.inl (by decide))]; decide

/-! ### what the hypotheses exclude (counterexamples of the mirrored generator, replayed on the real one) -/

/-- why `assign_blocks_exact` asks for a block: without one the loop body never runs and `from_blocks`
    has nothing to derive a row count from (ErrorInitTypeBlocks on the real code) -/
theorem assign_blocks_no_blocks (rows : Nat) (rk ck : Key) (values : List (Block α)) (resolve : DT → DT → DT) :
    (⟨rows, []⟩ : TB α).assignBlocks rk ck values resolve = .error .init := rfl

/-- Unordered key across blocks: for the key `[2, 0]` on three 1-D blocks the first value column is
    stored in column 2 and the target of column 0 is NEVER reached again (the walk has passed block 0):
    column 0, though addressed, keeps its cells, silently; the second value block is left on the stack.
    With the sorted key `[0, 2]` the first value column lands in column 0. -/
theorem assign_blocks_unordered_key_counterexample :
    (Key.list [2, 0]).positions (⟨2, [.d1 "a" [1, 2], .d1 "b" [3, 4], .d1 "c" [5, 6]]⟩ : TB Nat).ncols = .ok [2, 0] ∧
    ((⟨2, [.d1 "a" [1, 2], .d1 "b" [3, 4], .d1 "c" [5, 6]]⟩ : TB Nat).assignBlocks .all (.list [2, 0])
        [.d1 "a" [10, 11], .d1 "a" [20, 21]] resExB).map TB.cols = .ok [[1, 2], [3, 4], [10, 11]] ∧
    ((⟨2, [.d1 "a" [1, 2], .d1 "b" [3, 4], .d1 "c" [5, 6]]⟩ : TB Nat).assignBlocks .all (.list [0, 2])
        [.d1 "a" [10, 11], .d1 "a" [20, 21]] resExB).map TB.cols = .ok [[10, 11], [3, 4], [20, 21]] := by
  decide

/-- Unordered key inside ONE 2-D block — a target that starts at column 0 AFTER a later target of the
    same block: for `[2, 0]` on a block of width 3 the generator yields `b[:, 0:2]`, the first value
    column, then — `t_start == 0`, so no columns before the target — the second value column, and
    after the loop `b[:, assigned_stop:] = b[:, 1:]`: SIX columns instead of three, the original
    columns 1 and 2 twice.  (The shape of the result is not the shape of the target: `Frame` refuses
    such a TypeBlocks; `Frame.assign` sorts the key first.) -/
theorem assign_blocks_unordered_in_block_counterexample :
    (⟨2, [.d2 "a" [[1, 2], [3, 4], [5, 6]]]⟩ : TB Nat).assignBlocks .all (.list [2, 0])
        [.d1 "a" [10, 11], .d1 "a" [20, 21]] resExB
      = .ok ⟨2, [.d2 "a" [[1, 2], [3, 4]], .d1 "a" [10, 11], .d1 "a" [20, 21], .d2 "a" [[3, 4], [5, 6]]]⟩ := by
  decide

/-- A repeated column `[1, 1]`: two targets `(block 0, 1:2)`; the second yields the EMPTY
    `b[:, 2:1]` (`t_start != 0` holds) and a second value column: four columns instead of three. -/
theorem assign_blocks_repeated_key_counterexample :
    (Key.list [1, 1]).positions (⟨2, [.d2 "a" [[1, 2], [3, 4], [5, 6]]]⟩ : TB Nat).ncols = .ok [1, 1] ∧
    (⟨2, [.d2 "a" [[1, 2], [3, 4], [5, 6]]]⟩ : TB Nat).assignBlocks .all (.list [1, 1])
        [.d1 "a" [10, 11], .d1 "a" [20, 21]] resExB
      = .ok ⟨2, [.d2 "a" [[1, 2]], .d1 "a" [10, 11], .d1 "a" [20, 21], .d2 "a" [[5, 6]]]⟩ := by
  decide

/-- A descending slice `2:0:-1` (columns 2, 1) arrives as ONE target `slice(2, 0, -1)` whose step the
    generator never reads: `t_width = 0 - 2`; with a null row key nothing is drawn from the values and
    the whole block follows `b[:, 0:2]` (five columns); with a row key `concat_resolved(())` raises
    inside the generator (RuntimeError); down to column 0 (`2::-1`, no stop) `t_stop - t_start` is a
    TypeError. -/
theorem assign_blocks_descending_slice_counterexample :
    (⟨2, [.d2 "a" [[1, 2], [3, 4], [5, 6]]]⟩ : TB Nat).keyToBlockSlices (.slice ⟨some 2, some 0, some (-1)⟩) true
      = .ok [(0, .sl ⟨some 2, some 0, some (-1)⟩)] ∧
    (⟨2, [.d2 "a" [[1, 2], [3, 4], [5, 6]]]⟩ : TB Nat).assignBlocks .all (.slice ⟨some 2, some 0, some (-1)⟩)
        [.d1 "a" [10, 11], .d1 "a" [20, 21]] resExB
      = .ok ⟨2, [.d2 "a" [[1, 2], [3, 4]], .d2 "a" [[1, 2], [3, 4], [5, 6]]]⟩ ∧
    (⟨2, [.d2 "a" [[1, 2], [3, 4], [5, 6]]]⟩ : TB Nat).assignBlocks (.list [0]) (.slice ⟨some 2, some 0, some (-1)⟩)
        [.d2 "a" [[10], [20]]] resExB = .error .shape ∧
    (⟨2, [.d2 "a" [[1, 2], [3, 4], [5, 6]]]⟩ : TB Nat).assignBlocks .all (.slice ⟨some 2, none, some (-1)⟩)
        [.d1 "a" [10, 11], .d1 "a" [20, 21]] resExB = .error .value := by
  decide

/-- An integer row key on a 1-D block: NumPy refuses the 1-D value in a scalar slot (ValueError); the
    same column stored as a 2-D block of width 1 takes it — the block layout is observable here
    (`IntRowOk` excludes it; `Frame.assign` refuses an integer key together with a Frame value). -/
theorem assign_blocks_int_row_1d_counterexample :
    ¬ IntRowOk (⟨2, [.d1 "a" [1, 2], .d2 "f" [[3, 4]]]⟩ : TB Nat) (.int 1) [0] ∧
    (⟨2, [.d1 "a" [1, 2], .d2 "f" [[3, 4]]]⟩ : TB Nat).assignBlocks (.int 1) (.int 0) [.d1 "a" [9]] resExB
      = .error .value ∧
    IntRowOk (⟨2, [.d2 "a" [[1, 2]], .d2 "f" [[3, 4]]]⟩ : TB Nat) (.int 1) [0] ∧
    (⟨2, [.d2 "a" [[1, 2]], .d2 "f" [[3, 4]]]⟩ : TB Nat).assignBlocks (.int 1) (.int 0) [.d1 "a" [9]] resExB
      = .ok ⟨2, [.d2 "a" [[1, 9]], .d2 "f" [[3, 4]]]⟩ := by
  refine ⟨?_, by decide, ?_, by decide⟩
  · intro h
    have := h rfl 0 (by decide) (0, 0) (by decide) (.d1 "a" [1, 2]) (by decide)
    simp [Block.is1d] at this
  · intro _ j hj p hp b hb
    simp only [List.mem_singleton] at hj
    subst hj
    have hp' : p = (0, 0) := by
      have : (⟨2, [.d2 "a" [[1, 2]], .d2 "f" [[3, 4]]]⟩ : TB Nat).index[0]? = some (0, 0) := by decide
      rw [this] at hp; exact (Option.some.inj hp).symm
    subst hp'
    have hb' : b = .d2 "a" [[1, 2]] := by
      have : (⟨2, [.d2 "a" [[1, 2]], .d2 "f" [[3, 4]]]⟩ : TB Nat).blocks[(0, 0).1]? = some (.d2 "a" [[1, 2]]) := by decide
      rw [this] at hb; exact (Option.some.inj hb).symm
    subst hb'
    rfl

end SF.C08
