/-
  C03 / C06 — binary operators on TypeBlocks: which array meets which.

  `TB.binop` (BlocksBinop.lean) mirrors `TypeBlocks._ufunc_binary_operator` with its helpers
  (`block_compatible`, `reblock_compatible`, `_reblock_signature`, `_reblock`, `values`,
  `_block_shape_slices`, `apply_binary_operator_blocks(_columnar)`, `from_blocks`).  The theorems say, for
  EVERY pair of well-formed block layouts and every branch of the decision tree:

    * array operand (scalar / 1-D along either axis / 2-D): cells and per-column dtypes of the result are
      the layout-free `TB.specArr` of the columns, dtypes and row count alone (`binop_refines_array`,
      `layout_unobservable_binop_array`);
    * TypeBlocks operand: the exact result of each route (`binop_refines_tb_exact`).  On the routes
      `block_compatible` / `reblock_compatible` cells and dtypes are column (op) column.  On the `.values`
      route both operands are first converted to their ROW dtype: the result dtype is resolved from the
      two row dtypes (`binop_result_dtype_layout_dependent`: layout dependent even when the conversion
      keeps every cell) and the cells are those of the converted operands
      (`binop_refines_tb_counterexample`, `layout_unobservable_binop_counterexample`: 2^53+1 stored into
      a float64 array).  Under the hypothesis that the conversion keeps every cell the cells are
      column (op) column on every route (`binop_refines_tb_partial`, `layout_unobservable_binop_partial`);
    * the result is well formed with the operands' shape, and the only errors are NotImplementedError
      (shapes differ / array not alignable) and ErrorInitTypeBlocks (no column) (`binop_result_wf`,
      `binop_error_iff`); `zip_longest` never pads (`operands_never_padded`).
-/
import SFModel.BlocksBinopLemmas
import SFModel.SetOps
import SFModel.Props.C03

namespace SF.C03
open SF SF.TB SF.Binop

variable {α : Type}

/-! ### small concrete operands for the non-vacuity examples and the counterexamples -/

/-- `np.result_type`-like table for the examples: same → itself, int64 with float64 → float64, else object -/
def opDTEx (a b : DT) : DT :=
  if a = b then a else if (a = "i8" ∧ b = "f8") ∨ (a = "f8" ∧ b = "i8") then "f8" else objectDT

/-- int64 | float64 as two 1-D blocks (row dtype float64) -/
def aEx : TB Int := ⟨2, [.d1 "i8" [1, 2], .d1 "f8" [3, 4]]⟩
/-- two int64 columns as two 1-D blocks -/
def bEx : TB Int := ⟨2, [.d1 "i8" [10, 20], .d1 "i8" [30, 40]]⟩
/-- the same two int64 columns as one 2-D block -/
def bEx' : TB Int := ⟨2, [.d2 "i8" [[10, 20], [30, 40]]]⟩
/-- int64 | int64 | float64 -/
def cEx : TB Int := ⟨2, [.d1 "i8" [1, 2], .d1 "i8" [3, 4], .d2 "f8" [[5, 6]]]⟩
/-- the same columns with the int64 run consolidated -/
def cEx' : TB Int := ⟨2, [.d2 "i8" [[1, 2], [3, 4]], .d1 "f8" [5, 6]]⟩

theorem aEx_wf : aEx.WF := by simp [aEx, TB.WF, Block.RowsOk, Block.colsOf, Block.width]
theorem bEx_wf : bEx.WF := by simp [bEx, TB.WF, Block.RowsOk, Block.colsOf, Block.width]
theorem bEx'_wf : bEx'.WF := by simp [bEx', TB.WF, Block.RowsOk, Block.colsOf, Block.width]
theorem cEx_wf : cEx.WF := by simp [cEx, TB.WF, Block.RowsOk, Block.colsOf, Block.width]
theorem cEx'_wf : cEx'.WF := by simp [cEx', TB.WF, Block.RowsOk, Block.colsOf, Block.width]

/-- the identity conversion (what NumPy does to small integers) -/
def castId (_ _ : DT) (x : Int) : Int := x

/-- a conversion that rounds 2^53+1 when it is stored into a float64 array, as NumPy does -/
def castF8 (_ to : DT) (x : Int) : Int :=
  if to = "f8" ∧ x = 9007199254740993 then 9007199254740992 else x

/-! ### the helpers of the decision tree -/

/-- `_reblock_signature` anticipates `_reblock`: it yields the dtype and the width of exactly the blocks
    the consolidation will yield, in order (so comparing signatures compares the re-blocked layouts). -/
theorem reblock_signature_spec (tb : TB α) (h : tb.WF) :
    tb.reblockSignature = tb.reblock.map fun b => (some b.dt, b.width) :=
  TB.reblockSignature_eq tb h

example : cEx.reblockSignature = [(some "i8", 2), (some "f8", 1)] ∧
    cEx.reblock = [.d2 "i8" [[1, 2], [3, 4]], .d2 "f8" [[5, 6]]] := by decide

/-- The generator `consolidate_blocks` (state `group_dtype` / `group`) computes the recursive
    `TB.consolidate` of Blocks.lean, for every block list. -/
theorem reblock_eq_consolidate (tb : TB α) : tb.reblock = TB.consolidate tb.blocks :=
  TB.consolidateBlocks_eq_consolidate tb.blocks

example : cEx.reblock = TB.consolidate cEx.blocks := by decide

/-- Re-blocking changes the layout only: same columns, same per-column dtypes, stored blocks with the
    same row count. -/
theorem reblock_cols (tb : TB α) (h : tb.WF) :
    (⟨tb.rows, tb.reblock⟩ : TB α).cols = tb.cols ∧ (⟨tb.rows, tb.reblock⟩ : TB α).dtypes = tb.dtypes ∧
    (⟨tb.rows, tb.reblock⟩ : TB α).WF :=
  ⟨(TB.reblock_res tb h).cols, (TB.reblock_res tb h).dts, (TB.reblock_res tb h).wf⟩

example : cEx.WF := cEx_wf

/-- `_block_shape_slices` cuts `[0, ncols)` into consecutive pieces, one per block and of the block's
    width: chopping a list of `ncols` entries by them and gluing the pieces gives the list back. -/
theorem block_shape_slices_cover {β : Type} (tb : TB α) (l : List β) (h : l.length = tb.ncols) :
    tb.blockShapeSlices.flatMap (chop l) = l ∧
    tb.blockShapeSlices.map (fun s => s.2 - s.1) = tb.blocks.map Block.width ∧
    tb.blockShapeSlices.length = tb.blocks.length := by
  refine ⟨?_, TB.blockShapeSlicesGo_widths tb.blocks 0, TB.blockShapeSlicesGo_length tb.blocks 0⟩
  unfold blockShapeSlices
  have hsum : (tb.blocks.map Block.width).sum = l.length := h.symm
  rw [TB.blockShapeSlicesGo_cover, List.drop_zero, hsum, List.take_length]

example : cEx.blockShapeSlices = [(0, 1), (1, 2), (2, 3)] ∧ cEx'.blockShapeSlices = [(0, 2), (2, 3)] := by decide

section
variable (op : α → α → α) (opDT : DT → DT → DT) (cast : DT → DT → α → α)

/-- `zip_longest(values, other)` never pads: whenever the decision tree hands two operand lists to
    `apply_binary_operator_blocks` they have the same length (so `None` never reaches the operator). -/
theorem operands_never_padded (a : TB α) (rdA : DT) (other : Other α) (axis : Int) (ha : a.WF) (ho : other.WF)
    (path : Path) (f : Bool) (vs : List (Block α)) (os : List (DT × Arr α))
    (h : plan cast a rdA other axis = .ok (.zip path f vs os)) : vs.length = os.length := by
  cases other with
  | tb b rdB =>
    have hb : b.WF := ho
    simp only [plan] at h
    split at h
    · rename_i hc
      cases h
      simpa using (TB.blockCompatible_spec a b hc).2.length_eq
    · split at h
      · split at h
        · cases h; rfl
        · rename_i hr
          cases h
          simpa using (TB.reblockCompatible_aligned a b ha hb (by simpa using hr)).length_eq
      · cases h
  | arr0 dt v => simp only [plan] at h; cases h; simp
  | arr1 dt vs' =>
    simp only [plan] at h
    split at h
    · cases h; simp
    · split at h
      · cases h; simp [blockShapeSlices, TB.blockShapeSlicesGo_length]
      · split at h <;> cases h
  | arr2 dt r cs =>
    simp only [plan] at h
    split at h
    · cases h; simp [blockShapeSlices, TB.blockShapeSlicesGo_length]
    · cases h
  | arrN dt k => cases h

example : plan castId cEx "f8" (.tb cEx' "f8") 0 =
    .ok (.zip .reblock true [.d2 "i8" [[1, 2], [3, 4]], .d2 "f8" [[5, 6]]]
      [("i8", .a2 [[1, 2], [3, 4]]), ("f8", .a1 [5, 6])]) := by decide

/-! ### refinement -/

/-- EXACT refinement, TypeBlocks operand, every route: shapes differ → NotImplementedError; no column →
    ErrorInitTypeBlocks; on the `block_compatible` and `reblock_compatible` routes cells are column (op)
    column and dtypes `opDT` column by column; on the `.values` route the cells are those of the two
    `.values` arrays (converted to the row dtype unless one block is stored) and every column gets the
    dtype `opDT` resolves from the dtypes of the two arrays. -/
theorem binop_refines_tb_exact (a b : TB α) (rdA rdB : DT) (axis : Int) (ha : a.WF) (hb : b.WF) :
    (binop op opDT cast a rdA (.tb b rdB) axis).map TB.view =
      if a.shape ≠ b.shape then .error .shape
      else if a.ncols = 0 then .error .init
      else if a.blockCompatible b = true ∨ a.reblockCompatible b = true then
        .ok (List.zipWith (List.zipWith op) a.cols b.cols, List.zipWith opDT a.dtypes b.dtypes)
      else
        .ok (List.zipWith (List.zipWith op) (a.values cast rdA).colsOf (b.values cast rdB).colsOf,
             List.replicate a.ncols (opDT (a.values cast rdA).dt (b.values cast rdB).dt)) := by
  by_cases hs : a.shape = b.shape
  · have hcols : b.ncols = a.ncols := (congrArg Prod.snd hs).symm
    have hzip : List.zipWith (List.zipWith op) a.cols b.cols = [] ↔ a.ncols = 0 := by
      rw [zipWith_eq_nil_of_length _ _ _ (by rw [cols_length, cols_length, hcols]), ← cols_length]
      exact List.length_eq_zero_iff.symm
    rw [if_neg (by simpa using hs)]
    cases hc : a.blockCompatible b with
    | true =>
      rw [(TB.route_compatible op opDT cast a b rdA rdB axis ha hb hc).map_view]
      by_cases h0 : a.ncols = 0
      · rw [if_pos (hzip.mpr h0), if_pos h0]
      · rw [if_neg (fun h => h0 (hzip.mp h)), if_neg h0, if_pos (Or.inl rfl)]
    | false =>
      have hpos : 0 < a.ncols := by
        rcases Nat.eq_zero_or_pos a.ncols with h0 | h
        · rw [TB.blockCompatible_of_no_columns a b ha hb hs h0] at hc; cases hc
        · exact h
      have h0 : ¬ a.ncols = 0 := by omega
      rw [if_neg h0]
      cases hr : a.reblockCompatible b with
      | true =>
        rw [(TB.route_reblock op opDT cast a b rdA rdB axis ha hb hc hs hr).map_view,
          if_neg (fun h => h0 (hzip.mp h)), if_pos (Or.inr rfl)]
      | false =>
        have hX : ¬ List.zipWith (List.zipWith op) (a.values cast rdA).colsOf (b.values cast rdB).colsOf = [] := by
          intro h
          have := congrArg List.length h
          rw [List.length_zipWith, Block.colsOf_length, Block.colsOf_length, (TB.values_good cast a rdA ha hpos).1,
            (TB.values_good cast b rdB hb (hcols ▸ hpos)).1, hcols] at this
          simp at this
          omega
        rw [(TB.route_values op opDT cast a b rdA rdB axis ha hb hc hs hr).map_view, if_neg hX, if_neg (by simp)]
  · rw [TB.route_mismatch op opDT cast a b rdA rdB axis hs, if_pos hs]
    rfl

example : (binop (· + ·) opDTEx castId cEx "f8" (.tb cEx' "f8") 0).map TB.view =
    .ok ([[2, 4], [6, 8], [10, 12]], ["i8", "i8", "f8"]) := by decide

example : (binop (· + ·) opDTEx castId aEx "f8" (.tb bEx' "i8") 0).map TB.view =
    .ok ([[11, 22], [33, 44]], ["f8", "f8"]) := by decide

/-- THE CELLS, TypeBlocks operand (`_partial`: hypothesis `hcast`).  If the conversion to the row dtype on
    the `.values` route keeps every cell, then for all well-formed layouts of both operands and every
    route the result cells are column (op) column — the layout-free `specTB` — with the same error
    behaviour.  The unrestricted statement is false: `binop_refines_tb_counterexample`. -/
theorem binop_refines_tb_partial (hcast : ∀ d e x, cast d e x = x) (a b : TB α) (rdA rdB : DT) (axis : Int)
    (ha : a.WF) (hb : b.WF) :
    (binop op opDT cast a rdA (.tb b rdB) axis).map TB.cols = specTB op a.rows a.cols b.rows b.cols := by
  have hview := binop_refines_tb_exact op opDT cast a b rdA rdB axis ha hb
  have hfst : (binop op opDT cast a rdA (.tb b rdB) axis).map TB.cols =
      ((binop op opDT cast a rdA (.tb b rdB) axis).map TB.view).map Prod.fst := by
    cases binop op opDT cast a rdA (.tb b rdB) axis <;> rfl
  rw [hfst, hview, TB.values_colsOf_of_exact cast hcast, TB.values_colsOf_of_exact cast hcast]
  unfold specTB
  rw [cols_length, cols_length]
  have he : a.cols.isEmpty = true ↔ a.ncols = 0 := by
    rw [← cols_length]; cases a.cols <;> simp
  by_cases hs : a.shape = b.shape
  · have hs' : ¬ (a.rows, a.ncols) ≠ (b.rows, b.ncols) := by simpa [shape] using hs
    rw [if_neg (by simpa using hs), if_neg hs']
    by_cases h0 : a.ncols = 0
    · rw [if_pos h0, if_pos (he.mpr h0)]; rfl
    · rw [if_neg h0, if_neg (fun h => h0 (he.mp h))]
      split <;> rfl
  · have hs' : (a.rows, a.ncols) ≠ (b.rows, b.ncols) := by simpa [shape] using hs
    rw [if_pos hs, if_pos hs']; rfl

example : ∀ d e x, castId d e x = x := fun _ _ _ => rfl

/-- … and without the hypothesis the statement fails on the mirrored code: int64 `2^53+1` next to a
    float64 column (row dtype float64) against one 2-D int64 block goes through `.values` and comes back
    `2^53`.  (Replayed on the real `Frame.__add__`: finding F74.) -/
theorem binop_refines_tb_counterexample :
    ¬ ∀ (cast : DT → DT → Int → Int) (a b : TB Int) (rdA rdB : DT), a.WF → b.WF →
      (binop (· + ·) opDTEx cast a rdA (.tb b rdB) 0).map TB.cols = specTB (· + ·) a.rows a.cols b.rows b.cols := by
  intro h
  have ha : (⟨2, [.d1 "i8" [9007199254740993, 1], .d1 "f8" [2, 3]]⟩ : TB Int).WF := by
    simp [TB.WF, Block.RowsOk, Block.colsOf, Block.width]
  have hb : (⟨2, [.d2 "i8" [[0, 4], [5, 6]]]⟩ : TB Int).WF := by
    simp [TB.WF, Block.RowsOk, Block.colsOf, Block.width]
  have := h castF8 _ _ "f8" "i8" ha hb
  revert this
  decide

/-- Array operand, every accepted and rejected shape, every layout: cells AND per-column dtypes of the
    result are the layout-free `specArr` of the columns, dtypes and row count (scalar: each cell with the
    scalar; axis 0: column `j` with element `j`; axis 1: each column with the vector; 2-D: column `j` with
    column `j`), with the same errors (NotImplementedError for everything not alignable,
    ErrorInitTypeBlocks when there is no column). -/
theorem binop_refines_array (a : TB α) (rdA : DT) (other : Other α) (axis : Int) (ha : a.WF) (ho : other.WF)
    (harr : other.isArray = true) :
    (binop op opDT cast a rdA other axis).map TB.view = specArr op opDT a.rows a.cols a.dtypes other axis := by
  have hfin : ∀ (X : List (List α)) (v : List (List α) × List DT), (X = [] ↔ a.cols = []) →
      (if X = [] then (Except.error Err.init : Except Err (List (List α) × List DT)) else .ok v) =
      (if a.cols.isEmpty = true then .error .init else .ok v) := by
    intro X v hX
    by_cases h : a.cols = []
    · rw [if_pos (hX.mpr h), if_pos (by simp [h])]
    · rw [if_neg (fun h' => h (hX.mp h')), if_neg (by simpa using h)]
  cases other with
  | tb b rdB => cases harr
  | arr0 dt v =>
    rw [(TB.route_scalar op opDT cast a rdA axis ha dt v _ (Or.inl rfl)).map_view]
    exact hfin _ _ (by simp)
  | arr1 dt vs =>
    by_cases h1 : vs.length = 1
    · obtain ⟨v, rfl⟩ := List.length_eq_one_iff.mp h1
      rw [(TB.route_scalar op opDT cast a rdA axis ha dt v _ (Or.inr rfl)).map_view]
      exact hfin _ _ (by simp)
    · have hspec : specArr op opDT a.rows a.cols a.dtypes (.arr1 dt vs) axis =
          if axis = 0 ∧ vs.length = a.cols.length then
            (if a.cols.isEmpty = true then .error .init
             else .ok (List.zipWith (fun col v => col.map (op · v)) a.cols vs, a.dtypes.map (opDT · dt)))
          else if axis = 1 ∧ vs.length = a.rows then
            (if a.cols.isEmpty = true then .error .init
             else .ok (a.cols.map (fun col => List.zipWith op col vs), a.dtypes.map (opDT · dt)))
          else .error .shape := by
        match vs, h1 with
        | [], _ => rfl
        | [v], h1 => exact absurd rfl h1
        | _ :: _ :: _, _ => rfl
      rw [hspec, cols_length]
      by_cases h0 : axis = 0 ∧ vs.length = a.ncols
      · rw [if_pos h0]
        obtain ⟨rfl, hl⟩ := h0
        rw [(TB.route_rows op opDT cast a rdA ha dt vs h1 hl).map_view]
        exact hfin _ _ (zipWith_eq_nil_of_length _ _ _ (by rw [cols_length, hl]))
      · rw [if_neg h0]
        by_cases h2 : axis = 1 ∧ vs.length = a.rows
        · rw [if_pos h2]
          obtain ⟨rfl, hl⟩ := h2
          rw [(TB.route_columnar op opDT cast a rdA ha dt vs h1 hl).map_view]
          exact hfin _ _ (by simp)
        · rw [if_neg h2]
          simp only [binop, plan]
          rw [if_neg h1, if_neg h0, if_neg h2]
          rfl
  | arr2 dt r cs =>
    simp only [specArr]
    rw [cols_length]
    by_cases hs : (r, cs.length) = a.shape
    · have hl : cs.length = a.ncols := congrArg Prod.snd hs
      rw [(TB.route_array2d op opDT cast a rdA axis ha dt r cs hs ho).map_view,
        if_pos (show (r, cs.length) = (a.rows, a.ncols) from hs)]
      exact hfin _ _ (zipWith_eq_nil_of_length _ _ _ (by rw [cols_length, hl]))
    · rw [if_neg (show ¬ (r, cs.length) = (a.rows, a.ncols) from hs)]
      simp only [binop, plan]
      rw [if_neg hs]
      rfl
  | arrN dt k => rfl

example : (binop (· * ·) opDTEx castId cEx "f8" (.arr1 "i8" [2, 3, 4]) 0).map TB.view =
    .ok ([[2, 4], [9, 12], [20, 24]], ["i8", "i8", "f8"]) := by decide
example : (binop (· - ·) opDTEx castId cEx "f8" (.arr1 "i8" [1, 2]) 1).map TB.view =
    .ok ([[0, 0], [2, 2], [4, 4]], ["i8", "i8", "f8"]) := by decide
example : (binop (· - ·) opDTEx castId cEx "f8" (.arr1 "i8" [7]) 1).map TB.view =
    .ok ([[-6, -5], [-4, -3], [-2, -1]], ["i8", "i8", "f8"]) := by decide
example : (binop (· + ·) opDTEx castId cEx "f8" (.arr2 "f8" 2 [[1, 1], [2, 2], [3, 3]]) 0).map TB.view =
    .ok ([[2, 3], [5, 6], [8, 9]], ["f8", "f8", "f8"]) := by decide
example : binop (· + ·) opDTEx castId cEx "f8" (.arr1 "i8" [1, 2]) 0 = .error .shape := by decide
example : (Other.arr2 "f8" 2 [[1, 1], [2, 2], [3, 3]] : Other Int).WF := by simp [Other.WF]

/-- Whatever succeeds is a well-formed TypeBlocks of the operand's shape. -/
theorem binop_result_wf (a : TB α) (rdA : DT) (other : Other α) (axis : Int) (ha : a.WF) (ho : other.WF)
    (r : TB α) (h : binop op opDT cast a rdA other axis = .ok r) :
    r.WF ∧ r.rows = a.rows ∧ r.ncols = a.ncols := by
  rcases TB.binop_outcome op opDT cast a rdA other axis ha ho with he | ⟨X, Y, hout, hlen⟩
  · rw [he] at h; cases h
  · obtain ⟨h1, h2, h3, _⟩ := hout.wf_of_ok r h
    exact ⟨h1, h2, by rw [← cols_length, h3, hlen]⟩

example : ∃ r, binop (· + ·) opDTEx castId aEx "f8" (.tb bEx "i8") 0 = .ok r := ⟨_, rfl⟩

/-- The errors of a real call, TypeBlocks operand: NotImplementedError exactly when the shapes differ,
    ErrorInitTypeBlocks exactly when the shapes agree and there is no column, and nothing else — in
    particular no layout ever makes the call fail. -/
theorem binop_error_iff (a b : TB α) (rdA rdB : DT) (axis : Int) (ha : a.WF) (hb : b.WF) (e : Err) :
    binop op opDT cast a rdA (.tb b rdB) axis = .error e ↔
      (e = .shape ∧ a.shape ≠ b.shape) ∨ (e = .init ∧ a.shape = b.shape ∧ a.ncols = 0) := by
  have hview := binop_refines_tb_exact op opDT cast a b rdA rdB axis ha hb
  have hmap : ∀ x : Except Err (TB α), x = .error e ↔ x.map TB.view = .error e := by
    intro x; cases x <;> simp [Except.map]
  rw [hmap, hview]
  by_cases hs : a.shape = b.shape
  · rw [if_neg (by simpa using hs)]
    by_cases h0 : a.ncols = 0
    · rw [if_pos h0]
      constructor
      · intro h; cases h; exact Or.inr ⟨rfl, hs, h0⟩
      · rintro (⟨_, h⟩ | ⟨rfl, _, _⟩)
        · exact absurd hs h
        · rfl
    · rw [if_neg h0]
      constructor
      · intro h; split at h <;> cases h
      · rintro (⟨_, h⟩ | ⟨_, _, h⟩)
        · exact absurd hs h
        · exact absurd h h0
  · rw [if_pos hs]
    constructor
    · intro h; cases h; exact Or.inl ⟨rfl, hs⟩
    · rintro (⟨rfl, _⟩ | ⟨_, h, _⟩)
      · rfl
      · exact absurd h hs

example : binop (· + ·) opDTEx castId aEx "f8" (.tb cEx "f8") 0 = .error .shape := by decide
example : binop (· + ·) opDTEx castId (⟨2, []⟩ : TB Int) "f8" (.tb ⟨2, []⟩ "f8") 0 = .error .init := by decide

/-! ### the property: layout unobservable -/

/-- Array operand: NOTHING observable depends on the layout of the TypeBlocks — two layouts of the same
    columns / dtypes / row count give the same cells, the same per-column dtypes and the same error,
    for every array shape and axis (unconditionally: no conversion happens on these routes). -/
theorem layout_unobservable_binop_array (a a' : TB α) (rdA rdA' : DT) (other : Other α) (axis : Int)
    (ha : a.WF) (ha' : a'.WF) (ho : other.WF) (harr : other.isArray = true)
    (hc : a.cols = a'.cols) (hd : a.dtypes = a'.dtypes) (hr : a.rows = a'.rows) :
    (binop op opDT cast a rdA other axis).map TB.view = (binop op opDT cast a' rdA' other axis).map TB.view := by
  rw [binop_refines_array op opDT cast a rdA other axis ha ho harr,
    binop_refines_array op opDT cast a' rdA' other axis ha' ho harr, hc, hd, hr]

example : cEx.cols = cEx'.cols ∧ cEx.dtypes = cEx'.dtypes ∧ cEx.rows = cEx'.rows := by decide

/-- TypeBlocks operand, the cells (`_partial`: hypothesis `hcast`): if the conversion of the `.values`
    route keeps every cell, the result cells and the error never depend on the layout of EITHER operand,
    nor on the row dtypes.  Without the hypothesis: `layout_unobservable_binop_counterexample`. -/
theorem layout_unobservable_binop_partial (hcast : ∀ d e x, cast d e x = x) (a a' b b' : TB α)
    (rdA rdA' rdB rdB' : DT) (axis : Int) (ha : a.WF) (ha' : a'.WF) (hb : b.WF) (hb' : b'.WF)
    (hca : a.cols = a'.cols) (hra : a.rows = a'.rows) (hcb : b.cols = b'.cols) (hrb : b.rows = b'.rows) :
    (binop op opDT cast a rdA (.tb b rdB) axis).map TB.cols =
      (binop op opDT cast a' rdA' (.tb b' rdB') axis).map TB.cols := by
  rw [binop_refines_tb_partial op opDT cast hcast a b rdA rdB axis ha hb,
    binop_refines_tb_partial op opDT cast hcast a' b' rdA' rdB' axis ha' hb', hca, hra, hcb, hrb]

/-- TypeBlocks operand, cells AND dtypes, no hypothesis on the conversion: as long as neither pair of
    layouts falls through to the `.values` route (each pair is `block_compatible` or
    `reblock_compatible`), cells, per-column dtypes and errors are the same.  What CAN depend on the
    layout is therefore exactly: the block structure of the result, and — only through the choice of
    the `.values` route — the dtype (always) and the cells (when the conversion to the row dtype is lossy). -/
theorem layout_unobservable_binop_same_route (a a' b b' : TB α) (rdA rdA' rdB rdB' : DT) (axis : Int)
    (ha : a.WF) (ha' : a'.WF) (hb : b.WF) (hb' : b'.WF)
    (hca : a.cols = a'.cols) (hda : a.dtypes = a'.dtypes) (hra : a.rows = a'.rows)
    (hcb : b.cols = b'.cols) (hdb : b.dtypes = b'.dtypes) (hrb : b.rows = b'.rows)
    (h : a.blockCompatible b = true ∨ a.reblockCompatible b = true)
    (h' : a'.blockCompatible b' = true ∨ a'.reblockCompatible b' = true) :
    (binop op opDT cast a rdA (.tb b rdB) axis).map TB.view =
      (binop op opDT cast a' rdA' (.tb b' rdB') axis).map TB.view := by
  have hna : a.ncols = a'.ncols := by rw [← cols_length, ← cols_length, hca]
  have hnb : b.ncols = b'.ncols := by rw [← cols_length, ← cols_length, hcb]
  rw [binop_refines_tb_exact op opDT cast a b rdA rdB axis ha hb,
    binop_refines_tb_exact op opDT cast a' b' rdA' rdB' axis ha' hb', if_pos h, if_pos h']
  simp only [shape, hca, hda, hra, hcb, hdb, hrb, hna, hnb] <;> rfl

example : (cEx.blockCompatible cEx' = true ∨ cEx.reblockCompatible cEx' = true) ∧
    (cEx'.blockCompatible cEx' = true ∨ cEx'.reblockCompatible cEx' = true) := by decide

/-- `reblock_compatible` does not see the layout: it is decided by the per-column dtypes of the two
    operands (their runs of equal adjacent dtypes).  So the route depends on the layout only through
    `block_compatible`: the `.values` route is taken exactly by the layouts that are not block
    compatible, and only for operand pairs whose dtype runs have different widths. -/
theorem reblock_compatible_layout_free (a a' b b' : TB α) (ha : a.WF) (ha' : a'.WF) (hb : b.WF) (hb' : b'.WF)
    (hda : a.dtypes = a'.dtypes) (hdb : b.dtypes = b'.dtypes) :
    a.reblockCompatible b = a'.reblockCompatible b' := by
  have hna : a.ncols = a'.ncols := by rw [← dtypes_length, ← dtypes_length, hda]
  have hnb : b.ncols = b'.ncols := by rw [← dtypes_length, ← dtypes_length, hdb]
  unfold reblockCompatible
  rw [TB.reblockSignature_rle a ha, TB.reblockSignature_rle a' ha', TB.reblockSignature_rle b hb,
    TB.reblockSignature_rle b' hb', hda, hdb, hna, hnb]

example : cEx.reblockCompatible aEx = cEx'.reblockCompatible aEx := by decide

/-- Operands with the SAME per-column dtypes (two Frames of one schema) never take the `.values` route,
    whatever their layouts … -/
theorem same_dtypes_reblock_compatible (a b : TB α) (ha : a.WF) (hb : b.WF) (hd : a.dtypes = b.dtypes) :
    a.reblockCompatible b = true := by
  have hn : a.ncols = b.ncols := by rw [← dtypes_length, ← dtypes_length, hd]
  unfold reblockCompatible
  rw [TB.reblockSignature_rle a ha, TB.reblockSignature_rle b hb, hd, if_neg (by simp [hn])]
  exact TB.signaturesCompatible_refl _

/-- … hence for them the property holds without any hypothesis on the conversion: cells, per-column
    dtypes and errors of TypeBlocks (op) TypeBlocks are the same for all layouts of both operands. -/
theorem layout_unobservable_binop_same_dtypes (a a' b b' : TB α) (rdA rdA' rdB rdB' : DT) (axis : Int)
    (ha : a.WF) (ha' : a'.WF) (hb : b.WF) (hb' : b'.WF)
    (hca : a.cols = a'.cols) (hda : a.dtypes = a'.dtypes) (hra : a.rows = a'.rows)
    (hcb : b.cols = b'.cols) (hdb : b.dtypes = b'.dtypes) (hrb : b.rows = b'.rows)
    (hab : a.dtypes = b.dtypes) :
    (binop op opDT cast a rdA (.tb b rdB) axis).map TB.view =
      (binop op opDT cast a' rdA' (.tb b' rdB') axis).map TB.view :=
  layout_unobservable_binop_same_route op opDT cast a a' b b' rdA rdA' rdB rdB' axis ha ha' hb hb'
    hca hda hra hcb hdb hrb (Or.inr (same_dtypes_reblock_compatible a b ha hb hab))
    (Or.inr (same_dtypes_reblock_compatible a' b' ha' hb' (by rw [← hda, ← hdb, hab])))

example : cEx.dtypes = cEx'.dtypes := by decide

/-- COUNTEREXAMPLE (cells): with a conversion that rounds `2^53+1` to float64 the cells depend on the
    layout of the right operand: [int64 | float64] + two 1-D int64 blocks is `block_compatible` and keeps
    `2^53+1`; against the same columns in one 2-D block it is the `.values` route and gives `2^53`. -/
theorem layout_unobservable_binop_counterexample :
    ¬ ∀ (cast : DT → DT → Int → Int) (a b b' : TB Int) (rdA rdB : DT), a.WF → b.WF → b'.WF →
      b.cols = b'.cols → b.dtypes = b'.dtypes → b.rows = b'.rows →
      (binop (· + ·) opDTEx cast a rdA (.tb b rdB) 0).map TB.cols =
        (binop (· + ·) opDTEx cast a rdA (.tb b' rdB) 0).map TB.cols := by
  intro h
  have ha : (⟨2, [.d1 "i8" [9007199254740993, 1], .d1 "f8" [2, 3]]⟩ : TB Int).WF := by
    simp [TB.WF, Block.RowsOk, Block.colsOf, Block.width]
  have hb : (⟨2, [.d1 "i8" [0, 4], .d1 "i8" [5, 6]]⟩ : TB Int).WF := by
    simp [TB.WF, Block.RowsOk, Block.colsOf, Block.width]
  have hb' : (⟨2, [.d2 "i8" [[0, 4], [5, 6]]]⟩ : TB Int).WF := by
    simp [TB.WF, Block.RowsOk, Block.colsOf, Block.width]
  have := h castF8 _ _ _ "f8" "i8" ha hb hb' (by decide) (by decide) (by decide)
  revert this
  decide

/-- COUNTEREXAMPLE (dtype), even with a conversion that keeps every cell: the per-column dtype of the
    result depends on the layout of the right operand.  [int64 | float64] + (int64, int64): as two 1-D
    blocks → dtypes (int64, float64); as one 2-D block → the `.values` route → (float64, float64).
    Same cells.  (Replayed on the real `Frame.__add__`: finding F74.) -/
theorem binop_result_dtype_layout_dependent :
    aEx.WF ∧ bEx.WF ∧ bEx'.WF ∧ bEx.cols = bEx'.cols ∧ bEx.dtypes = bEx'.dtypes ∧ bEx.rows = bEx'.rows ∧
    (binop (· + ·) opDTEx castId aEx "f8" (.tb bEx "i8") 0).map TB.view = .ok ([[11, 22], [33, 44]], ["i8", "f8"]) ∧
    (binop (· + ·) opDTEx castId aEx "f8" (.tb bEx' "i8") 0).map TB.view = .ok ([[11, 22], [33, 44]], ["f8", "f8"]) ∧
    binopPath castId aEx "f8" (.tb bEx "i8") 0 = .ok .compatible ∧
    binopPath castId aEx "f8" (.tb bEx' "i8") 0 = .ok .values :=
  ⟨aEx_wf, bEx_wf, bEx'_wf, by decide, by decide, by decide, by decide, by decide, by decide, by decide⟩

end

/-! ### the link to the layout-free operator model of C06 (SetOps.lean) -/

theorem zipCols_eq (op : α → α → α) (n : Nat) (A B : List (List α)) (hl : A.length = B.length)
    (hA : ∀ c ∈ A, c.length = n) (hB : ∀ c ∈ B, c.length = n) :
    SetOps.zipCols op A B = .ok (List.zipWith (List.zipWith op) A B) := by
  induction A generalizing B with
  | nil => cases B with
    | nil => rfl
    | cons b bs => simp at hl
  | cons a as ih => cases B with
    | nil => simp at hl
    | cons b bs =>
      have h1 : a.length = b.length := by rw [hA a (by simp), hB b (by simp)]
      simp only [SetOps.zipCols, SetOps.zipOp, h1, if_true,
        ih bs (by simpa using hl) (fun c hc => hA c (by simp [hc])) (fun c hc => hB c (by simp [hc]))]
      rfl

/-- `SetOps.Frame.binop` (C06: operators pair by label) computes the cells of Frame (op) Frame as
    `zipCols op` on the two re-indexed column lists followed by `Frame.ofBlocks` (which refuses an empty
    block list).  For operands of one shape that is what the block-level method computes from ANY two
    layouts, provided the conversion of the `.values` route keeps the cells: the layout-free model of
    C06 is a sound abstraction of `TypeBlocks._ufunc_binary_operator` (same cells, same init error). -/
theorem binop_tb_agrees_zipCols (op : α → α → α) (opDT : DT → DT → DT) (cast : DT → DT → α → α)
    (hcast : ∀ d e x, cast d e x = x) (a b : TB α) (rdA rdB : DT) (axis : Int) (ha : a.WF) (hb : b.WF)
    (hs : a.shape = b.shape) :
    (binop op opDT cast a rdA (.tb b rdB) axis).map TB.cols =
      match SetOps.zipCols op a.cols b.cols with
      | .ok cs => if cs.isEmpty then .error .init else .ok cs
      | .error e => .error e := by
  have hrows : b.rows = a.rows := (congrArg Prod.fst hs).symm
  have hcols : b.ncols = a.ncols := (congrArg Prod.snd hs).symm
  rw [binop_refines_tb_partial op opDT cast hcast a b rdA rdB axis ha hb,
    zipCols_eq op a.rows a.cols b.cols (by rw [cols_length, cols_length, hcols])
      (cols_wf a ha).2.1 (fun c hc => hrows ▸ (cols_wf b hb).2.1 c hc)]
  unfold specTB
  rw [cols_length, cols_length, if_neg (by simp [hrows, hcols])]
  have : (List.zipWith (List.zipWith op) a.cols b.cols).isEmpty = a.cols.isEmpty := by
    have hl : a.cols.length = b.cols.length := by rw [cols_length, cols_length, hcols]
    cases hA : a.cols with
    | nil => simp
    | cons x xs =>
      cases hB : b.cols with
      | nil => rw [hA, hB] at hl; simp at hl
      | cons y ys => simp
  simp only [this]

example : aEx.shape = bEx'.shape := by decide

end SF.C03
