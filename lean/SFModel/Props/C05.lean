/-
  C05 — Hierarchical index: tree and table views agree; per-level selection is exact.

  Property theorems only (helper lemmas: LevelLemmas, LevelViewLemmas, LevelCacheLemmas,
  LevelHLocLemmas).  The model (`Level.iter`, `valuesAtDepth`, `toTypeBlocks`, `contains`,
  `locToIloc`, `HState.step`) mirrors the deque loops and the `_recache` protocol of the code.
-/
import SFModel.LevelCacheLemmas
import SFModel.LevelHLocLemmas
set_option linter.unusedSectionVars false

namespace SF.C05
open SF IntLabel

variable {α : Type} [DecidableEq α] [IntLabel α]

/-- In a well-formed tree all views describe the same sequence of tuples: the breadth-first
    iteration (`__iter__`, and `IndexLevel.values`, the same loop) yields the tuples in index
    order with fuel = number of nodes; `values_at_depth(dl)` is the column of `dl`-th components;
    `to_type_blocks` has one such column per depth and its rows are the tuples; the length is
    the number of tuples; membership (`__contains__` with its depth check) ⇔ being one of the tuples, for every key; and
    `leaf_loc_to_iloc` is the inverse of positional access. -/
theorem views_agree {t : Level α} {d : Nat} (h : Level.WF d t) :
    t.iter = some t.tuples ∧
    (∀ dl, dl < d → ∃ c, t.valuesAtDepth d dl = .ok c ∧ c.map some = t.tuples.map (·[dl]?)) ∧
    (∃ cols, t.toTypeBlocks d = .ok cols ∧ cols.length = d ∧ HState.rowsOf t.tuples.length cols = t.tuples) ∧
    t.len = t.tuples.length ∧
    (∀ key, t.containsKey d key = true ↔ key ∈ t.tuples) ∧
    (∀ key i, t.leafLocToIloc key = .ok i ↔ t.tuples[i]? = some key) := by
  refine ⟨Level.iter_eq_tuples h, fun dl hdl => Level.valuesAtDepth_spec h hdl, ?_,
    (Level.tuples_length t d h).symm, Level.containsKey_spec h, ?_⟩
  · obtain ⟨cols, h1, h2, h3⟩ := Level.toTypeBlocks_spec h
    exact ⟨cols, h1, h2, HState.rowsOf_spec h2 (Level.tuples_depth t d h) h3⟩
  · intro key i
    unfold Level.leafLocToIloc
    rw [Level.leafLoc_spec t d h key 0 i]
    constructor
    · rintro ⟨j, hj, ht⟩; simp only [Nat.zero_add] at hj; subst hj; exact ht
    · intro ht; exact ⟨i, by simp, ht⟩

/-- PINNED-TREE BEHAVIOUR (finding F42, repaired in /repo commit 88fd864): the descent of
    `IndexLevel.__contains__` alone answers `True` for an over-long key whose prefix is held; the
    repaired method checks the key length first (`containsKey`). -/
theorem containsPinned_overlong_counterexample :
    (Level.node [0, 1] [.leaf [1] 0, .leaf [1] 1] 0 : Level Int).contains [0, 1, 7] = true ∧
    (Level.node [0, 1] [.leaf [1] 0, .leaf [1] 1] 0 : Level Int).containsKey 2 [0, 1, 7] = false := by decide

/-- For EVERY history of append / extend / read calls on an IndexHierarchyGO whose state is
    coherent (well-formed tree; blocks either flagged stale or equal to `to_type_blocks` of the
    tree) the state stays coherent and every read returns the view of the tree held at the time of
    the call — also after the cached arrays were materialised and the tree grew again. -/
theorem cache_coherent (s : HState α) (h : s.Coherent) (ops : List (HOp α)) (ha : s.Admissible ops) :
    (s.run ops).1.Coherent ∧ s.AllAgree ops (s.run ops).2 :=
  HState.run_spec ops s h ha

/-- a freshly constructed IndexHierarchyGO is coherent -/
theorem ofLevel_coherent {t : Level α} {d : Nat} (hd : 2 ≤ d) (h : Level.WF d t) :
    (HState.ofLevel t d).Coherent :=
  ⟨hd, h, fun hr => by simp [HState.ofLevel] at hr⟩

/-! ### per-level selection -/

/-- The key consists of label / all / list selectors (missing trailing depths count as `all`), and
    no list selector repeats a label. -/
def SimpleKey (key : List (Sel α)) : Prop :=
  (∀ dep, (key.getD dep .all).simple = true) ∧ (∀ dep as, key.getD dep .all = .list as → as.Nodup)

/-- The HLoc loop (`while levels: … popleft()`) terminates within fuel = number of IndexLevel
    objects: the model never answers the out-of-fuel error, every collected part is well formed. -/
theorem hloc_fuel {t : Level α} {d : Nat} (h : Level.WF d t) (ho : t.offset = 0) (key : List (Sel α))
    (hk : SimpleKey key) :
    ∃ parts, bfs (Level.hlocVisit key) t.nodes [(t, (0, 0))] = some (parts.map .ok) ∧
      Level.flattenParts t.len parts = .ok ((Level.specPos key t 0 0).map Int.ofNat) :=
  let ⟨parts, h1, h2, _⟩ := Level.locToIloc_simple h ho key hk.1 hk.2
  ⟨parts, h1, h2⟩

/-- PARTIAL (selectors label / all / list at every depth, any mix; label slices and the Boolean mask
    at the innermost depth are compared with the code and the list-of-tuples reference only).
    Full statement: the same with `Sel.slice a b none` (labels between a and b of the node,
    inclusive) and `Sel.mask` at the innermost depth admitted in `SimpleKey`.

    For a well-formed tree `loc_to_iloc(HLoc[key])` either raises KeyError because nothing matches,
    or returns an iloc key addressing exactly `specPos`: the depth-first enumeration in which every
    node visits its selected targets in selector order (index order for a label / `:`, the order of
    the list for a list selector) — and a position is in `specPos` iff its tuple matches every
    per-depth selector. -/
theorem hloc_exact_partial {t : Level α} {d : Nat} (h : Level.WF d t) (ho : t.offset = 0)
    (key : List (Sel α)) (hk : SimpleKey key) :
    ((t.locToIloc key = .error .lookup ∧ Level.specPos key t 0 0 = []) ∨
      ∃ r, t.locToIloc key = .ok r ∧ r.positions t.len = .ok (Level.specPos key t 0 0)) ∧
    (∀ p, p ∈ Level.specPos key t 0 0 ↔ ∃ tup, t.tuples[p]? = some tup ∧ Level.matchFrom key 0 tup = true) :=
  ⟨Level.locToIloc_simple_result h ho key hk.1 hk.2, Level.specPos_mem_iff h key hk.1⟩

/-- A full tuple of labels selects its single position, returned as an integer; a tuple that is
    not held is a KeyError. -/
theorem hloc_full_tuple {t : Level α} {d : Nat} (h : Level.WF d t) (ho : t.offset = 0) (labs : List α)
    (hl : labs.length = d) :
    (t.locToIloc (labs.map .label) = .error .lookup ∧ labs ∉ t.tuples) ∨
    ∃ p : Nat, t.locToIloc (labs.map .label) = .ok (.int p) ∧ t.tuples[p]? = some labs :=
  Level.locToIloc_full_tuple h ho labs hl

/-- The repaired bound of commit 79a552f (finding F46): at a leaf (an offset is applied) a half-open
    label slice stays inside the leaf — `a:` ends at `offset + len(leaf)`, `:a` starts at `offset`;
    both are stop-inclusive. -/
theorem leaf_open_slice_bounded {ls : List α} (hn : ls.Nodup) {i : Nat} {a : α} (hi : ls[i]? = some a)
    (off : Nat) :
    (Level.nodeIndex ls).locToIlocP (.slice (some a) none none) (some off) true
      = .ok (.slice ⟨some ((i : Int) + off), some ((off : Int) + ls.length), none⟩) ∧
    (Level.nodeIndex ls).locToIlocP (.slice none (some a) none) (some off) true
      = .ok (.slice ⟨some (off : Int), some ((i : Int) + off + 1), none⟩) := by
  have hg := AMap.get?_zipIdx_some 0 hn hi
  simp only [Nat.add_zero] at hg
  constructor <;>
    simp [Level.nodeIndex, Index.locToIlocP, Index.locMap, Index.mapSliceArgs, Index.mapSliceArg, Index.mapSliceStop, hg,
      Index.boundSlice, Index.len]

/-! ### non-vacuity -/

instance : IntLabel Int := ⟨id, some, fun _ => rfl, fun a i h => by simp at h; exact h⟩

example : Level.WF 2 (Level.node [5, 6] [.leaf [1, 2] 0, .leaf [1] 2] 0 : Level Int) := by
  simp [Level.WF, Level.WFList, Level.offset, Level.len]
example : (Level.node [5, 6] [.leaf [1, 2] 0, .leaf [1] 2] 0 : Level Int).iter
    = some [[5, 1], [5, 2], [6, 1]] := by decide
example : ((HState.ofLevel (Level.node [5, 6] [.leaf [1] 0, .leaf [1] 1] 0 : Level Int) 2).run
    [.readValues, .append [6, 2], .readLen, .readValuesAtDepth 1]).2.length = 4 := by decide

example : (Level.node [5, 6] [.leaf [1, 2] 0, .leaf [1] 2] 0 : Level Int).locToIloc [.list [6, 5], .label 1]
    = .ok (.list [2, 0]) := by decide
example : SimpleKey ([.list [6, 5], .label 1] : List (Sel Int)) := by
  constructor
  · intro dep
    match dep with
    | 0 => rfl
    | 1 => rfl
    | n + 2 => rfl
  · intro dep as h
    match dep, h with
    | 0, h => cases h; decide
    | 1, h => cases h
    | n + 2, h => cases h

end SF.C05
