/-
  C05 — Hierarchical index: tree and table views agree; per-level selection is exact.

  Property theorems only (helper lemmas: LevelLemmas, LevelViewLemmas, LevelCacheLemmas,
  LevelHLocLemmas, LevelSliceLemmas, LevelStepLemmas).  The model (`Level.iter`, `valuesAtDepth`, `toTypeBlocks`, `contains`,
  `locToIloc`, `HState.step`) mirrors the deque loops and the `_recache` protocol of the code.
-/
import SFModel.LevelCacheLemmas
import SFModel.LevelHLocLemmas
import SFModel.LevelSliceLemmas
import SFModel.LevelStepLemmas
set_option linter.unusedSectionVars false

namespace SF.C05
open SF IntLabel

variable {α : Type} [DecidableEq α] [IntLabel α]

/-- In a well-formed tree all views describe the same sequence of tuples: the breadth-first
    iteration (`__iter__`, and `IndexLevel.values`, the same loop) yields the tuples in index
    order with fuel = number of nodes; `values_at_depth(dl)` is the column of `dl`-th components;
    `to_type_blocks` has one such column per depth and its rows are the tuples; the length is
    the number of tuples; membership (`__contains__` with its depth check) ⇔ being one of the tuples, for every key; and
    `leaf_loc_to_iloc` is the inverse of positional access. -/
theorem views_agree {t : Level α} {d : Nat} (h : Level.WF d t) :
    t.iter = some t.tuples ∧
    (∀ dl, dl < d → ∃ c, t.valuesAtDepth d dl = .ok c ∧ c.map some = t.tuples.map (·[dl]?)) ∧
    (∃ cols, t.toTypeBlocks d = .ok cols ∧ cols.length = d ∧ HState.rowsOf t.tuples.length cols = t.tuples) ∧
    t.len = t.tuples.length ∧
    (∀ key, t.containsKey d key = true ↔ key ∈ t.tuples) ∧
    (∀ key i, t.leafLocToIloc key = .ok i ↔ t.tuples[i]? = some key) := by
  refine ⟨Level.iter_eq_tuples h, fun dl hdl => Level.valuesAtDepth_spec h hdl, ?_,
    (Level.tuples_length t d h).symm, Level.containsKey_spec h, ?_⟩
  · obtain ⟨cols, h1, h2, h3⟩ := Level.toTypeBlocks_spec h
    exact ⟨cols, h1, h2, HState.rowsOf_spec h2 (Level.tuples_depth t d h) h3⟩
  · intro key i
    unfold Level.leafLocToIloc
    rw [Level.leafLoc_spec t d h key 0 i]
    constructor
    · rintro ⟨j, hj, ht⟩; simp only [Nat.zero_add] at hj; subst hj; exact ht
    · intro ht; exact ⟨i, by simp, ht⟩

/-- PINNED-TREE BEHAVIOUR (finding F42, repaired in /repo commit 88fd864): the descent of
    `IndexLevel.__contains__` alone answers `True` for an over-long key whose prefix is held; the
    repaired method checks the key length first (`containsKey`). -/
theorem containsPinned_overlong_counterexample :
    (Level.node [0, 1] [.leaf [1] 0, .leaf [1] 1] 0 : Level Int).contains [0, 1, 7] = true ∧
    (Level.node [0, 1] [.leaf [1] 0, .leaf [1] 1] 0 : Level Int).containsKey 2 [0, 1, 7] = false := by decide

/-- For EVERY history of append / extend / read calls on an IndexHierarchyGO whose state is
    coherent (well-formed tree; blocks either flagged stale or equal to `to_type_blocks` of the
    tree) the state stays coherent and every read returns the view of the tree held at the time of
    the call — also after the cached arrays were materialised and the tree grew again. -/
theorem cache_coherent (s : HState α) (h : s.Coherent) (ops : List (HOp α)) (ha : s.Admissible ops) :
    (s.run ops).1.Coherent ∧ s.AllAgree ops (s.run ops).2 :=
  HState.run_spec ops s h ha

/-- a freshly constructed IndexHierarchyGO is coherent -/
theorem ofLevel_coherent {t : Level α} {d : Nat} (hd : 2 ≤ d) (h : Level.WF d t) :
    (HState.ofLevel t d).Coherent :=
  ⟨hd, h, fun hr => by simp [HState.ofLevel] at hr⟩

/-! ### per-level selection -/

/-- The key consists of label / all / list selectors (missing trailing depths count as `all`), and
    no list selector repeats a label. -/
def SimpleKey (key : List (Sel α)) : Prop :=
  (∀ dep, (key.getD dep .all).simple = true) ∧ (∀ dep as, key.getD dep .all = .list as → as.Nodup)

/-- The HLoc loop (`while levels: … popleft()`) terminates within fuel = number of IndexLevel
    objects: the model never answers the out-of-fuel error, every collected part is well formed. -/
theorem hloc_fuel {t : Level α} {d : Nat} (h : Level.WF d t) (ho : t.offset = 0) (key : List (Sel α))
    (hk : SimpleKey key) :
    ∃ parts, bfs (Level.hlocVisit key) t.nodes [(t, (0, 0))] = some (parts.map .ok) ∧
      Level.flattenParts t.len parts = .ok ((Level.specPos key t 0 0).map Int.ofNat) :=
  let ⟨parts, h1, h2, _⟩ := Level.locToIloc_simple h ho key hk.1 hk.2
  ⟨parts, h1, h2⟩

/-- PARTIAL (selectors label / all / list at every depth, any mix; label slices and the Boolean mask
    at the innermost depth are compared with the code and the list-of-tuples reference only).
    Full statement: the same with `Sel.slice a b none` (labels between a and b of the node,
    inclusive) and `Sel.mask` at the innermost depth admitted in `SimpleKey`.

    For a well-formed tree `loc_to_iloc(HLoc[key])` either raises KeyError because nothing matches,
    or returns an iloc key addressing exactly `specPos`: the depth-first enumeration in which every
    node visits its selected targets in selector order (index order for a label / `:`, the order of
    the list for a list selector) — and a position is in `specPos` iff its tuple matches every
    per-depth selector. -/
theorem hloc_exact_partial {t : Level α} {d : Nat} (h : Level.WF d t) (ho : t.offset = 0)
    (key : List (Sel α)) (hk : SimpleKey key) :
    ((t.locToIloc key = .error .lookup ∧ Level.specPos key t 0 0 = []) ∨
      ∃ r, t.locToIloc key = .ok r ∧ r.positions t.len = .ok (Level.specPos key t 0 0)) ∧
    (∀ p, p ∈ Level.specPos key t 0 0 ↔ ∃ tup, t.tuples[p]? = some tup ∧ Level.matchFrom key 0 tup = true) :=
  ⟨Level.locToIloc_simple_result h ho key hk.1 hk.2, Level.specPos_mem_iff h key hk.1⟩

/-! ### per-level selection with label slices -/

/-- The key consists of label / all / list selectors and LABEL SLICES whose step is `None` or `1`
    (missing trailing depths count as `all`), and no list selector repeats a label. -/
def SliceKey (key : List (Sel α)) : Prop :=
  (∀ dep, (key.getD dep .all).simpleS = true) ∧ (∀ dep as, key.getD dep .all = .list as → as.Nodup)

/-- Selectors label / all / list / label slice `a:b`, `a:`, `:b`, `:` with step `None` or `1`, any
    mix, any depth (extends `hloc_exact_partial`, which stays as it is).

    A slice is resolved by every visited node against its own label order, so the specification
    is node-aware (definitions in `LevelSliceLemmas`):
      * `Sel.matchesIn ls a sel`: in a node with labels `ls` a slice selects the label `a` iff the
        POSITION of `a` among `ls` lies between the positions of the endpoints, both inclusive (an
        open endpoint does not constrain); label / all / list select by value as before;
      * `Level.matchIn key t 0 tup`: every component of the tuple is selected by the selector of its
        depth in the node the component lives in (the node reached through the components before it);
      * `Level.clean key t 0`: no VISITED node lacks a slice endpoint of its depth's selector — the
        root is visited, and so is every target below a selected label of a visited node;
      * `Level.specPosS`: the depth-first enumeration in which every node visits its selected targets
        in selector order (index order for label / `:` / slice, the order of the list for a list).

    For a well-formed tree:
     (1) when no visited node lacks an endpoint, `loc_to_iloc(HLoc[key])` either raises KeyError
         because nothing matches, or returns an iloc key addressing exactly `specPosS`;
     (2) a position is in `specPosS` iff its tuple matches every per-depth selector (`matchIn`);
     (3) without list selectors `specPosS` IS the list of matching positions in index order;
     (4) when some visited node lacks an endpoint the call raises (LocInvalid from that node, which
         is not caught): the answer is never data.
    The Boolean mask and slices with another step are compared with the code and the
    list-of-tuples reference only. -/
theorem hloc_exact_slices {t : Level α} {d : Nat} (h : Level.WF d t) (ho : t.offset = 0)
    (key : List (Sel α)) (hk : SliceKey key) :
    (Level.clean key t 0 = true →
      (t.locToIloc key = .error .lookup ∧ Level.specPosS key t 0 0 = []) ∨
        ∃ r, t.locToIloc key = .ok r ∧ r.positions t.len = .ok (Level.specPosS key t 0 0)) ∧
    (∀ p, p ∈ Level.specPosS key t 0 0 ↔
      ∃ tup, t.tuples[p]? = some tup ∧ Level.matchIn key t 0 tup = true) ∧
    ((∀ dep as, key.getD dep .all ≠ .list as) → Level.specPosS key t 0 0 = Level.matchPositions key t) ∧
    (Level.clean key t 0 ≠ true → t.locToIloc key = .error .lookup) :=
  ⟨Level.locToIloc_slices_result h ho key hk.1 hk.2, Level.specPosS_mem_iff h key hk.1,
    Level.specPosS_eq_matchPositions h key hk.1, Level.locToIloc_slices_lookup h ho key hk.1 hk.2⟩

/-- The same read from the answer: whenever `loc_to_iloc(HLoc[key])` returns data, no visited node
    lacked a slice endpoint and the iloc key addresses exactly the positions whose tuple matches every
    per-depth selector (node-aware for slices) — in index order when the key has no list selector. -/
theorem hloc_slices_answer {t : Level α} {d : Nat} (h : Level.WF d t) (ho : t.offset = 0)
    (key : List (Sel α)) (hk : SliceKey key) {r : IKey} (hr : t.locToIloc key = .ok r) :
    Level.clean key t 0 = true ∧
    ∃ ps, r.positions t.len = .ok ps ∧
      (∀ p, p ∈ ps ↔ ∃ tup, t.tuples[p]? = some tup ∧ Level.matchIn key t 0 tup = true) ∧
      ((∀ dep as, key.getD dep .all ≠ .list as) → ps = Level.matchPositions key t) := by
  obtain ⟨h1, h2, h3, h4⟩ := hloc_exact_slices h ho key hk
  have hc : Level.clean key t 0 = true := by
    by_cases hc : Level.clean key t 0 = true
    · exact hc
    · rw [h4 hc] at hr; cases hr
  refine ⟨hc, Level.specPosS key t 0 0, ?_, h2, h3⟩
  rcases h1 hc with ⟨he, _⟩ | ⟨r', hr', hp⟩
  · rw [he] at hr; cases hr
  · rw [hr'] at hr; cases hr; exact hp

/-- Keys without slice endpoints (label / all / list, fully open slices) are always clean. -/
theorem clean_of_no_endpoints (key : List (Sel α))
    (hp : ∀ dep ls, (key.getD dep .all).present ls = true) (t : Level α) : Level.clean key t 0 = true :=
  Level.clean_of_present key hp t 0

/-- A full tuple of labels selects its single position, returned as an integer; a tuple that is
    not held is a KeyError. -/
theorem hloc_full_tuple {t : Level α} {d : Nat} (h : Level.WF d t) (ho : t.offset = 0) (labs : List α)
    (hl : labs.length = d) :
    (t.locToIloc (labs.map .label) = .error .lookup ∧ labs ∉ t.tuples) ∨
    ∃ p : Nat, t.locToIloc (labs.map .label) = .ok (.int p) ∧ t.tuples[p]? = some labs :=
  Level.locToIloc_full_tuple h ho labs hl

/-- The repaired bound of commit 79a552f (finding F46): at a leaf (an offset is applied) a half-open
    label slice stays inside the leaf — `a:` ends at `offset + len(leaf)`, `:a` starts at `offset`;
    both are stop-inclusive. -/
theorem leaf_open_slice_bounded {ls : List α} (hn : ls.Nodup) {i : Nat} {a : α} (hi : ls[i]? = some a)
    (off : Nat) :
    (Level.nodeIndex ls).locToIlocP (.slice (some a) none none) (some off) true
      = .ok (.slice ⟨some ((i : Int) + off), some ((off : Int) + ls.length), none⟩) ∧
    (Level.nodeIndex ls).locToIlocP (.slice none (some a) none) (some off) true
      = .ok (.slice ⟨some (off : Int), some ((i : Int) + off + 1), none⟩) := by
  have hg := AMap.get?_zipIdx_some 0 hn hi
  simp only [Nat.add_zero] at hg
  constructor <;>
    simp [Level.nodeIndex, Index.locToIlocP, Index.locMap, Index.mapSliceArgs, Index.mapSliceArg, Index.mapSliceStop, hg,
      Index.boundSlice, Index.len]

/-! ### non-vacuity -/

instance : IntLabel Int := ⟨id, some, fun _ => rfl, fun a i h => by simp at h; exact h⟩

example : Level.WF 2 (Level.node [5, 6] [.leaf [1, 2] 0, .leaf [1] 2] 0 : Level Int) := by
  simp [Level.WF, Level.WFList, Level.offset, Level.len]
example : (Level.node [5, 6] [.leaf [1, 2] 0, .leaf [1] 2] 0 : Level Int).iter
    = some [[5, 1], [5, 2], [6, 1]] := by decide
example : ((HState.ofLevel (Level.node [5, 6] [.leaf [1] 0, .leaf [1] 1] 0 : Level Int) 2).run
    [.readValues, .append [6, 2], .readLen, .readValuesAtDepth 1]).2.length = 4 := by decide

example : (Level.node [5, 6] [.leaf [1, 2] 0, .leaf [1] 2] 0 : Level Int).locToIloc [.list [6, 5], .label 1]
    = .ok (.list [2, 0]) := by decide
example : SimpleKey ([.list [6, 5], .label 1] : List (Sel Int)) := by
  constructor
  · intro dep
    match dep with
    | 0 => rfl
    | 1 => rfl
    | n + 2 => rfl
  · intro dep as h
    match dep, h with
    | 0, h => cases h; decide
    | 1, h => cases h
    | n + 2, h => cases h

/-! #### label slices (`hloc_exact_slices`): a depth-3 hierarchy whose nodes order their labels
    differently.  `HLoc[:, 5:6, 2:3]`: under outer label 10 the node `[5, 6]` selects both targets
    and the leaf `[2, 9, 3]` selects 2, 9 and 3 (by position, not by value); under outer label 20 the
    node `[6, 5]` selects nothing (5 comes after 6 there). -/

def exTree : Level Int :=
  .node [10, 20]
    [.node [5, 6] [.leaf [1, 2, 3] 0, .leaf [2, 9, 3] 3] 0,
     .node [6, 5] [.leaf [3, 2] 0, .leaf [2, 3, 4] 2] 6] 0

def exKey : List (Sel Int) := [.all, .slice (some 5) (some 6) none, .slice (some 2) (some 3) (some 1)]

example : Level.WF 3 exTree := by
  simp [exTree, Level.WF, Level.WFList, Level.offset, Level.len, Level.lenList]
example : SliceKey exKey := by
  constructor
  · intro dep
    match dep with
    | 0 => rfl
    | 1 => decide
    | 2 => decide
    | n + 3 => rfl
  · intro dep as h
    match dep, h with
    | 0, h => cases h
    | 1, h => cases h
    | 2, h => cases h
    | n + 3, h => cases h
example : ∀ dep as, exKey.getD dep .all ≠ .list as := by
  intro dep as h
  match dep, h with
  | 0, h => cases h
  | 1, h => cases h
  | 2, h => cases h
  | n + 3, h => cases h
example : Level.clean exKey exTree 0 = true := by decide
example : exTree.locToIloc exKey = .ok (.list [1, 2, 3, 4, 5]) := by decide
example : Level.matchPositions exKey exTree = [1, 2, 3, 4, 5] := by decide
/-- under 20 the node `[6, 5]` selects its first target for `6:6`; in the leaf `[3, 2]` the slice
    `3:2` is ascending by position (3 comes before 2 there) -/
example : exTree.locToIloc [.label 20, .slice (some 6) (some 6) none, .slice (some 3) (some 2) none]
    = .ok (.list [6, 7]) := by decide
/-- an endpoint absent from a visited node: under 10 the leaf `[1, 2, 3]` lacks 9 → LocInvalid,
    although the leaf `[2, 9, 3]` holds it -/
example : Level.clean [.all, .all, .slice (some 2) (some 9) none] exTree 0 = false := by decide
example : exTree.locToIloc [.all, .all, .slice (some 2) (some 9) none] = .error .lookup := by decide
/-- the same slice is clean when only the leaf holding 9 is visited -/
example : Level.clean [.label 10, .label 6, .slice (some 2) (some 9) none] exTree 0 = true := by decide
example : exTree.locToIloc [.label 10, .label 6, .slice (some 2) (some 9) none]
    = .ok (.list [3, 4]) := by decide

/-! ### per-level selection with label slices of any non-zero step -/

/-- The key consists of label / all / list selectors and LABEL SLICES with any non-zero step (`None`,
    `1`, a step `k > 1`, a negative step), any mix, any depth (missing trailing depths count as `all`),
    and no list selector repeats a label. -/
def StepKey (key : List (Sel α)) : Prop :=
  (∀ dep, (key.getD dep .all).stepOK = true) ∧ (∀ dep as, key.getD dep .all = .list as → as.Nodup)

/-- every `SliceKey` is a `StepKey` -/
theorem StepKey.of_sliceKey {key : List (Sel α)} (hk : SliceKey key) : StepKey key := by
  refine ⟨fun dep => ?_, hk.2⟩
  have := hk.1 dep
  cases h : key.getD dep .all with
  | slice s e st =>
    rw [h] at this
    simp only [Sel.simpleS, decide_eq_true_eq] at this
    rcases this with rfl | rfl <;> simp [Sel.stepOK]
  | mask bs => rw [h] at this; simp [Sel.simpleS] at this
  | _ => rfl

/-- Selectors label / all / list / label slice with ANY non-zero step, any mix, any depth (extends
    `hloc_exact_slices`, which stays as it is).

    Every visited node maps a label slice `a:b:k` onto its OWN positions (`LocMap.map_slice_args` with
    the repaired stop, `Index.mapSliceStop`), definitions in `LevelStepLemmas`:
      * `Sel.startT ls k a`: the position of `a` among the node's labels `ls`; open: position 0 for
        `k > 0`, the last position for `k < 0`;
      * `Sel.stopT ls k b`: position of `b` plus 1 for `k > 0` (open: the number of labels), position of `b`
        MINUS 1 for `k < 0` (open: `-1`, i.e. below the first position);
      * `Sel.matchesT ls start x sel`: a slice selects the label `x` of the node iff the position `p` of
        `x` is an element of `range(startT, stopT, k)` — `inRange`: for `k > 0`
        `startT ≤ p < stopT ∧ (p - startT) % k = 0`, for `k < 0` `stopT < p ≤ startT ∧ (startT - p) % (-k) = 0`;
        label / all / list select by value as before;
      * `Level.matchT key t 0 0 tup`: every component of the tuple is selected by the selector of its depth
        in the node the component lives in;
      * `Level.cleanT key t 0`: no VISITED node lacks a slice endpoint (an absent endpoint is LocInvalid);
      * `Level.specPosT`: the depth-first enumeration in which every node visits the targets it selects in
        the order `range(startT, stopT, k)` yields them: index order for `k > 0` (and label / `:`),
        DESCENDING for `k < 0`, the order of the list for a list selector;
      * `Level.NE key t`: the key has no negative step, or every leaf index holds a label (true of every
        hierarchy built from labels).  It is needed: on an EMPTY leaf at offset 0 the bounded start of
        an open descending slice is `-1`, which `slice.indices` reads from the END of the hierarchy.

    For a well-formed tree:
     (1) when no visited node lacks an endpoint, `loc_to_iloc(HLoc[key])` either raises KeyError because
         nothing matches, or returns an iloc key addressing exactly `specPosT` (in that order);
     (2) a position is in `specPosT` iff its tuple matches every per-depth selector (`matchT`);
     (3) without list selectors and without negative steps `specPosT` IS the list of matching positions
         in index order;
     (4) in every case `specPosT` is a rearrangement of the matching positions: each exactly once;
     (5) when some visited node lacks an endpoint the call raises LocInvalid: the answer is never data. -/
theorem hloc_exact_stepped {t : Level α} {d : Nat} (h : Level.WF d t) (ho : t.offset = 0)
    (key : List (Sel α)) (hk : StepKey key) (hne : Level.NE key t) :
    (Level.cleanT key t 0 = true →
      (t.locToIloc key = .error .lookup ∧ Level.specPosT key t 0 0 = []) ∨
        ∃ r, t.locToIloc key = .ok r ∧ r.positions t.len = .ok (Level.specPosT key t 0 0)) ∧
    (∀ p, p ∈ Level.specPosT key t 0 0 ↔
      ∃ tup, t.tuples[p]? = some tup ∧ Level.matchT key t 0 0 tup = true) ∧
    ((∀ dep as, key.getD dep .all ≠ .list as) → (∀ dep, (key.getD dep .all).desc = false) →
      Level.specPosT key t 0 0 = Level.matchPositionsT key t) ∧
    (Level.specPosT key t 0 0).Perm (Level.matchPositionsT key t) ∧
    (Level.cleanT key t 0 ≠ true → t.locToIloc key = .error .lookup) :=
  have hs : ∀ dep, (key.getD dep .all).okAt (dep + 1 == d) t.len = true :=
    fun dep => Level.okAt_of_stepOK (hk.1 dep) _ _
  ⟨Level.locToIloc_stepped_result h ho key hs hk.2 hne, Level.specPosT_mem_iff h key t.len hs,
    Level.specPosT_eq_matchPositionsT h key t.len hs, Level.specPosT_perm_matchPositionsT h key t.len hs hk.2,
    Level.locToIloc_stepped_lookup h ho key hs hk.2 hne⟩

/-- The order inside one node: the targets (labels of a leaf) a selector picks are visited in index order
    unless the selector is a list (order of the list) or a slice with a negative step — and such a slice
    visits them in DESCENDING order. -/
theorem stepped_node_order (ls : List α) (sel : Sel α) :
    ((∀ as, sel ≠ .list as) → sel.desc = false → (sel.idxsT ls).Pairwise (· < ·)) ∧
    (sel.desc = true → (sel.idxsT ls).Pairwise (· > ·)) :=
  ⟨Level.idxsT_sorted, Level.idxsT_desc⟩

/-- What a slice selects in a node, read arithmetically: position `i` is visited iff the label at `i`
    matches, i.e. `i ∈ range(startT, stopT, k)`. -/
theorem stepped_node_selects {ls : List α} (hls : ls.Nodup) {sel : Sel α} (hs : sel.stepOK = true) (i : Nat) :
    i ∈ sel.idxsT ls ↔ ∃ a, ls[i]? = some a ∧ sel.matchesT ls 0 a = true :=
  Level.mem_idxsT hls hs 0 i

/-- The same read from the answer: whenever `loc_to_iloc(HLoc[key])` returns data, no visited node lacked
    a slice endpoint and the iloc key addresses exactly the positions whose tuple matches every per-depth
    selector, each once — in index order when the key has neither a list selector nor a negative step. -/
theorem hloc_stepped_answer {t : Level α} {d : Nat} (h : Level.WF d t) (ho : t.offset = 0)
    (key : List (Sel α)) (hk : StepKey key) (hne : Level.NE key t) {r : IKey} (hr : t.locToIloc key = .ok r) :
    Level.cleanT key t 0 = true ∧
    ∃ ps, r.positions t.len = .ok ps ∧ ps = Level.specPosT key t 0 0 ∧
      (∀ p, p ∈ ps ↔ ∃ tup, t.tuples[p]? = some tup ∧ Level.matchT key t 0 0 tup = true) ∧
      ps.Perm (Level.matchPositionsT key t) ∧
      ((∀ dep as, key.getD dep .all ≠ .list as) → (∀ dep, (key.getD dep .all).desc = false) →
        ps = Level.matchPositionsT key t) := by
  obtain ⟨h1, h2, h3, h4, h5⟩ := hloc_exact_stepped h ho key hk hne
  have hc : Level.cleanT key t 0 = true := by
    by_cases hc : Level.cleanT key t 0 = true
    · exact hc
    · rw [h5 hc] at hr; cases hr
  refine ⟨hc, Level.specPosT key t 0 0, ?_, rfl, h2, h4, h3⟩
  rcases h1 hc with ⟨he, _⟩ | ⟨r', hr', hp⟩
  · rw [he] at hr; cases hr
  · rw [hr'] at hr; cases hr; exact hp

/-- Keys without slice endpoints (label / all / list, fully open slices `::k`) are always clean. -/
theorem cleanT_of_no_endpoints (key : List (Sel α))
    (hp : ∀ dep ls, (key.getD dep .all).present ls = true) (t : Level α) : Level.cleanT key t 0 = true :=
  Level.cleanT_of_present key hp t 0

/-! ### a Boolean mask at the innermost depth -/

/-- `HLoc[outer…, mask]`: a Boolean mask at the innermost depth of a hierarchy of depth `d` below `d - 1`
    selectors of the kinds of `hloc_exact_stepped` (label / all / list / slices with any non-zero step).
    Every leaf cuts the mask to its own run of positions (`depth_key[offset : offset + len(level)]`), so
    the mask selects by GLOBAL position: with `sel = specPosT outer` (what the outer selectors alone
    select, in the order of `hloc_exact_stepped`; the missing innermost depth counts as `:`)
     (1) when no visited node lacks a slice endpoint of the OUTER selectors, `loc_to_iloc` either raises
         KeyError because nothing is selected, or returns an iloc key addressing exactly `sel` filtered by
         the mask — same order;
     (2) a position is in the result iff the mask holds `True` there and its tuple matches the outer
         selectors;
     (3) without list selectors and negative steps the result is in index order: the matching positions
         of the outer selectors that hold `True`;
     (4) a visited node lacking an endpoint: LocInvalid, never data.
    The mask has to cover the hierarchy (`len(t) ≤ len(mask)`; NumPy's slicing of the mask silently
    tolerates a longer one, a shorter one makes a leaf raise). -/
theorem hloc_exact_mask {t : Level α} {d : Nat} (h : Level.WF d t) (ho : t.offset = 0)
    (outer : List (Sel α)) (bs : List Bool) (hk : StepKey outer) (hlen : outer.length + 1 = d)
    (hbs : t.len ≤ bs.length) (hne : Level.NE outer t) :
    (Level.cleanT outer t 0 = true →
      (t.locToIloc (outer ++ [.mask bs]) = .error .lookup ∧
          (Level.specPosT outer t 0 0).filter (fun p => bs.getD p false) = []) ∨
        ∃ r, t.locToIloc (outer ++ [.mask bs]) = .ok r ∧
          r.positions t.len = .ok ((Level.specPosT outer t 0 0).filter (fun p => bs.getD p false))) ∧
    (∀ p, p ∈ (Level.specPosT outer t 0 0).filter (fun p => bs.getD p false) ↔
      bs.getD p false = true ∧ ∃ tup, t.tuples[p]? = some tup ∧ Level.matchT outer t 0 0 tup = true) ∧
    ((∀ dep as, outer.getD dep .all ≠ .list as) → (∀ dep, (outer.getD dep .all).desc = false) →
      (Level.specPosT outer t 0 0).filter (fun p => bs.getD p false) =
        (Level.matchPositionsT outer t).filter (fun p => bs.getD p false)) ∧
    (Level.cleanT outer t 0 ≠ true → t.locToIloc (outer ++ [.mask bs]) = .error .lookup) := by
  have hs : ∀ dep, ((outer ++ [Sel.mask bs]).getD dep .all).okAt (dep + 1 == d) t.len = true :=
    Level.okAt_snoc_mask hk.1 bs hlen hbs
  have hnd : ∀ dep as, (outer ++ [Sel.mask bs]).getD dep .all = .list as → as.Nodup := by
    intro dep as he
    rw [Level.getD_snoc_mask] at he
    by_cases hd : dep = outer.length
    · rw [if_pos hd] at he; cases he
    · rw [if_neg hd] at he; exact hk.2 dep as he
  have hne' := Level.NE_snoc_mask bs hne
  have hsp := Level.specPosT_mask outer bs d t 0 0 h (by omega)
  have hcl := Level.cleanT_mask outer bs d t 0 h (by omega)
  obtain ⟨_, a2, a3, _, _⟩ := hloc_exact_stepped h ho outer hk hne
  refine ⟨fun hc => ?_, fun p => ?_, fun hnl hnd' => by rw [a3 hnl hnd'], fun hc => ?_⟩
  · rw [← hsp]
    exact Level.locToIloc_stepped_result h ho _ hs hnd hne' (by rw [hcl]; exact hc)
  · rw [List.mem_filter, a2 p]
    exact ⟨fun ⟨x, y⟩ => ⟨y, x⟩, fun ⟨x, y⟩ => ⟨y, x⟩⟩
  · exact Level.locToIloc_stepped_lookup h ho _ hs hnd hne' (by rw [hcl]; exact hc)

/-- the result of `hloc_exact_mask` said with the key itself: the tuple at a selected position matches
    the whole key, the mask component by the global position of the tuple -/
theorem mask_matches_by_position {t : Level α} {d : Nat} (h : Level.WF d t) (outer : List (Sel α))
    (bs : List Bool) (hlen : outer.length + 1 = d) {tup : List α} {p : Nat} (ht : t.tuples[p]? = some tup) :
    Level.matchT (outer ++ [.mask bs]) t 0 0 tup = (Level.matchT outer t 0 0 tup && bs.getD p false) :=
  Level.matchT_mask_root h outer bs hlen ht

/-! #### stepped / descending slices and the innermost mask on `exTree`

    `exTree` (11 tuples):  10 → 5 → [1, 2, 3] (0-2),  10 → 6 → [2, 9, 3] (3-5),
                           20 → 6 → [3, 2] (6-7),     20 → 5 → [2, 3, 4] (8-10). -/

theorem exTree_NE (key : List (Sel Int)) : Level.NE key exTree := Or.inr (by decide)

/-- `HLoc[::-1, :, ::2]`: outer labels descending (20 before 10), every other label of each leaf -/
def exKeyStep : List (Sel Int) := [.slice none none (some (-1)), .all, .slice none none (some 2)]

example : StepKey exKeyStep := by
  constructor
  · intro dep
    match dep with
    | 0 => decide
    | 1 => rfl
    | 2 => decide
    | n + 3 => rfl
  · intro dep as h
    match dep, h with
    | 0, h => cases h
    | 1, h => cases h
    | 2, h => cases h
    | n + 3, h => cases h
example : Level.cleanT exKeyStep exTree 0 = true := by decide
example : exTree.locToIloc exKeyStep = .ok (.list [6, 8, 10, 0, 2, 3, 5]) := by decide
example : Level.specPosT exKeyStep exTree 0 0 = [6, 8, 10, 0, 2, 3, 5] := by decide
example : Level.matchPositionsT exKeyStep exTree = [0, 2, 3, 5, 6, 8, 10] := by decide

/-- `HLoc[:, 6:5:-1, 3:2:-1]`: a descending slice between two labels, resolved per node.  Under 10 the
    node `[5, 6]` visits 6 then 5; the leaf `[2, 9, 3]` selects the labels 3, 9, 2 (positions 2, 1, 0: by
    position, 9 lies between), the leaf `[1, 2, 3]` the labels 3, 2.  Under 20 the node `[6, 5]` selects
    nothing: 5 comes AFTER 6 there, `6:5:-1` is `range(0, 0, -1)`. -/
def exKeyDesc : List (Sel Int) :=
  [.all, .slice (some 6) (some 5) (some (-1)), .slice (some 3) (some 2) (some (-1))]

example : StepKey exKeyDesc := by
  constructor
  · intro dep
    match dep with
    | 0 => rfl
    | 1 => decide
    | 2 => decide
    | n + 3 => rfl
  · intro dep as h
    match dep, h with
    | 0, h => cases h
    | 1, h => cases h
    | 2, h => cases h
    | n + 3, h => cases h
example : Level.cleanT exKeyDesc exTree 0 = true := by decide
example : exTree.locToIloc exKeyDesc = .ok (.list [5, 4, 3, 2, 1]) := by decide
example : Level.specPosT exKeyDesc exTree 0 0 = [5, 4, 3, 2, 1] := by decide
example : Level.matchPositionsT exKeyDesc exTree = [1, 2, 3, 4, 5] := by decide
/-- a positive step k > 1 between labels: `2::2` in every leaf (an endpoint held by every visited leaf) -/
example : exTree.locToIloc [.all, .all, .slice (some 2) none (some 2)] = .ok (.list [1, 3, 5, 7, 8, 10]) := by decide
/-- the repaired stop of a descending slice: `:2:-1` runs from the last label DOWN TO the label 2 -/
example : exTree.locToIloc [.label 10, .label 6, .slice none (some 2) (some (-1))] = .ok (.list [5, 4, 3]) := by decide
/-- an endpoint absent from a visited node → LocInvalid, also for a descending slice -/
example : Level.cleanT [.all, .all, .slice (some 9) none (some (-1))] exTree 0 = false := by decide
example : exTree.locToIloc [.all, .all, .slice (some 9) none (some (-1))] = .error .lookup := by decide
/-- step 0 is outside `StepKey`: the model answers NumPy's ValueError -/
example : exTree.locToIloc [.all, .all, .slice none none (some 0)] = .error .value := by decide

/-- `Level.NE` is needed: a well-formed tree with an EMPTY leaf at offset 0 (not constructible from labels).
    For `HLoc[:, ::-1]` the empty leaf yields `slice(-1, None, -1)` (`boundSlice`: start `offset + len - 1`),
    which `slice.indices(2)` reads from the end: both positions are produced twice. -/
theorem stepped_empty_leaf_counterexample :
    Level.WF 2 (Level.node [7, 8] [.leaf [] 0, .leaf [1, 2] 0] 0 : Level Int) ∧
    (Level.node [7, 8] [.leaf [] 0, .leaf [1, 2] 0] 0 : Level Int).locToIloc [.all, .slice none none (some (-1))]
      = .ok (.list [1, 0, 1, 0]) ∧
    Level.specPosT [.all, .slice none none (some (-1))] (Level.node [7, 8] [.leaf [] 0, .leaf [1, 2] 0] 0 : Level Int) 0 0
      = [1, 0] := by
  refine ⟨by simp [Level.WF, Level.WFList, Level.offset, Level.len], by decide, by decide⟩

/-- an innermost mask below a descending outer slice: `HLoc[::-1, :, mask]` -/
def exMask : List Bool := [true, false, true, true, false, false, true, true, false, false, true]
def exOuter : List (Sel Int) := [.slice none none (some (-1)), .all]

example : StepKey exOuter := by
  constructor
  · intro dep
    match dep with
    | 0 => decide
    | 1 => rfl
    | n + 2 => rfl
  · intro dep as h
    match dep, h with
    | 0, h => cases h
    | 1, h => cases h
    | n + 2, h => cases h
example : exOuter.length + 1 = 3 ∧ exTree.len ≤ exMask.length := by decide
example : Level.cleanT exOuter exTree 0 = true := by decide
example : Level.specPosT exOuter exTree 0 0 = [6, 7, 8, 9, 10, 0, 1, 2, 3, 4, 5] := by decide
example : exTree.locToIloc (exOuter ++ [.mask exMask]) = .ok (.list [6, 7, 10, 0, 2, 3]) := by decide
example : (Level.specPosT exOuter exTree 0 0).filter (fun p => exMask.getD p false) = [6, 7, 10, 0, 2, 3] := by decide
/-- index order without a descending / list selector above the mask -/
example : exTree.locToIloc [.all, .slice (some 6) (some 6) none, .mask exMask] = .ok (.list [3, 6, 7]) := by decide
example : (Level.matchPositionsT [.all, .slice (some 6) (some 6) none] exTree).filter (fun p => exMask.getD p false)
    = [3, 6, 7] := by decide
/-- a mask that does not cover the hierarchy makes the last leaf raise -/
example : exTree.locToIloc [.all, .all, .mask (exMask.take 10)] = .error .lookup := by decide

end SF.C05
