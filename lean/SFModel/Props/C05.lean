/-
  C05 — Hierarchical index: tree and table views agree; per-level selection is exact.

  Property theorems only (helper lemmas: LevelLemmas, LevelViewLemmas, LevelCacheLemmas,
  LevelHLocLemmas, LevelSliceLemmas).  The model (`Level.iter`, `valuesAtDepth`, `toTypeBlocks`, `contains`,
  `locToIloc`, `HState.step`) mirrors the deque loops and the `_recache` protocol of the code.
-/
import SFModel.LevelCacheLemmas
import SFModel.LevelHLocLemmas
import SFModel.LevelSliceLemmas
set_option linter.unusedSectionVars false

namespace SF.C05
open SF IntLabel

variable {α : Type} [DecidableEq α] [IntLabel α]

/-- In a well-formed tree all views describe the same sequence of tuples: the breadth-first
    iteration (`__iter__`, and `IndexLevel.values`, the same loop) yields the tuples in index
    order with fuel = number of nodes; `values_at_depth(dl)` is the column of `dl`-th components;
    `to_type_blocks` has one such column per depth and its rows are the tuples; the length is
    the number of tuples; membership (`__contains__` with its depth check) ⇔ being one of the tuples, for every key; and
    `leaf_loc_to_iloc` is the inverse of positional access. -/
theorem views_agree {t : Level α} {d : Nat} (h : Level.WF d t) :
    t.iter = some t.tuples ∧
    (∀ dl, dl < d → ∃ c, t.valuesAtDepth d dl = .ok c ∧ c.map some = t.tuples.map (·[dl]?)) ∧
    (∃ cols, t.toTypeBlocks d = .ok cols ∧ cols.length = d ∧ HState.rowsOf t.tuples.length cols = t.tuples) ∧
    t.len = t.tuples.length ∧
    (∀ key, t.containsKey d key = true ↔ key ∈ t.tuples) ∧
    (∀ key i, t.leafLocToIloc key = .ok i ↔ t.tuples[i]? = some key) := by
  refine ⟨Level.iter_eq_tuples h, fun dl hdl => Level.valuesAtDepth_spec h hdl, ?_,
    (Level.tuples_length t d h).symm, Level.containsKey_spec h, ?_⟩
  · obtain ⟨cols, h1, h2, h3⟩ := Level.toTypeBlocks_spec h
    exact ⟨cols, h1, h2, HState.rowsOf_spec h2 (Level.tuples_depth t d h) h3⟩
  · intro key i
    unfold Level.leafLocToIloc
    rw [Level.leafLoc_spec t d h key 0 i]
    constructor
    · rintro ⟨j, hj, ht⟩; simp only [Nat.zero_add] at hj; subst hj; exact ht
    · intro ht; exact ⟨i, by simp, ht⟩

/-- PINNED-TREE BEHAVIOUR (finding F42, repaired in /repo commit 88fd864): the descent of
    `IndexLevel.__contains__` alone answers `True` for an over-long key whose prefix is held; the
    repaired method checks the key length first (`containsKey`). -/
theorem containsPinned_overlong_counterexample :
    (Level.node [0, 1] [.leaf [1] 0, .leaf [1] 1] 0 : Level Int).contains [0, 1, 7] = true ∧
    (Level.node [0, 1] [.leaf [1] 0, .leaf [1] 1] 0 : Level Int).containsKey 2 [0, 1, 7] = false := by decide

/-- For EVERY history of append / extend / read calls on an IndexHierarchyGO whose state is
    coherent (well-formed tree; blocks either flagged stale or equal to `to_type_blocks` of the
    tree) the state stays coherent and every read returns the view of the tree held at the time of
    the call — also after the cached arrays were materialised and the tree grew again. -/
theorem cache_coherent (s : HState α) (h : s.Coherent) (ops : List (HOp α)) (ha : s.Admissible ops) :
    (s.run ops).1.Coherent ∧ s.AllAgree ops (s.run ops).2 :=
  HState.run_spec ops s h ha

/-- a freshly constructed IndexHierarchyGO is coherent -/
theorem ofLevel_coherent {t : Level α} {d : Nat} (hd : 2 ≤ d) (h : Level.WF d t) :
    (HState.ofLevel t d).Coherent :=
  ⟨hd, h, fun hr => by simp [HState.ofLevel] at hr⟩

/-! ### per-level selection -/

/-- The key consists of label / all / list selectors (missing trailing depths count as `all`), and
    no list selector repeats a label. -/
def SimpleKey (key : List (Sel α)) : Prop :=
  (∀ dep, (key.getD dep .all).simple = true) ∧ (∀ dep as, key.getD dep .all = .list as → as.Nodup)

/-- The HLoc loop (`while levels: … popleft()`) terminates within fuel = number of IndexLevel
    objects: the model never answers the out-of-fuel error, every collected part is well formed. -/
theorem hloc_fuel {t : Level α} {d : Nat} (h : Level.WF d t) (ho : t.offset = 0) (key : List (Sel α))
    (hk : SimpleKey key) :
    ∃ parts, bfs (Level.hlocVisit key) t.nodes [(t, (0, 0))] = some (parts.map .ok) ∧
      Level.flattenParts t.len parts = .ok ((Level.specPos key t 0 0).map Int.ofNat) :=
  let ⟨parts, h1, h2, _⟩ := Level.locToIloc_simple h ho key hk.1 hk.2
  ⟨parts, h1, h2⟩

/-- PARTIAL (selectors label / all / list at every depth, any mix; label slices and the Boolean mask
    at the innermost depth are compared with the code and the list-of-tuples reference only).
    Full statement: the same with `Sel.slice a b none` (labels between a and b of the node,
    inclusive) and `Sel.mask` at the innermost depth admitted in `SimpleKey`.

    For a well-formed tree `loc_to_iloc(HLoc[key])` either raises KeyError because nothing matches,
    or returns an iloc key addressing exactly `specPos`: the depth-first enumeration in which every
    node visits its selected targets in selector order (index order for a label / `:`, the order of
    the list for a list selector) — and a position is in `specPos` iff its tuple matches every
    per-depth selector. -/
theorem hloc_exact_partial {t : Level α} {d : Nat} (h : Level.WF d t) (ho : t.offset = 0)
    (key : List (Sel α)) (hk : SimpleKey key) :
    ((t.locToIloc key = .error .lookup ∧ Level.specPos key t 0 0 = []) ∨
      ∃ r, t.locToIloc key = .ok r ∧ r.positions t.len = .ok (Level.specPos key t 0 0)) ∧
    (∀ p, p ∈ Level.specPos key t 0 0 ↔ ∃ tup, t.tuples[p]? = some tup ∧ Level.matchFrom key 0 tup = true) :=
  ⟨Level.locToIloc_simple_result h ho key hk.1 hk.2, Level.specPos_mem_iff h key hk.1⟩

/-! ### per-level selection with label slices -/

/-- The key consists of label / all / list selectors and LABEL SLICES whose step is `None` or `1`
    (missing trailing depths count as `all`), and no list selector repeats a label. -/
def SliceKey (key : List (Sel α)) : Prop :=
  (∀ dep, (key.getD dep .all).simpleS = true) ∧ (∀ dep as, key.getD dep .all = .list as → as.Nodup)

/-- Selectors label / all / list / label slice `a:b`, `a:`, `:b`, `:` with step `None` or `1`, any
    mix, any depth (extends `hloc_exact_partial`, which stays as it is).

    A slice is resolved by every visited node against its own label order, so the specification
    is node-aware (definitions in `LevelSliceLemmas`):
      * `Sel.matchesIn ls a sel`: in a node with labels `ls` a slice selects the label `a` iff the
        POSITION of `a` among `ls` lies between the positions of the endpoints, both inclusive (an
        open endpoint does not constrain); label / all / list select by value as before;
      * `Level.matchIn key t 0 tup`: every component of the tuple is selected by the selector of its
        depth in the node the component lives in (the node reached through the components before it);
      * `Level.clean key t 0`: no VISITED node lacks a slice endpoint of its depth's selector — the
        root is visited, and so is every target below a selected label of a visited node;
      * `Level.specPosS`: the depth-first enumeration in which every node visits its selected targets
        in selector order (index order for label / `:` / slice, the order of the list for a list).

    For a well-formed tree:
     (1) when no visited node lacks an endpoint, `loc_to_iloc(HLoc[key])` either raises KeyError
         because nothing matches, or returns an iloc key addressing exactly `specPosS`;
     (2) a position is in `specPosS` iff its tuple matches every per-depth selector (`matchIn`);
     (3) without list selectors `specPosS` IS the list of matching positions in index order;
     (4) when some visited node lacks an endpoint the call raises (LocInvalid from that node, which
         is not caught): the answer is never data.
    The Boolean mask and slices with another step are compared with the code and the
    list-of-tuples reference only. -/
theorem hloc_exact_slices {t : Level α} {d : Nat} (h : Level.WF d t) (ho : t.offset = 0)
    (key : List (Sel α)) (hk : SliceKey key) :
    (Level.clean key t 0 = true →
      (t.locToIloc key = .error .lookup ∧ Level.specPosS key t 0 0 = []) ∨
        ∃ r, t.locToIloc key = .ok r ∧ r.positions t.len = .ok (Level.specPosS key t 0 0)) ∧
    (∀ p, p ∈ Level.specPosS key t 0 0 ↔
      ∃ tup, t.tuples[p]? = some tup ∧ Level.matchIn key t 0 tup = true) ∧
    ((∀ dep as, key.getD dep .all ≠ .list as) → Level.specPosS key t 0 0 = Level.matchPositions key t) ∧
    (Level.clean key t 0 ≠ true → t.locToIloc key = .error .lookup) :=
  ⟨Level.locToIloc_slices_result h ho key hk.1 hk.2, Level.specPosS_mem_iff h key hk.1,
    Level.specPosS_eq_matchPositions h key hk.1, Level.locToIloc_slices_lookup h ho key hk.1 hk.2⟩

/-- The same read from the answer: whenever `loc_to_iloc(HLoc[key])` returns data, no visited node
    lacked a slice endpoint and the iloc key addresses exactly the positions whose tuple matches every
    per-depth selector (node-aware for slices) — in index order when the key has no list selector. -/
theorem hloc_slices_answer {t : Level α} {d : Nat} (h : Level.WF d t) (ho : t.offset = 0)
    (key : List (Sel α)) (hk : SliceKey key) {r : IKey} (hr : t.locToIloc key = .ok r) :
    Level.clean key t 0 = true ∧
    ∃ ps, r.positions t.len = .ok ps ∧
      (∀ p, p ∈ ps ↔ ∃ tup, t.tuples[p]? = some tup ∧ Level.matchIn key t 0 tup = true) ∧
      ((∀ dep as, key.getD dep .all ≠ .list as) → ps = Level.matchPositions key t) := by
  obtain ⟨h1, h2, h3, h4⟩ := hloc_exact_slices h ho key hk
  have hc : Level.clean key t 0 = true := by
    by_cases hc : Level.clean key t 0 = true
    · exact hc
    · rw [h4 hc] at hr; cases hr
  refine ⟨hc, Level.specPosS key t 0 0, ?_, h2, h3⟩
  rcases h1 hc with ⟨he, _⟩ | ⟨r', hr', hp⟩
  · rw [he] at hr; cases hr
  · rw [hr'] at hr; cases hr; exact hp

/-- Keys without slice endpoints (label / all / list, fully open slices) are always clean. -/
theorem clean_of_no_endpoints (key : List (Sel α))
    (hp : ∀ dep ls, (key.getD dep .all).present ls = true) (t : Level α) : Level.clean key t 0 = true :=
  Level.clean_of_present key hp t 0

/-- A full tuple of labels selects its single position, returned as an integer; a tuple that is
    not held is a KeyError. -/
theorem hloc_full_tuple {t : Level α} {d : Nat} (h : Level.WF d t) (ho : t.offset = 0) (labs : List α)
    (hl : labs.length = d) :
    (t.locToIloc (labs.map .label) = .error .lookup ∧ labs ∉ t.tuples) ∨
    ∃ p : Nat, t.locToIloc (labs.map .label) = .ok (.int p) ∧ t.tuples[p]? = some labs :=
  Level.locToIloc_full_tuple h ho labs hl

/-- The repaired bound of commit 79a552f (finding F46): at a leaf (an offset is applied) a half-open
    label slice stays inside the leaf — `a:` ends at `offset + len(leaf)`, `:a` starts at `offset`;
    both are stop-inclusive. -/
theorem leaf_open_slice_bounded {ls : List α} (hn : ls.Nodup) {i : Nat} {a : α} (hi : ls[i]? = some a)
    (off : Nat) :
    (Level.nodeIndex ls).locToIlocP (.slice (some a) none none) (some off) true
      = .ok (.slice ⟨some ((i : Int) + off), some ((off : Int) + ls.length), none⟩) ∧
    (Level.nodeIndex ls).locToIlocP (.slice none (some a) none) (some off) true
      = .ok (.slice ⟨some (off : Int), some ((i : Int) + off + 1), none⟩) := by
  have hg := AMap.get?_zipIdx_some 0 hn hi
  simp only [Nat.add_zero] at hg
  constructor <;>
    simp [Level.nodeIndex, Index.locToIlocP, Index.locMap, Index.mapSliceArgs, Index.mapSliceArg, Index.mapSliceStop, hg,
      Index.boundSlice, Index.len]

/-! ### non-vacuity -/

instance : IntLabel Int := ⟨id, some, fun _ => rfl, fun a i h => by simp at h; exact h⟩

example : Level.WF 2 (Level.node [5, 6] [.leaf [1, 2] 0, .leaf [1] 2] 0 : Level Int) := by
  simp [Level.WF, Level.WFList, Level.offset, Level.len]
example : (Level.node [5, 6] [.leaf [1, 2] 0, .leaf [1] 2] 0 : Level Int).iter
    = some [[5, 1], [5, 2], [6, 1]] := by decide
example : ((HState.ofLevel (Level.node [5, 6] [.leaf [1] 0, .leaf [1] 1] 0 : Level Int) 2).run
    [.readValues, .append [6, 2], .readLen, .readValuesAtDepth 1]).2.length = 4 := by decide

example : (Level.node [5, 6] [.leaf [1, 2] 0, .leaf [1] 2] 0 : Level Int).locToIloc [.list [6, 5], .label 1]
    = .ok (.list [2, 0]) := by decide
example : SimpleKey ([.list [6, 5], .label 1] : List (Sel Int)) := by
  constructor
  · intro dep
    match dep with
    | 0 => rfl
    | 1 => rfl
    | n + 2 => rfl
  · intro dep as h
    match dep, h with
    | 0, h => cases h; decide
    | 1, h => cases h
    | n + 2, h => cases h

/-! #### label slices (`hloc_exact_slices`): a depth-3 hierarchy whose nodes order their labels
    differently.  `HLoc[:, 5:6, 2:3]`: under outer label 10 the node `[5, 6]` selects both targets
    and the leaf `[2, 9, 3]` selects 2, 9 and 3 (by position, not by value); under outer label 20 the
    node `[6, 5]` selects nothing (5 comes after 6 there). -/

def exTree : Level Int :=
  .node [10, 20]
    [.node [5, 6] [.leaf [1, 2, 3] 0, .leaf [2, 9, 3] 3] 0,
     .node [6, 5] [.leaf [3, 2] 0, .leaf [2, 3, 4] 2] 6] 0

def exKey : List (Sel Int) := [.all, .slice (some 5) (some 6) none, .slice (some 2) (some 3) (some 1)]

example : Level.WF 3 exTree := by
  simp [exTree, Level.WF, Level.WFList, Level.offset, Level.len, Level.lenList]
example : SliceKey exKey := by
  constructor
  · intro dep
    match dep with
    | 0 => rfl
    | 1 => decide
    | 2 => decide
    | n + 3 => rfl
  · intro dep as h
    match dep, h with
    | 0, h => cases h
    | 1, h => cases h
    | 2, h => cases h
    | n + 3, h => cases h
example : ∀ dep as, exKey.getD dep .all ≠ .list as := by
  intro dep as h
  match dep, h with
  | 0, h => cases h
  | 1, h => cases h
  | 2, h => cases h
  | n + 3, h => cases h
example : Level.clean exKey exTree 0 = true := by decide
example : exTree.locToIloc exKey = .ok (.list [1, 2, 3, 4, 5]) := by decide
example : Level.matchPositions exKey exTree = [1, 2, 3, 4, 5] := by decide
/-- under 20 the node `[6, 5]` selects its first target for `6:6`; in the leaf `[3, 2]` the slice
    `3:2` is ascending by position (3 comes before 2 there) -/
example : exTree.locToIloc [.label 20, .slice (some 6) (some 6) none, .slice (some 3) (some 2) none]
    = .ok (.list [6, 7]) := by decide
/-- an endpoint absent from a visited node: under 10 the leaf `[1, 2, 3]` lacks 9 → LocInvalid,
    although the leaf `[2, 9, 3]` holds it -/
example : Level.clean [.all, .all, .slice (some 2) (some 9) none] exTree 0 = false := by decide
example : exTree.locToIloc [.all, .all, .slice (some 2) (some 9) none] = .error .lookup := by decide
/-- the same slice is clean when only the leaf holding 9 is visited -/
example : Level.clean [.label 10, .label 6, .slice (some 2) (some 9) none] exTree 0 = true := by decide
example : exTree.locToIloc [.label 10, .label 6, .slice (some 2) (some 9) none]
    = .ok (.list [3, 4]) := by decide

end SF.C05
