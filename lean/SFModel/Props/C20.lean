/-
  C20 — reshaping and relational operations follow their relational definitions.

  Property theorems only (helper lemmas live in RelLemmas.lean).  The statements are about the
  mirrored algorithms of `SFModel/Rel.lean` (`Frame._join` with its position-based match discovery,
  label sets and the composite / non-composite constructions; `set_index`, `set_index_hierarchy`,
  `unset_index`, `relabel_shift_in/out`; `pivot`; `pivot_stack / pivot_unstack`) and relate them to
  the relational definitions over lists of rows (nested-loop join; group-by then aggregate).
  The harness compares the models with the real methods on every run.
-/
import SFModel.RelLemmas
import SFModel.RelStackLemmas
set_option linter.unusedSectionVars false

namespace SF.C20
open SF SF.Rel

/-! ### join -/

section Join
variable {lam γ α κ : Type} [DecidableEq lam] [DecidableEq γ]
variable (kl kr : Row lam α → κ) (keq : κ → κ → Bool)

/-- Match discovery (`map_iloc`: per left row the positions `flatnonzero` of the matching right rows,
    read back through both label indices) finds exactly the matching (l, r) pairs of the nested-loop
    join, in left-major order. -/
theorem join_match_discovery (L R : List (Row lam α)) :
    manyLoc kl kr keq L R =
      (L.flatMap fun l => (R.filter fun r => keq (kl l) (kr r)).map fun r => (l, r)).map
        fun (l, r) => JLabel.pair l.label r.label :=
  manyLoc_eq kl kr keq L R

/-- Composite index (the default), all four join types.  For operands with unique labels the
    result rows are exactly: the matching (l, r) pairs in left-major order, labelled `Pair(l, r)`,
    each carrying the cells of ITS left row followed by the cells of ITS right row; then, for
    LEFT / OUTER, the left rows without a match (`PairLeft`, right part filled); then, for RIGHT /
    OUTER, the right rows without a match (`PairRight`, left part filled).  The result columns are
    the renamed left columns followed by the renamed right columns (rejected when not unique). -/
theorem join_spec (jt : JoinType) (tl tr : γ → γ) (fill : α) (L R : Tbl lam γ α)
    (hL : (L.rows.map (·.label)).Nodup) (hR : (R.rows.map (·.label)).Nodup) :
    joinComposite kl kr keq jt tl tr fill L R =
      (joinColumns tl tr L.columns R.columns).map fun cols =>
        ⟨joinSpec kl kr keq jt L.columns.length R.columns.length fill L.rows R.rows, cols⟩ := by
  unfold joinComposite
  rw [manyRows_eq kl kr keq jt fill _ _ L.rows R.rows hL hR]
  cases joinColumns tl tr L.columns R.columns <;> rfl

/-- `composite_index=False` (1:1 matches; otherwise the call is refused): proved for INNER, and for
    LEFT when no unmatched left label is also a label of the right frame.  The result is labelled by
    the left labels and each row carries its left row and its matching right row (or fill).
    Full statement (all four join types, no side condition) is FALSE for the mirrored algorithm:
    see the three counterexamples below (finding F6). -/
theorem join_noncomposite_partial (jt : JoinType) (hjt : jt = .inner ∨ jt = .left) (tl tr : γ → γ) (fill : α)
    (L R : Tbl lam γ α) (hL : (L.rows.map (·.label)).Nodup)
    (hone : isManyLoop false [] (mapIloc kl kr keq L.rows R.rows) = false)
    (hdisj : jt = .left → ∀ l ∈ unmatchedLeft kl kr keq L.rows R.rows, ∀ r ∈ R.rows, r.label ≠ l.label) :
    joinNonComposite kl kr keq jt tl tr fill L R =
      (joinColumns tl tr L.columns R.columns).map fun cols =>
        ⟨joinSpecLeftLabel kl kr keq jt R.columns.length fill L.rows R.rows, cols⟩ := by
  unfold joinNonComposite
  simp only [hone, Bool.false_eq_true, if_false]
  rw [oneRows_eq kl kr keq jt hjt fill _ _ L.rows R.rows hL hone hdisj]
  cases joinColumns tl tr L.columns R.columns <;> rfl

end Join


/-! ### set_index / set_index_hierarchy / unset_index / relabel_shift_in / relabel_shift_out -/

section Moves
variable {γ α : Type} [DecidableEq γ] [DecidableEq α]

/-- `unset_index (set_index f c drop=True)`: the cells of `f` with column `c` moved to the front
    (label `c` first, the other labels in order), every row keeps its cells, the index is the
    automatic one.  No hypothesis on the number of columns: the case where `c` is the only column
    (the intermediate frame has rows but no column) is included. -/
theorem index_moves_inverse (f g h : Fr γ α) (c : γ) (auto : Nat → α) (an : γ)
    (h1 : setIndex f c true = .ok g) (h2 : unsetIndex g [] auto an = .ok h) :
    ∃ j, locToIloc f.columns c = .ok j ∧ j < f.columns.length ∧
      h.columns = c :: rest f.columns [j] ∧
      h.rows = f.rows.map (fun r => sel r [j] ++ rest r [j]) ∧
      h.index = autoIndex auto f.rows.length ∧ h.indexNames = [an] := by
  obtain ⟨j, hj, gn, gi, gc, gr⟩ := setIndex_ok h1
  obtain ⟨hn, hi, hc, hr⟩ := unsetIndex_ok h2
  simp only [if_true] at gc gr
  refine ⟨j, hj, (locToIloc_sel hj).1, ?_, ?_, ?_, hn⟩
  · rw [hc, gn, gc]; rfl
  · rw [hr, gi, gr, zipWith_map_map]
  · rw [hi, gr, List.length_map]

/-- the same for `set_index_hierarchy` with several columns (in key order) -/
theorem index_moves_inverse_hierarchy (f g h : Fr γ α) (cs : List γ) (auto : Nat → α) (an : γ)
    (h1 : setIndexHierarchy f cs true = .ok g) (h2 : unsetIndex g [] auto an = .ok h) :
    ∃ js, cs.mapM (locToIloc f.columns) = .ok js ∧ (∀ j ∈ js, j < f.columns.length) ∧
      h.columns = sel f.columns js ++ rest f.columns js ∧
      h.rows = f.rows.map (fun r => sel r js ++ rest r js) ∧
      h.index = autoIndex auto f.rows.length ∧ h.indexNames = [an] := by
  obtain ⟨js, hjs, gn, gi, gc, gr⟩ := setIndexHierarchy_ok h1
  obtain ⟨hn, hi, hc, hr⟩ := unsetIndex_ok h2
  simp only [if_true] at gc gr
  refine ⟨js, hjs, mapM_locToIloc_bound hjs, ?_, ?_, ?_, hn⟩
  · rw [hc, gn, gc]
  · rw [hr, gi, gr, zipWith_map_map]
  · rw [hi, gr, List.length_map]

/-- every cell stays in its row: each result row is a permutation of its source row, and no row
    is added or lost -/
theorem index_moves_rows_perm (f : Fr γ α) (wf : f.WF) (js : List Nat) (hn : js.Nodup)
    (hb : ∀ j ∈ js, j < f.columns.length) :
    (f.rows.map fun r => sel r js ++ rest r js).length = f.rows.length ∧
    ∀ r ∈ f.rows, (sel r js ++ rest r js).Perm r := by
  refine ⟨by simp, ?_⟩
  intro r hr
  exact sel_rest_perm r js hn (fun j hj => by rw [wf.2.1 r hr]; exact hb j hj)

/-- `relabel_shift_out` of the depths that `relabel_shift_in` added: index, index names restored;
    the shifted columns come back in front of the data, every cell in its row. -/
theorem index_moves_inverse_shift (f g h : Fr γ α) (wf : f.WF) (hd : f.indexNames ≠ []) (cs : List γ)
    (js : List Nat) (hjs : cs.mapM (locToIloc f.columns) = .ok js) (auto : Nat → α) (an : γ)
    (h1 : relabelShiftIn f cs = .ok g)
    (h2 : relabelShiftOut g (List.range' f.indexNames.length js.length) auto an = .ok h) :
    h.indexNames = f.indexNames ∧ h.index = f.index ∧
      h.columns = sel f.columns js ++ rest f.columns js ∧
      h.rows = f.rows.map (fun r => sel r js ++ rest r js) := by
  obtain ⟨js', hjs', gn, gi, gc, gr⟩ := relabelShiftIn_ok h1
  rw [hjs] at hjs'
  simp only [Except.ok.injEq] at hjs'
  subst hjs'
  have hb := mapM_locToIloc_bound hjs
  have hk : (sel f.columns js).length = js.length := sel_length _ _ hb
  have hrest : rest g.indexNames (List.range' f.indexNames.length js.length) = f.indexNames := by
    rw [gn, ← hk]; exact rest_append_range' _ _
  have hsel : sel g.indexNames (List.range' f.indexNames.length js.length) = sel f.columns js := by
    rw [gn, ← hk]; exact sel_append_range' _ _
  have hne : (rest g.indexNames (List.range' f.indexNames.length js.length)).isEmpty = false := by
    rw [hrest]; cases hf : f.indexNames with
    | nil => exact (hd hf).elim
    | cons _ _ => rfl
  obtain ⟨hn, hi, hc, hr⟩ := relabelShiftOut_ok h2 hne
  have hrows : ∀ r ∈ f.rows, ∀ j ∈ js, j < r.length := fun r hr' j hj => by
    rw [wf.2.1 r hr']; exact hb j hj
  refine ⟨by rw [hn, hrest], ?_, by rw [hc, hsel, gc], ?_⟩
  · rw [hi, gi]
    exact shift_index f.indexNames.length js f.index f.rows wf.1 wf.2.2 hrows
  · rw [hr, gi, gr]
    exact shift_rows f.indexNames.length js f.index f.rows wf.1 wf.2.2 hrows

/-- non-vacuity: a 2 x 3 frame, column 1 into the index and back -/
example :
    let f : Fr Nat Nat := ⟨[100], [[0], [1]], [10, 11, 12], [[1, 2, 3], [4, 5, 6]]⟩
    (setIndex f 11 true >>= fun g => unsetIndex g [] id 100) =
      .ok ⟨[100], [[0], [1]], [11, 10, 12], [[2, 1, 3], [5, 4, 6]]⟩ := by decide

/-- every column consumed (`shape_reference`, commit 0a55f7a): the intermediate frame has its two
    rows and no column; `unset_index` restores the cells -/
example :
    let f : Fr Nat Nat := ⟨[100], [[0], [1]], [10, 11], [[1, 2], [4, 5]]⟩
    setIndexHierarchy f [11, 10] true = .ok ⟨[11, 10], [[2, 1], [5, 4]], [], [[], []]⟩ ∧
    (setIndexHierarchy f [11, 10] true >>= fun g => unsetIndex g [] id 100) =
      .ok ⟨[100], [[0], [1]], [11, 10], [[2, 1], [5, 4]]⟩ ∧
    (setIndex ⟨[100], [[0], [1]], [10], [[7], [8]]⟩ 10 true >>= fun g => unsetIndex g [] id 100) =
      .ok (⟨[100], [[0], [1]], [10], [[7], [8]]⟩ : Fr Nat Nat) := by decide

example :
    let f : Fr Nat Nat := ⟨[100], [[0], [1]], [10, 11, 12], [[1, 2, 3], [4, 5, 6]]⟩
    (relabelShiftIn f [12, 10] >>= fun g => relabelShiftOut g [1, 2] id 100) =
      .ok ⟨[100], [[0], [1]], [12, 10, 11], [[3, 1, 2], [6, 4, 5]]⟩ := by decide

end Moves


/-! ### pivot -/

section Pivot
variable {γ α : Type} [DecidableEq γ] [DecidableEq α]

/-- `Frame.pivot` with columns fields.  (`UniqSpec`: `ufunc_unique` / `iter_group_items` deliver
    every distinct key exactly once.)  The result has one row per distinct index-field value, one
    column per distinct columns-field value x data field x function (labelled by
    `extrapolate_column_fields`), and the cell of (index value k, columns value g, data field j,
    function fn) is `pivotCell`: the fill value where no source row has that (k, g) pair, else
    `aggOne fn` of the data cells of EXACTLY the source rows with that pair — both construction
    branches of the code (aggregated sub-frame / "no aggregation necessary" raw copy) agree on it.
    `aggOne fn` is `fn` except on one-row groups, which the code does not hand to `fn`. -/
theorem pivot_spec (uniq : List (List α) → List (List α)) (hu : UniqSpec uniq) (f : Fr γ α)
    (wf : ∀ r ∈ f.rows, r.length = f.columns.length)
    (ifs cfs dfs : List γ) (funcs : List (γ × (List α → α))) (fill : α) (ij cj dj : List Nat)
    (hfun : funcs.isEmpty = false) (hifs : ifs.isEmpty = false) (hcfs : cfs.isEmpty = false)
    (hval : (ifs ++ cfs).any (fun c => !f.columns.contains c) = false)
    (hdata : (pivotData f ifs cfs dfs).isEmpty = false)
    (hij : ifs.mapM (locToIloc f.columns) = .ok ij) (hcj : cfs.mapM (locToIloc f.columns) = .ok cj)
    (hdj : (pivotData f ifs cfs dfs).mapM (locToIloc f.columns) = .ok dj) :
    pivot uniq f ifs cfs dfs funcs fill = .ok
      { index := uniq (f.rows.map (sel · ij)),
        columns := (uniq (f.rows.map (sel · cj))).flatMap fun g =>
          extrapolate cfs.length g (pivotData f ifs cfs dfs) (funcFieldsOf funcs),
        rows := (uniq (f.rows.map (sel · ij))).map fun k =>
          (uniq (f.rows.map (sel · cj))).flatMap fun g =>
            dj.flatMap fun j => funcs.map fun fn => pivotCell f ij cj j (aggOne fn.2) fill k g } ∧
    (uniq (f.rows.map (sel · ij))).Nodup ∧ (∀ k, k ∈ uniq (f.rows.map (sel · ij)) ↔ k ∈ f.rows.map (sel · ij)) ∧
    (∀ fn : List α → α, (∀ v, fn [v] = v) → aggOne fn = fn) :=
  ⟨pivot_eq_spec uniq hu f wf ifs cfs dfs funcs fill ij cj dj hfun hifs hcfs hval hdata hij hcj hdj,
    (hu _).1, (hu _).2, aggOne_eq_of_idem⟩

/-- `Frame.pivot` without columns fields (group by the index fields): one row per distinct index
    value, one column per data field (x function), each cell `aggOne fn` of the data cells of
    exactly the rows with that index value. -/
theorem pivot_spec_no_columns (uniq : List (List α) → List (List α)) (hu : UniqSpec uniq) (f : Fr γ α)
    (ifs dfs : List γ) (funcs : List (γ × (List α → α))) (fill : α) (ij dj : List Nat)
    (hfun : funcs.isEmpty = false) (hifs : ifs.isEmpty = false)
    (hval : (ifs ++ []).any (fun c => !f.columns.contains c) = false)
    (hdata : (pivotData f ifs [] dfs).isEmpty = false)
    (hij : ifs.mapM (locToIloc f.columns) = .ok ij)
    (hdj : (pivotData f ifs [] dfs).mapM (locToIloc f.columns) = .ok dj) :
    pivot uniq f ifs [] dfs funcs fill = .ok
      { index := uniq (f.rows.map (sel · ij)),
        columns :=
          if (funcFieldsOf funcs).isEmpty then (pivotData f ifs [] dfs).map fun d => [PLab.fld d]
          else (pivotData f ifs [] dfs).flatMap fun d => (funcFieldsOf funcs).map fun fn => [PLab.fld d, PLab.fld fn],
        rows := (uniq (f.rows.map (sel · ij))).map fun k =>
          dj.flatMap fun j => funcs.map fun fn => pivotCell f ij [] j (aggOne fn.2) fill k [] } :=
  pivot_eq_spec_no_columns uniq hu f ifs dfs funcs fill ij dj hfun hifs hval hdata hij hdj

/-- The literal property ("each cell is the function applied to exactly its source rows") FAILS for
    the mirrored algorithm when the function is not the identity on one-element groups: with a
    counting function, key 0 has two rows -> 2, key 1 has one row -> its raw value 20, not 1.
    Replayed on the real code (finding C20-pivot-singleton-func). -/
theorem pivot_singleton_counterexample :
    let f : Fr Nat Nat := ⟨[9], [[0], [1], [2]], [0, 1, 2], [[0, 5, 10], [1, 5, 20], [0, 5, 40]]⟩
    let count : List Nat → Nat := List.length
    (pivot List.eraseDups f [0] [1] [2] [(0, count)] 77).map (·.rows) = .ok [[2], [20]] ∧
    (pivot List.eraseDups f [0] [1] [2] [(0, count)] 77).map (·.rows) ≠
      .ok ([[0], [1]].map fun k => [pivotCell f [0] [1] 2 count 77 k [5]]) := by decide

/-- non-vacuity: `eraseDups` satisfies `UniqSpec` on an example; a two-function pivot, evaluated -/
example :
    let f : Fr Nat Nat := ⟨[9], [[0], [1], [2]], [0, 1, 2], [[0, 5, 10], [1, 6, 20], [0, 5, 40]]⟩
    (pivot List.eraseDups f [0] [1] [2] [(7, List.sum), (8, fun l => l.foldl max 0)] 77).map
        (fun p => (p.index, p.rows)) =
      .ok ([[0], [1]], [[50, 40, 77, 77], [77, 77, 20, 20]]) := by decide

end Pivot


/-! ### pivot_stack / pivot_unstack -/

section Stack
variable {α : Type} [DecidableEq α]

/-- `pivot_stack`: the result has one row per (source row, distinct target) in row-major order,
    labelled `row label ++ target`, one column per group (`pivot_index_map` bookkeeping); the cell
    under group `g` is the cell of THE SAME source row in a column whose label splits into
    (g, target), and it is the fill value only when no column has that split. -/
theorem stack_cells_spec (f s : HFr α) (mask : List Bool) (fill : α) (auto : Nat → α)
    (h : pivotStack f mask fill auto = .ok s) :
    s.index = (expandKeys f.index (targetsUnique mask f.columns)).map (·.1) ∧
    s.rows.length = (expandKeys f.index (targetsUnique mask f.columns)).length ∧
    ∀ (n : Nat) k row, (expandKeys f.index (targetsUnique mask f.columns))[n]? = some k → s.rows[n]? = some row →
      row.length = (g2tOf mask f.columns).length ∧
      ∀ (p : Nat) gt v, (g2tOf mask f.columns)[p]? = some gt → row[p]? = some v →
        (∃ c l, f.columns[c]? = some l ∧ split mask l = (gt.1, k.2.2) ∧ cellAt f.rows k.2.1 c = some v) ∨
        (v = fill ∧ ∀ l ∈ f.columns, split mask l ≠ (gt.1, k.2.2)) := by
  obtain ⟨hi, hr⟩ := pivotStack_ok h
  obtain ⟨hlen, hp⟩ := mapM_ok_getElem hr
  refine ⟨hi, hlen, ?_⟩
  intro n k row hk hrow
  exact pimRecord_spec mask f.columns k.2.2 _ fill row (hp n k row hk hrow)

/-- `pivot_unstack`: one result column per (source column, distinct target), labelled
    `column label ++ target`, one row per group; the entry under group `g` is the cell of THE SAME
    source column in a row whose label splits into (g, target), the fill value only when there is
    no such row. -/
theorem unstack_cells_spec (f u : HFr α) (mask : List Bool) (fill : α) (auto : Nat → α)
    (h : pivotUnstack f mask fill auto = .ok u) :
    u.columns = (expandKeys f.columns (targetsUnique mask f.index)).map (·.1) ∧
    ∃ cols : List (List α),
      u.rows = (List.range (g2tOf mask f.index).length).map (fun i => cols.filterMap fun col => col[i]?) ∧
      cols.length = (expandKeys f.columns (targetsUnique mask f.index)).length ∧
      ∀ (n : Nat) k col, (expandKeys f.columns (targetsUnique mask f.index))[n]? = some k → cols[n]? = some col →
        col.length = (g2tOf mask f.index).length ∧
        ∀ (p : Nat) gt v, (g2tOf mask f.index)[p]? = some gt → col[p]? = some v →
          (∃ r l, f.index[r]? = some l ∧ split mask l = (gt.1, k.2.2) ∧ cellAt f.rows r k.2.1 = some v) ∨
          (v = fill ∧ ∀ l ∈ f.index, split mask l ≠ (gt.1, k.2.2)) := by
  obtain ⟨hc, cols, hcols, hrows⟩ := pivotUnstack_ok h
  obtain ⟨hlen, hp⟩ := mapM_ok_getElem hcols
  refine ⟨hc, cols, hrows, hlen, ?_⟩
  intro n k col hk hcol
  exact pimRecord_spec mask f.index k.2.2 _ fill col (hp n k col hk hcol)

/-- Full statement (not proved): for uniform column trees `pivot_unstack d (pivot_stack d f)` has
    exactly the cells of `f`.  Proved here: both halves cell by cell — every cell of the stacked
    frame is a cell of `f` of the same row whose column carries (group, target), every cell of the
    unstacked frame is a cell of the stacked frame of the same column whose row carries (group,
    target), and fill values appear only where no such column / row exists.  Missing: the
    identification of the produced positions with the original ones (needs the order and
    uniqueness facts of the product index `row x target`); the harness checks the round trip on
    the real code and the model. -/
theorem stack_unstack_inverse_partial (f s u : HFr α) (m1 m2 : List Bool) (fill : α) (auto : Nat → α)
    (hs : pivotStack f m1 fill auto = .ok s) (hu : pivotUnstack s m2 fill auto = .ok u) :
    (∀ (n : Nat) k row, (expandKeys f.index (targetsUnique m1 f.columns))[n]? = some k → s.rows[n]? = some row →
      ∀ (p : Nat) gt v, (g2tOf m1 f.columns)[p]? = some gt → row[p]? = some v →
        (∃ c l, f.columns[c]? = some l ∧ split m1 l = (gt.1, k.2.2) ∧ cellAt f.rows k.2.1 c = some v) ∨
        (v = fill ∧ ∀ l ∈ f.columns, split m1 l ≠ (gt.1, k.2.2))) ∧
    u.columns = (expandKeys s.columns (targetsUnique m2 s.index)).map (·.1) ∧
    s.index = (expandKeys f.index (targetsUnique m1 f.columns)).map (·.1) :=
  ⟨fun n k row hk hrow p gt v hgt hv =>
      ((stack_cells_spec f s m1 fill auto hs).2.2 n k row hk hrow).2 p gt v hgt hv,
    (unstack_cells_spec s u m2 fill auto hu).1, (stack_cells_spec f s m1 fill auto hs).1⟩

/-- non-vacuity: a 2 x 3 frame with a non-uniform column tree, stacked and unstacked -/
example :
    let f : HFr Nat := ⟨[[0], [1]], [[7, 1], [7, 2], [8, 1]], [[10, 11, 12], [20, 21, 22]]⟩
    (pivotStack f [false, true] 99 id >>= fun s => pivotUnstack s [false, true] 99 id) =
      .ok ⟨[[0], [1]], [[7, 1], [7, 2], [8, 1], [8, 2]], [[10, 11, 12, 99], [20, 21, 22, 99]]⟩ := by decide

/-- The full round trip.  `StackWF f m1 m2` (decidable, `RelStackLemmas.lean`): `f` has a row and
    a column; unique row labels; unique column labels, all of the depth of `m1`; both masks leave a
    depth on the contracted axis; UNIFORM COLUMN TREE: every group holds every target (in any
    order, the groups need not be contiguous); rectangular rows, one per row label; `m2` splits a
    stacked row label `r ++ t` back into `(r, t)` (`unstackMaskOf_spec`: the canonical mask does).
    Then `pivot_unstack m2 (pivot_stack m1 f)` succeeds and is `f` with its columns read in the
    order `regroupOrder m1 f.columns` — the groups in the order first seen, within a group the
    targets in the order first seen, each entry the position of THE column of `f` with that
    (group, target) — which is a permutation of the column positions: same index, every row keeps
    its cells under its labels, no fill value, no cell lost.  A label is shown as `regroup m1 l`
    (its group depths followed by its target depths). -/
theorem stack_unstack_roundtrip (f : HFr α) (m1 m2 : List Bool) (fill : α) (auto : Nat → α)
    (wf : StackWF f m1 m2) :
    (pivotStack f m1 fill auto >>= fun s => pivotUnstack s m2 fill auto) = .ok
      { index := f.index
        columns := sel (f.columns.map (regroup m1)) (regroupOrder m1 f.columns)
        rows := f.rows.map fun row => sel row (regroupOrder m1 f.columns) } ∧
    (regroupOrder m1 f.columns).Perm (List.range f.columns.length) :=
  stack_unstack_of_wf f m1 m2 fill auto wf

/-- Ordered uniform tree (`OrderedTree`, decidable: the columns are group-major and every group
    lists the same targets in the same order): the order is the identity — the round trip returns
    the index, the rows and the columns of `f` unchanged, each column label regrouped. -/
theorem stack_unstack_roundtrip_ordered (f : HFr α) (m1 m2 : List Bool) (fill : α) (auto : Nat → α)
    (wf : StackWF f m1 m2) (hord : OrderedTree m1 f.columns) :
    (pivotStack f m1 fill auto >>= fun s => pivotUnstack s m2 fill auto) = .ok
      { index := f.index, columns := f.columns.map (regroup m1), rows := f.rows } := by
  rw [(stack_unstack_roundtrip f m1 m2 fill auto wf).1]
  obtain ⟨_, _, _, hC, hdep, _, _, _, _, hrect, _⟩ := wf
  rw [regroupOrder_of_product m1 f.columns (split_nodup_of_depth m1 f.columns hC hdep) hord]
  refine congrArg Except.ok ?_
  congr 1
  · exact sel_range _ _ (by simp)
  · have : ∀ row ∈ f.rows, sel row (List.range f.columns.length) = row :=
      fun row hrow => sel_range row _ (hrect row hrow)
    rw [List.map_congr_left this, List.map_id']

/-- The usual call (`m1` keeps the outer `a` depths and stacks the inner `b` depths; `m2` is the
    canonical inverse mask for row labels of depth `n`): `pivot_unstack (pivot_stack f) = f`. -/
theorem stack_unstack_roundtrip_id (f : HFr α) (a b n : Nat) (fill : α) (auto : Nat → α)
    (wf : StackWF f (List.replicate a false ++ List.replicate b true)
      (unstackMaskOf n (List.replicate a false ++ List.replicate b true)))
    (hord : OrderedTree (List.replicate a false ++ List.replicate b true) f.columns) :
    (pivotStack f (List.replicate a false ++ List.replicate b true) fill auto >>= fun s =>
      pivotUnstack s (unstackMaskOf n (List.replicate a false ++ List.replicate b true)) fill auto) =
      .ok f := by
  rw [stack_unstack_roundtrip_ordered f _ _ fill auto wf hord]
  obtain ⟨_, _, _, _, hdep, _⟩ := wf
  have : ∀ l ∈ f.columns, regroup (List.replicate a false ++ List.replicate b true) l = l :=
    fun l hl => regroup_id a b l (by rw [hdep l hl]; simp)
  rw [List.map_congr_left this, List.map_id']

/-- the round trip addressed by labels: every column `l` of `f` is a column `regroup m1 l` of the
    result and holds, in every row, the cell of `f`; nothing else is in the result. -/
theorem stack_unstack_roundtrip_cells (f u : HFr α) (m1 m2 : List Bool) (fill : α) (auto : Nat → α)
    (wf : StackWF f m1 m2)
    (hu : (pivotStack f m1 fill auto >>= fun s => pivotUnstack s m2 fill auto) = .ok u) :
    u.index = f.index ∧ u.rows.length = f.rows.length ∧ u.columns.length = f.columns.length ∧
    ∀ (c : Nat) l, f.columns[c]? = some l →
      ∃ p, u.columns[p]? = some (regroup m1 l) ∧ ∀ i, cellAt u.rows i p = cellAt f.rows i c := by
  obtain ⟨he, hperm⟩ := stack_unstack_roundtrip f m1 m2 fill auto wf
  rw [he] at hu
  simp only [Except.ok.injEq] at hu
  subst hu
  obtain ⟨_, _, _, _, _, _, _, _, _, hrect, _⟩ := wf
  have hb : ∀ j ∈ regroupOrder m1 f.columns, j < f.columns.length := fun j hj => by
    simpa using (hperm.mem_iff.mp hj)
  have hlen : (regroupOrder m1 f.columns).length = f.columns.length := by
    simpa using hperm.length_eq
  refine ⟨rfl, by simp, ?_, ?_⟩
  · show (sel _ _).length = _
    rw [sel_length _ _ (by simpa using hb), hlen]
  · intro c l hc
    have hclt : c < f.columns.length := (List.getElem?_eq_some_iff.mp hc).1
    have hmem : c ∈ regroupOrder m1 f.columns := hperm.mem_iff.mpr (by simpa using hclt)
    obtain ⟨p, hp⟩ := List.mem_iff_getElem?.mp hmem
    refine ⟨p, ?_, ?_⟩
    · show (sel _ _)[p]? = _
      unfold sel
      rw [pick_getElem? _ _ _ (by simpa using hb), hp]
      simp [hc]
    · intro i
      unfold cellAt
      show ((f.rows.map _)[i]?).bind _ = _
      rw [List.getElem?_map]
      cases hrow : f.rows[i]? with
      | none => rfl
      | some row =>
        have hrl := hrect row (List.mem_of_getElem? hrow)
        simp only [Option.map_some, Option.bind_some]
        unfold sel
        rw [pick_getElem? _ _ _ (by rw [hrl]; exact hb), hp]
        rfl

/-- non-vacuity: a 2 x 4 frame, two groups x two targets.  The hypotheses hold, the canonical
    mask is `[false, true]`, and the round trip computes to the frame itself. -/
example :
    let f : HFr Nat := ⟨[[0], [1]], [[7, 1], [7, 2], [8, 1], [8, 2]], [[10, 11, 12, 13], [20, 21, 22, 23]]⟩
    StackWF f [false, true] [false, true] ∧ OrderedTree [false, true] f.columns ∧
    unstackMaskOf 1 [false, true] = [false, true] ∧
    List.replicate 1 false ++ List.replicate 1 true = [false, true] ∧
    (pivotStack f [false, true] 99 id >>= fun s => pivotUnstack s [false, true] 99 id) = .ok f := by
  decide

/-- the same cells with the groups interleaved (uniform but not group-major): the round trip
    gathers the groups, `regroupOrder = [0, 2, 1, 3]`; and with the target depth first in the
    labels the result labels are regrouped -/
example :
    let f : HFr Nat := ⟨[[0], [1]], [[7, 1], [8, 1], [7, 2], [8, 2]], [[10, 12, 11, 13], [20, 22, 21, 23]]⟩
    let g : HFr Nat := ⟨[[0], [1]], [[1, 7], [2, 7], [1, 8], [2, 8]], [[10, 11, 12, 13], [20, 21, 22, 23]]⟩
    StackWF f [false, true] [false, true] ∧ ¬ OrderedTree [false, true] f.columns ∧
    regroupOrder [false, true] f.columns = [0, 2, 1, 3] ∧
    (pivotStack f [false, true] 99 id >>= fun s => pivotUnstack s [false, true] 99 id) =
      .ok ⟨[[0], [1]], [[7, 1], [7, 2], [8, 1], [8, 2]], [[10, 11, 12, 13], [20, 21, 22, 23]]⟩ ∧
    StackWF g [true, false] [false, true] ∧ OrderedTree [true, false] g.columns ∧
    (pivotStack g [true, false] 99 id >>= fun s => pivotUnstack s [false, true] 99 id) =
      .ok ⟨[[0], [1]], [[7, 1], [7, 2], [8, 1], [8, 2]], [[10, 11, 12, 13], [20, 21, 22, 23]]⟩ := by
  decide

/-- the hypotheses on emptiness are needed: stacking a frame without rows loses the columns -/
example :
    (pivotStack (⟨[], [[7, 1], [7, 2]], []⟩ : HFr Nat) [false, true] 99 id >>= fun s =>
      pivotUnstack s [false, true] 99 id) = .ok ⟨[], [], []⟩ := by decide

end Stack

/-- concrete operands for the counterexamples: keys are the first cell; labels are numbers -/
private def exL : Tbl Nat Nat Nat := ⟨[⟨0, [7, 1]⟩, ⟨1, [8, 2]⟩], [0, 1]⟩
private def exR : Tbl Nat Nat Nat := ⟨[⟨0, [9, 30]⟩, ⟨1, [7, 40]⟩], [2, 3]⟩
private def exR' : Tbl Nat Nat Nat := ⟨[⟨5, [7, 40]⟩, ⟨6, [9, 30]⟩], [2, 3]⟩
private def exKey (r : Row Nat Nat) : Option Nat := r.cells.head?
private def exEq (a b : Option Nat) : Bool := a == b

/-- LEFT, both frames with the automatic index 0, 1: left row 1 (key 8) has no match, but the
    right frame has a row labelled 1, whose cells (key 7!) are attached to it. -/
theorem join_noncomposite_left_counterexample :
    joinNonComposite exKey exKey exEq .left id id 99 exL exR =
      .ok ⟨[⟨0, [7, 1, 7, 40]⟩, ⟨1, [8, 2, 7, 40]⟩], [0, 1, 2, 3]⟩ ∧
    joinSpecLeftLabel exKey exKey exEq .left 2 99 exL.rows exR.rows =
      [⟨0, [7, 1, 7, 40]⟩, ⟨1, [8, 2, 99, 99]⟩] := by decide

/-- RIGHT with a right index that differs from the left one: the result is labelled by the right
    labels and the left cells are aligned BY LABEL, so the matched left row (7, 1) is lost. -/
theorem join_noncomposite_right_counterexample :
    joinNonComposite exKey exKey exEq .right id id 99 exL exR' =
      .ok ⟨[⟨5, [99, 99, 7, 40]⟩, ⟨6, [99, 99, 9, 30]⟩], [0, 1, 2, 3]⟩ ∧
    (joinSpec exKey exKey exEq .right 2 2 99 exL.rows exR'.rows).map (·.cells) =
      [[7, 1, 7, 40], [99, 99, 9, 30]] := by decide

/-- OUTER: the matched pair is torn apart (its left half under the left label, its right half
    under the right label). -/
theorem join_noncomposite_outer_counterexample :
    joinNonComposite exKey exKey exEq .outer id id 99 exL exR' =
      .ok ⟨[⟨0, [7, 1, 7, 40]⟩, ⟨1, [8, 2, 99, 99]⟩, ⟨5, [99, 99, 7, 40]⟩, ⟨6, [99, 99, 9, 30]⟩], [0, 1, 2, 3]⟩ ∧
    (joinSpec exKey exKey exEq .outer 2 2 99 exL.rows exR'.rows).map (·.cells) =
      [[7, 1, 7, 40], [8, 2, 99, 99], [99, 99, 9, 30]] := by decide

/-- non-vacuity of `join_spec`: a 2 x 2 many-to-many composite join, evaluated -/
example :
    (joinComposite exKey exKey exEq .outer id id 99
        (⟨[⟨0, [7, 1]⟩, ⟨1, [7, 2]⟩, ⟨2, [8, 3]⟩], [0, 1]⟩ : Tbl Nat Nat Nat)
        ⟨[⟨5, [7, 40]⟩, ⟨6, [7, 50]⟩, ⟨7, [9, 60]⟩], [2, 3]⟩).map (·.rows.map (·.cells)) =
      .ok [[7, 1, 7, 40], [7, 1, 7, 50], [7, 2, 7, 40], [7, 2, 7, 50], [8, 3, 99, 99], [99, 99, 9, 60]] := by decide

/-- non-vacuity of `join_noncomposite_partial`: the 1:1 hypotheses hold for exL / exR' (inner) -/
example : isManyLoop false [] (mapIloc exKey exKey exEq exL.rows exR'.rows) = false := by decide

end SF.C20
