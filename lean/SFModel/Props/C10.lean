/-
  C10 — equals is a content equivalence; hashable variants honour the hash contract.

  Property theorems only (helper lemmas live in EqualsLemmas.lean).  The statements are about the
  mirrored algorithms of `SFModel/Equals.lean` (`TypeBlocks.equals` with its three operand
  alignments and the windowed fill loop, the `IndexLevel.equals` stack walk, `Index / Series /
  Frame / Bus.equals`, `SeriesHE / FrameHE.__eq__ / __ne__ / __hash__`); the harness compares
  these models with the real containers on every run.

  `VeqEquiv veq`: `==` on the (non-missing) values is an equivalence.  `WF`: the structural
  invariants of the containers (every column of a TypeBlocks has `rows` cells and every block a
  column — a zero-column TypeBlocks has no block and is covered; a non-terminal IndexLevel has one target per label).
-/
import SFModel.EqualsLemmas
set_option linter.unusedSectionVars false

namespace SF.C10
open SF SF.Equals

variable {ν δ κ α : Type} [DecidableEq ν] [DecidableEq δ] [DecidableEq κ] {veq : α → α → Bool}

/-- `.values` keeps every cell (true on the cell abstraction unless NumPy resolves `object` for a
    frame holding NaT: see `values_coercion_counterexample`) -/
abbrev Keeps (co : Cell α → Cell α) : Prop := ∀ x, co x = x

/-! ### equals_spec: `equals` decides exactly the content relation -/

/-- `TypeBlocks.equals` is true exactly when the row counts agree, the columns (whatever their
    grouping into blocks) are pairwise equal cell by cell — two missing cells counting as equal
    only with `skipna` — and, with `compare_dtype`, the per-column dtypes agree. -/
theorem equals_spec_blocks (o : Opts) (a b : TB δ (Cell α)) (resolved : δ) (co : Cell α → Cell α) (hco : Keeps co)
    (wa : a.WF) (wb : b.WF) :
    tbEquals veq a b o resolved co = true ↔
      a.rows = b.rows ∧ All2 (All2 (cellOk veq o.skipna)) a.columns b.columns ∧
        (o.compareDtype = true → a.dtypes = b.dtypes) :=
  tbEquals_iff veq o a b resolved co hco wa wb

/-- `Index.equals` / `IndexHierarchy.equals`: labels pairwise equal in order (for a hierarchy: the
    same tree, node by node; same shape), plus exactly the requirement of each of
    `compare_name / compare_dtype / compare_class`; an Index never equals an IndexHierarchy. -/
theorem equals_spec_axis (o : Opts) (a b : Axis ν δ κ α) (wa : a.WF) (wb : b.WF) :
    a.equals veq b o = true ↔ Axis.Spec veq o a b :=
  Axis.equals_iff veq o a b wa wb

/-- For canonical hierarchies (the labels of every node pairwise different, a non-terminal node
    has one target per label, no empty node: what `IndexHierarchy.from_labels` builds) the
    node-by-node tree relation that `IndexLevel.equals` walks is exactly "the label tuples are
    pairwise equal, in order". -/
theorem equals_spec_hierarchy_rows (hv : VeqEquiv veq) (s : Bool) (a b : Level ν δ κ α)
    (ca : Level.Canon veq s a) (cb : Level.Canon veq s b) :
    Level.Eqv veq (plainOpts s) a b ↔
      All2 (All2 (cellOk veq s)) (Level.rowsOf a) (Level.rowsOf b) :=
  ⟨Level.rows_of_eqv (plainOpts s) a b, Level.eqv_of_rows hv s a b ca cb⟩

/-- `IndexHierarchy.equals` with the content-only options on canonical hierarchies: same shape and
    label tuples pairwise equal in order. -/
theorem equals_spec_hierarchy (hv : VeqEquiv veq) (s : Bool) (a b : IH ν δ κ α)
    (wa : a.levels.WF) (wb : b.levels.WF)
    (ca : Level.Canon veq s a.levels) (cb : Level.Canon veq s b.levels) :
    a.equals veq b (plainOpts s) = true ↔
      a.shape = b.shape ∧ All2 (All2 (cellOk veq s)) (Level.rowsOf a.levels) (Level.rowsOf b.levels) := by
  rw [IH.equals_iff veq (plainOpts s) a b wa wb, IH.Spec, equals_spec_hierarchy_rows hv s _ _ ca cb]
  simp [plainOpts]

/-- The `equal_pairs` cache of `IndexLevel.equals` is sound: with identities that identify the
    Index objects (`IdSound`: same id, same object — sharing as built by `from_product` allowed),
    the walk as coded — pairs `(id(level_self.index), id(level_other.index))` found in the cache
    skip `index.equals` — answers exactly what the cache-free walk answers, so every theorem about
    `Level.equals` / `IndexHierarchy.equals` (`equals_spec_hierarchy`, …) holds for the coded loop. -/
theorem equals_cache_sound (o : Opts) (ida idb : Level ν δ κ α → Nat) (ha : IdSound ida) (hb : IdSound idb)
    (a b : Level ν δ κ α) : Level.equalsC veq ida idb a b o = Level.equals veq a b o :=
  Level.equalsC_eq veq o ida idb ha hb a b

/-- Why both components of the key matter: if the second component does not identify other's
    Index object (here: constant, as when the pair is keyed on self's object only), the cached
    walk accepts [('a',1),('a',3),('b',1),('b',2)] against the product ('a','b') x (1,2) — the last
    branch seeds the cache, the differing first branch is skipped. -/
theorem equals_cache_unsound_ids_counterexample :
    let leaf (l : List Nat) : Level Unit Unit Unit Nat := .mk ⟨l.map .val, (), (), ()⟩ true [] 0 ()
    let a : Level Unit Unit Unit Nat := .mk ⟨[.val 10, .val 11], (), (), ()⟩ false [leaf [1, 2], leaf [1, 2]] 0 ()
    let b : Level Unit Unit Unit Nat := .mk ⟨[.val 10, .val 11], (), (), ()⟩ false [leaf [1, 3], leaf [1, 2]] 0 ()
    -- ids: 0 for the root, 1 for every leaf (sound for `a`, whose leaves are one object; not for `b`)
    Level.equals (· == ·) a b {} = false ∧
    Level.equalsC (· == ·) (fun x => if x.leaf then 1 else 0) (fun x => if x.leaf then 1 else 0) a b {} = true := by
  decide

/-- the flat case spelled out -/
theorem equals_spec_index (o : Opts) (a b : Idx ν δ κ α) :
    a.equals veq b o = true ↔
      All2 (cellOk veq o.skipna) a.labels b.labels ∧ (o.compareName = true → a.name = b.name) ∧
        (o.compareDtype = true → a.dtype = b.dtype) ∧ (o.compareClass = true → a.cls = b.cls) := by
  rw [Idx.equals_iff]; simp [Idx.Spec, optsOk]

/-- `Series.equals` -/
theorem equals_spec_series (o : Opts) (a b : Series ν δ κ α) (wa : a.index.WF) (wb : b.index.WF) :
    a.equals veq b o = true ↔
      All2 (cellOk veq o.skipna) a.values b.values ∧ Axis.Spec veq o a.index b.index ∧
        (o.compareName = true → a.name = b.name) ∧ (o.compareDtype = true → a.dtype = b.dtype) ∧
        (o.compareClass = true → a.cls = b.cls) := by
  rw [Series.equals_iff veq o a b wa wb]; simp [Series.Spec, optsOk]

/-- `Frame.equals`: same shape, labels equal in order on both axes, every cell `a = b` or
    (`skipna` and both missing); `compare_name` adds the names (of the frame and of both axes),
    `compare_dtype` the per-column dtypes (and the index dtypes), `compare_class` the classes. -/
theorem equals_spec (o : Opts) (a b : Frame ν δ κ α) (resolved : δ) (co : Cell α → Cell α) (hco : Keeps co)
    (wa : a.WF) (wb : b.WF) :
    a.equals veq b o resolved co = true ↔
      (a.blocks.rows = b.blocks.rows ∧
        All2 (All2 (cellOk veq o.skipna)) a.blocks.columns b.blocks.columns ∧
        (o.compareDtype = true → a.blocks.dtypes = b.blocks.dtypes)) ∧
      Axis.Spec veq o a.index b.index ∧ Axis.Spec veq o a.columns b.columns ∧
      (o.compareName = true → a.name = b.name) ∧ (o.compareClass = true → a.cls = b.cls) :=
  Frame.equals_iff veq o a b resolved co hco wa wb

/-- `Bus.equals`: the label axis and, pairwise, the frames -/
theorem equals_spec_bus (o : Opts) (a b : Bus ν δ κ α) (resolved : δ) (co : Cell α → Cell α) (hco : Keeps co)
    (wa : a.WF) (wb : b.WF) :
    a.equals veq b o resolved co = true ↔
      All2 (Frame.Spec veq o) a.frames b.frames ∧ Axis.Spec veq o a.index b.index ∧
        (o.compareName = true → a.name = b.name) ∧ (o.compareClass = true → a.cls = b.cls) :=
  Bus.equals_iff veq o a b resolved co hco wa wb

/-! ### reflexive, symmetric, transitive -/

/-- Reflexive (content level, i.e. for a separately built copy) whenever `skipna` is on.  With
    `skipna = False` a container holding NaN is not equal to its copy (counterexample below); the
    real `a.equals(a)` is then saved by the `id(other) == id(self)` shortcut only. -/
theorem equals_refl (hv : VeqEquiv veq) (o : Opts) (hs : o.skipna = true) (a : Frame ν δ κ α) (resolved : δ)
    (co : Cell α → Cell α) (hco : Keeps co) (wa : a.WF) : a.equals veq a o resolved co = true :=
  (Frame.equals_iff veq o a a resolved co hco wa wa).mpr (Frame.Spec.refl hv hs a)

theorem equals_refl_series (hv : VeqEquiv veq) (o : Opts) (hs : o.skipna = true) (a : Series ν δ κ α)
    (wa : a.index.WF) : a.equals veq a o = true :=
  (Series.equals_iff veq o a a wa wa).mpr (Series.Spec.refl hv hs a)

theorem equals_refl_axis (hv : VeqEquiv veq) (o : Opts) (hs : o.skipna = true) (a : Axis ν δ κ α)
    (wa : a.WF) : a.equals veq a o = true :=
  (Axis.equals_iff veq o a a wa wa).mpr (Axis.Spec.refl hv hs a)

theorem equals_refl_bus (hv : VeqEquiv veq) (o : Opts) (hs : o.skipna = true) (a : Bus ν δ κ α) (resolved : δ)
    (co : Cell α → Cell α) (hco : Keeps co) (wa : a.WF) : a.equals veq a o resolved co = true :=
  (Bus.equals_iff veq o a a resolved co hco wa wa).mpr (Bus.Spec.refl hv hs a)

/-- without `skipna` a Series holding a missing value is not `equals` to an identical copy -/
theorem equals_refl_skipna_false_counterexample :
    ¬ ∀ (a : Series Unit Unit Unit Nat),
        a.equals (· == ·) a { skipna := false } = true := by
  intro h
  have := h ⟨[.na], (), (), .flat ⟨[.val 0], (), (), ()⟩, ()⟩
  revert this
  decide

/-- Symmetric: `a.equals(b) = b.equals(a)` for every option set.  (This is the statement that was
    false while the both-missing mask was `isna_self & isna_self`.) -/
theorem equals_symm (hv : VeqEquiv veq) (o : Opts) (a b : Frame ν δ κ α) (resolved : δ)
    (co : Cell α → Cell α) (hco : Keeps co) (wa : a.WF) (wb : b.WF) :
    a.equals veq b o resolved co = b.equals veq a o resolved co := by
  rw [Bool.eq_iff_iff, Frame.equals_iff veq o a b resolved co hco wa wb,
    Frame.equals_iff veq o b a resolved co hco wb wa]
  exact ⟨Frame.Spec.symm hv, Frame.Spec.symm hv⟩

theorem equals_symm_series (hv : VeqEquiv veq) (o : Opts) (a b : Series ν δ κ α) (wa : a.index.WF)
    (wb : b.index.WF) : a.equals veq b o = b.equals veq a o := by
  rw [Bool.eq_iff_iff, Series.equals_iff veq o a b wa wb, Series.equals_iff veq o b a wb wa]
  exact ⟨Series.Spec.symm hv, Series.Spec.symm hv⟩

theorem equals_symm_axis (hv : VeqEquiv veq) (o : Opts) (a b : Axis ν δ κ α) (wa : a.WF) (wb : b.WF) :
    a.equals veq b o = b.equals veq a o := by
  rw [Bool.eq_iff_iff, Axis.equals_iff veq o a b wa wb, Axis.equals_iff veq o b a wb wa]
  exact ⟨Axis.Spec.symm hv, Axis.Spec.symm hv⟩

theorem equals_symm_bus (hv : VeqEquiv veq) (o : Opts) (a b : Bus ν δ κ α) (resolved : δ)
    (co : Cell α → Cell α) (hco : Keeps co) (wa : a.WF) (wb : b.WF) :
    a.equals veq b o resolved co = b.equals veq a o resolved co := by
  rw [Bool.eq_iff_iff, Bus.equals_iff veq o a b resolved co hco wa wb,
    Bus.equals_iff veq o b a resolved co hco wb wa]
  exact ⟨Bus.Spec.symm hv, Bus.Spec.symm hv⟩

/-- Transitive -/
theorem equals_trans (hv : VeqEquiv veq) (o : Opts) (a b c : Frame ν δ κ α) (resolved : δ)
    (co : Cell α → Cell α) (hco : Keeps co) (wa : a.WF) (wb : b.WF) (wc : c.WF)
    (h : a.equals veq b o resolved co = true) (k : b.equals veq c o resolved co = true) :
    a.equals veq c o resolved co = true :=
  (Frame.equals_iff veq o a c resolved co hco wa wc).mpr
    (Frame.Spec.trans hv ((Frame.equals_iff veq o a b resolved co hco wa wb).mp h)
      ((Frame.equals_iff veq o b c resolved co hco wb wc).mp k))

theorem equals_trans_series (hv : VeqEquiv veq) (o : Opts) (a b c : Series ν δ κ α)
    (wa : a.index.WF) (wb : b.index.WF) (wc : c.index.WF)
    (h : a.equals veq b o = true) (k : b.equals veq c o = true) : a.equals veq c o = true :=
  (Series.equals_iff veq o a c wa wc).mpr
    (Series.Spec.trans hv ((Series.equals_iff veq o a b wa wb).mp h) ((Series.equals_iff veq o b c wb wc).mp k))

theorem equals_trans_axis (hv : VeqEquiv veq) (o : Opts) (a b c : Axis ν δ κ α)
    (wa : a.WF) (wb : b.WF) (wc : c.WF)
    (h : a.equals veq b o = true) (k : b.equals veq c o = true) : a.equals veq c o = true :=
  (Axis.equals_iff veq o a c wa wc).mpr
    (Axis.Spec.trans hv ((Axis.equals_iff veq o a b wa wb).mp h) ((Axis.equals_iff veq o b c wb wc).mp k))

theorem equals_trans_bus (hv : VeqEquiv veq) (o : Opts) (a b c : Bus ν δ κ α) (resolved : δ)
    (co : Cell α → Cell α) (hco : Keeps co) (wa : a.WF) (wb : b.WF) (wc : c.WF)
    (h : a.equals veq b o resolved co = true) (k : b.equals veq c o resolved co = true) :
    a.equals veq c o resolved co = true :=
  (Bus.equals_iff veq o a c resolved co hco wa wc).mpr
    (Bus.Spec.trans hv ((Bus.equals_iff veq o a b resolved co hco wa wb).mp h)
      ((Bus.equals_iff veq o b c resolved co hco wb wc).mp k))

/-! ### block layout -/

/-- `TypeBlocks.equals` depends only on the column abstraction (row count, columns in order,
    per-column dtypes): regrouping the columns of either operand into other blocks — which changes
    the operand-alignment path taken (block-compatible / re-blocked / `.values`) and the windows of
    the fill loop — never changes the answer. -/
theorem layout_irrelevant_equals (o : Opts) (a a' b b' : TB δ (Cell α)) (r r' : δ)
    (co co' : Cell α → Cell α) (hco : Keeps co) (hco' : Keeps co') (wa : a.WF) (wa' : a'.WF) (wb : b.WF) (wb' : b'.WF)
    (ha : a.rows = a'.rows ∧ a.columns = a'.columns ∧ a.dtypes = a'.dtypes)
    (hb : b.rows = b'.rows ∧ b.columns = b'.columns ∧ b.dtypes = b'.dtypes) :
    tbEquals veq a b o r co = tbEquals veq a' b' o r' co' := by
  rw [Bool.eq_iff_iff, tbEquals_iff veq o a b r co hco wa wb, tbEquals_iff veq o a' b' r' co' hco' wa' wb']
  simp only [TB.Spec, ha.1, ha.2.1, ha.2.2, hb.1, hb.2.1, hb.2.2]

/-- Without `Keeps`: when `.values` resolves to `object`, NumPy turns NaT into None (an ordinary
    value, `None == None`), and two frames holding NaT at the same place are `equals` with
    `skipna=False` in the layouts that take the `.values` path but not in the others: the answer
    depends on the layout.  Mirrored-model counterexample; replayed on the real code (finding
    C10-values-path-coercion). -/
theorem values_coercion_counterexample :
    ¬ ∀ (co : Cell Nat → Cell Nat) (a a' b : TB Nat (Cell Nat)), a.WF → a'.WF → b.WF →
        (a.rows = a'.rows ∧ a.columns = a'.columns ∧ a.dtypes = a'.dtypes) →
        tbEquals (· == ·) a b { skipna := false } 0 co = tbEquals (· == ·) a' b { skipna := false } 0 co := by
  intro h
  -- columns: [NaT-column (dtype 1), int column (dtype 2), int column (dtype 2)]; `b` has a float third column
  let co : Cell Nat → Cell Nat := fun c => match c with | .na => .val 0 | c => c
  let a  : TB Nat (Cell Nat) := ⟨1, [⟨1, [[.na]]⟩, ⟨2, [[.val 5], [.val 6]]⟩]⟩
  let a' : TB Nat (Cell Nat) := ⟨1, [⟨1, [[.na]]⟩, ⟨2, [[.val 5]]⟩, ⟨2, [[.val 6]]⟩]⟩
  let b  : TB Nat (Cell Nat) := ⟨1, [⟨1, [[.na]]⟩, ⟨2, [[.val 5]]⟩, ⟨3, [[.val 6]]⟩]⟩
  have := h co a a' b (by simp [TB.WF, a]) (by simp [TB.WF, a']) (by simp [TB.WF, b]) (by decide)
  revert this
  decide

/-- the same for whole frames -/
theorem layout_irrelevant_equals_frame (o : Opts) (a a' b : Frame ν δ κ α) (r : δ)
    (co : Cell α → Cell α) (hco : Keeps co) (wa : a.WF) (wa' : a'.WF) (wb : b.WF)
    (hblk : a.blocks.rows = a'.blocks.rows ∧ a.blocks.columns = a'.blocks.columns ∧
      a.blocks.dtypes = a'.blocks.dtypes)
    (hrest : a.index = a'.index ∧ a.columns = a'.columns ∧ a.name = a'.name ∧ a.cls = a'.cls) :
    a.equals veq b o r co = a'.equals veq b o r co ∧ b.equals veq a o r co = b.equals veq a' o r co := by
  constructor
  · rw [Bool.eq_iff_iff, Frame.equals_iff veq o a b r co hco wa wb, Frame.equals_iff veq o a' b r co hco wa' wb]
    simp only [Frame.Spec, TB.Spec, hblk.1, hblk.2.1, hblk.2.2, hrest.1, hrest.2.1, hrest.2.2.1, hrest.2.2.2]
  · rw [Bool.eq_iff_iff, Frame.equals_iff veq o b a r co hco wb wa, Frame.equals_iff veq o b a' r co hco wb wa']
    simp only [Frame.Spec, TB.Spec, hblk.1, hblk.2.1, hblk.2.2, hrest.1, hrest.2.1, hrest.2.2.1, hrest.2.2.2]

/-! ### hashable variants -/

/-- FrameHE, every kind of axis (flat or hierarchical): `a == b` is the plain Boolean
    `equals(compare_name=True, compare_dtype=False, compare_class=False, skipna=True)`; `!=` is its
    negation; `==` is symmetric; `a == b` forces `hash(a) = hash(b)`: the hash (total since commit
    7f42cd3: `hash((tuple(self.index), tuple(self.columns)))`) is a function of the two label tuples,
    which `==` forces to be pairwise equal (for a hierarchy through the tree walk). -/
theorem he_contract {η : Type} (hv : VeqEquiv veq) {h : Cell α → η} (hh : HashRespects veq h) (mix : List η → η)
    (a b : Frame ν δ κ α) (r : δ) (co : Cell α → Cell α) (hco : Keeps co) (wa : a.WF) (wb : b.WF) :
    a.heEq veq b r co = a.equals veq b ⟨true, false, false, true⟩ r co ∧
    a.heNe veq b r co = !(a.heEq veq b r co) ∧
    a.heEq veq b r co = b.heEq veq a r co ∧
    (a.heEq veq b r co = true → a.heHash h mix = b.heHash h mix) := by
  refine ⟨rfl, rfl, equals_symm hv heOpts a b r co hco wa wb, ?_⟩
  intro he
  have s := (Frame.equals_iff veq heOpts a b r co hco wa wb).mp he
  simp only [Frame.heHash, labelHashes_eq hh mix (o := heOpts) rfl s.2.1,
    labelHashes_eq hh mix (o := heOpts) rfl s.2.2.1]

/-- SeriesHE: the same contract, every kind of index -/
theorem he_contract_series {η : Type} (hv : VeqEquiv veq) {h : Cell α → η} (hh : HashRespects veq h)
    (mix : List η → η) (a b : Series ν δ κ α) (wa : a.index.WF) (wb : b.index.WF) :
    a.heEq veq b = a.equals veq b ⟨true, false, false, true⟩ ∧
    a.heNe veq b = !(a.heEq veq b) ∧
    a.heEq veq b = b.heEq veq a ∧
    (a.heEq veq b = true → a.heHash h mix = b.heHash h mix) := by
  refine ⟨rfl, rfl, equals_symm_series hv heOpts a b wa wb, ?_⟩
  intro he
  have s := (Series.equals_iff veq heOpts a b wa wb).mp he
  simp only [Series.heHash, labelHashes_eq hh mix (o := heOpts) rfl s.2.1]

/-- HISTORICAL (pinned-tree behaviour, repaired in /repo commit 7f42cd3): the hash of the pinned
    tree, `hash(tuple(index.values))`, succeeded exactly when both axes are flat. -/
theorem he_hash_pinned_ok_iff_flat {η : Type} (h : Cell α → η) (mix : List η → η) (a : Frame ν δ κ α) :
    (∃ v, a.heHashPinned h mix = .ok v) ↔ (∃ i c, a.index = .flat i ∧ a.columns = .flat c) := by
  unfold Frame.heHashPinned
  cases hi : a.index <;> cases hc : a.columns <;> simp [Axis.hashKeyPinned]

/-- HISTORICAL (pinned-tree behaviour, repaired in /repo commit 7f42cd3): with an IndexHierarchy
    axis the pinned `hash` raised (the hashed tuple held the rows of a 2-D array), so the hash
    contract failed for such containers (was finding F9-he-hash-hierarchy). -/
theorem he_hash_hierarchy_counterexample :
    ¬ ∀ (a : Series Unit Unit Unit Nat), a.heEq (· == ·) a = true →
        ∃ v, a.heHashPinned (fun _ => (0 : Nat)) (fun _ => 0) = .ok v := by
  intro h
  have := h ⟨[.val 1], (), (), .hier ⟨.mk ⟨[.val 0], (), (), ()⟩ true [] 1 (), (), ()⟩, ()⟩ (by decide)
  obtain ⟨v, hv⟩ := this
  simp [Series.heHashPinned, Axis.hashKeyPinned] at hv

/-! ### non-vacuity -/

/-- `Nat` equality is an equivalence; the hypotheses of the theorems above are satisfiable. -/
example : VeqEquiv (fun (a b : Nat) => a == b) :=
  ⟨by intros; simp_all, by intros; simp_all, by intros; simp_all⟩

/-- a well-formed 2-column frame in two layouts, NaN on both sides: equal with skipna, not without -/
example :
    let a : TB Nat (Cell Nat) := ⟨2, [⟨0, [[.val 1, .na]]⟩, ⟨0, [[.val 3, .val 4]]⟩]⟩
    let b : TB Nat (Cell Nat) := ⟨2, [⟨0, [[.val 1, .na], [.val 3, .val 4]]⟩]⟩
    tbEquals (· == ·) a b {} 0 = true ∧ tbEquals (· == ·) a b { skipna := false } 0 = false ∧
      tbEquals (· == ·) b a {} 0 = true := by decide

/-- a canonical two-level tree [('a', 1), ('a', 2), ('b', 1)]: its label tuples -/
example :
    let t : Level Unit Unit Unit Nat := .mk ⟨[.val 10, .val 11], (), (), ()⟩ false
      [.mk ⟨[.val 1, .val 2], (), (), ()⟩ true [] 0 (), .mk ⟨[.val 1], (), (), ()⟩ true [] 0 ()] 0 ()
    Level.rowsOf t = [[.val 10, .val 1], [.val 10, .val 2], [.val 11, .val 1]] := by decide

/-- zero-column TypeBlocks of equal shape are equal (the shortcut), of different row counts not -/
example :
    tbEquals (· == ·) (⟨2, []⟩ : TB Nat (Cell Nat)) ⟨2, []⟩ ⟨true, true, true, false⟩ 0 = true ∧
    tbEquals (· == ·) (⟨2, []⟩ : TB Nat (Cell Nat)) ⟨3, []⟩ {} 0 = false := by decide

/-- two hierarchical SeriesHE with the same labels: `==` and equal hashes (hash = sum of label hashes here) -/
example :
    let ix : Axis Unit Unit Unit Nat := .hier ⟨.mk ⟨[.val 10], (), (), ()⟩ false
      [.mk ⟨[.val 1, .val 2], (), (), ()⟩ true [] 0 ()] 0 (), (), ()⟩
    let a : Series Unit Unit Unit Nat := ⟨[.val 5, .val 6], (), (), ix, ()⟩
    a.heEq (· == ·) a = true ∧
      a.heHash (fun c => match c with | .val v => v | .na => 0) List.sum = 23 := by decide

/-- NaN on one side only: unequal in both directions (the repaired asymmetry) -/
example :
    let a : TB Nat (Cell Nat) := ⟨1, [⟨0, [[.na]]⟩]⟩
    let b : TB Nat (Cell Nat) := ⟨1, [⟨0, [[.val 1]]⟩]⟩
    tbEquals (· == ·) a b {} 0 = false ∧ tbEquals (· == ·) b a {} 0 = false := by decide

end SF.C10
