/-
  C09 — grow-only containers: append-only, all-or-nothing, never shared.
  Property theorems (helper lemmas: FrameGOLemmas.lean).
-/
import SFModel.FrameGOLemmas

namespace SF.C09
open SF

variable {α : Type}

/-- IndexGO.append: a duplicate is rejected and nothing changes; otherwise exactly the new label is
    added at the end. -/
theorem index_append_spec (l : List String) (k : String) :
    (k ∈ l → idxAppend l k = (l, some .lookup)) ∧ (k ∉ l → idxAppend l k = (l ++ [k], none)) :=
  ⟨idxAppend_err, idxAppend_ok⟩

/-- IndexGO.extend (repaired) is all-or-nothing: on success all new labels follow in the order
    given, on rejection the index is exactly as it was. -/
theorem index_extend_atomic (l ks : List String) :
    (idxExtend l ks = (l ++ ks, none) ∧ hasDup l ks = false) ∨
    (idxExtend l ks = (l, some .lookup) ∧ hasDup l ks = true) := by
  cases h : hasDup l ks
  · exact Or.inl ⟨idxExtend_ok h, rfl⟩
  · exact Or.inr ⟨idxExtend_err h, rfl⟩

/-- The pinned tree's one-by-one `extend` was NOT atomic (recorded defect F3/F12, repaired):
    a partially duplicate extend leaves the first labels appended. -/
theorem index_extend_old_not_atomic :
    ¬ (∀ l ks e, (idxExtendOld l ks).2 = some e → (idxExtendOld l ks).1 = l) := by
  intro h
  have := h ["a"] ["b", "a"] .lookup (by decide)
  revert this
  decide

/-- and the same defect one level up: FrameGO.extend(Frame) left `columns` longer than the data. -/
theorem frame_extend_old_breaks_lockstep :
    ∃ (s : GO Nat) (op : GOp Nat), s.Inv ∧ op.Aligned s ∧ (s.stepOld op).2 ≠ none ∧
      (s.stepOld op).1.labels.length ≠ (s.stepOld op).1.data.ncols := by
  refine ⟨⟨["a"], ⟨1, [.d1 "" [0]]⟩, 1⟩, .extendFrame ["b", "a"] [.d1 "" [1], .d1 "" [2]], ?_, ?_, ?_, ?_⟩
  · refine ⟨by decide, by decide, ⟨?_, ?_⟩, rfl⟩
    · intro b hb; simp at hb; subst hb; decide
    · intro b hb; simp at hb; subst hb
      intro c hc; simp [Block.colsOf] at hc; subst hc; rfl
  · refine ⟨by decide, ?_⟩
    intro b hb
    simp at hb
    rcases hb with rfl | rfl <;> refine ⟨by decide, ?_⟩ <;>
      (intro c hc; simp [Block.colsOf] at hc; subst hc; rfl)
  · decide
  · decide

/-- All-or-nothing: a growth call that fails leaves the container exactly as it was. -/
theorem grow_atomic (s : GO α) (op : GOp α) (hs : s.Inv) (ha : op.Aligned s) (e : Err)
    (h : (s.step op).2 = some e) : (s.step op).1 = s := by
  obtain ⟨hlen, hnd, hwf, hrows⟩ := hs
  cases op with
  | setitem k v =>
    simp only [GO.step] at h ⊢
    split at h
    · rfl
    · rename_i c hc
      try simp only [hc]
      unfold setitemBlock at hc
      split at hc
      · cases hc
      · rename_i hk
        split at hc
        · cases hc
        · split at hc
          · cases hc
          · rename_i c' hl
            simp only [Except.ok.injEq] at hc; subst hc
            have hr : (Block.d1 "" c' : Block α).RowsOk s.data.rows := by
              intro col hcol; simp [Block.colsOf] at hcol; subst hcol; rw [hrows]; simpa using hl
            simp only [idxAppend_ok hk, tbAppend_aligned s.data (.d1 "" c') (by simp [Block.width]) hr] at h
            cases h
  | extendSeries name c =>
    simp only [GO.step] at h ⊢
    by_cases hk : name ∈ s.labels
    · simp [idxAppend_err hk]
    · have hr : (Block.d1 "" c : Block α).RowsOk s.data.rows := by
        intro col hcol; simp [Block.colsOf] at hcol; subst hcol; rw [hrows]; exact ha
      simp only [idxAppend_ok hk, tbAppend_aligned s.data (.d1 "" c) (by simp [Block.width]) hr] at h
      cases h
  | extendFrame ls bs =>
    simp only [GO.step] at h ⊢
    split
    · rfl
    · rename_i hne
      simp only [hne] at h
      cases hd : hasDup s.labels ls
      · have hb : ∀ b ∈ bs, 0 < b.width ∧ b.RowsOk s.data.rows := by
          intro b hb; rw [hrows]; exact ha.2 b hb
        simp only [idxExtend_ok hd, tbExtend_aligned s.data bs hb, if_false] at h
        simp at h
      · simp [idxExtend_err hd]
  | extendItems pairs =>
    simp only [GO.step] at h ⊢
    split at h
    · rename_i e' he; simp [he]
    · rename_i ks bs hev
      try simp only [hev]
      obtain ⟨_, _, _, hbs⟩ := evalPairs_ok hev
      cases hd : hasDup s.labels ks
      · have hb : ∀ b ∈ bs, 0 < b.width ∧ b.RowsOk s.data.rows := by
          intro b hb; rw [hrows]; exact ⟨by rw [(hbs b hb).1]; exact Nat.one_pos, (hbs b hb).2⟩
        simp only [idxExtend_ok hd, tbExtend_aligned s.data bs hb] at h
        simp at h
      · simp [idxExtend_err hd]

/-- Append-only: a successful growth call keeps every old label, column and dtype where it was and
    adds the new ones after them, in the order given; labels and data stay in step. -/
theorem grow_appends_only (s : GO α) (op : GOp α) (hs : s.Inv) (ha : op.Aligned s)
    (h : (s.step op).2 = none) :
    ∃ (newL : List String) (newC : List (List α)) (newD : List DT),
      (s.step op).1.labels = s.labels ++ newL ∧
      (s.step op).1.data.cols = s.data.cols ++ newC ∧
      (s.step op).1.data.dtypes = s.data.dtypes ++ newD ∧
      newL.length = newC.length ∧ (s.step op).1.nrows = s.nrows ∧ (s.step op).1.Inv := by
  obtain ⟨hlen, hnd, hwf, hrows⟩ := hs
  -- common closing step for "labels ++ ks, blocks ++ bs"
  have close : ∀ (ks : List String) (bs : List (Block α)),
      hasDup s.labels ks = false → (∀ b ∈ bs, 0 < b.width ∧ b.RowsOk s.data.rows) →
      ks.length = (bs.map Block.width).sum →
      ∃ (newL : List String) (newC : List (List α)) (newD : List DT),
        s.labels ++ ks = s.labels ++ newL ∧
        TB.cols ⟨s.data.rows, s.data.blocks ++ bs⟩ = s.data.cols ++ newC ∧
        TB.dtypes ⟨s.data.rows, s.data.blocks ++ bs⟩ = s.data.dtypes ++ newD ∧
        newL.length = newC.length ∧
        GO.Inv (⟨s.labels ++ ks, ⟨s.data.rows, s.data.blocks ++ bs⟩, s.nrows⟩ : GO α) := by
    intro ks bs hd hb hl
    refine ⟨ks, bs.flatMap Block.colsOf, bs.flatMap (fun b => List.replicate b.width b.dt), rfl,
      cols_extend s.data bs, dtypes_extend s.data bs, ?_, ?_⟩
    · rw [hl]
      clear hb hl
      induction bs with
      | nil => simp
      | cons b bs ih =>
        simp only [List.map_cons, List.sum_cons, List.flatMap_cons, List.length_append, ih]
        cases b <;> simp [Block.width, Block.colsOf]
    · refine ⟨?_, nodup_append_of_hasDup_false hnd hd, wf_extend hwf hb, hrows⟩
      simp only [List.length_append, ncols_extend, hlen, hl]
  cases op with
  | setitem k v =>
    simp only [GO.step] at h ⊢
    split at h
    · cases h
    · rename_i c hc
      try simp only [hc]
      unfold setitemBlock at hc
      split at hc
      · cases hc
      · rename_i hk
        split at hc
        · cases hc
        · split at hc
          · cases hc
          · rename_i c' hl
            simp only [Except.ok.injEq] at hc; subst hc
            have hr : (Block.d1 "" c' : Block α).RowsOk s.data.rows := by
              intro col hcol; simp [Block.colsOf] at hcol; subst hcol; rw [hrows]; simpa using hl
            simp only [idxAppend_ok hk, tbAppend_aligned s.data (.d1 "" c') (by simp [Block.width]) hr]
            have hd : hasDup s.labels [k] = false := by simp [hasDup, hk]
            obtain ⟨nl, nc, ndt, h1, h2, h3, h4, h5⟩ := close [k] [.d1 "" c'] hd
              (by intro b hb; simp at hb; subst hb; exact ⟨by simp [Block.width], hr⟩) (by simp [Block.width])
            exact ⟨nl, nc, ndt, h1, h2, h3, h4, by first | rfl | trivial, h5⟩
  | extendSeries name c =>
    simp only [GO.step] at h ⊢
    by_cases hk : name ∈ s.labels
    · simp [idxAppend_err hk] at h
    · have hr : (Block.d1 "" c : Block α).RowsOk s.data.rows := by
        intro col hcol; simp [Block.colsOf] at hcol; subst hcol; rw [hrows]; exact ha
      simp only [idxAppend_ok hk, tbAppend_aligned s.data (.d1 "" c) (by simp [Block.width]) hr]
      have hd : hasDup s.labels [name] = false := by simp [hasDup, hk]
      obtain ⟨nl, nc, ndt, h1, h2, h3, h4, h5⟩ := close [name] [.d1 "" c] hd
        (by intro b hb; simp at hb; subst hb; exact ⟨by simp [Block.width], hr⟩) (by simp [Block.width])
      exact ⟨nl, nc, ndt, h1, h2, h3, h4, by first | rfl | trivial, h5⟩
  | extendFrame ls bs =>
    simp only [GO.step] at h ⊢
    split
    · exact ⟨[], [], [], by simp, by simp, by simp, rfl, rfl, ⟨hlen, hnd, hwf, hrows⟩⟩
    · rename_i hne
      simp only [hne] at h
      cases hd : hasDup s.labels ls
      · have hb : ∀ b ∈ bs, 0 < b.width ∧ b.RowsOk s.data.rows := by
          intro b hb; rw [hrows]; exact ha.2 b hb
        simp only [idxExtend_ok hd, tbExtend_aligned s.data bs hb]
        obtain ⟨nl, nc, ndt, h1, h2, h3, h4, h5⟩ := close ls bs hd hb ha.1
        exact ⟨nl, nc, ndt, h1, h2, h3, h4, by first | rfl | trivial, h5⟩
      · simp [idxExtend_err hd] at h
  | extendItems pairs =>
    simp only [GO.step] at h ⊢
    split at h
    · cases h
    · rename_i ks bs hev
      try simp only [hev]
      obtain ⟨_, hkl, _, hbs⟩ := evalPairs_ok hev
      cases hd : hasDup s.labels ks
      · have hb : ∀ b ∈ bs, 0 < b.width ∧ b.RowsOk s.data.rows := by
          intro b hb; rw [hrows]; exact ⟨by rw [(hbs b hb).1]; exact Nat.one_pos, (hbs b hb).2⟩
        simp only [idxExtend_ok hd, tbExtend_aligned s.data bs hb]
        have hsum : ks.length = (bs.map Block.width).sum := by
          rw [sum_width_one (fun b hb => (hbs b hb).1)]; exact hkl
        obtain ⟨nl, nc, ndt, h1, h2, h3, h4, h5⟩ := close ks bs hd hb hsum
        exact ⟨nl, nc, ndt, h1, h2, h3, h4, by first | rfl | trivial, h5⟩
      · simp [idxExtend_err hd] at h

/-- one step preserves the invariant, whether it succeeds or fails -/
theorem step_inv (s : GO α) (op : GOp α) (hs : s.Inv) (ha : op.Aligned s) :
    (s.step op).1.Inv ∧ (s.step op).1.nrows = s.nrows := by
  cases h : (s.step op).2 with
  | none =>
    obtain ⟨_, _, _, _, _, _, _, hn, hi⟩ := grow_appends_only s op hs ha h
    exact ⟨hi, hn⟩
  | some e =>
    rw [grow_atomic s op hs ha e h]
    exact ⟨hs, rfl⟩

/-- argument alignment only depends on the (constant) row count -/
def AlignedN (n : Nat) : GOp α → Prop
  | .setitem _ _ => True
  | .extendSeries _ c => c.length = n
  | .extendFrame ls bs => ls.length = (bs.map Block.width).sum ∧ (∀ b ∈ bs, 0 < b.width ∧ b.RowsOk n)
  | .extendItems _ => True

theorem aligned_of_alignedN (s : GO α) (op : GOp α) (h : AlignedN s.nrows op) : op.Aligned s := by
  cases op <;> exact h

/-- Lock-step over every history: after any sequence of valid, duplicate, partially duplicate and
    mis-sized growth calls (failures ignored by the caller) labels and data are in step, labels are
    unique and the data is well formed. -/
theorem lockstep_history (s : GO α) (ops : List (GOp α)) (hs : s.Inv)
    (ha : ∀ op ∈ ops, AlignedN s.nrows op) : (s.run ops).Inv ∧ (s.run ops).nrows = s.nrows := by
  induction ops generalizing s with
  | nil => exact ⟨hs, rfl⟩
  | cons op ops ih =>
    have h1 := step_inv s op hs (aligned_of_alignedN s op (ha op (by simp)))
    have := ih (s.step op).1 h1.1 (by intro o ho; rw [h1.2]; exact ha o (by simp [ho]))
    simp only [GO.run, List.foldl_cons] at this ⊢
    exact ⟨this.1, by rw [this.2, h1.2]⟩

/-- Never shared: if no mutable object of a growable container is referenced by another live
    container, growing container `i` is invisible through every other container `j`. -/
theorem no_shared_growth (w : World α) (i j : Nat) (op : GOp α) (hu : Unique w.cs)
    (hi : i < w.cs.length) (hj : j < w.cs.length) (hij : i ≠ j) :
    (w.grow i op).snapshot w.cs[j] = w.snapshot w.cs[j] := by
  unfold World.grow
  simp only [List.getElem?_eq_getElem hi]
  split
  · rfl
  · rename_i hg
    have hg' : w.cs[i].growable = true := by simpa using hg
    obtain ⟨hc, hd⟩ := hu i j hi hj hij (Or.inl hg')
    simp only [World.snapshot]
    congr 1
    · simp [List.getD_eq_getElem?_getD, List.getElem?_set, hc]
    · simp [List.getD_eq_getElem?_getD, List.getElem?_set, hd]

/-- `uniqueB` (what the driver evaluates on the observed identity graph) decides `Unique`. -/
theorem uniqueB_sound (cs : List CRef) (h : uniqueB cs = true) : Unique cs := by
  intro i j hi hj hij hg
  unfold uniqueB at h
  simp only [List.all_eq_true, List.mem_range] at h
  have := h i hi j hj
  simp only [Bool.or_eq_true, decide_eq_true_eq, Bool.not_eq_true', Bool.and_eq_true, bne_iff_ne, ne_eq] at this
  have hgi : (cs.getD i ⟨0, 0, false⟩) = cs[i] := by simp [List.getD_eq_getElem?_getD, List.getElem?_eq_getElem hi]
  have hgj : (cs.getD j ⟨0, 0, false⟩) = cs[j] := by simp [List.getD_eq_getElem?_getD, List.getElem?_eq_getElem hj]
  rw [hgi, hgj] at this
  rcases this with (h1 | h2) | h3
  · exact absurd h1 hij
  · rcases hg with hg | hg <;> simp [hg] at h2
  · exact h3

/-- non-vacuity: a concrete FrameGO state, a failing and a succeeding call -/
example : (⟨["a"], ⟨2, [.d1 "" [1, 2]]⟩, 2⟩ : GO Nat).Inv := by
  refine ⟨by decide, by decide, ⟨?_, ?_⟩, rfl⟩
  · intro b hb; simp at hb; subst hb; decide
  · intro b hb; simp at hb; subst hb; intro c hc; simp [Block.colsOf] at hc; subst hc; rfl
example : ((⟨["a"], ⟨2, [.d1 "" [1, 2]]⟩, 2⟩ : GO Nat).step (.setitem "a" (some [3, 4]))).2 = some .shape := by decide
example : ((⟨["a"], ⟨2, [.d1 "" [1, 2]]⟩, 2⟩ : GO Nat).step (.extendItems [("b", some [3, 4]), ("c", some [5])])).2 = some .shape := by decide
example : ((⟨["a"], ⟨2, [.d1 "" [1, 2]]⟩, 2⟩ : GO Nat).step (.extendItems [("b", some [3, 4]), ("c", some [5, 6])])).1.labels = ["a", "b", "c"] := by decide

end SF.C09
