/- C04/C08 — `slice_to_ascending_slice` covers the same positions (all integers). -/
import SFModel.SliceLemmas

namespace SF.C04
open SF

/-- `slice_to_ascending_slice` (as repaired: negative endpoints are normalised first) returns a slice
    with a positive step that addresses the SAME positions, ascending — for every start / stop /
    step and every length: a negative-step slice comes back reversed, any other slice unchanged. -/
theorem ascending_same_positions (s s' : PySlice) (n : Nat) (ps : List Nat)
    (h : sliceToAscending s (n : Int) = some s') (hp : s.positions n = .ok ps) :
    s'.positions n = .ok (if (s.step.getD 1) < 0 then ps.reverse else ps) := by
  sorry

/-- step 0 is the only rejected slice, and it is rejected by both (ValueError / ZeroDivisionError). -/
theorem ascending_total (s : PySlice) (n : Nat) (ps : List Nat) (hp : s.positions n = .ok ps) :
    ∃ s', sliceToAscending s (n : Int) = some s' := by
  sorry

end SF.C04
