/- C04/C08 — `slice_to_ascending_slice` covers the same positions (all integers). -/
import SFModel.SliceLemmas

namespace SF.C04
open SF

/-- `slice_to_ascending_slice` (as repaired: negative endpoints are normalised first) returns a slice
    with a positive step that addresses the SAME positions, ascending — for every start / stop /
    step and every length: a negative-step slice comes back reversed, any other slice unchanged. -/
theorem ascending_same_positions (s s' : PySlice) (n : Nat) (ps : List Nat)
    (h : sliceToAscending s (n : Int) = some s') (hp : s.positions n = .ok ps) :
    s'.positions n = .ok (if (s.step.getD 1) < 0 then ps.reverse else ps) := by
  obtain ⟨st, sp, se⟩ := s
  cases se with
  | none =>
    simp only [sliceToAscending, Option.some.injEq] at h
    subst h; simpa using hp
  | some c =>
    by_cases hpos : c > 0
    · simp only [sliceToAscending, if_pos hpos, Option.some.injEq] at h
      subst h
      have : ¬ c < 0 := by omega
      simpa [this] using hp
    · by_cases h0 : c = 0
      · subst h0; simp [PySlice.positions, PySlice.indices] at hp
      · have hc : c < 0 := by omega
        simp only [PySlice.positions, indices_neg st sp c hc n, Except.ok.injEq] at hp
        subst hp
        simp only [Option.getD_some, if_pos hc]
        simp only [sliceToAscending, if_neg hpos] at h
        have hnc : ((c.natAbs : Nat) : Int) = -c := by omega
        have hstart0 : ∀ kstart, normStart st n = some kstart →
            (match kstart with | none => (n : Int) - 1 | some v => min ((n : Int) - 1) v) = negStart st n := by
          intro kstart hk
          unfold negStart; rw [hk]; cases kstart <;> simp; omega
        cases hks : normStart st n with
        | none =>
          rw [hks] at h
          simp only [Option.some.injEq] at h
          subst h
          have hlen : rangeLen (negStart st n) (negStop sp n) c = 0 := by
            have h1 : negStart st n = -1 := by unfold negStart; rw [hks]
            have h2 : -1 ≤ negStop sp n := by
              unfold negStop
              cases hs : normStop sp n with
              | none => simp
              | some v => have := normStop_nonneg hs; simp; omega
            unfold rangeLen
            rw [if_neg (by omega), if_pos hc, if_neg (by omega)]
          rw [rangeList, hlen]
          simp [PySlice.positions, PySlice.indices, rangeList, rangeLen]
        | some kstart =>
          rw [hks] at h
          by_cases hm1 : c = -1
          · subst hm1
            simp only [if_true, Option.some.injEq] at h
            subst h
            have := asc_positions n st sp kstart ((normStop sp n).map (· + 1)) (-1) (by omega) hks
            simp only [Int.neg_neg] at this
            apply this
            cases normStop sp n <;> simp <;> omega
          · simp only [if_neg hm1, if_neg h0, Option.some.injEq, hnc] at h
            subst h
            apply asc_positions n st sp kstart _ c hc hks
            simp only [Option.getD_some]
            cases normStop sp n with
            | none =>
              rw [Int.fdiv_eq_ediv_of_nonneg _ (show (0:Int) ≤ -c by omega)]
              cases kstart <;> simp [negStart, hks, Int.min_comm]
            | some ks =>
              cases kstart <;>
                simp [negStart, hks, Int.min_comm, Int.fdiv_eq_ediv_of_nonneg _ (show (0:Int) ≤ -c by omega)]

/-- non-vacuity: `[5:0:-2]` on 6 positions addresses 5, 3, 1; the ascending slice is `[1:6:2]`. -/
example : sliceToAscending ⟨some 5, some 0, some (-2)⟩ (6 : Nat) = some ⟨some 1, some 6, some 2⟩ ∧
    PySlice.positions ⟨some 5, some 0, some (-2)⟩ 6 = .ok [5, 3, 1] ∧
    PySlice.positions ⟨some 1, some 6, some 2⟩ 6 = .ok [1, 3, 5] := by decide

/-- step 0 is the only rejected slice, and it is rejected by both (ValueError / ZeroDivisionError). -/
theorem ascending_total (s : PySlice) (n : Nat) (ps : List Nat) (hp : s.positions n = .ok ps) :
    ∃ s', sliceToAscending s (n : Int) = some s' := by
  obtain ⟨st, sp, se⟩ := s
  cases se with
  | none => exact ⟨_, rfl⟩
  | some c =>
    by_cases hpos : c > 0
    · simp only [sliceToAscending, if_pos hpos]; exact ⟨_, rfl⟩
    · by_cases h0 : c = 0
      · subst h0; simp [PySlice.positions, PySlice.indices] at hp
      · simp only [sliceToAscending, if_neg hpos, if_neg h0]
        cases normStart st n with
        | none => exact ⟨_, rfl⟩
        | some kstart =>
          dsimp only
          by_cases hm1 : c = -1
          · rw [if_pos hm1]; exact ⟨_, rfl⟩
          · rw [if_neg hm1]; exact ⟨_, rfl⟩

example : PySlice.positions ⟨none, none, some (-3)⟩ 7 = .ok [6, 3, 0] ∧
    (∃ s', sliceToAscending ⟨none, none, some (-3)⟩ (7 : Nat) = some s') :=
  ⟨by decide, _, rfl⟩

end SF.C04
