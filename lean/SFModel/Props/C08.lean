/-
  C08 — functional updates change only what they address (TypeBlocks level):
  drop removes exactly the addressed rows/columns, the column-wise map generators (`_ufunc_blocks`,
  `_astype_blocks`) change exactly the addressed columns; labels/order/dtypes of the rest are kept.
  All results are new values: the original is untouched by construction (pure functions).
-/
import SFModel.BlocksLemmas
import SFModel.BlocksAssignLemmas

namespace SF.C08
open SF SF.TB

variable {α : Type}

/-- remove the cells at the given row positions -/
def deleteRows (ps : List Nat) (c : List α) : List α :=
  (c.zipIdx.filter (fun (_, i) => ¬ ps.contains i)).map (·.1)

/-- remove the columns at the given positions -/
def dropCols {β} (cols : List β) (ps : List Nat) : List β :=
  (cols.zipIdx.filter (fun (_, i) => ¬ ps.contains i)).map (·.1)

/-- keys for which `_key_to_block_slices(retain_key_order=False)` is exact as it stands:
    everything except a negative-step slice (see `slice_to_ascending_slice`, finding F7) -/
def AscendingSafe : Key → Prop
  | .slice s => s.step = none ∨ ∃ st, s.step = some st ∧ 0 < st
  | _ => True

/-- small concrete TypeBlocks used for the non-vacuity examples -/
def tbEx : TB Nat := ⟨2, [.d1 "i" [1, 2], .d2 "f" [[3, 4], [5, 6], [7, 8]]]⟩

theorem tbEx_wf : tbEx.WF := by
  simp [tbEx, TB.WF, Block.RowsOk, Block.colsOf, Block.width]

theorem ascendingSafe_slice {ck : Key} (h : AscendingSafe ck) :
    ∀ s, ck = .slice s → s.step = none ∨ ∃ st, s.step = some st ∧ 0 < st := by
  intro s hs; subst hs; exact h

theorem dropCols_map {β γ} (f : β → γ) (l : List β) (ps : List Nat) :
    dropCols (l.map f) ps = (dropCols l ps).map f := by
  simp only [dropCols, List.zipIdx_map, List.filter_map, List.map_map]
  rfl

/-- Dropping columns: exactly the addressed columns disappear, the others keep order, values, dtypes.

    Holds for repeated positions in a list key since the repair of `_key_to_block_slices`
    (`sorted(set(...))`, model: `(sortNat ps).eraseDups`).  Before it the mirrored model had the
    counterexample `tb = ⟨1, [d1 "a" [1], d1 "b" [2], d1 "c" [3]]⟩`, key `.list [0, 0, 2]`:
    the sorted targets contained the same `(block, slice)` twice, the second copy was never consumed
    by `_drop_blocks`, every later target was ignored, and the result had columns `[[2], [3]]`
    instead of `dropCols tb.cols [0, 0, 2] = [[2]]` (the statement then needed `cps.Nodup`). -/
theorem drop_cols_refines_partial (tb : TB α) (h : tb.WF) (ck : Key) (cps : List Nat)
    (hsafe : AscendingSafe ck) (hck : ck.positions tb.ncols = .ok cps) (hne : tb.blocks ≠ []) :
    ∃ r, tb.drop none (some ck) = .ok r ∧
      r.cols = dropCols tb.cols cps ∧ r.dtypes = dropCols tb.dtypes cps ∧ r.rows = tb.rows := by
  obtain ⟨pairs, atgts, hk, ⟨rfl, hok, hsorted, hcover⟩⟩ :=
    tb.key_atgts h ck cps (ascendingSafe_slice hsafe) hck
  obtain ⟨out, hout, hspec⟩ := dropBlocksGo_spec none (tb.covOf cps) 0 tb.blocks atgts
    (fun t ht => by
      obtain ⟨h1, b, h2, h3⟩ := hok t ht
      exact ⟨h1, Nat.zero_le _, b, by simpa using h2, h3⟩)
    hsorted
    (fun p _ => by rw [tb.covOf_iff, hcover p])
  have hrows : ∀ b ∈ out, b.RowsOk tb.rows := by
    intro b hb c hc
    have hmem : (b.dt, c) ∈ colsDT out := by
      simp only [colsDT, List.mem_flatMap]
      exact ⟨b, hb, List.mem_map.mpr ⟨c, hc, rfl⟩⟩
    rw [hspec] at hmem
    obtain ⟨c0, hc0, hx⟩ := dropSpec_mem _ _ _ _ _ hmem
    simp only [delRows] at hx
    rw [hx]
    simp only [List.mem_flatMap] at hc0
    obtain ⟨b0, hb0, hcb0⟩ := hc0
    exact h.2 b0 hb0 c0 hcb0
  obtain ⟨tb', htb'⟩ := fromBlocks_ok out tb.rows tb.rows hrows
  obtain ⟨_, hcols, hdts⟩ := TB.fromBlocks_spec _ _ _ htb'
  have hemp : tb.blocks.isEmpty = false := by cases hb : tb.blocks <;> simp_all
  have hX := tb.dropSpec_eq_dropCols cps (delRows none)
  refine ⟨{ tb' with rows := tb.rows }, ?_, ?_, ?_, rfl⟩
  · simp only [drop, hemp, Bool.false_eq_true, if_false, hk, bind, Except.bind, pure, Except.pure, hout, htb']
  · show tb'.cols = _
    rw [hcols, ← colsDT_snd, hspec, hX, tb.cols_eq_colsDT, dropCols_map]
    simp only [List.map_map, dropCols]
    apply List.map_congr_left
    intro x _; rfl
  · show tb'.dtypes = _
    rw [hdts, ← colsDT_fst, hspec, hX, tb.dtypes_eq_colsDT, dropCols_map]
    simp only [List.map_map, dropCols]
    apply List.map_congr_left
    intro x _; rfl


example : AscendingSafe (.mask [false, true, false, true]) ∧
    (Key.mask [false, true, false, true]).positions tbEx.ncols = .ok [1, 3] ∧
    [1, 3].Nodup ∧ tbEx.blocks ≠ [] ∧
    (tbEx.drop none (some (.mask [false, true, false, true]))).map TB.cols = .ok [[1, 2], [5, 6]] := by
  refine ⟨trivial, by decide, by decide, by decide, by decide⟩

/-- a repeated position: columns 0 and 2 are dropped once each -/
example : ∃ r, tbEx.drop none (some (.list [0, 0, 2])) = .ok r ∧ r.cols = [[3, 4], [7, 8]] ∧
    r.dtypes = ["f", "f"] := by
  obtain ⟨r, h1, h2, h3, _⟩ := drop_cols_refines_partial tbEx tbEx_wf (.list [0, 0, 2]) [0, 0, 2]
    trivial (by decide) (by decide)
  exact ⟨r, h1, by rw [h2]; decide, by rw [h3]; decide⟩

/-- Dropping rows: every column loses exactly the addressed rows. -/
theorem drop_rows_refines (tb : TB α) (h : tb.WF) (rk : Key) (rps : List Nat)
    (hrk : rk.positions tb.rows = .ok rps) :
    ∃ r, tb.drop (some rk) none = .ok r ∧
      r.cols = tb.cols.map (deleteRows rps) ∧ r.dtypes = tb.dtypes := by
  have hgo := dropBlocksGo_nil (some rps) 0 tb.blocks
  have hrows : ∀ b ∈ tb.blocks.map (rowDelete (some rps)),
      b.RowsOk ((List.range tb.rows).filter (fun i => ¬ rps.contains i)).length := by
    intro b hb
    obtain ⟨b0, hb0, rfl⟩ := List.mem_map.mp hb
    intro c hc
    rw [(rowDelete_spec (some rps) b0).1] at hc
    obtain ⟨c0, hc0, rfl⟩ := List.mem_map.mp hc
    rw [delRows_length, h.2 b0 hb0 c0 hc0]
  obtain ⟨tb', htb'⟩ := fromBlocks_ok _ _ (tb.rows - (rps.eraseDups).length) hrows
  obtain ⟨_, hcols, hdts⟩ := TB.fromBlocks_spec _ _ _ htb'
  refine ⟨{ tb' with rows := tb.rows - (rps.eraseDups).length }, ?_, ?_, ?_⟩
  · simp only [drop, hrk, bind, Except.bind, pure, Except.pure, Except.map, hgo, htb']
  · show tb'.cols = _
    rw [hcols]
    exact flatMap_colsOf_map _ _ _ (fun b => (rowDelete_spec (some rps) b).1)
  · show tb'.dtypes = _
    rw [hdts, List.flatMap_map]
    apply flatMap_congr'
    intro b _
    rw [(rowDelete_spec (some rps) b).2.1, (rowDelete_spec (some rps) b).2.2]


example : (Key.int (-1)).positions tbEx.rows = .ok [1] ∧
    (tbEx.drop (some (.int (-1))) none).map TB.cols = .ok [[1], [3], [5], [7]] := by decide

/-- `_ufunc_blocks`: the function is applied to exactly the addressed columns.

    Holds for repeated positions in a list key since the repair of `_key_to_block_slices`
    (`sorted(set(...))`).  Before it the mirrored model had the counterexamples (a repeated target
    stalled the ascending target iterator, and inside a 2-D block a repeated target was even emitted
    twice), `g = map (· + 10)`: `⟨1, [d1 "a" [1], d1 "b" [2], d1 "c" [3]]⟩` with `.list [0, 0, 2]`
    gave `[[11], [2], [3]]` (column 2 not mapped); `⟨1, [d2 "a" [[1],[2],[3],[4]], d1 "b" [5]]⟩` with
    `.list [1, 1, 3]` gave SIX columns `[[1], [12], [12], [3], [14], [5]]` (the statement then needed
    `cps.Nodup`). -/
theorem ufunc_refines_partial (tb : TB α) (h : tb.WF) (ck : Key) (cps : List Nat) (g : List α → List α)
    (hsafe : AscendingSafe ck) (hck : ck.positions tb.ncols = .ok cps) :
    ∃ r, tb.ufuncBlocks ck g = .ok r ∧
      r.cols = tb.cols.mapIdx (fun j c => if j ∈ cps then g c else c) ∧ r.dtypes = tb.dtypes := by
  obtain ⟨pairs, out, hk, hout, hspec⟩ := tb.mapBlocks_refines h ck cps (ascendingSafe_slice hsafe) hck
    (f := fun b => match b with | .d1 t c => .d1 t (g c) | .d2 t cs => .d2 t (cs.map g))
    (fd := id) (fc := g) ⟨fun _ _ => rfl, fun _ _ => rfl⟩ (fun _ => false) (fun _ => false) (fun _ => rfl)
  refine ⟨⟨tb.rows, out⟩, ?_, ?_, ?_⟩
  · simp only [ufuncBlocks, hk, bind, Except.bind]
    split
    · rename_i heq
      cases mapBlocksGo_congr ⟨fun _ _ => rfl, fun _ _ => rfl⟩ ⟨fun _ _ => rfl, fun _ _ => rfl⟩ hout heq
    · rename_i bs heq
      cases mapBlocksGo_congr ⟨fun _ _ => rfl, fun _ _ => rfl⟩ ⟨fun _ _ => rfl, fun _ _ => rfl⟩ hout heq
      rfl
  · show out.flatMap Block.colsOf = _
    rw [← colsDT_snd, hspec, tb.cols_eq_colsDT]
    apply List.ext_getElem?
    intro j
    simp only [List.getElem?_map, List.getElem?_mapIdx]
    cases (colsDT tb.blocks)[j]? with
    | none => rfl
    | some x => by_cases hj : j ∈ cps <;> simp [hj]
  · show out.flatMap (fun b => List.replicate b.width b.dt) = _
    rw [← colsDT_fst, hspec, tb.dtypes_eq_colsDT]
    apply List.ext_getElem?
    intro j
    simp only [List.getElem?_map, List.getElem?_mapIdx]
    cases (colsDT tb.blocks)[j]? with
    | none => rfl
    | some x => by_cases hj : j ∈ cps <;> simp [hj]


example : AscendingSafe (.slice ⟨some 1, none, some 2⟩) ∧
    (Key.slice ⟨some 1, none, some 2⟩).positions tbEx.ncols = .ok [1, 3] ∧ [1, 3].Nodup ∧
    (tbEx.ufuncBlocks (.slice ⟨some 1, none, some 2⟩) (fun c => c.map (· + 10))).map TB.cols
      = .ok [[1, 2], [13, 14], [5, 6], [17, 18]] := by
  refine ⟨Or.inr ⟨2, rfl, by decide⟩, by decide, by decide, by decide⟩

/-- a repeated position: columns 0 and 2 are mapped once each -/
example : ∃ r, tbEx.ufuncBlocks (.list [0, 0, 2]) (fun c => c.map (· + 10)) = .ok r ∧
    r.cols = [[11, 12], [3, 4], [15, 16], [7, 8]] := by
  obtain ⟨r, h1, h2, _⟩ := ufunc_refines_partial tbEx tbEx_wf (.list [0, 0, 2]) [0, 0, 2]
    (fun c => c.map (· + 10)) trivial (by decide)
  exact ⟨r, h1, by rw [h2]; decide⟩

/-- `_astype_blocks`: exactly the addressed columns are retyped (a column already of that dtype is
    left as it is); unaddressed columns keep their exact dtype.

    Holds for repeated positions in a list key since the repair of `_key_to_block_slices`
    (see `ufunc_refines_partial`).  Before it the mirrored model had the counterexample
    `⟨1, [d1 "a" [1], d1 "b" [2], d1 "c" [3]]⟩`, `.list [0, 0, 2]`, dtype `"z"`: dtypes became
    `["z", "b", "c"]` instead of `["z", "b", "z"]` (the statement then needed `cps.Nodup`). -/
theorem astype_refines_partial (tb : TB α) (h : tb.WF) (ck : Key) (cps : List Nat) (dt : DT) (cast : List α → List α)
    (hsafe : AscendingSafe ck) (hck : ck.positions tb.ncols = .ok cps) :
    ∃ r, tb.astypeBlocks ck dt cast = .ok r ∧
      r.dtypes = tb.dtypes.mapIdx (fun j d => if j ∈ cps then dt else d) ∧
      r.cols = (tb.cols.zip tb.dtypes).mapIdx (fun j cd => if j ∈ cps ∧ cd.2 ≠ dt then cast cd.1 else cd.1) := by
  obtain ⟨pairs, out, hk, hout, hspec⟩ := tb.mapBlocks_refines h ck cps (ascendingSafe_slice hsafe) hck
    (f := fun b => match b with | .d1 _ c => .d1 dt (cast c) | .d2 _ cs => .d2 dt (cs.map cast))
    (fd := fun _ => dt) (fc := cast) ⟨fun _ _ => rfl, fun _ _ => rfl⟩
    (fun b => decide (b.dt = dt)) (fun t => decide (t = dt)) (fun _ => rfl)
  refine ⟨⟨tb.rows, out⟩, ?_, ?_, ?_⟩
  · simp only [astypeBlocks, hk, bind, Except.bind]
    split
    · rename_i heq
      cases mapBlocksGo_congr ⟨fun _ _ => rfl, fun _ _ => rfl⟩ ⟨fun _ _ => rfl, fun _ _ => rfl⟩ hout heq
    · rename_i bs heq
      cases mapBlocksGo_congr ⟨fun _ _ => rfl, fun _ _ => rfl⟩ ⟨fun _ _ => rfl, fun _ _ => rfl⟩ hout heq
      rfl
  · show out.flatMap (fun b => List.replicate b.width b.dt) = _
    rw [← colsDT_fst, hspec, tb.dtypes_eq_colsDT]
    apply List.ext_getElem?
    intro j
    simp only [List.getElem?_map, List.getElem?_mapIdx]
    cases (colsDT tb.blocks)[j]? with
    | none => rfl
    | some x =>
      by_cases hj : j ∈ cps <;> by_cases hx : x.1 = dt <;> simp [hj, hx]
  · show out.flatMap Block.colsOf = _
    rw [← colsDT_snd, hspec, tb.cols_eq_colsDT, tb.dtypes_eq_colsDT]
    apply List.ext_getElem?
    intro j
    simp only [List.getElem?_map, List.getElem?_mapIdx]
    rw [List.zip_map']
    simp only [List.getElem?_map]
    cases (colsDT tb.blocks)[j]? with
    | none => rfl
    | some x =>
      by_cases hj : j ∈ cps <;> by_cases hx : x.1 = dt <;> simp [hj, hx]


example : AscendingSafe (.mask [true, false, true, false]) ∧
    (Key.mask [true, false, true, false]).positions tbEx.ncols = .ok [0, 2] ∧ [0, 2].Nodup ∧
    (tbEx.astypeBlocks (.mask [true, false, true, false]) "f" (fun c => c.map (· + 10))).map
      (fun r => (r.cols, r.dtypes))
      = .ok ([[11, 12], [3, 4], [5, 6], [7, 8]], ["f", "f", "f", "f"]) := by
  refine ⟨trivial, by decide, by decide, by decide⟩

/-- a repeated position: columns 0 and 2 are retyped once each (column 2 already has the dtype) -/
example : ∃ r, tbEx.astypeBlocks (.list [0, 0, 2]) "f" (fun c => c.map (· + 10)) = .ok r ∧
    r.dtypes = ["f", "f", "f", "f"] ∧ r.cols = [[11, 12], [3, 4], [5, 6], [7, 8]] := by
  obtain ⟨r, h1, h2, h3⟩ := astype_refines_partial tbEx tbEx_wf (.list [0, 0, 2]) [0, 0, 2] "f"
    (fun c => c.map (· + 10)) trivial (by decide)
  exact ⟨r, h1, by rw [h2]; decide, by rw [h3]; decide⟩

/-! ### every key: the statements without `AscendingSafe`

`slice_to_ascending_slice` has been repaired (model `sliceToAscending`; `C04.ascending_same_positions`:
the ascending slice addresses the same positions, reversed for a negative step), so with
`retain_key_order=False` a negative-step slice yields the targets of the ascending positions
(`TB.neg_slice_atgts`), and dropping / mapping only depends on WHICH columns are addressed. -/

/-- no key is excluded any more: a key is ascending-safe or a slice with a negative (or zero) step -/
theorem ascendingSafe_or_neg (ck : Key) :
    AscendingSafe ck ∨ ∃ s st, ck = .slice s ∧ s.step = some st ∧ st ≤ 0 := by
  cases ck with
  | slice s =>
    cases hs : s.step with
    | none => exact Or.inl (Or.inl hs)
    | some st =>
      by_cases h : 0 < st
      · exact Or.inl (Or.inr ⟨st, hs, h⟩)
      · exact Or.inr ⟨s, st, rfl, hs, by omega⟩
  | all => exact Or.inl trivial
  | int i => exact Or.inl trivial
  | list is => exact Or.inl trivial
  | mask bs => exact Or.inl trivial

/-- a slice with a non-positive step is not ascending-safe -/
theorem not_safe_neg (s : PySlice) (st : Int) (hs : s.step = some st) (hst : st ≤ 0) :
    ¬ AscendingSafe (.slice s) := by
  rintro (h | ⟨st', h, hp⟩)
  · rw [hs] at h; cases h
  · rw [hs] at h; cases h; omega

/-- Dropping columns, EVERY column key (`drop_cols_refines_partial` without `AscendingSafe`): exactly
    the addressed columns disappear, the others keep order, values, dtypes — also for a negative-step
    slice such as `[::-1]` or `[2:0:-1]`. -/
theorem drop_cols_refines (tb : TB α) (h : tb.WF) (ck : Key) (cps : List Nat)
    (hck : ck.positions tb.ncols = .ok cps) (hne : tb.blocks ≠ []) :
    ∃ r, tb.drop none (some ck) = .ok r ∧
      r.cols = dropCols tb.cols cps ∧ r.dtypes = dropCols tb.dtypes cps ∧ r.rows = tb.rows := by
  obtain ⟨pairs, atgts, hk, ⟨rfl, hok, hsorted, hcover⟩⟩ :=
    tb.key_atgts_all h ck cps hck
  obtain ⟨out, hout, hspec⟩ := dropBlocksGo_spec none (tb.covOf cps) 0 tb.blocks atgts
    (fun t ht => by
      obtain ⟨h1, b, h2, h3⟩ := hok t ht
      exact ⟨h1, Nat.zero_le _, b, by simpa using h2, h3⟩)
    hsorted
    (fun p _ => by rw [tb.covOf_iff, hcover p])
  have hrows : ∀ b ∈ out, b.RowsOk tb.rows := by
    intro b hb c hc
    have hmem : (b.dt, c) ∈ colsDT out := by
      simp only [colsDT, List.mem_flatMap]
      exact ⟨b, hb, List.mem_map.mpr ⟨c, hc, rfl⟩⟩
    rw [hspec] at hmem
    obtain ⟨c0, hc0, hx⟩ := dropSpec_mem _ _ _ _ _ hmem
    simp only [delRows] at hx
    rw [hx]
    simp only [List.mem_flatMap] at hc0
    obtain ⟨b0, hb0, hcb0⟩ := hc0
    exact h.2 b0 hb0 c0 hcb0
  obtain ⟨tb', htb'⟩ := fromBlocks_ok out tb.rows tb.rows hrows
  obtain ⟨_, hcols, hdts⟩ := TB.fromBlocks_spec _ _ _ htb'
  have hemp : tb.blocks.isEmpty = false := by cases hb : tb.blocks <;> simp_all
  have hX := tb.dropSpec_eq_dropCols cps (delRows none)
  refine ⟨{ tb' with rows := tb.rows }, ?_, ?_, ?_, rfl⟩
  · simp only [drop, hemp, Bool.false_eq_true, if_false, hk, bind, Except.bind, pure, Except.pure, hout, htb']
  · show tb'.cols = _
    rw [hcols, ← colsDT_snd, hspec, hX, tb.cols_eq_colsDT, dropCols_map]
    simp only [List.map_map, dropCols]
    apply List.map_congr_left
    intro x _; rfl
  · show tb'.dtypes = _
    rw [hdts, ← colsDT_fst, hspec, hX, tb.dtypes_eq_colsDT, dropCols_map]
    simp only [List.map_map, dropCols]
    apply List.map_congr_left
    intro x _; rfl

/-- `[::-1]` addresses every column: nothing is left; `[2:0:-1]` addresses columns 2 and 1 -/
example : ¬ AscendingSafe (.slice ⟨none, none, some (-1)⟩) ∧
    (Key.slice ⟨none, none, some (-1)⟩).positions tbEx.ncols = .ok [3, 2, 1, 0] ∧
    (tbEx.drop none (some (.slice ⟨none, none, some (-1)⟩))).map (fun r => (r.cols, r.dtypes, r.rows))
      = .ok ([], [], 2) ∧
    (Key.slice ⟨some 2, some 0, some (-1)⟩).positions tbEx.ncols = .ok [2, 1] ∧
    (tbEx.drop none (some (.slice ⟨some 2, some 0, some (-1)⟩))).map (fun r => (r.cols, r.dtypes, r.rows))
      = .ok ([[1, 2], [7, 8]], ["i", "f"], 2) := by
  refine ⟨not_safe_neg _ (-1) rfl (by decide), by decide, by decide, by decide, by decide⟩

/-- the theorem instantiated at a negative-step slice with a step other than -1 -/
example : ∃ r, tbEx.drop none (some (.slice ⟨none, none, some (-2)⟩)) = .ok r ∧
    r.cols = [[1, 2], [5, 6]] ∧ r.dtypes = ["i", "f"] ∧ r.rows = 2 := by
  obtain ⟨r, h1, h2, h3, h4⟩ := drop_cols_refines tbEx tbEx_wf (.slice ⟨none, none, some (-2)⟩) [3, 1]
    (by decide) (by decide)
  exact ⟨r, h1, by rw [h2]; decide, by rw [h3]; decide, h4⟩

/-- `_ufunc_blocks`, EVERY column key (`ufunc_refines_partial` without `AscendingSafe`): the function
    is applied to exactly the addressed columns, also for a negative-step slice. -/
theorem ufunc_refines (tb : TB α) (h : tb.WF) (ck : Key) (cps : List Nat) (g : List α → List α)
    (hck : ck.positions tb.ncols = .ok cps) :
    ∃ r, tb.ufuncBlocks ck g = .ok r ∧
      r.cols = tb.cols.mapIdx (fun j c => if j ∈ cps then g c else c) ∧ r.dtypes = tb.dtypes := by
  obtain ⟨pairs, out, hk, hout, hspec⟩ := tb.mapBlocks_refines_all h ck cps hck
    (f := fun b => match b with | .d1 t c => .d1 t (g c) | .d2 t cs => .d2 t (cs.map g))
    (fd := id) (fc := g) ⟨fun _ _ => rfl, fun _ _ => rfl⟩ (fun _ => false) (fun _ => false) (fun _ => rfl)
  refine ⟨⟨tb.rows, out⟩, ?_, ?_, ?_⟩
  · simp only [ufuncBlocks, hk, bind, Except.bind]
    split
    · rename_i heq
      cases mapBlocksGo_congr ⟨fun _ _ => rfl, fun _ _ => rfl⟩ ⟨fun _ _ => rfl, fun _ _ => rfl⟩ hout heq
    · rename_i bs heq
      cases mapBlocksGo_congr ⟨fun _ _ => rfl, fun _ _ => rfl⟩ ⟨fun _ _ => rfl, fun _ _ => rfl⟩ hout heq
      rfl
  · show out.flatMap Block.colsOf = _
    rw [← colsDT_snd, hspec, tb.cols_eq_colsDT]
    apply List.ext_getElem?
    intro j
    simp only [List.getElem?_map, List.getElem?_mapIdx]
    cases (colsDT tb.blocks)[j]? with
    | none => rfl
    | some x => by_cases hj : j ∈ cps <;> simp [hj]
  · show out.flatMap (fun b => List.replicate b.width b.dt) = _
    rw [← colsDT_fst, hspec, tb.dtypes_eq_colsDT]
    apply List.ext_getElem?
    intro j
    simp only [List.getElem?_map, List.getElem?_mapIdx]
    cases (colsDT tb.blocks)[j]? with
    | none => rfl
    | some x => by_cases hj : j ∈ cps <;> simp [hj]

example : ¬ AscendingSafe (.slice ⟨some 2, some 0, some (-1)⟩) ∧
    (Key.slice ⟨some 2, some 0, some (-1)⟩).positions tbEx.ncols = .ok [2, 1] ∧
    (tbEx.ufuncBlocks (.slice ⟨some 2, some 0, some (-1)⟩) (fun c => c.map (· + 10))).map
      (fun r => (r.cols, r.dtypes))
      = .ok ([[1, 2], [13, 14], [15, 16], [7, 8]], ["i", "f", "f", "f"]) ∧
    (tbEx.ufuncBlocks (.slice ⟨none, none, some (-1)⟩) (fun c => c.map (· + 10))).map TB.cols
      = .ok [[11, 12], [13, 14], [15, 16], [17, 18]] := by
  refine ⟨not_safe_neg _ (-1) rfl (by decide), by decide, by decide, by decide⟩

example : ∃ r, tbEx.ufuncBlocks (.slice ⟨none, none, some (-3)⟩) (fun c => c.map (· + 10)) = .ok r ∧
    r.cols = [[11, 12], [3, 4], [5, 6], [17, 18]] ∧ r.dtypes = ["i", "f", "f", "f"] := by
  obtain ⟨r, h1, h2, h3⟩ := ufunc_refines tbEx tbEx_wf (.slice ⟨none, none, some (-3)⟩) [3, 0]
    (fun c => c.map (· + 10)) (by decide)
  exact ⟨r, h1, by rw [h2]; decide, by rw [h3]; decide⟩

/-- `_astype_blocks`, EVERY column key (`astype_refines_partial` without `AscendingSafe`): exactly the
    addressed columns are retyped, also for a negative-step slice. -/
theorem astype_refines (tb : TB α) (h : tb.WF) (ck : Key) (cps : List Nat) (dt : DT) (cast : List α → List α)
    (hck : ck.positions tb.ncols = .ok cps) :
    ∃ r, tb.astypeBlocks ck dt cast = .ok r ∧
      r.dtypes = tb.dtypes.mapIdx (fun j d => if j ∈ cps then dt else d) ∧
      r.cols = (tb.cols.zip tb.dtypes).mapIdx (fun j cd => if j ∈ cps ∧ cd.2 ≠ dt then cast cd.1 else cd.1) := by
  obtain ⟨pairs, out, hk, hout, hspec⟩ := tb.mapBlocks_refines_all h ck cps hck
    (f := fun b => match b with | .d1 _ c => .d1 dt (cast c) | .d2 _ cs => .d2 dt (cs.map cast))
    (fd := fun _ => dt) (fc := cast) ⟨fun _ _ => rfl, fun _ _ => rfl⟩
    (fun b => decide (b.dt = dt)) (fun t => decide (t = dt)) (fun _ => rfl)
  refine ⟨⟨tb.rows, out⟩, ?_, ?_, ?_⟩
  · simp only [astypeBlocks, hk, bind, Except.bind]
    split
    · rename_i heq
      cases mapBlocksGo_congr ⟨fun _ _ => rfl, fun _ _ => rfl⟩ ⟨fun _ _ => rfl, fun _ _ => rfl⟩ hout heq
    · rename_i bs heq
      cases mapBlocksGo_congr ⟨fun _ _ => rfl, fun _ _ => rfl⟩ ⟨fun _ _ => rfl, fun _ _ => rfl⟩ hout heq
      rfl
  · show out.flatMap (fun b => List.replicate b.width b.dt) = _
    rw [← colsDT_fst, hspec, tb.dtypes_eq_colsDT]
    apply List.ext_getElem?
    intro j
    simp only [List.getElem?_map, List.getElem?_mapIdx]
    cases (colsDT tb.blocks)[j]? with
    | none => rfl
    | some x =>
      by_cases hj : j ∈ cps <;> by_cases hx : x.1 = dt <;> simp [hj, hx]
  · show out.flatMap Block.colsOf = _
    rw [← colsDT_snd, hspec, tb.cols_eq_colsDT, tb.dtypes_eq_colsDT]
    apply List.ext_getElem?
    intro j
    simp only [List.getElem?_map, List.getElem?_mapIdx]
    rw [List.zip_map']
    simp only [List.getElem?_map]
    cases (colsDT tb.blocks)[j]? with
    | none => rfl
    | some x =>
      by_cases hj : j ∈ cps <;> by_cases hx : x.1 = dt <;> simp [hj, hx]

example : ¬ AscendingSafe (.slice ⟨none, none, some (-1)⟩) ∧
    (Key.slice ⟨none, none, some (-1)⟩).positions tbEx.ncols = .ok [3, 2, 1, 0] ∧
    (tbEx.astypeBlocks (.slice ⟨none, none, some (-1)⟩) "f" (fun c => c.map (· + 10))).map
      (fun r => (r.cols, r.dtypes))
      = .ok ([[11, 12], [3, 4], [5, 6], [7, 8]], ["f", "f", "f", "f"]) ∧
    (tbEx.astypeBlocks (.slice ⟨some 2, some 0, some (-1)⟩) "z" (fun c => c.map (· + 10))).map
      (fun r => (r.cols, r.dtypes))
      = .ok ([[1, 2], [13, 14], [15, 16], [7, 8]], ["i", "z", "z", "f"]) := by
  refine ⟨not_safe_neg _ (-1) rfl (by decide), by decide, by decide, by decide⟩

example : ∃ r, tbEx.astypeBlocks (.slice ⟨some (-1), none, some (-2)⟩) "z" (fun c => c.map (· + 10)) = .ok r ∧
    r.dtypes = ["i", "z", "f", "z"] ∧ r.cols = [[1, 2], [13, 14], [5, 6], [17, 18]] := by
  obtain ⟨r, h1, h2, h3⟩ := astype_refines tbEx tbEx_wf (.slice ⟨some (-1), none, some (-2)⟩) [3, 1] "z"
    (fun c => c.map (· + 10)) (by decide)
  exact ⟨r, h1, by rw [h2]; decide, by rw [h3]; decide⟩

/-! ### assignment: `TypeBlocks._assign_from_iloc_by_unit` (`Frame.assign[...](value)`, `assign.iloc`, `assign.loc`
with an element or an array value), model `TB.assignUnit` (BlocksAssign.lean)

Supported keys.  The source says of the column key "must be sorted in ascending order" and, at the
call of `_key_to_block_slices(column_key, retain_key_order=True)`, "NOTE: this requires column_key to
be ordered to work; we cannot use retain_key_order=False, as the passed `value` is ordered by that
key".  `assign_exact` therefore takes EVERY kind of column key (null slice, integer, slice, list,
Boolean mask) whose positions are strictly ascending — `Frame.assign` makes the key ascending
(`key_to_ascending_key`) before it calls the generator — and every row key (any order, repeats
allowed: the last occurrence wins, as in NumPy).  For a column key that is not ascending the
statement is false for the mirrored generator (`assign_unordered_key_counterexample`).

`assign_original_untouched` is a remark, not a theorem: `TB.assignUnit` is a pure function, the
`TB` it is applied to is a value and cannot change (on the real code the property module compares a
snapshot of the original before and after every call). -/

/-- dtype resolution used in the examples: equal dtypes resolve to themselves, others to object -/
def resEx (a b : DT) : DT := if a = b then a else "O"

/-- Assignment changes only what it addresses.  For a well-formed `tb` with at least one block, any
    row key, a column key with strictly ascending positions and a value that has a cell for every
    addressed cell (`AVal.Fits`: an element; a 1-D array — one value per addressed COLUMN when the
    column key is not an integer, one per addressed ROW when it is; a 2-D array, one column per
    addressed column in key order), the generator succeeds and
    * the row count, the column count and well-formedness are kept,
    * every cell that is not addressed keeps its value,
    * an addressed cell holds the value's cell for (position of the row in the row key, position of
      the column in the column key) — for a repeated row position the last occurrence,
    * an unaddressed column keeps its exact dtype — also when it lives in the same 2-D block as an
      addressed column (the block is split into before / assigned / after),
    * an addressed column gets the VALUE's dtype when the row key is the null slice (the sub-block
      is rebuilt), otherwise `resolve value.dtype block.dtype`. -/
theorem assign_exact (tb : TB α) (h : tb.WF) (hne : tb.blocks ≠ []) (rk ck : Key) (rps cps : List Nat)
    (v : AVal α) (resolve : DT → DT → DT)
    (hrk : rk.positions tb.rows = .ok rps) (hck : ck.positions tb.ncols = .ok cps)
    (hasc : cps.Pairwise (· < ·)) (hfit : v.Fits rk.isMulti ck.isMulti rps.length cps.length) :
    ∃ r, tb.assignUnit rk ck v resolve = .ok r ∧ r.WF ∧ r.rows = tb.rows ∧ r.ncols = tb.ncols ∧
      (∀ j i : Nat, j ∉ cps ∨ i ∉ rps → r.cols[j]?.bind (·[i]?) = tb.cols[j]?.bind (·[i]?)) ∧
      (∀ kc kr (hc : kc < cps.length) (hr : kr < rps.length),
         (∀ k', kr < k' → (h' : k' < rps.length) → rps[k'] ≠ rps[kr]) →
         r.cols[cps[kc]]?.bind (·[rps[kr]]?) = v.cell ck.isMulti kr kc) ∧
      (∀ j : Nat, j ∉ cps → r.dtypes[j]? = tb.dtypes[j]?) ∧
      (∀ j : Nat, j ∈ cps → r.dtypes[j]? =
        tb.dtypes[j]?.map (fun d => if rowIsNull rk then v.dt else resolve v.dt d)) :=
  tb.assignUnit_cells h hne rk ck rps cps v resolve hrk hck hasc hfit

/-- why `assign_exact` asks for a block: without one the loop body never runs and `from_blocks` has
    nothing to derive a row count from (ErrorInitTypeBlocks on the real code) -/
theorem assign_no_blocks (rows : Nat) (rk ck : Key) (v : AVal α) (resolve : DT → DT → DT) :
    (⟨rows, []⟩ : TB α).assignUnit rk ck v resolve = .error .init := rfl

/-- non-vacuity: `tbEx` has a 2-D block of width 3 (columns 1..3); only its MIDDLE column (2) is
    addressed, rows [1]; the hypotheses hold, and the model splits the block into before / assigned /
    after: the neighbours keep dtype "f", the assigned column gets the resolved dtype -/
example : tbEx.WF ∧ tbEx.blocks ≠ [] ∧ (Key.list [1]).positions tbEx.rows = .ok [1] ∧
    (Key.int 2).positions tbEx.ncols = .ok [2] ∧ [2].Pairwise (· < ·) ∧
    (AVal.elem 99 "i").Fits (Key.list [1]).isMulti (Key.int 2).isMulti 1 1 ∧
    tbEx.assignUnit (.list [1]) (.int 2) (.elem 99 "i") resEx
      = .ok ⟨2, [.d1 "i" [1, 2], .d2 "f" [[3, 4]], .d1 "O" [5, 99], .d2 "f" [[7, 8]]]⟩ := by
  refine ⟨tbEx_wf, by decide, by decide, by decide, by decide, trivial, by decide⟩

/-- the theorem instantiated there: the addressed cell, a neighbour in the same 2-D block, its dtype -/
example : ∃ r, tbEx.assignUnit (.list [1]) (.int 2) (.elem 99 "i") resEx = .ok r ∧
    r.cols[2]?.bind (·[1]?) = some 99 ∧ r.cols[2]?.bind (·[0]?) = some 5 ∧
    r.cols[3]?.bind (·[1]?) = some 8 ∧ r.dtypes[1]? = some "f" ∧ r.dtypes[3]? = some "f" ∧
    r.dtypes[2]? = some "O" := by
  obtain ⟨r, h1, _, _, _, h5, h6, h7, h8⟩ := assign_exact tbEx tbEx_wf (by decide) (.list [1]) (.int 2) [1] [2]
    (.elem 99 "i") resEx (by decide) (by decide) (by decide) trivial
  refine ⟨r, h1, ?_, ?_, ?_, ?_, ?_, ?_⟩
  · exact h6 0 0 (by decide) (by decide) (by intro k' hk h'; simp at h'; omega)
  · rw [h5 2 0 (Or.inr (by decide))]; decide
  · rw [h5 3 1 (Or.inl (by decide))]; decide
  · rw [h7 1 (by decide)]; decide
  · rw [h7 3 (by decide)]; decide
  · rw [h8 2 (by decide)]; decide

/-- null row key, a 2-D value, a mask key addressing the middle column of the block and the 1-D
    block: the sub-blocks are rebuilt with the VALUE's dtype, value columns are consumed in key order -/
example : (Key.mask [true, false, true, false]).positions tbEx.ncols = .ok [0, 2] ∧
    (AVal.mat [[10, 11], [20, 21]] "z").Fits Key.all.isMulti (Key.mask [true, false, true, false]).isMulti 2 2 ∧
    tbEx.assignUnit .all (.mask [true, false, true, false]) (.mat [[10, 11], [20, 21]] "z") resEx
      = .ok ⟨2, [.d1 "z" [10, 11], .d2 "f" [[3, 4]], .d2 "z" [[20, 21]], .d2 "f" [[7, 8]]]⟩ := by
  refine ⟨by decide, ⟨rfl, rfl, by decide⟩, by decide⟩

/-- a 1-D value with a non-integer column key is read along the addressed COLUMNS (one value per
    column, repeated down the addressed rows); with an integer column key along the addressed rows -/
example :
    (tbEx.assignUnit (.slice ⟨none, none, some 1⟩) (.slice ⟨some 1, some 3, none⟩) (.col [10, 20] "f") resEx).map TB.cols
      = .ok [[1, 2], [10, 10], [20, 20], [7, 8]] ∧
    (tbEx.assignUnit (.slice ⟨none, none, some 1⟩) (.int 2) (.col [10, 20] "f") resEx).map TB.cols
      = .ok [[1, 2], [3, 4], [10, 20], [7, 8]] := by
  refine ⟨by decide, by decide⟩

/-- `assign_exact` needs the ascending column key: for the key `[2, 0]` (positions `[2, 0]`, a
    fitting 2-D value whose FIRST column is meant for column 2 and whose second for column 0) the
    mirrored generator stores the first value column in column 2 and NEVER reaches the target of
    column 0 again — the walk over the blocks has passed block 0 when that target comes up — so
    column 0, though addressed, keeps its cells: the cell statement of `assign_exact` fails.
    `Frame.assign` avoids this by sorting the key first (`key_to_ascending_key`); the value is then
    consumed in ASCENDING column order, not in the caller's key order (third conjunct: with the
    sorted key `[0, 2]` the first value column lands in column 0) — observation F14. -/
theorem assign_unordered_key_counterexample :
    (Key.list [2, 0]).positions (⟨2, [.d1 "a" [1, 2], .d1 "b" [3, 4], .d1 "c" [5, 6]]⟩ : TB Nat).ncols = .ok [2, 0] ∧
    ((⟨2, [.d1 "a" [1, 2], .d1 "b" [3, 4], .d1 "c" [5, 6]]⟩ : TB Nat).assignUnit .all (.list [2, 0])
        (.mat [[10, 11], [20, 21]] "a") resEx).map TB.cols = .ok [[1, 2], [3, 4], [10, 11]] ∧
    ((⟨2, [.d1 "a" [1, 2], .d1 "b" [3, 4], .d1 "c" [5, 6]]⟩ : TB Nat).assignUnit .all (.list [0, 2])
        (.mat [[10, 11], [20, 21]] "a") resEx).map TB.cols = .ok [[10, 11], [3, 4], [20, 21]] ∧
    -- the cell statement of `assign_exact` at (row 0, second key column = column 0):
    ¬ (((⟨2, [.d1 "a" [1, 2], .d1 "b" [3, 4], .d1 "c" [5, 6]]⟩ : TB Nat).assignUnit .all (.list [2, 0])
        (.mat [[10, 11], [20, 21]] "a") resEx).toOption.bind (fun r => r.cols[0]?.bind (·[0]?))
      = (AVal.mat [[10, 11], [20, 21]] "a").cell true 0 1) := by
  decide

/-- the value of the counterexample fits the key (so only the ascending hypothesis is missing) -/
example : (AVal.mat [[10, 11], [20, 21]] "a" : AVal Nat).Fits Key.all.isMulti (Key.list [2, 0]).isMulti 2 2 :=
  ⟨rfl, rfl, by decide⟩

end SF.C08
