/-
  C08 — functional updates change only what they address (TypeBlocks level):
  drop removes exactly the addressed rows/columns, the column-wise map generators (`_ufunc_blocks`,
  `_astype_blocks`) change exactly the addressed columns; labels/order/dtypes of the rest are kept.
  All results are new values: the original is untouched by construction (pure functions).
-/
import SFModel.BlocksLemmas

namespace SF.C08
open SF SF.TB

variable {α : Type}

/-- remove the cells at the given row positions -/
def deleteRows (ps : List Nat) (c : List α) : List α :=
  (c.zipIdx.filter (fun (_, i) => ¬ ps.contains i)).map (·.1)

/-- remove the columns at the given positions -/
def dropCols {β} (cols : List β) (ps : List Nat) : List β :=
  (cols.zipIdx.filter (fun (_, i) => ¬ ps.contains i)).map (·.1)

/-- keys for which `_key_to_block_slices(retain_key_order=False)` is exact as it stands:
    everything except a negative-step slice (see `slice_to_ascending_slice`, finding F7) -/
def AscendingSafe : Key → Prop
  | .slice s => s.step = none ∨ ∃ st, s.step = some st ∧ 0 < st
  | _ => True

/-- Dropping columns: exactly the addressed columns disappear, the others keep order, values, dtypes. -/
theorem drop_cols_refines_partial (tb : TB α) (h : tb.WF) (ck : Key) (cps : List Nat)
    (hsafe : AscendingSafe ck) (hck : ck.positions tb.ncols = .ok cps) (hne : tb.blocks ≠ []) :
    ∃ r, tb.drop none (some ck) = .ok r ∧
      r.cols = dropCols tb.cols cps ∧ r.dtypes = dropCols tb.dtypes cps ∧ r.rows = tb.rows := by
  sorry

/-- Dropping rows: every column loses exactly the addressed rows. -/
theorem drop_rows_refines (tb : TB α) (h : tb.WF) (rk : Key) (rps : List Nat)
    (hrk : rk.positions tb.rows = .ok rps) :
    ∃ r, tb.drop (some rk) none = .ok r ∧
      r.cols = tb.cols.map (deleteRows rps) ∧ r.dtypes = tb.dtypes := by
  sorry

/-- `_ufunc_blocks`: the function is applied to exactly the addressed columns. -/
theorem ufunc_refines_partial (tb : TB α) (h : tb.WF) (ck : Key) (cps : List Nat) (g : List α → List α)
    (hsafe : AscendingSafe ck) (hck : ck.positions tb.ncols = .ok cps) :
    ∃ r, tb.ufuncBlocks ck g = .ok r ∧
      r.cols = tb.cols.mapIdx (fun j c => if j ∈ cps then g c else c) ∧ r.dtypes = tb.dtypes := by
  sorry

/-- `_astype_blocks`: exactly the addressed columns are retyped (a column already of that dtype is
    left as it is); unaddressed columns keep their exact dtype. -/
theorem astype_refines_partial (tb : TB α) (h : tb.WF) (ck : Key) (cps : List Nat) (dt : DT) (cast : List α → List α)
    (hsafe : AscendingSafe ck) (hck : ck.positions tb.ncols = .ok cps) :
    ∃ r, tb.astypeBlocks ck dt cast = .ok r ∧
      r.dtypes = tb.dtypes.mapIdx (fun j d => if j ∈ cps then dt else d) ∧
      r.cols = (tb.cols.zip tb.dtypes).mapIdx (fun j cd => if j ∈ cps ∧ cd.2 ≠ dt then cast cd.1 else cd.1) := by
  sorry

end SF.C08
