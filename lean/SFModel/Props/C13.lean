/-
  C13 — grouping partitions the container; windows cover it as specified.

  Property theorems only (helper lemmas: GroupLemmas.lean, WindowLemmas.lean).
  `le` is a total order on key values given as a Boolean function (`trans`, `total`, `antisymm`);
  rows are identified by their original positions.  The theorems are about the mirrored
  algorithms: the generic path (`np.unique` + one Boolean mask per group), the fast path (stable
  sort, `transitions`, slices) and the `while True` loop of `axis_window_items` (with fuel).
-/
import SFModel.GroupLemmas
import SFModel.WindowLemmas

namespace SF.C13
open SF SF.Order SF.Group SF.Window List

variable {α : Type} [DecidableEq α] {le : α → α → Bool}

/-- What "the groups partition the container" means for a list of `(key, rows)`:
    * `cover`    — all rows of all groups together are exactly the rows `0 … n-1`, each once;
    * `sameKey`  — every member of a group holds the group's key;
    * `distinct` — no two groups have the same key;
    * `order`    — inside a group the rows are in their original order; no group is empty. -/
structure IsPartition (keys : List α) (G : List (α × List Nat)) : Prop where
  cover : (G.flatMap (·.2)).Perm (List.range keys.length)
  sameKey : ∀ g ∈ G, ∀ i ∈ g.2, keys[i]? = some g.1
  distinct : (G.map (·.1)).Nodup
  order : ∀ g ∈ G, g.2.Pairwise (· < ·) ∧ g.2 ≠ []

omit [DecidableEq α] in
theorem zipIdx_pairwise_snd (keys : List α) : (keys.zipIdx).Pairwise (fun a b => a.2 < b.2) := by
  have h := List.pairwise_lt_range' (s := 0) (n := keys.length)
  rw [← List.zipIdx_map_snd 0 keys, List.pairwise_map] at h
  exact h

theorem mem_positionsOf {keys : List α} {g : α} {i : Nat} :
    i ∈ positionsOf keys g ↔ keys[i]? = some g := by
  unfold positionsOf
  simp only [List.mem_map, List.mem_filter, decide_eq_true_eq]
  constructor
  · rintro ⟨p, ⟨hp, hg⟩, rfl⟩
    have := List.mem_zipIdx_iff_getElem?.mp hp
    rw [this, hg]
  · intro h
    exact ⟨(g, i), ⟨List.mem_zipIdx_iff_getElem?.mpr h, rfl⟩, rfl⟩

/-- The specification is a partition, with strictly ascending group keys. -/
theorem spec_partition (trans : ∀ a b c : α, le a b → le b c → le a c)
    (total : ∀ a b : α, le a b || le b a) (antisymm : ∀ a b : α, le a b → le b a → a = b)
    (keys : List α) :
    IsPartition keys (groupSpec le keys) ∧
    ((groupSpec le keys).map (·.1)).Pairwise (fun a b => le a b = true ∧ a ≠ b) := by
  have hsorted := List.pairwise_mergeSort trans total keys
  have hstrict := dedupAdj_strict antisymm hsorted
  have hn : (dedupAdj (keys.mergeSort le)).Nodup := hstrict.imp (fun h => h.2)
  have hkeys : (groupSpec le keys).map (·.1) = dedupAdj (keys.mergeSort le) := by
    simp [groupSpec, List.map_map, Function.comp_def]
  have hpw : ∀ g, (positionsOf keys g).Pairwise (· < ·) := by
    intro g
    unfold positionsOf
    rw [List.pairwise_map]
    exact (zipIdx_pairwise_snd keys).filter _
  refine ⟨⟨?_, ?_, ?_, ?_⟩, hkeys ▸ hstrict⟩
  · -- cover
    have hfm : (groupSpec le keys).flatMap (·.2) = (dedupAdj (keys.mergeSort le)).flatMap (positionsOf keys) := by
      simp [groupSpec, List.flatMap_map]
    rw [hfm]
    apply (List.perm_ext_iff_of_nodup ?_ List.nodup_range).mpr
    · intro i
      simp only [List.mem_flatMap, mem_positionsOf, List.mem_range]
      constructor
      · rintro ⟨g, _, hg⟩
        exact (List.getElem?_eq_some_iff.mp hg).1
      · intro hi
        refine ⟨keys[i], ?_, List.getElem?_eq_getElem hi⟩
        rw [mem_dedupAdj, List.mem_mergeSort]
        exact List.getElem_mem hi
    · show List.Pairwise (· ≠ ·) _
      rw [List.pairwise_flatMap]
      refine ⟨fun g _ => (hpw g).imp (fun h => Nat.ne_of_lt h), ?_⟩
      refine hn.imp ?_
      intro a b hab x hx y hy hxy
      subst hxy
      rw [mem_positionsOf] at hx hy
      rw [hx] at hy
      exact hab (Option.some.inj hy)
  · -- sameKey
    intro g hg i hi
    simp only [groupSpec, List.mem_map] at hg
    obtain ⟨k, _, rfl⟩ := hg
    exact mem_positionsOf.mp hi
  · rw [hkeys]; exact hn
  · intro g hg
    simp only [groupSpec, List.mem_map] at hg
    obtain ⟨k, hk, rfl⟩ := hg
    refine ⟨hpw k, ?_⟩
    have hk' : k ∈ keys := by rwa [mem_dedupAdj, List.mem_mergeSort] at hk
    obtain ⟨i, hi, hik⟩ := List.getElem_of_mem hk'
    intro hnil
    have : i ∈ positionsOf keys k := mem_positionsOf.mpr (by rw [List.getElem?_eq_getElem hi, hik])
    rw [show positionsOf keys k = [] from hnil] at this
    cases this

/-- **groups_partition** (generic path: `np.unique` + one mask per group). -/
theorem groups_partition_generic (trans : ∀ a b c : α, le a b → le b c → le a c)
    (total : ∀ a b : α, le a b || le b a) (antisymm : ∀ a b : α, le a b → le b a → a = b)
    (keys : List α) : IsPartition keys (groupGeneric le keys) := by
  rw [groupGeneric_eq_spec trans total antisymm]
  exact (spec_partition trans total antisymm keys).1

/-- **groups_partition** (fast path: stable sort, cut at `transitions`): the loop never indexes
    out of range (no IndexError) and what it yields is a partition. -/
theorem groups_partition_sort (trans : ∀ a b c : α, le a b → le b c → le a c)
    (total : ∀ a b : α, le a b || le b a) (antisymm : ∀ a b : α, le a b → le b a → a = b)
    (keys : List α) : ∃ G, groupSort le keys = .ok G ∧ IsPartition keys G :=
  ⟨_, groupSort_eq_spec trans total antisymm keys, (spec_partition trans total antisymm keys).1⟩

/-- **group_paths_agree**: fast path and generic path yield the same list of `(key, rows)`
    (same groups, same order of groups, same order inside every group). -/
theorem group_paths_agree (trans : ∀ a b c : α, le a b → le b c → le a c)
    (total : ∀ a b : α, le a b || le b a) (antisymm : ∀ a b : α, le a b → le b a → a = b)
    (keys : List α) : groupSort le keys = .ok (groupGeneric le keys) := by
  rw [groupGeneric_eq_spec trans total antisymm, groupSort_eq_spec trans total antisymm]

/-- Whatever the selector `_axis_group_loc_items` decides (flat axes, single key, non-object dtype →
    fast path), the caller gets the same groups: the specification. -/
theorem selector_irrelevant (trans : ∀ a b c : α, le a b → le b c → le a c)
    (total : ∀ a b : α, le a b || le b a) (antisymm : ∀ a b : α, le a b → le b a → a = b)
    (keys : List α) (columnsDepth indexDepth : Nat) (keyMultiple hasObject : Bool) :
    groupLoc le (useFastPath columnsDepth indexDepth keyMultiple hasObject) keys = .ok (groupSpec le keys) := by
  unfold groupLoc
  split
  · exact groupSort_eq_spec trans total antisymm keys
  · rw [groupGeneric_eq_spec trans total antisymm]

/-- Both paths list the groups by strictly ascending key. -/
theorem groups_ascending (trans : ∀ a b c : α, le a b → le b c → le a c)
    (total : ∀ a b : α, le a b || le b a) (antisymm : ∀ a b : α, le a b → le b a → a = b)
    (keys : List α) :
    ((groupGeneric le keys).map (·.1)).Pairwise (fun a b => le a b = true ∧ a ≠ b) := by
  rw [groupGeneric_eq_spec trans total antisymm]
  exact (spec_partition trans total antisymm keys).2

/-- **apply_labels**: `iter_group(...).apply(func)` never hits a duplicate-label error and returns
    exactly one result per distinct key, labelled by that key and computed from that key's rows. -/
theorem apply_labels {β : Type} (trans : ∀ a b c : α, le a b → le b c → le a c)
    (total : ∀ a b : α, le a b || le b a) (antisymm : ∀ a b : α, le a b → le b a → a = b)
    (keys : List α) (func : List Nat → β) :
    applyGroups func (groupGeneric le keys)
      = .ok ((dedupAdj (keys.mergeSort le)).map (fun g => (g, func (positionsOf keys g)))) ∧
    ∀ G, groupSort le keys = .ok G → applyGroups func G = applyGroups func (groupGeneric le keys) := by
  constructor
  · rw [groupGeneric_eq_spec trans total antisymm]
    have hd := (spec_partition trans total antisymm keys).1.distinct
    unfold applyGroups seriesFromItems
    have hm : (List.map (fun g => (g.1, func g.2)) (groupSpec le keys)).map (·.1) = (groupSpec le keys).map (·.1) := by
      simp [List.map_map, Function.comp_def]
    rw [hm, if_pos hd]
    simp [groupSpec, List.map_map, Function.comp_def]
  · intro G hG
    rw [group_paths_agree trans total antisymm] at hG
    cases hG; rfl

/-! ### windows -/

/-- **window_fuel**: the fuel the model gives the `while True` loop, `count_window_max + 1` passes,
    always suffices — for every size, step (including `step = 0`: then only the `count` bound stops
    the loop), shift and increment — and more fuel changes nothing. -/
theorem window_fuel (p : WinParams) (n : Nat) (valid : Nat → Nat → Bool) :
    (∃ ws, winLoop p n valid (countWindowMax p n + 1) ⟨p.startShift, p.size, 0⟩ = some ws) ∧
    ∀ extra ws, winLoop p n valid (countWindowMax p n + 1) ⟨p.startShift, p.size, 0⟩ = some ws →
      winLoop p n valid (countWindowMax p n + 1 + extra) ⟨p.startShift, p.size, 0⟩ = some ws := by
  constructor
  · rw [← stateAt_zero]
    exact ⟨_, winLoop_from p n valid (countWindowMax p n) 0 (by omega)⟩
  · intro extra ws h
    induction extra with
    | zero => exact h
    | succ e ih => exact winLoop_mono p n valid _ _ _ ih

/-- **window_exact**: for legal arguments the loop yields exactly the reference enumeration —
    candidate `k` anchored at `start_shift + k*step` with `size + k*size_increment` positions,
    labelled `label_shift` from its right end, invalid candidates dropped, candidates visited up to
    the first `k ≥ 1` at which the exit condition holds. -/
theorem window_exact (p : WinParams) (n : Nat) (valid : Nat → Nat → Bool)
    (hsize : 0 < p.size) (hstep : 0 ≤ p.step) :
    windows p n valid = .ok (windowsSpec p n valid) := by
  unfold windows
  rw [if_neg (by omega), if_neg (by omega)]
  rw [← stateAt_zero, winLoop_from p n valid (countWindowMax p n) 0 (by omega)]
  simp only [windowsSpec, visited, List.filterMap_cons, Nat.zero_add]
  cases windowAt p n valid 0 <;> simp

/-- Illegal arguments are rejected (RuntimeError), nothing is yielded. -/
theorem window_rejects (p : WinParams) (n : Nat) (valid : Nat → Nat → Bool)
    (h : p.size ≤ 0 ∨ p.step < 0) : windows p n valid = .error .shape := by
  unfold windows
  rcases h with h | h
  · rw [if_pos h]
  · by_cases hs : p.size ≤ 0
    · rw [if_pos hs]
    · rw [if_neg hs, if_pos h]

/-- Every yielded window lies inside the axis, its label exists, and with `window_sized` it has
    the full stated size. -/
theorem window_in_range (p : WinParams) (n : Nat) (valid : Nat → Nat → Bool) (k : Nat) (w : Win)
    (h : windowAt p n valid k = some w) :
    w.1 < n ∧ w.2.1 + w.2.2 ≤ n ∧ valid w.2.1 w.2.2 = true ∧
    ((w.1 : Int) = p.startShift + k * p.step + (p.size + k * p.sizeIncrement) - 1 + p.labelShift) ∧
    (p.windowSized = true → (w.2.2 : Int) = p.size + k * p.sizeIncrement) := by
  unfold windowAt windowOf at h
  simp only at h
  split at h
  · cases h
  · rename_i h1
    split at h
    · cases h
    · rename_i h2
      split at h
      · rename_i h3
        simp only [Option.some.injEq] at h
        subst h
        dsimp only
        refine ⟨by omega, by omega, h3, by omega, ?_⟩
        intro hw
        simp only [hw, true_and, ne_eq, Decidable.not_not] at h2
        exact h2
      · cases h

/-! ### non-vacuity and the `step = 0` edge -/

def leInt (a b : Int) : Bool := decide (a ≤ b)

example : (∀ a b c : Int, leInt a b → leInt b c → leInt a c) ∧ (∀ a b : Int, leInt a b || leInt b a) ∧
    (∀ a b : Int, leInt a b → leInt b a → a = b) := by
  refine ⟨?_, ?_, ?_⟩
  · intro a b c; simp only [leInt, decide_eq_true_eq]; omega
  · intro a b; simp only [leInt, Bool.or_eq_true, decide_eq_true_eq]; omega
  · intro a b; simp only [leInt, decide_eq_true_eq]; omega

/-- size 2, step 1 on 4 entries: three full windows labelled by their right end -/
example : windows ⟨2, 1, true, 0, 0, 0⟩ 4 (fun _ _ => true) = .ok [(1, 0, 2), (2, 1, 2), (3, 2, 2)] := by
  decide

/-- `step = 0`, no increment: the real loop terminates only through the `count` bound and yields the
    same window `count_window_max + 1` times -/
example : windows ⟨2, 0, true, 0, 0, 0⟩ 3 (fun _ _ => true) = .ok [(1, 0, 2), (1, 0, 2), (1, 0, 2), (1, 0, 2)] := by
  decide

/-- … so one pass less of fuel does not suffice: the bound of `window_fuel` is tight -/
example : winLoop ⟨2, 0, true, 0, 0, 0⟩ 3 (fun _ _ => true) 3 ⟨0, 2, 0⟩ = none := by decide

/-- expanding windows (`step = 0`, `size_increment = 1`) -/
example : windows ⟨1, 0, true, 0, 0, 1⟩ 3 (fun _ _ => true) = .ok [(0, 0, 1), (1, 0, 2), (2, 0, 3)] := by
  decide

end SF.C13
