/-
  C18 — parallel execution gives the same answer as sequential execution.

  Property theorems about the mirrored algorithm of SFModel/Pool.lean (`_get_chunks`, futures completed
  in an arbitrary order `sched`, delivery by submission index, key list zipped with the results).
  Quantified over all list lengths, all chunk sizes ≥ 1, thread or process pools, and all
  permutations `sched` of the task indices.
-/
import SFModel.PoolLemmas

namespace SF.C18
open SF SF.Pool

variable {α β κ ν ε : Type}

/-! ### chunking -/

/-- Splitting into chunks of size `c ≥ 1`, mapping chunk-wise and chaining = mapping the list. -/
theorem chunks_flatten (f : α → β) {c : Nat} (hc : 1 ≤ c) (xs : List α) :
    (chunks c xs).flatMap (List.map f) = xs.map f := by
  have h := chunks_flatten' hc xs
  calc (chunks c xs).flatMap (List.map f)
      = ((chunks c xs).flatten).map f := by simp [List.flatMap_def, List.map_flatten]
    _ = xs.map f := by rw [h]

example : chunks 2 [1, 2, 3, 4, 5] = [[1, 2], [3, 4], [5]] := by decide
example : chunks 6 [1, 2, 3, 4, 5] = [[1, 2, 3, 4, 5]] := by decide
example : chunks 1 ([] : List Nat) = [] := by decide

/-- Chunk boundaries: chunk `i` is exactly `xs[i*c : i*c + c]`; there is no chunk past the end;
    every chunk is non-empty and no longer than `c`. -/
theorem chunks_boundaries {c : Nat} (hc : 1 ≤ c) (xs : List α) :
    (∀ i, (chunks c xs)[i]? = if i * c < xs.length then some ((xs.drop (i * c)).take c) else none) ∧
    (∀ ch ∈ chunks c xs, 0 < ch.length ∧ ch.length ≤ c) :=
  ⟨fun i => chunksAux_getElem? hc _ xs i (by omega), chunksAux_sizes _ xs⟩

/-! ### any completion order = sequential -/

/-- `executor.map` (thread or process pool, chunk size `c ≥ 1`) under *every* completion order that
    finishes all tasks returns what the sequential comprehension `[f(x) for x in xs]` returns — the same
    list, or the error of the first failing element. -/
theorem executor_map_eq_sequential (threads : Bool) (f : α → Except ε β) (xs : List α) {c : Nat} (hc : 1 ≤ c)
    {sched : List Nat} (hs : sched.Perm (List.range (taskCount threads xs c))) :
    executorMap threads f xs c sched = some (mapE f xs) := by
  unfold executorMap
  have hc' : 1 ≤ (if threads then 1 else c) := by split <;> omega
  have hall := perm_range_mem hs
  simp only [taskCount] at hall
  simp only [complete_collect (mapE f) _ sched hall, Option.map_some]
  rw [firstError_map_mapE_flatten, chunks_flatten' hc']

/-- No task fails: for every permutation `sched` the delivered list is `xs.map g`, in input order. -/
theorem schedule_independent (threads : Bool) (g : α → β) (xs : List α) {c : Nat} (hc : 1 ≤ c)
    {sched : List Nat} (hs : sched.Perm (List.range (taskCount threads xs c))) :
    executorMap threads (fun x => (.ok (g x) : Except ε β)) xs c sched = some (.ok (xs.map g)) := by
  rw [executor_map_eq_sequential threads _ xs hc hs, mapE_pure]

-- non-vacuity: 5 inputs in chunks of 2 = 3 tasks finishing in the order 2, 0, 1
example : executorMap false (fun x => (.ok (x * 10) : Except Unit Nat)) [1, 2, 3, 4, 5] 2 [2, 0, 1]
    = some (.ok [10, 20, 30, 40, 50]) := by decide
example : [2, 0, 1].Perm (List.range (taskCount false [1, 2, 3, 4, 5] 2)) := by decide
-- thread pools ignore the chunk size: 5 tasks
example : taskCount true [1, 2, 3, 4, 5] 2 = 5 := by decide

/-- The hypothesis matters: a task that never finishes blocks the delivery (model answer `none`). -/
theorem unscheduled_task_blocks (threads : Bool) (f : α → Except ε β) (xs : List α) (c : Nat)
    (sched : List Nat) {i : Nat} (hi : i < taskCount threads xs c) (hni : i ∉ sched) :
    executorMap threads f xs c sched = none := by
  unfold executorMap
  simp only [taskCount] at hi
  have h := foldl_completeStep_getElem? (mapE f) (chunks (if threads then 1 else c) xs) sched
    ((chunks (if threads then 1 else c) xs).map fun _ => none) (by simp) i hi
  simp only [hni, if_false] at h
  have h2 : (complete (mapE f) (chunks (if threads then 1 else c) xs) sched)[i]? = some none := by
    unfold complete; rw [h]; simp [hi]
  simp [collect_none_of_pending h2]

/-! ### results are paired with the label of their own input -/

theorem mapE_map (F : β → Except ε ν) (h : α → β) (l : List α) : mapE F (l.map h) = mapE (fun x => F (h x)) l := by
  induction l with
  | nil => rfl
  | cons x l ih => simp [mapE, ih]

theorem mapE_pair (f : α → Except ε β) (items : List (κ × α)) :
    mapE (fun kv => tagKey kv.1 (f kv.2)) items = zipKeys (items.map Prod.fst) (mapE f (items.map Prod.snd)) := by
  induction items with
  | nil => rfl
  | cons kv items ih =>
    simp only [mapE, List.map_cons]
    rw [ih]
    cases hf : f kv.2 with
    | error e => rfl
    | ok y =>
      cases mapE f (items.map Prod.snd) with
      | error e => rfl
      | ok rs => rfl

/-- `zip(keys, executor.map(...))` (`Batch._apply_pool`, the core of `apply_pool`) = the sequential
    `((k, f(a)) for k, a in items)`: every result next to the label of its own input, same order, or the
    first failing task's error. -/
theorem pool_zip_eq_sequential (threads : Bool) (f : α → Except ε β) (items : List (κ × α)) {c : Nat}
    (hc : 1 ≤ c) {sched : List Nat}
    (hs : sched.Perm (List.range (taskCount threads (items.map Prod.snd) c))) :
    poolZip threads f items c sched =
      some (mapE (fun kv => tagKey kv.1 (f kv.2)) items) := by
  unfold poolZip
  simp only [argGen_eq]
  rw [executor_map_eq_sequential threads f _ hc hs, mapE_pair]
  rfl

/-- `apply_pool` on an iterator interface (values or items form) = `apply` (`apply_iter_items`), for every
    worker schedule, chunk size and pool kind. -/
theorem pool_eq_sequential (ytValues threads : Bool) (func : Arg κ ν → Except ε β) (items : List (κ × ν))
    {c : Nat} (hc : 1 ≤ c) {sched : List Nat}
    (hs : sched.Perm (List.range (taskCount threads items c))) :
    applyIterItemsParallel ytValues threads func items c sched = some (applyIterItems ytValues func items) := by
  unfold applyIterItemsParallel applyIterItems
  have hlen : taskCount threads ((items.map fun kv => (kv.1, mkArg ytValues kv.1 kv.2)).map Prod.snd) c
      = taskCount threads items c := by
    unfold taskCount chunks
    simp only [List.length_map]
    generalize (if threads then 1 else c) = c'
    generalize items.length + 1 = fuel
    have : ∀ (γ δ : Type) (h : γ → δ) (fuel : Nat) (l : List γ),
        (chunksAux c' fuel (l.map h)).length = (chunksAux c' fuel l).length := by
      intro γ δ h fuel
      induction fuel with
      | zero => intro l; rfl
      | succ fuel ih =>
        intro l
        simp only [chunksAux, ← List.map_take, ← List.map_drop, List.isEmpty_map]
        split
        · rfl
        · simp only [List.length_cons, ih]
    rw [List.map_map]
    exact this _ _ _ fuel items
  rw [pool_zip_eq_sequential threads func _ hc (by rw [hlen]; exact hs), mapE_map]

/-- No task fails: each result is paired with the label of ITS input, in input order. -/
theorem pool_pairs (ytValues threads : Bool) (g : Arg κ ν → β) (items : List (κ × ν))
    {c : Nat} (hc : 1 ≤ c) {sched : List Nat}
    (hs : sched.Perm (List.range (taskCount threads items c))) :
    applyIterItemsParallel ytValues threads (fun a => (.ok (g a) : Except ε β)) items c sched =
      some (.ok (items.map fun kv => (kv.1, g (mkArg ytValues kv.1 kv.2)))) := by
  rw [pool_eq_sequential ytValues threads _ items hc hs]
  unfold applyIterItems
  exact congrArg some (mapE_pure (fun kv : κ × ν => (kv.1, g (mkArg ytValues kv.1 kv.2))) items)

example : applyIterItemsParallel true false (fun a => match a with
      | Arg.val v => (.ok (v + 1) : Except Unit Nat) | Arg.item _ v => .ok v)
    [("a", 1), ("b", 2), ("c", 3)] 2 [1, 0] = some (.ok [("a", 2), ("b", 3), ("c", 4)]) := by decide

/-- Without the recorded assumption (`Executor.map` consumes its argument iterator before the first
    result is requested) the zip would see an empty key list: everything would be lost. -/
theorem lazy_map_counterexample (g : α → β) (items : List (κ × α)) (h : items ≠ []) :
    poolZipLazy (fun x => (.ok (g x) : Except ε β)) items ≠ .ok (items.map fun kv => (kv.1, g kv.2)) := by
  cases items with
  | nil => exact absurd rfl h
  | cons kv items => simp [poolZipLazy]

/-! ### a failing task surfaces -/

/-- If the task of the label at position `pre.length` fails (and none before it does), the outcome of
    `apply_pool` is that task's error — under every completion order, chunk size and pool kind. -/
theorem failure_surfaces (ytValues threads : Bool) (func : Arg κ ν → Except ε β) (g : Arg κ ν → β)
    (pre post : List (κ × ν)) (k : κ) (v : ν) (e : ε) {c : Nat} (hc : 1 ≤ c) {sched : List Nat}
    (hs : sched.Perm (List.range (taskCount threads (pre ++ (k, v) :: post) c)))
    (hpre : ∀ kv ∈ pre, func (mkArg ytValues kv.1 kv.2) = .ok (g (mkArg ytValues kv.1 kv.2)))
    (hfail : func (mkArg ytValues k v) = .error e) :
    applyIterItemsParallel ytValues threads func (pre ++ (k, v) :: post) c sched = some (.error e) := by
  rw [pool_eq_sequential ytValues threads func _ hc hs]
  unfold applyIterItems
  congr 1
  apply mapE_first_error (g := fun kv => (kv.1, g (mkArg ytValues kv.1 kv.2)))
  · intro kv hkv
    show tagKey kv.1 (func (mkArg ytValues kv.1 kv.2)) = _
    rw [hpre kv hkv]; rfl
  · show tagKey k (func (mkArg ytValues k v)) = _
    rw [hfail]; rfl

/-- Never a shorter or shifted result: whenever `apply_pool` yields a list at all, it has one entry per
    input, the labels are the input labels in order, and each value is what `func` returns for the input
    under that label (so no task failed). -/
theorem ok_result_is_complete (ytValues threads : Bool) (func : Arg κ ν → Except ε β)
    (items : List (κ × ν)) {c : Nat} (hc : 1 ≤ c) {sched : List Nat}
    (hs : sched.Perm (List.range (taskCount threads items c))) {out : List (κ × β)}
    (h : applyIterItemsParallel ytValues threads func items c sched = some (.ok out)) :
    out.length = items.length ∧ out.map Prod.fst = items.map Prod.fst ∧
      ∀ i (hi : i < items.length) (ho : i < out.length),
        func (mkArg ytValues items[i].1 items[i].2) = .ok out[i].2 := by
  rw [pool_eq_sequential ytValues threads func _ hc hs] at h
  simp only [Option.some.injEq] at h
  unfold applyIterItems at h
  obtain ⟨h1, h2⟩ := mapE_ok_getElem h
  refine ⟨h1, ?_, ?_⟩
  · apply List.ext_getElem (by simp [h1])
    intro i hi1 hi2
    simp only [List.length_map] at hi1 hi2
    simp only [List.getElem_map]
    exact (tagKey_ok (h2 i hi2 hi1)).1
  · intro i hi ho
    exact (tagKey_ok (h2 i hi ho)).2

example : applyIterItemsParallel true false (fun a => match a with
      | Arg.val v => if v = 2 then (.error "boom" : Except String Nat) else .ok (v + 1)
      | Arg.item _ v => .ok v)
    [("a", 1), ("b", 2), ("c", 3)] 1 [2, 1, 0] = some (.error "boom") := by decide

/-! ### `Batch._apply_pool_except` -/

/-- `Batch.apply_except` with workers = without workers, for every completion order: exactly the labels
    whose task did not raise a matching exception, each with its own result, in input order; an exception
    that does not match still propagates (first one in label order). -/
theorem pool_except_eq_sequential (caught : ε → Bool) (f : α → Except ε β) (items : List (κ × α))
    {sched : List Nat} (hs : sched.Perm (List.range items.length)) :
    applyPoolExcept caught f items sched = some (applyExcept caught f items) := by
  unfold applyPoolExcept applyExcept
  simp only [argGen_eq]
  have hall : ∀ i, i < (items.map Prod.snd).length → i ∈ sched := by
    intro i hi; exact perm_range_mem hs i (by simpa using hi)
  rw [complete_collect f _ sched hall]
  simp only [Option.map_some, zip_map_fst_snd]

/-- All failures are of the silenced kind: the result is exactly the non-failing labels with their results. -/
theorem pool_except_exact (caught : ε → Bool) (f : α → Except ε β) (items : List (κ × α))
    {sched : List Nat} (hs : sched.Perm (List.range items.length))
    (hc : ∀ kv ∈ items, ∀ e, f kv.2 = .error e → caught e = true) :
    applyPoolExcept caught f items sched =
      some (.ok (items.filterMap fun kv => match f kv.2 with
        | .ok y => some (kv.1, y)
        | .error _ => none)) := by
  rw [pool_except_eq_sequential caught f items hs]
  unfold applyExcept
  congr 1
  clear hs
  induction items with
  | nil => rfl
  | cons kv items ih =>
    have ih' := ih (fun kv' h' => hc kv' (by simp [h']))
    simp only [List.map_cons, List.filterMap_cons]
    cases hf : f kv.2 with
    | error e =>
      have := hc kv (by simp) e hf
      simp [exceptLoop, this, ih']
    | ok y => simp [exceptLoop, ih']

example : applyPoolExcept (fun (_ : String) => true)
      (fun v => if v = 2 then (.error "boom" : Except String Nat) else .ok (v * 10))
      [("a", 1), ("b", 2), ("c", 3)] [2, 0, 1] = some (.ok [("a", 10), ("c", 30)]) := by decide

/-! ### zipped stores -/

/-- `_StoreZip.read_many` with `read_max_workers` (any value) and any chunk size ≥ 1 yields the frames of
    the requested labels in request order, as without workers. -/
theorem store_read_eq_sequential (workers : Option Nat) (build : α → Except ε β) (payloads : List α)
    {c : Nat} (hc : 1 ≤ c) {sched : List Nat}
    (hs : sched.Perm (List.range (taskCount false payloads c))) :
    storeReadMany workers build payloads c sched = some (mapE build payloads) := by
  unfold storeReadMany
  cases workers with
  | none => rfl
  | some w => exact executor_map_eq_sequential false build payloads hc hs

/-- `_StoreZip.write` with `write_max_workers` writes the same `(label, bytes)` sequence as without. -/
theorem store_write_eq_sequential (workers : Option Nat) (toBytes : α → Except ε β) (payloads : List α)
    {c : Nat} (hc : 1 ≤ c) {sched : List Nat}
    (hs : sched.Perm (List.range (taskCount false payloads c))) :
    storeWriteStream workers toBytes payloads c sched = some (mapE toBytes payloads) := by
  unfold storeWriteStream
  cases workers with
  | none => rfl
  | some w =>
    simp only
    split
    · exact executor_map_eq_sequential false toBytes payloads hc hs
    · rfl

end SF.C18
