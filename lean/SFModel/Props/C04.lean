/-
  C04 — positional selection returns exactly the addressed positions, in key order.

  Property theorems only (helper lemmas live in SliceLemmas.lean).  Statements are about
  `PySlice.positions` / `Key.positions`, the model of what NumPy basic / fancy indexing and
  `list.__getitem__` address; the harness compares these with the real containers on every run.
-/
import SFModel.SliceLemmas

namespace SF.C04
open SF

/-- Every position a slice addresses exists (any start / stop / step, negative or out of range). -/
theorem slice_positions_in_range {s : PySlice} {n : Nat} {ps : List Nat}
    (h : s.positions n = .ok ps) : ∀ p ∈ ps, p < n := by
  unfold PySlice.positions at h
  split at h
  · cases h
  · rename_i a b c hi
    simp only [Except.ok.injEq] at h
    subst h
    intro p hp
    simp only [List.mem_map] at hp
    obtain ⟨x, hx, rfl⟩ := hp
    obtain ⟨k, hk, rfl⟩ := mem_rangeList.mp hx
    obtain ⟨hc0, hpos, hneg⟩ := indices_bounds hi
    rcases Int.lt_or_gt_of_ne hc0 with hc | hc
    · have := rangeLen_neg_bound hc hk
      have hb := hneg hc
      have hkc : (k : Int) * c ≤ 0 := Int.mul_nonpos_of_nonneg_of_nonpos (by omega) (by omega)
      omega
    · have := rangeLen_pos_bound hc hk
      have hb := hpos hc
      have hkc : 0 ≤ (k : Int) * c := Int.mul_nonneg (by omega) (by omega)
      omega

/-- The k-th selected position is `start + k * step` of the clamped slice: key order is kept. -/
theorem slice_positions_arith {s : PySlice} {n : Nat} {ps : List Nat}
    (h : s.positions n = .ok ps) :
    ∃ a b c, s.indices n = .ok (a, b, c) ∧ ps.length = rangeLen a b c ∧
      ∀ k (hk : k < ps.length), (ps[k] : Int) = a + (k : Int) * c := by
  unfold PySlice.positions at h
  split at h
  · cases h
  · rename_i a b c hi
    simp only [Except.ok.injEq] at h
    subst h
    refine ⟨a, b, c, hi, by simp [rangeList_length], ?_⟩
    intro k hk
    simp only [List.length_map] at hk
    simp only [List.getElem_map, rangeList_getElem]
    have hk' : k < rangeLen a b c := by simpa [rangeList_length] using hk
    obtain ⟨hc0, hpos, hneg⟩ := indices_bounds hi
    rcases Int.lt_or_gt_of_ne hc0 with hc | hc
    · have := rangeLen_neg_bound hc hk'
      have hb := hneg hc
      omega
    · have hb := hpos hc
      have hkc : 0 ≤ (k : Int) * c := Int.mul_nonneg (by omega) (by omega)
      omega

/-- Nothing inside the clamped bounds and on the step grid is missed (positive step). -/
theorem slice_positions_complete_pos {s : PySlice} {n : Nat} {ps : List Nat} {a b c : Int}
    (h : s.positions n = .ok ps) (hi : s.indices n = .ok (a, b, c)) (hc : 0 < c)
    (p : Nat) (hap : a ≤ p) (hpb : (p : Int) < b) (hgrid : ((p : Int) - a) % c = 0) : p ∈ ps := by
  unfold PySlice.positions at h
  rw [hi] at h
  simp only [Except.ok.injEq] at h
  subst h
  simp only [List.mem_map]
  refine ⟨(p : Int), ?_, by simp⟩
  apply mem_rangeList.mpr
  have hdiv : c ∣ ((p : Int) - a) := Int.dvd_of_emod_eq_zero hgrid
  obtain ⟨q, hq⟩ := hdiv
  have hq0 : 0 ≤ q := by
    by_cases hq' : q < 0
    · have : c * q < 0 := Int.mul_neg_of_pos_of_neg hc hq'
      omega
    · omega
  refine ⟨q.toNat, ?_, ?_⟩
  · unfold rangeLen
    have hc' : c > 0 := hc
    simp only [hc', if_true]
    have hab : a < b := by omega
    simp only [hab, if_true]
    have h1 : q ≤ (b - a - 1) / c := by
      apply Int.le_ediv_of_mul_le hc
      have : q * c = c * q := Int.mul_comm _ _
      omega
    omega
  · have : ((q.toNat : Nat) : Int) = q := Int.toNat_of_nonneg hq0
    rw [this, Int.mul_comm]; omega

/-- Ascending slices list positions in strictly increasing order, descending ones strictly decreasing:
    no position is addressed twice. -/
theorem slice_positions_strict {s : PySlice} {n : Nat} {ps : List Nat} {a b c : Int}
    (h : s.positions n = .ok ps) (hi : s.indices n = .ok (a, b, c)) :
    (0 < c → ps.Pairwise (· < ·)) ∧ (c < 0 → ps.Pairwise (· > ·)) := by
  obtain ⟨a', b', c', hi', hlen, hk⟩ := slice_positions_arith h
  rw [hi] at hi'
  simp only [Except.ok.injEq, Prod.mk.injEq] at hi'
  obtain ⟨rfl, rfl, rfl⟩ := hi'
  constructor
  · intro hc
    rw [List.pairwise_iff_getElem]
    intro i j hi hj hij
    have h1 := hk i hi
    have h2 := hk j hj
    have : (i : Int) * c < (j : Int) * c := Int.mul_lt_mul_of_pos_right (by omega) hc
    omega
  · intro hc
    rw [List.pairwise_iff_getElem]
    intro i j hi hj hij
    have h1 := hk i hi
    have h2 := hk j hj
    have : (j : Int) * c < (i : Int) * c := Int.mul_lt_mul_of_neg_right (by omega) hc
    omega

/-- An integer key addresses exactly its (normalised) position or is a lookup error. -/
theorem int_position {i : Int} {n : Nat} {ps : List Nat} (h : (Key.int i).positions n = .ok ps) :
    ∃ p, ps = [p] ∧ p < n ∧ ((p : Int) = i ∨ (p : Int) = i + n) := by
  simp only [Key.positions, normPos] at h
  split at h
  · rename_i h0
    simp only [Except.map, Except.ok.injEq] at h
    exact ⟨i.toNat, h.symm, by omega, by omega⟩
  · split at h
    · rename_i h0 h1
      simp only [Except.map, Except.ok.injEq] at h
      exact ⟨(i + n).toNat, h.symm, by omega, by omega⟩
    · simp [Except.map] at h

/-- A Boolean mask addresses exactly the positions holding `true`, ascending. -/
theorem mask_positions {bs : List Bool} {n : Nat} {ps : List Nat}
    (h : (Key.mask bs).positions n = .ok ps) :
    bs.length = n ∧ (∀ p, p ∈ ps ↔ bs[p]? = some true) ∧ ps.Pairwise (· < ·) := by
  simp only [Key.positions] at h
  split at h
  · rename_i hl
    simp only [Except.ok.injEq] at h
    subst h
    refine ⟨hl, ?_, ?_⟩
    · intro p
      simp only [maskPositions, List.mem_filter, List.mem_range]
      constructor
      · rintro ⟨hp, hb⟩
        simp [List.getD_eq_getElem?_getD, List.getElem?_eq_getElem hp] at hb ⊢
        exact hb
      · intro hb
        have hp : p < bs.length := (List.getElem?_eq_some_iff.mp hb).1
        refine ⟨hp, ?_⟩
        simp [List.getD_eq_getElem?_getD, hb]
    · unfold maskPositions
      apply List.Pairwise.filter
      exact List.pairwise_lt_range
  · cases h

/-- Every key kind addresses existing positions only; otherwise the selection is an error. -/
theorem key_positions_in_range {k : Key} {n : Nat} {ps : List Nat}
    (h : k.positions n = .ok ps) : ∀ p ∈ ps, p < n := by
  cases k with
  | all =>
    simp only [Key.positions, Except.ok.injEq] at h
    subst h; intro p hp; simpa using hp
  | int i =>
    obtain ⟨p, rfl, hp, _⟩ := int_position h
    intro q hq; simp at hq; omega
  | slice s => exact slice_positions_in_range h
  | list is =>
    simp only [Key.positions] at h
    induction is generalizing ps with
    | nil => simp [List.mapM_nil, pure, Except.pure] at h; subst h; simp
    | cons i is ih =>
      simp only [List.mapM_cons, bind, Except.bind] at h
      split at h
      · cases h
      · rename_i p hp
        split at h
        · cases h
        · rename_i rest hrest
          simp only [pure, Except.pure, Except.ok.injEq] at h
          subst h
          intro q hq
          simp only [List.mem_cons] at hq
          rcases hq with rfl | hq
          · unfold normPos at hp
            split at hp
            · simp only [Except.ok.injEq] at hp; omega
            · split at hp
              · simp only [Except.ok.injEq] at hp; omega
              · cases hp
          · exact ih hrest q hq
  | mask bs =>
    obtain ⟨hl, hm, _⟩ := mask_positions h
    intro p hp
    have := (hm p).mp hp
    have hp' : p < bs.length := (List.getElem?_eq_some_iff.mp this).1
    omega

/-- An integer list addresses one position per entry, in key order (repeats allowed). -/
theorem list_positions {is : List Int} {n : Nat} {ps : List Nat}
    (h : (Key.list is).positions n = .ok ps) :
    ps.length = is.length ∧ ∀ k (h1 : k < is.length) (h2 : k < ps.length), normPos is[k] n = .ok ps[k] := by
  simp only [Key.positions] at h
  induction is generalizing ps with
  | nil => simp [List.mapM_nil, pure, Except.pure] at h; subst h; simp
  | cons i is ih =>
    simp only [List.mapM_cons, bind, Except.bind] at h
    split at h
    · cases h
    · rename_i p hp
      split at h
      · cases h
      · rename_i rest hrest
        simp only [pure, Except.pure, Except.ok.injEq] at h
        subst h
        obtain ⟨hl, hk⟩ := ih hrest
        refine ⟨by simp [hl], ?_⟩
        intro k h1 h2
        cases k with
        | zero => simpa using hp
        | succ k => simpa using hk k (by simpa using h1) (by simpa using h2)

/-- non-vacuity: a descending, out-of-range slice and a list with a negative entry. -/
example : (PySlice.mk (some 7) none (some (-2))).positions 5 = .ok [4, 2, 0] := by decide
example : (Key.list [-1, 0, -1]).positions 3 = .ok [2, 0, 2] := by decide
example : (Key.mask [true, false, true]).positions 3 = .ok [0, 2] := by decide

/- The FRAME-level theorems of C04 (`frame_iloc_exact`, `frame_iloc_element`, `frame_iloc_line`,
   `frame_iloc_error`, `frame_loc_positional`, `frame_loc_exact`, `frame_loc_element`) are in
   Props/C04Frame.lean (same namespace): they depend on `SF.C03.extract_refines`, whose lemma file
   imports this one. -/

end SF.C04
