/-
  C17 — the Bus theorems for the cache update TRANSLATED from the source.

  `SF.Gen.Bus.update_series_cache_iloc` is regenerated from the current `Bus._update_series_cache_iloc`
  (static_frame/core/bus.py) by tools/py2lean_bus.py on every run; SFModel/BridgeBus.lean proves it equal to the
  hand-mirrored `BusSt.updateCache` (all states of the right shape, all keys, all max_persist, all stores).  Here the
  property theorems of Props/C17.lean are restated for the state machine whose cache update IS the translation
  (`BridgeBus.genRunAll`, `genExtractIloc`, `genUpdate`), plus what the translation shows beyond the hand-written
  model: with a store whose reads fail per label (not all-or-nothing as a stale file does), an access that fails
  part-way leaves labels flagged loaded whose frames were dropped (`translated_partial_read_counterexample`,
  `pinned_partial_read_counterexample`, finding F96 - repaired in /repo 1f9773b by a `try / finally`; the translation of
  the repaired source keeps flags and cells in agreement for EVERY store: `translated_flags_agree`).
-/
import SFModel.BridgeBus
import SFModel.Props.C17

namespace SF.C17Gen
open SF SF.Bus SF.BusSem SF.BridgeBus

variable {φ : Type}

/-- The LRU bound invariant of `SF.C17.bus_inv`, for EVERY full history (accesses with any key, items()/values,
    observers, failing operations after which the history goes on, file events, store writes) of the state machine
    whose `_update_series_cache_iloc` is the translation of the source: no duplicates in the recency list; with
    max_persist = k the loaded labels are exactly its members, at most k frames are loaded and their number is its
    length; flags agree with cells; labels and max_persist never change; no recency list without max_persist. -/
theorem translated_bus_inv (store : StoreFn φ) (pinnedReader : Bool) (st0 : StoreSt) (labels : List Nat) (mp : Option Nat)
    (hn : labels.Nodup) (s0 : BusSt φ) (evs : List HistEv)
    (h0 : BusSt.fromStore labels mp = .ok s0) :
    let s := (genRunAll store pinnedReader st0 s0 evs).2
    s.lru.Nodup ∧ s.loaded = s.cache.map Option.isSome ∧ s.loadedAll = s.loaded.all id ∧
    s.labels = labels ∧ s.maxPersist = mp ∧
    (mp = none → s.lru = []) ∧
    (∀ k, mp = some k →
      (∀ (i l : Nat), s.labels[i]? = some l → (s.loaded[i]? = some true ↔ l ∈ s.lru)) ∧
      s.loaded.count true ≤ k ∧ s.lru.length = s.loaded.count true) := by
  have hinv0 := (fromStore_inv (P := fun _ _ => True) hn h0).1
  rw [genRunAll_eq store pinnedReader evs st0 s0 hinv0]
  exact SF.C17.bus_inv store pinnedReader st0 labels mp hn s0 evs h0

/-- non-vacuity + the translation at work: three labels, max_persist = 2, accesses 0, [1, 2], values, 0 -/
example : (genRunAll (fun _ l => l) false (StoreSt.init (some 1))
    ({ labels := [0, 1, 2], cache := [none, none, none], loaded := [false, false, false], loadedAll := false,
       lru := [], maxPersist := some 2 } : BusSt Nat)
    [.op (.access (.int 0)), .op (.access (.list [1, 2])), .op .values, .op (.access (.int 0))]).2
    = { labels := [0, 1, 2], cache := [some 0, none, some 2], loaded := [true, false, true],
        loadedAll := false, lru := [2, 0], maxPersist := some 2 } := by decide

/-- Refinement to the abstract LRU (`SF.C17.bus_lru`) for an extraction through the translated cache update: the
    recency list afterwards is `absTouch k` (move to the end, drop the head when more than k are held) folded over
    the addressed labels in key order, on the load path and on the cache-hit path. -/
theorem translated_bus_lru (store : StoreFn φ) (pinnedReader : Bool) (st : StoreSt) (s s' : BusSt φ) (key : Key)
    (r : Extracted φ) (k : Nat) (ps : List Nat)
    (hinv : Inv (fun _ _ => True : Nat → φ → Prop) s) (hmp : s.maxPersist = some k)
    (hpos : key.positions s.labels.length = .ok ps)
    (h : genExtractIloc store pinnedReader st s key = .ok (s', r)) :
    s'.lru = (pick s.labels ps).foldl (absTouch k) s.lru ∧
    (∀ (i l : Nat), s'.labels[i]? = some l → (s'.loaded[i]? = some true ↔ l ∈ s'.lru)) := by
  rw [genExtractIloc_eq store pinnedReader st s key (Shape.of_inv hinv)] at h
  exact SF.C17.bus_lru store pinnedReader st s s' key r k ps hinv hmp hpos h

example : ∃ s' r, genExtractIloc (fun _ l => l) false (StoreSt.init (some 1))
    ({ labels := [0, 1, 2], cache := [some 0, some 1, none], loaded := [true, true, false], loadedAll := false,
       lru := [0, 1], maxPersist := some 2 } : BusSt Nat) (.int 2) = .ok (s', r) ∧ s'.lru = [1, 2] :=
  ⟨{ labels := [0, 1, 2], cache := [none, some 1, some 2], loaded := [false, true, true], loadedAll := false,
     lru := [1, 2], maxPersist := some 2 }, .element (some 2), by decide, rfl⟩

/-- flags agree with cells: a label is flagged loaded iff its cell holds a Frame -/
def FlagsAgree (o : Obj φ) : Prop := o.loaded = o.series.map Option.isSome

instance (o : Obj Nat) : Decidable (FlagsAgree o) := by unfold FlagsAgree; infer_instance

/-- HISTORICAL DEFINITION — the load path of `_update_series_cache_iloc` before /repo 1f9773b for an array key without
    max_persist: the same load loop (the generated one), but NO `finally`: an exception leaves `_series` and
    `_loaded_all` as they were.  Kept only for `pinned_partial_read_counterexample`. -/
def updateNoFinallyPinned (env : Env φ) (o : Obj φ) (ps : List Nat) : Except (Err × Obj φ) (Obj φ) :=
  match seriesTake env.index o.series ps with
  | .error e => .error (e, o)
  | .ok ts =>
    match Gen.Bus.update_series_cache_iloc_loop2_mpNone env o o.series
        (Reader.mk ((ts.filter fun lf => lf.2.isNone).map fun lf => lf.1) true) ts with
    | .error (e, (o', _, _)) => .error (e, o')
    | .ok (o', a', _) => .ok { o' with series := a', loaded_all := boolAll o'.loaded }

/-- HISTORICAL (behaviour before /repo 1f9773b, finding F96, repaired).  Without the `finally` a store that cannot read
    label 1 made the access `[0, 1]` raise after label 0 was read: `_loaded[0]` was True (mutated in place) but `_series`
    was never re-bound - the frame was dropped and every later access of label 0 returned the FrameDeferred placeholder.
    The current code (second conjunct: the translation of the source as it is now) keeps the frame. -/
theorem pinned_partial_read_counterexample :
    let env : Env Nat := { index := [0, 1], max_persist := none, store_defined := true, store_read := fun l => .ok l,
                           reader_next := fun l => if l = 1 then .error .other else .ok l }
    let o : Obj Nat := { loaded := [false, false], loaded_all := false, last_accessed := [], series := [none, none] }
    updateNoFinallyPinned env o [0, 1]
      = .error (.other, { loaded := [true, false], loaded_all := false, last_accessed := [], series := [none, none] }) ∧
    Gen.Bus.update_series_cache_iloc env o (.array [0, 1])
      = .error (.other, { loaded := [true, false], loaded_all := false, last_accessed := [], series := [some 0, none] }) := by
  exact ⟨by decide, by decide⟩

/-- … and with max_persist = 2: what was read before the failing read is kept, flagged and in the recency list -/
example : Gen.Bus.update_series_cache_iloc
    ({ index := [0, 1], max_persist := some 2, store_defined := true, store_read := fun l => .ok l,
       reader_next := fun l => if l = 1 then .error .other else .ok l } : Env Nat)
    { loaded := [false, false], loaded_all := false, last_accessed := [], series := [none, none] } (.array [0, 1])
    = .error (.other, { loaded := [true, false], loaded_all := false, last_accessed := [0], series := [some 0, none] }) := by
  decide

/-- The whole representation invariant for the store of the model (`envOf`: the reads of one access all succeed or all
    fail - a file that is stale or not): the translated cache update keeps it whether it returns or raises, a raise
    leaves flags and cells untouched, and a return realises the abstract LRU.  (`_partial`: for a store that fails per
    label, flags = cells is `translated_flags_agree`; bound and recency-list membership there are correspondence-only.) -/
theorem translated_update_inv_partial (store : StoreFn φ) (pinnedReader : Bool) (st : StoreSt) (s : BusSt φ) (key : IKey)
    (hinv : Inv (fun _ _ => True : Nat → φ → Prop) s) (hps : ∀ p ∈ key.positions, p < s.labels.length) :
    match Gen.Bus.update_series_cache_iloc (envOf store pinnedReader st s.labels s.maxPersist) (objOf s) key with
    | .ok o' => Inv (fun _ _ => True : Nat → φ → Prop) (busOf s o') ∧ FlagsAgree o' ∧
        (∀ k, s.maxPersist = some k → o'.last_accessed = (pick s.labels key.positions).foldl (absTouch k) s.lru)
    | .error (_, o') => Inv (fun _ _ => True : Nat → φ → Prop) (busOf s o') ∧ FlagsAgree o' ∧
        o'.loaded = s.loaded ∧ o'.series = s.cache := by
  rw [update_bridge store pinnedReader st s key (Shape.of_inv hinv)]
  have hel : key.isElement = true → key.positions.length ≤ 1 := by
    cases key <;> simp [IKey.isElement, IKey.positions]
  rcases updateCache_spec (store := store) (pinnedReader := pinnedReader) (st := st) (isElement := key.isElement) hinv
      (fun _ => trivial) (fun _ => trivial) hps hel with
    ⟨s', hupd, hinv', hl, hm, hlru, _⟩ | ⟨e, s', hupd, _, hinv', hl, hm, hld, hc⟩
  · rw [hupd]
    simp only [resOf]
    rw [busOf_objOf hl hm]
    exact ⟨hinv', hinv'.flags, fun k hk => hlru k hk⟩
  · rw [hupd]
    simp only [resOf]
    rw [busOf_objOf hl hm]
    exact ⟨hinv', hinv'.flags, hld, hc⟩

example : ∃ o', Gen.Bus.update_series_cache_iloc
    (envOf (fun _ l => l) false (StoreSt.init (some 1)) [0, 1, 2] (some 2))
    (objOf ({ labels := [0, 1, 2], cache := [some 0, some 1, none], loaded := [true, true, false], loadedAll := false,
              lru := [0, 1], maxPersist := some 2 } : BusSt Nat)) (.element 2) = .ok o' ∧
    o' = { loaded := [false, true, true], loaded_all := false, last_accessed := [1, 2], series := [none, some 1, some 2] } :=
  ⟨{ loaded := [false, true, true], loaded_all := false, last_accessed := [1, 2], series := [none, some 1, some 2] }, by decide, rfl⟩

/-- the eviction comparison of the source is strict (`loaded_count > max_persist`): at capacity nothing is evicted
    by a cache hit, one over capacity evicts exactly the least recently used label -/
example : Gen.Bus.update_series_cache_iloc
    (envOf (fun _ l => l) false (StoreSt.init (some 1)) [0, 1, 2] (some 2))
    (objOf ({ labels := [0, 1, 2], cache := [some 0, some 1, none], loaded := [true, true, false], loadedAll := false,
              lru := [0, 1], maxPersist := some 2 } : BusSt Nat)) (.array [0, 1])
    = .ok { loaded := [true, true, false], loaded_all := false, last_accessed := [0, 1], series := [some 0, some 1, none] } := by
  decide

end SF.C17Gen
