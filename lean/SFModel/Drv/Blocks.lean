/- Driver ops for SFModel.Blocks (α := String tokens). -/
import SFModel.Blocks
import SFModel.Drv.Slice

namespace SF.Drv
open SF SExp

def block? : SExp → Option (Block String)
  | .list (.atom "d1" :: .atom dt :: vs) => (vs.mapM atom?).map (Block.d1 dt)
  | .list (.atom "d2" :: .atom dt :: cs) => (cs.mapM atoms?).map (Block.d2 dt)
  | _ => none

def tb? : SExp → Option (TB String)
  | .list (.atom "tb" :: r :: bs) => do
      let r ← nat? r
      let bs ← bs.mapM block?
      pure ⟨r, bs⟩
  | _ => none

def ofBlock : Block String → SExp
  | .d1 dt c => .list (.atom "d1" :: .atom dt :: c.map .atom)
  | .d2 dt cs => .list (.atom "d2" :: .atom dt :: cs.map ofAtoms)

def ofTB (tb : TB String) : SExp := .list (.atom "tb" :: .atom (toString tb.rows) :: tb.blocks.map ofBlock)

def optKey? : SExp → Option (Option Key)
  | .atom "N" => some none
  | e => (key? e).map some

def ofBSel : TB.BSel → SExp
  | .col c => .list [.atom "col", .atom (toString c)]
  | .sl s => ofSlice s

def blocksOps : List SExp → Option String
  | [.atom "tb.extract", t, rk, ck] => do
      let t ← tb? t; let rk ← key? rk; let ck ← key? ck
      pure (answer ((t.extract rk ck).map ofTB))
  | [.atom "tb.drop", t, rk, ck] => do
      let t ← tb? t; let rk ← optKey? rk; let ck ← optKey? ck
      pure (answer ((t.drop rk ck).map ofTB))
  | [.atom "tb.slices", t, ck, retain] => do
      let t ← tb? t; let ck ← key? ck; let retain ← bool? retain
      pure (answer ((t.keyToBlockSlices ck retain).map fun ps =>
        .list (ps.map fun (b, sel) => .list [.atom (toString b), ofBSel sel])))
  | [.atom "tb.index", t] => do
      let t ← tb? t
      pure (answer (.ok (.list (t.index.map fun (b, c) => ofNats [b, c]))))
  | [.atom "tb.astype", t, ck, .atom dt] => do
      let t ← tb? t; let ck ← key? ck
      pure (answer ((t.astypeBlocks ck dt id).map ofTB))
  | [.atom "tb.ufunc", t, ck] => do
      let t ← tb? t; let ck ← key? ck
      pure (answer ((t.ufuncBlocks ck (fun c => c.map ("~" ++ ·))).map ofTB))
  | [.atom "tb.fromblocks", .list bs, r] => do
      let bs ← bs.mapM block?
      let r ← optInt? r
      pure (answer ((TB.fromBlocks bs (r.map Int.toNat)).map ofTB))
  | [.atom "tb.consolidate", t] => do
      let t ← tb? t
      pure (answer (.ok (ofTB ⟨t.rows, TB.consolidate t.blocks⟩)))
  | _ => none

end SF.Drv
