/- Driver ops for SFModel.Blocks (α := String tokens). -/
import SFModel.Blocks
import SFModel.Drv.Slice

namespace SF.Drv
open SF SExp

def block? : SExp → Option (Block String)
  | .list (.atom "d1" :: .atom dt :: vs) => (vs.mapM atom?).map (Block.d1 dt)
  | .list (.atom "d2" :: .atom dt :: cs) => (cs.mapM atoms?).map (Block.d2 dt)
  | _ => none

def tb? : SExp → Option (TB String)
  | .list (.atom "tb" :: r :: bs) => do
      let r ← nat? r
      let bs ← bs.mapM block?
      pure ⟨r, bs⟩
  | _ => none

def ofBlock : Block String → SExp
  | .d1 dt c => .list (.atom "d1" :: .atom dt :: c.map .atom)
  | .d2 dt cs => .list (.atom "d2" :: .atom dt :: cs.map ofAtoms)

def ofTB (tb : TB String) : SExp := .list (.atom "tb" :: .atom (toString tb.rows) :: tb.blocks.map ofBlock)

def optKey? : SExp → Option (Option Key)
  | .atom "N" => some none
  | e => (key? e).map some

def ofBSel : TB.BSel → SExp
  | .col c => .list [.atom "col", .atom (toString c)]
  | .sl s => ofSlice s

/-- dtype resolution as a finite table `((a b r) ...)` supplied by the harness (answers of the real
    `util.resolve_dtype`); a pair missing from the table resolves to the marker `?` (never equal to a
    real dtype token, so a gap shows up as a disagreement) -/
def resolveTable? : SExp → Option (DT → DT → DT)
  | .list es => do
      let rows ← es.mapM fun e => match e with
        | .list [.atom a, .atom b, .atom r] => some ((a, b), r)
        | _ => none
      pure fun a b => match rows.lookup (a, b) with | some r => r | none => "?"
  | _ => none

def cacheOp? : SExp → Option (CacheOp String)
  | .list [.atom "append", b] => (block? b).map .append
  | .list (.atom "extend" :: bs) => (bs.mapM block?).map .extendIter
  | .list (.atom "extendtb" :: r :: bs) => do
      let r ← nat? r
      let bs ← bs.mapM block?
      pure (.extend ⟨r, bs⟩)
  | _ => none

def ofCaches (c : Caches) (outcomes : List (Option Err)) : SExp :=
  .list [ofNats [c.shape.1, c.shape.2],
         .list (c.index.map fun (b, i) => ofNats [b, i]),
         ofAtoms c.dtypes,
         .atom (match c.rowDtype with | none => "N" | some d => d),
         .list (outcomes.map fun o => .atom (match o with | none => "ok" | some e => e.toString))]

def blocksOps : List SExp → Option String
  | [.atom "tb.caches", ref, .list bs, table, .list ops] => do
      let ref ← optInt? ref
      let bs ← bs.mapM block?
      let resolve ← resolveTable? table
      let ops ← ops.mapM cacheOp?
      pure (answer ((Grown.ofBlocks resolve bs (ref.map Int.toNat)).map fun g =>
        ofCaches (g.run ops).caches (g.runErrs ops)))
  | [.atom "tb.extract", t, rk, ck] => do
      let t ← tb? t; let rk ← key? rk; let ck ← key? ck
      pure (answer ((t.extract rk ck).map ofTB))
  | [.atom "tb.drop", t, rk, ck] => do
      let t ← tb? t; let rk ← optKey? rk; let ck ← optKey? ck
      pure (answer ((t.drop rk ck).map ofTB))
  | [.atom "tb.slices", t, ck, retain] => do
      let t ← tb? t; let ck ← key? ck; let retain ← bool? retain
      pure (answer ((t.keyToBlockSlices ck retain).map fun ps =>
        .list (ps.map fun (b, sel) => .list [.atom (toString b), ofBSel sel])))
  | [.atom "tb.index", t] => do
      let t ← tb? t
      pure (answer (.ok (.list (t.index.map fun (b, c) => ofNats [b, c]))))
  | [.atom "tb.astype", t, ck, .atom dt] => do
      let t ← tb? t; let ck ← key? ck
      pure (answer ((t.astypeBlocks ck dt id).map ofTB))
  | [.atom "tb.ufunc", t, ck] => do
      let t ← tb? t; let ck ← key? ck
      pure (answer ((t.ufuncBlocks ck (fun c => c.map ("~" ++ ·))).map ofTB))
  | [.atom "tb.fromblocks", .list bs, r] => do
      let bs ← bs.mapM block?
      let r ← optInt? r
      pure (answer ((TB.fromBlocks bs (r.map Int.toNat)).map ofTB))
  | [.atom "tb.consolidate", t] => do
      let t ← tb? t
      pure (answer (.ok (ofTB ⟨t.rows, TB.consolidate t.blocks⟩)))
  | _ => none

end SF.Drv
