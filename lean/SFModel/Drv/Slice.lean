/- Driver ops for SFModel.Slice and the generated definitions. -/
import SFModel.Slice
import SFModel.Gen.Slice

namespace SF.Drv
open SF SExp

def slice? : SExp → Option PySlice
  | .list [.atom "sl", a, b, c] => do
      let a ← optInt? a; let b ← optInt? b; let c ← optInt? c
      pure ⟨a, b, c⟩
  | _ => none

def ofSlice (s : PySlice) : SExp :=
  .list [.atom "sl", ofOptInt s.start, ofOptInt s.stop, ofOptInt s.step]

def key? : SExp → Option Key
  | .list [.atom "all"] => some .all
  | .list [.atom "int", i] => (int? i).map .int
  | .list (.atom "list" :: xs) => (xs.mapM int?).map .list
  | .list (.atom "mask" :: xs) => (xs.mapM bool?).map .mask
  | e@(.list (.atom "sl" :: _)) => (slice? e).map .slice
  | _ => none

def optSlice (r : Option PySlice) (e : Err) : String :=
  match r with
  | some s => answer (.ok (ofSlice s))
  | none => answer (.error e)

/-- `((b c) (b c) ...)`: a list of `(block, column)` integer pairs -/
private def intPairs? : SExp → Option (List (Int × Int))
  | .list xs => xs.mapM fun
      | .list [a, b] => do pure ((← int? a), (← int? b))
      | _ => none
  | _ => none

/-- `((b (sl start stop step)) ...)` -/
private def ofBlockSlices (l : List (Int × PySlice)) : SExp :=
  .list (l.map fun (b, s) => .list [.atom (toString b), ofSlice s])

def sliceOps : List SExp → Option String
  | [.atom "slice.indices", s, n] => do
      let s ← slice? s; let n ← nat? n
      pure (answer ((s.indices n).map fun (a, b, c) => ofInts [a, b, c]))
  | [.atom "slice.positions", s, n] => do
      let s ← slice? s; let n ← nat? n
      pure (answer ((s.positions n).map ofNats))
  | [.atom "key.positions", k, n] => do
      let k ← key? k; let n ← nat? n
      pure (answer ((k.positions n).map ofNats))
  | [.atom "slice.ascending", s, n] => do
      let s ← slice? s; let n ← int? n
      pure (optSlice (sliceToAscending s n) .value)
  | [.atom "slice.inclusive", s, off] => do
      let s ← slice? s; let off ← int? off
      pure (answer (.ok (ofSlice (sliceToInclusive s off))))
  | [.atom "slice.cols", l] => do
      let l ← ints? l
      pure (optSlice (colsToSlice l) .lookup)
  | [.atom "gen.ascending", s, n] => do
      let s ← slice? s; let n ← int? n
      pure (optSlice (Gen.slice_to_ascending_slice s n) .value)
  | [.atom "gen.inclusive", s, off] => do
      let s ← slice? s; let off ← int? off
      pure (optSlice (Gen.slice_to_inclusive_slice s off) .value)
  | [.atom "gen.cols", l] => do
      let l ← ints? l
      pure (optSlice (Gen._cols_to_slice l) .lookup)
  | [.atom "gen.contiguous", l] => do
      let l ← intPairs? l
      pure (match Gen.indices_to_contiguous_pairs l with
        | some r => answer (.ok (ofBlockSlices r))
        | none => answer (.error .lookup))
  | _ => none

end SF.Drv
