/-
  Driver ops for the Bus cache update translated from the source (SFModel.Gen.Bus) and for the primitives of
  SFModel.BusSem.

  busgen.run <mp|N> <n> (<access> ...)
      a Bus over `n` labels (label = position), every label deferred, no recency list; each access runs the TRANSLATED
      `_update_series_cache_iloc` on the object the previous access left (also after an exception):
         (el p (l ..))      integer key p; the store cannot read the labels l ..
         (arr (p ..) (l ..))   any other key, addressing positions p .. in key order
      answer `ok (<step> ...)`, per access: (<ok | (err E)> (<loaded>) (<keys of _last_accessed>) <loaded_all> (<cell is a Frame> ..))
  bussem.od <op> (<keys>) <k>    dict-as-ordered-dict primitives: pop set del first last poplast touch contains len
      answer: ok (<keys>) | ok (k (<keys>)) | ok k | err E
  bussem.take (<0|1> ..) (<p> ..) | bussem.get (<0|1> ..) p | bussem.set (<0|1> ..) p <0|1>    NumPy Boolean array primitives
-/
import SFModel.Gen.Bus

namespace SF.Drv
open SF SExp SF.BusSem

private def bgOptNat? : SExp → Option (Option Nat)
  | .atom "N" => some none
  | .atom s => s.toNat?.map some
  | _ => none

private def bgEnv (n : Nat) (mp : Option Nat) (fail : List Nat) : Env Nat :=
  { index := List.range n, max_persist := mp, store_defined := true,
    store_read := fun l => if l ∈ fail then .error .other else .ok l,
    reader_next := fun l => if l ∈ fail then .error .other else .ok l }

private def bgObj (o : Obj Nat) : List SExp :=
  [ofBools o.loaded, ofNats o.last_accessed, ofBool o.loaded_all, ofBools (o.series.map Option.isSome)]

private def bgAccess? : SExp → Option (IKey × List Nat)
  | .list [.atom "el", p, fail] => do
      let p ← nat? p; let fail ← nats? fail
      pure (.element p, fail)
  | .list [.atom "arr", ps, fail] => do
      let ps ← nats? ps; let fail ← nats? fail
      pure (.array ps, fail)
  | _ => none

private def bgRun (n : Nat) (mp : Option Nat) : Obj Nat → List SExp → List SExp → Option (List SExp)
  | _, [], acc => some acc.reverse
  | o, a :: as, acc =>
    match bgAccess? a with
    | none => none
    | some (key, fail) =>
      match Gen.Bus.update_series_cache_iloc (bgEnv n mp fail) o key with
      | .ok o' => bgRun n mp o' as (.list (.atom "ok" :: bgObj o') :: acc)
      | .error (e, o') => bgRun n mp o' as (.list (.list [.atom "err", .atom e.toString] :: bgObj o') :: acc)

private def bgKeys (r : Except Err (List Nat)) : String := answer (r.map ofNats)

def busGenOps : List SExp → Option String
  | [.atom "busgen.run", mp, n, .list accesses] => do
      let mp ← bgOptNat? mp; let n ← nat? n
      let o0 : Obj Nat := { loaded := List.replicate n false, loaded_all := decide (n = 0), last_accessed := [],
                            series := List.replicate n none }
      let steps ← bgRun n mp o0 accesses []
      pure (answer (.ok (.list steps)))
  | [.atom "bussem.od", .atom op, d, k] => do
      let d ← nats? d; let k ← nat? k
      match op with
      | "pop" => pure (bgKeys (.ok (odPop d k)))
      | "set" => pure (bgKeys (.ok (odSet d k)))
      | "touch" => pure (bgKeys (.ok (odSet (odPop d k) k)))
      | "del" => pure (bgKeys (odDel d k))
      | "first" => pure (answer ((odFirst d).map fun x => .atom (toString x)))
      | "last" => pure (answer ((odLast d).map fun x => .atom (toString x)))
      | "poplast" => pure (answer ((odPopLast d).map fun x => .list [.atom (toString x.1), ofNats x.2]))
      | "contains" => pure (answer (.ok (ofBool (odContains d k))))
      | "len" => pure (answer (.ok (.atom (toString (odLen d)))))
      | _ => none
  | [.atom "bussem.take", a, ps] => do
      let a ← bools? a; let ps ← nats? ps
      pure (answer ((arrTake a ps).map fun xs => .list [ofBools xs, ofBool (boolAll xs)]))
  | [.atom "bussem.get", a, p] => do
      let a ← bools? a; let p ← nat? p
      pure (answer ((arrGet a p).map ofBool))
  | [.atom "bussem.set", a, p, v] => do
      let a ← bools? a; let p ← nat? p; let v ← bool? v
      pure (answer ((arrSet a p v).map fun xs => .list [ofBools xs, .atom (toString (boolSum xs)), ofBool (boolAll xs)]))
  | _ => none

end SF.Drv
