/- Driver ops for SFModel.SetOps (labels are integers = ranks assigned by the harness; cell values
   are `Option Int`, `N` = the missing marker). -/
import SFModel.SetOps

namespace SF.Drv.SetOpsH
open SF SExp SF.SetOps

def kind? : SExp → Option Kind
  | .atom "int" => some .int | .atom "float" => some .float | .atom "bool" => some .bool
  | .atom "str" => some .str | .atom "dt" => some .dt | .atom "obj" => some .obj
  | _ => none

def ofKind : Kind → SExp
  | .int => .atom "int" | .float => .atom "float" | .bool => .atom "bool"
  | .str => .atom "str" | .dt => .atom "dt" | .obj => .atom "obj"

def setOp? : SExp → Option SetOp
  | .atom "union" => some .union | .atom "inter" => some .inter | .atom "diff" => some .diff
  | _ => none

/-- integers in their order (ranks given by the harness); `classes[r]` is the comparability class
    of rank `r`: Python's `sorted` succeeds on a collection iff it has at most one element or all
    its elements are of one class -/
def drvOrd (classes : List Int) : PyOrd Int :=
  ⟨fun a b => decide (a ≤ b),
   fun l => match l with
     | [] => true
     | x :: xs => xs.all (fun y => classes[y.toNat]? == classes[x.toNat]?),
   id⟩

def lexLe : List Int → List Int → Bool
  | [], _ => true
  | _ :: _, [] => false
  | a :: as, b :: bs => if a < b then true else if b < a then false else lexLe as bs

def drvOrd2 (sortable : Bool) : PyOrd (List Int) := ⟨lexLe, fun _ => sortable, id⟩

def rows? : SExp → Option (List (List Int))
  | .list xs => xs.mapM ints?
  | _ => none

def ofRows (rs : List (List Int)) : SExp := .list (rs.map ofInts)

def optInts? : SExp → Option (List (Option Int))
  | .list xs => xs.mapM optInt?
  | _ => none

def ofOptInts (l : List (Option Int)) : SExp := .list (l.map ofOptInt)

def cols? : SExp → Option (List (List (Option Int)))
  | .list xs => xs.mapM optInts?
  | _ => none

def ofCols (cs : List (List (Option Int))) : SExp := .list (cs.map ofOptInts)

def idx? (k ls : SExp) : Option (Idx Int) := do
  let k ← kind? k; let ls ← ints? ls
  pure ⟨ls, k⟩

/-- `(sr kind (labels) (values))` -/
def series? : SExp → Option (Series Int (Option Int))
  | .list [.atom "sr", k, ls, vs] => do
      let i ← idx? k ls; let vs ← optInts? vs
      pure ⟨i, vs⟩
  | _ => none

def ofSeries (s : Series Int (Option Int)) : SExp :=
  .list [.atom "sr", ofKind s.index.kind, ofInts s.index.labels, ofOptInts s.values]

/-- `(fr ikind (ilabels) ckind (clabels) ((col) (col) …))` -/
def frame? : SExp → Option (Frame Int (Option Int))
  | .list [.atom "fr", ik, il, ck, cl, cs] => do
      let i ← idx? ik il; let c ← idx? ck cl; let cs ← cols? cs
      pure ⟨i, c, cs⟩
  | _ => none

def ofFrame (f : Frame Int (Option Int)) : SExp :=
  .list [.atom "fr", ofKind f.index.kind, ofInts f.index.labels, ofKind f.columns.kind,
    ofInts f.columns.labels, ofCols f.cols]

def optIdx? : SExp → Option (Option (Idx Int))
  | .atom "N" => some none
  | .list [k, ls] => (idx? k ls).map some
  | _ => none

/-- operators on cells; the missing marker behaves like NaN (absorbing for arithmetic, `False`
    for comparisons except `!=`); Booleans are 0 / 1. -/
def lift2 (f : Int → Int → Int) : Option Int → Option Int → Option Int
  | some a, some b => some (f a b)
  | _, _ => none

def cmp2 (f : Int → Int → Bool) (naResult : Int) : Option Int → Option Int → Option Int
  | some a, some b => some (if f a b then 1 else 0)
  | _, _ => some naResult

def cellOp? : SExp → Option (Option Int → Option Int → Option Int)
  | .atom "add" => some (lift2 (· + ·))
  | .atom "sub" => some (lift2 (· - ·))
  | .atom "rsub" => some (lift2 (fun a b => b - a))
  | .atom "mul" => some (lift2 (· * ·))
  | .atom "floordiv" => some (lift2 Int.fdiv)
  | .atom "rfloordiv" => some (lift2 (fun a b => Int.fdiv b a))
  | .atom "eq" => some (cmp2 (· == ·) 0)
  | .atom "ne" => some (cmp2 (· != ·) 1)
  | .atom "lt" => some (cmp2 (· < ·) 0)
  | .atom "le" => some (cmp2 (· ≤ ·) 0)
  | .atom "gt" => some (cmp2 (· > ·) 0)
  | .atom "ge" => some (cmp2 (· ≥ ·) 0)
  | .atom "and" => some (lift2 (fun a b => if a ≠ 0 ∧ b ≠ 0 then 1 else 0))
  | .atom "or" => some (lift2 (fun a b => if a ≠ 0 ∨ b ≠ 0 then 1 else 0))
  | .atom "xor" => some (lift2 (fun a b => if (a ≠ 0) ≠ (b ≠ 0) then 1 else 0))
  | _ => none

def fOperand? : SExp → Option (FOperand Int (Option Int))
  | e@(.list (.atom "fr" :: _)) => (frame? e).map .frame
  | .list [.atom "ser", s, ax] => do
      let s ← series? s; let ax ← nat? ax
      pure (.series s ax)
  | .list [.atom "sc", v] => (optInt? v).map .scalar
  | .list [.atom "a1", vs, ax] => do
      let vs ← optInts? vs; let ax ← nat? ax
      pure (.array1 vs ax)
  | .list [.atom "a2", cs] => (cols? cs).map .array2
  | _ => none

def sOperand? : SExp → Option (SOperand Int (Option Int))
  | e@(.list (.atom "sr" :: _)) => (series? e).map .series
  | .list [.atom "sc", v] => (optInt? v).map .scalar
  | .list [.atom "a1", vs] => (optInts? vs).map .array
  | _ => none

def ofIC (ic : IC) : SExp :=
  .list [ofBool ic.hasCommon, ofBool ic.isSubset, ofNats ic.ilocSrc, ofNats ic.ilocDst,
    .atom (toString ic.size)]

end SF.Drv.SetOpsH

namespace SF.Drv
open SF SExp SF.SetOps SF.Drv.SetOpsH

def setOpsOps : List SExp → Option String
  | [.atom "set.1d", op, ka, kb, a, b, au, srt] => do
      let op ← setOp? op; let ka ← kind? ka; let kb ← kind? kb
      let a ← ints? a; let b ← ints? b; let au ← bool? au; let srt ← ints? srt
      pure (answer (.ok (ofInts (ufuncSet1d (drvOrd srt) op ka kb a b au))))
  | [.atom "set.2d", op, ka, kb, a, b, au, srt] => do
      let op ← setOp? op; let ka ← kind? ka; let kb ← kind? kb
      let a ← rows? a; let b ← rows? b; let au ← bool? au; let srt2 ← bool? srt
      pure (answer (.ok (ofRows (ufuncSet2d (drvOrd2 srt2) op ka kb a b au))))
  | [.atom "set.index", op, ka, a, kb, b, srt] => do
      let op ← setOp? op; let a ← idx? ka a; let b ← idx? kb b; let srt ← ints? srt
      pure (answer (.ok (ofInts (a.ufuncSet (drvOrd srt) op (.index b)))))
  | [.atom "set.index_array", op, ka, a, kb, b, srt] => do
      let op ← setOp? op; let a ← idx? ka a; let b ← idx? kb b; let srt ← ints? srt
      pure (answer (.ok (ofInts (a.ufuncSet (drvOrd srt) op (.array b.labels b.kind)))))
  | [.atom "set.index_iter", op, ka, a, kb, b, u, srt] => do
      let op ← setOp? op; let a ← idx? ka a; let b ← idx? kb b; let u ← bool? u; let srt ← ints? srt
      pure (answer (.ok (ofInts (a.ufuncSet (drvOrd srt) op (.iterable b.labels b.kind u)))))
  | [.atom "set.ic", ka, a, kb, b, srt] => do
      let a ← idx? ka a; let b ← idx? kb b; let srt ← ints? srt
      pure (match fromCorrespondence (drvOrd srt) a b with
        | some ic => answer (.ok (ofIC ic))
        | none => answer (.error .lookup))
  | [.atom "set.reindex", s, kn, ln, fill, ce, srt] => do
      let s ← series? s; let ni ← idx? kn ln; let fill ← optInt? fill; let ce ← bool? ce
      let srt ← ints? srt
      pure (answer ((s.reindex (drvOrd srt) ni fill ce).map ofSeries))
  | [.atom "set.sbinop", op, s, other, srt] => do
      let op ← cellOp? op; let s ← series? s; let other ← sOperand? other; let srt ← ints? srt
      pure (answer ((s.binop (drvOrd srt) op none other).map ofSeries))
  | [.atom "set.freindex", f, ni, nc, fill, srt] => do
      let f ← frame? f; let ni ← optIdx? ni; let nc ← optIdx? nc; let fill ← optInt? fill
      let srt ← ints? srt
      pure (answer ((f.reindex (drvOrd srt) ni nc fill).map ofFrame))
  | [.atom "set.fbinop", op, f, other, srt] => do
      let op ← cellOp? op; let f ← frame? f; let other ← fOperand? other; let srt ← ints? srt
      pure (answer ((f.binop (drvOrd srt) op none other).map ofFrame))
  | _ => none

end SF.Drv
