/- Driver ops for the heap model. -/
import SFModel.Heap

namespace SF.Drv
open SF SExp

private def arr? : SExp → Option HArr
  | .list [b, w] => do let b ← nat? b; let w ← bool? w; pure ⟨b, w⟩
  | _ => none

private def ev? : SExp → Option Ev
  | .list [.atom "alloc", vs] => (ints? vs).map .alloc
  | .list [.atom "view", a] => (nat? a).map .view
  | .list [.atom "copy", a] => (nat? a).map .copy
  | .list [.atom "freeze", a] => (nat? a).map .freeze
  | .list [.atom "filter", a] => (nat? a).map .filter
  | .list [.atom "construct", as] => (nats? as).map .construct
  | .list [.atom "write", a, i, v] => do let a ← nat? a; let i ← nat? i; let v ← int? v; pure (.write a i v)
  | _ => none

def heapOps : List SExp → Option String
  -- invariant of an OBSERVED heap: arrays as (buffer-id writeable), containers as lists of array ids
  | [.atom "heap.inv", .list arrs, .list conts] => do
      let arrs ← arrs.mapM arr?; let conts ← conts.mapM nats?
      let h : Heap := ⟨[], arrs, conts⟩
      pure (answer (.ok (ofBool h.inv)))
  -- run an event trace from the empty heap: per event (legal?, inv, snapshots of all containers)
  | [.atom "heap.run", .list evs] => do
      let evs ← evs.mapM ev?
      let stepf := fun (acc : Heap × List SExp) (e : Ev) =>
        let h := acc.1
        let l := h.legal e
        let h' := if l then h.step e else h
        (h', acc.2 ++ [SExp.list [ofBool l, ofBool h'.inv,
          .list ((List.range h'.conts.length).map fun c => .list ((h'.snapshot c).map ofInts))]])
      let (_, outs) := evs.foldl stepf ((⟨[], [], []⟩ : Heap), [])
      pure (answer (.ok (.list outs)))
  | _ => none

end SF.Drv
