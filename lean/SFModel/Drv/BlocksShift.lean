/- Driver ops for SFModel.BlocksShift (α := String tokens; the value conversion `conv` is the
   identity on tokens — the harness compares cells up to NumPy's numeric widening and dtypes exactly;
   dtype resolution is the finite table of answers of the real `resolve_dtype`). -/
import SFModel.BlocksShift
import SFModel.Drv.Blocks

namespace SF.Drv
open SF SExp

private def convId : DT → DT → String → String := fun _ _ v => v

def blocksShiftOps : List SExp → Option String
  -- the raw generator: `list(tb._shift_blocks(r, c, wrap, fill))`
  | [.atom "tbshift.blocks", t, r, c, wrap, .atom fill, .atom fillDT, table] => do
      let t ← tb? t; let r ← int? r; let c ← int? c; let wrap ← bool? wrap
      let resolve ← resolveTable? table
      pure (answer ((t.shiftBlocks resolve convId r c wrap fill fillDT).map fun bs =>
        .list (.atom "blocks" :: bs.map ofBlock)))
  -- `Frame.roll` / `Frame.shift`: from_blocks + the shape check of the Frame constructor
  | [.atom "tbshift.frame", t, r, c, wrap, .atom fill, .atom fillDT, table] => do
      let t ← tb? t; let r ← int? r; let c ← int? c; let wrap ← bool? wrap
      let resolve ← resolveTable? table
      pure (answer ((t.frameShift resolve convId r c wrap fill fillDT).map ofTB))
  -- `array_shift(array=b, shift, axis, wrap, fill_value)`; `rows = b.shape[0]`
  | [.atom "tbshift.array", b, rows, shift, axis, wrap, .atom fill, .atom fillDT, table] => do
      let b ← block? b; let rows ← nat? rows; let shift ← int? shift; let axis ← nat? axis
      let wrap ← bool? wrap
      let resolve ← resolveTable? table
      pure (answer ((b.arrayShift resolve convId rows shift axis wrap fill fillDT).map ofBlock))
  -- `Series.roll(shift)` (kind = roll) / `Series.shift(shift, fill_value)` (kind = shift)
  | [.atom "tbshift.series", .atom kind, .atom dt, vals, shift, .atom fill, .atom fillDT, table] => do
      let vals ← atoms? vals; let shift ← int? shift
      let resolve ← resolveTable? table
      match kind with
      | "roll" => pure (answer ((seriesRoll resolve convId dt vals shift fill fillDT).map ofBlock))
      | "shift" => pure (answer ((seriesShift resolve convId dt vals shift fill fillDT).map ofBlock))
      | _ => none
  | _ => none

end SF.Drv
