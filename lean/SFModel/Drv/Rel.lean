/- Driver ops for SFModel.Rel.

  Wire format (cells / labels / names are atoms; `na` is a NaN key that matches nothing):
    frame := (fr (<name>…) ((<label part>…)…) (<column>…) ((<cell>…)…))
    table := (tb (<column>…) ((<label part>…) <cell>…)…)          -- join operand, label = tuple
    answers: frame as above; join result (tb (<column>…) (<jlabel> <cell>…)…) with
             jlabel := (p (<l>…) (<r>…)) | (l (<l>…)) | (r (<r>…)) | (<l>…)
             pivot result (pf ((<k>…)…) (((v <a>)|(f <c>) …)…) ((<cell>…)…))
-/
import SFModel.Rel

namespace SF.Drv
open SF SExp SF.Rel

private abbrev RFr := Fr String String

private def strs? : SExp → Option (List String) := atoms?

private def strss? : SExp → Option (List (List String))
  | .list xs => xs.mapM strs?
  | _ => none

private def rfr? : SExp → Option RFr
  | .list [.atom "fr", names, index, cols, rows] => do
      pure ⟨← strs? names, ← strss? index, ← strs? cols, ← strss? rows⟩
  | _ => none

private def ofStrs (l : List String) : SExp := .list (l.map .atom)
private def ofStrss (l : List (List String)) : SExp := .list (l.map ofStrs)

private def ofRFr (f : RFr) : SExp :=
  .list [.atom "fr", ofStrs f.indexNames, ofStrss f.index, ofStrs f.columns, ofStrss f.rows]

private def rauto (i : Nat) : String := "n:" ++ toString i

private def ansFr (r : Except Err RFr) : String := answer (r.map ofRFr)

/-! join -/

private abbrev RRow := Row (List String) String
private abbrev RTbl := Tbl (List String) String String

private def rrow? : SExp → Option RRow
  | .list (lab :: cells) => do pure ⟨← strs? lab, ← cells.mapM atom?⟩
  | _ => none

private def rtbl? : SExp → Option RTbl
  | .list (.atom "tb" :: cols :: rows) => do pure ⟨← rows.mapM rrow?, ← strs? cols⟩
  | _ => none

private def keyOf (depths cols : List Nat) (r : RRow) : List String := pick r.label depths ++ pick r.cells cols

/-- row-wise `==` of two key rows: NaN matches nothing -/
private def rkeq (a b : List String) : Bool := a == b && !a.contains "na"

private def joinType? : SExp → Option JoinType
  | .atom "inner" => some .inner | .atom "left" => some .left
  | .atom "right" => some .right | .atom "outer" => some .outer | _ => none

private def ofJLabel : JLabel (List String) → SExp
  | .pair l r => .list [.atom "p", ofStrs l, ofStrs r]
  | .left l => .list [.atom "l", ofStrs l]
  | .right r => .list [.atom "r", ofStrs r]

/-- renaming given as the list of new names (`template.format(c)` per column) -/
private def renamer (old new : List String) (c : String) : String :=
  match (old.zip new).lookup c with
  | some n => n
  | none => c

/-! pivot -/

private def stripN (s : String) : Option Int := if s.startsWith "n:" then (s.drop 2).toInt? else none

/-- the aggregation functions the harness uses (on cell atoms) -/
private def rfunc : String → Option (List String → String)
  | "first" => some fun l => l.headD "EMPTY"
  | "last" => some fun l => l.getLastD "EMPTY"
  | "count" => some fun l => "n:" ++ toString l.length
  | "sum" => some fun l => match l.mapM stripN with
      | some is => "n:" ++ toString (is.foldl (· + ·) 0)
      | none => "BAD"
  | "max" => some fun l => match l.mapM stripN with
      | some (i :: is) => "n:" ++ toString (is.foldl max i)
      | _ => "BAD"
  | _ => none

private def funcs? : SExp → Option (List (String × (List String → String)))
  | .list xs => xs.mapM fun e => match e with
      | .list [.atom label, .atom fn] => (rfunc fn).map fun f => (label, f)
      | _ => none
  | _ => none

private def ofPLab : PLab String String → SExp
  | .val a => .list [.atom "v", .atom a]
  | .fld c => .list [.atom "f", .atom c]

private def ofPFrame (p : PFrame String String) : SExp :=
  .list [.atom "pf", ofStrss p.index, .list (p.columns.map fun l => .list (l.map ofPLab)), ofStrss p.rows]

private def hfr? : SExp → Option (HFr String)
  | .list [.atom "hf", index, cols, rows] => do pure ⟨← strss? index, ← strss? cols, ← strss? rows⟩
  | _ => none

private def ofHFr (f : HFr String) : SExp := .list [.atom "hf", ofStrss f.index, ofStrss f.columns, ofStrss f.rows]

def relOps : List SExp → Option String
  | [.atom "rel.set_index", f, .atom c, drop] => do
      let f ← rfr? f; let drop ← bool? drop
      pure (ansFr (setIndex f c drop))
  | [.atom "rel.set_index_hierarchy", f, cs, drop] => do
      let f ← rfr? f; let cs ← strs? cs; let drop ← bool? drop
      pure (ansFr (setIndexHierarchy f cs drop))
  | [.atom "rel.unset_index", f, names, .atom autoName] => do
      let f ← rfr? f; let names ← strs? names
      pure (ansFr (unsetIndex f names rauto autoName))
  | [.atom "rel.shift_in", f, cs] => do
      let f ← rfr? f; let cs ← strs? cs
      pure (ansFr (relabelShiftIn f cs))
  | [.atom "rel.shift_out", f, ds, .atom autoName] => do
      let f ← rfr? f; let ds ← nats? ds
      pure (ansFr (relabelShiftOut f ds rauto autoName))
  | [.atom "rel.join", jt, comp, l, r, ld, lc, rd, rc, .atom fill, lnew, rnew] => do
      let jt ← joinType? jt; let comp ← bool? comp
      let l ← rtbl? l; let r ← rtbl? r
      let ld ← nats? ld; let lc ← nats? lc; let rd ← nats? rd; let rc ← nats? rc
      let lnew ← strs? lnew; let rnew ← strs? rnew
      let tl := renamer l.columns lnew
      let tr := renamer r.columns rnew
      if comp then
        pure (answer ((joinComposite (keyOf ld lc) (keyOf rd rc) rkeq jt tl tr fill l r).map fun t =>
          .list (.atom "tb" :: ofStrs t.columns :: t.rows.map fun row => .list (ofJLabel row.label :: row.cells.map .atom))))
      else
        pure (answer ((joinNonComposite (keyOf ld lc) (keyOf rd rc) rkeq jt tl tr fill l r).map fun t =>
          .list (.atom "tb" :: ofStrs t.columns :: t.rows.map fun row => .list (ofStrs row.label :: row.cells.map .atom))))
  | [.atom "rel.stack", f, mask, .atom fill] => do
      let f ← hfr? f; let mask ← bools? mask
      pure (answer ((pivotStack f mask fill rauto).map ofHFr))
  | [.atom "rel.unstack", f, mask, .atom fill] => do
      let f ← hfr? f; let mask ← bools? mask
      pure (answer ((pivotUnstack f mask fill rauto).map ofHFr))
  | [.atom "rel.pivot", f, ifs, cfs, dfs, fs, .atom fill] => do
      let f ← rfr? f; let ifs ← strs? ifs; let cfs ← strs? cfs; let dfs ← strs? dfs
      let fs ← funcs? fs
      pure (answer ((pivot List.eraseDups f ifs cfs dfs fs fill).map ofPFrame))
  | _ => none

end SF.Drv
