/- Driver ops for SFModel.FrameSel (cells: String tokens as in the `tb.*` ops; labels: `Lab` as in the `index.*` ops).

   frame.iloc (fr <index> <columns> <tb>) <key> <key>
   frame.loc  (fr <index> <columns> <tb>) <lkey> <lkey>
     <index>   = (m l1 l2 …) | (a n)            as `index.*`
     <tb>      = (tb rows (d1 dt a b …) (d2 dt (a b …) …) …)   as `tb.*`
     <key>     = (all) | (int i) | (sl a b c) | (list i …) | (mask 0 1 …)   as `key.positions`
     <lkey>    = (lab l) | (list l …) | (sl l l step) | (mask 0 1 …)        as `index.cloc`
   answer: ok (elem v) | ok (line (v …) (A|M l …) name) | ok (frame (A|M l …) (A|M l …) <tb>) | err <Err>
   (A = the index has no map: `loc_is_iloc`; M = it has one) -/
import SFModel.FrameSel
import SFModel.Drv.Blocks
import SFModel.Drv.Index

namespace SF.Drv
open SF SExp

private def frameSelFr? : SExp → Option (Except Err (Fr String Lab))
  | .list [.atom "fr", ix, cx, t] => do
      let ix ← index? ix; let cx ← index? cx; let t ← tb? t
      pure (do let ix ← ix; let cx ← cx; pure ⟨ix, cx, t⟩)
  | _ => none

private def frameSelOfIndex (ix : Index Lab) : SExp :=
  .list (.atom (if ix.map.isNone then "A" else "M") :: ix.labels.map ofLab)

private def frameSelOfSel : FSel String Lab → SExp
  | .elem v => .list [.atom "elem", .atom v]
  | .line vs ix name => .list [.atom "line", ofAtoms vs, frameSelOfIndex ix, ofLab name]
  | .frame g => .list [.atom "frame", frameSelOfIndex g.index, frameSelOfIndex g.columns, ofTB g.tb]

def frameSelOps : List SExp → Option String
  | [.atom "frame.iloc", f, rk, ck] => do
      let f ← frameSelFr? f; let rk ← key? rk; let ck ← key? ck
      pure (answer (f.bind fun f => (f.iloc rk ck).map frameSelOfSel))
  | [.atom "frame.loc", f, rk, ck] => do
      let f ← frameSelFr? f; let rk ← lkey? rk; let ck ← lkey? ck
      pure (answer (f.bind fun f => (f.loc rk ck).map frameSelOfSel))
  | _ => none

end SF.Drv
