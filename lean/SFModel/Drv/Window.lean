/- Driver ops for SFModel.Window. -/
import SFModel.Window

namespace SF.Drv
open SF SExp SF.Window

private def ofWins (ws : List Win) : SExp :=
  .list (ws.map fun w => ofNats [w.1, w.2.1, w.2.2])

/-- `window_valid` family used by the harness: `N` accepts everything, `q` rejects every window that
    contains position `q`. -/
private def validOf (excl : Option Int) (lo len : Nat) : Bool :=
  match excl with
  | none => true
  | some q => !(decide ((lo : Int) ≤ q) && decide (q < (lo : Int) + len))

private def winArgs? : List SExp → Option (Nat × WinParams × Option Int)
  | [n, size, step, sized, ls, ss, inc, excl] => do
      let n ← nat? n; let size ← int? size; let step ← int? step; let sized ← bool? sized
      let ls ← int? ls; let ss ← int? ss; let inc ← int? inc; let excl ← optInt? excl
      pure (n, ⟨size, step, sized, ls, ss, inc⟩, excl)
  | _ => none

def windowOps : List SExp → Option String
  | .atom "window.items" :: args => do
      let (n, p, excl) ← winArgs? args
      pure (answer ((windows p n (validOf excl)).map ofWins))
  | .atom "window.spec" :: args => do
      let (n, p, excl) ← winArgs? args
      pure (answer (.ok (ofWins (windowsSpec p n (validOf excl)))))
  | _ => none

end SF.Drv
