/- Driver ops for `util.slices_from_targets` translated from the source (SFModel.Gen.Targets) next to the
   hand-mirrored `NA.slicesFromTargets`. -/
import SFModel.NA
import SFModel.Gen.Targets

namespace SF.Drv
open SF SExp SF.NA

def targetsGenOps : List SExp → Option String
  | [.atom "tgen.slices", ts, length, fwd, limit, sel] => do
      let ts ← nats? ts; let length ← nat? length; let fwd ← bool? fwd; let limit ← int? limit; let sel ← bools? sel
      let cond : Int → Int → Bool := fun a _ => decide (sel[a.toNat]? = some true)
      let r := Gen.Targets.slices_from_targets (ts.map fun (x : Nat) => (x : Int)) ts length fwd limit cond
      pure (answer (.ok (.list (r.map fun x => .list [.atom (toString x.1.1), .atom (toString x.1.2), .atom (toString x.2)]))))
  | [.atom "tgen.hand", ts, length, fwd, limit, sel] => do
      let ts ← nats? ts; let length ← nat? length; let fwd ← bool? fwd; let limit ← nat? limit; let sel ← bools? sel
      let r := slicesFromTargets fwd limit sel length ts
      pure (answer (.ok (.list (r.map fun s => ofNats [s.start, s.stop, s.target]))))
  | _ => none

end SF.Drv
