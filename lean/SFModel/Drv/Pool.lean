/- Driver ops for SFModel.Pool.

   Task outcomes are supplied by the harness as atoms: `!<tag>` = the task raises (tag `c…` is an
   exception class the `except` idioms silence, anything else propagates), every other atom = the value
   the task returns.  Answers: `ok …`, `err other` (a task's exception surfaced), `err shape` (the
   schedule leaves a future pending: the real call would block). -/
import SFModel.Pool

namespace SF.Drv
open SF SExp SF.Pool

/-- outcome atom → what the task does -/
private def outcome (s : String) : Except String String :=
  if s.startsWith "!" then .error (s.drop 1).toString else .ok s

private def poolAnswer (r : Option (Except String SExp)) : String :=
  match r with
  | none => answer (.error .shape)
  | some (.error _) => answer (.error .other)
  | some (.ok e) => answer (.ok e)

private def ofPairs (l : List (String × String)) : SExp := .list (l.map fun kv => .list [.atom kv.1, .atom kv.2])

private def pair? : SExp → Option (String × String)
  | .list [.atom k, .atom r] => some (k, r)
  | _ => none

private def pairs? : SExp → Option (List (String × String))
  | .list xs => xs.mapM pair?
  | _ => none

private def optNat? : SExp → Option (Option Nat)
  | .atom "N" => some none
  | .atom s => s.toNat?.map some
  | _ => none

def poolOps : List SExp → Option String
  | [.atom "pool.chunks", c, xs] => do
      let c ← nat? c; let xs ← atoms? xs
      if c = 0 then pure (answer (.error .value))   -- ValueError("chunksize must be >= 1.")
      else pure (answer (.ok (.list ((chunks c xs).map ofAtoms))))
  | [.atom "pool.tasks", th, c, n] => do
      let th ← bool? th; let c ← nat? c; let n ← nat? n
      pure (answer (.ok (.atom (toString (taskCount th (List.range n) c)))))
  | [.atom "pool.map", th, c, sched, rs] => do
      let th ← bool? th; let c ← nat? c; let sched ← nats? sched; let rs ← atoms? rs
      if c = 0 then pure (answer (.error .value))
      else pure (poolAnswer ((executorMap th outcome rs c sched).map fun r => r.map ofAtoms))
  | [.atom "pool.apply", yt, th, c, sched, items] => do
      let yt ← bool? yt; let th ← bool? th; let c ← nat? c; let sched ← nats? sched; let items ← pairs? items
      if c = 0 then pure (answer (.error .value))
      else
        let func : Arg String String → Except String String := fun a =>
          match a with
          | .val v => outcome v
          | .item _ v => outcome v
        pure (poolAnswer ((applyIterItemsParallel yt th func items c sched).map fun r => r.map ofPairs))
  | [.atom "pool.seq", yt, items] => do
      let yt ← bool? yt; let items ← pairs? items
      let func : Arg String String → Except String String := fun a =>
        match a with
        | .val v => outcome v
        | .item _ v => outcome v
      pure (poolAnswer (some ((applyIterItems yt func items).map ofPairs)))
  | [.atom "pool.except", sched, items] => do
      let sched ← nats? sched; let items ← pairs? items
      pure (poolAnswer ((applyPoolExcept (fun e => e.startsWith "c") outcome items sched).map fun r => r.map ofPairs))
  | [.atom "pool.read", w, c, sched, rs] => do
      let w ← optNat? w; let c ← nat? c; let sched ← nats? sched; let rs ← atoms? rs
      if c = 0 then pure (answer (.error .value))
      else pure (poolAnswer ((storeReadMany w outcome rs c sched).map fun r => r.map ofAtoms))
  | [.atom "pool.write", w, c, sched, rs] => do
      let w ← optNat? w; let c ← nat? c; let sched ← nats? sched; let rs ← atoms? rs
      if c = 0 then pure (answer (.error .value))
      else pure (poolAnswer ((storeWriteStream w outcome rs c sched).map fun r => r.map ofAtoms))
  | _ => none

end SF.Drv
