/-
  Driver ops for SFModel.Bus.

  bus.run <mp|N> <pinnedReader 0|1> (<label ids in store order>) (<op> ...)
      runs a whole history through the model, starting from a Bus opened on a store whose file
      has mtime 1.  Frames are `(label, usedLabelConfig)` pairs.  Answer: `ok (<step> ...)`,
      one `<step>` per op:
         (<status> <result> <reads> <world>)
           status : ok | (err <Err>)
           result : (el <frame>) | (bus <id>) | (vals <frame> ...) | (labels ...) | (none)
           frame  : D (FrameDeferred) | (F <label> <1 when read with the label's config, 0 default config>)
           reads  : ((l l ..) ..)  label batches handed to the store (read_many / read), in order
           world  : ((seen file) (<labels> <cache> <loaded> <lru> <loadedAll>) ...)   store, then every Bus alive
      ops:
         (acc b <key>)  (vals b)  (raw b)  (get b p)  (peek b)  (drop b <key>)  (sel b (p ..))
         (sort b asc)  (sortv b asc)   [b is taken modulo the number of buses alive, p modulo the length]  (touch t)  (rewrite t)  (delete)  (swrite t)  (slabels)
  store.run <file|N> (<op> ...)   ops: (open) (read) (write t) (touch t) (rewrite t) (delete)
      answer per op: (<ok|err storeMutation|err other> (seen file))
  bus.batches <mp|N> (labels)     the read batches of `_store_reader`
-/
import SFModel.Bus
import SFModel.Drv.Slice

namespace SF.Drv
open SF SExp SF.Bus

private abbrev Fr := Nat × Bool

private def busStore : StoreFn Fr := fun ck l => (l, ck == some l)

private structure BusWorld where
  st : StoreSt
  buses : Array (BusSt Fr)

private def optNat? : SExp → Option (Option Nat)
  | .atom "N" => some none
  | .atom s => s.toNat?.map some
  | _ => none

private def ofOptNat : Option Nat → SExp
  | none => .atom "N"
  | some n => .atom (toString n)

private def busOfFrame : Option Fr → SExp
  | none => .atom "D"
  | some (l, c) => .list [.atom "F", .atom (toString l), ofBool c]

private def ofBusSt (b : BusSt Fr) : SExp :=
  .list [ofNats b.labels, .list (b.cache.map busOfFrame), ofBools b.loaded, ofNats b.lru, ofBool b.loadedAll]

private def ofWorld (w : BusWorld) : SExp :=
  .list (.list [ofOptNat w.st.seen, ofOptNat w.st.file] :: w.buses.toList.map ofBusSt)

private def ofBatches (bs : List (List Nat)) : SExp := .list (bs.map ofNats)

/-- the store reads `_update_series_cache_iloc` issues for positions `ps` (first only when the store is stale) -/
private def readsOf (st : StoreSt) (s : BusSt Fr) (ps : List Nat) (isElement : Bool) : List (List Nat) :=
  let load := if s.loadedAll then false else !(ps.all fun p => s.loaded[p]? == some true)
  if !load then [] else
  match targetsOf s ps with
  | none => []
  | some targets =>
    let all := if isElement then targets.map (fun t => [t.1])
      else storeReaderBatches s.maxPersist ((targets.filter fun t => t.2.isNone).map (·.1))
    match st.mtimeCoherent with
    | .ok _ => all
    | .error _ =>
      -- `Store.read` checks the mtime before it calls `read_many` (nothing reaches read_many);
      -- a direct `read_many` call is seen once, then raises
      let viaRead := isElement || (match s.maxPersist with | some k => decide (k ≤ 1) | none => false)
      if viaRead then [] else all.take 1

private def stepAnswer (status : SExp) (result : SExp) (reads : List (List Nat)) (w : BusWorld) : SExp :=
  .list [status, result, ofBatches reads, ofWorld w]

private def errS (e : Err) : SExp := .list [.atom "err", .atom e.toString]
private def okS : SExp := .atom "ok"
private def noneS : SExp := .list [.atom "none"]

/-- reads of a complete `values` / `items()` iteration -/
private def valuesReads (st : StoreSt) (pinnedReader : Bool) : BusSt Fr → List Nat → List (List Nat) → List (List Nat)
  | _, [], acc => acc
  | s, i :: is, acc =>
    let acc := acc ++ readsOf st s [i] true
    match s.extractIloc busStore pinnedReader st (.int i) with
    | .error _ => acc
    | .ok (s', _) => valuesReads st pinnedReader s' is acc

private def busStep (pinnedReader : Bool) (w : BusWorld) : SExp → Option (BusWorld × SExp)
  | .list [.atom "acc", b, k] => do
      let b ← nat? b; let k ← key? k
      let b := b % w.buses.size
      let s ← w.buses[b]?
      let reads := match k.positions s.labels.length with
        | .ok ps => if k.isMulti && !decide ps.Nodup then [] else readsOf w.st s ps (!k.isMulti)
        | .error _ => []
      match s.extractIloc busStore pinnedReader w.st k with
      | .error (e, s') =>
        let w' := { w with buses := w.buses.set! b s' }
        pure (w', stepAnswer (errS e) noneS reads w')
      | .ok (s', .element v) =>
        let w' := { w with buses := w.buses.set! b s' }
        pure (w', stepAnswer okS (.list [.atom "el", busOfFrame v]) reads w')
      | .ok (s', .bus d) =>
        let w' := { w with buses := (w.buses.set! b s').push d }
        pure (w', stepAnswer okS (.list [.atom "bus", .atom (toString (w'.buses.size - 1))]) reads w')
  | .list [.atom "vals", b] => do
      let b ← nat? b
      let b := b % w.buses.size
      let s ← w.buses[b]?
      let reads := match s.maxPersist with
        | none => if s.loadedAll then [] else readsOf w.st s (List.range s.labels.length) false
        | some _ => valuesReads w.st pinnedReader s (List.range s.labels.length) []
      match s.values busStore pinnedReader w.st with
      | .error (e, s') =>
        let w' := { w with buses := w.buses.set! b s' }
        pure (w', stepAnswer (errS e) noneS reads w')
      | .ok (s', vs) =>
        let w' := { w with buses := w.buses.set! b s' }
        pure (w', stepAnswer okS (.list (.atom "vals" :: vs.map busOfFrame)) reads w')
  | .list [.atom "get", b, p] => do
      let b ← nat? b; let p ← nat? p
      let b := b % w.buses.size
      let s ← w.buses[b]?
      if s.labels.length = 0 then pure (w, stepAnswer okS noneS [] w) else
      let v ← s.get (p % s.labels.length)
      pure (w, stepAnswer okS (.list [.atom "el", busOfFrame v]) [] w)
  | .list [.atom "peek", b] => do
      let b ← nat? b
      let _ ← w.buses[b % w.buses.size]?
      pure (w, stepAnswer okS noneS [] w)
  | .list [.atom "raw", b] => do
      let b ← nat? b
      let s ← w.buses[b % w.buses.size]?
      pure (w, stepAnswer okS (.list (.atom "vals" :: s.cache.map busOfFrame)) [] w)
  | .list [.atom "drop", b, k] => do
      let b ← nat? b; let k ← key? k
      let b := b % w.buses.size
      let s ← w.buses[b]?
      match k.positions s.labels.length with
      | .error e => pure (w, stepAnswer (errS e) noneS [] w)
      | .ok ps =>
        let keep := (List.range s.labels.length).filter fun i => !ps.contains i
        match s.derive keep with
        | .error e => pure (w, stepAnswer (errS e) noneS [] w)
        | .ok d =>
          let w' := { w with buses := w.buses.push d }
          pure (w', stepAnswer okS (.list [.atom "bus", .atom (toString (w'.buses.size - 1))]) [] w')
  | .list [.atom "sel", b, ps] => do
      let b ← nat? b; let ps ← nats? ps
      let b := b % w.buses.size
      let s ← w.buses[b]?
      let ps := ps.filter (· < s.labels.length)
      match s.derive ps with
      | .error e => pure (w, stepAnswer (errS e) noneS [] w)
      | .ok d =>
        let w' := { w with buses := w.buses.push d }
        pure (w', stepAnswer okS (.list [.atom "bus", .atom (toString (w'.buses.size - 1))]) [] w')
  | .list [.atom "sort", b, asc] => do
      let b ← nat? b; let asc ← bool? asc
      let b := b % w.buses.size
      let s ← w.buses[b]?
      match s.derive (sortPositions s.labels asc) with
      | .error e => pure (w, stepAnswer (errS e) noneS [] w)
      | .ok d =>
        let w' := { w with buses := w.buses.push d }
        pure (w', stepAnswer okS (.list [.atom "bus", .atom (toString (w'.buses.size - 1))]) [] w')
  | .list [.atom "sortv", b, asc] => do
      let b ← nat? b; let asc ← bool? asc
      let b := b % w.buses.size
      let s ← w.buses[b]?
      let reads := match s.maxPersist with
        | none => if s.loadedAll then [] else readsOf w.st s (List.range s.labels.length) false
        | some _ => valuesReads w.st pinnedReader s (List.range s.labels.length) []
      match s.sortValues busStore pinnedReader w.st asc with
      | .error (e, s') =>
        let w' := { w with buses := w.buses.set! b s' }
        pure (w', stepAnswer (errS e) noneS reads w')
      | .ok (s', d) =>
        let w' := { w with buses := (w.buses.set! b s').push d }
        pure (w', stepAnswer okS (.list [.atom "bus", .atom (toString (w'.buses.size - 1))]) reads w')
  | .list [.atom "touch", t] => do
      let t ← nat? t
      let w' := { w with st := w.st.event (.touch t) }
      pure (w', stepAnswer okS noneS [] w')
  | .list [.atom "rewrite", t] => do
      let t ← nat? t
      let w' := { w with st := w.st.event (.rewrite t) }
      pure (w', stepAnswer okS noneS [] w')
  | .list [.atom "delete"] =>
      let w' := { w with st := w.st.event .delete }
      pure (w', stepAnswer okS noneS [] w')
  | .list [.atom "swrite", t] => do
      let t ← nat? t
      let w' := { w with st := w.st.write t }
      pure (w', stepAnswer okS noneS [] w')
  | .list [.atom "slabels"] =>
      match w.buses[0]? with
      | none => none
      | some root =>
        match w.st.read root.labels with
        | .error e => pure (w, stepAnswer (errS e) noneS [] w)
        | .ok ls => pure (w, stepAnswer okS (.list (.atom "labels" :: ls.map fun l => .atom (toString l))) [] w)
  | _ => none

private def busRun (pinnedReader : Bool) : BusWorld → List SExp → List SExp → Option (List SExp)
  | _, [], acc => some acc.reverse
  | w, op :: ops, acc =>
    match busStep pinnedReader w op with
    | none => none
    | some (w', a) => busRun pinnedReader w' ops (a :: acc)

private def storeStep (s : StoreSt) : SExp → Option (StoreSt × SExp)
  | .list [.atom "open"] =>
      let s' := StoreSt.init s.file
      some (s', okS)
  | .list [.atom "read"] =>
      match s.read () with
      | .ok _ => some (s, okS)
      | .error e => some (s, errS e)
  | .list [.atom "write", t] => do
      let t ← nat? t
      pure (s.write t, okS)
  | .list [.atom "touch", t] => do
      let t ← nat? t
      pure (s.event (.touch t), okS)
  | .list [.atom "rewrite", t] => do
      let t ← nat? t
      pure (s.event (.rewrite t), okS)
  | .list [.atom "delete"] => some (s.event .delete, okS)
  | _ => none

private def storeRun : StoreSt → List SExp → List SExp → Option (List SExp)
  | _, [], acc => some acc.reverse
  | s, op :: ops, acc =>
    match storeStep s op with
    | none => none
    | some (s', a) => storeRun s' ops (.list [a, .list [ofOptNat s'.seen, ofOptNat s'.file]] :: acc)

def busOps : List SExp → Option String
  | [.atom "bus.run", mp, gk, labels, .list ops] => do
      let mp ← optNat? mp; let gk ← bool? gk; let labels ← nats? labels
      let st := StoreSt.init (some 1)
      match (BusSt.fromStore labels mp : Except Err (BusSt Fr)) with
      | .error e => pure (answer (.error e))
      | .ok root =>
        let steps ← busRun gk { st := st, buses := #[root] } ops []
        pure (answer (.ok (.list steps)))
  | [.atom "store.run", file, .list ops] => do
      let file ← optNat? file
      let steps ← storeRun { file := file, seen := none } ops []
      pure (answer (.ok (.list steps)))
  | [.atom "bus.batches", mp, labels] => do
      let mp ← optNat? mp; let labels ← nats? labels
      pure (answer (.ok (ofBatches (storeReaderBatches mp labels))))
  | _ => none

end SF.Drv
