/- Driver ops for SFModel.NA (property C14).

   Cells are integers: 0 = missing, any other value identifies a source cell or a fill value.
   A frame is given as `layout` = `((width is2d) ...)` and `rows` = `((c ...) ...)` (flat rows).
   The frame-level functions below only split rows into blocks, compute the block-level shortcut
   flags the real code derives from the whole block, call the per-line models of SFModel.NA and
   put the lines back together. -/
import SFModel.NA

namespace SF.Drv
open SF SF.NA SExp

namespace NAD

private def isna (x : Int) : Bool := x == 0

private def rows? : SExp → Option (List (List Int))
  | .list rs => rs.mapM ints?
  | _ => none

private def optInts? : SExp → Option (List (Option Int))
  | .list xs => xs.mapM optInt?
  | _ => none

private def optRows? : SExp → Option (List (List (Option Int)))
  | .list rs => rs.mapM optInts?
  | _ => none

/-- layout entries `(width is2d)`; width ≥ 1; a 1-D block has width 1 -/
private def layout? : SExp → Option (List (Nat × Bool))
  | .list bs => bs.mapM fun b =>
      match b with
      | .list [w, d] => do
        let w ← nat? w; let d ← bool? d
        if w = 0 ∨ (!d ∧ w ≠ 1) then none else pure (w, d)
      | _ => none
  | _ => none

private def ofRows (rs : List (List Int)) : SExp := .list (rs.map ofInts)
private def ofBoolRows (rs : List (List Bool)) : SExp := .list (rs.map ofBools)

/-- split one flat row by the layout: `(is2d, cells)` per block; `none` when the widths do not add up -/
private def splitRow {β : Type} : List (Nat × Bool) → List β → Option (List (Bool × List β))
  | [], [] => some []
  | [], _ :: _ => none
  | (w, d) :: rest, row =>
    if row.length < w then none
    else (splitRow rest (row.drop w)).map fun bs => (d, row.take w) :: bs

private def transpose {β : Type} (w : Nat) (rows : List (List β)) : List (List β) :=
  (List.range w).map fun j => rows.filterMap (·[j]?)

/-- per block: does any row have a missing cell in it -/
private def blockAny (split : List (List (Bool × List Int))) (nblocks : Nat) (p : List Int → Bool) : List Bool :=
  (List.range nblocks).map fun k => split.any fun r => match r[k]? with
    | some (_, cells) => p cells
    | none => false

private def toRBlocks (flags : List Bool) (r : List (Bool × List Int)) : Option (List (RBlock Int)) :=
  (r.zip flags).mapM fun ((d, cells), f) =>
    match cells with
    | h :: t => some ⟨!d, f, h, t⟩
    | [] => none

/-- directional fill along axis 1 -/
private def frameDir1 (fwd : Bool) (limit : Nat) (layout : List (Nat × Bool)) (rows : List (List Int)) :
    Option (List (List Int)) := do
  let split ← rows.mapM (splitRow layout)
  let flags := blockAny split layout.length (·.any isna)
  split.mapM fun r => do
    let bs ← toRBlocks flags r
    pure (rowDirAxis1 isna fwd limit bs).flatten

/-- entry flags (`isna_entry[i]`) of one row, block by block in iteration order -/
private def sidedEntries (leading : Bool) (bs : List (RBlock Int)) : List Bool :=
  let it := if leading then bs else bs.reverse
  let res := it.foldl (fun (acc : List Bool × Bool) b =>
      let entry := isna (edgeCell (!leading) b.cells b.hd) && acc.2
      let r := stepSided isna leading 1 acc.2 b
      (acc.1 ++ [entry], r.2)) ([], true)
  if leading then res.1 else res.1.reverse

private def frameSided1 (leading : Bool) (v : Int) (layout : List (Nat × Bool)) (rows : List (List Int)) :
    Option (List (List Int)) := do
  let split ← rows.mapM (splitRow layout)
  let noflags := layout.map fun _ => false
  let rb ← split.mapM (toRBlocks noflags)
  let entries := rb.map (sidedEntries leading)
  let flags := (List.range layout.length).map fun k => entries.any fun e => e[k]? = some true
  split.mapM fun r => do
    let bs ← toRBlocks flags r
    pure (rowSidedAxis1 isna leading v bs).flatten

/-- columns of the frame with (is2d, block index) -/
private def colInfo (layout : List (Nat × Bool)) : List (Bool × Nat) :=
  (layout.zipIdx.map fun ((w, d), k) => List.replicate w (d, k)).flatten

private def frameDir0 (fwd : Bool) (limit : Nat) (layout : List (Nat × Bool)) (rows : List (List Int)) :
    Option (List (List Int)) := do
  let split ← rows.mapM (splitRow layout)
  let flags := blockAny split layout.length (·.any isna)
  let info := colInfo layout
  let cols := transpose info.length rows
  let out := (cols.zip info).map fun (col, (_, k)) => colDirAxis0 isna fwd limit (flags.getD k false) col
  pure (transpose rows.length out)

private def frameSided0 (leading : Bool) (v : Int) (layout : List (Nat × Bool)) (rows : List (List Int)) :
    Option (List (List Int)) := do
  let split ← rows.mapM (splitRow layout)
  -- `sel[sided_index].any()` per block
  let edgeRow := if leading then split.head? else split.getLast?
  let flags := (List.range layout.length).map fun k =>
    match edgeRow with
    | some r => (match r[k]? with | some (_, cells) => cells.any isna | none => false)
    | none => false
  let info := colInfo layout
  let cols := transpose info.length rows
  let out := (cols.zip info).map fun (col, (d, k)) => colSidedAxis0 isna leading v (!d) (flags.getD k false) col
  pure (transpose rows.length out)

private def toBlocks {β : Type} (layout : List (Nat × Bool)) (rows : List (List β)) : Option (List (Block β)) := do
  let split ← rows.mapM (splitRow layout)
  pure ((List.range layout.length).zip layout |>.map fun (k, (_, d)) =>
    ⟨!d, split.filterMap fun r => (r[k]?).map (·.2)⟩)

private def hcatA {β : Type} (n : Nat) (blocks : List (List (List β))) : List (List β) :=
  (List.range n).map fun i => (blocks.filterMap (·[i]?)).flatten

private def frameDropnaD (axis1 condAll : Bool) (layout : List (Nat × Bool)) (rows : List (List Int)) :
    Option (Except Err (List Nat × List Nat)) := do
  let bs ← toBlocks layout rows
  let masks := bs.map (blockIsna isna)
  pure (frameDropna axis1 condAll rows.length (colInfo layout).length masks)

private def frameFillna (v : Int) (grid : Option (List (List (Option Int)))) (layout : List (Nat × Bool))
    (rows : List (List Int)) : Option (List (List Int)) := do
  let bs ← toBlocks layout rows
  match grid with
  | none => pure (hcatA rows.length (bs.map fun b => (blockFillna isna v none b).rows))
  | some g =>
    let gs ← toBlocks layout g
    pure (hcatA rows.length ((bs.zip gs).map fun (b, gb) => (blockFillna isna v (some gb.rows) b).rows))

private def frameFillVals (layout : List (Nat × Bool)) (rows vals : List (List Int)) : Option (List (List Int)) := do
  let split ← rows.mapM (splitRow layout)
  let flags := blockAny split layout.length (·.any isna)
  let info := colInfo layout
  let cols := transpose info.length rows
  let vcols := transpose info.length vals
  let out := ((cols.zip vcols).zip info).map fun ((col, vc), (_, k)) =>
    colFillnaByValues isna (flags.getD k false) vc col
  pure (transpose rows.length out)

end NAD

open NAD in
def nAOps : List SExp → Option String
  | [.atom "na.s.isna", a] => do
      let a ← ints? a
      pure (answer (.ok (.list [ofBools (seriesIsna isna a), ofBools (seriesNotna isna a)])))
  | [.atom "na.s.dropna", a] => do
      let a ← ints? a
      pure (answer (.ok (ofNats (seriesDropna isna a))))
  | [.atom "na.s.fillna", v, a] => do
      let v ← int? v; let a ← ints? a
      pure (answer (.ok (ofInts (seriesFillnaElement isna v a))))
  | [.atom "na.s.fillnas", o, a] => do
      let o ← optInts? o; let a ← ints? a
      if o.length ≠ a.length then none
      else pure (answer (.ok (ofInts (seriesFillnaSeries isna o a))))
  | [.atom "na.s.dir", fwd, limit, a] => do
      let fwd ← bool? fwd; let limit ← nat? limit; let a ← ints? a
      pure (answer (.ok (ofInts (seriesFillDirectional isna fwd limit a))))
  | [.atom "na.s.sided", leading, v, a] => do
      let leading ← bool? leading; let v ← int? v; let a ← ints? a
      pure (answer (.ok (ofInts (seriesFillSided isna leading v a))))
  | [.atom "na.s.count", a] => do
      let a ← ints? a
      pure (answer (.ok (ofNats [seriesCount isna a])))
  | [.atom "na.f.dir", axis, fwd, limit, layout, rows] => do
      let axis ← nat? axis; let fwd ← bool? fwd; let limit ← nat? limit
      let layout ← layout? layout; let rows ← rows? rows
      if axis = 1 then (frameDir1 fwd limit layout rows).map fun r => answer (.ok (ofRows r))
      else if axis = 0 then (frameDir0 fwd limit layout rows).map fun r => answer (.ok (ofRows r))
      else none
  | [.atom "na.f.dirall", maxlimit, layout, rows] => do
      -- all directional fills at once: axis 0 then 1; forward then backward; limit 0..maxlimit
      let maxlimit ← nat? maxlimit; let layout ← layout? layout; let rows ← rows? rows
      let combos := [0, 1].flatMap fun axis => [true, false].flatMap fun fwd =>
        (List.range (maxlimit + 1)).map fun limit => (axis, fwd, limit)
      let outs ← combos.mapM fun (axis, fwd, limit) =>
        if axis = 1 then frameDir1 fwd limit layout rows else frameDir0 fwd limit layout rows
      pure (answer (.ok (.list (outs.map ofRows))))
  | [.atom "na.f.sided", axis, leading, v, layout, rows] => do
      let axis ← nat? axis; let leading ← bool? leading; let v ← int? v
      let layout ← layout? layout; let rows ← rows? rows
      if axis = 1 then (frameSided1 leading v layout rows).map fun r => answer (.ok (ofRows r))
      else if axis = 0 then (frameSided0 leading v layout rows).map fun r => answer (.ok (ofRows r))
      else none
  | [.atom "na.f.isna", layout, rows] => do
      let layout ← layout? layout; let rows ← rows? rows
      let bs ← toBlocks layout rows
      pure (answer (.ok (.list [ofBoolRows (hcatA rows.length (bs.map fun b => (blockIsna isna b).rows)),
                               ofBoolRows (hcatA rows.length (bs.map fun b => (blockNotna isna b).rows))])))
  | [.atom "na.f.dropna", axis, condAll, layout, rows] => do
      let axis ← nat? axis; let condAll ← bool? condAll
      let layout ← layout? layout; let rows ← rows? rows
      if axis > 1 then none
      else (frameDropnaD (axis = 1) condAll layout rows).map fun r =>
        answer (r.map fun (rp, cp) => .list [ofNats rp, ofNats cp])
  | [.atom "na.f.fillna", v, layout, rows] => do
      let v ← int? v; let layout ← layout? layout; let rows ← rows? rows
      (frameFillna v none layout rows).map fun r => answer (.ok (ofRows r))
  | [.atom "na.f.fillnag", layout, rows, grid] => do
      let layout ← layout? layout; let rows ← rows? rows; let grid ← optRows? grid
      if grid.length ≠ rows.length then none
      else (frameFillna 0 (some grid) layout rows).map fun r => answer (.ok (ofRows r))
  | [.atom "na.f.fillvals", layout, rows, vals] => do
      let layout ← layout? layout; let rows ← rows? rows; let vals ← rows? vals
      if vals.length ≠ rows.length then none
      else (frameFillVals layout rows vals).map fun r => answer (.ok (ofRows r))
  | [.atom "na.f.count", rows] => do
      let rows ← rows? rows
      pure (answer (.ok (ofNats (rows.map (lineCount isna)))))
  | _ => none

end SF.Drv
