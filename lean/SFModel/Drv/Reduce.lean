/- Driver ops for SFModel.Reduce (C15).

   cells:  an integer, or N (missing)
   tb:     (tb <rows> (d1 <isBool 0/1> c c ...) (d2 <isBool> (c c ...) (c c ...)) ...)   column-major
   fns:    sum prod min max all any   (exact integer arithmetic; all/any take 0/1 cells)
-/
import SFModel.Reduce

namespace SF.Drv
open SF SExp SF.Reduce

private def cell? : SExp → Option (Option Int)
  | .atom "N" => some none
  | .atom s => s.toInt?.map some
  | _ => none

private def cellsL? : List SExp → Option (List (Option Int)) := fun xs => xs.mapM cell?

private def ofCell : Option Int → SExp
  | none => .atom "N"
  | some i => .atom (toString i)

private def ofCells (l : List (Option Int)) : SExp := .list (l.map ofCell)

private def rblock? : SExp → Option (RBlock Int)
  | .list (.atom "d1" :: b :: cs) => do pure (.d1 (← bool? b) (← cellsL? cs))
  | .list (.atom "d2" :: b :: cols) => do
      let cols ← cols.mapM (fun c => match c with | .list xs => cellsL? xs | _ => none)
      pure (.d2 (← bool? b) cols)
  | _ => none

private def rtb? : SExp → Option (RTB Int)
  | .list (.atom "tb" :: n :: bs) => do pure ⟨← nat? n, ← bs.mapM rblock?⟩
  | _ => none

private def fn? : SExp → Option Fn
  | .atom "all" => some .all | .atom "any" => some .any | .atom "sum" => some .sum
  | .atom "min" => some .min | .atom "max" => some .max | .atom "mean" => some .mean
  | .atom "median" => some .median | .atom "std" => some .std | .atom "var" => some .var
  | .atom "prod" => some .prod | .atom "cumsum" => some .cumsum | .atom "cumprod" => some .cumprod
  | _ => none

/-- the integer instances of the ufunc pairs -/
private def redOf : Fn → Option (Red Int)
  | .sum => some ⟨(· + ·), some 0, false⟩
  | .prod => some ⟨(· * ·), some 1, false⟩
  | .min => some ⟨min, none, false⟩
  | .max => some ⟨max, none, false⟩
  | .all => some ⟨min, some 1, true⟩      -- on 0/1 cells
  | .any => some ⟨max, some 0, true⟩
  | _ => none

private def ofOptNat : Option Nat → SExp
  | none => .atom "N"
  | some i => .atom (toString i)

private def lines? : SExp → Option (List (List (Option Int)))
  | .list ls => ls.mapM (fun c => match c with | .list xs => cellsL? xs | _ => none)
  | _ => none

def reduceOps : List SExp → Option String
  | [.atom "reduce.axis", fn, sk, ax, tb] => do
      let fn ← fn? fn; let sk ← bool? sk; let ax ← nat? ax; let tb ← rtb? tb
      let r ← redOf fn
      pure (answer ((ufuncAxisSkipna r.apply (desc fn) sk ax tb).map ofCells))
  | [.atom "reduce.ref", fn, sk, ax, tb] => do
      let fn ← fn? fn; let sk ← bool? sk; let ax ← nat? ax; let tb ← rtb? tb
      let r ← redOf fn
      pure (answer ((if ax = 0 then perColumn r.apply sk tb else perRow r.apply sk tb).map ofCells))
  | [.atom "reduce.desc", fn] => do
      let fn ← fn? fn
      let d := desc fn
      pure (answer (.ok (.list [ofBool d.composable, ofBool d.sizeOneUnity,
        .atom (match d.dtypes with | .rowDtype => "row" | .bool => "bool" | .inexact => "inexact" | .float => "float")])))
  | [.atom "reduce.cum", fn, sk, ax, tb] => do
      let fn ← fn? fn; let sk ← bool? sk; let ax ← nat? ax; let tb ← rtb? tb
      let (op, e) ← (match fn with
        | .cumsum => some ((· + ·), (0 : Int))
        | .cumprod => some ((· * ·), (1 : Int))
        | _ => none : Option ((Int → Int → Int) × Int))
      pure (answer (.ok (.list ((cumFrame op e sk ax tb).map ofCells))))
  | [.atom "reduce.logical", .atom which, .atom kind, sk, .list xs] => do
      let sk ← bool? sk; let xs ← cellsL? xs
      let isAll ← (match which with | "all" => some true | "any" => some false | _ => none)
      let kind ← (match kind with
        | "b" => some LKind.b | "int" => some LKind.int | "str" => some LKind.str
        | "inexact" => some LKind.inexact | "nat" => some LKind.nat | "obj" => some LKind.obj | _ => none)
      pure (answer ((logicalSkipna isAll kind sk (xs.map (·.map (· != 0)))).map ofBool))
  | [.atom "reduce.arg2d", .atom which, sk, ls] => do
      let sk ← bool? sk; let ls ← lines? ls
      let better : Int → Int → Bool ← (match which with
        | "min" => some (fun a b => decide (a < b))
        | "max" => some (fun a b => decide (a > b))
        | _ => none)
      pure (answer ((argBest2d better sk ls).map fun l => .list (l.map ofOptNat)))
  | [.atom "reduce.arg1d", .atom which, sk, .list xs] => do
      let sk ← bool? sk; let xs ← cellsL? xs
      let better : Int → Int → Bool ← (match which with
        | "min" => some (fun a b => decide (a < b))
        | "max" => some (fun a b => decide (a > b))
        | _ => none)
      pure (answer ((argBest1d better sk xs).map ofOptNat))
  | _ => none

end SF.Drv
