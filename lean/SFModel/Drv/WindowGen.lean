/- Driver ops for the window skeleton translated from the source (SFModel.Gen.Window) and for the two
   primitives of SFModel.WindowSem. -/
import SFModel.Gen.Window

namespace SF.Drv
open SF SExp

private def ofWins3 (ws : List (Nat × Nat × Nat)) : SExp :=
  .list (ws.map fun w => ofNats [w.1, w.2.1, w.2.2])

/-- the `window_valid` argument: `-` = None, `N` = a callback accepting everything, `q` = a callback
    rejecting every window that contains position `q` -/
private def windowValid? : SExp → Option (Option (Nat → Nat → Bool))
  | .atom "-" => some none
  | .atom "N" => some (some fun _ _ => true)
  | .atom s => s.toInt?.map fun q => some fun lo len => !(decide ((lo : Int) ≤ q) && decide (q < (lo : Int) + len))
  | _ => none

def windowGenOps : List SExp → Option String
  | [.atom "wgen.items", fuel, n, size, step, sized, ls, ss, inc, wv] => do
      let fuel ← nat? fuel; let n ← nat? n; let size ← int? size; let step ← int? step; let sized ← bool? sized
      let ls ← int? ls; let ss ← int? ss; let inc ← int? inc; let wv ← windowValid? wv
      pure (answer ((Gen.Window.axis_window_items fuel n size step sized wv ls ss inc).map ofWins3))
  | [.atom "wgen.init", n, size, step, ss] => do
      let n ← nat? n; let size ← int? size; let step ← int? step; let ss ← int? ss
      pure (answer ((Gen.Window.axis_window_items_init n size step true none 0 ss 0).map
        fun r => ofInts [r.1, r.2.1, r.2.2.1, r.2.2.2]))
  | [.atom "wgen.defaults"] =>
      let d := Gen.Window.axis_window_items_defaults
      pure (answer (.ok (.list [ofInts [d.1], ofBool d.2.1, ofInts [d.2.2.1, d.2.2.2.1, d.2.2.2.2.1], ofBool d.2.2.2.2.2])))
  | [.atom "wsem.iloc", n, i] => do
      let n ← nat? n; let i ← int? i
      pure (answer (match WindowSem.ilocPos n i with
        | some p => .ok (.atom (toString p))
        | none => .error .lookup))
  | [.atom "wsem.slice", a, b, n] => do
      let a ← int? a; let b ← int? b; let n ← nat? n
      let w := WindowSem.sliceWindow a b n
      pure (answer (.ok (ofNats [w.1, w.2])))
  | _ => none

end SF.Drv
