/- Driver ops for SFModel.Order (sorting).  Values on the wire are atoms:
     i:<int>  b:<0|1>  q:<int> (a float given in quarter units)  s:"text"  nan  anything else (opaque)
   `leAtom` orders them like NumPy orders the arrays the harness derives them from:
   numbers by value (i:1 = b:1 = q:4), strings by code point, NaN last. -/
import SFModel.Order

namespace SF.Drv
open SF SExp SF.Order

inductive KV
  | num (q : Int)
  | str (s : String)
  | nan
  | other (s : String)

def parseKV (a : String) : KV :=
  if a == "nan" then .nan else
  match a.toList with
  | 'i' :: ':' :: r => match (String.ofList r).toInt? with | some i => .num (4 * i) | none => .other a
  | 'b' :: ':' :: r => match (String.ofList r).toInt? with | some i => .num (4 * i) | none => .other a
  | 'q' :: ':' :: r => match (String.ofList r).toInt? with | some i => .num i | none => .other a
  | 's' :: ':' :: '"' :: r => .str (String.ofList r.dropLast)
  | _ => .other a

def KV.rank : KV → Nat
  | .num _ => 0 | .str _ => 1 | .other _ => 2 | .nan => 3

def leKV : KV → KV → Bool
  | .num a, .num b => decide (a ≤ b)
  | .str a, .str b => decide (a ≤ b)
  | .other a, .other b => decide (a ≤ b)
  | a, b => decide (a.rank ≤ b.rank)

/-- the comparison the driver instantiates the model with -/
def leAtom (a b : String) : Bool := leKV (parseKV a) (parseKV b)

def sortKeys? : SExp → Option (SortKeys String)
  | .list (.atom "single" :: xs) => (xs.mapM atom?).map .single
  | .list (.atom "multi" :: cs) => (cs.mapM atoms?).map .multi
  | _ => none

def optSortKeys? : SExp → Option (Option (SortKeys String))
  | .atom "N" => some none
  | e => (sortKeys? e).map some

def labels? : SExp → Option (List (Label String))
  | .list ls => ls.mapM atoms?
  | _ => none

def ofLabels (ls : List (Label String)) : SExp := .list (ls.map ofAtoms)

def frame? : SExp → Option (Frame String)
  | .list [.atom "frame", .atom name, .list (.atom "index" :: ix), .list (.atom "columns" :: cs),
           .list (.atom "dtypes" :: ds), .list (.atom "rows" :: rs)] => do
      let ix ← ix.mapM atoms?; let cs ← cs.mapM atoms?; let ds ← ds.mapM atom?; let rs ← rs.mapM atoms?
      pure ⟨name, ix, cs, ds, rs⟩
  | _ => none

def ofFrame (f : Frame String) : SExp :=
  .list [.atom "frame", .atom f.name, .list (.atom "index" :: f.index.map ofAtoms),
         .list (.atom "columns" :: f.columns.map ofAtoms), .list (.atom "dtypes" :: f.dtypes.map .atom),
         .list (.atom "rows" :: f.rows.map ofAtoms)]

def series? : SExp → Option (Series String)
  | .list [.atom "series", .atom name, .list (.atom "index" :: ix), .list (.atom "values" :: vs)] => do
      let ix ← ix.mapM atoms?; let vs ← vs.mapM atom?
      pure ⟨name, ix, vs⟩
  | _ => none

def ofSeries (s : Series String) : SExp :=
  .list [.atom "series", .atom s.name, .list (.atom "index" :: s.index.map ofAtoms),
         .list (.atom "values" :: s.values.map .atom)]

def orderOps : List SExp → Option String
  | [.atom "order.argsort", ks] => do
      let ks ← atoms? ks
      pure (answer (.ok (ofNats (argsortStable leAtom ks))))
  | [.atom "order.lexsort", .list cs, n] => do
      let cs ← cs.mapM atoms?; let n ← nat? n
      if cs.any (fun c => c.length ≠ n) then none else
      pure (answer (.ok (ofNats (lexsort leAtom cs n))))
  | [.atom "order.sifo", n, cfs, asc] => do
      let n ← nat? n; let cfs ← sortKeys? cfs; let asc ← bool? asc
      pure (answer ((sortIndexForOrder leAtom n cfs asc).map ofNats))
  | [.atom "order.frame", .atom m, asc, sel, key, f] => do
      let asc ← bool? asc; let sel ← nats? sel; let key ← optSortKeys? key; let f ← frame? f
      let r ← match m with
        | "sort_index" => some (f.sortIndex leAtom asc key)
        | "sort_columns" => some (f.sortColumns leAtom asc key)
        | "sort_values_rows" => some (f.sortValuesRows leAtom sel asc key)
        | "sort_values_cols" => some (f.sortValuesCols leAtom sel asc key)
        | _ => none
      pure (answer (r.map ofFrame))
  | [.atom "order.series", .atom m, asc, key, s] => do
      let asc ← bool? asc; let key ← optSortKeys? key; let s ← series? s
      match m with
      | "sort_index" => pure (answer ((s.sortIndex leAtom asc key).map ofSeries))
      | "sort_values" =>
        let k ← match key with
          | none => some none
          | some (.single v) => some (some v)
          | some (.multi _) => none
        pure (answer (.ok (ofSeries (s.sortValues leAtom asc k))))
      | _ => none
  | [.atom "order.index", asc, key, ls] => do
      let asc ← bool? asc; let key ← optSortKeys? key; let ls ← labels? ls
      pure (answer ((indexSort leAtom ls asc key).map ofLabels))
  | _ => none

end SF.Drv
