/- Driver ops for SFModel.Group (keys are atoms compared with `leAtom`, see Drv/Order.lean). -/
import SFModel.Group
import SFModel.Drv.Order

namespace SF.Drv
open SF SExp SF.Group

private def ofGroups (gs : List (String × List Nat)) : SExp :=
  .list (gs.map fun g => .list [.atom g.1, ofNats g.2])

def groupOps : List SExp → Option String
  | [.atom "group.generic", ks] => do
      let ks ← atoms? ks
      pure (answer (.ok (ofGroups (groupGeneric leAtom ks))))
  | [.atom "group.sort", ks] => do
      let ks ← atoms? ks
      pure (answer ((groupSort leAtom ks).map ofGroups))
  | [.atom "group.loc", cd, idp, multi, obj, ks] => do
      let cd ← nat? cd; let idp ← nat? idp; let multi ← bool? multi; let obj ← bool? obj; let ks ← atoms? ks
      pure (answer ((groupLoc leAtom (useFastPath cd idp multi obj) ks).map ofGroups))
  | [.atom "group.spec", ks] => do
      let ks ← atoms? ks
      pure (answer (.ok (ofGroups (groupSpec leAtom ks))))
  | [.atom "group.locations", ks] => do
      let ks ← atoms? ks
      let gl := groupsAndLocations leAtom ks
      pure (answer (.ok (.list [ofAtoms gl.1, ofNats gl.2])))
  | [.atom "group.apply_len", ks] => do
      let ks ← atoms? ks
      pure (answer ((applyGroups (fun rows => rows.length) (groupGeneric leAtom ks)).map
        fun items => .list (items.map fun it => .list [.atom it.1, .atom (toString it.2)])))
  | _ => none

end SF.Drv
