/- Driver ops for the grow-only model. -/
import SFModel.FrameGO
import SFModel.Drv.Blocks

namespace SF.Drv
open SF SExp

private def gval? : SExp → Option (GVal String)
  | .atom "F" => some none
  | .list xs => (xs.mapM atom?).map some
  | _ => none

private def gop? : SExp → Option (GOp String)
  | .list [.atom "setitem", .atom k, v] => (gval? v).map (.setitem k)
  | .list [.atom "extseries", .atom k, .list vs] => (vs.mapM atom?).map (.extendSeries k)
  | .list [.atom "extframe", .list ls, .list bs] => do
      let ls ← ls.mapM atom?; let bs ← bs.mapM block?
      pure (.extendFrame ls bs)
  | .list [.atom "extitems", .list ps] => do
      let ps ← ps.mapM fun p => match p with
        | .list [.atom k, v] => (gval? v).map fun g => (k, g)
        | _ => none
      pure (.extendItems ps)
  | _ => none

private def cref? : SExp → Option CRef
  | .list [c, d, g] => do
      let c ← nat? c; let d ← nat? d; let g ← bool? g
      pure ⟨c, d, g⟩
  | _ => none

def frameGOOps : List SExp → Option String
  | [.atom "go.run", n, .list ls, t, .list ops] => do
      let n ← nat? n; let ls ← ls.mapM atom?; let t ← tb? t; let ops ← ops.mapM gop?
      let step := fun (acc : GO String × List SExp) (op : GOp String) =>
        let (s', e) := acc.1.step op
        (s', acc.2 ++ [SExp.list [.atom (match e with | none => "ok" | some _ => "err"), ofAtoms s'.labels,
          .atom (toString s'.data.ncols), ofAtoms (s'.data.cols.map fun c => " ".intercalate c |> fun _ => toString c.length)]])
      let (_, outs) := ops.foldl step ((⟨ls, t, n⟩ : GO String), [])
      pure (answer (.ok (.list outs)))
  | [.atom "go.unique", .list cs] => do
      let cs ← cs.mapM cref?
      pure (answer (.ok (ofBool (uniqueB cs))))
  | [.atom "idx.extend", .list ls, .list ks] => do
      let ls ← ls.mapM atom?; let ks ← ks.mapM atom?
      let (l', e) := idxExtend ls ks
      pure (answer (.ok (.list [.atom (match e with | none => "ok" | some _ => "err"), ofAtoms l'])))
  | _ => none

end SF.Drv
