/- Driver ops for SFModel.DType (C07).

   dtype atoms:  bool  i:64  u:8  f:32  c:128  U:3  S:4  M:D  m:ns  M:generic  O
   values:       none nan natD natT (b 1) (i -5) (f 32 0) (c 128 0) (s 3 0) (y 2 0) (dt D 5) (td s 5) (t 0)
   elements:     nanS none (tuple 0) (np <dtype> <value>) (py <value>)
   classes of prepare_iter_for_array: tuple enum str inexact bigint other
-/
import SFModel.DType

namespace SF.Drv
open SF SExp

private def unit? : String → Option TUnit
  | "generic" => some .generic | "Y" => some .Y | "M" => some .M | "W" => some .W | "D" => some .D
  | "h" => some .h | "m" => some .m | "s" => some .s | "ms" => some .ms | "us" => some .us
  | "ns" => some .ns | _ => none

private def unitStr : TUnit → String
  | .generic => "generic" | .Y => "Y" | .M => "M" | .W => "W" | .D => "D" | .h => "h" | .m => "m"
  | .s => "s" | .ms => "ms" | .us => "us" | .ns => "ns"

private def dtype? : SExp → Option DType
  | .atom "bool" => some .bool
  | .atom "O" => some .obj
  | .atom s =>
    match s.splitOn ":" with
    | ["i", w] => w.toNat?.map .int
    | ["u", w] => w.toNat?.map .uint
    | ["f", w] => w.toNat?.map .float
    | ["c", w] => w.toNat?.map .complex
    | ["U", n] => n.toNat?.map .str
    | ["S", n] => n.toNat?.map .bytes
    | ["M", u] => (unit? u).map .dt
    | ["m", u] => (unit? u).map .td
    | _ => none
  | _ => none

private def dtypeStr : DType → String
  | .bool => "bool" | .obj => "O"
  | .int w => s!"i:{w}" | .uint w => s!"u:{w}" | .float w => s!"f:{w}" | .complex w => s!"c:{w}"
  | .str n => s!"U:{n}" | .bytes n => s!"S:{n}"
  | .dt u => "M:" ++ unitStr u | .td u => "m:" ++ unitStr u

private def ofDType (d : DType) : SExp := .atom (dtypeStr d)

private def kind? : SExp → Option Kind
  | .atom "b" => some .b | .atom "i" => some .i | .atom "u" => some .u | .atom "f" => some .f
  | .atom "c" => some .c | .atom "U" => some .U | .atom "S" => some .S | .atom "M" => some .M
  | .atom "m" => some .m | .atom "O" => some .O | _ => none

private def value? : SExp → Option V
  | .atom "none" => some .none
  | .atom "nan" => some .nan
  | .atom "natD" => some .natD
  | .atom "natT" => some .natT
  | .list [.atom "b", b] => (bool? b).map .bool
  | .list [.atom "i", n] => (int? n).map .int
  | .list [.atom "f", w, i] => do pure (.flt (← nat? w) (← nat? i))
  | .list [.atom "c", w, i] => do pure (.cplx (← nat? w) (← nat? i))
  | .list [.atom "s", w, i] => do pure (.str (← nat? w) (← nat? i))
  | .list [.atom "y", w, i] => do pure (.bytes (← nat? w) (← nat? i))
  | .list [.atom "dt", .atom u, t] => do pure (.dt (← unit? u) (← int? t))
  | .list [.atom "td", .atom u, t] => do pure (.td (← unit? u) (← int? t))
  | .list [.atom "t", i] => (nat? i).map .tuple
  | _ => none

private def ofValue : V → SExp
  | .none => .atom "none" | .nan => .atom "nan" | .natD => .atom "natD" | .natT => .atom "natT"
  | .bool b => .list [.atom "b", ofBool b]
  | .int n => .list [.atom "i", .atom (toString n)]
  | .flt w i => .list [.atom "f", .atom (toString w), .atom (toString i)]
  | .cplx w i => .list [.atom "c", .atom (toString w), .atom (toString i)]
  | .str w i => .list [.atom "s", .atom (toString w), .atom (toString i)]
  | .bytes w i => .list [.atom "y", .atom (toString w), .atom (toString i)]
  | .dt u t => .list [.atom "dt", .atom (unitStr u), .atom (toString t)]
  | .td u t => .list [.atom "td", .atom (unitStr u), .atom (toString t)]
  | .tuple i => .list [.atom "t", .atom (toString i)]
  | .garbage _ => .atom "garbage"

private def elem? : SExp → Option Elem
  | .atom "nanS" => some .nanSingleton
  | .atom "none" => some .none
  | .list [.atom "tuple", i] => (nat? i).map .tuple
  | .list [.atom "np", d, v] => do pure (.npScalar (← dtype? d) (← value? v))
  | .list [.atom "py", v] => (value? v).map .py
  | _ => none

private def ofElem : Elem → SExp
  | .nanSingleton => .atom "nanS"
  | .none => .atom "none"
  | .tuple i => .list [.atom "tuple", .atom (toString i)]
  | .npScalar d v => .list [.atom "np", ofDType d, ofValue v]
  | .py v => .list [.atom "py", ofValue v]

private def cls? : SExp → Option ECls
  | .atom "tuple" => some .tupleLike | .atom "enum" => some .enum | .atom "str" => some .str
  | .atom "inexact" => some .inexact | .atom "bigint" => some .bigInt | .atom "other" => some .other
  | _ => none

private def arr? : SExp → Option Arr
  | .list (d :: vs) => do pure ⟨← dtype? d, ← vs.mapM value?⟩
  | _ => none

private def ofArr (a : Arr) : SExp := .list (ofDType a.dt :: a.vals.map ofValue)

private def dtypes? : SExp → Option (List DType)
  | .list xs => xs.mapM dtype?
  | _ => none

private def optDType? : SExp → Option (Option DType)
  | .atom "N" => some none
  | e => (dtype? e).map some

def dTypeOps : List SExp → Option String
  | [.atom "dtype.resolve", a, b] => do
      let a ← dtype? a; let b ← dtype? b
      pure (answer ((resolveE a b).map ofDType))
  | [.atom "dtype.rt", a, b] => do
      let a ← dtype? a; let b ← dtype? b
      pure (match resultType a b with
        | .ok d => answer (.ok (ofDType d))
        | .typeError => answer (.error .value)
        | .untabulated => "ok untabulated")
  | [.atom "dtype.iter", ds] => do
      let ds ← dtypes? ds
      pure (match resolveIter ds with
        | some d => answer (.ok (ofDType d))
        | none => answer (.error .other))        -- StopIteration
  | [.atom "dtype.concat", ds] => do
      let ds ← dtypes? ds
      pure (match ds with
        | [] => answer (.error .other)
        | d :: ds => answer (.ok (ofDType (concatDType d ds))))
  | [.atom "dtype.elem", e] => do
      let e ← elem? e
      pure (answer (.ok (ofDType (dtypeFromElement e))))
  | [.atom "dtype.na", k] => do
      let k ← kind? k
      pure (answer (.ok (ofElem (kindToNa k))))
  | [.atom "dtype.fillvalue", d] => do
      let d ← dtype? d
      pure (match dtypeToFillValue d with
        | some e => answer (.ok (ofElem e))
        | none => answer (.error .other))
  | [.atom "dtype.fullfill", d, e] => do
      let d ← optDType? d; let e ← elem? e
      pure (answer (.ok (ofArr (fullForFill d 1 e))))
  | [.atom "dtype.holds", d, v] => do
      let d ← dtype? d; let v ← value? v
      pure (answer (.ok (ofBool (holdsB d v))))
  | [.atom "dtype.merge", .list parts] => do
      let parts ← parts.mapM arr?
      pure (match mergeWrite parts with
        | some a => answer (.ok (ofArr a))
        | none => answer (.error .other))
  | [.atom "dtype.prepare", .list cs] => do
      let cs ← cs.mapM cls?
      let r := prepareIter cs
      pure (answer (.ok (ofBools [r.1, r.2])))
  | _ => none

end SF.Drv
