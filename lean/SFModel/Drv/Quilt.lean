/- Driver ops for SFModel.Quilt (Quilt and Batch models).

   wire formats
     bus    : ((label (axis labels…) (opposite labels…) ((cell…) …)) …)      cells / labels are atoms
     key    : as in Drv/Slice (`(all)`, `(int i)`, `(sl a b c)`, `(list …)`, `(mask …)`)
     result : (selReduced oppReduced (labels…) (opposite labels…) ((cell…) …)); a retained label is `(b l)`
     batch  : ((label (F (axis labels…) (opposite labels…) ((cell…) …))) | (label (S (index…) (values…))) …)
              cells of a batch are integers or `N` (missing)
     stage  : (s bop) strict | (x bop) apply_except | (p bop) pool | (px bop) pool + apply_except
     bop    : (iloc key key) | (head n) | (add k) | (mul k) | (neg) | (fillna k) | (dropna) | (sum axis skipna)
              | (count axis) | (isna)
-/
import SFModel.Quilt
import SFModel.Drv.Slice

namespace SF.Drv
open SF SExp SF.Quilt

private def qframe? : SExp → Option (String × MFrame String String String)
  | .list [.atom b, ls, os, .list rows] => do
      let ls ← atoms? ls; let os ← atoms? os
      let lines ← rows.mapM atoms?
      if lines.length ≠ ls.length then none
      else if !lines.all (fun ln => ln.length == os.length) then none
      else pure (b, ⟨ls, os, lines⟩)
  | _ => none

private def qbus? : SExp → Option (Bus String String)
  | .list xs => xs.mapM qframe?
  | _ => none

private def ofQLabel : QLabel String → SExp
  | .flat l => .atom l
  | .pair b l => .list [.atom b, .atom l]

private def ofSel (s : Sel String String) : SExp :=
  .list [ofBool s.selReduced, ofBool s.oppReduced, .list (s.labels.map ofQLabel), ofAtoms s.opp,
         .list (s.lines.map ofAtoms)]

private def ofQFrame (f : MFrame (QLabel String) String String) : SExp :=
  .list [.list (f.labels.map ofQLabel), ofAtoms f.opp, .list (f.lines.map ofAtoms)]

/-! batch values: `Option Int` (none = NaN) -/

private abbrev BV := Option Int

private def bv? : SExp → Option BV
  | .atom "N" => some none
  | .atom s => s.toInt?.map some
  | _ => none

private def ofBV : BV → SExp
  | none => .atom "N"
  | some i => .atom (toString i)

private def bitem? : SExp → Option (Item String BV)
  | .list [.atom "F", ls, os, .list rows] => do
      let ls ← atoms? ls; let os ← atoms? os
      let lines ← rows.mapM (fun r => match r with | .list cs => cs.mapM bv? | _ => none)
      if lines.length ≠ ls.length then none
      else if !lines.all (fun ln => ln.length == os.length) then none
      else pure (.frame ⟨ls, os, lines⟩)
  | .list [.atom "S", ix, .list vs] => do
      let ix ← atoms? ix; let vs ← vs.mapM bv?
      if ix.length ≠ vs.length then none else pure (.series ix vs)
  | _ => none

private def batch? : SExp → Option (List (String × Item String BV))
  | .list xs => xs.mapM (fun x => match x with
        | .list [.atom l, it] => (bitem? it).map (fun i => (l, i))
        | _ => none)
  | _ => none

private def ofItem : Item String BV → SExp
  | .frame f => .list [.atom "F", ofAtoms f.labels, ofAtoms f.opp, .list (f.lines.map fun ln => .list (ln.map ofBV))]
  | .series ix vs => .list [.atom "S", ofAtoms ix, .list (vs.map ofBV)]

private def ofItems (l : List (String × Item String BV)) : SExp :=
  .list (l.map fun p => .list [.atom p.1, ofItem p.2])

/-- transpose of a rectangular list of lines with `m` cells each -/
private def columnsOf {β} (lines : List (List β)) (m : Nat) : List (List β) :=
  (List.range m).map (fun j => lines.filterMap (fun ln => ln[j]?))

private def sumBV (skipna : Bool) (vs : List BV) : BV :=
  if skipna then some ((vs.filterMap id).foldl (· + ·) 0)
  else vs.foldl (fun acc v => match acc, v with | some a, some b => some (a + b) | _, _ => none) (some 0)

/-- the Frame operations the Batch correspondence uses (reference semantics of the Frame methods on
    float64 data holding integers and NaN) -/
private def bop? : SExp → Option (Item String BV → Except Err (Item String BV))
  | .list [.atom "iloc", rk, ck] => do
      let rk ← key? rk; let ck ← key? ck
      pure (fun it => match it with
        | .series _ _ => .error .value
        | .frame f =>
          match rk.positions f.labels.length, ck.positions f.opp.length with
          | .error e, _ => .error e
          | _, .error e => .error e
          | .ok ps, .ok os =>
            if !decide ps.Nodup || !decide os.Nodup then .error .nonUnique else
            let lines := (pick f.lines ps).map (fun ln => pick ln os)
            match rk.isMulti, ck.isMulti with
            | true, true => .ok (.frame ⟨pick f.labels ps, pick f.opp os, lines⟩)
            | false, true => match lines with
              | [ln] => .ok (.series (pick f.opp os) ln)
              | _ => .error .lookup
            | true, false => .ok (.series (pick f.labels ps) lines.flatten)
            | false, false => .error .value)        -- an element: Batch wraps it (not modelled)
  | .list [.atom "head", n] => do
      let n ← nat? n
      pure (fun it => match it with
        | .frame f => .ok (.frame ⟨f.labels.take n, f.opp, f.lines.take n⟩)
        | .series ix vs => .ok (.series (ix.take n) (vs.take n)))
  | .list [.atom "add", k] => do
      let k ← int? k
      pure (fun it => match it with
        | .frame f => .ok (.frame { f with lines := f.lines.map (·.map (·.map (· + k))) })
        | .series ix vs => .ok (.series ix (vs.map (·.map (· + k)))))
  | .list [.atom "mul", k] => do
      let k ← int? k
      pure (fun it => match it with
        | .frame f => .ok (.frame { f with lines := f.lines.map (·.map (·.map (· * k))) })
        | .series ix vs => .ok (.series ix (vs.map (·.map (· * k)))))
  | .list [.atom "neg"] =>
      pure (fun it => match it with
        | .frame f => .ok (.frame { f with lines := f.lines.map (·.map (·.map (fun v => -v))) })
        | .series ix vs => .ok (.series ix (vs.map (·.map (fun v => -v)))))
  | .list [.atom "fillna", k] => do
      let k ← int? k
      pure (fun it => match it with
        | .frame f => .ok (.frame { f with lines := f.lines.map (·.map (fun v => some (v.getD k))) })
        | .series ix vs => .ok (.series ix (vs.map (fun v => some (v.getD k)))))
  | .list [.atom "isna"] =>
      pure (fun it => match it with
        | .frame f => .ok (.frame { f with lines := f.lines.map (·.map (fun v => some (if v.isNone then 1 else 0))) })
        | .series ix vs => .ok (.series ix (vs.map (fun v => some (if v.isNone then 1 else 0)))))
  | .list [.atom "dropna"] =>
      -- Frame.dropna(axis=0, condition=np.all): drop the rows that are entirely missing
      pure (fun it => match it with
        | .frame f =>
          let keep := f.lines.map (fun ln => !(ln.all (·.isNone)) || ln.isEmpty)
          .ok (.frame ⟨maskSelect f.labels keep, f.opp, maskSelect f.lines keep⟩)
        | .series ix vs =>
          let keep := vs.map (·.isSome)
          .ok (.series (maskSelect ix keep) (maskSelect vs keep)))
  | .list [.atom "sum", ax, sk] => do
      let ax ← nat? ax; let sk ← bool? sk
      pure (fun it => match it with
        | .frame f =>
          if ax = 0 then .ok (.series f.opp ((columnsOf f.lines f.opp.length).map (sumBV sk)))
          else if ax = 1 then .ok (.series f.labels (f.lines.map (sumBV sk)))
          else .error .value
        | .series _ _ => .error .value)
  | .list [.atom "count", ax] => do
      let ax ← nat? ax
      let cnt : List BV → BV := fun vs => some (vs.filterMap id).length
      pure (fun it => match it with
        | .frame f =>
          if ax = 0 then .ok (.series f.opp ((columnsOf f.lines f.opp.length).map cnt))
          else if ax = 1 then .ok (.series f.labels (f.lines.map cnt))
          else .error .value
        | .series _ _ => .error .value)
  | _ => none

/-- `(s op)` strict, `(x op)` apply_except, `(p op)` pool -/
private def stage? : SExp → Option (Stage String BV)
  | .list [.atom "s", op] => (bop? op).map .strict
  | .list [.atom "x", op] => (bop? op).map .except
  | .list [.atom "p", op] => (bop? op).map .pool
  | .list [.atom "px", op] => (bop? op).map .poolExcept
  | _ => none

/-- `slice(None, None, None)` is the null slice `Key.all` -/
private def qkey? (e : SExp) : Option Key :=
  match key? e with
  | some (.slice ⟨none, none, none⟩) => some .all
  | r => r

def quiltOps : List SExp → Option String
  | [.atom "quilt.init", r, bus] => do
      let r ← bool? r; let bus ← qbus? bus
      pure (answer ((Quilt.init bus r).map fun q =>
        .list [.atom (toString q.shape.1), .atom (toString q.shape.2), .list (q.labels.map ofQLabel), ofAtoms q.opp]))
  | [.atom "quilt.extract", r, bus, sk, ok] => do
      let r ← bool? r; let bus ← qbus? bus; let sk ← qkey? sk; let ok ← qkey? ok
      pure (answer (match Quilt.init bus r with
        | .error e => .error e
        | .ok q => (q.extract sk ok).map ofSel))
  | [.atom "quilt.spec", r, bus, sk, ok] => do
      let r ← bool? r; let bus ← qbus? bus; let sk ← qkey? sk; let ok ← qkey? ok
      pure (answer ((specExtract (concatSpec r bus) sk ok).map ofSel))
  | [.atom "quilt.concat", r, bus] => do
      let r ← bool? r; let bus ← qbus? bus
      pure (answer (.ok (ofQFrame (concatSpec r bus))))
  | [.atom "quilt.items", r, bus] => do
      let r ← bool? r; let bus ← qbus? bus
      pure (answer ((Quilt.init bus r).map fun q =>
        .list (q.axisItems.map fun p => .list [ofQLabel p.1, ofAtoms p.2])))
  | [.atom "batch.items", b, .list sts] => do
      let b ← batch? b; let sts ← sts.mapM stage?
      pure (answer ((Batch.mk b sts).items.map ofItems))
  | [.atom "batch.toframe", b, .list sts] => do
      let b ← batch? b; let sts ← sts.mapM stage?
      pure (answer ((Batch.mk b sts).toFrame.map fun f =>
            .list [.list (f.labels.map ofQLabel), ofAtoms f.opp, .list (f.lines.map fun ln => .list (ln.map ofBV))]))
  | [.atom "batch.tobus", b, .list sts] => do
      let b ← batch? b; let sts ← sts.mapM stage?
      pure (answer ((Batch.mk b sts).toBus.map ofItems))
  | _ => none

end SF.Drv
