/- Driver ops for SFModel.Csv.  Texts travel as double-quoted atoms with the escapes
   `\"`, `\\`, `\n`, `\t`, `\r` (the SExp tokenizer keeps the quotes and escapes in the atom). -/
import SFModel.Csv

namespace SF.Drv
open SF SExp SF.Csv

/-- Decode a quoted atom `"…"` into its characters. -/
private def unquote (s : String) : Option (List Char) :=
  match s.toList with
  | '"' :: rest =>
    let rec go : List Char → List Char → Option (List Char)
      | [], _ => none
      | ['"'], acc => some acc.reverse
      | '"' :: _ :: _, _ => none
      | '\\' :: c :: cs, acc =>
        match c with
        | 'n' => go cs ('\n' :: acc)
        | 't' => go cs ('\t' :: acc)
        | 'r' => go cs ('\r' :: acc)
        | '"' => go cs ('"' :: acc)
        | '\\' => go cs ('\\' :: acc)
        | _ => none
      | ['\\'], _ => none
      | c :: cs, acc => go cs (c :: acc)
    go rest []
  | _ => none

private def quoteChars (l : List Char) : String :=
  let body := l.foldl (fun (acc : String) c =>
    match c with
    | '\n' => acc ++ "\\n"
    | '\t' => acc ++ "\\t"
    | '\r' => acc ++ "\\r"
    | '"' => acc ++ "\\\""
    | '\\' => acc ++ "\\\\"
    | c => acc.push c) ""
  "\"" ++ body ++ "\""

private def text? : SExp → Option (List Char)
  | .atom s => unquote s
  | _ => none

private def char? (e : SExp) : Option Char :=
  match text? e with
  | some [c] => some c
  | _ => none

private def texts? : SExp → Option (List (List Char))
  | .list xs => xs.mapM text?
  | _ => none

private def rows? : SExp → Option (List (List (List Char)))
  | .list xs => xs.mapM texts?
  | _ => none

private def ofTexts (l : List (List Char)) : SExp := .list (l.map fun f => .atom (quoteChars f))
private def ofRows (l : List (List (List Char))) : SExp := .list (l.map ofTexts)

/-- StoreFilter cells: `N` None, `nan`, `nat`, `pinf`, `ninf`, `p:<tag>` any other non-string value, a quoted atom = a string. -/
private def cell? : SExp → Option (Cell String)
  | .atom "N" => some .none
  | .atom "nan" => some .nan
  | .atom "nat" => some .nat
  | .atom "pinf" => some .posInf
  | .atom "ninf" => some .negInf
  | .atom s =>
    if s.startsWith "p:" then some (.plain s)
    else (unquote s).map .text
  | _ => none

private def ofCell : Cell String → SExp
  | .none => .atom "N" | .nan => .atom "nan" | .nat => .atom "nat"
  | .posInf => .atom "pinf" | .negInf => .atom "ninf"
  | .text s => .atom (quoteChars s)
  | .plain s => .atom s

def csvOps : List SExp → Option String
  | [.atom "csv.write", d, q, fs] => do
      let d ← char? d; let q ← char? q; let fs ← texts? fs
      pure (answer (.ok (.atom (quoteChars (csvWriteRow d q fs)))))
  | [.atom "csv.rt", d, q, fs] => do
      -- one row through the writer, the parser (of the written line) and the import split, in one answer
      let d ← char? d; let q ← char? q; let fs ← texts? fs
      let line := csvWriteRow d q fs
      let parsed : SExp := match csvParseLine d q line with
        | .ok r => ofTexts r
        | .error e => .atom ("err:" ++ e.toString)
      let imported : SExp :=
        match importLine d q line with     -- every delimiter, tab included (repaired in 82942dd)
        | .ok r => ofTexts r
        | .error e => .atom ("err:" ++ e.toString)
      pure (answer (.ok (.list [.atom (quoteChars line), parsed, imported])))
  | [.atom "csv.parse", d, q, line] => do
      let d ← char? d; let q ← char? q; let line ← text? line
      pure (answer ((csvParseLine d q line).map ofTexts))
  | [.atom "csv.import", d, q, line] => do
      let d ← char? d; let q ← char? q; let line ← text? line
      pure (answer ((importLine d q line).map ofTexts))
  | [.atom "csv.importtsv", q, line] => do
      let q ← char? q; let line ← text? line
      pure (answer ((importLineTsv q line).map ofTexts))
  | [.atom "csv.importtsvold", line] => do      -- historical path (pinned tree, repaired in 82942dd)
      let line ← text? line
      pure (answer (.ok (ofTexts (importTsvOld line))))
  | [.atom "csv.sfenc", v] => do
      let v ← cell? v
      pure (answer (.ok (ofCell (sfEncode storeFilterDefault v))))
  | [.atom "csv.sfdec", v] => do
      let v ← cell? v
      pure (answer (.ok (ofCell (sfDecode storeFilterDefault v))))
  | [.atom "csv.layout", ii, ic, names, cols, index, cells] => do
      let ii ← bool? ii; let ic ← bool? ic
      let names ← texts? names; let cols ← rows? cols; let index ← rows? index; let cells ← rows? cells
      pure (answer (.ok (ofRows (toStrRecords ii ic ⟨names, cols, index, cells⟩))))
  | [.atom "csv.unlayout", idepth, cdepth, rows] => do
      let idepth ← nat? idepth; let cdepth ← nat? cdepth; let rows ← rows? rows
      let s := splitRecords idepth cdepth rows
      pure (answer (.ok (.list [ofRows s.apex, ofRows s.columns, ofRows s.index, ofRows s.cells])))
  | _ => none

end SF.Drv
