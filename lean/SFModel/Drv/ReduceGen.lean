/- Driver ops for the reduction skeletons translated from the source (SFModel.Gen.Reduce) and the
   evaluators of SFModel.ReduceSem.

   cells:   an integer | nan | None            (logical ops: 0 / 1 | nan | None)
   kinds:   b i u f c U S M m O
   uf:      np_all np_any np_sum … ufunc_all … other      (constructor names of ReduceSem.UF)
   routes are answered as s-expressions: (retNan) | (call ufunc|ufuncSkipna <aexp>) | (raise typeError) | …
-/
import SFModel.Gen.Reduce

namespace SF.Drv
open SF SExp SF.Reduce SF.ReduceSem

private def gcell? : SExp → Option (Cell Int)
  | .atom "nan" => some .nan
  | .atom "None" => some .pyNone
  | .atom s => s.toInt?.map .val
  | _ => none

private def gcells? : SExp → Option (List (Cell Int))
  | .list xs => xs.mapM gcell?
  | _ => none

private def bcells? (e : SExp) : Option (List (Cell Bool)) := do
  let cs ← gcells? e
  pure (cs.map fun c => match c with | .val i => .val (i != 0) | .nan => .nan | .pyNone => .pyNone)

private def glines? : SExp → Option (List (List (Cell Int)))
  | .list ls => ls.mapM gcells?
  | _ => none

private def ofGCell : Cell Int → SExp
  | .val i => .atom (toString i)
  | .nan => .atom "nan"
  | .pyNone => .atom "None"

private def ofBCell : Cell Bool → SExp
  | .val b => ofBool b
  | .nan => .atom "nan"
  | .pyNone => .atom "None"

private def gkind? : SExp → Option Kind
  | .atom "b" => some .b | .atom "i" => some .i | .atom "u" => some .u | .atom "f" => some .f | .atom "c" => some .c
  | .atom "U" => some .U | .atom "S" => some .S | .atom "M" => some .M | .atom "m" => some .m | .atom "O" => some .O
  | _ => none

private def ufNames : List (String × UF) :=
  [("np_all", .np_all), ("np_any", .np_any), ("np_sum", .np_sum), ("np_nansum", .np_nansum), ("np_prod", .np_prod),
   ("np_nanprod", .np_nanprod), ("np_min", .np_min), ("np_nanmin", .np_nanmin), ("np_max", .np_max), ("np_nanmax", .np_nanmax),
   ("np_mean", .np_mean), ("np_nanmean", .np_nanmean), ("np_median", .np_median), ("np_nanmedian", .np_nanmedian),
   ("np_std", .np_std), ("np_nanstd", .np_nanstd), ("np_var", .np_var), ("np_nanvar", .np_nanvar),
   ("np_cumsum", .np_cumsum), ("np_nancumsum", .np_nancumsum), ("np_cumprod", .np_cumprod), ("np_nancumprod", .np_nancumprod),
   ("np_argmin", .np_argmin), ("np_nanargmin", .np_nanargmin), ("np_argmax", .np_argmax), ("np_nanargmax", .np_nanargmax),
   ("ufunc_all", .ufunc_all), ("ufunc_any", .ufunc_any), ("ufunc_nanall", .ufunc_nanall), ("ufunc_nanany", .ufunc_nanany),
   ("other", .other)]

private def uf? : SExp → Option UF
  | .atom s => (ufNames.find? (·.1 == s)).map (·.2)
  | _ => none

private def ofUF (u : UF) : SExp :=
  .atom ((ufNames.find? (·.2 == u)).map (·.1) |>.getD "?")

private def gfn? : SExp → Option Fn
  | .atom "all" => some .all | .atom "any" => some .any | .atom "sum" => some .sum
  | .atom "min" => some .min | .atom "max" => some .max | .atom "mean" => some .mean
  | .atom "median" => some .median | .atom "std" => some .std | .atom "var" => some .var
  | .atom "prod" => some .prod | .atom "cumsum" => some .cumsum | .atom "cumprod" => some .cumprod
  | _ => none

private def fnName : Fn → String
  | .all => "all" | .any => "any" | .sum => "sum" | .min => "min" | .max => "max" | .mean => "mean"
  | .median => "median" | .std => "std" | .var => "var" | .prod => "prod" | .cumsum => "cumsum" | .cumprod => "cumprod"

private def ofM : MExp → SExp
  | .notEqNone => .atom "notEqNone"
  | .isna => .atom "isna"
  | .inv m => .list [.atom "inv", ofM m]

private def ofA : AExp → SExp
  | .array => .atom "array"
  | .copy a => .list [.atom "copy", ofA a]
  | .astypeObj a => .list [.atom "astypeObj", ofA a]
  | .index a m => .list [.atom "index", ofA a, ofM m]
  | .setNan a m => .list [.atom "setNan", ofA a, ofM m]

private def ofFill : Fill → SExp
  | .f0 => .atom "0.0" | .f1 => .atom "1.0" | .bFalse => .atom "False" | .bTrue => .atom "True"

private def ofL : LExp → SExp
  | .array => .atom "array"
  | .copy a => .list [.atom "copy", ofL a]
  | .astypeBool a => .list [.atom "astypeBool", ofL a]
  | .neStr a => .list [.atom "neStr", ofL a]
  | .setWhere a m f => .list [.atom "setWhere", ofL a, ofM m, ofFill f]

private def ofWhich : Which → SExp
  | .ufunc => .atom "ufunc"
  | .ufuncSkipna => .atom "ufuncSkipna"

private def ofExc : Exc → SExp
  | .typeError => .atom "TypeError" | .notImplementedError => .atom "NotImplementedError"
  | .valueError => .atom "ValueError" | .runtimeError => .atom "RuntimeError"

private def ofARoute : ARoute → SExp
  | .retNan => .list [.atom "retNan"]
  | .call w v => .list [.atom "call", ofWhich w, ofA v]

private def ofLRoute : LRoute → SExp
  | .raise e => .list [.atom "raise", ofExc e]
  | .retBool b => .list [.atom "retBool", ofBool b]
  | .call v => .list [.atom "call", ofL v]
  | .retFull d b => .list [.atom "retFull", .atom (toString d), ofBool b]

private def ofX : XExp → SExp
  | .anyAxis m => .list [.atom "anyAxis", ofM m]

private def ofP : PExp → SExp
  | .call w v => .list [.atom "call", ofWhich w, ofA v]
  | .astypeFloat p => .list [.atom "astypeFloat", ofP p]
  | .setNan p x => .list [.atom "setNan", ofP p, ofX x]

private def ofG2 : G2Route → SExp
  | .retFullNan x => .list [.atom "retFullNan", ofX x]
  | .ret p => .list [.atom "ret", ofP p]

/-- the integer instances of the NumPy pairs (as Drv/Reduce.lean) -/
private def gredOf : Fn → Option (Red Int)
  | .sum => some ⟨(· + ·), some 0, false⟩
  | .prod => some ⟨(· * ·), some 1, false⟩
  | .min => some ⟨min, none, false⟩
  | .max => some ⟨max, none, false⟩
  | _ => none

private def ofOptInt : Option Int → SExp
  | none => .atom "N"
  | some i => .atom (toString i)

private def ofOptNat' : Option Nat → SExp
  | none => .atom "N"
  | some i => .atom (toString i)

private def better? : SExp → Option (Int → Int → Bool)
  | .atom "min" => some (fun a b => decide (a < b))
  | .atom "max" => some (fun a b => decide (a > b))
  | _ => none

def reduceGenOps : List SExp → Option String
  -- util.ufunc_axis_skipna: the route and the array handed to the kernel (`rows`: len(array); cells: the array, flat)
  | [.atom "rgen.axis", kind, ndim, sk, uf, cells] => do
      let kind ← gkind? kind; let ndim ← nat? ndim; let sk ← bool? sk; let uf ← uf? uf; let xs ← gcells? cells
      let r := Gen.Reduce.ufunc_axis_skipna kind ndim sk uf (len0A xs)
      let v := match r with | .retNan => [] | .call _ a => a.eval xs
      pure (answer (.ok (.list [ofARoute r, .list (v.map ofGCell)])))
  -- … its value on one vector with the integer instances of (np.sum, np.nansum) …
  | [.atom "rgen.axis.val", fn, kind, ndim, sk, uf, cells] => do
      let fn ← gfn? fn; let red ← gredOf fn
      let kind ← gkind? kind; let ndim ← nat? ndim; let sk ← bool? sk; let uf ← uf? uf; let xs ← gcells? cells
      let r := Gen.Reduce.ufunc_axis_skipna kind ndim sk uf (len0A xs)
      pure (answer ((r.eval (redUfunc red) (redUfuncSkipna red) xs).map ofOptInt))
  -- util._ufunc_logical_skipna: `rows` = len(array), cells flat (truth values)
  | [.atom "rgen.logical", uf, kind, sk, ndim, axis, rows, cells] => do
      let uf ← uf? uf; let kind ← gkind? kind; let sk ← bool? sk; let ndim ← nat? ndim; let axis ← int? axis
      let rows ← nat? rows; let xs ← bcells? cells
      let r := Gen.Reduce._ufunc_logical_skipna uf kind sk ndim axis (fun _ => rows == 0) (anyMOf xs) (allMOf xs)
      let v := match r with | .call a => a.eval kind xs | _ => []
      pure (answer (.ok (.list [ofLRoute r, .list (v.map ofBCell)])))
  | [.atom "rgen.logical.val", uf, kind, sk, cells] => do
      let uf ← uf? uf; let kind ← gkind? kind; let sk ← bool? sk; let xs ← bcells? cells
      let r := Gen.Reduce._ufunc_logical_skipna uf kind sk 1 0 (len0L kind xs) (anyMOf xs) (allMOf xs)
      pure (answer ((r.eval uf kind xs).map ofBool))
  | [.atom "rgen.arg1d", sk, cells] => do
      let sk ← bool? sk; let xs ← gcells? cells
      pure (answer (.ok (ofARoute (Gen.Reduce._argminmax_1d sk (anyMOf xs) (allMOf xs)))))
  | [.atom "rgen.arg1d.val", which, sk, cells] => do
      let better ← better? which; let sk ← bool? sk; let xs ← gcells? cells
      pure (answer (((Gen.Reduce._argminmax_1d sk (anyMOf xs) (allMOf xs)).eval (npArg better) (npNanArg better) xs).map ofOptNat'))
  | [.atom "rgen.arg2d", sk, lines] => do
      let sk ← bool? sk; let ls ← glines? lines
      pure (answer (.ok (ofG2 (Gen.Reduce._argminmax_2d sk (anyXOf ls) (allXOf ls)))))
  | [.atom "rgen.arg2d.val", which, sk, lines] => do
      let better ← better? which; let sk ← bool? sk; let ls ← glines? lines
      pure (answer (((Gen.Reduce._argminmax_2d sk (anyXOf ls) (allXOf ls)).eval (npArg better) (npNanArg better) ls).map
        fun l => .list (l.map ofOptNat')))
  -- the descriptor table: (composable size_one_unity dtypes viaShape axis skipna ufunc ufunc_skipna)
  | [.atom "rgen.desc", fn] => do
      let fn ← gfn? fn
      let d := Gen.Reduce.desc fn
      let p := Gen.Reduce.ufuncPair fn
      let df := Gen.Reduce.defaults fn
      pure (answer (.ok (.list [ofBool d.composable, ofBool d.sizeOneUnity,
        .atom (match d.dtypes with | .rowDtype => "row" | .bool => "bool" | .inexact => "inexact" | .float => "float"),
        ofBool (Gen.Reduce.viaShape fn), .atom (toString df.1), ofBool df.2, ofUF p.1, ofUF p.2])))
  -- the wrappers, the partial pairs and the reference table of interface.py
  | [.atom "rgen.consts"] =>
      let w (p : UF × Bool) : SExp := .list [ofUF p.1, ofBool p.2]
      let q (p : UF × UF) : SExp := .list [ofUF p.1, ofUF p.2]
      pure (answer (.ok (.list [
        .list [w Gen.Reduce.ufunc_all, w Gen.Reduce.ufunc_any, w Gen.Reduce.ufunc_nanall, w Gen.Reduce.ufunc_nanany],
        .list [q Gen.Reduce.argmin_1d, q Gen.Reduce.argmax_1d, q Gen.Reduce.argmin_2d, q Gen.Reduce.argmax_2d],
        .list (Gen.Reduce.interface_pairs.map fun t => .list [.atom (fnName t.1), ofUF t.2.1, ofUF t.2.2])])))
  | _ => none

end SF.Drv
