/- Driver ops for SFModel.Index (labels are hash-class tokens: `i:<int>` or an opaque atom). -/
import SFModel.Index

namespace SF.Drv
open SF SExp

/-- driver instantiation of the label type: an integer or an opaque token -/
inductive Lab
  | int (i : Int)
  | str (s : String)
deriving DecidableEq, Repr

instance : IntLabel Lab where
  ofInt := .int
  toInt? := fun | .int i => some i | .str _ => none
  toInt_ofInt := fun _ => rfl
  ofInt_toInt := fun a i h => by cases a <;> simp_all

def lab? : SExp → Option Lab
  | .atom s =>
    if s.startsWith "i:" then (s.drop 2).toInt?.map .int
    else some (.str s)
  | _ => none

def ofLab : Lab → SExp
  | .int i => .atom ("i:" ++ toString i)
  | .str s => .atom s

def labs? : SExp → Option (List Lab)
  | .list xs => xs.mapM lab?
  | _ => none

def ofLabs (l : List Lab) : SExp := .list (l.map ofLab)

def optLab? : SExp → Option (Option Lab)
  | .atom "N" => some none
  | e => (lab? e).map some

def lkey? : SExp → Option (LKey Lab)
  | .list [.atom "lab", a] => (lab? a).map .label
  | .list (.atom "list" :: xs) => (xs.mapM lab?).map .list
  | .list [.atom "sl", a, b, c] => do
      let a ← optLab? a; let b ← optLab? b; let c ← optInt? c
      pure (.slice a b c)
  | .list (.atom "mask" :: xs) => (xs.mapM bool?).map .mask
  | _ => none

def ofIKey : IKey → SExp
  | .int i => .list [.atom "int", .atom (toString i)]
  | .list is => .list (.atom "list" :: is.map fun i => .atom (toString i))
  | .slice s => .list [.atom "sl", ofOptInt s.start, ofOptInt s.stop, ofOptInt s.step]
  | .arr ps => .list (.atom "arr" :: ps.map fun i => .atom (toString i))

/-- `(m l1 l2 …)` an index built from labels; `(a n)` an auto-integer index of length n -/
def index? : SExp → Option (Except Err (Index Lab))
  | .list (.atom "m" :: xs) => (xs.mapM lab?).map Index.mk?
  | .list [.atom "a", n] => (nat? n).map fun n => .ok (Index.mkAuto n)
  | _ => none

def goOp? : SExp → Option (IndexGO.Op Lab)
  | .list [.atom "ap", a] => (lab? a).map .append
  | .list (.atom "ex" :: xs) => (xs.mapM lab?).map .extend
  | _ => none

/-- run a history, reporting per call the error raised (N = none) -/
def goRun (s : IndexGO Lab) : List (IndexGO.Op Lab) → IndexGO Lab × List SExp
  | [] => (s, [])
  | op :: ops =>
    let r := match op with
      | .append a => s.append a
      | .extend as => s.extend as
    let rest := goRun r.1 ops
    (rest.1, (match r.2 with | none => .atom "N" | some e => .atom e.toString) :: rest.2)

def ofGO (s : IndexGO Lab) : SExp :=
  .list [ofLabs s.toIndex.labels, .atom (if s.map.isNone then "A" else "M"), .atom (toString s.count),
         ofLabs s.mutLabels, .atom (toString s.toIndex.len)]

def indexOps : List SExp → Option String
  | [.atom "index.mk", ix] => do
      let r ← index? ix
      pure (answer (r.map fun ix => .list [ofLabs ix.iter, ofLabs ix.reversed, ofLabs ix.values,
        ofNats ix.positions, .atom (toString ix.len), .atom (if ix.map.isNone then "A" else "M")]))
  | [.atom "index.loc", ix, k] => do
      let r ← index? ix; let k ← lkey? k
      pure (answer (r.bind fun ix => (ix.locToIloc k).map ofIKey))
  | [.atom "index.locp", ix, k, off, part] => do
      let r ← index? ix; let k ← lkey? k; let off ← optInt? off; let part ← bool? part
      pure (answer (r.bind fun ix => (ix.locToIlocP k (off.map Int.toNat) part).map ofIKey))
  | [.atom "index.cloc", ix, k] => do
      -- the route Series.loc / Frame.loc / getitem take: `Index._loc_to_iloc(key)` (no offset, no partial selection)
      let r ← index? ix; let k ← lkey? k
      pure (answer (r.bind fun ix => (ix.locToIlocP k none false).map ofIKey))
  | [.atom "index.contains", ix, a] => do
      let r ← index? ix; let a ← lab? a
      pure (answer (r.map fun ix => ofBool (ix.contains a)))
  | [.atom "index.positions", k, n] => do
      let n ← nat? n
      let k ← match k with
        | .list [.atom "int", i] => (int? i).map IKey.int
        | .list (.atom "list" :: xs) => (xs.mapM int?).map IKey.list
        | .list [.atom "sl", a, b, c] => do
            let a ← optInt? a; let b ← optInt? b; let c ← optInt? c
            pure (IKey.slice ⟨a, b, c⟩)
        | .list (.atom "arr" :: xs) => (xs.mapM nat?).map IKey.arr
        | _ => none
      pure (answer ((k.positions n).map ofNats))
  | [.atom "indexgo.run", ix, .list ops] => do
      let r ← index? ix; let ops ← ops.mapM goOp?
      pure (answer (r.map fun ix =>
        let fin := goRun (IndexGO.ofIndex ix) ops
        .list [ofGO fin.1, .list fin.2]))
  | [.atom "indexgo.loc", ix, .list ops, k] => do
      let r ← index? ix; let ops ← ops.mapM goOp?; let k ← lkey? k
      pure (answer (r.bind fun ix =>
        let fin := goRun (IndexGO.ofIndex ix) ops
        (fin.1.toIndex.locToIloc k).map ofIKey))
  | [.atom "indexgo.contains", ix, .list ops, a] => do
      let r ← index? ix; let ops ← ops.mapM goOp?; let a ← lab? a
      pure (answer (r.map fun ix =>
        let fin := goRun (IndexGO.ofIndex ix) ops
        ofBool (fin.1.contains a)))
  | _ => none

end SF.Drv
