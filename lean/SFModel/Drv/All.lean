/- Aggregates the driver handlers of every model. -/
import SFModel.Drv.Slice

namespace SF.Drv
def allHandlers : List (List SExp → Option String) :=
  [sliceOps]
end SF.Drv
