/- Driver ops for SFModel.BlocksBinop (cells := Int, so that `+ - *` are exact).

   tbbinop.apply  <tb> <rowdt> <other> <axis> <op> <table>   -> ok (<path> <tb>) | err <Err>
   tbbinop.diag   <tb> <tb>                                   -> ok (<block_compatible> <reblock_compatible>
                                                                     (<sig a>) (<sig b>) (<slices a>) <reblocked a>)
   <tb>    = (tb rows (d1 dt v…) (d2 dt (v…) …) …)
   <other> = (tb rowdt rows block…) | (a0 dt v) | (a1 dt v…) | (a2 dt rows (v…)…) | (aN dt ndim)
   <op>    = add | sub | mul
   <table> = ((dtA dtB dtResult) …): the dtype NumPy gives `operator(array of dtA, array of dtB)`, supplied by the
             harness from the real NumPy; a missing pair answers the marker `?`.
   The conversion `cast _ to x` of the `.values` route rounds to the nearest double / single for `f8` / `f4` and is the
   identity otherwise (integers up to 2^53 / 2^24 are unchanged). -/
import SFModel.BlocksBinop

namespace SF.Drv
open SF SExp Binop

namespace BB

def blockI? : SExp → Option (Block Int)
  | .list (.atom "d1" :: .atom dt :: vs) => (vs.mapM int?).map (Block.d1 dt)
  | .list (.atom "d2" :: .atom dt :: cs) => (cs.mapM ints?).map (Block.d2 dt)
  | _ => none

def tbI? : SExp → Option (TB Int)
  | .list (.atom "tb" :: r :: bs) => do
      let r ← nat? r
      let bs ← bs.mapM blockI?
      pure ⟨r, bs⟩
  | _ => none

def other? : SExp → Option (Other Int)
  | .list (.atom "tb" :: .atom rd :: r :: bs) => do
      let r ← nat? r
      let bs ← bs.mapM blockI?
      pure (.tb ⟨r, bs⟩ rd)
  | .list [.atom "a0", .atom dt, v] => (int? v).map (Other.arr0 dt)
  | .list (.atom "a1" :: .atom dt :: vs) => (vs.mapM int?).map (Other.arr1 dt)
  | .list (.atom "a2" :: .atom dt :: r :: cs) => do
      let r ← nat? r
      let cs ← cs.mapM ints?
      pure (.arr2 dt r cs)
  | .list [.atom "aN", .atom dt, n] => (nat? n).map (Other.arrN dt)
  | _ => none

def op? : SExp → Option (Int → Int → Int)
  | .atom "add" => some (· + ·)
  | .atom "sub" => some (· - ·)
  | .atom "mul" => some (· * ·)
  | _ => none

def table? : SExp → Option (DT → DT → DT)
  | .list es => do
      let rows ← es.mapM fun e => match e with
        | .list [.atom a, .atom b, .atom r] => some ((a, b), r)
        | _ => none
      pure fun a b => match rows.lookup (a, b) with | some r => r | none => "?"
  | _ => none

/-- `ndarray.astype` on an integer-valued cell, as far as the `.values` route needs it -/
def castI (_from to : DT) (x : Int) : Int :=
  if to = "f8" then (Float.ofInt x).toInt64.toInt
  else if to = "f4" then (Float32.ofInt x).toInt64.toInt
  else x

def ofBlockI : Block Int → SExp
  | .d1 dt c => .list (.atom "d1" :: .atom dt :: c.map fun i => .atom (toString i))
  | .d2 dt cs => .list (.atom "d2" :: .atom dt :: cs.map ofInts)

def ofTBI (tb : TB Int) : SExp := .list (.atom "tb" :: .atom (toString tb.rows) :: tb.blocks.map ofBlockI)

def ofSig (s : List (Option DT × Nat)) : SExp :=
  .list (s.map fun (d, n) => .list [.atom (match d with | none => "N" | some d => d), .atom (toString n)])

end BB

open BB in
def blocksBinopOps : List SExp → Option String
  | [.atom "tbbinop.apply", t, .atom rd, o, ax, op, table] => do
      let t ← tbI? t; let o ← other? o; let ax ← int? ax; let op ← op? op; let opDT ← table? table
      pure (answer (match TB.binopPath castI t rd o ax, TB.binop op opDT castI t rd o ax with
        | .ok p, .ok r => .ok (.list [.atom p.toString, ofTBI r])
        | .error e, _ => .error e
        | _, .error e => .error e))
  | [.atom "tbbinop.diag", a, b] => do
      let a ← tbI? a; let b ← tbI? b
      pure (answer (.ok (.list [ofBool (a.blockCompatible b), ofBool (a.reblockCompatible b),
        ofSig a.reblockSignature, ofSig b.reblockSignature,
        .list (a.blockShapeSlices.map fun (s, e) => ofNats [s, e]),
        ofTBI ⟨a.rows, a.reblock⟩])))
  | _ => none

end SF.Drv
