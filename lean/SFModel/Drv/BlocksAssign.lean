/- Driver op for SFModel.BlocksAssign (α := String tokens): `tb.assign <tb> <rk> <ck> <value> <table>`.

   value : `(elem <dt> <cell>)` | `(col <dt> <cell>...)` | `(mat <dt> (<cell>...) ...)` (column-major)
   table : `((a b r) ...)` — the answers of the real `resolve_dtype(a, b)` the harness observed; a pair
           that is missing resolves to the marker `?` (`resolveTable?` of Drv/Blocks.lean), never to a default. -/
import SFModel.BlocksAssign
import SFModel.Drv.Blocks

namespace SF.Drv
open SF SExp

private def assignVal? : SExp → Option (AVal String)
  | .list [.atom "elem", .atom dt, .atom x] => some (.elem x dt)
  | .list (.atom "col" :: .atom dt :: xs) => (xs.mapM atom?).map (AVal.col · dt)
  | .list (.atom "mat" :: .atom dt :: cs) => (cs.mapM atoms?).map (AVal.mat · dt)
  | _ => none

def blocksAssignOps : List SExp → Option String
  | [.atom "tb.assign", t, rk, ck, v, table] => do
      let t ← tb? t; let rk ← key? rk; let ck ← key? ck
      let v ← assignVal? v
      let resolve ← resolveTable? table
      pure (answer ((t.assignUnit rk ck v resolve).map ofTB))
  | _ => none

end SF.Drv
