/- Driver ops for SFModel.BlocksAssignBlocks (α := String tokens).

   `tbassignb.assign <tb> <rk> <ck> (<block>...) <table>` — `TB.assignBlocks`; the value blocks in the
        order of the Python iterable (`(d1 dt cell...)` | `(d2 dt (cell...)...)`, column-major);
        table : `((a b r) ...)`, the answers of the real `resolve_dtype(a, b)` the harness observed
        (`resolveTable?` of Drv/Blocks.lean: a missing pair resolves to the marker `?`).
   `tbassignb.match <width> (<block>...)` — `TB.getBlockMatch` on the stack whose TOP is the first
        block listed; answer `((yielded...) (stack afterwards, top first...))`.
   `tbassignb.spec <tb> <rk> <ck> (<block>...) <table>` — `TB.assignBlocksSpec` for the positions of
        the keys: `((dt cell...) ...)` per column. -/
import SFModel.BlocksAssignBlocks
import SFModel.Drv.Blocks

namespace SF.Drv
open SF SExp

def blocksAssignBlocksOps : List SExp → Option String
  | [.atom "tbassignb.assign", t, rk, ck, .list vs, table] => do
      let t ← tb? t; let rk ← key? rk; let ck ← key? ck
      let vs ← vs.mapM block?
      let resolve ← resolveTable? table
      pure (answer ((t.assignBlocks rk ck vs resolve).map ofTB))
  | [.atom "tbassignb.match", w, .list vs] => do
      let w ← int? w
      let vs ← vs.mapM block?
      pure (answer ((TB.getBlockMatch w vs).map fun (ys, src) =>
        .list [.list (ys.map ofBlock), .list (src.map ofBlock)]))
  | [.atom "tbassignb.spec", t, rk, ck, .list vs, table] => do
      let t ← tb? t; let rk ← key? rk; let ck ← key? ck
      let vs ← vs.mapM block?
      let resolve ← resolveTable? table
      let r : Except Err SExp := do
        let rps ← rk.positions t.rows
        let cps ← ck.positions t.ncols
        let orig := t.blocks.flatMap (fun b => b.colsOf.map (fun c => (b.dt, c)))
        let out := TB.assignBlocksSpec resolve (TB.rowIsNull rk) rps cps (pick t.index cps) vs orig
        pure (.list (out.map fun (d, c) => .list (.atom d :: c.map .atom)))
      pure (answer r)
  | _ => none

end SF.Drv
