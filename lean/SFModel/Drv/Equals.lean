/- Driver ops for SFModel.Equals.

  Wire format (values, names, dtypes, classes are atoms; the atom `na` is a missing cell):
    opts   := (o <name> <dtype> <class> <skipna>)               -- four 0/1
    index  := (ix <name> <dtype> <cls> (<label>…))
    level  := (lv <index> <leaf 0/1> <depthRef> <cls> (<level>…))
    ih     := (ih <level> <name> <cls>)
    axis   := index | ih
    series := (se <name> <dtype> <cls> <axis> (<cell>…))
    tb     := (tb <rows> (blk <dtype> (<cell>…) (<cell>…) …) …)  -- one list per column
    frame  := (fr <name> <cls> <axis> <axis> <tb>)
    bus    := (bus <name> <cls> <axis> (<frame>…))
-/
import SFModel.Equals

namespace SF.Drv
open SF SExp SF.Equals

private abbrev ECell := Cell String
private abbrev EIdx := Idx String String String String
private abbrev ELevel := Level String String String String
private abbrev EAxis := Axis String String String String
private abbrev ESeries := Equals.Series String String String String
private abbrev EFrame := Equals.Frame String String String String
private abbrev EBus := Equals.Bus String String String String

private def ecell? : SExp → Option ECell
  | .atom "na" => some .na
  | .atom s => some (.val s)
  | _ => none

private def ecells? : SExp → Option (List ECell)
  | .list xs => xs.mapM ecell?
  | _ => none

private def eopts? : SExp → Option Opts
  | .list [.atom "o", n, d, c, s] => do
      pure ⟨← bool? n, ← bool? d, ← bool? c, ← bool? s⟩
  | _ => none

private def eidx? : SExp → Option EIdx
  | .list [.atom "ix", .atom n, .atom d, .atom c, ls] => do
      pure ⟨← ecells? ls, n, d, c⟩
  | _ => none

private partial def elevel? : SExp → Option ELevel
  | .list [.atom "lv", ix, leaf, dr, .atom c, .list ts] => do
      let ts ← ts.mapM elevel?
      pure (.mk (← eidx? ix) (← bool? leaf) ts (← nat? dr) c)
  | _ => none

private def eaxis? : SExp → Option EAxis
  | e@(.list (.atom "ix" :: _)) => (eidx? e).map .flat
  | .list [.atom "ih", lv, .atom n, .atom c] => do
      pure (.hier ⟨← elevel? lv, n, c⟩)
  | _ => none

private def eseries? : SExp → Option ESeries
  | .list [.atom "se", .atom n, .atom d, .atom c, ax, vs] => do
      pure ⟨← ecells? vs, d, n, ← eaxis? ax, c⟩
  | _ => none

private def eblock? : SExp → Option (Block String ECell)
  | .list (.atom "blk" :: .atom d :: cols) => do
      pure ⟨d, ← cols.mapM ecells?⟩
  | _ => none

private def etb? : SExp → Option (TB String ECell)
  | .list (.atom "tb" :: rows :: blks) => do
      pure ⟨← nat? rows, ← blks.mapM eblock?⟩
  | _ => none

private def eframe? : SExp → Option EFrame
  | .list [.atom "fr", .atom n, .atom c, ix, cols, tb] => do
      pure ⟨← etb? tb, n, ← eaxis? ix, ← eaxis? cols, c⟩
  | _ => none

private def ebus? : SExp → Option EBus
  | .list [.atom "bus", .atom n, .atom c, ax, .list fs] => do
      pure ⟨← fs.mapM eframe?, n, ← eaxis? ax, c⟩
  | _ => none

private def sveq (a b : String) : Bool := a == b

private def okBool (b : Bool) : String := answer (.ok (ofBool b))

private def hcell : ECell → String
  | .na => "na"
  | .val s => s

private def hmix (l : List String) : String := "(" ++ " ".intercalate l ++ ")"

private def heAnswer (eq ne : Bool) (ha hb : String) : String :=
  -- hash never raises since commit 7f42cd3 (labels are hashed, not `.values`)
  answer (.ok (.list [ofBool eq, ofBool ne, .atom "ok", .atom "ok", ofBool (ha == hb)]))

/-- the 16 option sets in the order name*8 + dtype*4 + class*2 + skipna -/
private def allOpts : List Opts :=
  [false, true].flatMap fun n => [false, true].flatMap fun d => [false, true].flatMap fun c =>
    [false, true].map fun s => ⟨n, d, c, s⟩

private def okAll (f : Opts → Bool) : String := answer (.ok (ofBools (allOpts.map f)))

def equalsOps : List SExp → Option String
  | [.atom "equals.axis", a, b, o] => do
      let a ← eaxis? a; let b ← eaxis? b; let o ← eopts? o
      pure (okBool (a.equals sveq b o))
  | [.atom "equals.series", a, b, o] => do
      let a ← eseries? a; let b ← eseries? b; let o ← eopts? o
      pure (okBool (a.equals sveq b o))
  | [.atom "equals.tb", a, b, o] => do
      let a ← etb? a; let b ← etb? b; let o ← eopts? o
      pure (okBool (tbEquals sveq a b o "O"))
  | [.atom "equals.frame", a, b, o] => do
      let a ← eframe? a; let b ← eframe? b; let o ← eopts? o
      pure (okBool (a.equals sveq b o "O"))
  | [.atom "equals.bus", a, b, o] => do
      let a ← ebus? a; let b ← ebus? b; let o ← eopts? o
      pure (okBool (a.equals sveq b o "O"))
  | [.atom "equals.axis.all", a, b] => do
      let a ← eaxis? a; let b ← eaxis? b
      pure (okAll fun o => a.equals sveq b o)
  | [.atom "equals.series.all", a, b] => do
      let a ← eseries? a; let b ← eseries? b
      pure (okAll fun o => a.equals sveq b o)
  | [.atom "equals.frame.all", a, b] => do
      let a ← eframe? a; let b ← eframe? b
      pure (okAll fun o => a.equals sveq b o "O")
  | [.atom "equals.bus.all", a, b] => do
      let a ← ebus? a; let b ← ebus? b
      pure (okAll fun o => a.equals sveq b o "O")
  | [.atom "equals.he.series", a, b] => do
      let a ← eseries? a; let b ← eseries? b
      pure (heAnswer (a.heEq sveq b) (a.heNe sveq b) (a.heHash hcell hmix) (b.heHash hcell hmix))
  | [.atom "equals.he.frame", a, b] => do
      let a ← eframe? a; let b ← eframe? b
      pure (heAnswer (a.heEq sveq b "O") (a.heNe sveq b "O") (a.heHash hcell hmix) (b.heHash hcell hmix))
  | _ => none

end SF.Drv
