/- Driver ops for SFModel.BlocksResize (α := String tokens; the value conversion `conv` is the
   identity on tokens — the harness compares cells up to NumPy's numeric widening and dtypes exactly;
   dtype resolution is the finite table of answers of the real `resolve_dtype`).
   An IndexCorrespondence travels as `N` (None) or `(has_common is_subset (iloc_src…) (iloc_dst…) size)`. -/
import SFModel.BlocksResize
import SFModel.Drv.Blocks

namespace SF.Drv
open SF SExp

private def convTok : DT → DT → String → String := fun _ _ v => v

def ic? : SExp → Option (Option SetOps.IC)
  | .atom "N" => some none
  | .list [hc, sub, src, dst, size] => do
      let hc ← bool? hc; let sub ← bool? sub; let src ← nats? src; let dst ← nats? dst
      let size ← nat? size
      pure (some ⟨hc, sub, src, dst, size⟩)
  | _ => none

private def ofTyped (x : DT × List String) : SExp := .list (.atom x.1 :: x.2.map .atom)

def blocksResizeOps : List SExp → Option String
  -- the raw generator: `list(tb.resize_blocks(index_ic=…, columns_ic=…, fill_value=…))`
  | [.atom "tbresize.blocks", t, iic, cic, .atom fill, .atom fillDT, table] => do
      let t ← tb? t; let iic ← ic? iic; let cic ← ic? cic
      let resolve ← resolveTable? table
      pure (answer ((t.resizeBlocks resolve convTok iic cic fill fillDT).map fun bs =>
        .list (.atom "blocks" :: bs.map ofBlock)))
  -- `Frame.reindex`: from_blocks with the shape reference + the shape check of the Frame constructor
  | [.atom "tbresize.frame", t, iic, cic, .atom fill, .atom fillDT, table] => do
      let t ← tb? t; let iic ← ic? iic; let cic ← ic? cic
      let resolve ← resolveTable? table
      pure (answer ((t.resized resolve convTok iic cic fill fillDT).map ofTB))
  -- the layout-free specification on the typed columns of the same TypeBlocks
  | [.atom "tbresize.spec", t, iic, cic, .atom fill, .atom fillDT, table] => do
      let t ← tb? t; let iic ← ic? iic; let cic ← ic? cic
      let resolve ← resolveTable? table
      let typed := t.blocks.flatMap fun b => b.colsOf.map fun c => (b.dt, c)
      pure (answer ((resizeSpec resolve convTok t.rows iic cic fill fillDT typed).map fun cs =>
        .list (.atom "cols" :: cs.map ofTyped)))
  -- the well-formedness predicate of an IndexCorrespondence against a source axis of length n
  | [.atom "tbresize.icwf", ic, n] => do
      let ic ← ic? ic; let n ← nat? n
      pure (answer (.ok (ofBool (decide (SetOps.OptWF ic n)))))
  | _ => none

end SF.Drv
