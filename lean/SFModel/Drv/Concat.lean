/- Driver ops for SFModel.Concat.  Labels are integer ranks given by the harness; an auto index is
   `1000000 + position`, a two-level label `(k, l)` is `10000000 + 1000 * k + l`; cells are opaque
   tokens (atoms), the missing ones being `nan`, `N`, `nat`. -/
import SFModel.Concat
import SFModel.Drv.SetOps

namespace SF.Drv.ConcatH
open SF SExp SF.SetOps SF.Concat SF.Drv.SetOpsH

private def catCfg (classes : List Int) : Cfg Int :=
  ⟨drvOrd classes, fun n => 1000000 + (n : Int), fun k l => 10000000 + 1000 * k + l⟩

private def tokIsna (t : String) : Bool := t == "nan" || t == "N" || t == "nat"

private def strs? : SExp → Option (List String) := atoms?

private def ofStrs (l : List String) : SExp := .list (l.map .atom)

private def sidx? : SExp → Option (Idx Int)
  | .list [k, ls] => idx? k ls
  | _ => none

private def ofIdx (i : Idx Int) : SExp := .list [ofKind i.kind, ofInts i.labels]

private def indexArg? : SExp → Option (IndexArg Int)
  | .atom "N" => some .none
  | .atom "A" => some .auto
  | .list [k, ls] => do
      let k ← kind? k; let ls ← ints? ls
      pure (.given ls k)
  | _ => none

private def optSidx? : SExp → Option (Option (Idx Int))
  | .atom "N" => some none
  | e => (sidx? e).map some

private def block? : SExp → Option (Block String)
  | .list (k :: cols) => do
      let k ← kind? k; let cols ← cols.mapM strs?
      pure ⟨k, cols⟩
  | _ => none

private def tb? : SExp → Option (TB String)
  | .list bs => bs.mapM block?
  | _ => none

private def ofColumns (cs : List (Kind × List String)) : SExp :=
  .list (cs.map fun (k, c) => .list [ofKind k, ofStrs c])

/-- `(bf ikind (ilabels) ckind (clabels) (blocks…))` -/
private def bframe? : SExp → Option (BFrame Int String)
  | .list [.atom "bf", ik, il, ck, cl, tb] => do
      let i ← idx? ik il; let c ← idx? ck cl; let tb ← tb? tb
      pure ⟨i, c, tb⟩
  | _ => none

private def sframe? (e : SExp) : Option (Frame Int String) := (bframe? e).map (·.toFrame)

private def ofSFrame (f : Frame Int String) : SExp :=
  .list [.atom "fr", ofKind f.index.kind, ofInts f.index.labels, ofKind f.columns.kind,
    ofInts f.columns.labels, .list (f.cols.map ofStrs)]

/-- `(sr kind (labels) (cells))` with token cells -/
private def sseries? : SExp → Option (Series Int String)
  | .list [.atom "sr", k, ls, vs] => do
      let i ← idx? k ls; let vs ← strs? vs
      pure ⟨i, vs⟩
  | _ => none

private def ofSSeries (s : Series Int String) : SExp :=
  .list [.atom "sr", ofKind s.index.kind, ofInts s.index.labels, ofStrs s.values]

private def keyed? {γ : Type} (p : SExp → Option γ) : SExp → Option (Int × γ)
  | .list [k, x] => do
      let k ← int? k; let x ← p x
      pure (k, x)
  | _ => none

private def listOf? {γ : Type} (p : SExp → Option γ) : SExp → Option (List γ)
  | .list xs => xs.mapM p
  | _ => none

end SF.Drv.ConcatH

namespace SF.Drv
open SF SExp SF.SetOps SF.Concat SF.Drv.SetOpsH SF.Drv.ConcatH

def concatOps : List SExp → Option String
  | [.atom "cat.index_concat", idxs] => do
      let idxs ← listOf? sidx? idxs
      pure (answer ((indexManyConcat idxs).map ofIdx))
  | [.atom "cat.index_set", u, idxs, cls] => do
      let u ← bool? u; let idxs ← listOf? sidx? idxs; let cls ← ints? cls
      pure (answer (.ok (ofIdx (indexManySet (drvOrd cls) u idxs))))
  | [.atom "cat.flags", tbs] => do
      let tbs ← listOf? tb? tbs
      let (bc, rc) := compatFlags tbs
      pure (answer (.ok (.list [ofBool bc, ofBool rc])))
  | [.atom "cat.vstack", tbs, bc, rc] => do
      let tbs ← listOf? tb? tbs; let bc ← bool? bc; let rc ← bool? rc
      pure (answer ((vstackBlocksToBlocks tbs bc rc).map fun r => ofColumns (TB.columns r)))
  | [.atom "cat.concat", axis, u, ia, ca, fill, fk, frames, cls] => do
      let axis ← nat? axis; let u ← bool? u; let ia ← indexArg? ia; let ca ← indexArg? ca
      let fill ← atom? fill; let fk ← kind? fk; let frames ← listOf? bframe? frames; let cls ← ints? cls
      if axis = 0 then pure (answer ((fromConcat0 (catCfg cls) frames u ia ca fill fk).map ofSFrame))
      else if axis = 1 then pure (answer ((fromConcat1 (catCfg cls) frames u ia ca fill).map ofSFrame))
      else none
  | [.atom "cat.items", axis, u, fill, fk, items, cls] => do
      let axis ← nat? axis; let u ← bool? u; let fill ← atom? fill; let fk ← kind? fk
      let items ← listOf? (keyed? bframe?) items; let cls ← ints? cls
      pure (answer ((fromConcatItems (catCfg cls) items axis u fill fk).map ofSFrame))
  | [.atom "cat.sconcat", ia, ss] => do
      let ia ← indexArg? ia; let ss ← listOf? sseries? ss
      pure (answer ((seriesFromConcat (catCfg []) ss ia).map ofSSeries))
  | [.atom "cat.sitems", items] => do
      let items ← listOf? (keyed? sseries?) items
      pure (answer ((seriesFromConcatItems (catCfg []) items).map ofSSeries))
  | [.atom "cat.soverlay", idx, u, na, ss, cls] => do
      let idx ← optSidx? idx; let u ← bool? u; let na ← atom? na; let ss ← listOf? sseries? ss
      let cls ← ints? cls
      pure (answer ((seriesFromOverlay (drvOrd cls) tokIsna na ss idx u).map ofSSeries))
  | [.atom "cat.foverlay", idx, cols, u, na, fs, cls] => do
      let idx ← optSidx? idx; let cols ← optSidx? cols; let u ← bool? u; let na ← atom? na
      let fs ← listOf? sframe? fs; let cls ← ints? cls
      pure (answer ((frameFromOverlay (drvOrd cls) tokIsna na fs idx cols u).map ofSFrame))
  | _ => none

end SF.Drv
