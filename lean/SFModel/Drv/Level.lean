/- Driver ops for SFModel.Level (IndexLevel tree, HLoc resolution, IndexHierarchyGO state machine). -/
import SFModel.Level
import SFModel.LevelDrop
import SFModel.Drv.Index

namespace SF.Drv
open SF SExp

/-- `(l (labels…) off)` | `(n (labels…) (children…) off)` -/
private partial def level? : SExp → Option (Level Lab)
  | .list [.atom "l", ls, off] => do
      let ls ← labs? ls; let off ← nat? off
      pure (.leaf ls off)
  | .list [.atom "n", ls, .list cs, off] => do
      let ls ← labs? ls; let off ← nat? off
      let cs ← cs.mapM level?
      pure (.node ls cs off)
  | _ => none

private partial def ofLevel : Level Lab → SExp
  | .leaf ls off => .list [.atom "l", ofLabs ls, .atom (toString off)]
  | .node ls cs off => .list [.atom "n", ofLabs ls, .list (cs.map ofLevel), .atom (toString off)]

private def tuples? : SExp → Option (List (List Lab))
  | .list xs => xs.mapM labs?
  | _ => none

private def ofTuples (ts : List (List Lab)) : SExp := .list (ts.map ofLabs)

private def sel? : SExp → Option (Sel Lab)
  | .list [.atom "all"] => some .all
  | .list [.atom "lab", a] => (lab? a).map .label
  | .list (.atom "list" :: xs) => (xs.mapM lab?).map .list
  | .list [.atom "sl", a, b, c] => do
      let a ← optLab? a; let b ← optLab? b; let c ← optInt? c
      pure (.slice a b c)
  | .list (.atom "mask" :: xs) => (xs.mapM bool?).map .mask
  | _ => none

private def hop? : SExp → Option (HOp Lab)
  | .list [.atom "ap", k] => (labs? k).map .append
  | .list [.atom "ex", t] => (level? t).map .extend
  | .list [.atom "iter"] => some .readIter
  | .list [.atom "len"] => some .readLen
  | .list [.atom "values"] => some .readValues
  | .list [.atom "vad", d] => (nat? d).map .readValuesAtDepth
  | .list [.atom "in", k] => (labs? k).map .readContains
  | _ => none

private def ofObs : HObs Lab → SExp
  | .none => .atom "N"
  | .raised e => .list [.atom "err", .atom e.toString]
  | .tuples ts => .list [.atom "tuples", ofTuples ts]
  | .nat n => .list [.atom "nat", .atom (toString n)]
  | .column c => .list [.atom "col", ofLabs c]
  | .bool b => .list [.atom "bool", ofBool b]

/-- the answer of `level_drop`: a tree, or the flat label list when a single depth is left -/
private def ofDropped : Level Lab → SExp
  | .leaf ls _ => ofLabs ls
  | t => ofLevel t

private def optTuples (r : Option (List (List Lab))) : Except Err SExp :=
  match r with
  | none => .error .other
  | some ts => .ok (ofTuples ts)

def levelOps : List SExp → Option String
  | [.atom "level.fromlabels", ts] => do
      let ts ← tuples? ts
      pure (answer ((Level.fromLabels ts).map ofLevel))
  | [.atom "level.views", t, depth] => do
      let t ← level? t; let depth ← nat? depth
      let cols := (Level.toTypeBlocks t depth).map fun cs => .list (cs.map ofLabs)
      pure (answer (do
        let it ← optTuples t.iter
        let cols ← cols
        pure (.list [ofTuples t.tuples, it, cols, .atom (toString t.len), .atom (toString t.depth)])))
  | [.atom "level.contains", t, depth, k] => do
      let t ← level? t; let depth ← nat? depth; let k ← labs? k
      pure (answer (.ok (ofBool (t.containsKey depth k))))
  | [.atom "level.leafloc", t, k] => do
      let t ← level? t; let k ← labs? k
      pure (answer ((t.leafLocToIloc k).map fun i => .atom (toString i)))
  | [.atom "level.loc", t, .list sels] => do
      let t ← level? t; let sels ← sels.mapM sel?
      pure (answer ((t.locToIloc sels).map ofIKey))
  | [.atom "level.append", t, depth, k] => do
      let t ← level? t; let depth ← nat? depth; let k ← labs? k
      pure (answer ((t.append depth k).map ofLevel))
  | [.atom "level.extend", t, o] => do
      let t ← level? t; let o ← level? o
      let r := t.extend o
      pure (answer (.ok (.list [ofLevel r.1, match r.2 with | none => .atom "N" | some e => .atom e.toString])))
  | [.atom "level.dropinner", t, k] => do
      let t ← level? t; let k ← nat? k
      pure (answer ((t.levelDropInner k).map ofDropped))
  | [.atom "level.dropouter", t, k] => do
      let t ← level? t; let k ← nat? k
      pure (answer ((t.levelDropOuter k).map ofDropped))
  | [.atom "hstate.run", t, depth, .list ops] => do
      let t ← level? t; let depth ← nat? depth; let ops ← ops.mapM hop?
      let r := (HState.ofLevel t depth).run ops
      pure (answer (.ok (.list [ofLevel r.1.levels, .list (r.2.map ofObs)])))
  | _ => none

end SF.Drv
