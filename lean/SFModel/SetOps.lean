/-
  SFModel.SetOps — index set algebra and label alignment of binary operators (property C06).

  Mirrors (static_frame/core):
    * util.py  `resolve_dtype` (kind granularity), `_ufunc_set_1d`, `_ufunc_set_2d`
      (shortcut tree: empty operands; `assume_unique` + same length + element-wise equal → the left
       operand; str/non-str or object operands → `frozenset` algebra + `sorted` when it succeeds;
       otherwise NumPy's sorted set functions)
    * index.py `Index.equals`, `Index._ufunc_set` (equals shortcut), index_hierarchy.py `_ufunc_set`
    * index_correspondence.py `IndexCorrespondence.from_correspondence`
    * series.py `Series.reindex`, `Series._ufunc_binary_operator`
    * type_blocks.py `resize_blocks` (column granularity), frame.py `Frame.reindex`,
      `Frame._ufunc_binary_operator` (Frame × Frame, Frame × Series on both axes, scalars, arrays)

  NumPy's `union1d` / `intersect1d` / `setdiff1d` are parameters ("sorted set of …"), validated by the
  harness against the real functions.  No Mathlib import: the driver loads this file.
-/
import SFModel.Basic

namespace SF
namespace SetOps

/-! ### dtype kinds and `resolve_dtype` -/

inductive Kind
  | int | float | bool | str | dt | obj
deriving DecidableEq, Repr, Inhabited

/-- `util.resolve_dtype` at kind granularity. -/
def resolveKind (a b : Kind) : Kind :=
  if a = b then a
  else if a = .obj ∨ b = .obj then .obj
  else if a = .str ∨ b = .str ∨ a = .bool ∨ b = .bool ∨ a = .dt ∨ b = .dt then .obj
  else .float

inductive SetOp
  | union | inter | diff
deriving DecidableEq, Repr, Inhabited

/-- What Python / NumPy ordering does with labels: `le` is the total order used by `np.unique`
    and `sorted`; `sortable l` says whether `sorted(l)` succeeds (no `TypeError`);
    `scramble` is the (arbitrary) iteration order of a `frozenset`. -/
structure PyOrd (α : Type) where
  le : α → α → Bool
  sortable : List α → Bool
  scramble : List α → List α

/-- A `frozenset` iterates every element it holds exactly once. -/
def PyOrd.Lawful {α} (o : PyOrd α) : Prop := ∀ l, (o.scramble l).Perm l

section
variable {α : Type} [DecidableEq α]

/-- keep one copy of every element (what building a set does) -/
def dedup : List α → List α
  | [] => []
  | x :: xs => if x ∈ xs then dedup xs else x :: dedup xs

/-- sorting (structural insertion sort, so that closed instances evaluate in the kernel; on
    distinct elements of a total order every sorting algorithm gives the same list) -/
def insertBy (le : α → α → Bool) (x : α) : List α → List α
  | [] => [x]
  | y :: ys => if le x y then x :: y :: ys else y :: insertBy le x ys

def sortBy (le : α → α → Bool) : List α → List α
  | [] => []
  | x :: xs => insertBy le x (sortBy le xs)

/-- `np.unique`: the distinct elements, sorted. -/
def sortDedup (o : PyOrd α) (l : List α) : List α := sortBy o.le (dedup l)

/-- `np.union1d(a, b)` -/
def npUnion (o : PyOrd α) (a b : List α) : List α := sortDedup o (a ++ b)
/-- `np.intersect1d(a, b, assume_unique=…)`: sorted common elements -/
def npIntersect (o : PyOrd α) (a b : List α) : List α := sortDedup o (a.filter (· ∈ b))
/-- `np.setdiff1d(a, b, assume_unique)`: `a` (made unique and sorted unless assumed unique)
    without the members of `b` -/
def npSetdiff (o : PyOrd α) (a b : List α) (assumeUnique : Bool) : List α :=
  (if assumeUnique then a else sortDedup o a).filter (· ∉ b)

/-- `frozenset(a) <op> frozenset(b)` as a list without repeats (before iteration order is applied) -/
def pySetOp (op : SetOp) (a b : List α) : List α :=
  match op with
  | .union => dedup (a ++ b)
  | .inter => dedup (a.filter (· ∈ b))
  | .diff => dedup (a.filter (· ∉ b))

/-- `try: result = sorted(result) except TypeError: pass` -/
def trySorted (o : PyOrd α) (l : List α) : List α :=
  if o.sortable l then sortBy o.le l else l

def pySetPath (o : PyOrd α) (op : SetOp) (a b : List α) : List α :=
  trySorted o (o.scramble (pySetOp op a b))

/-- `(array == other).all()` for arrays of the same length -/
def arraysEqual (a b : List α) : Bool :=
  (List.zipWith (fun x y => decide (x = y)) a b).all id

/-- `util._ufunc_set_1d(func, array, other, assume_unique=…)`; `ka`, `kb` are the dtype kinds. -/
def ufuncSet1d (o : PyOrd α) (op : SetOp) (ka kb : Kind) (a b : List α) (assumeUnique : Bool) :
    List α :=
  let dtype := resolveKind ka kb
  -- optimizations for empty arrays
  if op = .inter ∧ (a.length = 0 ∨ b.length = 0) then []
  else if op = .diff ∧ a.length = 0 then []
  else
    let short : Option (List α) :=
      if assumeUnique then
        if op = .union ∧ a.length = 0 then some b
        else if op = .union ∧ b.length = 0 then some a
        else if op = .diff ∧ b.length = 0 then some a
        else if a.length = b.length ∧ arraysEqual a b = true then
          some (if op = .diff then [] else a)
        else none
      else none
    match short with
    | some r => r
    | none =>
      let setCompare := (ka == .str) != (kb == .str)
      if setCompare = true ∨ dtype = .obj then pySetPath o op a b
      else
        match op with
        | .union => npUnion o a b
        | .inter => npIntersect o a b
        | .diff => npSetdiff o a b assumeUnique

/-- `util._ufunc_set_2d` on rows (tuples).  Same shortcut tree; the comparison is on the shapes;
    only an object result dtype goes through `frozenset`; otherwise NumPy's functions work on a
    structured view of the rows (width 1: on the flattened array). -/
def ufuncSet2d (o : PyOrd (List α)) (op : SetOp) (ka kb : Kind) (a b : List (List α))
    (assumeUnique : Bool) : List (List α) :=
  let dtype := resolveKind ka kb
  if op = .inter ∧ (a.length = 0 ∨ b.length = 0) then []
  else if op = .diff ∧ a.length = 0 then []
  else
    let short : Option (List (List α)) :=
      if assumeUnique then
        if op = .union ∧ a.length = 0 then some b
        else if op = .union ∧ b.length = 0 then some a
        else if op = .diff ∧ b.length = 0 then some a
        else if a.length = b.length ∧ arraysEqual a b = true then
          some (if op = .diff then [] else a)
        else none
      else none
    match short with
    | some r => r
    | none =>
      if dtype = .obj then pySetPath o op a b
      else
        match op with
        | .union => npUnion o a b
        | .inter => npIntersect o a b
        | .diff => npSetdiff o a b assumeUnique

/-! ### Index -/

structure Idx (α : Type) where
  labels : List α
  kind : Kind
deriving Repr, DecidableEq

/-- `Index.equals(other, compare_dtype=…)` (labels without NaN). -/
def Idx.equals (a b : Idx α) (compareDtype : Bool) : Bool :=
  decide (a.labels.length = b.labels.length) && (!compareDtype || decide (a.kind = b.kind)) &&
    arraysEqual a.labels b.labels

/-- the right operand of a set operation: an Index, an array, or another iterable
    (`iterable_to_array_1d` reports whether it is known to be unique) -/
inductive Operand (α : Type)
  | index (i : Idx α)
  | array (labels : List α) (kind : Kind)
  | iterable (labels : List α) (kind : Kind) (unique : Bool)

/-- `Index._ufunc_set(func, other)`: the labels of the resulting index. -/
def Idx.ufuncSet (o : PyOrd α) (op : SetOp) (self : Idx α) (other : Operand α) : List α :=
  match other with
  | .index oi =>
    if self.equals oi true = true then (if op = .diff then [] else self.labels)
    else ufuncSet1d o op self.kind oi.kind self.labels oi.labels true
  | .array ls k => ufuncSet1d o op self.kind k self.labels ls false
  | .iterable ls k u => ufuncSet1d o op self.kind k self.labels ls u

/-- kind of the result index (`resolve_dtype`; the identity shortcuts return an operand) -/
def Idx.union (o : PyOrd α) (self other : Idx α) : Idx α :=
  ⟨self.ufuncSet o .union (.index other), resolveKind self.kind other.kind⟩

/-! ### positions of labels, lookups -/

/-- `Index._loc_to_iloc(label)`; `none` = KeyError -/
def posOf (ls : List α) (x : α) : Option Nat :=
  if x ∈ ls then some (ls.idxOf x) else none

/-- `Index._loc_to_iloc(array of labels)` -/
def locsOf (ls : List α) : List α → Option (List Nat)
  | [] => some []
  | k :: ks =>
    match posOf ls k, locsOf ls ks with
    | some i, some is => some (i :: is)
    | _, _ => none

end

section
variable {α β : Type} [DecidableEq α]

/-- value stored under a label (`none` when the label is absent) -/
def lookup (ls : List α) (vs : List β) (l : α) : Option β :=
  match posOf ls l with
  | some i => vs[i]?
  | none => none

/-- `values[iloc]` with an integer list; `none` = IndexError -/
def gather (vs : List β) : List Nat → Option (List β)
  | [] => some []
  | i :: is =>
    match vs[i]?, gather vs is with
    | some v, some r => some (v :: r)
    | _, _ => none

/-- `base[iloc_dst] = vals` (fancy assignment of equally long lists); `none` = IndexError / shape error -/
def scatter (base : List β) : List Nat → List β → Option (List β)
  | [], [] => some base
  | i :: is, v :: vs => if i < base.length then scatter (base.set i v) is vs else none
  | _, _ => none

/-! ### IndexCorrespondence -/

structure IC where
  hasCommon : Bool
  isSubset : Bool
  ilocSrc : List Nat
  ilocDst : List Nat
  size : Nat
deriving Repr, DecidableEq

/-- `IndexCorrespondence.from_correspondence(src_index, dst_index)` for depth-1 indices
    (`none` = a KeyError of `_loc_to_iloc`, shown impossible in `fromCorrespondence_some`). -/
def fromCorrespondence (o : PyOrd α) (src dst : Idx α) : Option IC :=
  let common := ufuncSet1d o .inter src.kind dst.kind src.labels dst.labels true
  let hasCommon := decide (common.length > 0)
  let size := dst.labels.length
  if hasCommon then
    if common.length = dst.labels.length then
      -- use the new index to retain order
      match locsOf src.labels dst.labels with
      | some is => some ⟨true, true, is, List.range size, size⟩
      | none => none
    else
      match locsOf src.labels common, locsOf dst.labels common with
      | some s, some d => some ⟨true, false, s, d, size⟩
      | _, _ => none
  else some ⟨false, false, [], [], size⟩

/-- the array part of `Series.reindex` after the correspondence is known -/
def reindexValues (ic : IC) (fill : β) (vs : List β) : Option (List β) :=
  if ic.isSubset then gather vs ic.ilocSrc
  else
    let base := List.replicate ic.size fill
    if ic.hasCommon then
      match gather vs ic.ilocSrc with
      | some g => scatter base ic.ilocDst g
      | none => none
    else some base

/-! ### Series -/

structure Series (α β : Type) where
  index : Idx α
  values : List β
deriving Repr, DecidableEq

def Series.WF (s : Series α β) : Prop := s.index.labels.Nodup ∧ s.values.length = s.index.labels.length

instance (s : Series α β) : Decidable s.WF := by unfold Series.WF; infer_instance

def Series.get? (s : Series α β) (l : α) : Option β := lookup s.index.labels s.values l

/-- `Series.reindex(index, fill_value=fill, check_equals=…)`; errors are lookup errors. -/
def Series.reindex (o : PyOrd α) (s : Series α β) (index : Idx α) (fill : β) (checkEquals : Bool) :
    Except Err (Series α β) :=
  if checkEquals && s.index.equals index false then .ok ⟨index, s.values⟩
  else
    match fromCorrespondence o s.index index with
    | none => .error .lookup
    | some ic =>
      match reindexValues ic fill s.values with
      | some vs => .ok ⟨index, vs⟩
      | none => .error .lookup

/-- element-wise operator on equally long arrays (NumPy raises on a length mismatch) -/
def zipOp (op : β → β → β) (a b : List β) : Except Err (List β) :=
  if a.length = b.length then .ok (List.zipWith op a b) else .error .value

/-- the right operand of a binary operator on a Series -/
inductive SOperand (α β : Type)
  | series (s : Series α β)
  | array (vs : List β)
  | scalar (v : β)

/-- `Series._ufunc_binary_operator(operator, other)`; `na` is the fill of `reindex` (NaN). -/
def Series.binop (o : PyOrd α) (op : β → β → β) (na : β) (self : Series α β) (other : SOperand α β) :
    Except Err (Series α β) :=
  match other with
  | .series t =>
    if self.index.equals t.index false then
      (zipOp op self.values t.values).map (⟨self.index, ·⟩)
    else
      let index := self.index.union o t.index
      match self.reindex o index na false, t.reindex o index na false with
      | .ok a, .ok b => (zipOp op a.values b.values).map (⟨index, ·⟩)
      | .error e, _ => .error e
      | _, .error e => .error e
  | .array vs => (zipOp op self.values vs).map (⟨self.index, ·⟩)
  | .scalar v => .ok ⟨self.index, self.values.map (op · v)⟩

/-! ### Frame (column granularity: `cols[j]` is the array of column `j`) -/

structure Frame (α β : Type) where
  index : Idx α
  columns : Idx α
  cols : List (List β)
deriving Repr, DecidableEq

def Frame.WF (f : Frame α β) : Prop :=
  f.index.labels.Nodup ∧ f.columns.labels.Nodup ∧ f.cols.length = f.columns.labels.length ∧
    ∀ c ∈ f.cols, c.length = f.index.labels.length

instance (f : Frame α β) : Decidable f.WF := by unfold Frame.WF; infer_instance

/-- cell under (row label, column label) -/
def Frame.get? (f : Frame α β) (r c : α) : Option β :=
  match lookup f.columns.labels f.cols c with
  | some col => lookup f.index.labels col r
  | none => none

/-- one column through the index correspondence in the *both axes* branch of `resize_blocks`
    (subset: fancy selection; otherwise a fill array that receives the common rows, if any). -/
def resizeColBoth (ic : IC) (fill : β) (col : List β) : Except Err (List β) :=
  if ic.isSubset then
    match gather col ic.ilocSrc with
    | some g => .ok g
    | none => .error .lookup
  else
    let base := List.replicate ic.size fill
    if ic.hasCommon then
      match gather col ic.ilocSrc with
      | some g => match scatter base ic.ilocDst g with
        | some r => .ok r
        | none => .error .lookup
      | none => .error .lookup
    else .ok base

/-- `dict(zip(columns_ic.iloc_dst, columns_ic.iloc_src))` then `for idx in range(size)` -/
def dstToSrc (ic : IC) (idx : Nat) : Option Nat := (ic.ilocDst.zip ic.ilocSrc).lookup idx

def mapMExcept {γ δ : Type} (f : γ → Except Err δ) : List γ → Except Err (List δ)
  | [] => .ok []
  | x :: xs =>
    match f x, mapMExcept f xs with
    | .ok y, .ok ys => .ok (y :: ys)
    | .error e, _ => .error e
    | _, .error e => .error e

/-- the `for idx in range(columns_ic.size)` loop of `resize_blocks`: a destination column mapped by
    `dst_to_src` is the source column (passed through `g`, the row treatment); any other is a fresh
    column of fill values. -/
def colLoop (cic : IC) (cols : List (List β)) (g : List β → Except Err (List β)) (fillCol : List β) :
    Except Err (List (List β)) :=
  mapMExcept (fun idx =>
    match dstToSrc cic idx with
    | some j => match cols[j]? with
      | some col => g col
      | none => .error .lookup
    | none => .ok fillCol) (List.range cic.size)

/-- `TypeBlocks.resize_blocks(index_ic, columns_ic, fill_value)` at column granularity
    (`rows` = current row count). -/
def resizeCols (rows : Nat) (indexIc columnsIc : Option IC) (fill : β) (cols : List (List β)) :
    Except Err (List (List β)) :=
  match columnsIc, indexIc with
  | none, none => .ok cols
  | none, some iic =>
    mapMExcept (fun col =>
      match reindexValues iic fill col with
      | some r => .ok r
      | none => .error .lookup) cols
  | some cic, none =>
    if !cic.hasCommon then .ok (List.replicate cic.size (List.replicate rows fill))
    else colLoop cic cols .ok (List.replicate rows fill)
  | some cic, some iic =>
    if !cic.hasCommon && !iic.hasCommon then
      .ok (List.replicate cic.size (List.replicate iic.size fill))
    else
      -- `dst_to_src` is empty when the columns have nothing in common: every column is a fill column
      colLoop cic cols (resizeColBoth iic fill) (List.replicate iic.size fill)

/-- one axis of `Frame.reindex`: `None` keeps the current index; an index equal to the current one
    (`check_equals`) needs no correspondence -/
def axisCorr (o : PyOrd α) (cur : Idx α) (new : Option (Idx α)) : Except Err (Idx α × Option IC) :=
  match new with
  | none => .ok (cur, none)
  | some ni =>
    if cur.equals ni false then .ok (ni, none)
    else match fromCorrespondence o cur ni with
      | some ic => .ok (ni, some ic)
      | none => .error .lookup

/-- `Frame.reindex(index=…, columns=…, fill_value=fill, check_equals=True)` -/
def Frame.reindex (o : PyOrd α) (f : Frame α β) (index columns : Option (Idx α)) (fill : β) :
    Except Err (Frame α β) :=
  match axisCorr o f.index index, axisCorr o f.columns columns with
  | .ok (ni, iic), .ok (nc, cic) =>
    (resizeCols f.index.labels.length iic cic fill f.cols).map (⟨ni, nc, ·⟩)
  | .error e, _ => .error e
  | _, .error e => .error e

inductive FOperand (α β : Type)
  | frame (f : Frame α β)
  | series (s : Series α β) (axis : Nat)
  | scalar (v : β)
  | array1 (vs : List β) (axis : Nat)
  | array2 (cols : List (List β))

/-- cell-wise operator on two equally shaped column lists -/
def zipCols (op : β → β → β) : List (List β) → List (List β) → Except Err (List (List β))
  | [], [] => .ok []
  | a :: as, b :: bs =>
    match zipOp op a b, zipCols op as bs with
    | .ok c, .ok cs => .ok (c :: cs)
    | .error e, _ => .error e
    | _, .error e => .error e
  | _, _ => .error .value

/-- `Frame(TypeBlocks.from_blocks(blocks), index=…, columns=…)` as the operators call it, without a
    shape reference: an empty block iterator gives no row count (ErrorInitTypeBlocks). -/
def Frame.ofBlocks (index columns : Idx α) (cols : List (List β)) : Except Err (Frame α β) :=
  if cols.isEmpty then .error .init else .ok ⟨index, columns, cols⟩

/-- `Frame._ufunc_binary_operator(operator, other, axis)` -/
def Frame.binop (o : PyOrd α) (op : β → β → β) (na : β) (self : Frame α β) (other : FOperand α β) :
    Except Err (Frame α β) :=
  match other with
  | .frame g =>
    let columns := self.columns.union o g.columns
    let index := self.index.union o g.index
    match self.reindex o (some index) (some columns) na, g.reindex o (some index) (some columns) na with
    | .ok a, .ok b =>
      match zipCols op a.cols b.cols with
      | .ok cs => Frame.ofBlocks index columns cs
      | .error e => .error e
    | .error e, _ => .error e
    | _, .error e => .error e
  | .series s axis =>
    if axis = 0 then
      let columns := self.columns.union o s.index
      match self.reindex o none (some columns) na, s.reindex o columns na true with
      | .ok a, .ok b =>
        if a.cols.length = b.values.length then
          Frame.ofBlocks self.index columns (List.zipWith (fun col v => col.map (op · v)) a.cols b.values)
        else .error .value
      | .error e, _ => .error e
      | _, .error e => .error e
    else if axis = 1 then
      let index := self.index.union o s.index
      match self.reindex o (some index) none na, s.reindex o index na true with
      | .ok a, .ok b =>
        match mapMExcept (fun col => zipOp op col b.values) a.cols with
        | .ok cs => Frame.ofBlocks index self.columns cs
        | .error e => .error e
      | .error e, _ => .error e
      | _, .error e => .error e
    else .error .value
  | .scalar v => Frame.ofBlocks self.index self.columns (self.cols.map (·.map (op · v)))
  | .array1 vs axis =>
    if axis = 0 ∧ vs.length = self.cols.length then
      Frame.ofBlocks self.index self.columns (List.zipWith (fun col v => col.map (op · v)) self.cols vs)
    else if axis = 1 ∧ vs.length = self.index.labels.length then
      match mapMExcept (fun col => zipOp op col vs) self.cols with
      | .ok cs => Frame.ofBlocks self.index self.columns cs
      | .error e => .error e
    else .error .value
  | .array2 cs =>
    match zipCols op self.cols cs with
    | .ok r => Frame.ofBlocks self.index self.columns r
    | .error e => .error e

end

end SetOps
end SF
