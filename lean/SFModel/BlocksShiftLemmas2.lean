/- Lemmas about SFModel.BlocksShift, part 2: `_shift_blocks` as a whole. -/
import SFModel.BlocksShiftLemmas

namespace SF

section cut
variable {β : Type}

/-- start position of the walk in the column list: `self._index[-(c % n)]` -/
def startPos (n : Nat) (c : Int) : Nat :=
  if (c % (n : Int)).toNat = 0 then 0 else n - (c % (n : Int)).toNat

/-- the column list `_shift_blocks` produces before the row shift, as the code assembles it:
    the list cut at the start position, head first; head or tail replaced by
    `min n |c|` fill columns when not wrapping; `rep`: the other part is dropped when every column is
    shifted out (the repaired code), `rep = false`: the pinned code. -/
def walkCols (rep : Bool) (cols : List β) (c : Int) (wrap : Bool) (f : β) : List β :=
  let n := cols.length
  let q := startPos n c
  if wrap then cols.drop q ++ cols.take q
  else if c > 0 then
    List.replicate (min n c.natAbs) f ++ (if rep = true ∧ c ≥ (n : Int) then [] else cols.take q)
  else if c < 0 then
    (if rep = true ∧ -c ≥ (n : Int) then [] else cols.drop q) ++ List.replicate (min n c.natAbs) f
  else cols

theorem startPos_lt (n : Nat) (c : Int) (hn : 0 < n) : startPos n c < n := by
  obtain ⟨h1, h2⟩ := shift_emod_bounds c n hn
  unfold startPos; split <;> omega

/-- wrapping: the walk is a rotation -/
theorem walkCols_roll (rep : Bool) (cols : List β) (c : Int) (f : β) (hn : 0 < cols.length) :
    walkCols rep cols c true f = rollSpec cols c := by
  obtain ⟨h1, h2⟩ := shift_emod_bounds c cols.length hn
  unfold walkCols rollSpec List.rotateRight startPos
  simp only [if_true]
  obtain ⟨m, hmm⟩ : ∃ m : Nat, c % (cols.length : Int) = m := ⟨(c % (cols.length : Int)).toNat, by omega⟩
  rw [hmm, Int.toNat_natCast]
  have hm : m < cols.length := by omega
  by_cases hl : cols.length ≤ 1
  · have : m = 0 := by omega
    subst this; simp [hl]
  · rw [if_neg hl, Nat.mod_eq_of_lt hm]
    by_cases h0 : m = 0
    · subst h0; simp
    · rw [if_neg h0]

theorem shift_emod_of_small_pos (c : Int) (n : Nat) (h0 : 0 ≤ c) (h1 : c < n) : c % (n : Int) = c :=
  Int.emod_eq_of_lt h0 h1

theorem shift_emod_of_small_neg (c : Int) (n : Nat) (h0 : c < 0) (h1 : -(n : Int) < c) : c % (n : Int) = c + n := by
  rw [← Int.add_emod_right]; exact Int.emod_eq_of_lt (by omega) (by omega)

theorem shift_emod_self_nat (n : Nat) : (n : Int) % (n : Int) = 0 := Int.emod_self

/-- the PINNED code, not wrapping, a column shift it handled: the walk is the shift with fill -/
theorem walkCols_shift_pinned (cols : List β) (c : Int) (f : β) (_hn : 0 < cols.length)
    (hok : ColShiftOk cols.length c) : walkCols false cols c false f = shiftSpec cols c f := by
  unfold walkCols shiftSpec startPos
  simp only [Bool.false_eq_true, if_false, false_and]
  by_cases hp : c > 0
  · rw [if_pos hp, if_pos (show 0 ≤ c by omega)]
    have hmin : min cols.length c.natAbs = min c.toNat cols.length := by omega
    rw [hmin]
    congr 1
    rcases hok with ⟨_, hle⟩ | ⟨_, hmod⟩
    · by_cases heq : c = cols.length
      · rw [heq, shift_emod_self_nat]; simp
      · rw [shift_emod_of_small_pos c cols.length (by omega) (by omega), if_neg (by omega)]
    · rw [hmod]
      simp only [Int.toNat_zero, if_true, List.take_zero]
      -- `c` is a positive multiple of the length: nothing is left of the input
      have hge : (cols.length : Int) ≤ c := by
        have := Int.le_of_dvd (by omega) (Int.dvd_of_emod_eq_zero hmod)
        exact this
      rw [show cols.length - c.toNat = 0 by omega, List.take_zero]
  · rw [if_neg hp]
    by_cases hneg : c < 0
    · rw [if_pos hneg, if_neg (show ¬ 0 ≤ c by omega)]
      rcases hok with ⟨hlo, _⟩ | ⟨hpos, _⟩
      · rw [shift_emod_of_small_neg c cols.length hneg hlo, if_neg (by omega)]
        have h1 : cols.length - (c + (cols.length : Int)).toNat = c.natAbs := by omega
        have h2 : min cols.length c.natAbs = min c.natAbs cols.length := by omega
        rw [h1, h2]
      · omega
    · have : c = 0 := by omega
      subst this
      simp

/-- the code as it is, not wrapping: the walk is the shift with fill for EVERY column shift -/
theorem walkCols_shift (cols : List β) (c : Int) (f : β) (hn : 0 < cols.length) :
    walkCols true cols c false f = shiftSpec cols c f := by
  by_cases hbig : (cols.length : Int) ≤ c ∨ c ≤ -(cols.length : Int)
  · -- every column is shifted out
    unfold walkCols shiftSpec
    simp only [Bool.false_eq_true, if_false, true_and]
    rcases hbig with h | h
    · rw [if_pos (show c > 0 by omega), if_pos (show c ≥ (cols.length : Int) by omega),
        if_pos (show 0 ≤ c by omega)]
      rw [show min cols.length c.natAbs = min c.toNat cols.length by omega,
        show cols.length - c.toNat = 0 by omega, List.take_zero]
    · rw [if_neg (show ¬ c > 0 by omega), if_pos (show c < 0 by omega),
        if_pos (show -c ≥ (cols.length : Int) by omega), if_neg (show ¬ 0 ≤ c by omega)]
      rw [List.drop_of_length_le (show cols.length ≤ c.natAbs by omega),
        show min cols.length c.natAbs = min c.natAbs cols.length by omega]
  · -- inside the width the repaired and the pinned code agree
    have hok : ColShiftOk cols.length c := Or.inl ⟨by omega, by omega⟩
    rw [← walkCols_shift_pinned cols c f hn hok]
    unfold walkCols
    simp only [Bool.false_eq_true, if_false, true_and, false_and]
    rw [if_neg (show ¬ c ≥ (cols.length : Int) by omega), if_neg (show ¬ -c ≥ (cols.length : Int) by omega)]

/-- the PINNED code, not wrapping, any other column shift: the walk yields too many columns -/
theorem walkCols_overshoot_pinned (cols : List β) (c : Int) (f : β) (hn : 0 < cols.length)
    (hbad : ¬ ColShiftOk cols.length c) : cols.length < (walkCols false cols c false f).length := by
  have hq := startPos_lt cols.length c hn
  obtain ⟨h1, h2⟩ := shift_emod_bounds c cols.length hn
  unfold ColShiftOk at hbad
  unfold walkCols
  simp only [Bool.false_eq_true, if_false, false_and]
  by_cases hp : c > 0
  · rw [if_pos hp]
    have hgt : (cols.length : Int) < c := by
      by_cases h : c ≤ cols.length
      · exact absurd (Or.inl ⟨by omega, h⟩) hbad
      · omega
    have hmod : c % (cols.length : Int) ≠ 0 := fun h => hbad (Or.inr ⟨hp, h⟩)
    have hq0 : 0 < startPos cols.length c := by unfold startPos; rw [if_neg (by omega)]; omega
    simp only [List.length_append, List.length_replicate, List.length_take]
    omega
  · rw [if_neg hp]
    by_cases hneg : c < 0
    · rw [if_pos hneg]
      have hle : c ≤ -(cols.length : Int) := by
        by_cases h : -(cols.length : Int) < c
        · exact absurd (Or.inl ⟨h, by omega⟩) hbad
        · omega
      simp only [List.length_append, List.length_replicate, List.length_drop]
      omega
    · exact absurd (Or.inl ⟨by omega, by omega⟩) hbad

/-- the code as it is always yields as many columns as it was given -/
theorem walkCols_length (cols : List β) (c : Int) (wrap : Bool) (f : β) (hn : 0 < cols.length) :
    (walkCols true cols c wrap f).length = cols.length := by
  cases wrap with
  | true => rw [walkCols_roll true cols c f hn, rollSpec_length]
  | false => rw [walkCols_shift cols c f hn, shiftSpec_length]

/-- the pinned code: right number of columns for the shifts it handled, more otherwise -/
theorem walkCols_length_pinned_ok (cols : List β) (c : Int) (wrap : Bool) (f : β) (hn : 0 < cols.length)
    (hok : wrap = true ∨ ColShiftOk cols.length c) : (walkCols false cols c wrap f).length = cols.length := by
  cases wrap with
  | true => rw [walkCols_roll false cols c f hn, rollSpec_length]
  | false =>
    rcases hok with h | h
    · cases h
    · rw [walkCols_shift_pinned cols c f hn h, shiftSpec_length]

theorem walkCols_length_ge (rep : Bool) (cols : List β) (c : Int) (wrap : Bool) (f : β) (hn : 0 < cols.length) :
    cols.length ≤ (walkCols rep cols c wrap f).length := by
  cases rep with
  | true => rw [walkCols_length cols c wrap f hn]; exact Nat.le_refl _
  | false =>
    by_cases hok : wrap = true ∨ ColShiftOk cols.length c
    · rw [walkCols_length_pinned_ok cols c wrap f hn hok]; exact Nat.le_refl _
    · have hw : wrap = false := by cases wrap <;> simp_all
      subst hw
      exact Nat.le_of_lt (walkCols_overshoot_pinned cols c f hn (fun h => hok (Or.inr h)))

end cut

/-! ### assembling `_shift_blocks` -/

section assemble
variable {α : Type} (resolve : DT → DT → DT) (conv : DT → DT → α → α)

theorem shift_colsDT_rows (bs : List (Block α)) (n : Nat) (h : ∀ b ∈ bs, b.RowsOk n) :
    ∀ x ∈ colsDT bs, x.2.length = n := by
  intro x hx
  simp only [colsDT, List.mem_flatMap, Block.colsDT, List.mem_map] at hx
  obtain ⟨b, hb, c, hc, rfl⟩ := hx
  exact h b hb c hc

theorem shiftColSpec_id (n : Nat) (r : Int) (wrap : Bool) (fill : α) (fillDT : DT) (x : DT × List α)
    (hx : x.2.length = n) (hid : (wrap = true ∧ r % (n : Int) = 0) ∨ (wrap = false ∧ r = 0)) :
    shiftColSpec resolve conv r wrap fill fillDT x = x := by
  unfold shiftColSpec
  rcases hid with ⟨hw, hr⟩ | ⟨hw, hr⟩
  · subst hw; simp only [if_true]
    rw [rollSpec_of_emod_zero x.2 r (by rw [hx]; exact hr)]
  · subst hw; subst hr; simp

theorem TB.ncols_eq_colsDT (tb : TB α) : tb.ncols = (colsDT tb.blocks).length := by
  rw [colsDT_length]; rfl

theorem shiftStarts_spec (tb : TB α) (hr : 0 < tb.rows) (hc : 0 < tb.ncols) (r c : Int) :
    tb.shiftStarts r c = .ok (-(c % (tb.ncols : Int)), -(r % (tb.rows : Int))) := by
  unfold TB.shiftStarts
  rw [pyMod_pos c _ hc, pyMod_pos r _ hr]

theorem shift_colsDT_fill (t : DT) (w : Nat) (col : List α) :
    (Block.d2 t (List.replicate w col)).colsDT = List.replicate w (t, col) := by
  simp [Block.colsDT, Block.colsOf, Block.dt]

/-- `_shift_blocks` on a frame with at least one row and one column: it never raises, and its
    columns are the walk (cut at the start position, fill part) followed by the per-column row shift. -/
theorem TB.shiftBlocks_general (rep : Bool) (tb : TB α) (hwf : tb.WF) (hr : 0 < tb.rows) (hc : 0 < tb.ncols)
    (r c : Int) (wrap : Bool) (fill : α) (fillDT : DT) :
    ∃ bs, tb.shiftBlocksGen resolve conv rep r c wrap fill fillDT = .ok bs ∧
      (∀ b ∈ bs, 0 < b.width ∧ b.RowsOk tb.rows) ∧
      colsDT bs =
        (walkCols rep (colsDT tb.blocks) c wrap (fillDT, List.replicate tb.rows (conv fillDT fillDT fill))).map
          (shiftColSpec resolve conv r wrap fill fillDT) := by
  have hn := tb.ncols_eq_colsDT
  have hwfall : ∀ b ∈ tb.blocks, 0 < b.width ∧ b.RowsOk tb.rows := fun b hb => ⟨hwf.1 b hb, hwf.2 b hb⟩
  have hrowsCols := shift_colsDT_rows tb.blocks tb.rows hwf.2
  obtain ⟨hc1, hc2⟩ := shift_emod_bounds c tb.ncols hc
  obtain ⟨m, hm⟩ : ∃ m : Nat, c % (tb.ncols : Int) = m := ⟨(c % (tb.ncols : Int)).toNat, by omega⟩
  have hmlt : m < tb.ncols := by omega
  have hq : startPos (colsDT tb.blocks).length c = if m = 0 then 0 else tb.ncols - m := by
    unfold startPos; rw [← hn, hm, Int.toNat_natCast]
  have hq' : startPos tb.ncols c = if m = 0 then 0 else tb.ncols - m := by
    unfold startPos; rw [hm, Int.toNat_natCast]
  unfold TB.shiftBlocksGen
  rw [shiftStarts_spec tb hr hc]
  simp only
  -- early exit 1
  by_cases he1 : wrap = true ∧ -(c % (tb.ncols : Int)) = 0 ∧ -(r % (tb.rows : Int)) = 0
  · rw [if_pos he1]
    obtain ⟨hw, hmc, hmr⟩ := he1
    subst hw
    refine ⟨_, rfl, hwfall, ?_⟩
    have hm0 : m = 0 := by omega
    simp only [walkCols, hq, hm0, if_true, List.drop_zero, List.take_zero, List.append_nil]
    symm
    calc (colsDT tb.blocks).map _ = (colsDT tb.blocks).map id := by
          apply List.map_congr_left
          intro x hx
          exact shiftColSpec_id resolve conv tb.rows r true fill fillDT x (hrowsCols x hx) (Or.inl ⟨rfl, by omega⟩)
      _ = _ := by simp
  · rw [if_neg he1]
    by_cases he2 : wrap = false ∧ c = 0 ∧ r = 0
    · rw [if_pos he2]
      obtain ⟨hw, hc0, hr0⟩ := he2
      subst hw; subst hc0; subst hr0
      refine ⟨_, rfl, hwfall, ?_⟩
      simp only [walkCols, Bool.false_eq_true, if_false, Int.lt_irrefl, gt_iff_lt]
      symm
      calc (colsDT tb.blocks).map _ = (colsDT tb.blocks).map id := by
            apply List.map_congr_left
            intro x hx
            exact shiftColSpec_id resolve conv tb.rows 0 false fill fillDT x (hrowsCols x hx) (Or.inr ⟨rfl, rfl⟩)
        _ = _ := by simp
    · rw [if_neg he2]
      obtain ⟨head, tail, hht, hhead, htail, hmem⟩ := tb.shiftHeadTail_spec hwf m hmlt
      rw [hm, hht]
      simp only
      -- the fill part
      generalize hht' : tb.shiftFillPartGen conv rep c wrap fill fillDT (head, tail) = ht'
      have hfill : (∀ b ∈ ht'.1 ++ ht'.2, 0 < b.width ∧ b.RowsOk tb.rows) ∧
          colsDT (ht'.1 ++ ht'.2) =
            walkCols rep (colsDT tb.blocks) c wrap (fillDT, List.replicate tb.rows (conv fillDT fillDT fill)) := by
        have hemp : ∀ b ∈ [Block.d2 fillDT (List.replicate (min tb.ncols c.natAbs)
            (List.replicate tb.rows (conv fillDT fillDT fill)))], c ≠ 0 → 0 < b.width ∧ b.RowsOk tb.rows := by
          intro b hb hc0
          simp only [List.mem_singleton] at hb
          subst hb
          refine ⟨by simp only [Block.width, List.length_replicate]; omega, ?_⟩
          intro x hx
          simp only [Block.colsOf] at hx
          rw [List.eq_of_mem_replicate hx, List.length_replicate]
        subst hht'
        simp only [TB.shiftFillPartGen, walkCols, ← hn, hq']
        cases wrap with
        | true =>
          simp only [Bool.true_eq_false, if_false, if_true]
          exact ⟨hmem, by rw [colsDT_append, hhead, htail]⟩
        | false =>
          simp only [if_true, Bool.false_eq_true, if_false]
          by_cases hp : c > 0
          · rw [if_pos hp, if_pos hp]
            by_cases hdrop : rep = true ∧ c ≥ (tb.ncols : Int)
            · simp only [if_pos hdrop]
              refine ⟨?_, ?_⟩
              · intro b hb
                rw [List.append_nil] at hb
                exact hemp b hb (by omega)
              · simp [colsDT, shift_colsDT_fill]
            · simp only [if_neg hdrop]
              refine ⟨?_, ?_⟩
              · intro b hb
                rcases List.mem_append.mp hb with hb | hb
                · exact hemp b hb (by omega)
                · exact hmem b (List.mem_append_right _ hb)
              · rw [colsDT_append, htail]
                simp [colsDT, shift_colsDT_fill]
          · rw [if_neg hp, if_neg hp]
            by_cases hneg : c < 0
            · rw [if_pos hneg, if_pos hneg]
              by_cases hdrop : rep = true ∧ -c ≥ (tb.ncols : Int)
              · simp only [if_pos hdrop]
                refine ⟨?_, ?_⟩
                · intro b hb
                  rw [List.nil_append] at hb
                  exact hemp b hb (by omega)
                · simp [colsDT, shift_colsDT_fill]
              · simp only [if_neg hdrop]
                refine ⟨?_, ?_⟩
                · intro b hb
                  rcases List.mem_append.mp hb with hb | hb
                  · exact hmem b (List.mem_append_left _ hb)
                  · exact hemp b hb (by omega)
                · rw [colsDT_append, hhead]
                  simp [colsDT, shift_colsDT_fill]
            · rw [if_neg hneg, if_neg hneg]
              refine ⟨hmem, ?_⟩
              have hc0 : c = 0 := by omega
              have hm0 : m = 0 := by subst hc0; simp at hm; omega
              rw [colsDT_append, hhead, htail, hm0]
              simp
      obtain ⟨hmem', hcols'⟩ := hfill
      -- the row loop
      rw [shift_mapM_ok_of_forall _ _ (fun b => b.shiftRowsSpec resolve conv r wrap fill fillDT)]
      · refine ⟨_, rfl, ?_, ?_⟩
        · intro b hb
          obtain ⟨b0, hb0, rfl⟩ := List.mem_map.mp hb
          obtain ⟨h1, h2⟩ := hmem' b0 hb0
          exact ⟨by rw [Block.shiftRowsSpec_width]; exact h1,
            Block.shiftRowsSpec_rowsOk resolve conv b0 _ h2 r wrap fill fillDT⟩
        · rw [shift_colsDT_map_blocks _ _ (shiftColSpec resolve conv r wrap fill fillDT)
            (fun b => Block.shiftRowsSpec_colsDT resolve conv b r wrap fill fillDT), hcols']
      · intro b hb
        obtain ⟨_, hrows⟩ := hmem' b hb
        by_cases hcond : (wrap = true ∧ -(r % (tb.rows : Int)) = 0) ∨ (wrap = false ∧ r = 0)
        · rw [if_pos hcond]
          rw [Block.shiftRowsSpec_id resolve conv b tb.rows hrows r wrap fill fillDT
            (by rcases hcond with ⟨h1, h2⟩ | h
                · exact Or.inl ⟨h1, by omega⟩
                · exact Or.inr h)]
        · rw [if_neg hcond]
          exact Block.arrayShift_rows_spec resolve conv b tb.rows hr hrows r wrap fill fillDT

/-- `from_blocks` of blocks that all have columns and the same row count -/
theorem TB.fromBlocks_none_ok (bs : List (Block α)) (n : Nat) (hne : bs ≠ [])
    (h : ∀ b ∈ bs, 0 < b.width ∧ b.RowsOk n) : TB.fromBlocks bs none = .ok ⟨n, bs⟩ := by
  obtain ⟨rc', out, hgo⟩ := TB.fromBlocks_go_ok bs n none [] (Or.inl rfl) (fun b hb => (h b hb).2)
  obtain ⟨h1, _, h3, h4⟩ := TB.fromBlocks_go_spec _ _ _ _ _ hgo
  have hfilter : bs.filter (fun b => 0 < b.width) = bs := by
    apply List.filter_eq_self.mpr
    intro b hb; simpa using (h b hb).1
  rw [hfilter] at h1 h3 h4
  simp only [List.reverse_nil, List.nil_append] at h1
  subst h1
  unfold TB.fromBlocks
  rw [hgo]
  cases rc' with
  | none => exact absurd (h4 rfl) hne
  | some r' =>
    simp only
    -- the row count `from_blocks` found is the common row count
    obtain ⟨b, hb⟩ := List.exists_mem_of_ne_nil _ hne
    obtain ⟨hw, hrows⟩ := h b hb
    obtain ⟨col, hcol⟩ : ∃ col, col ∈ b.colsOf := by
      apply List.exists_mem_of_ne_nil
      intro hnil
      have := Block.colsOf_length b
      rw [hnil] at this; simp at this; omega
    have e1 := hrows col hcol
    have e2 := h3 r' rfl b hb col hcol
    rw [← e1, e2]

theorem shift_zip_map_fst_snd {A B : Type} (l : List (A × B)) : (l.map Prod.fst).zip (l.map Prod.snd) = l := by
  induction l with
  | nil => rfl
  | cons x xs ih => simp [ih]

theorem TB.colsDT_eq_zip (tb : TB α) : colsDT tb.blocks = tb.dtypes.zip tb.cols := by
  rw [TB.cols_eq_colsDT, TB.dtypes_eq_colsDT, shift_zip_map_fst_snd]

theorem shift_colsDT_ne_nil_of_length {bs : List (Block α)} (h : 0 < (colsDT bs).length) : bs ≠ [] := by
  intro hnil; subst hnil; simp at h

/-- `Frame.roll` / `Frame.shift` on a frame with at least one row and one column: the outcome is
    decided by the number of columns the walk yields. -/
theorem TB.frameShift_general (rep : Bool) (tb : TB α) (hwf : tb.WF) (hr : 0 < tb.rows) (hc : 0 < tb.ncols)
    (r c : Int) (wrap : Bool) (fill : α) (fillDT : DT) :
    ∃ bs, tb.shiftBlocksGen resolve conv rep r c wrap fill fillDT = .ok bs ∧
      colsDT bs =
        (walkCols rep (colsDT tb.blocks) c wrap (fillDT, List.replicate tb.rows (conv fillDT fillDT fill))).map
          (shiftColSpec resolve conv r wrap fill fillDT) ∧
      (TB.mk tb.rows bs).WF ∧
      tb.frameShiftGen resolve conv rep r c wrap fill fillDT =
        if (colsDT bs).length ≠ tb.ncols then .error .init else .ok ⟨tb.rows, bs⟩ := by
  obtain ⟨bs, h1, h2, h3⟩ := tb.shiftBlocks_general resolve conv rep hwf hr hc r c wrap fill fillDT
  refine ⟨bs, h1, h3, ⟨fun b hb => (h2 b hb).1, fun b hb => (h2 b hb).2⟩, ?_⟩
  have hlen : tb.ncols ≤ (colsDT bs).length := by
    rw [h3, List.length_map, tb.ncols_eq_colsDT]
    have hpos : 0 < (colsDT tb.blocks).length := by rw [← tb.ncols_eq_colsDT]; exact hc
    exact walkCols_length_ge rep _ c wrap _ hpos
  have hne : bs ≠ [] := shift_colsDT_ne_nil_of_length (by omega)
  unfold TB.frameShiftGen
  rw [h1]
  simp only
  rw [TB.fromBlocks_none_ok bs tb.rows hne h2]
  simp only [ne_eq, not_true_eq_false, or_false]
  rw [TB.ncols_eq_colsDT ⟨tb.rows, bs⟩]

/-- a zero-sized axis: `column_shift % column_count` / `row_shift % row_count` raise
    ZeroDivisionError before anything else happens — also for the shifts `(0, 0)` -/
theorem TB.shiftBlocks_zero_axis (rep : Bool) (tb : TB α) (h : tb.rows = 0 ∨ tb.ncols = 0)
    (r c : Int) (wrap : Bool) (fill : α) (fillDT : DT) :
    tb.shiftBlocksGen resolve conv rep r c wrap fill fillDT = .error .other := by
  unfold TB.shiftBlocksGen TB.shiftStarts
  by_cases hc : tb.ncols = 0
  · rw [hc, pyMod_zero]
  · rw [pyMod_pos c _ (by omega)]
    have hr : tb.rows = 0 := by omega
    simp only [hr, pyMod_zero]

end assemble

end SF
