/- Helper lemmas for SFModel.SetOps, part 2: Index equality, Series reindex / operators. -/
import SFModel.SetOpsLemmas

namespace SF
namespace SetOps

section
variable {α β : Type} [DecidableEq α]

/-! ### Index.equals and the union of equal indices -/

theorem Idx.equals_iff {a b : Idx α} {cd : Bool} :
    a.equals b cd = true ↔ a.labels = b.labels ∧ (cd = true → a.kind = b.kind) := by
  unfold Idx.equals
  constructor
  · intro h
    simp only [Bool.and_eq_true, decide_eq_true_eq, Bool.or_eq_true, Bool.not_eq_true'] at h
    obtain ⟨⟨hl, hk⟩, he⟩ := h
    refine ⟨(arraysEqual_iff hl).mp he, ?_⟩
    intro hcd
    rcases hk with hk | hk
    · simp [hcd] at hk
    · exact hk
  · rintro ⟨hl, hk⟩
    simp only [Bool.and_eq_true, decide_eq_true_eq, Bool.or_eq_true, Bool.not_eq_true']
    refine ⟨⟨by rw [hl], ?_⟩, by rw [hl]; exact arraysEqual_self _⟩
    cases cd
    · exact Or.inl rfl
    · exact Or.inr (hk rfl)

theorem ufuncSet1d_self (o : PyOrd α) (op : SetOp) (ka kb : Kind) (a : List α) :
    ufuncSet1d o op ka kb a a true = if op = .diff then [] else a := by
  rw [ufuncSet1d_eq_core, setCore_self]

/-- set operation of an index with an index holding the same labels in the same order -/
theorem Idx.ufuncSet_same_labels (o : PyOrd α) (op : SetOp) (a b : Idx α) (h : a.labels = b.labels) :
    a.ufuncSet o op (.index b) = if op = .diff then [] else a.labels := by
  unfold Idx.ufuncSet
  simp only []
  split
  · rfl
  · rw [← h, ufuncSet1d_self]

theorem Idx.ufuncSet_index_spec {o : PyOrd α} (ho : o.Lawful) (op : SetOp) (a b : Idx α)
    (ha : a.labels.Nodup) (hb : b.labels.Nodup) :
    (∀ x, x ∈ a.ufuncSet o op (.index b) ↔ op.holds x a.labels b.labels) ∧
      (a.ufuncSet o op (.index b)).Nodup := by
  by_cases h : a.labels = b.labels
  · rw [Idx.ufuncSet_same_labels o op a b h]
    cases op
    · exact ⟨fun x => by simp [SetOp.holds, h], ha⟩
    · exact ⟨fun x => by simp [SetOp.holds, h], ha⟩
    · exact ⟨fun x => by simp [SetOp.holds, h], List.nodup_nil⟩
  · unfold Idx.ufuncSet
    simp only []
    have hne : ¬ (a.equals b true = true) := fun he => h (Idx.equals_iff.mp he).1
    rw [if_neg hne, ufuncSet1d_eq_core]
    exact setCore_spec ho op _ ha (fun _ => hb)

theorem Idx.union_labels_spec {o : PyOrd α} (ho : o.Lawful) (a b : Idx α)
    (ha : a.labels.Nodup) (hb : b.labels.Nodup) :
    (∀ x, x ∈ (a.union o b).labels ↔ x ∈ a.labels ∨ x ∈ b.labels) ∧ (a.union o b).labels.Nodup :=
  Idx.ufuncSet_index_spec ho .union a b ha hb

/-! ### Series.reindex -/

theorem Series.get?_isSome {s : Series α β} (hs : s.WF) {l : α} (h : l ∈ s.index.labels) :
    ∃ v, s.get? l = some v := lookup_isSome h hs.2

theorem Series.get?_none {s : Series α β} {l : α} (h : l ∉ s.index.labels) : s.get? l = none :=
  lookup_of_not_mem h

/-- `Series.reindex` never fails on well-formed input and is exact, in every branch. -/
theorem Series.reindex_spec {o : PyOrd α} (ho : o.Lawful) (s : Series α β) (hs : s.WF) (idx : Idx α)
    (hi : idx.labels.Nodup) (fill : β) (ce : Bool) :
    ∃ r, s.reindex o idx fill ce = .ok r ∧ r.index = idx ∧ r.WF ∧
      ∀ l, r.get? l = if l ∈ idx.labels then some ((s.get? l).getD fill) else none := by
  unfold Series.reindex
  split
  · rename_i h
    simp only [Bool.and_eq_true] at h
    have hl := (Idx.equals_iff.mp h.2).1
    refine ⟨_, rfl, rfl, ⟨hi, by simpa [← hl] using hs.2⟩, ?_⟩
    intro l
    simp only [Series.get?, ← hl]
    split
    · rename_i hm
      obtain ⟨v, hv⟩ := lookup_isSome hm hs.2
      simp [hv]
    · rename_i hm
      exact lookup_of_not_mem hm
  · obtain ⟨ic, out, hic, _, hout, hlen, hval⟩ :=
      reindexValues_spec ho s.index idx s.values fill hs.1 hi hs.2
    rw [hic]
    simp only [hout]
    refine ⟨_, rfl, rfl, ⟨hi, hlen⟩, ?_⟩
    intro l
    simp only [Series.get?]
    split
    · rename_i hm
      exact hval l hm
    · rename_i hm
      exact lookup_of_not_mem hm

/-! ### element-wise operators -/

theorem lookup_zipWith {ls : List α} {va vb : List β} {op : β → β → β} {l : α} {x y : β}
    (ha : lookup ls va l = some x) (hb : lookup ls vb l = some y) :
    lookup ls (List.zipWith op va vb) l = some (op x y) := by
  by_cases hm : l ∈ ls
  · rw [lookup_of_mem hm] at ha hb ⊢
    rw [List.getElem?_zipWith, ha, hb]
  · rw [lookup_of_not_mem hm] at ha
    cases ha

theorem lookup_map {ls : List α} {va : List β} {g : β → β} {l : α} :
    lookup ls (va.map g) l = (lookup ls va l).map g := by
  by_cases hm : l ∈ ls
  · rw [lookup_of_mem hm, lookup_of_mem hm, List.getElem?_map]
  · rw [lookup_of_not_mem hm, lookup_of_not_mem hm]; rfl

theorem zipOp_ok {op : β → β → β} {a b : List β} (h : a.length = b.length) :
    zipOp op a b = .ok (List.zipWith op a b) := by
  simp [zipOp, h]

/-- `Series × Series`: no error, labels are the union, every label holds `op` of the two aligned
    values (the fill value standing in for an absent label). -/
theorem Series.binop_series_spec {o : PyOrd α} (ho : o.Lawful) (op : β → β → β) (na : β)
    (a b : Series α β) (ha : a.WF) (hb : b.WF) :
    ∃ r, a.binop o op na (.series b) = .ok r ∧ r.WF ∧
      r.index.labels = a.index.ufuncSet o .union (.index b.index) ∧
      (∀ x, x ∈ r.index.labels ↔ x ∈ a.index.labels ∨ x ∈ b.index.labels) ∧
      ∀ l ∈ r.index.labels,
        r.get? l = some (op ((a.get? l).getD na) ((b.get? l).getD na)) := by
  unfold Series.binop
  simp only []
  split
  · rename_i heq
    have hl := (Idx.equals_iff.mp heq).1
    have hlen : a.values.length = b.values.length := by rw [ha.2, hb.2, hl]
    rw [zipOp_ok hlen]
    refine ⟨_, rfl, ⟨ha.1, by simp [← hlen, ha.2]⟩, ?_, ?_, ?_⟩
    · simp [Idx.ufuncSet_same_labels o .union a.index b.index hl]
    · intro x; simp [hl]
    · intro l hl'
      obtain ⟨x, hx⟩ := Series.get?_isSome ha hl'
      obtain ⟨y, hy⟩ := Series.get?_isSome hb (hl ▸ hl')
      simp only [hx, hy, Option.getD_some]
      unfold Series.get? at hx hy ⊢
      rw [← hl] at hy
      exact lookup_zipWith hx hy
  · obtain ⟨hum, hun⟩ := Idx.union_labels_spec ho a.index b.index ha.1 hb.1
    obtain ⟨ra, hra, hria, hrwa, hrga⟩ := Series.reindex_spec ho a ha (a.index.union o b.index) hun na false
    obtain ⟨rb, hrb, hrib, hrwb, hrgb⟩ := Series.reindex_spec ho b hb (a.index.union o b.index) hun na false
    rw [hra, hrb]
    simp only []
    have hlen : ra.values.length = rb.values.length := by rw [hrwa.2, hrwb.2, hria, hrib]
    rw [zipOp_ok hlen]
    refine ⟨_, rfl, ⟨hun, ?_⟩, rfl, hum, ?_⟩
    · simp only [List.length_zipWith, ← hlen, Nat.min_self, hrwa.2, hria]
    · intro l hl'
      have h1 := hrga l
      have h2 := hrgb l
      rw [if_pos hl'] at h1 h2
      unfold Series.get? at h1 h2 ⊢
      rw [hria] at h1
      rw [hrib] at h2
      exact lookup_zipWith h1 h2

end

end SetOps
end SF
