/- Helper lemmas for SFModel.Concat, part 5: Frame.from_concat along the columns (axis 1), overlay. -/
import SFModel.ConcatLemmas4

namespace SF
namespace Concat
open SF.SetOps

section
variable {α β : Type} [DecidableEq α]

/-! ### axis 1: members aligned on the rows, columns side by side -/

/-- the member's columns once its rows are those of the result -/
def alignedCols (o : PyOrd α) (idx : Idx α) (fill : β) (f : BFrame α β) : List (List β) :=
  match alignCols o idx fill f with
  | .ok c => c
  | .error _ => []

theorem alignCols_spec {o : PyOrd α} (ho : o.Lawful) (idx : Idx α) (hi : idx.labels.Nodup) (fill : β)
    (f : BFrame α β) (hf : f.toFrame.WF) :
    alignCols o idx fill f = .ok (alignedCols o idx fill f) ∧
      (⟨idx, f.columns, alignedCols o idx fill f⟩ : Frame α β).WF ∧
      ∀ x ∈ idx.labels, ∀ c ∈ f.columns.labels,
        (⟨idx, f.columns, alignedCols o idx fill f⟩ : Frame α β).get? x c =
          some ((f.toFrame.get? x c).getD fill) := by
  by_cases hd : f.index.labels ≠ idx.labels
  · obtain ⟨r, hr, hrw, hri, hrc, hrg⟩ := Frame.reindex_spec ho f.toFrame hf (some idx) none
      (fun _ h => by cases h; exact hi) (fun _ h => by cases h) fill
    simp only [Option.getD_none, Option.getD_some] at hri hrc
    have h1 : alignCols o idx fill f = .ok r.cols := by simp only [alignCols, if_pos hd, hr]
    have h2 : alignedCols o idx fill f = r.cols := by simp only [alignedCols, h1]
    rw [h2]
    have hreq : (⟨idx, f.columns, r.cols⟩ : Frame α β) = r := by
      cases r with
      | mk ri rc rcols =>
        simp only at hri hrc
        subst hri
        have : rc = f.columns := hrc
        subst this
        rfl
    rw [hreq]
    exact ⟨h1, hrw, fun x hx c hc => hrg x (hri ▸ hx) c (hrc ▸ hc)⟩
  · have hd' : f.index.labels = idx.labels := by
      by_cases h : f.index.labels = idx.labels
      · exact h
      · exact absurd h hd
    have h1 : alignCols o idx fill f = .ok f.toFrame.cols := by simp only [alignCols, if_neg hd]
    have h2 : alignedCols o idx fill f = f.toFrame.cols := by simp only [alignedCols, h1]
    rw [h2]
    obtain ⟨w1, w2, w3, w4⟩ := hf
    refine ⟨h1, ⟨hi, w2, w3, by rw [← hd']; exact w4⟩, ?_⟩
    intro x hx c hc
    obtain ⟨v, hv⟩ := Frame.get?_isSome ⟨w1, w2, w3, w4⟩ (show x ∈ f.toFrame.index.labels from hd' ▸ hx)
      (show c ∈ f.toFrame.columns.labels from hc)
    rw [hv]
    simp only [Frame.get?, BFrame.toFrame, hd'] at hv ⊢
    exact hv

/-- members on the same rows, side by side: each member's columns keep their cells -/
theorem hstack_get? (idx : Idx α) (kind : Kind) (ms : List (Frame α β))
    (hwf : ∀ m ∈ ms, m.WF) (hidx : ∀ m ∈ ms, m.index = idx) (hi : idx.labels.Nodup)
    (hnd : (ms.map (·.columns.labels)).flatten.Nodup) :
    let R : Frame α β := ⟨idx, ⟨(ms.map (·.columns.labels)).flatten, kind⟩, (ms.map (·.cols)).flatten⟩
    R.WF ∧ ∀ m ∈ ms, ∀ x, ∀ c ∈ m.columns.labels, R.get? x c = m.get? x c := by
  induction ms with
  | nil =>
    simp only [List.map_nil, List.flatten_nil]
    exact ⟨⟨hi, List.nodup_nil, rfl, fun c hc => by cases hc⟩, fun m hm => by cases hm⟩
  | cons m rest ih =>
    have hm := hwf m (by simp)
    have hmi : m.index = idx := hidx m (by simp)
    simp only [List.map_cons, List.flatten_cons] at hnd ⊢
    have hnd' := (List.nodup_append.mp hnd).2.1
    have hdisj := (List.nodup_append.mp hnd).2.2
    obtain ⟨hRwf, hRget⟩ := ih (fun y hy => hwf y (by simp [hy])) (fun y hy => hidx y (by simp [hy])) hnd'
    constructor
    · refine ⟨hi, hnd, ?_, ?_⟩
      · simp only [List.length_append]
        rw [hm.2.2.1, hRwf.2.2.1]
      · intro c hc
        rcases List.mem_append.mp hc with h | h
        · rw [hm.2.2.2 c h, hmi]
        · exact hRwf.2.2.2 c h
    · intro m' hm' x c hc
      simp only [Frame.get?]
      rw [lookup_append _ _ _ _ hm.2.2.1]
      rcases List.mem_cons.mp hm' with rfl | hm''
      · rw [if_pos hc, hmi]
      · have hcr : c ∈ (rest.map (·.columns.labels)).flatten :=
          List.mem_flatten.mpr ⟨_, List.mem_map.mpr ⟨m', hm'', rfl⟩, hc⟩
        have hc1 : c ∉ m.columns.labels := fun h => hdisj c h c hcr rfl
        rw [if_neg hc1]
        have := hRget m' hm'' x c hc
        simp only [Frame.get?] at this
        exact this

/-- `Frame.from_concat(frames, axis=1, union=…)` with derived labels: the column labels are the
    members' column labels in order; every member column keeps its cells under the result rows; a row
    the member lacks holds the fill value. -/
theorem fromConcat1_spec (cfg : Cfg α) (ho : cfg.o.Lawful) (f0 : BFrame α β) (rest : List (BFrame α β))
    (union : Bool) (fill : β)
    (hwf : ∀ f ∈ f0 :: rest, f.toFrame.WF)
    (hnd : ((f0 :: rest).map (·.columns.labels)).flatten.Nodup)
    (hne : ((f0 :: rest).map (·.columns.labels)).flatten ≠ []) :
    ∃ r, fromConcat1 cfg (f0 :: rest) union .none .none fill = .ok r ∧ r.WF ∧
      r.columns.labels = ((f0 :: rest).map (·.columns.labels)).flatten ∧
      r.index = indexManySet cfg.o union ((f0 :: rest).map (·.index)) ∧
      ∀ f ∈ f0 :: rest, ∀ x ∈ r.index.labels, ∀ c ∈ f.columns.labels,
        r.get? x c = some ((f.toFrame.get? x c).getD fill) := by
  have hidxnd : ∀ i ∈ (f0 :: rest).map (·.index), i.labels.Nodup := by
    intro i hi
    obtain ⟨f, hf, rfl⟩ := List.mem_map.mp hi
    exact (hwf f hf).1
  obtain ⟨hin, _⟩ := indexManySet_spec ho union f0.index (rest.map (·.index)) (by simpa using hidxnd)
  generalize hidx : indexManySet cfg.o union ((f0 :: rest).map (·.index)) = idx
  have hin' : idx.labels.Nodup := by rw [← hidx]; simpa using hin
  obtain ⟨cidx, hcidx, hcidxl⟩ := indexManyConcat_ok ((f0 :: rest).map (·.columns))
    (by simpa [List.map_map, Function.comp_def] using hnd)
  have hcidxl' : cidx.labels = ((f0 :: rest).map (·.columns.labels)).flatten := by
    rw [hcidxl, List.map_map]; rfl
  have hal := fun f (hf : f ∈ f0 :: rest) => alignCols_spec ho idx hin' fill f (hwf f hf)
  have hcolss : mapMExcept (alignCols cfg.o idx fill) (f0 :: rest) =
      .ok ((f0 :: rest).map (alignedCols cfg.o idx fill)) := mapMExcept_ok' (fun f hf => (hal f hf).1)
  -- the members as frames on the result rows
  let mem : BFrame α β → Frame α β := fun f => ⟨idx, f.columns, alignedCols cfg.o idx fill f⟩
  have hS := hstack_get? idx cidx.kind ((f0 :: rest).map mem)
    (fun m hm => by
      obtain ⟨f, hf, rfl⟩ := List.mem_map.mp hm
      exact (hal f hf).2.1)
    (fun m hm => by
      obtain ⟨f, hf, rfl⟩ := List.mem_map.mp hm
      rfl)
    hin'
    (by
      have : ((f0 :: rest).map mem).map (·.columns.labels) = (f0 :: rest).map (·.columns.labels) := by
        rw [List.map_map]; rfl
      rw [this]; exact hnd)
  have hl1 : ((f0 :: rest).map mem).map (·.columns.labels) = (f0 :: rest).map (·.columns.labels) := by
    rw [List.map_map]; rfl
  have hl2 : ((f0 :: rest).map mem).map (·.cols) = (f0 :: rest).map (alignedCols cfg.o idx fill) := by
    rw [List.map_map]; rfl
  rw [hl1, hl2] at hS
  have hflen : ((f0 :: rest).map (alignedCols cfg.o idx fill)).flatten.length =
      ((f0 :: rest).map (·.columns.labels)).flatten.length := hS.1.2.2.1
  have hne' : ((f0 :: rest).map (alignedCols cfg.o idx fill)).flatten.isEmpty = false := by
    cases hfl : ((f0 :: rest).map (alignedCols cfg.o idx fill)).flatten with
    | nil =>
      rw [hfl] at hflen
      exact absurd (List.length_eq_zero_iff.mp hflen.symm) hne
    | cons _ _ => rfl
  refine ⟨⟨idx, cidx, ((f0 :: rest).map (alignedCols cfg.o idx fill)).flatten⟩, ?_, ?_, hcidxl', rfl, ?_⟩
  · unfold fromConcat1
    simp only [List.isEmpty_cons, Bool.false_eq_true, if_false, alongIndexArg, hcidx, alignedIndexArg, hidx,
      hcolss, hne', finalAlongIndex]
  · have := hS.1
    rw [← hcidxl'] at this
    exact this
  · intro f hf x hx c hc
    have h1 := hS.2 (mem f) (List.mem_map.mpr ⟨f, hf, rfl⟩) x c hc
    have h2 := (hal f hf).2.2 x hx c hc
    rw [← h2, ← h1]
    simp only [Frame.get?, hcidxl']

end

end Concat
end SF
